package main

// GenCli.v: the filter-flag decision chain of replicateAction, statement by statement.
//
// Supported Go (anything else is an error):
//   stmt ::= var x []string | var x bool                      (zero value)
//          | x = e                                            (x one of tablelist/whitelist/regex)
//          | if c { stmt* } [else if ... | else { stmt* }]    (no init statement)
//          | return errors.New(...)
//   bool ::= len(l) != 0 | len(l) == 0 | b && b | b || b | !b | (b) | true | false | whitelist | regex
//   list ::= wl | bl | wlr | blr | tablelist        (the four locals are recognised by the config
//                                                    constant their GlobalStringSlice call reads)
// Every block becomes an expression of type option (list string * bool * bool)
// (None = the action returned an error; Some = the values of tablelist, whitelist, regex after it).

import (
	"fmt"
	"go/ast"
	"go/parser"
	"go/token"
	"strings"
)

var flagOfConst = map[string]string{
	"VAR_NAME_WHITELIST":       "wl",
	"VAR_NAME_BLACKLIST":       "bl",
	"VAR_NAME_WHITELIST_REGEX": "wlr",
	"VAR_NAME_BLACKLIST_REGEX": "blr",
}

// state variables of the chain and their Gallina zero values
var stateVars = map[string]string{"tablelist": "[]string", "whitelist": "bool", "regex": "bool"}

const stateTuple = "(tablelist, whitelist, regex)"

type cliTr struct {
	fset  *token.FileSet
	flags map[string]string // Go local name -> wl/bl/wlr/blr
}

func (t *cliTr) errf(n ast.Node, f string, a ...interface{}) error {
	return fmt.Errorf("%s: unsupported shape: %s", t.fset.Position(n.Pos()), fmt.Sprintf(f, a...))
}

func typeString(e ast.Expr) string {
	switch x := e.(type) {
	case *ast.Ident:
		return x.Name
	case *ast.ArrayType:
		if x.Len == nil {
			return "[]" + typeString(x.Elt)
		}
	}
	return "?"
}

// flagRead recognises  x := c.GlobalStringSlice(config.VAR_NAME_...)
func flagRead(s ast.Stmt) (local, flag string, ok bool) {
	as, isAs := s.(*ast.AssignStmt)
	if !isAs || as.Tok != token.DEFINE || len(as.Lhs) != 1 || len(as.Rhs) != 1 {
		return
	}
	id, isId := as.Lhs[0].(*ast.Ident)
	call, isCall := as.Rhs[0].(*ast.CallExpr)
	if !isId || !isCall || len(call.Args) != 1 {
		return
	}
	fun, isSel := call.Fun.(*ast.SelectorExpr)
	arg, isArgSel := call.Args[0].(*ast.SelectorExpr)
	if !isSel || fun.Sel.Name != "GlobalStringSlice" || !isArgSel {
		return
	}
	f, known := flagOfConst[arg.Sel.Name]
	return id.Name, f, known
}

// touches: does the statement declare or assign one of the state variables (at any depth)?
func touches(s ast.Stmt) bool {
	found := false
	ast.Inspect(s, func(n ast.Node) bool {
		switch x := n.(type) {
		case *ast.AssignStmt:
			for _, l := range x.Lhs {
				if id, ok := l.(*ast.Ident); ok && stateVars[id.Name] != "" {
					found = true
				}
			}
		case *ast.ValueSpec:
			for _, id := range x.Names {
				if stateVars[id.Name] != "" {
					found = true
				}
			}
		}
		return !found
	})
	return found
}

func (t *cliTr) listExpr(e ast.Expr) (string, error) {
	if id, ok := e.(*ast.Ident); ok {
		if f := t.flags[id.Name]; f != "" {
			return f, nil
		}
		if id.Name == "tablelist" {
			return "tablelist", nil
		}
	}
	return "", t.errf(e, "expected one of the four flag slices or tablelist")
}

func (t *cliTr) boolExpr(e ast.Expr) (string, error) {
	switch x := e.(type) {
	case *ast.ParenExpr:
		return t.boolExpr(x.X)
	case *ast.Ident:
		if x.Name == "true" || x.Name == "false" || x.Name == "whitelist" || x.Name == "regex" {
			return x.Name, nil
		}
	case *ast.UnaryExpr:
		if x.Op == token.NOT {
			a, err := t.boolExpr(x.X)
			return "(negb " + a + ")", err
		}
	case *ast.BinaryExpr:
		switch x.Op {
		case token.LAND, token.LOR:
			a, err := t.boolExpr(x.X)
			if err != nil {
				return "", err
			}
			b, err := t.boolExpr(x.Y)
			op := map[token.Token]string{token.LAND: "&&", token.LOR: "||"}[x.Op]
			return "(" + a + " " + op + " " + b + ")", err
		case token.NEQ, token.EQL: // len(l) != 0, len(l) == 0
			call, isCall := x.X.(*ast.CallExpr)
			zero, isLit := x.Y.(*ast.BasicLit)
			if isCall && isLit && zero.Kind == token.INT && zero.Value == "0" && len(call.Args) == 1 {
				if fn, ok := call.Fun.(*ast.Ident); ok && fn.Name == "len" {
					l, err := t.listExpr(call.Args[0])
					isEmpty := "(Nat.eqb (List.length " + l + ") 0)"
					if x.Op == token.NEQ {
						return "(negb " + isEmpty + ")", err
					}
					return isEmpty, err
				}
			}
		}
	}
	return "", t.errf(e, "boolean expression outside the grammar")
}

// block translates a statement list; final is the value of a block that falls off its end.
func (t *cliTr) block(stmts []ast.Stmt, final, ind string) (string, error) {
	if len(stmts) == 0 {
		return ind + final, nil
	}
	s, rest := stmts[0], stmts[1:]
	switch x := s.(type) {
	case *ast.DeclStmt:
		gd, ok := x.Decl.(*ast.GenDecl)
		if !ok || gd.Tok != token.VAR {
			return "", t.errf(s, "declaration other than var")
		}
		out := ""
		for _, sp := range gd.Specs {
			vs := sp.(*ast.ValueSpec)
			if len(vs.Names) != 1 || len(vs.Values) != 0 || vs.Type == nil {
				return "", t.errf(s, "var must declare one name, with a type and no value")
			}
			name, ty := vs.Names[0].Name, typeString(vs.Type)
			if stateVars[name] != ty {
				return "", t.errf(s, "var %s %s (expected tablelist []string, whitelist bool or regex bool)", name, ty)
			}
			zero := map[string]string{"[]string": "(@nil string)", "bool": "false"}[ty]
			out += ind + "let " + name + " := " + zero + " in\n"
		}
		r, err := t.block(rest, final, ind)
		return out + r, err
	case *ast.AssignStmt:
		if x.Tok != token.ASSIGN || len(x.Lhs) != 1 || len(x.Rhs) != 1 {
			return "", t.errf(s, "assignment must be a single  x = e")
		}
		id, ok := x.Lhs[0].(*ast.Ident)
		if !ok || stateVars[id.Name] == "" {
			return "", t.errf(s, "assignment to something other than tablelist/whitelist/regex")
		}
		var e string
		var err error
		if stateVars[id.Name] == "bool" {
			e, err = t.boolExpr(x.Rhs[0])
		} else {
			e, err = t.listExpr(x.Rhs[0])
		}
		if err != nil {
			return "", err
		}
		r, err := t.block(rest, final, ind)
		return ind + "let " + id.Name + " := " + e + " in\n" + r, err
	case *ast.ReturnStmt:
		if len(rest) != 0 || len(x.Results) != 1 {
			return "", t.errf(s, "return must be the last statement of its block and return one value")
		}
		call, ok := x.Results[0].(*ast.CallExpr)
		if ok {
			if fn, isSel := call.Fun.(*ast.SelectorExpr); isSel && fn.Sel.Name == "New" {
				if pkg, isId := fn.X.(*ast.Ident); isId && pkg.Name == "errors" {
					return ind + "None", nil
				}
			}
		}
		return "", t.errf(s, "return of something other than errors.New(...)")
	case *ast.IfStmt:
		if len(rest) == 0 {
			return t.ifStmt(x, final, ind)
		}
		// statements follow the if: run it to a state (or an error), then continue
		inner, err := t.ifStmt(x, "Some "+stateTuple, ind+"       ")
		if err != nil {
			return "", err
		}
		r, err := t.block(rest, final, ind)
		return ind + "match (\n" + inner + "\n" + ind + ") with\n" + ind + "| None => None\n" + ind + "| Some " + stateTuple + " =>\n" + r + "\n" + ind + "end", err
	}
	return "", t.errf(s, "statement outside the grammar")
}

func (t *cliTr) ifStmt(x *ast.IfStmt, final, ind string) (string, error) {
	if x.Init != nil {
		return "", t.errf(x, "if with an init statement")
	}
	c, err := t.boolExpr(x.Cond)
	if err != nil {
		return "", err
	}
	th, err := t.block(x.Body.List, final, ind+"  ")
	if err != nil {
		return "", err
	}
	var el string
	switch e := x.Else.(type) {
	case nil:
		el = ind + "  " + final
	case *ast.BlockStmt:
		el, err = t.block(e.List, final, ind+"  ")
	case *ast.IfStmt:
		el, err = t.ifStmt(e, final, ind+"  ")
	default:
		err = t.errf(x, "else branch")
	}
	return ind + "if " + c + " then\n" + th + "\n" + ind + "else\n" + el, err
}

func genCli(mainFile string) (string, error) {
	fset := token.NewFileSet()
	f, err := parser.ParseFile(fset, mainFile, nil, 0)
	if err != nil {
		return "", err
	}
	var fn *ast.FuncDecl
	for _, d := range f.Decls {
		if fd, ok := d.(*ast.FuncDecl); ok && fd.Name.Name == "replicateAction" && fd.Recv == nil {
			fn = fd
		}
	}
	if fn == nil || fn.Body == nil {
		return "", fmt.Errorf("%s: func replicateAction not found", mainFile)
	}
	t := &cliTr{fset: fset, flags: map[string]string{}}
	first, last := -1, -1
	for i, s := range fn.Body.List {
		if local, flag, ok := flagRead(s); ok {
			for l, fl := range t.flags {
				if fl == flag || l == local {
					return "", t.errf(s, "flag %s / local %s read twice", flag, local)
				}
			}
			t.flags[local] = flag
			if first >= 0 {
				return "", t.errf(s, "flag read after the start of the decision chain")
			}
			continue
		}
		if touches(s) {
			if first < 0 {
				first = i
			}
			last = i
		}
	}
	if len(t.flags) != 4 {
		return "", fmt.Errorf("%s: expected the four GlobalStringSlice reads (whitelist, blacklist, whitelist-regex, blacklist-regex), found %v", mainFile, t.flags)
	}
	if first < 0 {
		return "", fmt.Errorf("%s: no assignment to tablelist/whitelist/regex in replicateAction", mainFile)
	}
	// the three results must be handed to the runner as filterConfig["<name>"] = <name>
	handed := map[string]bool{}
	for _, s := range fn.Body.List[last+1:] {
		as, ok := s.(*ast.AssignStmt)
		if !ok || len(as.Lhs) != 1 || len(as.Rhs) != 1 {
			continue
		}
		ix, isIx := as.Lhs[0].(*ast.IndexExpr)
		v, isId := as.Rhs[0].(*ast.Ident)
		if !isIx || !isId {
			continue
		}
		m, isM := ix.X.(*ast.Ident)
		k, isK := ix.Index.(*ast.BasicLit)
		if isM && isK && m.Name == "filterConfig" && k.Value == `"`+v.Name+`"` && stateVars[v.Name] != "" {
			handed[v.Name] = true
		}
	}
	if len(handed) != 3 {
		return "", fmt.Errorf("%s: expected filterConfig[\"whitelist\"|\"tablelist\"|\"regex\"] = the variable of that name after the chain, found %v", mainFile, handed)
	}
	body, err := t.block(fn.Body.List[first:last+1], "Some (whitelist, regex, tablelist)", "  ")
	if err != nil {
		return "", err
	}
	var sb strings.Builder
	sb.WriteString("(* The filter-flag decision chain of replicateAction (main/main.go), translated statement by\n")
	sb.WriteString("   statement.  wl bl wlr blr = the values of --whitelist --blacklist --whitelist-regex\n")
	sb.WriteString("   --blacklist-regex.  None = the action returns an error;\n")
	sb.WriteString("   Some (whitelist, regex, tablelist) = what is handed to filter.New through filterConfig. *)\n")
	sb.WriteString("From Coq Require Import List String Bool Arith.\nImport ListNotations.\n\n")
	sb.WriteString("Definition cli_filter_cfg (wl bl wlr blr : list string) : option (bool * bool * list string) :=\n")
	sb.WriteString(body)
	sb.WriteString(".\n")
	return sb.String(), nil
}
