package main

import (
	"os"
	"path/filepath"
	"strings"
	"testing"
)

const miniMain = `package main

func replicateAction(c *cli.Context) error {
	wl := c.GlobalStringSlice(config.VAR_NAME_WHITELIST)
	black := c.GlobalStringSlice(config.VAR_NAME_BLACKLIST)
	wlr := c.GlobalStringSlice(config.VAR_NAME_WHITELIST_REGEX)
	blr := c.GlobalStringSlice(config.VAR_NAME_BLACKLIST_REGEX)
	var tablelist []string
	var whitelist bool
	var regex bool
	if len(wl) != 0 && len(black) != 0 {
		return errors.New("no")
	} else if len(wl) != 0 {
		whitelist = true
		tablelist = wl
	} else {
		%s
	}
	regex = !(len(wlr) == 0) || len(blr) != 0
	filterConfig := make(map[string]interface{}, 0)
	filterConfig["whitelist"] = whitelist
	filterConfig["tablelist"] = tablelist
	filterConfig["regex"] = regex
	return nil
}
`

func translate(t *testing.T, elseBody string) (string, error) {
	t.Helper()
	p := filepath.Join(t.TempDir(), "main.go")
	if err := os.WriteFile(p, []byte(strings.Replace(miniMain, "%s", elseBody, 1)), 0o644); err != nil {
		t.Fatal(err)
	}
	return genCli(p)
}

func TestChainTranslatedStatementByStatement(t *testing.T) {
	v, err := translate(t, "whitelist = false\n\t\ttablelist = black")
	if err != nil {
		t.Fatal(err)
	}
	for _, want := range []string{
		"Definition cli_filter_cfg (wl bl wlr blr : list string)",
		"let tablelist := (@nil string) in",
		"if ((negb (Nat.eqb (List.length wl) 0)) && (negb (Nat.eqb (List.length bl) 0))) then\n           None",
		"let tablelist := bl in", // the local name 'black' is mapped through its config constant
		"let regex := ((negb (Nat.eqb (List.length wlr) 0)) || (negb (Nat.eqb (List.length blr) 0))) in",
		"Some (whitelist, regex, tablelist)",
	} {
		if !strings.Contains(v, want) {
			t.Errorf("missing %q in\n%s", want, v)
		}
	}
}

func TestRepairChangesOutput(t *testing.T) {
	a, _ := translate(t, "whitelist = false\n\t\ttablelist = black")
	b, err := translate(t, "if len(wlr) != 0 {\n\t\t\twhitelist = true\n\t\t\ttablelist = wlr\n\t\t} else {\n\t\t\ttablelist = black\n\t\t}")
	if err != nil {
		t.Fatal(err)
	}
	if a == b || !strings.Contains(b, "let tablelist := wlr in") {
		t.Errorf("repair not reflected:\n%s", b)
	}
}

func TestUnsupportedShapeIsAnError(t *testing.T) {
	for _, bad := range []string{
		`tablelist = append(black, "x")`,
		"for range black {\n\t\t\twhitelist = true\n\t\t}",
		"whitelist = len(black) > 1",
		"return nil",
	} {
		if _, err := translate(t, bad); err == nil {
			t.Errorf("accepted %q", bad)
		}
	}
}

func TestRealRepo(t *testing.T) {
	if _, err := os.Stat("/repo/main/main.go"); err != nil {
		t.Skip("no /repo")
	}
	if _, err := genCli("/repo/main/main.go"); err != nil {
		t.Error(err)
	}
	v, err := genConsts("/repo")
	if err != nil {
		t.Fatal(err)
	}
	for _, want := range []string{"Definition txns_seen_cap : N := 0%N.", "Definition kinesis_max_records : N := ", "Definition client_receive_timeout_nano : N := "} {
		if !strings.Contains(v, want) {
			t.Errorf("missing %q", want)
		}
	}
}
