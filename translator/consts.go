package main

// GenConsts.v: numeric constants and channel capacities read from the AST and evaluated with
// go/constant.  Durations are in nanoseconds.  A constant that cannot be found or evaluated is
// an error.

import (
	"fmt"
	"go/ast"
	"go/constant"
	"go/parser"
	"go/token"
	"path/filepath"
	"sort"
	"strings"
)

var timeUnits = map[string]int64{"Nanosecond": 1, "Microsecond": 1e3, "Millisecond": 1e6, "Second": 1e9, "Minute": 60e9, "Hour": 3600e9}

type srcFile struct {
	fset *token.FileSet
	file *ast.File
	path string
}

func parseSrc(repo, rel string) (*srcFile, error) {
	fset := token.NewFileSet()
	p := filepath.Join(repo, rel)
	f, err := parser.ParseFile(fset, p, nil, 0)
	return &srcFile{fset, f, p}, err
}

// topLevel returns the initialiser of a package-level const or var.
func (s *srcFile) topLevel(name string) ast.Expr {
	for _, d := range s.file.Decls {
		gd, ok := d.(*ast.GenDecl)
		if !ok || (gd.Tok != token.CONST && gd.Tok != token.VAR) {
			continue
		}
		for _, sp := range gd.Specs {
			vs := sp.(*ast.ValueSpec)
			for i, id := range vs.Names {
				if id.Name == name && i < len(vs.Values) {
					return vs.Values[i]
				}
			}
		}
	}
	return nil
}

// eval evaluates an integer constant expression: literals, + - * / << and parentheses,
// conversions T(x), time.<Unit>, and package-level constants of the same file.
func (s *srcFile) eval(e ast.Expr) (constant.Value, error) {
	bad := func() (constant.Value, error) {
		return nil, fmt.Errorf("%s: cannot evaluate constant expression", s.fset.Position(e.Pos()))
	}
	switch x := e.(type) {
	case *ast.BasicLit:
		if x.Kind == token.INT {
			return constant.MakeFromLiteral(x.Value, x.Kind, 0), nil
		}
	case *ast.ParenExpr:
		return s.eval(x.X)
	case *ast.Ident:
		if init := s.topLevel(x.Name); init != nil {
			return s.eval(init)
		}
	case *ast.SelectorExpr:
		if pkg, ok := x.X.(*ast.Ident); ok && pkg.Name == "time" {
			if u, ok := timeUnits[x.Sel.Name]; ok {
				return constant.MakeInt64(u), nil
			}
		}
	case *ast.CallExpr: // conversion: int64(x), time.Duration(x)
		if len(x.Args) == 1 {
			switch fn := x.Fun.(type) {
			case *ast.Ident:
				if strings.HasPrefix(fn.Name, "int") || strings.HasPrefix(fn.Name, "uint") {
					return s.eval(x.Args[0])
				}
			case *ast.SelectorExpr:
				if fn.Sel.Name == "Duration" {
					return s.eval(x.Args[0])
				}
			}
		}
	case *ast.BinaryExpr:
		a, err := s.eval(x.X)
		if err != nil {
			return nil, err
		}
		b, err := s.eval(x.Y)
		if err != nil {
			return nil, err
		}
		switch x.Op {
		case token.ADD, token.SUB, token.MUL:
			return constant.BinaryOp(a, x.Op, b), nil
		case token.QUO:
			if constant.Sign(b) != 0 {
				return constant.BinaryOp(a, token.QUO_ASSIGN, b), nil // integer division
			}
		case token.SHL:
			if n, ok := constant.Uint64Val(b); ok && n < 64 {
				return constant.Shift(a, token.SHL, uint(n)), nil
			}
		}
	}
	return bad()
}

func (s *srcFile) evalN(e ast.Expr) (string, error) {
	if e == nil {
		return "", fmt.Errorf("%s: constant not found", s.path)
	}
	v, err := s.eval(e)
	if err != nil {
		return "", err
	}
	if v.Kind() != constant.Int || constant.Sign(v) < 0 {
		return "", fmt.Errorf("%s: not a non-negative integer constant", s.fset.Position(e.Pos()))
	}
	return v.ExactString() + "%N", nil
}

// calls returns every call whose function is a selector (or identifier) named sel.
func (s *srcFile) calls(sel string) []*ast.CallExpr {
	var out []*ast.CallExpr
	ast.Inspect(s.file, func(n ast.Node) bool {
		if c, ok := n.(*ast.CallExpr); ok {
			switch fn := c.Fun.(type) {
			case *ast.SelectorExpr:
				if fn.Sel.Name == sel {
					out = append(out, c)
				}
			case *ast.Ident:
				if fn.Name == sel {
					out = append(out, c)
				}
			}
		}
		return true
	})
	return out
}

// chanCap returns the capacity expression of  name := make(chan T[, cap])  as a Gallina term
// over N together with its free identifiers (parameters of the definition).
func (s *srcFile) chanCap(name string) (params []string, term string, err error) {
	var mk *ast.CallExpr
	ast.Inspect(s.file, func(n ast.Node) bool {
		as, ok := n.(*ast.AssignStmt)
		if !ok || as.Tok != token.DEFINE || len(as.Lhs) != 1 || len(as.Rhs) != 1 {
			return true
		}
		if id, ok := as.Lhs[0].(*ast.Ident); ok && id.Name == name {
			if c, ok := as.Rhs[0].(*ast.CallExpr); ok {
				if fn, ok := c.Fun.(*ast.Ident); ok && fn.Name == "make" && len(c.Args) >= 1 {
					if _, isChan := c.Args[0].(*ast.ChanType); isChan {
						mk = c
					}
				}
			}
		}
		return true
	})
	if mk == nil {
		return nil, "", fmt.Errorf("%s: %s := make(chan ...) not found", s.path, name)
	}
	if len(mk.Args) == 1 {
		return nil, "0%N", nil // unbuffered
	}
	free := map[string]bool{}
	var tr func(e ast.Expr) (string, error)
	tr = func(e ast.Expr) (string, error) {
		switch x := e.(type) {
		case *ast.BasicLit:
			if x.Kind == token.INT {
				return constant.MakeFromLiteral(x.Value, x.Kind, 0).ExactString(), nil
			}
		case *ast.ParenExpr:
			return tr(x.X)
		case *ast.Ident:
			if s.topLevel(x.Name) != nil {
				v, err := s.evalN(x)
				return strings.TrimSuffix(v, "%N"), err
			}
			free[x.Name] = true
			return x.Name, nil
		case *ast.BinaryExpr:
			if x.Op == token.ADD || x.Op == token.MUL {
				a, err := tr(x.X)
				if err != nil {
					return "", err
				}
				b, err := tr(x.Y)
				return "(" + a + " " + x.Op.String() + " " + b + ")", err
			}
		}
		return "", fmt.Errorf("%s: capacity expression outside the grammar", s.fset.Position(e.Pos()))
	}
	term, err = tr(mk.Args[1])
	for p := range free {
		params = append(params, p)
	}
	sort.Strings(params)
	return params, "(" + term + ")%N", err
}

func genConsts(repo string) (string, error) {
	var sb strings.Builder
	sb.WriteString("(* Numeric constants and channel capacities of pg-bifrost; durations in nanoseconds. *)\n")
	sb.WriteString("From Coq Require Import NArith.\n\n")
	def := func(name, src, val string) {
		fmt.Fprintf(&sb, "(* %s *)\nDefinition %s : N := %s.\n", src, name, val)
	}
	// 1. package-level constants
	for _, c := range []struct{ file, goName, name string }{
		{"transport/transporters/kinesis/batch/batch.go", "MAX_RECORDS", "kinesis_max_records"},
		{"transport/transporters/kinesis/batch/batch.go", "MAX_BATCH_SIZE_BYTES", "kinesis_max_batch_size_bytes"},
		{"transport/transporters/kinesis/batch/batch.go", "MAX_RECORD_SIZE_BYTES", "kinesis_max_record_size_bytes"},
		{"transport/progress/progress_tracker.go", "outputChanSize", "progress_output_chan_size"},
		{"stats/aggregator/aggregator.go", "reportGraceNano", "agg_report_grace_nano"},
		{"stats/aggregator/aggregator.go", "defaultAggregateTimeNano", "agg_default_aggregate_time_nano"},
		{"replication/client/client.go", "DefaultProgressFreq", "client_default_progress_freq_nano"},
	} {
		s, err := parseSrc(repo, c.file)
		if err != nil {
			return "", err
		}
		v, err := s.evalN(s.topLevel(c.goName))
		if err != nil {
			return "", fmt.Errorf("%s %s: %v", c.file, c.goName, err)
		}
		def(c.name, c.file+": "+c.goName, v)
	}
	// 2. literal call arguments
	for _, c := range []struct {
		file, callee string
		arg          int
		recv         string // if set, the receiver expression must end in this selector
		name         string
	}{
		{"replication/client/client.go", "WithTimeout", 1, "", "client_receive_timeout_nano"},
		{"transport/factory/factory.go", "NewGenericBatchFactory", 0, "", "stdout_generic_batch_size"},
		{"app/runner.go", "Start", 0, "progressTracker", "tracker_tick_nano"},
	} {
		s, err := parseSrc(repo, c.file)
		if err != nil {
			return "", err
		}
		val := ""
		for _, call := range s.calls(c.callee) {
			if c.recv != "" {
				fn, _ := call.Fun.(*ast.SelectorExpr)
				rs, ok := fn.X.(*ast.SelectorExpr)
				if !ok || rs.Sel.Name != c.recv {
					continue
				}
			}
			if len(call.Args) <= c.arg {
				return "", fmt.Errorf("%s: call of %s has too few arguments", c.file, c.callee)
			}
			v, err := s.evalN(call.Args[c.arg])
			if err != nil {
				return "", fmt.Errorf("%s %s: %v", c.file, c.callee, err)
			}
			if val != "" && val != v {
				return "", fmt.Errorf("%s: calls of %s disagree (%s, %s)", c.file, c.callee, val, v)
			}
			val = v
		}
		if val == "" {
			return "", fmt.Errorf("%s: no call of %s found", c.file, c.callee)
		}
		def(c.name, fmt.Sprintf("%s: argument %d of every %s(...)", c.file, c.arg, c.callee), val)
	}
	// 3. channel capacities in app/runner.go
	s, err := parseSrc(repo, "app/runner.go")
	if err != nil {
		return "", err
	}
	for _, c := range []struct{ goName, name string }{
		{"txnsSeen", "txns_seen_cap"}, {"txnsWritten", "txns_written_cap"}, {"statsChan", "stats_chan_cap"},
	} {
		params, term, err := s.chanCap(c.goName)
		if err != nil {
			return "", err
		}
		ps := ""
		if len(params) > 0 {
			ps = " (" + strings.Join(params, " ") + " : N)"
		}
		fmt.Fprintf(&sb, "(* app/runner.go: capacity of %s (0 = unbuffered) *)\nDefinition %s%s : N := %s.\n", c.goName, c.name, ps, term)
	}
	return sb.String(), nil
}
