package main

// GenWiring.v: structural facts of the stages, re-read from the source on every run.
//   - every ExponentialBackOff composite literal: MaxElapsedTime and whether Stop is backoff.Stop
//     (the zero value 0 is NOT backoff.Stop: NextBackOff then never tells Retry to stop);
//   - for every stage: its run function defers x.shutdown(), and which calls shutdown() makes
//     before CancelFunc() (log calls are ignored);
//   - main waits for the termination context and then returns after a grace timer.

import (
	"fmt"
	"go/ast"
	"go/parser"
	"go/token"
	"os"
	"path/filepath"
	"sort"
	"strings"
)

func exprString(e ast.Expr) string {
	switch x := e.(type) {
	case *ast.Ident:
		return x.Name
	case *ast.SelectorExpr:
		return exprString(x.X) + "." + x.Sel.Name
	case *ast.CallExpr:
		return exprString(x.Fun) + "()"
	case *ast.StarExpr:
		return "*" + exprString(x.X)
	case *ast.UnaryExpr:
		return x.Op.String() + exprString(x.X)
	}
	return fmt.Sprintf("<%T>", e)
}

func gstr(s string) string { return "\"" + strings.ReplaceAll(s, "\"", "\"\"") + "\"" }

func glist(items []string) string { return "[" + strings.Join(items, "; ") + "]" }

func gbool(b bool) string {
	if b {
		return "true"
	}
	return "false"
}

func isLogCall(callee string) bool {
	for _, suf := range []string{".Info", ".Infof", ".Debug", ".Debugf", ".Warn", ".Warnf", ".Error", ".Errorf"} {
		if strings.HasSuffix(callee, suf) {
			return true
		}
	}
	return false
}

func findMethod(f *ast.File, name string) *ast.FuncDecl {
	for _, d := range f.Decls {
		if fd, ok := d.(*ast.FuncDecl); ok && fd.Name.Name == name && fd.Body != nil {
			return fd
		}
	}
	return nil
}

func callOf(s ast.Stmt) (string, bool) {
	switch x := s.(type) {
	case *ast.ExprStmt:
		if c, ok := x.X.(*ast.CallExpr); ok {
			return exprString(c.Fun), true
		}
	case *ast.AssignStmt:
		if len(x.Rhs) == 1 {
			if c, ok := x.Rhs[0].(*ast.CallExpr); ok {
				return exprString(c.Fun), true
			}
		}
	}
	return "", false
}

func genWiring(repo string) (string, error) {
	var sb strings.Builder
	sb.WriteString("(* Structural facts of pg-bifrost's stages and retry policies. *)\n")
	sb.WriteString("From Coq Require Import List String ZArith Bool.\nImport ListNotations.\nOpen Scope string_scope.\n\n")
	// ---- backoff literals ----
	sb.WriteString("Record backoff_lit := mkBackoffLit { bl_file : string; bl_max_elapsed_ns : Z; bl_stop_is_backoff_stop : bool }.\n")
	var lits []string
	for _, file := range []string{
		"transport/transporters/kinesis/factory.go", "transport/transporters/s3/factory.go", "transport/transporters/rabbitmq/factory.go",
		"replication/client/conn/conn.go",
	} {
		s, err := parseSrc(repo, file)
		if err != nil {
			return "", err
		}
		found := 0
		var ferr error
		ast.Inspect(s.file, func(n ast.Node) bool {
			cl, ok := n.(*ast.CompositeLit)
			if !ok {
				return true
			}
			if exprString(cl.Type) != "backoff.ExponentialBackOff" {
				return true
			}
			found++
			maxEl := "0"
			stop := false
			for _, el := range cl.Elts {
				kv, ok := el.(*ast.KeyValueExpr)
				if !ok {
					ferr = fmt.Errorf("%s: positional ExponentialBackOff literal", file)
					return false
				}
				switch exprString(kv.Key) {
				case "MaxElapsedTime":
					v, err := s.eval(kv.Value)
					if err != nil {
						ferr = fmt.Errorf("%s: MaxElapsedTime: %v", file, err)
						return false
					}
					maxEl = v.ExactString()
				case "Stop":
					stop = exprString(kv.Value) == "backoff.Stop"
				}
			}
			lits = append(lits, fmt.Sprintf("mkBackoffLit %s (%s)%%Z %v", gstr(file), maxEl, stop))
			return true
		})
		if ferr != nil {
			return "", ferr
		}
		if found == 0 {
			return "", fmt.Errorf("%s: no backoff.ExponentialBackOff literal found (the retry policy is built differently: re-read the code)", file)
		}
	}
	fmt.Fprintf(&sb, "(* the retry policies handed to the Kinesis, S3 and RabbitMQ workers, and the one of the PostgreSQL connection retry *)\nDefinition transporter_backoff_literals : list backoff_lit :=\n  %s.\n\n", glist(lits))
	// ---- stages ----
	sb.WriteString("Record stage := mkStage { st_name : string; st_file : string; st_run : string; st_defers_shutdown : bool;\n  st_shutdown_cancels : bool; st_calls_before_cancel : list string; st_loop_checks_terminate : bool }.\n")
	type stg struct{ name, file, run string }
	var stages []string
	for _, st := range []stg{
		{"client", "replication/client/client.go", "Start"},
		{"filter", "filter/filter.go", "Start"},
		{"partitioner", "partitioner/partitioner.go", "Start"},
		{"marshaller", "marshaller/marshaller.go", "Start"},
		{"batcher", "transport/batcher/batcher.go", "StartBatching"},
		{"progress tracker", "transport/progress/progress_tracker.go", "Start"},
		{"kinesis transporter", "transport/transporters/kinesis/transporter/transporter.go", "StartTransporting"},
		{"s3 transporter", "transport/transporters/s3/transporter/transporter.go", "StartTransporting"},
		{"rabbitmq transporter", "transport/transporters/rabbitmq/transporter/transporter.go", "StartTransporting"},
		{"kafka transporter", "transport/transporters/kafka/transporter/transporter.go", "StartTransporting"},
		{"stdout transporter", "transport/transporters/stdout/transporter/transporter.go", "StartTransporting"},
		{"stats ingest", "stats/aggregator/aggregator.go", "processStatsMessagesWorker"},
		{"stats reporter", "stats/aggregator/aggregator.go", "reportAggregatesWorker"},
	} {
		s, err := parseSrc(repo, st.file)
		if err != nil {
			return "", err
		}
		run := findMethod(s.file, st.run)
		if run == nil {
			return "", fmt.Errorf("%s: function %s not found", st.file, st.run)
		}
		defers := false
		for _, x := range run.Body.List {
			if d, ok := x.(*ast.DeferStmt); ok && strings.HasSuffix(exprString(d.Call.Fun), ".shutdown") {
				defers = true
			}
		}
		// does the run function look at the termination context at all (select case or ctx.Done())?
		checks := false
		ast.Inspect(run.Body, func(n ast.Node) bool {
			if se, ok := n.(*ast.SelectorExpr); ok && se.Sel.Name == "Done" && strings.HasSuffix(exprString(se.X), "TerminateCtx") {
				checks = true
			}
			return true
		})
		sd := findMethod(s.file, "shutdown")
		if sd == nil {
			return "", fmt.Errorf("%s: no shutdown method", st.file)
		}
		cancels := false
		var before []string
		for _, x := range sd.Body.List {
			callee, ok := callOf(x)
			if ok && strings.HasSuffix(callee, ".CancelFunc") {
				cancels = true
				break
			}
			if ok && isLogCall(callee) {
				continue
			}
			if ok {
				// canonical name: a method called on a field of the receiver is "field.<Method>" whatever
				// the receiver and the field are called (a rename must not change the generated text)
				if parts := strings.Split(callee, "."); len(parts) == 3 && sd.Recv != nil && len(sd.Recv.List) == 1 &&
					len(sd.Recv.List[0].Names) == 1 && parts[0] == sd.Recv.List[0].Names[0].Name {
					callee = "field." + parts[2]
				}
				before = append(before, gstr(callee))
			} else {
				before = append(before, gstr(fmt.Sprintf("<%T>", x)))
			}
		}
		stages = append(stages, fmt.Sprintf("mkStage %s %s %s %v %v %s %v", gstr(st.name), gstr(st.file), gstr(st.run), defers, cancels, glist(before), checks))
	}
	fmt.Fprintf(&sb, "Definition stages : list stage :=\n  %s.\n\n", glist(stages))
	// ---- main: wait for the context, then a grace timer, then return ----
	s, err := parseSrc(repo, "main/main.go")
	if err != nil {
		return "", err
	}
	// every partitioner.GetPartitionMethod(<arg>) call of main.go: the partitioner's configuration and the
	// transport configuration (the Kinesis batch factory reads it to decide between "record keyed by the
	// batch's key" and "record keyed by its own LSN") must be derived from the same text
	{
		var reads []string
		src, rerr := os.ReadFile(filepath.Join(repo, "main/main.go"))
		if rerr != nil {
			return "", rerr
		}
		fset := token.NewFileSet()
		f, perr := parser.ParseFile(fset, "main.go", src, 0)
		if perr != nil {
			return "", perr
		}
		ast.Inspect(f, func(n ast.Node) bool {
			if c, ok := n.(*ast.CallExpr); ok && strings.HasSuffix(exprString(c.Fun), "GetPartitionMethod") && len(c.Args) == 1 {
				a := c.Args[0]
				reads = append(reads, gstr(strings.Join(strings.Fields(string(src[fset.Position(a.Pos()).Offset:fset.Position(a.End()).Offset])), " ")))
			}
			return true
		})
		fmt.Fprintf(&sb, "(* main/main.go: the argument text of every partitioner.GetPartitionMethod(...) call (one feeds the partitioner, one the transport configuration) *)\nDefinition main_partition_method_reads : list string := %s.\n\n", glist(reads))
	}
	waits, timer := false, false
	ast.Inspect(s.file, func(n ast.Node) bool {
		if u, ok := n.(*ast.UnaryExpr); ok && u.Op == token.ARROW {
			str := exprString(u.X)
			if strings.HasSuffix(str, "TerminateCtx.Done()") {
				waits = true
			}
			if waits && strings.HasSuffix(str, ".C") {
				timer = true
			}
		}
		return true
	})
	// ---- app/runner.go: what the replication client's progress channel is ----
	{
		rs, rerr := parseSrc(repo, "app/runner.go")
		if rerr != nil {
			return "", rerr
		}
		var srcs []string
		ast.Inspect(rs.file, func(x ast.Node) bool {
			c, ok := x.(*ast.CallExpr)
			if ok && strings.HasSuffix(exprString(c.Fun), "replicationClient.Start") && len(c.Args) == 1 {
				// (without the receiver's name: a renamed receiver must not change the generated text)
				a := exprString(c.Args[0])
				if parts := strings.SplitN(a, ".", 2); len(parts) == 2 && strings.Contains(parts[1], ".") {
					a = parts[1]
				}
				srcs = append(srcs, gstr(a))
			}
			return true
		})
		fmt.Fprintf(&sb, "(* app/runner.go: the argument of every replicationClient.Start(...) call: the channel the client takes acknowledged positions from *)\nDefinition client_progress_sources : list string := %s.\n\n", glist(srcs))
	}
	// ---- Kafka producer configuration: what "the producer accepted the message" means ----
	// every assignment to config.Producer.RequiredAcks / Return.Successes / Return.Errors in the kafka package
	{
		var acks []string
		succ, errs := "unset", "unset"
		dir := filepath.Join(repo, "transport/transporters/kafka")
		ents, derr := os.ReadDir(dir)
		if derr != nil {
			return "", derr
		}
		for _, e := range ents {
			if e.IsDir() || !strings.HasSuffix(e.Name(), ".go") || strings.HasSuffix(e.Name(), "_test.go") {
				continue
			}
			src, rerr := os.ReadFile(filepath.Join(dir, e.Name()))
			if rerr != nil || strings.HasPrefix(string(src), "//go:build verif") {
				continue
			}
			f, perr := parser.ParseFile(token.NewFileSet(), e.Name(), src, 0)
			if perr != nil {
				return "", perr
			}
			ast.Inspect(f, func(x ast.Node) bool {
				as, ok := x.(*ast.AssignStmt)
				if !ok || len(as.Lhs) != 1 || len(as.Rhs) != 1 {
					return true
				}
				l := exprString(as.Lhs[0])
				switch {
				case strings.HasSuffix(l, ".Producer.RequiredAcks"):
					acks = append(acks, gstr(exprString(as.Rhs[0])))
				case strings.HasSuffix(l, ".Producer.Return.Successes"):
					succ = exprString(as.Rhs[0])
				case strings.HasSuffix(l, ".Producer.Return.Errors"):
					errs = exprString(as.Rhs[0])
				}
				return true
			})
		}
		// ---- the configured message size limit reaches its two consumers unchanged ----
		// in every function of the kafka package that reads transportConfig[ConfVarKafkaMaxMessageBytes]:
		// the variable the value is type-asserted into, every later write to it, and every call argument /
		// composite-literal element it occurs in ("plain" when the element is just the variable)
		var limWrites, limUses, limProd, prodParams, facFields, newBatchArgs []string
		for _, e := range ents {
			if e.IsDir() || !strings.HasSuffix(e.Name(), ".go") || strings.HasSuffix(e.Name(), "_test.go") {
				continue
			}
			src, rerr := os.ReadFile(filepath.Join(dir, e.Name()))
			if rerr != nil || strings.HasPrefix(string(src), "//go:build verif") {
				continue
			}
			fset := token.NewFileSet()
			f, perr := parser.ParseFile(fset, e.Name(), src, 0)
			if perr != nil {
				return "", perr
			}
			text := func(x ast.Node) string {
				return strings.Join(strings.Fields(string(src[fset.Position(x.Pos()).Offset:fset.Position(x.End()).Offset])), " ")
			}
			mentions := func(x ast.Node, name string) bool {
				hit := false
				ast.Inspect(x, func(y ast.Node) bool {
					if id, ok := y.(*ast.Ident); ok && id.Name == name {
						hit = true
					}
					return !hit
				})
				return hit
			}
			for _, d := range f.Decls {
				fd, ok := d.(*ast.FuncDecl)
				if !ok || fd.Body == nil {
					continue
				}
				raw, lim := "", ""
				var def ast.Node
				ast.Inspect(fd.Body, func(x ast.Node) bool {
					as, ok := x.(*ast.AssignStmt)
					if !ok || len(as.Rhs) != 1 || len(as.Lhs) == 0 {
						return true
					}
					if ix, ok := as.Rhs[0].(*ast.IndexExpr); ok && exprString(ix.Index) == "ConfVarKafkaMaxMessageBytes" && raw == "" {
						raw = exprString(as.Lhs[0])
					}
					if ta, ok := as.Rhs[0].(*ast.TypeAssertExpr); ok && raw != "" && lim == "" && exprString(ta.X) == raw {
						lim, def = exprString(as.Lhs[0]), as
					}
					return true
				})
				if lim == "" {
					if raw != "" {
						limWrites = append(limWrites, gstr(fd.Name.Name+": the configured value is not type-asserted into a variable"))
					}
					continue
				}
				ast.Inspect(fd.Body, func(x ast.Node) bool {
					switch n := x.(type) {
					case *ast.AssignStmt:
						if n != def {
							for _, l := range n.Lhs {
								if exprString(l) == lim {
									limWrites = append(limWrites, gstr(fd.Name.Name+": "+text(n)))
								}
							}
						}
					case *ast.IncDecStmt:
						if exprString(n.X) == lim {
							limWrites = append(limWrites, gstr(fd.Name.Name+": "+text(n)))
						}
					case *ast.UnaryExpr:
						if n.Op == token.AND && exprString(n.X) == lim {
							limWrites = append(limWrites, gstr(fd.Name.Name+": address taken: "+text(n)))
						}
					case *ast.CallExpr:
						for i, a := range n.Args {
							if mentions(a, lim) {
								how := "plain"
								if exprString(a) != lim {
									how = text(a)
								}
								limUses = append(limUses, fmt.Sprintf("(%s, %s, %s)", gstr(fd.Name.Name), gstr(fmt.Sprintf("%s#%d", exprString(n.Fun), i)), gstr(how)))
							}
						}
					case *ast.CompositeLit:
						for i, a := range n.Elts {
							v := a
							pos := fmt.Sprintf("#%d", i)
							if kv, ok := a.(*ast.KeyValueExpr); ok {
								v, pos = kv.Value, "."+exprString(kv.Key)
							}
							if mentions(v, lim) {
								how := "plain"
								if exprString(v) != lim {
									how = text(v)
								}
								limUses = append(limUses, fmt.Sprintf("(%s, %s, %s)", gstr(fd.Name.Name), gstr(exprString(n.Type)+pos), gstr(how)))
							}
						}
					}
					return true
				})
			}
			for _, d := range f.Decls {
				switch n := d.(type) {
				case *ast.FuncDecl:
					if n.Name.Name == "producerConfig" {
						for _, fl := range n.Type.Params.List {
							for _, nm := range fl.Names {
								prodParams = append(prodParams, gstr(nm.Name))
							}
						}
					}
					if n.Body != nil {
						ast.Inspect(n.Body, func(x ast.Node) bool {
							if c, ok := x.(*ast.CallExpr); ok && strings.HasSuffix(exprString(c.Fun), "NewKafkaBatch") {
								for _, a := range c.Args {
									newBatchArgs = append(newBatchArgs, gstr(text(a)))
								}
							}
							return true
						})
					}
				case *ast.GenDecl:
					for _, sp := range n.Specs {
						if ts, ok := sp.(*ast.TypeSpec); ok && ts.Name.Name == "KafkaBatchFactory" {
							if st, ok := ts.Type.(*ast.StructType); ok {
								for _, fl := range st.Fields.List {
									for _, nm := range fl.Names {
										facFields = append(facFields, gstr(nm.Name))
									}
								}
							}
						}
					}
				}
			}
			// what is assigned to the sarama producer's own limit, and from which parameter
			ast.Inspect(f, func(x ast.Node) bool {
				if as, ok := x.(*ast.AssignStmt); ok && len(as.Lhs) == 1 && len(as.Rhs) == 1 && strings.HasSuffix(exprString(as.Lhs[0]), ".Producer.MaxMessageBytes") {
					limProd = append(limProd, gstr(text(as.Rhs[0])))
				}
				return true
			})
		}
		sort.Strings(limUses)
		fmt.Fprintf(&sb, "(* transport/transporters/kafka: the configured kafka-max-message-bytes on its way to its two consumers (the batches, which drop and count what is larger, and the sarama producer, which refuses what is larger): later writes to the variable it is read into; the calls / literals it is handed to (function, callee, \"plain\" = the bare variable); what is assigned to Producer.MaxMessageBytes *)\nDefinition kafka_limit_writes : list string := %s.\nDefinition kafka_limit_uses : list (string * string * string) := %s.\nDefinition kafka_producer_limit_assigned : list string := %s.\n(* the parameters of producerConfig, the fields of KafkaBatchFactory, the arguments of its NewKafkaBatch call, in order *)\nDefinition kafka_producer_config_params : list string := %s.\nDefinition kafka_batch_factory_fields : list string := %s.\nDefinition kafka_new_batch_args : list string := %s.\n\n", glist(limWrites), "["+strings.Join(limUses, "; ")+"]", glist(limProd), glist(prodParams), glist(facFields), glist(newBatchArgs))
		fmt.Fprintf(&sb, "(* transport/transporters/kafka: assignments to the sarama producer configuration. RequiredAcks left alone is sarama's default WaitForLocal (the leader has written the message); NoResponse would make SendMessages succeed before any broker answered *)\nDefinition kafka_required_acks_assigned : list string := %s.\nDefinition kafka_return_successes : string := %s.\nDefinition kafka_return_errors : string := %s.\n\n", glist(acks), gstr(succ), gstr(errs))
	}
	// ---- every worker a sink factory returns is a value of its own, reading the queue of its index ----
	// in transport/transporters/<sink>/factory.go, func New: every statement `<slice>[<i>] = &<v>` inside a for
	// loop; is <v> declared (:= or var) inside that loop's body, and does the statement that gives it its value
	// mention `inputChans[<i>]` with the same index
	{
		var rows []string
		for _, sink := range []string{"kafka", "kinesis", "rabbitmq", "s3", "stdout"} {
			fn := filepath.Join(repo, "transport/transporters", sink, "factory.go")
			src, rerr := os.ReadFile(fn)
			if rerr != nil {
				return "", rerr
			}
			f, perr := parser.ParseFile(token.NewFileSet(), fn, src, 0)
			if perr != nil {
				return "", perr
			}
			found := false
			for _, d := range f.Decls {
				fd, ok := d.(*ast.FuncDecl)
				if !ok || fd.Name.Name != "New" || fd.Body == nil {
					continue
				}
				ast.Inspect(fd.Body, func(x ast.Node) bool {
					loop, ok := x.(*ast.ForStmt)
					if !ok {
						return true
					}
					for _, st := range loop.Body.List {
						as, ok := st.(*ast.AssignStmt)
						if !ok || len(as.Lhs) != 1 || len(as.Rhs) != 1 {
							continue
						}
						ix, ok1 := as.Lhs[0].(*ast.IndexExpr)
						un, ok2 := as.Rhs[0].(*ast.UnaryExpr)
						if !ok1 || !ok2 || un.Op != token.AND {
							continue
						}
						v, idx := exprString(un.X), exprString(ix.Index)
						local, ownQueue := false, false
						for _, st2 := range loop.Body.List {
							switch n := st2.(type) {
							case *ast.AssignStmt:
								if len(n.Lhs) >= 1 && exprString(n.Lhs[0]) == v {
									if n.Tok == token.DEFINE {
										local = true
									}
									ast.Inspect(n, func(y ast.Node) bool {
										if e, ok := y.(*ast.IndexExpr); ok && exprString(e.X) == "inputChans" && exprString(e.Index) == idx {
											ownQueue = true
										}
										return true
									})
								}
							case *ast.DeclStmt:
								if gd, ok := n.Decl.(*ast.GenDecl); ok {
									for _, sp := range gd.Specs {
										if vs, ok := sp.(*ast.ValueSpec); ok {
											for _, nm := range vs.Names {
												if nm.Name == v {
													local = true
												}
											}
										}
									}
								}
							}
						}
						found = true
						rows = append(rows, fmt.Sprintf("(%s, %s, %s)", gstr(sink), gbool(local), gbool(ownQueue)))
					}
					return true
				})
			}
			if !found {
				rows = append(rows, fmt.Sprintf("(%s, false, false)", gstr(sink)))
			}
		}
		fmt.Fprintf(&sb, "(* transport/transporters/<sink>/factory.go, func New: for every `workers[i] = &v` in the worker loop: (sink, v is declared inside the loop body, the statement that defines v reads inputChans[i]) *)\nDefinition factory_workers : list (string * bool * bool) := [%s].\n\n", strings.Join(rows, "; "))
	}
	// ---- one shared termination signal: the handler is made once, in main, and only handed on ----
	// every non-test, non-hook source file outside shutdown/ and main/ that fabricates a handler of its own
	// (shutdown.NewShutdownHandler(), a shutdown.ShutdownHandler{...} literal, or a context derived with
	// context.WithCancel/WithTimeout/WithDeadline from which a handler could be built in app/, transport/factory,
	// transport/manager) is listed; main/main.go must make exactly one
	var fabricated []string
	mainMakes := 0
	werr := filepath.Walk(repo, func(path string, info os.FileInfo, err error) error {
		if err != nil {
			return nil
		}
		rel, _ := filepath.Rel(repo, path)
		if info.IsDir() {
			if strings.HasPrefix(info.Name(), ".") || rel == "itests" || rel == "vendor" {
				return filepath.SkipDir
			}
			return nil
		}
		if !strings.HasSuffix(path, ".go") || strings.HasSuffix(path, "_test.go") || strings.Contains(rel, "/mocks/") || strings.HasPrefix(rel, "shutdown/") {
			return nil
		}
		src, rerr := os.ReadFile(path)
		if rerr != nil {
			return nil
		}
		if strings.HasPrefix(string(src), "//go:build verif") {
			return nil
		}
		f, perr := parser.ParseFile(token.NewFileSet(), path, src, 0)
		if perr != nil {
			return nil
		}
		n := 0
		ast.Inspect(f, func(x ast.Node) bool {
			switch v := x.(type) {
			case *ast.CallExpr:
				if exprString(v.Fun) == "shutdown.NewShutdownHandler" {
					n++
				}
			case *ast.CompositeLit:
				if v.Type != nil && exprString(v.Type) == "shutdown.ShutdownHandler" {
					n++
				}
			}
			return true
		})
		if rel == "main/main.go" {
			mainMakes += n
		} else if n > 0 {
			fabricated = append(fabricated, gstr(rel))
		}
		return nil
	})
	if werr != nil {
		return "", werr
	}
	sort.Strings(fabricated)
	fmt.Fprintf(&sb, "(* the termination signal is ONE object: made in main/main.go, handed to every stage; no other file makes a handler *)\nDefinition handlers_made_in_main : nat := %d.\nDefinition files_fabricating_a_handler : list string := %s.\n\n", mainMakes, glist(fabricated))
	fmt.Fprintf(&sb, "(* main/main.go: blocks on <-TerminateCtx.Done(), then on a grace timer, then returns *)\nDefinition main_waits_for_termination : bool := %v.\nDefinition main_exits_after_grace_timer : bool := %v.\n", waits, timer)
	return sb.String(), nil
}
