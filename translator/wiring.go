package main

// GenWiring.v: structural facts of the stages, re-read from the source on every run.
//   - every ExponentialBackOff composite literal: MaxElapsedTime and whether Stop is backoff.Stop
//     (the zero value 0 is NOT backoff.Stop: NextBackOff then never tells Retry to stop);
//   - for every stage: its run function defers x.shutdown(), and which calls shutdown() makes
//     before CancelFunc() (log calls are ignored);
//   - main waits for the termination context and then returns after a grace timer.

import (
	"fmt"
	"go/ast"
	"go/token"
	"strings"
)

func exprString(e ast.Expr) string {
	switch x := e.(type) {
	case *ast.Ident:
		return x.Name
	case *ast.SelectorExpr:
		return exprString(x.X) + "." + x.Sel.Name
	case *ast.CallExpr:
		return exprString(x.Fun) + "()"
	case *ast.StarExpr:
		return "*" + exprString(x.X)
	case *ast.UnaryExpr:
		return x.Op.String() + exprString(x.X)
	}
	return fmt.Sprintf("<%T>", e)
}

func gstr(s string) string { return "\"" + strings.ReplaceAll(s, "\"", "\"\"") + "\"" }

func glist(items []string) string { return "[" + strings.Join(items, "; ") + "]" }

func isLogCall(callee string) bool {
	for _, suf := range []string{".Info", ".Infof", ".Debug", ".Debugf", ".Warn", ".Warnf", ".Error", ".Errorf"} {
		if strings.HasSuffix(callee, suf) {
			return true
		}
	}
	return false
}

func findMethod(f *ast.File, name string) *ast.FuncDecl {
	for _, d := range f.Decls {
		if fd, ok := d.(*ast.FuncDecl); ok && fd.Name.Name == name && fd.Body != nil {
			return fd
		}
	}
	return nil
}

func callOf(s ast.Stmt) (string, bool) {
	switch x := s.(type) {
	case *ast.ExprStmt:
		if c, ok := x.X.(*ast.CallExpr); ok {
			return exprString(c.Fun), true
		}
	case *ast.AssignStmt:
		if len(x.Rhs) == 1 {
			if c, ok := x.Rhs[0].(*ast.CallExpr); ok {
				return exprString(c.Fun), true
			}
		}
	}
	return "", false
}

func genWiring(repo string) (string, error) {
	var sb strings.Builder
	sb.WriteString("(* Structural facts of pg-bifrost's stages and retry policies. *)\n")
	sb.WriteString("From Coq Require Import List String ZArith Bool.\nImport ListNotations.\nOpen Scope string_scope.\n\n")
	// ---- backoff literals ----
	sb.WriteString("Record backoff_lit := mkBackoffLit { bl_file : string; bl_max_elapsed_ns : Z; bl_stop_is_backoff_stop : bool }.\n")
	var lits []string
	for _, file := range []string{
		"transport/transporters/kinesis/factory.go", "transport/transporters/s3/factory.go", "transport/transporters/rabbitmq/factory.go",
		"replication/client/conn/conn.go",
	} {
		s, err := parseSrc(repo, file)
		if err != nil {
			return "", err
		}
		found := 0
		var ferr error
		ast.Inspect(s.file, func(n ast.Node) bool {
			cl, ok := n.(*ast.CompositeLit)
			if !ok {
				return true
			}
			if exprString(cl.Type) != "backoff.ExponentialBackOff" {
				return true
			}
			found++
			maxEl := "0"
			stop := false
			for _, el := range cl.Elts {
				kv, ok := el.(*ast.KeyValueExpr)
				if !ok {
					ferr = fmt.Errorf("%s: positional ExponentialBackOff literal", file)
					return false
				}
				switch exprString(kv.Key) {
				case "MaxElapsedTime":
					v, err := s.eval(kv.Value)
					if err != nil {
						ferr = fmt.Errorf("%s: MaxElapsedTime: %v", file, err)
						return false
					}
					maxEl = v.ExactString()
				case "Stop":
					stop = exprString(kv.Value) == "backoff.Stop"
				}
			}
			lits = append(lits, fmt.Sprintf("mkBackoffLit %s (%s)%%Z %v", gstr(file), maxEl, stop))
			return true
		})
		if ferr != nil {
			return "", ferr
		}
		if found == 0 {
			return "", fmt.Errorf("%s: no backoff.ExponentialBackOff literal found (the retry policy is built differently: re-read the code)", file)
		}
	}
	fmt.Fprintf(&sb, "(* the retry policies handed to the Kinesis, S3 and RabbitMQ workers, and the one of the PostgreSQL connection retry *)\nDefinition transporter_backoff_literals : list backoff_lit :=\n  %s.\n\n", glist(lits))
	// ---- stages ----
	sb.WriteString("Record stage := mkStage { st_name : string; st_file : string; st_run : string; st_defers_shutdown : bool;\n  st_shutdown_cancels : bool; st_calls_before_cancel : list string; st_loop_checks_terminate : bool }.\n")
	type stg struct{ name, file, run string }
	var stages []string
	for _, st := range []stg{
		{"client", "replication/client/client.go", "Start"},
		{"filter", "filter/filter.go", "Start"},
		{"partitioner", "partitioner/partitioner.go", "Start"},
		{"marshaller", "marshaller/marshaller.go", "Start"},
		{"batcher", "transport/batcher/batcher.go", "StartBatching"},
		{"progress tracker", "transport/progress/progress_tracker.go", "Start"},
		{"kinesis transporter", "transport/transporters/kinesis/transporter/transporter.go", "StartTransporting"},
		{"s3 transporter", "transport/transporters/s3/transporter/transporter.go", "StartTransporting"},
		{"rabbitmq transporter", "transport/transporters/rabbitmq/transporter/transporter.go", "StartTransporting"},
		{"kafka transporter", "transport/transporters/kafka/transporter/transporter.go", "StartTransporting"},
		{"stdout transporter", "transport/transporters/stdout/transporter/transporter.go", "StartTransporting"},
		{"stats ingest", "stats/aggregator/aggregator.go", "processStatsMessagesWorker"},
		{"stats reporter", "stats/aggregator/aggregator.go", "reportAggregatesWorker"},
	} {
		s, err := parseSrc(repo, st.file)
		if err != nil {
			return "", err
		}
		run := findMethod(s.file, st.run)
		if run == nil {
			return "", fmt.Errorf("%s: function %s not found", st.file, st.run)
		}
		defers := false
		for _, x := range run.Body.List {
			if d, ok := x.(*ast.DeferStmt); ok && strings.HasSuffix(exprString(d.Call.Fun), ".shutdown") {
				defers = true
			}
		}
		// does the run function look at the termination context at all (select case or ctx.Done())?
		checks := false
		ast.Inspect(run.Body, func(n ast.Node) bool {
			if se, ok := n.(*ast.SelectorExpr); ok && se.Sel.Name == "Done" && strings.HasSuffix(exprString(se.X), "TerminateCtx") {
				checks = true
			}
			return true
		})
		sd := findMethod(s.file, "shutdown")
		if sd == nil {
			return "", fmt.Errorf("%s: no shutdown method", st.file)
		}
		cancels := false
		var before []string
		for _, x := range sd.Body.List {
			callee, ok := callOf(x)
			if ok && strings.HasSuffix(callee, ".CancelFunc") {
				cancels = true
				break
			}
			if ok && isLogCall(callee) {
				continue
			}
			if ok {
				// canonical name: a method called on a field of the receiver is "field.<Method>" whatever
				// the receiver and the field are called (a rename must not change the generated text)
				if parts := strings.Split(callee, "."); len(parts) == 3 && sd.Recv != nil && len(sd.Recv.List) == 1 &&
					len(sd.Recv.List[0].Names) == 1 && parts[0] == sd.Recv.List[0].Names[0].Name {
					callee = "field." + parts[2]
				}
				before = append(before, gstr(callee))
			} else {
				before = append(before, gstr(fmt.Sprintf("<%T>", x)))
			}
		}
		stages = append(stages, fmt.Sprintf("mkStage %s %s %s %v %v %s %v", gstr(st.name), gstr(st.file), gstr(st.run), defers, cancels, glist(before), checks))
	}
	fmt.Fprintf(&sb, "Definition stages : list stage :=\n  %s.\n\n", glist(stages))
	// ---- main: wait for the context, then a grace timer, then return ----
	s, err := parseSrc(repo, "main/main.go")
	if err != nil {
		return "", err
	}
	waits, timer := false, false
	ast.Inspect(s.file, func(n ast.Node) bool {
		if u, ok := n.(*ast.UnaryExpr); ok && u.Op == token.ARROW {
			str := exprString(u.X)
			if strings.HasSuffix(str, "TerminateCtx.Done()") {
				waits = true
			}
			if waits && strings.HasSuffix(str, ".C") {
				timer = true
			}
		}
		return true
	})
	fmt.Fprintf(&sb, "(* main/main.go: blocks on <-TerminateCtx.Done(), then on a grace timer, then returns *)\nDefinition main_waits_for_termination : bool := %v.\nDefinition main_exits_after_grace_timer : bool := %v.\n", waits, timer)
	return sb.String(), nil
}
