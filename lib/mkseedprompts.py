#!/usr/bin/env python3
"""mkseedprompts.py <root> <round-no>: write <root>/prompt_<Cxx>.txt for a round of seeded changes.
Each sub-agent gets only the text of one property and its own scratch worktree <root>/<Cxx> of /repo
(created by the caller: git -C /repo worktree add --detach <root>/<Cxx> HEAD); it delivers into
<root>/out/<Cxx>/.  The summaries of all stored seeds are listed so that a new change differs."""
import json, glob, sys
root, rnd = sys.argv[1], sys.argv[2]
props = [json.loads(l) for l in open('/verif/properties.jsonl')]
sums = []
for d in sorted(glob.glob('/verif/seeded/*/meta.json')):
    m = json.load(open(d))
    sums.append("- " + m['summary'].strip().replace('\n', ' ')[:300])
tmpl = '''You are a careful Go engineer doing MUTATION SEEDING for a verification study. You work ONLY inside your own git worktree of the Go project Nextdoor/pg-bifrost at {wt} (a CDC pipeline: PostgreSQL logical replication -> filter -> partitioner -> marshaller -> batcher -> workers -> Kinesis/S3/RabbitMQ/Kafka/stdout, with a progress ledger that acknowledges WAL positions). Do not read or write anything outside {wt} and {out} (in particular never look at /verif or /repo). No network. Per shell call set: export GOFLAGS=-mod=mod GOPROXY=off GOSUMDB=off GOTOOLCHAIN=local

The property under study (this is ALL you are given):
  {pid} — {title}
  Statement: {statement}
  Quantified: {quant}

YOUR TASK: produce ONE realistic change to the NON-TEST source of pg-bifrost (the kind of edit a developer could plausibly make in good faith: an off-by-one, a reordered statement, a dropped update, a wrong variable, a "simplification", a cache, a missed case, a changed comparison, state reset at the wrong moment, a defensive guard in the wrong place, two sites that each look fine alone ...) that BREAKS the property above while
  (a) the project still compiles (`go build ./...` and also `go build -tags verif ./...`; `go vet` on the packages you touched),
  (b) the EXISTING tests of every package you touched still pass, unedited (`go test -vet=off -count=1 ./<pkg>/...`; transport/progress has a few timing-flaky tests: rerun once if one of those flakes; do not run the whole suite, it takes 25 minutes),
  (c) the breakage is NOT exposed by ordinary use at once: it must need something specific to manifest: a particular interleaving or completion order, a fault at a particular point, a multi-step sequence, an unusual but legitimate input or configuration, a boundary value, or two cooperating sites. Do not change exported signatures, do not touch files whose first line is `//go:build verif`, do not edit tests, docs, go.mod.

{n} earlier changes are listed below; yours must be DIFFERENT in mechanism AND in code site, and must aim at a clause of the property's statement, or a dimension of its quantification, that these do not exercise. Be inventive about WHERE the fault lives and WHAT it needs. Directions nobody has taken yet or only once: the STATS side effects that the properties mention (which statistic is emitted when, with which name/unit/value: dropped_too_big, failure/success counts of the sinks, ledger gauges) and their plumbing; what a stage does with a message it cannot handle (nil Pr, unknown operation, empty relation) ; the marshaller's time/lsn/txn fields for boundary values (LSN 0, 2^32-1, 2^32, 2^63, 2^64-1; server time 0, negative, far future); the partitioner's bucket arithmetic (hash to bucket for count 1, 2, large counts, xids that parse as numbers vs not); the batcher's handling of BEGIN/COMMIT markers (seen list, TotalMsgs, transactions with only filtered rows, two BEGINs of one xid, COMMIT without BEGIN); Kinesis/Kafka/S3/RabbitMQ batch IsFull/IsEmpty/Close/ModifyTime accessors and what the batcher does with a batch that Close() fails on; the RabbitMQ transporter's channel setup/teardown (Confirm, NotifyPublish buffer, channel reuse across batches, exchange name); utils.QuickHash / env helpers; conn.Manager (retry after a failed connect, StartReplication failure, IsClosed true after Close, plugin args); interactions that need THREE steps (A then B then A again). Prefer a site in a file that appears rarely or never in the list below. The change must still look like something a maintainer could commit.
{sums}

Then write a DEMONSTRATION: a new Go test file (or files) placed in the relevant package directory (name it zz_seeded_demo_test.go; it may use the package's internals and the repo's existing mocks) that FAILS with your change and PASSES on the unchanged code, deterministically. Check it three times each way: save your source change with `git diff -- . ':!*_test.go' > {out}/patch.diff`, then `git apply -R {out}/patch.diff` (demo must PASS), `git apply {out}/patch.diff` (demo must FAIL). NEVER use `git stash` (it is shared between worktrees). The demo must show the property being violated (not merely that code differs).

Read the code first (start from the README and the packages the property is about), think about which mechanisms make the property hold, and pick a subtle one. Prefer a change of 1-15 lines.

Deliver into {out}/ (create it):
  patch.diff   - `git diff` of the source change only (no test files), applicable with `git apply` at the worktree's HEAD
  demo/        - the demonstration test file(s), with their repo-relative path preserved (e.g. demo/transport/progress/zz_seeded_demo_test.go)
  meta.json    - {{"property": "{pid}", "summary": "<what was changed, 1-3 sentences>", "needs_to_manifest": "<what specific situation exposes it>", "files_changed": [...], "demo_cmd": "<go test command to run the demo from the repo root>", "existing_tests_run": ["<commands you ran and their result>"], "demo_fails_with_change": true, "demo_passes_without_change": true}}
Leave the worktree with your change applied and the demo file in place. Final answer: the summary, what it needs to manifest, and the exact commands you ran with their outcomes.'''
for p in props:
    pid = p['id']
    open('%s/prompt_%s.txt' % (root, pid), 'w').write(tmpl.format(
        wt='%s/%s' % (root, pid), out='%s/out/%s' % (root, pid), pid=pid, title=p['title'],
        statement=p['statement'], quant=p['quantifier']['text'], n=len(sums), sums="\n".join(sums)))
print(len(sums), 'earlier summaries; prompts in', root)
