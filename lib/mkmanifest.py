#!/usr/bin/env python3
"""Regenerates MANIFEST.json from lib/registry.py + lib/manifest_text.py (kept valid at all times)."""
import json, os, sys
ROOT = os.path.dirname(os.path.dirname(os.path.abspath(__file__)))
sys.path.insert(0, os.path.join(ROOT, "lib"))
from registry import PROPS, MANIFEST_TEXT as TEXT
from manifest_text import NOT_YET, HOOK_COMMITS, CLAIMED

ALL = ["C%02d" % i for i in range(1, 20)]
checks = []
for pid in ALL:
    if pid not in PROPS or pid not in CLAIMED:
        continue
    t = TEXT[pid]
    checks.append({
        "property_id": pid,
        "quick_cmd": "./check %s --tier quick" % pid,
        "thorough_cmd": "./check %s --tier thorough" % pid,
        "evidence_file": "/verif/evidence/%s.json" % pid,
        "replay_cmd_template": "./check replay {path}",
        "engine": "coq-proof+correspondence",
        "level_claimed": {"category": "proof", "text": t["level"], "design_ref": t.get("design_ref", "DESIGN.md section 7")},
        "level_note": t["note"],
        "technique": t["technique"],
    })
m = {
    "version": 1,
    "setup_cmd": "./check setup",
    "hooks": {
        "guard": "verif (Go build tag)",
        "enable": "go build -tags verif (the harness module replaces github.com/Nextdoor/pg-bifrost.git with /repo)",
        "baseline_off_cmd": "cd /repo && GOFLAGS=-mod=mod GOPROXY=off GOSUMDB=off GOTOOLCHAIN=local go test -vet=off -count=1 -timeout 25m ./...",
        "source_commits": HOOK_COMMITS,
        "add_only": True,
    },
    "engines": [{
        "name": "coq-proof+correspondence", "path": "/verif/check",
        "serves_properties": [c["property_id"] for c in checks],
        "kind_free_text": "Coq 8.16.1 theorems over hand-written Gallina models (coq/), Go-AST translator for constants/wiring/CLI chain (translator/), differential correspondence between the real Go code driven through fakes/hooks and the model evaluated by vm_compute (harness/), property monitors over implementation traces",
    }],
    "checks": checks,
    "not_applicable": [{"property_id": p, "reason": NOT_YET.get(p, "check not built yet in this session; the design (DESIGN.md section 7) applies and it will be claimed once its model, theorems and correspondence exist")}
                       for p in ALL if p not in PROPS or p not in CLAIMED],
    "notes": "All commands run with cwd=/verif. ./check honours VERIF_SEED and VERIF_TIER. Exit 1 only with a VIOLATION line; KNOWN-FINDING lines (known_findings.json) exit 0.",
}
json.dump(m, open(os.path.join(ROOT, "MANIFEST.json"), "w"), indent=1)
print("claimed:", [c["property_id"] for c in checks])
