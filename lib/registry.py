"""Property -> theorems / components registry used by ./check."""

TRUSTED_BASE_COMMON = [
    "Coq 8.16.1 kernel (coqc) incl. its vm_compute machine; native_compute not used",
    "hand-written Gallina models under coq/model (modelled, not verified); tied to /repo by the differential correspondence run on every check (harness/, -tags verif) whose observables are re-evaluated by vm_compute inside coqc",
    "Go harness: generators, fakes, canonicalisation, monitors (harness/*.go)",
    "check driver (check, lib/registry.py)",
]

# n = number of generated cases per tier
COMPONENTS = {
    "LEDGER": {"n": {"quick": 300, "thorough": 6000}},
}

PROPS = {
    "C01": {
        "theorem_files": ["props/C01.v"],
        "model_files": ["model/Ledger.v"],
        "components": ["LEDGER"],
        "trusted_base": ["verif hook transport/progress/verif_hook.go (synchronous wrappers around the real updateSeen/updateWritten/emitProgress)"],
        "assumptions": [
            "ledger layer only so far: the batcher/worker/client layers and their composition are not yet in the model",
            "a real sink's success means durable acceptance; PostgreSQL honours the walsender contract",
        ],
        "explanation": "C01 at the ledger layer: L1 proved for all histories; order half refuted by finding F1 (stale completion).",
    },
    "C02": {
        "theorem_files": ["props/C02.v"],
        "model_files": ["model/Ledger.v"],
        "components": ["LEDGER"],
        "trusted_base": ["verif hook transport/progress/verif_hook.go"],
        "assumptions": ["ledger layer only so far"],
        "explanation": "C02 at the ledger layer: wedge witness (finding F1) proved to persist for ever.",
    },
}
