"""Property -> theorems / components registry used by ./check.
The data lives in /verif/registry/*.json (one fragment per component group) so that parts can
be added independently.  A fragment may contain:
  "components":    {K: {"n": {"quick": int, "thorough": int}, "no_model": bool?}}
  "props":         {Cxx: {"theorem_files": [...], "model_files": [...], "components": [...],
                          "trusted_base": [...], "assumptions": [...], "explanation": str}}
  "manifest_text": {Cxx: {"level": str, "note": str, "technique": str}}
Several fragments may contribute to the same property: lists are concatenated (without
duplicates), strings are joined.
"""
import json, os, glob

ROOT = os.path.dirname(os.path.dirname(os.path.abspath(__file__)))

TRUSTED_BASE_COMMON = [
    "Coq 8.16.1 kernel (coqc) incl. its vm_compute machine; native_compute not used",
    "hand-written Gallina models under coq/model (modelled, not verified); tied to /repo by the differential correspondence run on every check (harness/, -tags verif) whose observables are re-evaluated by vm_compute inside coqc",
    "Go harness: generators, fakes, canonicalisation, monitors (harness/)",
    "check driver (check, lib/registry.py, registry/*.json)",
]

COMPONENTS, PROPS, MANIFEST_TEXT = {}, {}, {}


def _merge(dst, src):
    for k, v in src.items():
        if k not in dst:
            dst[k] = v
        elif isinstance(v, list):
            dst[k] = dst[k] + [x for x in v if x not in dst[k]]
        elif isinstance(v, str):
            if v and v not in dst[k]:
                dst[k] = (dst[k] + " " + v).strip()
        else:
            dst[k] = v


for _f in sorted(glob.glob(os.path.join(ROOT, "registry", "*.json"))):
    _d = json.load(open(_f))
    COMPONENTS.update(_d.get("components", {}))
    for _p, _v in _d.get("props", {}).items():
        _merge(PROPS.setdefault(_p, {}), _v)
    for _p, _v in _d.get("manifest_text", {}).items():
        _merge(MANIFEST_TEXT.setdefault(_p, {}), _v)
for _p in PROPS.values():
    for _k in ("theorem_files", "model_files", "components", "trusted_base", "assumptions"):
        _p.setdefault(_k, [])
