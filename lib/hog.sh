#!/bin/bash
# hog.sh <n> <seconds>
for i in $(seq $1); do (timeout $2 sh -c 'while :; do :; done' &) ; done
