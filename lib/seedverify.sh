#!/bin/bash
# seedverify.sh <Cxx> [suffix]: confirm a seeded change delivered in /tmp/mut/out/<Cxx> (patch.diff,
# demo/, meta.json) in a FRESH scratch worktree of /repo's HEAD, then store it as
# /verif/seeded/<Cxx><suffix>/.  (git stash is shared between worktrees: never used here.)
set -u
P=$1; SUF=${2:-}; MUTROOT=${MUTROOT:-/tmp/mut}; OUT=$MUTROOT/out/$P; DST=/verif/seeded/$P$SUF; V=$MUTROOT/verify_$P
export GOFLAGS=-mod=mod GOPROXY=off GOSUMDB=off GOTOOLCHAIN=local
git -C /repo worktree remove --force $V 2>/dev/null
git -C /repo worktree add -q --detach $V HEAD || exit 2
cd $V || exit 2
git apply $OUT/patch.diff || { echo "PATCH DOES NOT APPLY AT HEAD"; git -C /repo worktree remove --force $V; exit 1; }
cp -r $OUT/demo/. .
DEMO=$(python3 -c "import json;print(json.load(open('$OUT/meta.json'))['demo_cmd'])")
PKGS=$(git diff --name-only | grep '\.go$' | xargs -n1 dirname | sort -u | sed 's|^|./|;s|$|/...|' | tr '\n' ' ')
echo "demo: $DEMO"; echo "packages touched: $PKGS"; git diff --stat | tail -1
go build ./... || { echo "BUILD FAILS"; }
echo "--- demo WITH change (must fail: rc!=0)"; timeout 600 bash -c "$DEMO" > /tmp/sv_with_$P.txt 2>&1; echo "rc=$?"
echo "--- existing tests of touched packages WITH change, demo excluded (must pass)"
timeout 1500 go test -vet=off -count=1 -skip 'Seeded|seeded|ZZ' $PKGS 2>&1 | grep -v "no test files" | tail -6
git apply -R $OUT/patch.diff
echo "--- demo WITHOUT change (must pass: rc=0)"; timeout 600 bash -c "$DEMO" > /tmp/sv_without_$P.txt 2>&1; echo "rc=$?"
cd /; git -C /repo worktree remove --force $V
mkdir -p $DST && cp $OUT/patch.diff $DST/ && rm -rf $DST/demo && cp -r $OUT/demo $DST/ && cp $OUT/meta.json $DST/meta.json
echo "stored in $DST"
