#!/usr/bin/env python3
"""seedcheck.py <seeded-dir> [Cxx ...]
Applies <seeded-dir>/patch.diff to /repo, runs ./check for the given properties (default: the
property named in meta.json), records what each check reported in <seeded-dir>/result.json,
and ALWAYS restores /repo (git checkout -- .).  Evidence of these runs goes to a scratch
directory, never to /verif/evidence."""
import sys, os, json, subprocess, time, tempfile
ROOT = os.path.dirname(os.path.dirname(os.path.abspath(__file__)))
d = os.path.abspath(sys.argv[1])
meta = json.load(open(os.path.join(d, "meta.json")))
props = sys.argv[2:] or [meta["property"]]
assert subprocess.run(["git", "-C", "/repo", "status", "--porcelain", "--untracked-files=no"], capture_output=True, text=True).stdout.strip() == "", "/repo has local changes"
res = {"applied": False, "checks": {}}
try:
    p = subprocess.run(["git", "-C", "/repo", "apply", os.path.join(d, "patch.diff")], capture_output=True, text=True)
    if p.returncode != 0:
        res["error"] = p.stderr
    else:
        res["applied"] = True
        ev = tempfile.mkdtemp(prefix="seed_evidence_")
        for pid in props:
            t0 = time.time()
            q = subprocess.run(["./check", pid, "--tier", "quick"], cwd=ROOT, capture_output=True, text=True,
                               env=dict(os.environ, VERIF_EVIDENCE_DIR=ev))
            lines = [l for l in q.stdout.splitlines() if l.startswith("VIOLATION") or l.startswith("KNOWN-FINDING")]
            detail = None
            for l in lines:
                if l.startswith("VIOLATION") and "replay=" in l:
                    f = l.split("replay=")[1].split()[0]
                    try:
                        r = json.load(open(f))
                        detail = {k: r.get(k) for k in ("kind", "component", "signature", "what")}
                        detail["broken"] = [b.get("kind", "") + ":" + b.get("name", "") for b in r.get("broken", [])][:8]
                    except Exception as e:
                        detail = {"error": str(e)}
            res["checks"][pid] = {"exit": q.returncode, "violation": [l[:300] for l in lines if l.startswith("VIOLATION")],
                                  "detail": detail, "wall_s": round(time.time() - t0, 1)}
finally:
    subprocess.run(["git", "-C", "/repo", "checkout", "--", "."])
res["caught_by"] = [p for p, c in res["checks"].items() if c["exit"] == 1]
json.dump(res, open(os.path.join(d, "result.json"), "w"), indent=1)
print(json.dumps(res, indent=1)[:3000])
