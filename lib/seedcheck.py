#!/usr/bin/env python3
"""seedcheck.py <seeded-dir> [Cxx ...]
Creates a scratch worktree of /repo's HEAD under /tmp, applies <seeded-dir>/patch.diff THERE, runs
./check for the given properties (default: the property named in meta.json) with
VERIF_REPO=<worktree> (so /repo and the main build are never touched), records what each check
reported in <seeded-dir>/result.json, and removes the worktree and its build directory.
Evidence of these runs goes to a scratch directory, never to /verif/evidence."""
import sys, os, json, subprocess, time, tempfile, hashlib, shutil
ROOT = os.path.dirname(os.path.dirname(os.path.abspath(__file__)))
d = os.path.abspath(sys.argv[1])
meta = json.load(open(os.path.join(d, "meta.json")))
props = sys.argv[2:] or [meta["property"]]
wt = "/tmp/seedwt_" + os.path.basename(d)
subprocess.run(["git", "-C", "/repo", "worktree", "remove", "--force", wt], capture_output=True)
assert subprocess.run(["git", "-C", "/repo", "worktree", "add", "-q", "--detach", wt, "HEAD"]).returncode == 0
res = {"applied": False, "checks": {}}
alt = os.path.join(ROOT, "build", "alt_" + hashlib.sha1(wt.encode()).hexdigest()[:8])
try:
    p = subprocess.run(["git", "-C", wt, "apply", os.path.join(d, "patch.diff")], capture_output=True, text=True)
    if p.returncode != 0:
        res["error"] = p.stderr
    else:
        res["applied"] = True
        ev = tempfile.mkdtemp(prefix="seed_evidence_")
        for pid in props:
            t0 = time.time()
            q = subprocess.run(["./check", pid, "--tier", "quick"], cwd=ROOT, capture_output=True, text=True,
                               env=dict(os.environ, VERIF_EVIDENCE_DIR=ev, VERIF_REPO=wt))
            lines = [l for l in q.stdout.splitlines() if l.startswith("VIOLATION") or l.startswith("KNOWN-FINDING")]
            detail = None
            for l in lines:
                if l.startswith("VIOLATION") and "replay=" in l:
                    f = l.split("replay=")[1].split()[0]
                    try:
                        r = json.load(open(f))
                        detail = {k: r.get(k) for k in ("kind", "component", "signature", "what")}
                        detail["broken"] = [b.get("kind", "") + ":" + b.get("name", "") for b in r.get("broken", [])][:8]
                    except Exception as e:
                        detail = {"error": str(e)}
            res["checks"][pid] = {"exit": q.returncode, "violation": [l[:300] for l in lines if l.startswith("VIOLATION")],
                                  "detail": detail, "wall_s": round(time.time() - t0, 1),
                                  "tail": q.stdout[-400:] if q.returncode not in (0, 1) else ""}
        shutil.rmtree(ev, ignore_errors=True)
finally:
    subprocess.run(["git", "-C", "/repo", "worktree", "remove", "--force", wt], capture_output=True)
    shutil.rmtree(alt, ignore_errors=True)
res["caught_by"] = [p for p, c in res["checks"].items() if c["exit"] == 1]
json.dump(res, open(os.path.join(d, "result.json"), "w"), indent=1)
print(json.dumps(res, indent=1)[:3000])
