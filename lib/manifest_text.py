HOOK_COMMITS = ["b7b7dfc"]
NOT_YET = {}
