HOOK_COMMITS = ["b7b7dfc", "f268d05", "2772870", "485ecb4", "f05d093", "29742e3","9c1ee60"]
# properties whose checks are integrated and reviewed by the coordinator; others stay under not_applicable
CLAIMED = ["C01", "C02", "C03", "C04", "C05", "C06", "C07", "C08", "C09", "C10", "C11", "C12", "C13", "C14", "C15", "C16", "C17", "C18", "C19"]
NOT_YET = {}
