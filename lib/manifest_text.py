HOOK_COMMITS = ["b7b7dfc"]
NOT_YET = {}
TEXT = {
 "C01": {
  "level": "Machine-checked Coq theorems over an executable model of the progress ledger (every history, every completion order): an emitted position always stems from a Seen with that commit position whose delivery has at least its announced number of messages certified written (C01_L1_emission_sound); the order half is refuted on the faithful model by a vm_compute witness (finding F1, replayed on the real ledger on every run). The model is tied to /repo by a differential correspondence on seeded op sequences through the verif hook.",
  "note": "Trusted: Coq kernel + vm_compute; hand-written model coq/model/Ledger.v (checked against the real Ledger/emitProgress on every run, per-op results + ordered keys + final snapshot); harness and hook. Layers above the ledger (batcher, workers, client, composition) are being added; until then C01 is decided at the ledger layer only.",
  "technique": "Coq proof (invariant by induction over histories) + vm_compute refutation witness + differential correspondence model/implementation",
 },
 "C02": {
  "level": "Machine-checked Coq refutation: the faithful ledger model wedges for ever after a complete history containing a stale completion (C02_ledger_wedge_refuted, for every number of further emissions); the same history is replayed on the real ledger every run (known finding F1). Correspondence as for C01.",
  "note": "Trusted as C01. The positive drain theorem under the no-stale-completion contract is being added.",
  "technique": "Coq proof (induction on the number of later emissions) + differential correspondence model/implementation",
 },
}
