HOOK_COMMITS = ["b7b7dfc", "f268d05", "2772870", "485ecb4"]
# properties whose checks are integrated and reviewed by the coordinator; others stay under not_applicable
CLAIMED = ["C01", "C02", "C08", "C11", "C12", "C13", "C14"]
NOT_YET = {}
