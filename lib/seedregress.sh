#!/bin/bash
# seedregress.sh [jobs]: run lib/seedcheck.py for EVERY stored seeded change (4 in parallel by default)
# and print which are (no longer) detected.  Results go to seeded/<id>/result.json.
cd /verif
J=${1:-4}
ls -d seeded/C* | xargs -P $J -I{} sh -c 'timeout 3000 python3 lib/seedcheck.py {} > /dev/null 2>&1'
python3 - <<'EOF'
import json,glob,os
bad=0
for d in sorted(glob.glob('/verif/seeded/C*')):
    m=json.load(open(d+'/meta.json')); pid=m['property']
    try:
        c=json.load(open(d+'/result.json'))['checks'][pid]
    except Exception as e:
        print(os.path.basename(d),'NO RESULT',e); bad+=1; continue
    det=c.get('detail') or {}
    tag='ok ' if c['exit']==1 else 'MISSED'
    if c['exit']!=1: bad+=1
    print(tag, os.path.basename(d), c['exit'], c.get('wall_s'), det.get('component'), det.get('signature') or (det.get('broken') or [''])[0])
print('not detected:', bad)
EOF
