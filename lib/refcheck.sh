#!/bin/bash
# refcheck.sh <dir-with-patch.diff> <Cxx> [<Cxx> ...]: a behaviour-preserving rewrite of /repo must NOT
# make a check alarm.  Confirms in a fresh scratch worktree that the patch applies, builds (also with
# -tags verif) and passes the existing tests of the packages it touches, then runs ./check for the given
# properties against a scratch worktree carrying the patch (lib/seedcheck.py: VERIF_REPO mode; /repo and
# the main build are never touched) and prints one line per property.
set -u
D=$(readlink -f "$1"); shift
export GOFLAGS=-mod=mod GOPROXY=off GOSUMDB=off GOTOOLCHAIN=local
V=/tmp/refverify_$(basename "$D")
git -C /repo worktree remove --force "$V" 2>/dev/null
git -C /repo worktree add -q --detach "$V" HEAD || exit 2
cd "$V" || exit 2
if ! git apply "$D/patch.diff"; then echo "PATCH DOES NOT APPLY"; cd /; git -C /repo worktree remove --force "$V"; exit 1; fi
PKGS=$(git diff --name-only | grep '\.go$' | xargs -n1 dirname | sort -u | sed 's|^|./|;s|$|/...|' | tr '\n' ' ')
echo "touched: $PKGS  $(git diff --stat | tail -1)"
go build ./... && go build -tags verif ./... || echo "BUILD FAILS"
timeout 1500 go test -vet=off -count=1 $PKGS 2>&1 | grep -v "no test files" | tail -5
cd /; git -C /repo worktree remove --force "$V"
[ -f "$D/meta.json" ] || echo '{"property":"-"}' > "$D/meta.json"
cd /verif && timeout 3000 python3 lib/seedcheck.py "$D" "$@" > /dev/null 2>&1
python3 - "$D" <<'EOF'
import json,sys
d=json.load(open(sys.argv[1]+'/result.json'))
for pid,c in d['checks'].items():
    det=c.get('detail') or {}
    print(pid,'exit',c['exit'],'wall',c.get('wall_s'),'|',det.get('kind'),det.get('component'),det.get('signature'),'|',(det.get('what') or '')[:160].replace('\n',' '),'|',(det.get('broken') or [])[:4])
EOF
