#!/bin/bash
# seedone.sh <Cxx>: verify + check a round-3 seed, terse output
P=$1
cd /verif
MUTROOT=${MUTROOT:-/tmp/mut3} bash lib/seedverify.sh $P ${SUF:--3} > /tmp/rp/sv_$P.log 2>&1
echo "$P verify: $(grep -A1 'WITH change (must fail' /tmp/rp/sv_$P.log | tail -1) / tests: $(grep -A6 'existing tests' /tmp/rp/sv_$P.log | grep -c '^ok') ok, $(grep -A6 'existing tests' /tmp/rp/sv_$P.log | grep -c 'FAIL') FAIL / without: $(grep -A1 'WITHOUT change' /tmp/rp/sv_$P.log | tail -1)"
timeout 2400 python3 lib/seedcheck.py seeded/$P${SUF:--3} > /tmp/rp/sc_$P.log 2>&1
python3 - <<EOF
import json
d=json.load(open('/verif/seeded/$P${SUF:--3}/result.json'))
for pid,c in d['checks'].items():
    det=c.get('detail') or {}
    print('$P check', pid, 'exit', c['exit'], 'wall', c.get('wall_s'), '|', det.get('kind'), det.get('component'), det.get('signature'), '|', (det.get('what') or '')[:200].replace('\n',' '), '| broken:', (det.get('broken') or [])[:3])
EOF
