(* ClientProofs.v — lemmas about model/Client.v (C03, C07, C18). *)
From Bifrost.model Require Import Base Client.
From Coq Require Import Sorted.

Definition acks (o : list cobs) : list N :=
  flat_map (fun x => match x with CSend l => [l] | _ => [] end) o.

Lemma acks_app a b : acks (a ++ b) = acks a ++ acks b.
Proof. unfold acks. now rewrite flat_map_app. Qed.

(* ---------- absorb ---------- *)
Lemma absorb_ge cur vs : (cur <= fst (absorb cur vs))%N.
Proof.
  revert cur. induction vs as [|v vs IH]; intros cur; simpl; [lia|].
  destruct (N.leb_spec v cur) as [H|H]; [apply IH|].
  specialize (IH v). destruct (absorb v vs) as [c u]; simpl in *. lia.
Qed.

Lemma absorb_source cur vs : fst (absorb cur vs) = cur \/ In (fst (absorb cur vs)) vs.
Proof.
  revert cur. induction vs as [|v vs IH]; intros cur; simpl; [now left|].
  destruct (N.leb_spec v cur) as [H|H].
  - destruct (IH cur); auto.
  - specialize (IH v). destruct (absorb v vs) as [c u]; simpl in *. destruct IH; auto.
Qed.

(* ---------- one handleProgress call ---------- *)
Lemma hp_facts s force vs closed s' o :
  handle_progress s force vs closed = Some (s', o) ->
  (overall s <= overall s')%N /\
  (overall s' = overall s \/ In (overall s') vs) /\
  (acks o = [] \/ acks o = [overall s']) /\
  highest s' = highest s /\ ctxn s' = ctxn s /\ ckey s' = ckey s /\ begins s' = begins s /\
  saw_commit s' = saw_commit s /\ first_iter s' = first_iter s /\ stopped s' = stopped s /\
  hb_count s' = hb_count s /\ hb_slow s' = hb_slow s /\
  (forall l f, In (CGetStart l f) o -> l = highest s) /\
  (forall x, In x o -> (exists l f, x = CGetStart l f) \/ x = CSend (overall s')) /\
  (force = true -> In (CSend (overall s')) o).
Proof.
  unfold handle_progress. pose proof (absorb_ge (overall s) vs) as Hge.
  pose proof (absorb_source (overall s) vs) as Hsrc.
  destruct (absorb (overall s) vs) as [c u]. simpl in *.
  destruct closed; [discriminate|].
  destruct (u || force) eqn:Huf; intros H; inversion H; subst; clear H; simpl.
  - repeat split; auto.
    + intros l f [Hx|[Hx|[]]]; inversion Hx; reflexivity.
    + intros x [Hx|[Hx|[]]]; subst; [left; eauto|right; reflexivity].
  - repeat split; auto; try (intros; contradiction).
    intros Hf; subst. rewrite orb_true_r in Huf. discriminate.
Qed.

(* ---------- C03: one loop iteration ---------- *)
Definition sorted_between (lo hi : N) (l : list N) : Prop :=
  Sorted N.le l /\ Forall (fun a => (lo <= a <= hi)%N) l.

Lemma sorted_between_nil lo hi : sorted_between lo hi [].
Proof. split; constructor. Qed.

Lemma sorted_between_one lo hi a : (lo <= a <= hi)%N -> sorted_between lo hi [a].
Proof. intros H; split; [repeat constructor|constructor; [lia|constructor]]. Qed.

Lemma sorted_between_app lo mid hi a b :
  sorted_between lo mid a -> sorted_between mid hi b -> (lo <= mid <= hi)%N ->
  sorted_between lo hi (a ++ b).
Proof.
  intros [Sa Fa] [Sb Fb] Hm. split.
  - induction a as [|x a IH]; simpl; [assumption|].
    inversion Sa as [|? ? Sa' Hd]; subst. inversion Fa as [|? ? Hx Fa']; subst.
    constructor; [auto|].
    destruct a as [|y a]; simpl.
    + destruct b as [|z b]; constructor. inversion Fb; subst. lia.
    + constructor. inversion Hd; subst. assumption.
  - apply Forall_app; split; eapply Forall_impl; try eassumption; simpl; intros; lia.
Qed.

Lemma sorted_between_weaken lo hi lo' hi' l :
  sorted_between lo hi l -> (lo' <= lo)%N -> (hi <= hi')%N -> sorted_between lo' hi' l.
Proof. intros [S F] H1 H2; split; auto. eapply Forall_impl; [|exact F]. simpl; intros; lia. Qed.

Lemma hp_acks s force vs closed s' o :
  handle_progress s force vs closed = Some (s', o) ->
  sorted_between (overall s) (overall s') (acks o).
Proof.
  intros H. destruct (hp_facts _ _ _ _ _ _ H) as (Hge & _ & Ha & _).
  destruct Ha as [-> | ->]; [apply sorted_between_nil|apply sorted_between_one; lia].
Qed.

Lemma get_start_facts s : acks (snd (get_start s)) = [] /\ overall (fst (get_start s)) = overall s /\
  highest (fst (get_start s)) = highest s.
Proof. now unfold get_start. Qed.

(* ---------- the blocked-output loop (WriteLoop of handleXLogData) ---------- *)
(* the values delivered on the progress channel during the blocked ticks, and whether one of the
   ticks finds the channel closed *)
Definition blocked_values (bl : list (list N * bool)) : list N := flat_map fst bl.
Definition blocked_closed (bl : list (list N * bool)) : bool := existsb snd bl.

Lemma bt_acks bl : forall s sb ob e,
  blocked_ticks s bl = (sb, ob, e) ->
  (overall s <= overall sb)%N /\ sorted_between (overall s) (overall sb) (acks ob).
Proof.
  induction bl as [|[vs closed] bl IH]; intros s sb ob e; simpl.
  - intros H; inversion H; subst. split; [lia|apply sorted_between_nil].
  - destruct (handle_progress s true vs closed) as [[s1 o1]|] eqn:HP.
    + destruct (blocked_ticks s1 bl) as [[s2 o2] e2] eqn:BT. intros H; inversion H; subst; clear H.
      destruct (IH _ _ _ _ BT) as [L2 S2].
      pose proof (hp_acks _ _ _ _ _ _ HP) as S1.
      destruct (hp_facts _ _ _ _ _ _ HP) as (L1 & _).
      split; [lia|]. rewrite acks_app. eapply sorted_between_app; eauto.
    + intros H; inversion H; subst. split; [lia|apply sorted_between_nil].
Qed.

(* everything but [overall] and [conn_open] is untouched; connection requests carry the state's
   highestWalStart; the error flag is exactly "some tick finds the channel closed" *)
Lemma bt_frame bl : forall s sb ob e,
  blocked_ticks s bl = (sb, ob, e) ->
  highest sb = highest s /\ ctxn sb = ctxn s /\ ckey sb = ckey s /\ begins sb = begins s /\
  saw_commit sb = saw_commit s /\ first_iter sb = first_iter s /\ stopped sb = stopped s /\
  hb_count sb = hb_count s /\ hb_slow sb = hb_slow s /\
  (conn_open s = true -> conn_open sb = true) /\
  e = blocked_closed bl /\
  (forall x, In x ob -> (exists f, x = CGetStart (highest s) f /\ (f = true -> conn_open s = false)) \/
                        (exists v, x = CSend v)).
Proof.
  induction bl as [|[vs closed] bl IH]; intros s sb ob e; simpl.
  - intros H; inversion H; subst. repeat split; auto. intros x [].
  - destruct closed.
    + assert (HN : handle_progress s true vs true = None).
      { unfold handle_progress. destruct (absorb (overall s) vs). reflexivity. }
      rewrite HN. intros H; inversion H; subst. repeat split; auto. intros x [].
    + unfold handle_progress. destruct (absorb (overall s) vs) as [c u]. rewrite orb_true_r.
      cbn [get_start]. 
      destruct (blocked_ticks (set_conn (set_overall s c) true) bl) as [[s2 o2] e2] eqn:BT.
      intros H; inversion H; subst; clear H.
      destruct (IH _ _ _ _ BT) as (F1 & F2 & F3 & F4 & F5 & F6 & F7 & F8 & F9 & F10 & F11 & F12).
      simpl in *. repeat split; auto.
      intros x [Hx|[Hx|Hx]].
      * left. exists (negb (conn_open s)). split; [now rewrite <- Hx|]. now destruct (conn_open s).
      * right. eauto.
      * destruct (F12 x Hx) as [(f & E & Ff)|Hv]; [|now right].
        left. exists f. split; [exact E|]. intros Hf. specialize (Ff Hf). discriminate.
Qed.

(* ---------- brute-force analysis of one loop iteration ---------- *)
(* destruct every match of the goal, keeping the equations of handleProgress calls *)
Ltac split_step :=
  repeat match goal with
  | |- context [match handle_progress ?a ?b ?c ?d with _ => _ end] =>
      let E := fresh "HP" in destruct (handle_progress a b c d) as [[? ?]|] eqn:E
  | |- context [match blocked_ticks ?a ?b with _ => _ end] =>
      let E := fresh "BT" in destruct (blocked_ticks a b) as [[? ?] ?] eqn:E
  | |- context [match ?x with _ => _ end] => destruct x eqn:?
  | |- context [if ?x then _ else _] => destruct x eqn:?
  end.

Ltac hp_use :=
  repeat match goal with
  | H : handle_progress _ _ _ _ = Some (_, _) |- _ =>
      let A := fresh "A" in let F := fresh "F" in
      pose proof (hp_acks _ _ _ _ _ _ H) as A;
      pose proof (hp_facts _ _ _ _ _ _ H) as F;
      let G := fresh "G" in destruct F as (G & F);
      generalize dependent H; intro
  end.

Lemma cstep_acks s it s' o :
  cstep s it = (s', o) -> (overall s <= overall s')%N /\ sorted_between (overall s) (overall s') (acks o).
Proof.
  unfold cstep, fatal, stop, recover, recover_fail, heartbeat, handle_xlog, write_loop, get_start.
  split_step; intros H; inversion H; subst; clear H;
    repeat match goal with
    | E : (_, _) = (_, _) |- _ => inversion E; subst; clear E
    | E : context [match ?x with _ => _ end] |- _ => destruct x eqn:?
    | E : context [if ?x then _ else _] |- _ => destruct x eqn:?
    end; simpl;
    repeat rewrite acks_app; simpl; repeat rewrite app_nil_r;
    repeat match goal with
    | H : handle_progress _ _ _ _ = Some (_, _) |- _ =>
        let A := fresh "A" in pose proof (hp_acks _ _ _ _ _ _ H) as A; simpl in A;
        let F := fresh "F" in pose proof (hp_facts _ _ _ _ _ _ H) as F; destruct F as (? & _); simpl in *;
        clear H
    | H : blocked_ticks _ _ = (_, _, _) |- _ =>
        let A := fresh "B" in pose proof (bt_acks _ _ _ _ _ H) as A; destruct A as (? & A); simpl in *;
        clear H
    end;
    try (split; [lia|]);
    try apply sorted_between_nil;
    try (eapply sorted_between_weaken; [eassumption|lia|lia]);
    try (eapply sorted_between_app; [eassumption|eassumption|lia]).
Qed.

(* the same analysis as a reusable tactic: every leaf of one loop iteration, with the facts of
   each handleProgress call in the context *)
Ltac step_cases :=
  unfold cstep, fatal, stop, recover, recover_fail, heartbeat, handle_xlog, write_loop, get_start;
  split_step;
  let H := fresh in intros H; inversion H; subst; clear H;
  repeat match goal with
  | E : (_, _) = (_, _) |- _ => inversion E; subst; clear E
  | E : context [match ?x with _ => _ end] |- _ => destruct x eqn:?
  | E : context [if ?x then _ else _] |- _ => destruct x eqn:?
  end;
  repeat match goal with
  | H : handle_progress _ _ _ _ = Some (_, _) |- _ =>
      let F := fresh "F" in pose proof (hp_facts _ _ _ _ _ _ H) as F; simpl in F;
      generalize dependent H; intro
  end.

(* ---------- C03: whole runs ---------- *)
Lemma citers_acks its : forall s s' o,
  citers s its = (s', o) -> (overall s <= overall s')%N /\ sorted_between (overall s) (overall s') (acks o).
Proof.
  induction its as [|it its IH]; intros s s' o; simpl.
  - intros H; inversion H; subst. split; [lia|apply sorted_between_nil].
  - destruct (cstep s it) as [s1 o1] eqn:H1. destruct (citers s1 its) as [s2 o2] eqn:H2.
    intros H; inversion H; subst.
    destruct (cstep_acks _ _ _ _ H1) as [L1 S1]. destruct (IH _ _ _ H2) as [L2 S2].
    split; [lia|]. rewrite acks_app. eapply sorted_between_app; eauto.
Qed.

Lemma cstart_acks first : acks (snd (cstart first)) = [].
Proof. unfold cstart, get_start, fatal. destruct first; reflexivity. Qed.

Lemma crun_acks_sorted first its : Sorted N.le (acks (snd (crun first its))).
Proof.
  unfold crun. destruct (cstart first) as [s0 o0] eqn:H0. destruct (citers s0 its) as [s1 o1] eqn:H1.
  simpl. rewrite acks_app. pose proof (cstart_acks first) as Hc. rewrite H0 in Hc. simpl in Hc. rewrite Hc.
  simpl. destruct (citers_acks _ _ _ _ H1) as [_ [S _]]. exact S.
Qed.

(* where acknowledged values come from *)
Definition start_pos (first : cev) : N :=
  match first with EKeepalive w _ _ => w | _ => 0%N end.

(* the values delivered on the progress channel during one iteration: at the loop head, at the
   second handleProgress call, and at the ticks served while the output channel is full *)
Definition iter_values (it : citer) : list N := i_prog it ++ i_prog2 it ++ blocked_values (i_blocked it).

Lemma hp_source (P : N -> Prop) s force vs closed s' o :
  handle_progress s force vs closed = Some (s', o) ->
  P (overall s) -> (forall v, In v vs -> P v) -> P (overall s') /\ Forall P (acks o).
Proof.
  intros H HP Hv. destruct (hp_facts _ _ _ _ _ _ H) as (_ & Hsrc & Ha & _).
  assert (P (overall s')) by (destruct Hsrc as [->|?]; auto).
  split; [assumption|]. destruct Ha as [->| ->]; repeat constructor; assumption.
Qed.

Lemma bt_source (P : N -> Prop) bl : forall s sb ob e,
  blocked_ticks s bl = (sb, ob, e) ->
  P (overall s) -> (forall v, In v (blocked_values bl) -> P v) -> P (overall sb) /\ Forall P (acks ob).
Proof.
  induction bl as [|[vs closed] bl IH]; intros s sb ob e; simpl.
  - intros H; inversion H; subst. intros; split; [assumption|constructor].
  - destruct (handle_progress s true vs closed) as [[s1 o1]|] eqn:HP.
    + destruct (blocked_ticks s1 bl) as [[s2 o2] e2] eqn:BT. intros H HP0 Hv; inversion H; subst; clear H.
      destruct (hp_source P _ _ _ _ _ _ HP HP0) as [P1 F1]; [intros; apply Hv; apply in_or_app; now left|].
      destruct (IH _ _ _ _ BT P1) as [P2 F2]; [intros; apply Hv; apply in_or_app; now right|].
      split; [assumption|]. rewrite acks_app. apply Forall_app; split; assumption.
    + intros H; inversion H; subst. intros; split; [assumption|constructor].
Qed.

Lemma cstep_source s it s' o (P : N -> Prop) :
  cstep s it = (s', o) -> P (overall s) -> (forall v, In v (iter_values it) -> P v) ->
  P (overall s') /\ Forall P (acks o).
Proof.
  intros Hs HP Hv. revert Hs. unfold iter_values in Hv.
  assert (Hv1 : forall v, In v (i_prog it) -> P v) by (intros; apply Hv; apply in_or_app; now left).
  assert (Hv2 : forall v, In v (i_prog2 it) -> P v)
    by (intros; apply Hv; apply in_or_app; right; apply in_or_app; now left).
  assert (Hv3 : forall v, In v (blocked_values (i_blocked it)) -> P v)
    by (intros; apply Hv; apply in_or_app; right; apply in_or_app; now right).
  unfold cstep, fatal, stop, recover, recover_fail, heartbeat, handle_xlog, write_loop, get_start.
  split_step; intros H; inversion H; subst; clear H;
    repeat match goal with
    | E : (_, _) = (_, _) |- _ => inversion E; subst; clear E
    | E : context [match ?x with _ => _ end] |- _ => destruct x eqn:?
    | E : context [if ?x then _ else _] |- _ => destruct x eqn:?
    end; simpl;
    repeat rewrite acks_app; simpl; repeat rewrite app_nil_r;
    repeat match goal with
    | H : handle_progress ?a _ ?vs _ = Some (_, _) |- _ =>
        let R := fresh "R" in
        assert (R := hp_source P _ _ _ _ _ _ H); simpl in R; clear H
    | H : blocked_ticks _ _ = (_, _, _) |- _ =>
        let R := fresh "R" in
        assert (R := bt_source P _ _ _ _ _ H); simpl in R; clear H
    end;
    repeat match goal with
    | R : P ?x -> _ -> _ /\ _ |- _ =>
        let R1 := fresh "R" in let R2 := fresh "R" in
        first [ destruct (R ltac:(assumption) Hv1) as [R1 R2] | destruct (R ltac:(assumption) Hv2) as [R1 R2]
              | destruct (R ltac:(assumption) Hv3) as [R1 R2] ]; clear R
    end;
    repeat rewrite Forall_app;
    repeat split; try assumption; try constructor.
Qed.

Lemma citers_source its (P : N -> Prop) : forall s s' o,
  citers s its = (s', o) -> P (overall s) -> (forall v, In v (flat_map iter_values its) -> P v) ->
  P (overall s') /\ Forall P (acks o).
Proof.
  induction its as [|it its IH]; intros s s' o; simpl.
  - intros H; inversion H; subst. intros; split; [assumption|constructor].
  - destruct (cstep s it) as [s1 o1] eqn:H1. destruct (citers s1 its) as [s2 o2] eqn:H2.
    intros H HP Hv; inversion H; subst.
    destruct (cstep_source _ _ _ _ P H1 HP) as [P1 F1]; [intros; apply Hv; apply in_or_app; now left|].
    destruct (IH _ _ _ H2 P1) as [P2 F2]; [intros; apply Hv; apply in_or_app; now right|].
    split; [assumption|]. rewrite acks_app. apply Forall_app; split; assumption.
Qed.

Lemma cstart_overall first : overall (fst (cstart first)) = start_pos first \/ overall (fst (cstart first)) = 0%N.
Proof. unfold cstart, get_start, fatal, stop, start_pos. destruct first; simpl; auto. Qed.

Lemma crun_acks_sourced first its a :
  In a (acks (snd (crun first its))) ->
  a = start_pos first \/ a = 0%N \/ In a (flat_map iter_values its).
Proof.
  unfold crun. destruct (cstart first) as [s0 o0] eqn:H0. destruct (citers s0 its) as [s1 o1] eqn:H1.
  simpl. rewrite acks_app. pose proof (cstart_acks first) as Hc. rewrite H0 in Hc. simpl in Hc. rewrite Hc.
  simpl. intros Hin.
  set (P := fun v => v = start_pos first \/ v = 0%N \/ In v (flat_map iter_values its)).
  destruct (citers_source its P _ _ _ H1) as [_ F].
  - pose proof (cstart_overall first) as Ho. rewrite H0 in Ho. simpl in Ho. unfold P. tauto.
  - intros v Hv. unfold P. tauto.
  - rewrite Forall_forall in F. apply F in Hin. exact Hin.
Qed.

