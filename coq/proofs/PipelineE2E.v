(* PipelineE2E.v — C04 and C05 lifted from "dispatched by the batcher" to "ACCEPTED BY THE SINK" on the
   composed model (model/Pipeline.v), for every configuration with >= 1 worker and EVERY schedule
   (label list: any interleaving of feeds, ticks, worker completions, tracker reads and emits; a slow
   worker is a late [LAccept]).

     Part A  vocabulary: prefix, per-worker projections, the instrumented run [prun_acc]
     Part B  queues are FIFO per worker (enqueue / dequeue / route)
     Part C  the FIFO invariant FI: per worker w,
               (batches of w accepted by the sink) ++ (queue of w) = (batches dispatched to w), in order
     Part D  C04 at the sink: conservation, exactly once, completeness at quiescence, records intact
     Part E  C05 at the sink: per partition key in delivery order; one worker, one key: whole stream
     Part F  the per-key statement on the flat record list of the sink (distinct ids) *)
From Bifrost.model Require Import Base Crc32 Batch Batcher Ledger.
From Bifrost.proofs Require Import BatchProofs BatcherProofs LedgerProofs.
From Bifrost.model Require Import Pipeline.
From Bifrost.proofs Require Import PipelineProofs.
From Coq Require Import Permutation.

(* ===================================================================== *)
(* Part A — vocabulary                                                     *)
(* ===================================================================== *)

Definition prefix {A} (a b : list A) : Prop := exists r, b = a ++ r.

Lemma prefix_refl {A} (a : list A) : prefix a a.
Proof. exists []. now rewrite app_nil_r. Qed.
Lemma prefix_app {A} (a b : list A) : prefix a (a ++ b).
Proof. now exists b. Qed.
Lemma prefix_trans {A} (a b c : list A) : prefix a b -> prefix b c -> prefix a c.
Proof. intros [r ->] [r' ->]. exists (r ++ r'). now rewrite app_assoc. Qed.
Lemma prefix_map {A B} (f : A -> B) a b : prefix a b -> prefix (map f a) (map f b).
Proof. intros [r ->]. exists (map f r). apply map_app. Qed.
Lemma prefix_filter {A} (f : A -> bool) a b : prefix a b -> prefix (filter f a) (filter f b).
Proof. intros [r ->]. exists (filter f r). apply filter_app. Qed.

(* ids of a record list / of everything waiting in the worker queues *)
Definition rec_ids (l : list rec) : list N := map r_id l.
Definition queued_ids (qs : list (N * list batch)) : list N := flat_map ids (queued qs).

(* the records of a list of (worker, batch) pairs, in order *)
Definition items_of (l : list (N * batch)) : list rec := flat_map (fun wb => b_items (snd wb)) l.

(* the batches of worker w in a list of (worker, batch) pairs, in order *)
Definition onw (w : N) (l : list (N * batch)) : list batch :=
  map snd (filter (fun wb => (fst wb =? w)%N) l).

(* the (worker, batch) pairs whose batch has partition key p — the filter of [dispatched_for] *)
Definition for_key (p : string) (l : list (N * batch)) : list (N * batch) :=
  filter (fun wb => String.eqb (b_pkey (snd wb)) p) l.

(* the batches with partition key p *)
Definition keyp (p : string) (l : list batch) : list batch :=
  filter (fun b => String.eqb (b_pkey b) p) l.

(* the queue of worker w (the first entry of w; [enqueue]/[dequeue] only ever touch that one) *)
Fixpoint qof (w : N) (qs : list (N * list batch)) : list batch :=
  match qs with
  | [] => []
  | (w', q) :: r => if (w =? w')%N then q else qof w r
  end.

(* what a label makes the sink accept: the head batch of worker w *)
Definition acc_of (st : pstate) (l : plabel) : list (N * batch) :=
  if p_failed st then [] else
  match l with
  | LAccept w => match dequeue w (p_queues st) with Some (b, _) => [(w, b)] | None => [] end
  | _ => []
  end.

(* the instrumented run: [prun] plus the list of accepted (worker, batch) pairs in acceptance order *)
Definition pacc_step (cfg : bcfg) (sa : pstate * list (N * batch)) (l : plabel) : pstate * list (N * batch) :=
  (pstep cfg (fst sa) l, snd sa ++ acc_of (fst sa) l).

Definition prun_acc (cfg : bcfg) (ls : list plabel) : pstate * list (N * batch) :=
  fold_left (pacc_step cfg) ls (pinit, []).

Definition accepted_batches (cfg : bcfg) (ls : list plabel) : list (N * batch) := snd (prun_acc cfg ls).

Lemma prun_acc_snoc cfg ls l : prun_acc cfg (ls ++ [l]) = pacc_step cfg (prun_acc cfg ls) l.
Proof. unfold prun_acc. now rewrite fold_left_app. Qed.

(* the instrumentation does not change the run *)
Lemma prun_acc_fst cfg ls : fst (prun_acc cfg ls) = prun cfg ls.
Proof.
  induction ls as [|l ls IH] using rev_ind; [reflexivity|].
  rewrite prun_acc_snoc, prun_snoc. unfold pacc_step. simpl. now rewrite IH.
Qed.

Lemma accepted_batches_snoc cfg ls l :
  accepted_batches cfg (ls ++ [l]) = accepted_batches cfg ls ++ acc_of (prun cfg ls) l.
Proof. unfold accepted_batches. rewrite prun_acc_snoc. unfold pacc_step. simpl. now rewrite prun_acc_fst. Qed.

Lemma items_of_app a b : items_of (a ++ b) = items_of a ++ items_of b.
Proof. apply flat_map_app. Qed.
Lemma onw_app w a b : onw w (a ++ b) = onw w a ++ onw w b.
Proof. unfold onw. now rewrite filter_app, map_app. Qed.
Lemma keyp_app p a b : keyp p (a ++ b) = keyp p a ++ keyp p b.
Proof. apply filter_app. Qed.
Lemma for_key_app p a b : for_key p (a ++ b) = for_key p a ++ for_key p b.
Proof. apply filter_app. Qed.

Lemma onw_cons w w0 b l : onw w ((w0, b) :: l) = (if (w0 =? w)%N then [b] else []) ++ onw w l.
Proof. unfold onw. simpl. destruct (w0 =? w)%N; reflexivity. Qed.

Lemma in_onw w b l : In b (onw w l) <-> In (w, b) l.
Proof.
  unfold onw. rewrite in_map_iff. split.
  - intros ([w' b'] & E & Hin). simpl in E. subst b'. apply filter_In in Hin. destruct Hin as [Hin Hw].
    simpl in Hw. apply N.eqb_eq in Hw. now subst w'.
  - intros Hin. exists (w, b). split; [reflexivity|]. apply filter_In. split; [assumption|]. simpl. apply N.eqb_refl.
Qed.

Lemma flat_items_snd (l : list (N * batch)) : flat_map b_items (map snd l) = items_of l.
Proof. unfold items_of. induction l as [|wb l IH]; [reflexivity|]. simpl. now rewrite IH. Qed.

(* ===================================================================== *)
(* Part B — the queues are FIFO per worker                                 *)
(* ===================================================================== *)

Lemma qof_enqueue w w0 b qs : qof w (enqueue w0 b qs) = qof w qs ++ (if (w0 =? w)%N then [b] else []).
Proof.
  unfold enqueue. induction qs as [|[w' q] qs IH]; simpl.
  - rewrite (N.eqb_sym w w0). destruct (w0 =? w)%N; reflexivity.
  - destruct (N.eqb_spec w0 w') as [E0|N0]; simpl.
    + subst w'. rewrite (N.eqb_sym w w0). destruct (N.eqb_spec w0 w) as [E1|N1]; [reflexivity|now rewrite app_nil_r].
    + destruct (N.eqb_spec w w') as [E1|N1]; [|exact IH].
      subst w'. destruct (N.eqb_spec w0 w) as [E2|N2]; [contradiction|now rewrite app_nil_r].
Qed.

Lemma dequeue_qof w0 : forall qs b qs', dequeue w0 qs = Some (b, qs') ->
  forall w, qof w qs = (if (w0 =? w)%N then [b] else []) ++ qof w qs'.
Proof.
  induction qs as [|[w' q] qs IH]; intros b qs' H w; simpl in H; [discriminate|].
  destruct (N.eqb_spec w0 w') as [E0|N0].
  - subst w'. destruct q as [|b0 q]; [discriminate|]. inversion H; subst. simpl.
    rewrite (N.eqb_sym w w0). destruct (w0 =? w)%N; reflexivity.
  - destruct (dequeue w0 qs) as [[b1 r1]|] eqn:E; [|discriminate]. inversion H; subst. simpl.
    destruct (N.eqb_spec w w') as [E1|N1]; [|exact (IH _ _ eq_refl w)].
    subst w'. destruct (N.eqb_spec w0 w) as [E2|N2]; [contradiction|reflexivity].
Qed.

(* routing the batcher's outputs appends, per worker, the batches dispatched to it, in order *)
Lemma route_fifo outs : forall st w,
  qof w (p_queues (route st outs)) = qof w (p_queues st) ++ onw w (dispatched (map TOut outs)).
Proof.
  induction outs as [|o outs IH]; intros st w; simpl route.
  - simpl. now rewrite app_nil_r.
  - rewrite IH. destruct o as [l|w0 b|x|]; simpl map.
    + destruct (apply_lops (p_ledger st) (seen_ops l)) as [lg f]. reflexivity.
    + cbn [p_queues]. rewrite qof_enqueue.
      change (dispatched (TOut (OBatch w0 b) :: map TOut outs)) with ((w0, b) :: dispatched (map TOut outs)).
      rewrite onw_cons. now rewrite <- app_assoc.
    + reflexivity.
    + reflexivity.
Qed.

(* ===================================================================== *)
(* Part C — the FIFO invariant                                             *)
(* ===================================================================== *)

(* the batcher component is a run of model/Batcher.v (as I2 of PipelineProofs), and — the new part —
   per worker the accepted batches followed by the waiting ones are the dispatched ones, IN ORDER *)
Record FI (cfg : bcfg) (ls : list plabel) (st : pstate) (acc : list (N * batch))
          (evs : list bevent) (t : list tr) : Prop := {
  fi_run : brun cfg binit evs = (p_b st, t);
  fi_fifo : forall w, onw w acc ++ qof w (p_queues st) = onw w (dispatched t);
  fi_sink : p_accepted st = items_of acc;
  fi_fed : exists rest, fed_of ls = fed t ++ rest /\
                        (dead (p_b st) = false -> p_failed st = false -> rest = []) }.

Lemma FI_stutter cfg ls l st acc evs t :
  FI cfg ls st acc evs t -> (dead (p_b st) = true \/ p_failed st = true \/ fed_of [l] = []) ->
  FI cfg (ls ++ [l]) st acc evs t.
Proof.
  intros [H1 H2 H3 (rest & H4 & H5)] Hc. constructor; try assumption.
  exists (rest ++ fed_of [l]). rewrite fed_of_app, H4, app_assoc. split; [reflexivity|].
  intros Hd Hf. destruct Hc as [Hc|[Hc|Hc]]; [congruence|congruence|]. rewrite Hc, app_nil_r. auto.
Qed.

(* a batcher step whose outputs are routed *)
Lemma FI_bstep cfg ls l st acc evs t e b' outs tf :
  FI cfg ls st acc evs t -> p_failed st = false -> dead (p_b st) = false ->
  bstep cfg (p_b st) e = (b', tf ++ map TOut outs) ->
  fed_of [l] = fed tf -> dispatched tf = [] ->
  FI cfg (ls ++ [l]) (route (set_b st b') outs) acc (evs ++ [e]) (t ++ tf ++ map TOut outs).
Proof.
  intros [H1 H2 H3 (rest & H4 & H5)] Hf Hd Hs Hfed Hd0.
  destruct (route_effect outs (set_b st b')) as (E1 & E2 & _). simpl in E1, E2.
  constructor.
  - rewrite (brun_snoc _ _ e _ _ H1), Hs, E1. reflexivity.
  - intros w. rewrite route_fifo. simpl p_queues.
    rewrite !dispatched_app, Hd0, !onw_app. simpl. rewrite app_assoc, H2. reflexivity.
  - now rewrite E2.
  - exists []. rewrite fed_of_app, H4, (H5 Hd Hf), Hfed, !fed_app, fed_outs, !app_nil_r. split; [reflexivity|auto].
Qed.

Lemma pstep_FI cfg ls st l acc evs t :
  FI cfg ls st acc evs t ->
  exists evs' t', FI cfg (ls ++ [l]) (pstep cfg st l) (acc ++ acc_of st l) evs' t'.
Proof.
  intros HF. unfold pstep, acc_of. destruct (p_failed st) eqn:Hf.
  { exists evs, t. rewrite app_nil_r. apply FI_stutter; auto. }
  destruct l as [now m|now order pops|w| |].
  - rewrite app_nil_r. destruct (dead (p_b st)) eqn:Hd.
    { exists evs, t. apply FI_stutter; auto. }
    destruct (bstep_msg cfg (p_b st) now m) as [b' outs] eqn:Em.
    exists (evs ++ [BMsg now m]), (t ++ [TFeed m] ++ map TOut outs).
    apply (FI_bstep cfg ls (LFeed now m) st acc evs t (BMsg now m) b' outs [TFeed m] HF Hf Hd); try reflexivity.
    simpl. now rewrite Hd, Em.
  - rewrite app_nil_r. destruct (bstep_tick cfg (p_b st) now order pops) as [[b' outs]|] eqn:Et.
    + destruct (dead (p_b st)) eqn:Hd.
      { unfold bstep_tick in Et. rewrite Hd in Et. inversion Et; subst. simpl.
        exists evs, t. destruct st; simpl in *. apply FI_stutter; auto. }
      exists (evs ++ [BTick now order pops]), (t ++ [] ++ map TOut outs).
      apply (FI_bstep cfg ls (LTick now order pops) st acc evs t (BTick now order pops) b' outs [] HF Hf Hd); try reflexivity.
      simpl. now rewrite Et.
    + exists evs, t. apply FI_stutter; auto.
  - destruct (dequeue w (p_queues st)) as [[b qs]|] eqn:Eq.
    + destruct HF as [H1 H2 H3 (rest & H4 & H5)].
      exists evs, t. constructor; simpl; try assumption.
      * intros w'. rewrite onw_app, onw_cons. simpl (onw w' []). rewrite app_nil_r, <- app_assoc.
        rewrite <- (dequeue_qof _ _ _ _ Eq w'). apply H2.
      * rewrite items_of_app, H3. unfold items_of at 3. simpl. now rewrite app_nil_r.
      * exists rest. rewrite fed_of_app, H4. simpl. rewrite app_nil_r. split; [reflexivity|]. intros Hd _. auto.
    + rewrite app_nil_r. exists evs, t. apply FI_stutter; auto.
  - rewrite app_nil_r. destruct (p_written st) as [|x r] eqn:Ew.
    + exists evs, t. apply FI_stutter; auto.
    + destruct (apply_lops (p_ledger st) (written_ops x)) as [lg f] eqn:Ea.
      destruct HF as [H1 H2 H3 (rest & H4 & H5)].
      exists evs, t. constructor; simpl; try assumption.
      exists rest. rewrite fed_of_app, H4. simpl. rewrite app_nil_r. split; [reflexivity|]. intros Hd _. auto.
  - rewrite app_nil_r. destruct HF as [H1 H2 H3 (rest & H4 & H5)].
    exists evs, t.
    destruct (emit (p_ledger st)) as [[f|] lg]; constructor; simpl; try assumption;
      (exists rest; rewrite fed_of_app, H4; simpl; rewrite app_nil_r; split; [reflexivity|]; intros Hd _; auto).
Qed.

Theorem pipeline_fifo cfg ls :
  exists evs t, FI cfg ls (prun cfg ls) (accepted_batches cfg ls) evs t.
Proof.
  induction ls as [|l ls IH] using rev_ind.
  - exists [], []. constructor; simpl; try reflexivity. exists []. auto.
  - destruct IH as (evs & t & HF). rewrite prun_snoc, accepted_batches_snoc. eapply pstep_FI; eauto.
Qed.

(* the instrumentation is tied to the existing ghost: the accepted batches, flattened, ARE p_accepted *)
Theorem accepted_batches_sink cfg ls : items_of (accepted_batches cfg ls) = p_accepted (prun cfg ls).
Proof. destruct (pipeline_fifo cfg ls) as (evs & t & HF). symmetry. exact (fi_sink _ _ _ _ _ _ HF). Qed.

Theorem prun_acc_ok cfg ls :
  fst (prun_acc cfg ls) = prun cfg ls /\ items_of (accepted_batches cfg ls) = p_accepted (prun cfg ls).
Proof. split; [apply prun_acc_fst|apply accepted_batches_sink]. Qed.

(* every accepted batch was dispatched, to that worker *)
Lemma FI_acc_dispatched cfg ls st acc evs t : FI cfg ls st acc evs t ->
  forall w b, In (w, b) acc -> In (w, b) (dispatched t).
Proof.
  intros HF w b Hin. apply in_onw. rewrite <- (fi_fifo _ _ _ _ _ _ HF w). apply in_or_app. left. now apply in_onw.
Qed.

(* the key invariant, as a statement about runs *)
Theorem pipeline_worker_fifo cfg ls :
  exists evs t, brun cfg binit evs = (p_b (prun cfg ls), t) /\
    prefix (fed t) (fed_of ls) /\
    (dead (p_b (prun cfg ls)) = false -> p_failed (prun cfg ls) = false -> fed t = fed_of ls) /\
    forall w, onw w (accepted_batches cfg ls) ++ qof w (p_queues (prun cfg ls)) = onw w (dispatched t).
Proof.
  destruct (pipeline_fifo cfg ls) as (evs & t & [H1 H2 H3 (rest & H4 & H5)]).
  exists evs, t. split; [assumption|]. split; [now exists rest|]. split; [|assumption].
  intros Hd Hf. rewrite H4, (H5 Hd Hf). now rewrite app_nil_r.
Qed.

(* ===================================================================== *)
(* Part D — C04 at the sink                                                *)
(* ===================================================================== *)

Lemma rec_ids_items (l : list (N * batch)) : rec_ids (items_of l) = flat_map ids (map snd l).
Proof. unfold rec_ids. rewrite <- flat_items_snd. apply map_rid_flat. Qed.

(* conservation, every schedule: as multisets of ids,
     fed changes that the limits accept = accepted by the sink + waiting in a worker queue + still open.
   Side conditions: the batcher has not stopped fatally and the tracker has not panicked — after
   either, [LFeed] labels are no-ops (the process is going down), so [fed_of ls] would count messages
   nobody received. *)
Theorem pipeline_conservation cfg ls : workers_ok cfg ->
  dead (p_b (prun cfg ls)) = false -> p_failed (prun cfg ls) = false ->
  Permutation (map m_id (filter (fun m => change m && accepted cfg m) (fed_of ls)))
              (rec_ids (p_accepted (prun cfg ls)) ++ queued_ids (p_queues (prun cfg ls)) ++
               open_ids (p_b (prun cfg ls))) /\
  drops_big (p_b (prun cfg ls)) =
    N.of_nat (List.length (filter (fun m => change m && is_big cfg m) (fed_of ls))) /\
  drops_invalid (p_b (prun cfg ls)) =
    N.of_nat (List.length (filter (fun m => change m && is_invalid cfg m) (fed_of ls))).
Proof.
  intros Hw Hd Hf. destruct (pipeline_batcher_agrees cfg ls) as (evs & t & accb & readm & HP).
  destruct (pi_fed _ _ _ _ _ _ _ HP) as (rest & Efed & Hrest). rewrite (Hrest Hd Hf), app_nil_r in Efed.
  destruct (run_conservation_full cfg evs _ t Hw (pi_run _ _ _ _ _ _ _ HP) Hd) as (C1 & C2 & C3).
  rewrite Efed. split; [|split; assumption].
  rewrite C1, flat_ids_snd. rewrite app_assoc. apply Permutation_app_tail.
  rewrite (Permutation_flat_map ids (pi_disp _ _ _ _ _ _ _ HP)), flat_map_app.
  unfold rec_ids, queued_ids. rewrite (pi_sink _ _ _ _ _ _ _ HP), map_rid_flat. reflexivity.
Qed.

(* exactly once, every schedule, no side condition on the run: with pairwise distinct ids fed, no id
   is accepted twice, and every accepted id is the id of a fed change that the limits accept *)
Theorem pipeline_exactly_once cfg ls : workers_ok cfg -> NoDup (map m_id (fed_of ls)) ->
  NoDup (rec_ids (p_accepted (prun cfg ls))) /\
  forall i, In i (rec_ids (p_accepted (prun cfg ls))) ->
            In i (map m_id (filter (fun m => change m && accepted cfg m) (fed_of ls))).
Proof.
  intros Hw Hnd. split; [exact (pipeline_sink_nodup cfg ls Hw Hnd)|].
  intros i Hi. unfold rec_ids in Hi. apply in_map_iff in Hi. destruct Hi as (r & <- & Hr).
  destruct (pipeline_sink_sound cfg ls Hw r Hr) as (m & Hm & Hmk & Hfa & ->).
  rewrite r_id_rec_of_kind. apply in_map. apply filter_In. split; [assumption|].
  unfold change, accepted. now rewrite Hmk, Hfa.
Qed.

(* nothing lost: when every worker queue is empty and no open batch holds a record, the sink has
   accepted exactly the fed changes that the limits accept, and the two drop counters count the rest *)
Theorem pipeline_complete_at_quiescence cfg ls : workers_ok cfg ->
  dead (p_b (prun cfg ls)) = false -> p_failed (prun cfg ls) = false ->
  queued (p_queues (prun cfg ls)) = [] -> open_ids (p_b (prun cfg ls)) = [] ->
  Permutation (rec_ids (p_accepted (prun cfg ls)))
              (map m_id (filter (fun m => change m && accepted cfg m) (fed_of ls))) /\
  drops_big (p_b (prun cfg ls)) =
    N.of_nat (List.length (filter (fun m => change m && is_big cfg m) (fed_of ls))) /\
  drops_invalid (p_b (prun cfg ls)) =
    N.of_nat (List.length (filter (fun m => change m && is_invalid cfg m) (fed_of ls))).
Proof.
  intros Hw Hd Hf Hq Ho. destruct (pipeline_conservation cfg ls Hw Hd Hf) as (C1 & C2 & C3).
  split; [|split; assumption]. unfold queued_ids in C1. rewrite Hq, Ho in C1. simpl in C1.
  rewrite app_nil_r in C1. now symmetry.
Qed.

(* [open = []] is the plain reading of "the batcher holds no open batch" *)
Lemma open_nil_ids st : open st = [] -> open_ids st = [].
Proof. unfold open_ids. now intros ->. Qed.

(* intact, every schedule: the sink's record list is, record by record, the marshalled form of fed
   changes that the limits accept *)
Theorem pipeline_records_intact cfg ls : workers_ok cfg ->
  exists ms, p_accepted (prun cfg ls) = map (rec_of_kind (c_kind cfg)) ms /\
    forall m, In m ms -> In m (fed_of ls) /\ change m = true /\ accepted cfg m = true.
Proof.
  intros Hw. destruct (pipeline_fifo cfg ls) as (evs & t & HF).
  rewrite (fi_sink _ _ _ _ _ _ HF).
  destruct (fi_fed _ _ _ _ _ _ HF) as (rest & Efed & _).
  assert (G : forall acc, (forall w b, In (w, b) acc -> In (w, b) (dispatched t)) ->
    exists ms, items_of acc = map (rec_of_kind (c_kind cfg)) ms /\
      forall m, In m ms -> In m (fed_of ls) /\ change m = true /\ accepted cfg m = true).
  { induction acc as [|[w b] acc IH]; intros Hin.
    - exists []. split; [reflexivity|]. intros m [].
    - destruct IH as (ms2 & E2 & H2). { intros w' b' H'. apply Hin. now right. }
      destruct (run_items_all cfg evs _ t Hw (fi_run _ _ _ _ _ _ HF) w b (Hin w b (or_introl eq_refl)))
        as (ms1 & Hs & E1 & H1).
      exists (ms1 ++ ms2). split.
      + unfold items_of. simpl. fold (items_of acc). now rewrite E1, E2, map_app.
      + intros m Hm. apply in_app_or in Hm. destruct Hm as [Hm|Hm]; [|now apply H2].
        destruct (H1 m Hm) as (A1 & A2 & _). split.
        * rewrite Efed. apply in_or_app. left. eapply sublist_in; eauto.
        * unfold change, accepted. now rewrite A1, A2. }
  apply G. exact (FI_acc_dispatched _ _ _ _ _ _ HF).
Qed.

Corollary pipeline_record_intact cfg ls : workers_ok cfg ->
  forall r, In r (p_accepted (prun cfg ls)) ->
  exists m, In m (fed_of ls) /\ change m = true /\ accepted cfg m = true /\ r = rec_of_kind (c_kind cfg) m.
Proof.
  intros Hw r Hr. destruct (pipeline_records_intact cfg ls Hw) as (ms & E & H).
  rewrite E in Hr. apply in_map_iff in Hr. destruct Hr as (m & <- & Hm). exists m.
  destruct (H m Hm) as (A & B & C). auto.
Qed.

(* ===================================================================== *)
(* Part E — C05 at the sink                                                *)
(* ===================================================================== *)

(* C05_per_key for EVERY run (also one that later stops fatally), as a prefix: the batches dispatched
   for p, concatenated, are an initial segment of the accepted changes of p in arrival order *)
Lemma run_per_key_prefix cfg evs st t p : workers_ok cfg -> brun cfg binit evs = (st, t) ->
  prefix (disp_items p t) (map (rec_of_kind (c_kind cfg)) (filter (accp cfg p) (fed t))).
Proof.
  intros Hw H. destruct (brun_trace cfg evs st t Hw H) as (t0 & (acts & g & Ha) & Ht).
  destruct (pk_invariant cfg acts _ _ Hw Ha) as (_ & _ & Hpk). specialize (Hpk p).
  pose proof (fed_invariant cfg acts g t0 Ha) as Hfi. unfold fed_inv in Hfi.
  assert (Ed : disp_items p t = disp_items p t0).
  { unfold disp_items. destruct Ht as [->| ->]; [reflexivity|now rewrite dispatched_fatal]. }
  assert (Ef : fed t = fed t0) by (destruct Ht as [->| ->]; [reflexivity|apply fed_fatal]).
  rewrite Ed, Ef. rewrite <- (filter_changes (accp cfg p) (fed t0)) by apply accp_change.
  rewrite Hfi, filter_app, map_app, <- Hpk, <- app_assoc. apply prefix_app.
Qed.

(* if every pair with key p sits on worker w0, selecting key p commutes with selecting worker w0 *)
Lemma for_key_on_worker p w0 (l : list (N * batch)) :
  (forall w b, In (w, b) l -> b_pkey b = p -> w = w0) ->
  map snd (for_key p l) = keyp p (onw w0 l).
Proof.
  unfold for_key, keyp, onw. induction l as [|[w b] l IH]; intros H; [reflexivity|]. simpl.
  assert (IH' : map snd (filter (fun wb => String.eqb (b_pkey (snd wb)) p) l) =
                filter (fun b => String.eqb (b_pkey b) p) (map snd (filter (fun wb => (fst wb =? w0)%N) l))).
  { apply IH. intros w' b' Hin. apply H. now right. }
  destruct (String.eqb_spec (b_pkey b) p) as [E|NE].
  - rewrite (H w b (or_introl eq_refl) E), N.eqb_refl. simpl.
    destruct (String.eqb_spec (b_pkey b) p) as [_|NE']; [|contradiction]. simpl. now rewrite IH'.
  - destruct (w =? w0)%N; simpl; [|exact IH'].
    destruct (String.eqb_spec (b_pkey b) p) as [E'|_]; [contradiction|exact IH'].
Qed.

Lemma items_for_key p l : items_of (for_key p l) = flat_map b_items (map snd (for_key p l)).
Proof. now rewrite flat_items_snd. Qed.

Section PerKey.
  Context (cfg : bcfg) (ls : list plabel) (st : pstate) (acc : list (N * batch))
          (evs : list bevent) (t : list tr).
  Context (Hw : workers_ok cfg) (Hr : c_routing cfg = ByPartition) (HF : FI cfg ls st acc evs t).

  (* all records of one partition key travel through ONE worker ... *)
  Lemma FI_key_worker p w0 : quick_hash p (c_workers cfg) = Some w0 ->
    forall w b, In (w, b) (dispatched t) -> b_pkey b = p -> w = w0.
  Proof.
    intros Hq w b Hin Ep.
    pose proof (run_partition_routing_all cfg evs _ t Hw Hr (fi_run _ _ _ _ _ _ HF) w b Hin) as E.
    rewrite Ep, Hq in E. now inversion E.
  Qed.

  (* ... one batch at a time: accepted(p) ++ waiting(p, in that worker's queue) = dispatched(p) *)
  Lemma FI_key_split p w0 : quick_hash p (c_workers cfg) = Some w0 ->
    items_of (for_key p acc) ++ flat_map b_items (keyp p (qof w0 (p_queues st))) = disp_items p t.
  Proof.
    intros Hq. rewrite <- disp_items_for. change (dispatched_for p t) with (for_key p (dispatched t)).
    fold (items_of (for_key p (dispatched t))). rewrite !items_for_key.
    rewrite (for_key_on_worker p w0 (dispatched t) (FI_key_worker p w0 Hq)).
    rewrite (for_key_on_worker p w0 acc).
    - rewrite <- flat_map_app, <- keyp_app. now rewrite (fi_fifo _ _ _ _ _ _ HF w0).
    - intros w b Hin. apply (FI_key_worker p w0 Hq). exact (FI_acc_dispatched _ _ _ _ _ _ HF w b Hin).
  Qed.
End PerKey.

Lemma quick_hash_some cfg p : workers_ok cfg -> exists w0, quick_hash p (c_workers cfg) = Some w0.
Proof.
  unfold workers_ok, quick_hash. intros H. destruct (N.eqb_spec (c_workers cfg) 0); [lia|eauto].
Qed.

(* C05 at the sink, partition routing, EVERY schedule, no side condition on the run: for every
   partition key p, the batches of key p that the sink has accepted, concatenated in ACCEPTANCE order,
   are an initial segment of the fed changes of p that the limits accept, in DELIVERY order *)
Theorem pipeline_sink_order_per_key cfg ls p : workers_ok cfg -> c_routing cfg = ByPartition ->
  prefix (items_of (for_key p (accepted_batches cfg ls)))
         (map (rec_of_kind (c_kind cfg)) (filter (accp cfg p) (fed_of ls))).
Proof.
  intros Hw Hr. destruct (pipeline_fifo cfg ls) as (evs & t & HF).
  destruct (quick_hash_some cfg p Hw) as [w0 Hq].
  pose proof (FI_key_split cfg ls _ _ evs t Hw Hr HF p w0 Hq) as Es.
  pose proof (run_per_key_prefix cfg evs _ t p Hw (fi_run _ _ _ _ _ _ HF)) as Hp.
  destruct (fi_fed _ _ _ _ _ _ HF) as (rest & Efed & _).
  eapply prefix_trans; [|eapply prefix_trans; [exact Hp|]].
  - rewrite <- Es. apply prefix_app.
  - rewrite Efed. apply prefix_map, prefix_filter, prefix_app.
Qed.

(* ... and while batcher and tracker are alive, the remainder is known exactly: what waits for key p
   in the queue of ITS worker, then p's open batch *)
Theorem pipeline_sink_order_per_key_exact cfg ls p w0 : workers_ok cfg -> c_routing cfg = ByPartition ->
  dead (p_b (prun cfg ls)) = false -> p_failed (prun cfg ls) = false ->
  quick_hash p (c_workers cfg) = Some w0 ->
  map (rec_of_kind (c_kind cfg)) (filter (accp cfg p) (fed_of ls)) =
  items_of (for_key p (accepted_batches cfg ls)) ++
  flat_map b_items (keyp p (qof w0 (p_queues (prun cfg ls)))) ++
  open_items p (p_b (prun cfg ls)).
Proof.
  intros Hw Hr Hd Hf Hq. destruct (pipeline_fifo cfg ls) as (evs & t & HF).
  pose proof (FI_key_split cfg ls _ _ evs t Hw Hr HF p w0 Hq) as Es.
  destruct (fi_fed _ _ _ _ _ _ HF) as (rest & Efed & Hrest). rewrite (Hrest Hd Hf), app_nil_r in Efed.
  rewrite Efed, <- (run_per_key cfg evs _ t Hw (fi_run _ _ _ _ _ _ HF) Hd p), disp_items_for, <- Es.
  now rewrite app_assoc.
Qed.

(* "always handled by the same worker": every accepted batch was accepted from the worker its key hashes to *)
Theorem pipeline_sink_same_worker cfg ls : workers_ok cfg -> c_routing cfg = ByPartition ->
  forall w b, In (w, b) (accepted_batches cfg ls) -> Some w = quick_hash (b_pkey b) (c_workers cfg).
Proof.
  intros Hw Hr w b Hin. destruct (pipeline_fifo cfg ls) as (evs & t & HF).
  apply (run_partition_routing_all cfg evs _ t Hw Hr (fi_run _ _ _ _ _ _ HF)).
  exact (FI_acc_dispatched _ _ _ _ _ _ HF w b Hin).
Qed.

(* ---------- one worker, one partition key: the whole stream ---------- *)

(* with one worker every batch goes to worker 0, whatever the routing *)
Lemma one_worker_all_zero cfg evs st t : c_workers cfg = 1%N -> brun cfg binit evs = (st, t) ->
  forall w b, In (w, b) (dispatched t) -> w = 0%N.
Proof.
  intros H1 H w b Hin. assert (Hw : workers_ok cfg) by (unfold workers_ok; lia).
  destruct (c_routing cfg) eqn:Hr.
  - pose proof (run_round_robin_all cfg evs st t Hw Hr H) as E.
    assert (Hf : In w (map fst (dispatched t))) by (apply in_map_iff; exists (w, b); auto).
    rewrite E in Hf. apply in_map_iff in Hf. destruct Hf as (i & <- & _). rewrite H1. apply N.mod_1_r.
  - pose proof (run_partition_routing_all cfg evs st t Hw Hr H w b Hin) as E.
    rewrite H1 in E. unfold quick_hash in E. simpl in E. inversion E. apply N.mod_1_r.
Qed.

Lemma onw_all w0 (l : list (N * batch)) : (forall w b, In (w, b) l -> w = w0) -> onw w0 l = map snd l.
Proof.
  unfold onw. induction l as [|[w b] l IH]; intros H; [reflexivity|]. simpl.
  rewrite (H w b (or_introl eq_refl)), N.eqb_refl. simpl. rewrite IH; [reflexivity|].
  intros w' b' Hin. apply (H w' b'). now right.
Qed.

(* if every received message carries key p0, every dispatched batch's records count for p0 *)
Lemma one_key_items cfg evs st t p0 : workers_ok cfg -> brun cfg binit evs = (st, t) ->
  (forall m, In m (fed t) -> m_pkey m = p0) ->
  flat_map b_items (map snd (dispatched t)) = disp_items p0 t.
Proof.
  intros Hw H Hk. unfold disp_items.
  assert (G : forall l, (forall w b, In (w, b) l -> In (w, b) (dispatched t)) ->
              flat_map b_items (map snd l) = flat_map (items_for p0) l).
  { induction l as [|[w b] l IH]; intros Hin; [reflexivity|]. simpl.
    rewrite IH by (intros w' b' H'; apply Hin; now right). f_equal.
    unfold items_for. simpl. destruct (String.eqb_spec (b_pkey b) p0) as [_|NE]; [reflexivity|].
    destruct (run_items_all cfg evs st t Hw H w b (Hin w b (or_introl eq_refl))) as (ms & Hs & E & Hall).
    destruct ms as [|m ms]; [exact E|exfalso]. apply NE.
    destruct (Hall m (or_introl eq_refl)) as (_ & _ & <-). apply Hk. eapply sublist_in; [exact Hs|now left]. }
  apply G. auto.
Qed.

(* C05 at the sink, ONE worker and no partitioning (every message carries the same partition key p0,
   "" in the code's un-partitioned mode), either routing method, EVERY schedule: the sink's record
   list is an initial segment of the fed changes that the limits accept, in delivery order *)
Theorem pipeline_single_worker_whole_stream cfg ls p0 : c_workers cfg = 1%N ->
  (forall m, In m (fed_of ls) -> m_pkey m = p0) ->
  prefix (p_accepted (prun cfg ls))
         (map (rec_of_kind (c_kind cfg)) (filter (fun m => change m && accepted cfg m) (fed_of ls))).
Proof.
  intros H1 Hk. assert (Hw : workers_ok cfg) by (unfold workers_ok; lia).
  destruct (pipeline_fifo cfg ls) as (evs & t & HF).
  pose proof (fi_run _ _ _ _ _ _ HF) as Hrun.
  destruct (fi_fed _ _ _ _ _ _ HF) as (rest & Efed & _).
  assert (Hkt : forall m, In m (fed t) -> m_pkey m = p0).
  { intros m Hm. apply Hk. rewrite Efed. apply in_or_app. now left. }
  assert (Hz : forall w b, In (w, b) (dispatched t) -> w = 0%N) by exact (one_worker_all_zero cfg evs _ t H1 Hrun).
  assert (Hza : forall w b, In (w, b) (accepted_batches cfg ls) -> w = 0%N).
  { intros w b Hin. apply (Hz w b). exact (FI_acc_dispatched _ _ _ _ _ _ HF w b Hin). }
  pose proof (fi_fifo _ _ _ _ _ _ HF 0%N) as Hfifo.
  rewrite (onw_all 0%N _ Hz), (onw_all 0%N _ Hza) in Hfifo.
  assert (Ef : filter (fun m => change m && accepted cfg m) (fed_of ls) = filter (accp cfg p0) (fed_of ls)).
  { apply filter_ext_in. intros m Hm. unfold accp. rewrite (Hk m Hm), String.eqb_refl. now rewrite andb_true_r. }
  rewrite Ef, (fi_sink _ _ _ _ _ _ HF), <- flat_items_snd.
  eapply prefix_trans; [|eapply prefix_trans; [exact (run_per_key_prefix cfg evs _ t p0 Hw Hrun)|]].
  - rewrite <- (one_key_items cfg evs _ t p0 Hw Hrun Hkt), <- Hfifo, flat_map_app. apply prefix_app.
  - rewrite Efed. apply prefix_map, prefix_filter, prefix_app.
Qed.

(* ===================================================================== *)
(* Part F — the per-key statement on the sink's flat record list           *)
(* ===================================================================== *)

(* A record does not carry its partition key (generic batches: r_pk = ""; Kinesis un-partitioned:
   r_pk = the LSN).  With pairwise distinct ids the key of a record is the key of THE fed message
   with its id. *)
Definition rec_has_key (fedl : list msg) (p : string) (r : rec) : bool :=
  existsb (fun m => (m_id m =? r_id r)%N && String.eqb (m_pkey m) p) fedl.

Lemma NoDup_map_eq {A B} (f : A -> B) l x y : NoDup (map f l) -> In x l -> In y l -> f x = f y -> x = y.
Proof.
  induction l as [|z l IH]; intros Hn Hx Hy E; [destruct Hx|]. simpl in Hn. inversion Hn; subst.
  destruct Hx as [->|Hx]; destruct Hy as [->|Hy]; auto.
  - exfalso. apply H1. rewrite E. now apply in_map.
  - exfalso. apply H1. rewrite <- E. now apply in_map.
Qed.

Lemma filter_all {A} (f : A -> bool) l : (forall x, In x l -> f x = true) -> filter f l = l.
Proof.
  induction l as [|x l IH]; intros H; [reflexivity|]. simpl. rewrite (H x (or_introl eq_refl)).
  rewrite IH; [reflexivity|]. intros y Hy. apply H. now right.
Qed.
Lemma filter_none {A} (f : A -> bool) l : (forall x, In x l -> f x = false) -> filter f l = [].
Proof.
  induction l as [|x l IH]; intros H; [reflexivity|]. simpl. rewrite (H x (or_introl eq_refl)).
  apply IH. intros y Hy. apply H. now right.
Qed.

(* selecting the records of key p from the sink's list = concatenating the accepted batches of key p *)
Lemma sink_key_projection cfg ls p : workers_ok cfg -> NoDup (map m_id (fed_of ls)) ->
  filter (rec_has_key (fed_of ls) p) (p_accepted (prun cfg ls)) = items_of (for_key p (accepted_batches cfg ls)).
Proof.
  intros Hw Hnd. destruct (pipeline_fifo cfg ls) as (evs & t & HF).
  rewrite (fi_sink _ _ _ _ _ _ HF). destruct (fi_fed _ _ _ _ _ _ HF) as (rest & Efed & _).
  assert (G : forall acc, (forall w b, In (w, b) acc -> In (w, b) (dispatched t)) ->
              filter (rec_has_key (fed_of ls) p) (items_of acc) = items_of (for_key p acc)).
  { induction acc as [|[w b] acc IH]; intros Hin; [reflexivity|].
    assert (IH' : filter (rec_has_key (fed_of ls) p) (items_of acc) = items_of (for_key p acc)).
    { apply IH. intros w' b' H'. apply Hin. now right. }
    destruct (run_items_all cfg evs _ t Hw (fi_run _ _ _ _ _ _ HF) w b (Hin w b (or_introl eq_refl)))
      as (ms & Hs & E & Hall).
    assert (Hfed : forall m, In m ms -> In m (fed_of ls)).
    { intros m Hm. rewrite Efed. apply in_or_app. left. eapply sublist_in; eauto. }
    change (items_of ((w, b) :: acc)) with (b_items b ++ items_of acc). rewrite filter_app, IH'.
    unfold for_key at 2. simpl. fold (for_key p acc).
    destruct (String.eqb_spec (b_pkey b) p) as [Ep|NEp].
    - change (items_of ((w, b) :: for_key p acc)) with (b_items b ++ items_of (for_key p acc)). f_equal.
      apply filter_all. intros r Hr. rewrite E in Hr. apply in_map_iff in Hr. destruct Hr as (m & <- & Hm).
      unfold rec_has_key. apply existsb_exists. exists m. split; [now apply Hfed|].
      rewrite r_id_rec_of_kind, N.eqb_refl. destruct (Hall m Hm) as (_ & _ & ->). rewrite Ep. simpl. apply String.eqb_refl.
    - rewrite filter_none; [reflexivity|]. intros r Hr. rewrite E in Hr. apply in_map_iff in Hr.
      destruct Hr as (m & <- & Hm). unfold rec_has_key.
      destruct (existsb (fun m0 => (m_id m0 =? r_id (rec_of_kind (c_kind cfg) m))%N && String.eqb (m_pkey m0) p) (fed_of ls)) eqn:Ex;
        [exfalso|reflexivity].
      apply existsb_exists in Ex. destruct Ex as (m' & Hm' & Hc). apply andb_prop in Hc. destruct Hc as [Hi Hp].
      apply N.eqb_eq in Hi. rewrite r_id_rec_of_kind in Hi. apply String.eqb_eq in Hp.
      assert (m' = m) by (eapply (NoDup_map_eq m_id); eauto). subst m'.
      destruct (Hall m Hm) as (_ & _ & Ek). apply NEp. now rewrite <- Ek. }
  apply G. exact (FI_acc_dispatched _ _ _ _ _ _ HF).
Qed.

(* C05 at the sink on records: the records of partition key p in the sink's list, in the order the
   sink accepted them, are an initial segment of the fed accepted changes of p in delivery order *)
Theorem pipeline_sink_order_per_key_records cfg ls p : workers_ok cfg -> c_routing cfg = ByPartition ->
  NoDup (map m_id (fed_of ls)) ->
  prefix (filter (rec_has_key (fed_of ls) p) (p_accepted (prun cfg ls)))
         (map (rec_of_kind (c_kind cfg)) (filter (accp cfg p) (fed_of ls))).
Proof.
  intros Hw Hr Hnd. rewrite (sink_key_projection cfg ls p Hw Hnd). now apply pipeline_sink_order_per_key.
Qed.
