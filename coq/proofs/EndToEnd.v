(* EndToEnd.v — composition of the client's "acknowledgements are ledger-sourced" (C03) with the
   pipeline's "what the ledger emits is complete in the sink" (C01): what PostgreSQL is told. *)
From Bifrost.model Require Import Base Batch Batcher Ledger Pipeline Client.
From Bifrost.proofs Require Import BatchProofs BatcherProofs LedgerProofs ClientProofs ClientProofs2 PipelineProofs.

(* The client runs beside a pipeline execution [ls]; the only values that ever reach its progress channel
   are positions the ledger emitted in that execution (the channel IS the tracker's output channel). *)
Definition fed_by_ledger (cfg : bcfg) (ls : list plabel) (its : list citer) : Prop :=
  forall v, In v (flat_map iter_values its) -> In v (p_acked (prun cfg ls)).

Lemma client_acks_are_ledger_emissions : forall cfg ls first its a,
  fed_by_ledger cfg ls its ->
  In a (acks (snd (crun first its))) ->
  a = start_pos first \/ a = 0%N \/ In a (p_acked (prun cfg ls)).
Proof.
  intros cfg ls first its a Hfed Hin.
  destruct (crun_acks_sourced_prefix first its []) as [_ Hsrc].
  destruct (Hsrc a Hin) as [H | [H | H]]; [left; exact H | right; left; exact H |].
  right; right. apply Hfed. exact H.
Qed.

Theorem acknowledged_to_postgres_is_in_the_sink : forall cfg ls first its, workers_ok cfg ->
  NoDup (map m_id (fed_of ls)) -> framed (fed_of ls) = true ->
  fed_by_ledger cfg ls its ->
  forall F, In F (acks (snd (crun first its))) ->
  F = start_pos first \/ F = 0%N \/
  exists t k n, In (OSeen t k n F) (p_lops (prun cfg ls)) /\
    n = nchanges k (fed_of ls) /\
    (forall m, In m (fed_of ls) -> is_marker m = false -> m_key m = k -> fate_of cfg m = FAccepted ->
               In (m_id m) (map r_id (p_accepted (prun cfg ls)))) /\
    (forall m, In m (fed_of ls) -> is_marker m = false -> m_key m = k -> fate_of cfg m <> FDroppedInvalid).
Proof.
  intros cfg ls first its Hw Hnd Hfr Hfed F HF.
  destruct (client_acks_are_ledger_emissions cfg ls first its F Hfed HF) as [H | [H | H]];
    [left; exact H | right; left; exact H |].
  right; right.
  destruct (pipeline_released_complete cfg ls Hw Hnd Hfr F H) as [t [k [n [Hs [_ [Hn [Hacc Hinv]]]]]]].
  exists t, k, n. repeat split; assumption.
Qed.
