(* ParseProofs.v — byte-string lemmas and TOTALITY of the decoder model (C09_total):
   for every byte string, parse_full returns Ok or Err — no Go slice expression of the state
   machine can be out of range and fuel len+2 always suffices. *)
From Bifrost.model Require Import Base TestDecoding Parse.
From Coq Require Import Arith.

(* ------------------------------------------------------------------------------------------ *)
(* byte strings *)

Lemma sapp_assoc : forall a b c : string, (a +++ b) +++ c = a +++ b +++ c.
Proof. induction a; simpl; intros; [reflexivity | now rewrite IHa]. Qed.

Lemma sapp_nil_r : forall a : string, a +++ "" = a.
Proof. induction a; simpl; [reflexivity | now rewrite IHa]. Qed.

Lemma slen_app : forall a b : string, length (a +++ b) = length a + length b.
Proof. induction a; simpl; intros; [reflexivity | now rewrite IHa]. Qed.

Lemma get_app_r : forall (a b : string) k, get (length a + k) (a +++ b) = get k b.
Proof. induction a; simpl; intros; [reflexivity | apply IHa]. Qed.

Lemma get_none : forall (s : string) i, length s <= i -> get i s = None.
Proof.
  induction s; simpl; intros i H; [destruct i; reflexivity|].
  destruct i; [lia|]. apply IHs; lia.
Qed.

Definition head_byte (s : string) : ascii :=
  match s with String c _ => c | EmptyString => zero end.

Lemma byte_at_app : forall a b : string, byte_at (a +++ b) (length a) = head_byte b.
Proof.
  intros. unfold byte_at. replace (length a) with (length a + 0) by lia.
  rewrite get_app_r. destruct b; reflexivity.
Qed.

Lemma byte_at_app_S : forall (a : string) c (b : string),
  byte_at (a +++ String c b) (S (length a)) = head_byte b.
Proof.
  intros. unfold byte_at. replace (S (length a)) with (length a + 1) by lia.
  rewrite get_app_r. simpl. destruct b; reflexivity.
Qed.

Lemma byte_at_end : forall (s : string) i, length s <= i -> byte_at s i = zero.
Proof. intros. unfold byte_at. now rewrite get_none. Qed.

Lemma substring_0_app : forall b c : string, substring 0 (length b) (b +++ c) = b.
Proof. induction b; simpl; intros; [destruct c; reflexivity | now rewrite IHb]. Qed.

Lemma substring_mid : forall a b c : string, substring (length a) (length b) (a +++ b +++ c) = b.
Proof. induction a; simpl; intros; [apply substring_0_app | apply IHa]. Qed.

Lemma slice_some : forall (s : string) a b, a <= b -> b <= length s ->
  slice s a b = Some (substring a (b - a) s).
Proof.
  intros. unfold slice.
  destruct (Nat.leb_spec a b); [|lia]. destruct (Nat.leb_spec b (length s)); [|lia]. reflexivity.
Qed.

Lemma slice_mid : forall a b c : string,
  slice (a +++ b +++ c) (length a) (length a + length b) = Some b.
Proof.
  intros. rewrite slice_some; [| lia | rewrite !slen_app; lia].
  replace (length a + length b - length a) with (length b) by lia.
  now rewrite substring_mid.
Qed.

(* ------------------------------------------------------------------------------------------ *)
(* the invariant that keeps every slice and index expression in range.
   All slices message[TokenStart:i] are guarded by the loop itself (the body is only reached
   with TokenStart <= i <= len).  What needs an invariant is the quoted value: in ColumnValue
   with Prev = ColumnQuotedValue the code reads message[TokenStart], possibly
   message[TokenStart+1], and slices message[TokenStart+1 : i-1] or (bit-string prefix)
   message[TokenStart+2 : i-1].  That state combination only arises after an opening quote at
   an index >= TokenStart and a closing quote at a later index, i.e. TokenStart + 2 <= i; and
   if the byte at TokenStart is not itself a quote (e.g. it is 'B'), the opening quote is at
   an index > TokenStart, i.e. TokenStart + 3 <= i. *)
Definition inv (msg : string) (i : nat) (st : pst) : Prop :=
  match cur st with
  | SQuoted => prev st = SColValue /\ S (ts st) <= i /\ (byte_at msg (ts st) <> sq -> ts st + 2 <= i)
  | SColValue => prev st = SQuoted -> ts st + 2 <= i /\ (byte_at msg (ts st) <> sq -> ts st + 3 <= i)
  | SEnd => True
  | _ => prev st <> SQuoted
  end.

Ltac break_ifs :=
  repeat match goal with
         | |- context [if ?b then _ else _] => destruct b eqn:?
         end.

Lemma get_some : forall (s : string) i, i < length s -> get i s = Some (byte_at s i).
Proof.
  induction s; simpl; intros i H; [lia|].
  destruct i; [reflexivity|]. unfold byte_at. simpl. specialize (IHs i ltac:(lia)).
  unfold byte_at in IHs. destruct (get i s); [reflexivity | discriminate].
Qed.

Lemma body_inv : forall pre msg i st r, i <= length msg -> inv msg i st ->
  match body pre msg i st r with
  | BNext i' st' _ => i < i' /\ inv msg i' st'
  | BBreak _ _ => True
  | BRet o => o = Err
  end.
Proof.
  intros pre msg i [c p t ok cn ct] r Hi Hinv. unfold body. simpl ts; simpl cur; simpl prev.
  destruct (Nat.ltb_spec i t) as [Hlt|Hge].
  { split; [exact Hlt|]. unfold inv in *; simpl in *.
    destruct c; try exact Hinv; try exact I; [intros H; specialize (Hinv H); lia | lia]. }
  unfold inv in Hinv; simpl in Hinv.
  destruct c; simpl.
  - (* Initial *) split; [lia | exact Hinv].
  - (* Relation *)
    rewrite (slice_some msg t i) by lia.
    break_ifs; try reflexivity; (split; [lia | unfold inv; simpl; try exact Hinv; discriminate]).
  - (* Operation *)
    rewrite (slice_some msg t i) by lia.
    break_ifs; try reflexivity; try exact I; (split; [lia | unfold inv; simpl; exact Hinv]).
  - (* Escaped *)
    break_ifs; (split; [lia|]); unfold inv; simpl; try exact Hinv.
    destruct p; simpl; try discriminate; try exact I; try (exfalso; now apply Hinv).
  - (* Truncate *) split; [lia | exact Hinv].
  - (* ColName *)
    rewrite (slice_some msg t i) by lia. rewrite (slice_some msg t (length msg)) by lia.
    break_ifs; (split; [lia|]); unfold inv; simpl; try exact Hinv; try exact I; discriminate.
  - (* ColType *)
    rewrite (slice_some msg t i) by lia.
    break_ifs; try reflexivity; (split; [lia|]); unfold inv; simpl; try exact Hinv; try discriminate.
    intros H; now apply Hinv in H.
  - (* OpenSq *)
    break_ifs; (split; [lia|]); unfold inv; simpl; try exact Hinv.
    destruct p; simpl; try discriminate; try exact I; try (exfalso; now apply Hinv).
  - (* ColValue *)
    set (sl := if is_quoted_state p then _ else slice msg t i).
    assert (Hsl : exists v, sl = Some v).
    { unfold sl. destruct p; simpl; try (rewrite (slice_some msg t i) by lia; eauto).
      destruct (Hinv eq_refl) as [H2 H3].
      rewrite (get_some msg t) by lia.
      destruct (Ascii.eqb_spec (byte_at msg t) "B") as [HB|HB].
      - assert (Hne : byte_at msg t <> sq) by (rewrite HB; discriminate). specialize (H3 Hne).
        rewrite (get_some msg (S t)) by lia.
        destruct i; [lia|].
        destruct (Ascii.eqb (byte_at msg (S t)) sq); rewrite slice_some by lia; eauto.
      - destruct i; [lia|]. rewrite slice_some by lia. eauto. }
    destruct Hsl as [v Hv]. rewrite Hv. clearbody sl. clear Hv.
    destruct (Ascii.eqb (byte_at msg i) zero) eqn:E0; simpl.
    + split; [lia | exact I].
    + destruct (Ascii.eqb (byte_at msg i) " ") eqn:E1; simpl.
      * split; [lia | unfold inv; simpl; discriminate].
      * destruct (Ascii.eqb_spec (byte_at msg i) sq) as [Eq|Eq].
        -- split; [lia|]. unfold inv; simpl. split; [reflexivity|]. split; [lia|].
           intros Hne. destruct (Nat.eq_dec i t) as [->|]; [contradiction | lia].
        -- split; [lia|]. unfold inv; simpl. intros H. destruct (Hinv H) as [H2 H3].
           split; [lia | intros Hne; specialize (H3 Hne); lia].
  - (* Quoted *)
    destruct Hinv as [Hp [Hts Hq]]. subst p.
    break_ifs; (split; [lia|]); unfold inv; simpl.
    + split; [reflexivity|]. split; [lia | intros Hne; specialize (Hq Hne); lia].
    + intros _. split; [lia | intros Hne; specialize (Hq Hne); lia].
    + split; [reflexivity|]. split; [lia | intros Hne; specialize (Hq Hne); lia].
  - (* End *) split; [lia | exact I].
  - (* Null *) reflexivity.
Qed.

(* enough fuel at loop head i *)
Definition enough (n fuel i : nat) : Prop := 1 <= fuel /\ (i <= n -> n + 2 <= fuel + i).

Definition lres_good (x : lres) : Prop :=
  match x with LDone _ _ => True | LRet o => o = Err | LOutOfFuel => False end.

Lemma loop_good : forall fuel pre msg i st r,
  inv msg i st -> enough (length msg) fuel i -> lres_good (loop fuel pre msg (length msg) i st r).
Proof.
  induction fuel; intros pre msg i st r Hinv [H1 H2]; [lia|].
  simpl. destruct (Nat.ltb_spec (length msg) i) as [Hgt|Hle]; [exact I|].
  pose proof (body_inv pre msg i st r Hle Hinv) as Hb.
  destruct (body pre msg i st r) as [i' st' r'| |o]; simpl; [| exact I | exact Hb].
  destruct Hb as [Hlt Hinv']. apply IHfuel; [exact Hinv'|].
  specialize (H2 Hle). split; [lia | intros; lia].
Qed.

Lemma parse_total : forall pre msg r, (exists r', parse pre msg r = Ok r') \/ parse pre msg r = Err.
Proof.
  intros. unfold parse.
  destruct (Nat.ltb_spec (length msg) 5) as [Hlt|Hge]; [now right|].
  rewrite (slice_some msg 0 5) by lia.
  break_ifs.
  - destruct (fields msg) as [|a [|b [|? ?]]]; eauto.
  - assert (G : lres_good (loop (length msg + 2) pre msg (length msg) 0 init_table_state r)).
    { apply loop_good; [unfold inv; simpl; discriminate | split; lia]. }
    destruct (loop (length msg + 2) pre msg (length msg) 0 init_table_state r) as [st' r'|o|];
      simpl in G; [| subst o; now right | contradiction].
    unfold finish. destruct (cur st'), pre; eauto.
  - now right.
Qed.

Lemma parse_full_total : forall s, (exists r, parse_full s = Ok r) \/ parse_full s = Err.
Proof.
  intros. unfold parse_full.
  destruct (parse_total true s empty_result) as [[r1 H1]|H1]; rewrite H1; [|now right].
  apply parse_total.
Qed.

Lemma parse_full_never_panics : forall s, parse_full s <> Panic /\ parse_full s <> OutOfFuel.
Proof.
  intros. destruct (parse_full_total s) as [[r H]|H]; rewrite H; split; discriminate.
Qed.
