(* ParseProofs.v — byte-string lemmas and TOTALITY of the decoder model (C09_total):
   for every byte string, parse_full returns Ok or Err — no Go slice expression of the state
   machine can be out of range and fuel len+2 always suffices. *)
From Bifrost.model Require Import Base TestDecoding Parse.
From Coq Require Import Arith.

(* ------------------------------------------------------------------------------------------ *)
(* byte strings *)

Lemma sapp_assoc : forall a b c : string, (a +++ b) +++ c = a +++ b +++ c.
Proof. induction a; simpl; intros; [reflexivity | now rewrite IHa]. Qed.

Lemma sapp_nil_r : forall a : string, a +++ "" = a.
Proof. induction a; simpl; [reflexivity | now rewrite IHa]. Qed.

Lemma slen_app : forall a b : string, length (a +++ b) = length a + length b.
Proof. induction a; simpl; intros; [reflexivity | now rewrite IHa]. Qed.

Lemma get_app_r : forall (a b : string) k, get (length a + k) (a +++ b) = get k b.
Proof. induction a; simpl; intros; [reflexivity | apply IHa]. Qed.

Lemma get_none : forall (s : string) i, length s <= i -> get i s = None.
Proof.
  induction s; simpl; intros i H; [destruct i; reflexivity|].
  destruct i; [lia|]. apply IHs; lia.
Qed.

Definition head_byte (s : string) : ascii :=
  match s with String c _ => c | EmptyString => zero end.

Lemma byte_at_app : forall a b : string, byte_at (a +++ b) (length a) = head_byte b.
Proof.
  intros. unfold byte_at. replace (length a) with (length a + 0) by lia.
  rewrite get_app_r. destruct b; reflexivity.
Qed.

Lemma byte_at_app_S : forall (a : string) c (b : string),
  byte_at (a +++ String c b) (S (length a)) = head_byte b.
Proof.
  intros. unfold byte_at. replace (S (length a)) with (length a + 1) by lia.
  rewrite get_app_r. simpl. destruct b; reflexivity.
Qed.

Lemma byte_at_end : forall (s : string) i, length s <= i -> byte_at s i = zero.
Proof. intros. unfold byte_at. now rewrite get_none. Qed.

Lemma substring_0_app : forall b c : string, substring 0 (length b) (b +++ c) = b.
Proof. induction b; simpl; intros; [destruct c; reflexivity | now rewrite IHb]. Qed.

Lemma substring_mid : forall a b c : string, substring (length a) (length b) (a +++ b +++ c) = b.
Proof. induction a; simpl; intros; [apply substring_0_app | apply IHa]. Qed.

Lemma slice_some : forall (s : string) a b, a <= b -> b <= length s ->
  slice s a b = Some (substring a (b - a) s).
Proof.
  intros. unfold slice.
  destruct (Nat.leb_spec a b); [|lia]. destruct (Nat.leb_spec b (length s)); [|lia]. reflexivity.
Qed.

Lemma slice_mid : forall a b c : string,
  slice (a +++ b +++ c) (length a) (length a + length b) = Some b.
Proof.
  intros. rewrite slice_some; [| lia | rewrite !slen_app; lia].
  replace (length a + length b - length a) with (length b) by lia.
  now rewrite substring_mid.
Qed.

(* ------------------------------------------------------------------------------------------ *)
(* the invariant that keeps every slice in range.
   All slices message[TokenStart:i] are guarded by the loop itself (the body is only reached
   with TokenStart <= i <= len).  The one that needs an invariant is the quoted value
   message[TokenStart+1 : i-1]: it is taken in ColumnValue with Prev = ColumnQuotedValue, and
   that combination only arises after an opening quote at an index >= TokenStart and a closing
   quote at a later index, i.e. with TokenStart + 2 <= i. *)
Definition inv (i : nat) (st : pst) : Prop :=
  match cur st with
  | SQuoted => prev st = SColValue /\ S (ts st) <= i
  | SColValue => prev st = SQuoted -> ts st + 2 <= i
  | SEnd => True
  | _ => prev st <> SQuoted
  end.

Ltac break_ifs :=
  repeat match goal with
         | |- context [if ?b then _ else _] => destruct b eqn:?
         end.

Lemma body_inv : forall pre msg i st r, i <= length msg -> inv i st ->
  match body pre msg i st r with
  | BNext i' st' _ => i < i' /\ inv i' st'
  | BBreak _ _ => True
  | BRet o => o = Err
  end.
Proof.
  intros pre msg i [c p t ok cn ct] r Hi Hinv. unfold body. simpl ts; simpl cur; simpl prev.
  destruct (Nat.ltb_spec i t) as [Hlt|Hge].
  { split; [exact Hlt|]. unfold inv in *; simpl in *.
    destruct c; try exact Hinv; try exact I; [intros H; specialize (Hinv H); lia | lia]. }
  unfold inv in Hinv; simpl in Hinv.
  destruct c; simpl.
  - (* Initial *) split; [lia | exact Hinv].
  - (* Relation *)
    rewrite (slice_some msg t i) by lia.
    break_ifs; try reflexivity; (split; [lia | unfold inv; simpl; try exact Hinv; discriminate]).
  - (* Operation *)
    rewrite (slice_some msg t i) by lia.
    break_ifs; try reflexivity; try exact I; (split; [lia | unfold inv; simpl; exact Hinv]).
  - (* Escaped *)
    break_ifs; (split; [lia|]); unfold inv; simpl; try exact Hinv.
    destruct p; simpl; try discriminate; try exact I; try (exfalso; now apply Hinv).
  - (* Truncate *) split; [lia | exact Hinv].
  - (* ColName *)
    rewrite (slice_some msg t i) by lia. rewrite (slice_some msg t (length msg)) by lia.
    break_ifs; (split; [lia|]); unfold inv; simpl; try exact Hinv; try exact I; discriminate.
  - (* ColType *)
    rewrite (slice_some msg t i) by lia.
    break_ifs; try reflexivity; (split; [lia|]); unfold inv; simpl; try exact Hinv; try discriminate.
    intros H; now apply Hinv in H.
  - (* OpenSq *)
    break_ifs; (split; [lia|]); unfold inv; simpl; try exact Hinv.
    destruct p; simpl; try discriminate; try exact I; try (exfalso; now apply Hinv).
  - (* ColValue *)
    assert (Hsl : forall o : bool, exists v,
              (if is_quoted_state p then match i with O => None | S j => slice msg (S t) j end
               else slice msg t i) = Some v).
    { intros _. destruct p; simpl; try (rewrite (slice_some msg t i) by lia; eauto).
      specialize (Hinv eq_refl). destruct i; [lia|]. rewrite slice_some by lia. eauto. }
    destruct (Hsl true) as [v Hv]. rewrite Hv. clear Hsl Hv.
    break_ifs; simpl; (split; [lia|]); unfold inv; simpl; try exact I; try discriminate;
      try (split; [reflexivity | lia]).
    intros H; specialize (Hinv H); lia.
  - (* Quoted *)
    destruct Hinv as [Hp Hts]. subst p.
    break_ifs; (split; [lia|]); unfold inv; simpl; try (split; [reflexivity | lia]).
    intros _; lia.
  - (* End *) split; [lia | exact I].
  - (* Null *) reflexivity.
Qed.

(* enough fuel at loop head i *)
Definition enough (n fuel i : nat) : Prop := 1 <= fuel /\ (i <= n -> n + 2 <= fuel + i).

Definition lres_good (x : lres) : Prop :=
  match x with LDone _ _ => True | LRet o => o = Err | LOutOfFuel => False end.

Lemma loop_good : forall fuel pre msg i st r,
  inv i st -> enough (length msg) fuel i -> lres_good (loop fuel pre msg (length msg) i st r).
Proof.
  induction fuel; intros pre msg i st r Hinv [H1 H2]; [lia|].
  simpl. destruct (Nat.ltb_spec (length msg) i) as [Hgt|Hle]; [exact I|].
  pose proof (body_inv pre msg i st r Hle Hinv) as Hb.
  destruct (body pre msg i st r) as [i' st' r'| |o]; simpl; [| exact I | exact Hb].
  destruct Hb as [Hlt Hinv']. apply IHfuel; [exact Hinv'|].
  specialize (H2 Hle). split; [lia | intros; lia].
Qed.

Lemma parse_total : forall pre msg r, (exists r', parse pre msg r = Ok r') \/ parse pre msg r = Err.
Proof.
  intros. unfold parse.
  destruct (Nat.ltb_spec (length msg) 5) as [Hlt|Hge]; [now right|].
  rewrite (slice_some msg 0 5) by lia.
  break_ifs.
  - destruct (fields msg) as [|a [|b [|? ?]]]; eauto.
  - assert (G : lres_good (loop (length msg + 2) pre msg (length msg) 0 init_table_state r)).
    { apply loop_good; [unfold inv; simpl; discriminate | split; lia]. }
    destruct (loop (length msg + 2) pre msg (length msg) 0 init_table_state r) as [st' r'|o|];
      simpl in G; [| subst o; now right | contradiction].
    unfold finish. destruct (cur st'), pre; eauto.
  - now right.
Qed.

Lemma parse_full_total : forall s, (exists r, parse_full s = Ok r) \/ parse_full s = Err.
Proof.
  intros. unfold parse_full.
  destruct (parse_total true s empty_result) as [[r1 H1]|H1]; rewrite H1; [|now right].
  apply parse_total.
Qed.

Lemma parse_full_never_panics : forall s, parse_full s <> Panic /\ parse_full s <> OutOfFuel.
Proof.
  intros. destruct (parse_full_total s) as [[r H]|H]; rewrite H; split; discriminate.
Qed.
