(* PipelineOrder.v — C01, the ORDER half in stream terms: when a position F is acknowledged, every
   transaction whose COMMIT was handed to the batcher at a position <= F has all its changes in the sink —
   under a schedule-level no-stale contract (the contract finding F1 violates).

     Part A  lists; the stream contracts (boolean checkers) and what they say
     Part B  one more invariant of the batcher's machine: when a transactions map leaves the batcher, every
             COMMIT received so far has been announced (E4 for batches AND for empty-batch reports)
     Part C  first mention in the ghost history follows the order COMMIT(k') < BEGIN(k) of the stream
     Part D  the schedule-level contract: implies no_stale; latest delivery of a transaction = current
     Part E  the theorem *)
From Bifrost.model Require Import Base Crc32 Batch Batcher Ledger.
From Bifrost.proofs Require Import BatchProofs BatcherProofs LedgerProofs LedgerOrder.
From Bifrost.model Require Import Pipeline.
From Bifrost.proofs Require Import PipelineProofs.
From Coq Require Import Permutation.

(* ===================================================================== *)
(* Part A — lists and stream contracts                                     *)
(* ===================================================================== *)

(* two decompositions of one list around x and y: x lies before y, or y lies before-or-at x *)
Lemma two_splits {A} (a : list A) : forall x b a' y b', a ++ x :: b = a' ++ y :: b' ->
  In x a' \/ In y (a ++ [x]).
Proof.
  induction a as [|z a IH]; intros x b a' y b' E; simpl in *.
  - destruct a' as [|z' a']; simpl in E; inversion E; subst; [right; now left|left; now left].
  - destruct a' as [|z' a']; simpl in E; inversion E; subst.
    + right. now left.
    + destruct (IH _ _ _ _ _ H1) as [H|H]; [left; now right|right; now right].
Qed.

Lemma NoDup_split_unique {A} (a : list A) : forall x b a' b', NoDup (a ++ x :: b) ->
  a ++ x :: b = a' ++ x :: b' -> a = a' /\ b = b'.
Proof.
  induction a as [|z a IH]; intros x b a' b' Hn E; simpl in *.
  - destruct a' as [|z' a']; simpl in E; inversion E; subst; [auto|].
    exfalso. inversion Hn; subst. apply H1. apply in_or_app. right. now left.
  - destruct a' as [|z' a']; simpl in E; inversion E; subst.
    + exfalso. inversion Hn; subst. apply H1. apply in_or_app. right. now left.
    + inversion Hn; subst. destruct (IH _ _ _ _ H3 H1). subst. auto.
Qed.

(* an extension of a list, decomposed around an element: the element is in the old part or in the new *)
Lemma app_split_cases {A} (a : list A) : forall b h1 o h2, a ++ b = h1 ++ o :: h2 ->
  (exists h2', a = h1 ++ o :: h2' /\ h2 = h2' ++ b) \/ (exists b1, h1 = a ++ b1 /\ b = b1 ++ o :: h2).
Proof.
  induction a as [|z a IH]; intros b h1 o h2 E; simpl in *.
  - right. exists h1. split; [reflexivity|assumption].
  - destruct h1 as [|z' h1]; simpl in E; inversion E; subst.
    + left. exists a. split; reflexivity.
    + destruct (IH _ _ _ _ H1) as [(h2' & E1 & E2)|(b1 & E1 & E2)]; subst.
      * left. exists h2'. split; reflexivity.
      * right. exists b1. split; reflexivity.
Qed.

(* ---------- "for every element satisfying P, every LATER element is related by R" ---------- *)
Fixpoint laterb (P : msg -> bool) (R : msg -> msg -> bool) (ms : list msg) : bool :=
  match ms with
  | [] => true
  | c :: r => (if P c then forallb (R c) r else true) && laterb P R r
  end.

Lemma laterb_spec P R a : forall c b, laterb P R (a ++ c :: b) = true -> P c = true ->
  forall m, In m b -> R c m = true.
Proof.
  induction a as [|z a IH]; intros c b H Hc m Hm; simpl in H; apply andb_prop in H; destruct H as [H1 H2].
  - rewrite Hc in H1. rewrite forallb_forall in H1. auto.
  - eapply IH; eauto.
Qed.

(* PostgreSQL streams transactions in commit order: COMMITs of different transaction ids carry strictly
   increasing positions; a transaction delivered again carries its own commit position again *)
Definition commit_positions_increasing (ms : list msg) : bool :=
  laterb is_commit (fun c m => negb (is_commit m) ||
                               (if String.eqb (m_txn c) (m_txn m) then (m_wal c =? m_wal m)%N else (m_wal c <? m_wal m)%N)) ms.

(* the walsender contract as far as it is needed: a delivery is abandoned (its transaction delivered again
   under a new key) only when it was interrupted, i.e. had no COMMIT; and a transaction id is not reused:
   after the COMMIT of transaction x no later message carries x *)
Definition redelivery_shape (ms : list msg) : bool :=
  laterb is_commit (fun c m => negb (String.eqb (m_txn m) (m_txn c))) ms.

Lemma increasing_spec a c b : commit_positions_increasing (a ++ c :: b) = true -> is_commit c = true ->
  forall c2, In c2 b -> is_commit c2 = true -> m_txn c2 <> m_txn c -> (m_wal c < m_wal c2)%N.
Proof.
  intros H Hc c2 Hin Hc2 Hne. pose proof (laterb_spec _ _ a c b H Hc c2 Hin) as R. simpl in R.
  rewrite Hc2 in R. simpl in R. destruct (String.eqb_spec (m_txn c) (m_txn c2)); [congruence|]. now apply N.ltb_lt.
Qed.

Lemma committed_final a c b : redelivery_shape (a ++ c :: b) = true -> is_commit c = true ->
  forall m, In m b -> m_txn m <> m_txn c.
Proof.
  intros H Hc m Hin. pose proof (laterb_spec _ _ a c b H Hc m Hin) as R. simpl in R.
  apply negb_true_iff in R. now apply String.eqb_neq.
Qed.

(* ---------- order of delivery keys in the stream ---------- *)
(* k1 occurs, and k2 does not occur before or at that occurrence: BEGIN k1 precedes BEGIN k2 *)
Definition key_before (ms : list msg) (k1 k2 : string) : Prop :=
  exists a m1 b, ms = a ++ m1 :: b /\ m_key m1 = k1 /\ forall m, In m (a ++ [m1]) -> m_key m <> k2.

Fixpoint key_beforeb (ms : list msg) (k1 k2 : string) : bool :=
  match ms with
  | [] => false
  | m :: r => if String.eqb (m_key m) k2 then false
              else if String.eqb (m_key m) k1 then true else key_beforeb r k1 k2
  end.

Lemma key_beforeb_ok ms k1 k2 : key_beforeb ms k1 k2 = true <-> key_before ms k1 k2.
Proof.
  induction ms as [|m r IH]; simpl.
  - split; [discriminate|]. intros (a & m1 & b & E & _). destruct a; discriminate.
  - destruct (String.eqb_spec (m_key m) k2) as [E2|N2].
    + split; [discriminate|]. intros (a & m1 & b & E & _ & H). exfalso.
      destruct a as [|z a]; simpl in E; inversion E; subst.
      * apply (H m1); [now left|first [assumption|reflexivity]].
      * apply (H z); [now left|first [assumption|reflexivity]].
    + destruct (String.eqb_spec (m_key m) k1) as [E1|N1].
      * split; [|reflexivity]. intros _. exists [], m, r. split; [reflexivity|]. split; [assumption|].
        intros m' [<-|[]]. assumption.
      * rewrite IH. split.
        -- intros (a & m1 & b & -> & K & H). exists (m :: a), m1, b. split; [reflexivity|]. split; [assumption|].
           intros m' [<-|Hm']; auto.
        -- intros (a & m1 & b & E & K & H). destruct a as [|z a]; simpl in E; inversion E; subst; [congruence|].
           exists a, m1, b. split; [reflexivity|]. split; [reflexivity|]. intros m' Hm'. apply H. now right.
Qed.

(* COMMIT of k' precedes every message of k: the delivery k' is closed before k begins *)
Definition closed_before (ms : list msg) (k' k : string) : Prop :=
  exists f1 c' f2, ms = f1 ++ c' :: f2 /\ is_commit c' = true /\ m_key c' = k' /\
                   forall m, In m (f1 ++ [c']) -> m_key m <> k.

(* k is the latest delivery key of its transaction: after some message of k, every message of the same
   transaction id carries k *)
Definition latest_key (ms : list msg) (k : string) : Prop :=
  exists a m b, ms = a ++ m :: b /\ m_key m = k /\ forall m', In m' b -> m_txn m' = m_txn m -> m_key m' = k.

(* ---------- framing: delivery keys form contiguous blocks ---------- *)
Lemma framed_from_state a : forall used cur b,
  framed_from used cur (a ++ b) = true -> (forall k0, cur = Some k0 -> In k0 used) ->
  exists used' cur', framed_from used' cur' b = true /\ (forall k0, cur' = Some k0 -> In k0 used') /\
    (forall m, In m a -> In (m_key m) used') /\ incl used used'.
Proof.
  induction a as [|m a IH]; intros used cur b H Hc; simpl in H.
  - exists used, cur. repeat split; auto. + intros m []. + apply incl_refl.
  - destruct (is_begin m) eqn:Hb.
    + apply andb_prop in H. destruct H as [_ H].
      destruct (IH (m_key m :: used) (Some (m_key m)) b H) as (u' & c' & F1 & F2 & F3 & F4).
      { intros k0 E. inversion E; subst. now left. }
      exists u', c'. split; [assumption|]. split; [assumption|]. split.
      * intros m' [<-|Hm']; [apply F4; now left|auto].
      * intros x Hx; apply F4; now right.
    + destruct cur as [k1|]; [|discriminate]. apply andb_prop in H. destruct H as [Hk H]. apply String.eqb_eq in Hk.
      destruct (IH used (if is_commit m then None else Some k1) b H) as (u' & c' & F1 & F2 & F3 & F4).
      { intros k0 E. destruct (is_commit m); [discriminate|]. now apply Hc. }
      exists u', c'. split; [assumption|]. split; [assumption|]. split.
      * intros m' [<-|Hm']; [rewrite Hk; apply F4; now apply Hc|auto].
      * assumption.
Qed.

(* if a key occurs before x and x carries another key, the key never occurs after x *)
Lemma framed_contiguous a x b m m' : framed (a ++ x :: b) = true ->
  In m a -> In m' b -> m_key m = m_key m' -> m_key x = m_key m.
Proof.
  intros Hf Hm Hm' Ek. destruct (string_dec (m_key x) (m_key m)) as [|Hne]; [assumption|exfalso].
  unfold framed in Hf.
  destruct (framed_from_state a [] None (x :: b) Hf) as (u & c & F1 & F2 & F3 & _); [discriminate|].
  specialize (F3 m Hm). simpl in F1.
  destruct (is_begin x) eqn:Hb.
  - apply andb_prop in F1. destruct F1 as [_ F1].
    refine (framed_after_closed (m_key m) b (m_key x :: u) (Some (m_key x)) F1 _ _ m' Hm' (eq_sym Ek)); [|now right].
    intros k' E. inversion E; subst. assumption.
  - destruct c as [k1|]; [|discriminate]. apply andb_prop in F1. destruct F1 as [Hk F1]. apply String.eqb_eq in Hk.
    refine (framed_after_closed (m_key m) b u (if is_commit x then None else Some k1) F1 _ F3 m' Hm' (eq_sym Ek)).
    intros k' E. destruct (is_commit x); [discriminate|]. inversion E; subst. congruence.
Qed.

(* ===================================================================== *)
(* Part B — E4 for every transactions map that leaves the batcher          *)
(* ===================================================================== *)

(* the COMMIT c has been announced to the tracker in trace t *)
Definition announced (t : list tr) (c : msg) : Prop :=
  exists n, In (mkSeen (m_txn c) (m_key c) n (m_wal c)) (seen_outs t).

(* x left the batcher in t: as the map of a dispatched batch or as an empty-batch report *)
Definition map_sent (t : list tr) (x : txmap) : Prop :=
  In x (empties t) \/ exists w b, In (w, b) (dispatched t) /\ x = b_txns b.

(* every key of a map that left the batcher belongs to a received message m such that every COMMIT
   received before m has been announced (sendBatch flushes the Seen list first) *)
Definition ET (t : list tr) : Prop :=
  forall x, map_sent t x -> forall k tx n, In (k, (tx, n)) x ->
  exists ms1 m ms2, fed t = ms1 ++ m :: ms2 /\ m_key m = k /\
    forall c, In c ms1 -> is_commit c = true -> announced t c.

Lemma announced_app t t' c : announced t c -> announced (t ++ t') c.
Proof. intros [n H]. exists n. rewrite seen_outs_app. apply in_or_app. now left. Qed.

Lemma ET_step cfg g a g' t t' : astep cfg g a = Some (g', t') ->
  pend_change g -> MI g t -> scan_inv g t -> fed_inv g t -> ET t -> ET (t ++ t').
Proof.
  intros Hs Hpc HMI Hsc Hfi HET x Hx k tx n Hin.
  assert (Hold : map_sent t x -> exists ms1 m ms2, fed (t ++ t') = ms1 ++ m :: ms2 /\ m_key m = k /\
                   forall c, In c ms1 -> is_commit c = true -> announced (t ++ t') c).
  { intros Hx'. destruct (HET x Hx' k tx n Hin) as (ms1 & m & ms2 & E & Hk & Ha).
    exists ms1, m, (ms2 ++ fed t'). rewrite fed_app, E, <- app_assoc. split; [reflexivity|]. split; [assumption|].
    intros c Hc1 Hc2. apply announced_app. auto. }
  assert (Hcase : map_sent t x \/ map_sent t' x).
  { destruct Hx as [Hx|(w & b & Hx & E)].
    - rewrite empties_app in Hx. apply in_app_or in Hx. destruct Hx; [left; now left|right; now left].
    - rewrite dispatched_app in Hx. apply in_app_or in Hx. destruct Hx; [left|right]; right; eauto. }
  destruct Hcase as [Hc|Hc]; [auto|]. clear Hold.
  apply astep_cases in Hs. destruct Hs as [Hd [Hs|[Hs|Hs]]].
  - destruct Hs as (now & m & -> & _ & -> & ->). exfalso. destruct Hc as [Hc|(w & b & Hc & _)]; destruct Hc.
  - destruct Hs as (p & repl & ob & -> & Hg & -> & ->).
    assert (Ex : x = b_txns (ob_batch ob)).
    { destruct Hc as [Hc|(w & b & Hc & E)].
      - rewrite empties_send in Hc. destruct (is_empty (ob_batch ob)); [|destruct Hc]. destruct Hc as [<-|[]]. reflexivity.
      - rewrite dispatched_send in Hc. destruct (is_empty (ob_batch ob)); [destruct Hc|].
        destruct (BatcherProofs.route cfg (g_st g) (ob_batch ob)); [|destruct Hc]. destruct Hc as [E'|[]]. inversion E'; subst. reflexivity. }
    subst x. destruct HMI as (Ho & _ & _).
    destruct (Ho _ _ (aget_some_in _ _ _ Hg)) as [[_ Hent] _].
    destruct (Hent _ _ _ Hin) as (_ & m & Hm & _ & Hk & _).
    unfold fed_inv in Hfi. rewrite <- Hfi in Hm. unfold changes in Hm. apply filter_In in Hm. destruct Hm as [Hm _].
    destruct (in_split _ _ Hm) as (ms1 & ms2 & E). exists ms1, m, ms2.
    rewrite fed_app, fed_outs, app_nil_r. split; [assumption|]. split; [assumption|].
    intros c Hc1 Hc2.
    assert (Hcf : In c (fed t)) by (rewrite E; apply in_or_app; now left).
    destruct (seens_of_commit _ _ Hcf Hc2) as [n' Hn']. exists n'.
    unfold scan_inv in Hsc. unfold seens_of in Hn'. rewrite Hsc in Hn'. simpl in Hn'.
    now rewrite seen_outs_app, seen_outs_send.
  - destruct Hs as (now & m & ob & b' & r & -> & _ & _ & _ & _ & -> & ->). exfalso.
    destruct Hc as [Hc|(w & b & Hc & _)]; destruct Hc.
Qed.

Lemma ET_invariant cfg acts g t : arun cfg ginit acts = Some (g, t) -> ET t.
Proof.
  intros H.
  assert (HH : pend_change g /\ MI g t /\ scan_inv g t /\ fed_inv g t /\ ET t); [|tauto].
  refine (arun_inv cfg (fun g t => pend_change g /\ MI g t /\ scan_inv g t /\ fed_inv g t /\ ET t) _ acts ginit [] g t _ H).
  - intros g0 t0 a g1 t1 (H1 & H2 & H3 & H4 & H5) Hs.
    split; [eapply pend_change_step; eauto|]. split; [eapply MI_step; eauto|].
    split; [eapply scan_inv_step; eauto|]. split; [eapply fed_inv_step; eauto|]. eapply ET_step; eauto.
  - split; [intros m; discriminate|]. split; [repeat split; simpl; intros; contradiction|].
    split; [reflexivity|]. split; [reflexivity|]. intros x [[]|(w & b & [] & _)].
Qed.

(* ===================================================================== *)
(* Part C — first mention in the ghost history follows the stream          *)
(* ===================================================================== *)

Lemma mentioned_app_l k h r : mentioned k h -> mentioned k (h ++ r).
Proof. intros (o & t & Hin & Hm). exists o, t. split; [apply in_or_app; now left|assumption]. Qed.

Lemma first_pos_app_old k h r : mentioned k h -> first_pos k (h ++ r) = first_pos k h.
Proof.
  induction h as [|o h IH]; simpl.
  - intros (x & t & [] & _).
  - intros Hm. destruct (mentions_key k o) eqn:E; [reflexivity|]. rewrite IH; [reflexivity|].
    destruct Hm as (x & t & [<-|Hin] & Hx).
    + assert (mentions_key k o = true) by (apply mentions_key_true; eauto). congruence.
    + exists x, t; auto.
Qed.

Lemma first_mention_split k : forall h, mentioned k h ->
  exists h1 o h2 t, h = h1 ++ o :: h2 /\ mention o = Some (t, k) /\ first_pos k h = List.length h1.
Proof.
  induction h as [|o h IH]; intros Hm; [destruct Hm as (x & t & [] & _)|]. simpl.
  destruct (mentions_key k o) eqn:E.
  - apply mentions_key_true in E. destruct E as [t E]. exists [], o, h, t. auto.
  - destruct IH as (h1 & o1 & h2 & t & -> & M & F).
    + destruct Hm as (x & t & [<-|Hin] & Hx); [|exists x, t; auto].
      assert (mentions_key k o = true) by (apply mentions_key_true; eauto). congruence.
    + exists (o :: h1), o1, h2, t. simpl. auto.
Qed.

Lemma seens_spec_app a : forall pre b, seens_spec pre (a ++ b) = seens_spec pre a ++ seens_spec (pre ++ a) b.
Proof.
  induction a as [|m a IH]; intros pre b; simpl; [now rewrite app_nil_r|].
  rewrite IH. rewrite <- (app_assoc pre [m] a). simpl. now rewrite app_assoc.
Qed.

Lemma seens_spec_two pre q1 c' q2 cK m2 : is_commit c' = true -> is_commit cK = true ->
  exists X Y Z n' nK, seens_spec pre (q1 ++ c' :: q2 ++ cK :: m2) =
    X ++ mkSeen (m_txn c') (m_key c') n' (m_wal c') :: Y ++ mkSeen (m_txn cK) (m_key cK) nK (m_wal cK) :: Z.
Proof.
  intros H1 H2. rewrite seens_spec_app. simpl. rewrite H1. simpl. rewrite seens_spec_app. simpl. rewrite H2. simpl.
  do 5 eexists. reflexivity.
Qed.

Lemma seens_in_cons_seen t k n c h : seens_in (OSeen t k n c :: h) = mkSeen t k n c :: seens_in h.
Proof. reflexivity. Qed.

Section Order.
  Context (cfg : bcfg) (Hw : workers_ok cfg) (full : list msg) (Hfr : framed full = true).

  Section AtState.
    Context (ls : list plabel) (st : pstate) (evs : list bevent) (t : list tr)
            (accb : list batch) (readm : list txmap) (g : gstate) (t0 : list tr).
    Context (HP : PI cfg ls st evs t accb readm) (HM : MT cfg t g t0).
    Context (Hfull : exists more, full = fed_of ls ++ more).

    (* a COMMIT that closes k' before k begins was received before every received message of k *)
    Lemma closed_before_received ms1 m ms2 k' : fed t0 = ms1 ++ m :: ms2 -> closed_before full k' (m_key m) ->
      exists c', In c' ms1 /\ is_commit c' = true /\ m_key c' = k'.
    Proof.
      intros E (f1 & c' & f2 & Ef & Hc & Hk & Hno).
      destruct (fed_prefix cfg ls st evs t accb readm g t0 HP HM full Hfull) as [rest Erest].
      rewrite E, <- app_assoc in Erest. simpl in Erest. rewrite Ef in Erest.
      destruct (two_splits _ _ _ _ _ _ Erest) as [H|H]; [eauto|].
      exfalso. exact (Hno m H eq_refl).
    Qed.

    (* P: whatever map has left the batcher — read already, or still waiting — every delivery closed
       before one of its keys began has been mentioned to the ledger *)
    Lemma pending_announced x k tx n k' : In x (readm ++ p_written st) -> In (k, (tx, n)) x ->
      closed_before full k' k -> mentioned k' (p_lops st).
    Proof.
      intros Hx Hin Hcb. destruct (mt_run _ _ _ _ HM) as [acts Ha].
      assert (Hs : map_sent t0 x).
      { apply (Permutation_in _ (Permutation_sym (pi_maps _ _ _ _ _ _ _ HP))) in Hx.
        apply in_app_or in Hx. destruct Hx as [Hx|Hx].
        - apply in_map_iff in Hx. destruct Hx as (b & <- & Hb). right.
          assert (Hb' : In b (map snd (dispatched t))).
          { apply (Permutation_in _ (Permutation_sym (pi_disp _ _ _ _ _ _ _ HP))). apply in_or_app. now left. }
          apply in_map_iff in Hb'. destruct Hb' as ([w b0] & <- & Hwb). rewrite (mt_disp _ _ _ _ HM) in Hwb. eauto.
        - left. now rewrite <- (mt_emp _ _ _ _ HM). }
      destruct (ET_invariant cfg acts g t0 Ha x Hs k tx n Hin) as (ms1 & m & ms2 & E & Hk & Hann).
      subst k. destruct (closed_before_received _ _ _ _ E Hcb) as (c' & Hc1 & Hc2 & Hc3).
      destruct (Hann c' Hc1 Hc2) as [n' Hn'].
      rewrite <- (mt_seen _ _ _ _ HM), <- (pi_seens _ _ _ _ _ _ _ HP) in Hn'. apply in_seens_in in Hn'.
      exists (OSeen (m_txn c') (m_key c') n' (m_wal c')), (m_txn c'). split; [assumption|]. simpl. now rewrite Hc3.
    Qed.

    (* S: before the Seen of k, every delivery closed before k began has been mentioned *)
    Lemma seen_after_closed h1 tx k n c h2 k' : p_lops st = h1 ++ OSeen tx k n c :: h2 ->
      closed_before full k' k -> mentioned k' h1.
    Proof.
      intros Eh Hcb. destruct (mt_run _ _ _ _ HM) as [acts Ha].
      destruct (fed_prefix cfg ls st evs t accb readm g t0 HP HM full Hfull) as [rest Erest].
      destruct (dispatch_invariant cfg acts g t0 Hw Ha) as [Hs _]. unfold scan_inv in Hs.
      assert (Hf0 : framed (fed t0) = true) by (rewrite Erest in Hfr; eapply framed_prefix; eauto).
      pose proof (seens_of_framed _ Hf0) as ESS. unfold seens_of in ESS. rewrite Hs in ESS. simpl in ESS.
      pose proof (framed_commit_keys_nodup _ Hf0) as Hnd. unfold seens_of in Hnd. rewrite Hs in Hnd. simpl in Hnd.
      pose proof (pi_seens _ _ _ _ _ _ _ HP) as Esi. rewrite (mt_seen _ _ _ _ HM), Eh, seens_in_app, seens_in_cons_seen in Esi.
      set (sK := mkSeen tx k n c) in *.
      assert (HinSS : In sK (seens_spec [] (fed t0))).
      { rewrite <- ESS, <- Esi. apply in_or_app. left. apply in_or_app. right. now left. }
      destruct (seens_spec_in _ _ _ HinSS) as (m1 & cK & m2 & E & HcK & EsK). simpl in EsK.
      assert (EkK : m_key cK = k) by (unfold sK in EsK; inversion EsK; reflexivity).
      rewrite <- EkK in Hcb.
      destruct (closed_before_received _ _ _ _ E Hcb) as (c' & Hc1 & Hc2 & Hc3).
      destruct (in_split _ _ Hc1) as (q1 & q2 & Eq). rewrite Eq, <- app_assoc in E. simpl in E.
      destruct (seens_spec_two [] q1 c' q2 cK m2 Hc2 HcK) as (X & Y & Z & n' & nK & E2). rewrite <- E, <- ESS in E2.
      set (s' := mkSeen (m_txn c') (m_key c') n' (m_wal c')) in *.
      set (sK0 := mkSeen (m_txn cK) (m_key cK) nK (m_wal cK)) in *.
      assert (EK : sK0 = sK).
      { apply (NoDup_map_inj s_key (seen_outs t0 ++ seenl (g_st g))); [assumption| | |].
        - rewrite E2. apply in_or_app. right. right. apply in_or_app. right. now left.
        - rewrite <- Esi. apply in_or_app. left. apply in_or_app. right. now left.
        - unfold sK0, sK. simpl. assumption. }
      rewrite EK in E2.
      assert (E3 : seens_in h1 ++ sK :: seens_in h2 ++ seenl (g_st g) = (X ++ s' :: Y) ++ sK :: Z).
      { rewrite <- (app_assoc X (s' :: Y)). simpl. rewrite <- E2, <- Esi, <- app_assoc. reflexivity. }
      assert (Hnd' : NoDup (seens_in h1 ++ sK :: seens_in h2 ++ seenl (g_st g))).
      { apply (NoDup_map_inv s_key). rewrite <- Esi, <- app_assoc in Hnd. exact Hnd. }
      destruct (NoDup_split_unique _ _ _ _ _ Hnd' E3) as [E1 _].
      assert (Hs' : In s' (seens_in h1)) by (rewrite E1; apply in_or_app; right; now left).
      unfold s' in Hs'. apply in_seens_in in Hs'.
      exists (OSeen (m_txn c') (m_key c') n' (m_wal c')), (m_txn c'). split; [assumption|]. simpl. now rewrite Hc3.
    Qed.
  End AtState.

  (* which ops one label appends: Written ops only when the tracker reads the head of the written channel *)
  Lemma pstep_writs st l :
    exists extra, p_lops (pstep cfg st l) = p_lops st ++ extra /\
      ((forall t k n, ~ In (OWritten t k n) extra) \/ (exists x r, p_written st = x :: r /\ extra = written_ops x)).
  Proof.
    unfold pstep. destruct (p_failed st).
    { exists []. rewrite app_nil_r. split; [reflexivity|left; intros t k n []]. }
    assert (Hseen : forall l0 t k n, ~ In (OWritten t k n) (seen_ops l0)).
    { intros l0 t k n Hin. unfold seen_ops in Hin. apply in_map_iff in Hin. destruct Hin as (s & E & _). discriminate. }
    destruct l as [now m|now order pops|w| |].
    - destruct (dead (p_b st)); [exists []; rewrite app_nil_r; split; [reflexivity|left; intros t k n []]|].
      destruct (bstep_msg cfg (p_b st) now m) as [b' outs].
      destruct (route_effect outs (set_b st b')) as (_ & _ & _ & _ & _ & E6). simpl in E6.
      eexists. split; [exact E6|]. left. apply Hseen.
    - destruct (bstep_tick cfg (p_b st) now order pops) as [[b' outs]|];
        [|exists []; rewrite app_nil_r; split; [reflexivity|left; intros t k n []]].
      destruct (route_effect outs (set_b st b')) as (_ & _ & _ & _ & _ & E6). simpl in E6.
      eexists. split; [exact E6|]. left. apply Hseen.
    - destruct (dequeue w (p_queues st)) as [[b qs]|]; exists []; rewrite app_nil_r; (split; [reflexivity|left; intros t k n []]).
    - destruct (p_written st) as [|x r]; [exists []; rewrite app_nil_r; split; [reflexivity|left; intros t k n []]|].
      destruct (apply_lops (p_ledger st) (written_ops x)) as [lg f]. simpl.
      eexists. split; [reflexivity|]. right. eauto.
    - exists [OEmit]. destruct (emit (p_ledger st)) as [[f|] lg]; simpl; (split; [reflexivity|]); left;
        intros t k n [E|[]]; discriminate.
  Qed.

  (* W: before a Written of k, every delivery closed before k began has been mentioned *)
  Lemma written_after_closed : forall ls, (exists more, full = fed_of ls ++ more) ->
    forall h1 tx k n h2, p_lops (prun cfg ls) = h1 ++ OWritten tx k n :: h2 ->
    forall k', closed_before full k' k -> mentioned k' h1.
  Proof.
    induction ls as [|l ls IH] using rev_ind; intros Hfull h1 tx k n h2 Eh k' Hcb.
    { simpl in Eh. destruct h1; discriminate. }
    assert (Hfull0 : exists more, full = fed_of ls ++ more).
    { destruct Hfull as [more E]. exists (fed_of [l] ++ more). now rewrite E, fed_of_app, app_assoc. }
    rewrite prun_snoc in Eh. destruct (pstep_writs (prun cfg ls) l) as (extra & El & Hex). rewrite El in Eh.
    destruct (app_split_cases _ _ _ _ _ Eh) as [(h2' & E1 & _)|(b1 & E1 & E2)].
    - exact (IH Hfull0 h1 tx k n h2' E1 k' Hcb).
    - subst h1. apply mentioned_app_l.
      destruct Hex as [Hno|(x & r & Ew & Ex)].
      + exfalso. apply (Hno tx k n). rewrite E2. apply in_or_app. right. now left.
      + destruct (pipeline_facts cfg ls Hw) as (evs & t & accb & readm & g & t0 & HP & HM & _).
        apply (pending_announced ls _ evs t accb readm g t0 HP HM Hfull0 x k tx n k'); [| |assumption].
        * apply in_or_app. right. rewrite Ew. now left.
        * rewrite <- (writs_in_written_ops x). apply (proj2 (in_writs_in _ _ _ _)). rewrite <- Ex, E2.
          apply in_or_app. right. now left.
  Qed.

  (* first-mention order: if delivery k' was closed (its COMMIT handed over) before k began, the ghost
     history mentions k' strictly before it first mentions k — for every schedule *)
  Theorem first_mention_order ls k k' : (exists more, full = fed_of ls ++ more) ->
    mentioned k (p_lops (prun cfg ls)) -> closed_before full k' k ->
    first_pos k' (p_lops (prun cfg ls)) < first_pos k (p_lops (prun cfg ls)).
  Proof.
    intros Hfull Hm Hcb. destruct (first_mention_split k _ Hm) as (h1 & o & h2 & tx & Eh & Mo & Fp).
    assert (Hk' : mentioned k' h1).
    { destruct o as [t1 k1 n c|t1 k1 n|]; simpl in Mo; inversion Mo; subst.
      - destruct (pipeline_facts cfg ls Hw) as (evs & t & accb & readm & g & t0 & HP & HM & _).
        exact (seen_after_closed ls _ evs t accb readm g t0 HP HM Hfull h1 tx k n c h2 k' Eh Hcb).
      - exact (written_after_closed ls Hfull h1 tx k n h2 Eh k' Hcb). }
    rewrite Fp, Eh, (first_pos_app_old k' h1 _ Hk'). now apply first_pos_mentioned.
  Qed.
End Order.

(* ===================================================================== *)
(* Part D — the schedule-level contract                                    *)
(* ===================================================================== *)

(* NO STALE COMPLETION, schedule level (the contract finding F1 violates): the ledger hears about the
   deliveries of one transaction in the order in which they were begun — once an op mentions delivery k1
   of transaction t, a later op mentions another delivery k2 of t only if k1 was begun BEFORE k2.
   Equivalently: every report (and the Seen) of a superseded delivery reaches the ledger before the newer
   delivery is first mentioned.  [ms] is the stream handed to the batcher, [h] the ghost history. *)
Definition no_stale_schedule (ms : list msg) (h : list lop) : Prop :=
  forall i j t k1 k2, i < j -> mention_at h i = Some (t, k1) -> mention_at h j = Some (t, k2) -> k1 <> k2 ->
    key_before ms k1 k2.

Definition sched_okb (ms : list msg) (h : list lop) (i j : nat) : bool :=
  negb (Nat.ltb i j) ||
  match mention_at h i, mention_at h j with
  | Some (t1, k1), Some (t2, k2) => negb (String.eqb t1 t2) || String.eqb k1 k2 || key_beforeb ms k1 k2
  | _, _ => true
  end.

Definition no_stale_scheduleb (ms : list msg) (h : list lop) : bool :=
  let ix := seq 0 (List.length h) in forallb (fun i => forallb (fun j => sched_okb ms h i j) ix) ix.

Lemma no_stale_scheduleb_ok ms h : no_stale_scheduleb ms h = true <-> no_stale_schedule ms h.
Proof.
  unfold no_stale_scheduleb. rewrite forallb_seq. split.
  - intros H i j t k1 k2 Hij Hi Hj Hne.
    pose proof (mention_at_lt _ _ _ Hi) as Li. pose proof (mention_at_lt _ _ _ Hj) as Lj.
    specialize (H i Li). rewrite forallb_seq in H. specialize (H j Lj). unfold sched_okb in H.
    rewrite Hi, Hj, String.eqb_refl in H. simpl in H.
    destruct (Nat.ltb_spec i j); [|lia]. simpl in H.
    destruct (String.eqb_spec k1 k2); [contradiction|]. simpl in H. now apply key_beforeb_ok.
  - intros H i Li. rewrite forallb_seq. intros j Lj. unfold sched_okb.
    destruct (Nat.ltb_spec i j) as [Hij|]; [|reflexivity]. simpl.
    destruct (mention_at h i) as [[t1 k1]|] eqn:Hi; [|reflexivity].
    destruct (mention_at h j) as [[t2 k2]|] eqn:Hj; [|reflexivity].
    destruct (String.eqb_spec t1 t2) as [->|]; [|reflexivity]. simpl.
    destruct (String.eqb_spec k1 k2) as [|Hne]; [reflexivity|]. simpl.
    apply key_beforeb_ok. eapply H; eauto.
Qed.

(* it implies the ledger-level E5 of LedgerOrder — for any stream and any history *)
Theorem sched_no_stale ms h : no_stale_schedule ms h -> no_stale h.
Proof.
  intros H i j l t k k' Hij Hjl Hi Hj Hl. destruct (string_dec k' k) as [|Hne]; [assumption|exfalso].
  destruct (H i j t k k' Hij Hi Hj (fun E => Hne (eq_sym E))) as (a & m1 & b & E1 & K1 & N1).
  destruct (H j l t k' k Hjl Hj Hl Hne) as (a' & m2 & b' & E2 & K2 & N2).
  rewrite E1 in E2. destruct (two_splits _ _ _ _ _ _ E2) as [Hin|Hin].
  - apply (N2 m1); [apply in_or_app; now left|assumption].
  - apply (N1 m2); assumption.
Qed.

Section Latest.
  Context (cfg : bcfg) (ls : list plabel) (Hw : workers_ok cfg) (Hfr : framed (fed_of ls) = true).
  Context (Hkt : key_txn_ok (fed_of ls)).
  Let h := p_lops (prun cfg ls).
  Context (Hs : no_stale_schedule (fed_of ls) h).

  (* the latest delivery of a transaction, once mentioned, is the one the ledger tracks *)
  Theorem latest_current k : latest_key (fed_of ls) k -> mentioned k h -> current k h.
  Proof.
    intros (a & m & b & E & Km & Hlast) (o & t & Ho & Mo).
    destruct (in_mention_at _ _ _ Ho Mo) as [i Hi]. exists i, t. split; [assumption|].
    intros j k2 Hij Hj. destruct (string_dec k2 k) as [|Hne]; [assumption|exfalso].
    destruct (mention_at_in _ _ _ Hj) as (o2 & Ho2 & Mo2).
    destruct (mention_origin cfg ls Hw Hfr o t k Ho Mo) as (m0 & A0 & B0 & C0).
    destruct (mention_origin cfg ls Hw Hfr o2 t k2 Ho2 Mo2) as (m2 & A2 & B2 & C2).
    assert (Em : In m (fed_of ls)) by (rewrite E; apply in_or_app; right; now left).
    assert (Et : m_txn m = t) by (rewrite <- C0; apply Hkt; auto; congruence).
    (* m2 lies before m *)
    assert (Hm2 : In m2 a).
    { rewrite E in A2. apply in_app_or in A2. destruct A2 as [|[E2|Hb]]; [assumption| |].
      - subst m2. congruence.
      - exfalso. apply Hne. rewrite <- B2. apply Hlast; [assumption|congruence]. }
    destruct (in_split _ _ Hm2) as (a1 & a2 & Ea).
    (* some message of k lies before m2 *)
    destruct (Hs i j t k k2 Hij Hi Hj (fun E' => Hne (eq_sym E'))) as (p & m1 & q & E1 & K1 & N1).
    rewrite Ea, <- app_assoc in E. simpl in E.
    assert (Hm1 : In m1 a1).
    { rewrite E1 in E. destruct (two_splits _ _ _ _ _ _ E) as [H|H]; [assumption|].
      exfalso. exact (N1 m2 H B2). }
    (* so m2 lies inside the block of k *)
    rewrite E in Hfr.
    pose proof (framed_contiguous a1 m2 (a2 ++ m :: b) m1 m Hfr Hm1) as Hc.
    apply Hne. rewrite <- B2, <- K1. apply Hc; [apply in_or_app; right; now left|congruence].
  Qed.

  (* conversely: a delivery the ledger tracks is the latest one of its transaction, provided that latest one
     has been mentioned at all.  (Until then the ledger tracks the previous delivery: "current" in the
     history means "latest MENTIONED", which is why the statement needs the proviso.) *)
  Theorem current_is_latest k kl : current k h -> latest_key (fed_of ls) kl -> mentioned kl h ->
    (exists m ml, In m (fed_of ls) /\ In ml (fed_of ls) /\ m_key m = k /\ m_key ml = kl /\ m_txn m = m_txn ml) ->
    k = kl.
  Proof.
    intros Hc Hl Hm (m & ml & A1 & A2 & B1 & B2 & Et).
    pose proof (latest_current kl Hl Hm) as Hcl.
    apply current_cur_of in Hc. apply current_cur_of in Hcl. destruct Hc as [t1 H1]. destruct Hcl as [t2 H2].
    destruct (cur_of_mentioned _ _ _ H1) as (o1 & Ho1 & M1). destruct (cur_of_mentioned _ _ _ H2) as (o2 & Ho2 & M2).
    destruct (mention_origin cfg ls Hw Hfr o1 t1 k Ho1 M1) as (m1 & C1 & D1 & F1).
    destruct (mention_origin cfg ls Hw Hfr o2 t2 kl Ho2 M2) as (m2 & C2 & D2 & F2).
    assert (t1 = t2).
    { rewrite <- F1, <- F2. rewrite (Hkt m1 m C1 A1) by congruence. rewrite (Hkt m2 ml C2 A2) by congruence. assumption. }
    subst t2. congruence.
  Qed.
End Latest.

(* ===================================================================== *)
(* Part E — C01, the ORDER half in stream terms                            *)
(* ===================================================================== *)

Theorem pipeline_commit_order_safe cfg ls : workers_ok cfg ->
  NoDup (map m_id (fed_of ls)) -> framed (fed_of ls) = true ->
  key_txn_ok (fed_of ls) -> commits_nonzero (fed_of ls) ->
  commit_positions_increasing (fed_of ls) = true -> redelivery_shape (fed_of ls) = true ->
  no_stale_schedule (fed_of ls) (p_lops (prun cfg ls)) ->
  forall F, In F (p_acked (prun cfg ls)) ->
  forall c, In c (fed_of ls) -> is_commit c = true -> (m_wal c <= F)%N ->
    latest_key (fed_of ls) (m_key c) /\
    In (m_key c) (released_keys (p_lops (prun cfg ls))) /\
    certified (m_key c) (p_lops (prun cfg ls)) = nchanges (m_key c) (fed_of ls) /\
    (forall m, In m (fed_of ls) -> is_marker m = false -> m_key m = m_key c -> fate_of cfg m = FAccepted ->
               In (m_id m) (map r_id (p_accepted (prun cfg ls)))) /\
    (forall m, In m (fed_of ls) -> is_marker m = false -> m_key m = m_key c -> fate_of cfg m <> FDroppedInvalid).
Proof.
  intros Hw Hnd Hfr Hkt Hcz Hinc Hshape Hsched F HF c Hc Hcc Hle.
  set (h := p_lops (prun cfg ls)) in *.
  pose proof (pipeline_WF cfg ls Hw Hfr Hkt Hcz (sched_no_stale _ _ Hsched)) as HW. fold h in HW.
  destruct (pipeline_acked_released cfg ls Hw F HF) as (tF & k & nF & HseenF & HrelF). fold h in HseenF, HrelF.
  destruct (pipeline_facts cfg ls Hw) as (evs & t & accb & readm & g & t0 & HP & HM & _).
  assert (Hfull : exists more, fed_of ls = fed_of ls ++ more) by (exists []; now rewrite app_nil_r).
  destruct (seen_origin cfg ls _ evs t accb readm g t0 Hw HP HM _ Hfull Hfr tF k nF F HseenF)
    as (ms1 & cF & ms2 & E0 & HcF & KF & _ & WF_ & _).
  destruct (fed_prefix cfg ls _ evs t accb readm g t0 HP HM _ Hfull) as [rest Erest].
  rewrite E0, <- app_assoc in Erest. simpl in Erest.
  (* the latest-delivery claim needs only the shape of the stream *)
  assert (Hlatest : latest_key (fed_of ls) (m_key c)).
  { destruct (in_split _ _ Hc) as (a & b & Ea). exists a, c, b. split; [assumption|]. split; [reflexivity|].
    intros m' Hm' Et. exfalso. rewrite Ea in Hshape. exact (committed_final a c b Hshape Hcc m' Hm' Et). }
  split; [assumption|].
  assert (Hrel : In (m_key c) (released_keys h)).
  { rewrite Erest in Hc. apply in_app_or in Hc. destruct Hc as [Hc1|[Hc1|Hc1]].
    - (* the COMMIT c was handed over before the COMMIT whose position is acknowledged *)
      destruct (in_split _ _ Hc1) as (q1 & q2 & Eq). rewrite Eq, <- app_assoc in Erest. simpl in Erest.
      assert (Hkne : m_key c <> k).
      { intros E. rewrite Erest in Hfr.
        apply (framed_commit_closes q1 [] None c (q2 ++ cF :: ms2 ++ rest) Hfr Hcc (fun k' H => ltac:(discriminate)) cF);
          [apply in_or_app; right; now left|congruence]. }
      assert (Hcb : closed_before (fed_of ls) (m_key c) k).
      { exists q1, c, (q2 ++ cF :: ms2 ++ rest). split; [assumption|]. split; [assumption|]. split; [reflexivity|].
        intros m Hm Ek. apply in_app_or in Hm. destruct Hm as [Hm|[<-|[]]]; [|contradiction].
        apply Hkne. rewrite Erest in Hfr.
        rewrite <- Ek. apply (framed_contiguous q1 c (q2 ++ cF :: ms2 ++ rest) m cF Hfr Hm); [|congruence].
        apply in_or_app. right. now left. }
      assert (Hmk : mentioned k h) by (exists (OSeen tF k nF F), tF; auto).
      pose proof (first_mention_order cfg Hw (fed_of ls) Hfr ls k (m_key c) Hfull Hmk Hcb) as Hlt. fold h in Hlt.
      assert (Hmk' : mentioned (m_key c) h).
      { apply first_pos_mentioned. apply first_pos_mentioned in Hmk. lia. }
      pose proof (latest_current cfg ls Hw Hfr Hkt Hsched (m_key c) Hlatest Hmk') as Hcur.
      exact (released_prefix_closed h HW k HrelF (m_key c) Hcur Hlt).
    - subst cF. now rewrite KF.
    - (* a COMMIT handed over later carries a greater position *)
      exfalso.
      assert (Hne : m_txn c <> m_txn cF).
      { rewrite Erest in Hshape. exact (committed_final ms1 cF (ms2 ++ rest) Hshape HcF c Hc1). }
      rewrite Erest in Hinc. pose proof (increasing_spec ms1 cF (ms2 ++ rest) Hinc HcF c Hc1 Hcc Hne). lia. }
  split; [assumption|].
  pose proof (pipeline_released_keys_complete cfg ls [] Hw) as Hcomp. rewrite app_nil_r in Hcomp.
  destruct (Hcomp Hnd Hfr (m_key c) Hrel) as (t' & n' & c' & _ & E1 & E2 & H1 & H2).
  split; [unfold h; congruence|]. split; assumption.
Qed.

(* the statement in its plainest form *)
Corollary pipeline_commit_order_safe_sink cfg ls : workers_ok cfg ->
  NoDup (map m_id (fed_of ls)) -> framed (fed_of ls) = true ->
  key_txn_ok (fed_of ls) -> commits_nonzero (fed_of ls) ->
  commit_positions_increasing (fed_of ls) = true -> redelivery_shape (fed_of ls) = true ->
  no_stale_schedule (fed_of ls) (p_lops (prun cfg ls)) ->
  forall F, In F (p_acked (prun cfg ls)) ->
  forall c, In c (fed_of ls) -> m_op c = "COMMIT" -> (m_wal c <= F)%N ->
  forall m, In m (fed_of ls) -> is_marker m = false -> m_key m = m_key c -> fate_of cfg m = FAccepted ->
    In (m_id m) (map r_id (p_accepted (prun cfg ls))).
Proof.
  intros Hw Hnd Hfr Hkt Hcz Hinc Hsh Hs F HF c Hc Hop Hle.
  assert (Hcc : is_commit c = true) by (unfold is_commit; rewrite Hop; reflexivity).
  destruct (pipeline_commit_order_safe cfg ls Hw Hnd Hfr Hkt Hcz Hinc Hsh Hs F HF c Hc Hcc Hle) as (_ & _ & _ & H & _).
  exact H.
Qed.
