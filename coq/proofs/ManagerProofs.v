From Bifrost.model Require Import Base Manager.

(* a START_REPLICATION is issued by an op iff the op is GetConnWithStartLsn and no live connection
   is held; it then carries exactly the LSN given *)
Lemma start_rule s o :
  m_starts (mstep s o) =
  match o with
  | MGetStart lsn => if need_new s then m_starts s ++ [lsn] else m_starts s
  | _ => m_starts s
  end.
Proof.
  destruct o; simpl.
  - destruct (need_new s); reflexivity.
  - destruct (need_new s); reflexivity.
  - reflexivity.
  - destruct (m_conn s); reflexivity.
Qed.

Lemma starts_are_requested : forall ops l, In l (m_starts (mrun ops)) -> In (MGetStart l) ops.
Proof.
  intros ops. unfold mrun.
  assert (H : forall s l, In l (m_starts (fold_left mstep ops s)) -> In l (m_starts s) \/ In (MGetStart l) ops).
  { induction ops as [|o ops IH]; intros s l Hin; simpl in *; [now left|].
    destruct (IH _ _ Hin) as [H|H]; [|now right; right].
    rewrite start_rule in H. destruct o; auto.
    destruct (need_new s); auto. apply in_app_or in H. destruct H as [H|[<-|[]]]; auto. }
  intros l Hin. destruct (H minit l Hin) as [[]|]; assumption.
Qed.

Lemma live_connection_is_kept s lsn : need_new s = false -> mstep s (MGetStart lsn) = s.
Proof. intros H; simpl; now rewrite H. Qed.
