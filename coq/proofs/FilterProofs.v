(* FilterProofs.v — lemmas about model/Filter.v and gen/GenCli.v. *)
From Bifrost.model Require Import Base Filter.
From Bifrost.gen Require Import GenCli.

(* ---------- the two search loops ---------- *)
Lemma find_plain_In rel items : find_plain rel items = true <-> In rel items.
Proof.
  induction items as [|it r IH]; simpl; [intuition discriminate|].
  destruct (String.eqb_spec rel it) as [->|Hne].
  - intuition.
  - rewrite IH. split; [auto|]. intros [H|H]; [congruence|assumption].
Qed.

Lemma existsb_match (M : string -> string -> bool) rel items :
  existsb (fun it => M it rel) items = true <-> exists r, In r items /\ M r rel = true.
Proof. apply existsb_exists. Qed.

Lemma existsb_nomatch (M : string -> string -> bool) rel items :
  existsb (fun it => M it rel) items = false <-> forall r, In r items -> M r rel = false.
Proof.
  split.
  - intros H r Hin. destruct (M r rel) eqn:E; [|reflexivity].
    assert (existsb (fun it => M it rel) items = true) by (apply existsb_exists; eauto). congruence.
  - intros H. destruct (existsb (fun it => M it rel) items) eqn:E; [|reflexivity].
    apply existsb_exists in E. destruct E as (r & Hin & Hr). rewrite (H r Hin) in Hr. discriminate.
Qed.

(* whenever the regexp loop does not dereference a nil *Regexp, it computes "some item matches" *)
Lemma find_regex_some bad M rel items b :
  find_regex bad M rel items = Some b -> b = existsb (fun it => M it rel) items.
Proof.
  induction items as [|it r IH]; simpl.
  - intros H; now inversion H.
  - destruct (bad it); [discriminate|]. destruct (M it rel); simpl.
    + intros H; now inversion H.
    + exact IH.
Qed.

Lemma find_regex_nobad bad M rel items :
  (forall it, In it items -> bad it = false) ->
  find_regex bad M rel items = Some (existsb (fun it => M it rel) items).
Proof.
  induction items as [|it r IH]; simpl; intros Hb; [reflexivity|].
  rewrite (Hb it (or_introl eq_refl)). destruct (M it rel); simpl; [reflexivity|].
  apply IH. intros; apply Hb; now right.
Qed.

(* ---------- decide = the user's intent, for the configuration each kind needs ---------- *)
Lemma negb_true_false b : negb b = true <-> b = false.
Proof. destruct b; simpl; intuition discriminate. Qed.

Lemma decide_permitted : forall k lst M rel,
  decide (cfg_of k lst) M rel = true <-> permitted k lst M rel.
Proof.
  intros k lst M rel. destruct k; unfold decide, passthrough, found, keep; simpl.
  - (* WL *) apply find_plain_In.
  - (* BL *) destruct lst as [|x l]; simpl; [intuition|].
    rewrite negb_true_false. split.
    + intros H Hin. apply (find_plain_In rel (x :: l)) in Hin. simpl in Hin. congruence.
    + intros H. destruct (if String.eqb rel x then true else find_plain rel l) eqn:E; [|reflexivity].
      exfalso. apply H. now apply (find_plain_In rel (x :: l)).
  - (* WLR *) apply existsb_match.
  - (* BLR *) destruct lst as [|x l]; simpl; [intuition|].
    rewrite negb_true_false. apply (existsb_nomatch M rel (x :: l)).
  - (* NoFilter *) intuition.
Qed.

(* the pass-through shortcut of New is redundant for the decision *)
Lemma decide_no_shortcut c M rel : decide c M rel = keep (c_whitelist c) (found c M rel).
Proof.
  destruct c as [[w x] l]. unfold decide, passthrough, found, keep, c_whitelist, c_regex, c_tablelist; simpl.
  destruct w; simpl; [reflexivity|]. destruct l; simpl; [now destruct x|reflexivity].
Qed.

(* ---------- the stage ---------- *)
Definition regs_compile (c : fcfg) (bad : string -> bool) : Prop :=
  c_regex c = true -> forall it, In it (c_tablelist c) -> bad it = false.

Definition fwd (c : fcfg) (M : string -> string -> bool) (m : fmsg) : bool :=
  is_marker m || decide c M (f_rel m).

Lemma step_nopanic c bad M m :
  step c bad M m <> Panic -> step c bad M m = if fwd c M m then Forward else Drop.
Proof.
  unfold step, fwd, decide. destruct (passthrough c); [now rewrite orb_true_r|].
  destruct (is_marker m); simpl; [reflexivity|]. unfold found.
  destruct (c_regex c).
  - destruct (find_regex bad M (f_rel m) (c_tablelist c)) as [b|] eqn:E; [|congruence].
    apply find_regex_some in E. subst b. reflexivity.
  - reflexivity.
Qed.

Lemma step_compiled c bad M m :
  regs_compile c bad -> step c bad M m = if fwd c M m then Forward else Drop.
Proof.
  intros Hc. apply step_nopanic. unfold step.
  destruct (passthrough c); [discriminate|]. destruct (is_marker m); [discriminate|].
  destruct (c_regex c) eqn:Er.
  - rewrite find_regex_nobad by (apply Hc; assumption).
    destruct (keep _ _); discriminate.
  - destruct (keep _ _); discriminate.
Qed.

(* C08, stage half: the output is exactly the input filtered by (marker or decide), in input order *)
Lemma stage_filter : forall c bad M ms,
  regs_compile c bad -> stage c bad M ms = Done (List.filter (fwd c M) ms).
Proof.
  intros c bad M ms Hc. induction ms as [|m r IH]; simpl; [reflexivity|].
  rewrite (step_compiled c bad M m Hc). destruct (fwd c M m); rewrite IH; reflexivity.
Qed.

(* outside the domain (a regexp that does not compile): whatever was forwarded before the panic
   is still a prefix of the intended output *)
Lemma stage_prefix : forall c bad M ms,
  exists rest, List.filter (fwd c M) ms = forwarded (stage c bad M ms) ++ rest.
Proof.
  intros c bad M ms. induction ms as [|m r [rest IH]]; simpl; [now exists []|].
  destruct (step c bad M m) eqn:Es.
  - assert (Hn : step c bad M m <> Panic) by congruence.
    rewrite (step_nopanic _ _ _ _ Hn) in Es. destruct (fwd c M m); [|discriminate].
    exists rest. rewrite IH. now destruct (stage c bad M r).
  - assert (Hn : step c bad M m <> Panic) by congruence.
    rewrite (step_nopanic _ _ _ _ Hn) in Es. destruct (fwd c M m); [discriminate|].
    exists rest. exact IH.
  - simpl. eexists. reflexivity.
Qed.

(* markers always pass (when nothing panics) and every forwarded message is an input message *)
Lemma stage_markers c bad M ms m :
  regs_compile c bad -> In m ms -> is_marker m = true -> In m (forwarded (stage c bad M ms)).
Proof.
  intros Hc Hin Hm. rewrite stage_filter by assumption. simpl.
  apply filter_In. split; [assumption|]. unfold fwd. now rewrite Hm.
Qed.

(* ---------- command line -> configuration (against the generated chain) ---------- *)

(* The statements.  [C08_cli_statement] is the property as given; [C08_cli_exclusive_statement]
   is the documented mutual exclusion of the four flags. *)
Definition cli_ok_for (kind : fkind) : Prop :=
  forall lst, lst <> [] -> forall c, cli_cfg (flags_of kind lst) = Some c ->
  forall M rel, decide c M rel = true <-> permitted kind lst M rel.

Definition C08_cli_statement : Prop := forall kind, cli_ok_for kind.

Definition C08_cli_exclusive_statement : Prop :=
  forall f, 2 <= flags_given f -> cli_cfg f = None.

(* If the chain hands the filter the configuration each kind needs, the statement follows.
   This is the whole proof of the full theorem once main.go is repaired: the premise is then
   closed by  [destruct kind; reflexivity]  against the regenerated GenCli.v. *)
Lemma cli_ok_from_cfg kind :
  (forall x l, cli_cfg (flags_of kind (x :: l)) = Some (cfg_of kind (x :: l))) -> cli_ok_for kind.
Proof.
  intros Hcfg lst Hne c Hc M rel. destruct lst as [|x l]; [congruence|].
  rewrite Hcfg in Hc. inversion Hc; subst c. apply decide_permitted.
Qed.

(* today's chain: plain whitelist and blacklist arrive intact *)
Lemma cli_cfg_wl x l : cli_cfg (flags_of WL (x :: l)) = Some (cfg_of WL (x :: l)).
Proof. reflexivity. Qed.
Lemma cli_cfg_bl x l : cli_cfg (flags_of BL (x :: l)) = Some (cfg_of BL (x :: l)).
Proof. reflexivity. Qed.
Lemma cli_cfg_none lst : cli_cfg (flags_of NoFilter lst) = Some (cfg_of NoFilter lst).
Proof. reflexivity. Qed.

Lemma cli_partial : forall kind, kind = WL \/ kind = BL \/ kind = NoFilter -> cli_ok_for kind.
Proof.
  intros kind [-> | [-> | ->]].
  - apply cli_ok_from_cfg, cli_cfg_wl.
  - apply cli_ok_from_cfg, cli_cfg_bl.
  - intros lst _ c Hc M rel. rewrite cli_cfg_none in Hc. inversion Hc; subst c. apply (decide_permitted NoFilter lst).
Qed.

(* no filter flag at all: everything is forwarded *)
Lemma cli_nofilter_all : forall c M rel, cli_cfg ([], [], [], []) = Some c -> decide c M rel = true.
Proof. intros c M rel H. inversion H; subst c. reflexivity. Qed.

(* finding F4 (the two regex flags never reached tablelist; the exclusivity test was a
   conjunction) was repaired in /repo commit 1362dd8; the lemmas that described the old chain were
   removed with it.  The full statements are proved in props/C08.v. *)
