(* LedgerProofs.v — lemmas about model/Ledger.v. *)
From Bifrost.model Require Import Base Ledger.

(* ---------- generic association-list facts ---------- *)
Section AssocFacts.
  Context {V : Type}.
  Lemma aget_in (k : string) (m : list (string * V)) v : aget k m = Some v -> In (k, v) m.
  Proof.
    induction m as [|[k' v'] m IH]; simpl; [discriminate|].
    destruct (String.eqb_spec k k') as [->|Hne]; intros H.
    - inversion H; subst; now left.
    - right; auto.
  Qed.
  Lemma in_adel (k : string) (m : list (string * V)) p : In p (adel k m) -> In p m.
  Proof.
    induction m as [|[k' v'] m IH]; simpl; auto.
    destruct (String.eqb k k'); simpl; intuition.
  Qed.
  Lemma in_aset (k : string) (v : V) (m : list (string * V)) p :
    In p (aset k v m) -> In p m \/ p = (k, v).
  Proof.
    induction m as [|[k' v'] m IH]; simpl.
    - intros [<-|[]]; auto.
    - destruct (String.eqb_spec k k') as [->|Hne]; simpl; intros [H|H]; auto.
      destruct (IH H); auto.
  Qed.
End AssocFacts.

(* ---------- histories ---------- *)
Definition certified (k : string) (h : list lop) : Z :=
  sum_Z (map (fun o => match o with OWritten _ k' n => if String.eqb k k' then n else 0%Z | _ => 0%Z end) h).

Lemma certified_app k h1 h2 : certified k (h1 ++ h2) = (certified k h1 + certified k h2)%Z.
Proof.
  unfold certified. rewrite map_app. induction (map _ h1) as [|x xs IH]; simpl; [reflexivity|].
  unfold sum_Z in *. simpl. rewrite IH. lia.
Qed.

Definition nonneg_counts (h : list lop) : Prop :=
  forall t k n, In (OWritten t k n) h -> (0 <= n)%Z.

Lemma certified_nonneg k h : nonneg_counts h -> (0 <= certified k h)%Z.
Proof.
  unfold certified. induction h as [|o h IH]; intros Hn; simpl; [lia|].
  assert (Hh : nonneg_counts h) by (intros t k' n Hin; apply (Hn t k' n); now right).
  specialize (IH Hh). unfold sum_Z in *. simpl.
  destruct o as [t k' n c|t k' n|]; try lia.
  destruct (String.eqb k k'); try lia.
  specialize (Hn t k' n (or_introl eq_refl)). lia.
Qed.

(* states reachable without a tracker error, together with the history that led there *)
Inductive Reach : list lop -> ledger -> Prop :=
| Reach0 : Reach [] empty_ledger
| ReachS : forall h l o l' x, Reach h l -> lstep l o = (l', x) -> x <> RError -> Reach (h ++ [o]) l'.

Lemma lrun_reach_gen : forall ops h l l' rs,
  Reach h l -> lrun l ops = (l', rs) -> ~ In RError rs -> Reach (h ++ ops) l'.
Proof.
  induction ops as [|o ops IH]; intros h l l' rs HR Hrun Hne; simpl in Hrun.
  - inversion Hrun; subst. now rewrite app_nil_r.
  - destruct (lstep l o) as [l1 x] eqn:Hs.
    destruct x.
    + destruct (lrun l1 ops) as [l2 xs] eqn:Hr. inversion Hrun; subst.
      replace (h ++ o :: ops) with ((h ++ [o]) ++ ops) by (now rewrite <- app_assoc).
      eapply IH; eauto. * eapply ReachS; eauto. discriminate. * intros Hin; apply Hne; now right.
    + destruct (lrun l1 ops) as [l2 xs] eqn:Hr. inversion Hrun; subst.
      replace (h ++ o :: ops) with ((h ++ [o]) ++ ops) by (now rewrite <- app_assoc).
      eapply IH; eauto. * eapply ReachS; eauto. discriminate. * intros Hin; apply Hne; now right.
    + inversion Hrun; subst. exfalso; apply Hne; now left.
Qed.

Lemma lrun_reach : forall ops l rs,
  lrun empty_ledger ops = (l, rs) -> ~ In RError rs -> Reach ops l.
Proof. intros. change ops with ([] ++ ops). eapply lrun_reach_gen; eauto. constructor. Qed.

(* ---------- invariant 1: counts never exceed what was reported; commits come from Seen ---------- *)
Definition entry_ok (h : list lop) (p : string * entry) : Prop :=
  let (k, e) := p in
  e_key e = k /\ (0 <= e_count e <= certified k h)%Z /\
  (e_commit e <> 0%N -> exists t, In (OSeen t k (e_total e) (e_commit e)) h).

Definition Inv1 (h : list lop) (l : ledger) : Prop := Forall (entry_ok h) (items l).

Lemma nonneg_last h o : nonneg_counts (h ++ [o]) -> nonneg_counts [o].
Proof. intros Hn t k n Hin. apply (Hn t k n). apply in_or_app; now right. Qed.

Lemma entry_ok_mono h o p : nonneg_counts (h ++ [o]) -> entry_ok h p -> entry_ok (h ++ [o]) p.
Proof.
  destruct p as [k e]. unfold entry_ok. intros Hn (Hk & Hc & Hs). split; [assumption|]. split.
  - rewrite certified_app.
    pose proof (certified_nonneg k [o] (nonneg_last _ _ Hn)). lia.
  - intros H. destruct (Hs H) as [t Ht]. exists t. apply in_or_app; left; auto.
Qed.

Lemma Forall_adel {V} (P : string * V -> Prop) k m : Forall P m -> Forall P (adel k m).
Proof.
  induction 1 as [|[k' v] m Hp Hm IH]; simpl; [constructor|].
  destruct (String.eqb k k'); auto.
Qed.

Lemma Forall_aset {V} (P : string * V -> Prop) k v m :
  Forall P m -> P (k, v) -> Forall P (aset k v m).
Proof.
  intros Hm Hp. induction Hm as [|[k' v'] m Hp' Hm IH]; simpl.
  - constructor; auto.
  - destruct (String.eqb_spec k k') as [->|Hne]; constructor; auto.
Qed.

Lemma Inv1_supersede h l t k : Inv1 h l -> Inv1 h (supersede t k l).
Proof.
  unfold Inv1, supersede. intros H. destruct (aget t (idx l)) as [v|]; [|assumption].
  destruct (String.eqb v k); [assumption|]. simpl. now apply Forall_adel.
Qed.

Lemma Inv1_remove h l e : Inv1 h l -> Inv1 h (remove_entry l e).
Proof.
  unfold Inv1, remove_entry. intros H. destruct (aget (e_key e) (items l)); [|assumption].
  simpl. now apply Forall_adel.
Qed.

Lemma Inv1_fold_remove h p : forall l, Inv1 h l -> Inv1 h (fold_left remove_entry p l).
Proof. induction p as [|e p IH]; simpl; intros l H; [assumption|]. apply IH. now apply Inv1_remove. Qed.

Lemma Inv1_step h l o l' x :
  nonneg_counts (h ++ [o]) -> Inv1 h l -> lstep l o = (l', x) -> Inv1 (h ++ [o]) l'.
Proof.
  intros Hn HI Hs.
  assert (Hmono : forall m, Forall (entry_ok h) m -> Forall (entry_ok (h ++ [o])) m).
  { intros m Hm. eapply Forall_impl; [|exact Hm]. intros p; now apply entry_ok_mono. }
  destruct o as [t k n c|t k n|]; simpl in Hs.
  - (* Seen *)
    unfold update_seen in Hs.
    pose proof (Inv1_supersede h l t k HI) as HI'.
    set (l1 := supersede t k l) in *.
    destruct (aget k (items l1)) as [e|] eqn:Hg.
    + destruct (e_commit e =? 0)%N eqn:Hc0; inversion Hs; subst; [|now apply Hmono].
      unfold Inv1; simpl. apply Forall_aset; [now apply Hmono|].
      pose proof (aget_in _ _ _ Hg) as Hin.
      unfold Inv1 in HI'. rewrite Forall_forall in HI'. specialize (HI' _ Hin).
      apply (entry_ok_mono h (OSeen t k n c)) in HI'; [|assumption].
      destruct HI' as (Hk & Hcnt & _). simpl. split; [assumption|]. split; [assumption|].
      intros _. exists t. apply in_or_app; right. now left.
    + inversion Hs; subst. unfold Inv1; simpl. apply Forall_app; split; [now apply Hmono|].
      constructor; [|constructor]. simpl. split; [reflexivity|]. split.
      * split; [lia|]. apply certified_nonneg. assumption.
      * intros _. exists t. apply in_or_app; right; now left.
  - (* Written *)
    inversion Hs; subst; clear Hs. unfold update_written.
    pose proof (Inv1_supersede h l t k HI) as HI'.
    set (l1 := supersede t k l) in *.
    assert (Hn0 : (0 <= n)%Z) by (apply (Hn t k n); apply in_or_app; right; now left).
    assert (Hck : certified k [OWritten t k n] = n).
    { unfold certified; simpl. rewrite String.eqb_refl. unfold sum_Z; simpl. lia. }
    destruct (aget k (items l1)) as [e|] eqn:Hg; unfold Inv1; simpl.
    + apply Forall_aset; [now apply Hmono|].
      pose proof (aget_in _ _ _ Hg) as Hin.
      unfold Inv1 in HI'. rewrite Forall_forall in HI'. specialize (HI' _ Hin).
      destruct HI' as (Hk & Hcnt & Hsn). simpl. split; [assumption|]. split.
      * rewrite certified_app, Hck. lia.
      * intros Hc. destruct (Hsn Hc) as [t' Ht']. exists t'. apply in_or_app; now left.
    + apply Forall_app; split; [now apply Hmono|].
      constructor; [|constructor]. simpl. split; [reflexivity|]. split.
      * rewrite certified_app, Hck. pose proof (certified_nonneg k h).
        assert (nonneg_counts h) by (intros t' k' n' Hin; apply (Hn t' k' n'); apply in_or_app; now left).
        intuition lia.
      * intros Hc; now elim Hc.
  - (* Emit *)
    unfold emit in Hs. destruct (rel_prefix (items l)) as [|e p] eqn:Hp.
    + inversion Hs; subst. now apply Hmono.
    + inversion Hs; subst. apply (Inv1_fold_remove (h ++ [OEmit]) (e :: p)). now apply Hmono.
Qed.

Lemma Inv1_reach h l : nonneg_counts h -> Reach h l -> Inv1 h l.
Proof.
  intros Hn HR. induction HR as [|h l o l' x HR IH Hs Hx].
  - constructor.
  - eapply Inv1_step; eauto. apply IH. intros t k n Hin. apply (Hn t k n). apply in_or_app; now left.
Qed.

(* the released prefix consists of entries of the ledger *)
Lemma rel_prefix_in its e : In e (rel_prefix its) -> In (e_key e, e) its \/ exists k, In (k, e) its.
Proof.
  induction its as [|[k e'] its IH]; simpl; [tauto|].
  destruct (releasable e') eqn:Hr; simpl; [|tauto].
  intros [<-|H]; [right; exists k; now left|].
  destruct (IH H) as [H1|[k' H1]]; [left; now right|right; exists k'; now right].
Qed.

Lemma rel_prefix_releasable its e : In e (rel_prefix its) -> releasable e = true.
Proof.
  induction its as [|[k e'] its IH]; simpl; [tauto|].
  destruct (releasable e') eqn:Hr; simpl; [|tauto]. intros [<-|H]; auto.
Qed.

(* Layer theorem L1 (all histories, any completion order, stale or not): whatever is released
   at an emission was announced by a Seen carrying exactly that commit position and total,
   and at least that many messages of that very delivery key have been reported written. *)
Lemma ledger_released_complete : forall h l e,
  nonneg_counts h -> Reach h l -> In e (rel_prefix (items l)) ->
  e_commit e <> 0%N /\
  (exists t, In (OSeen t (e_key e) (e_total e) (e_commit e)) h) /\
  (e_total e <= certified (e_key e) h)%Z.
Proof.
  intros h l e Hn HR Hin.
  pose proof (Inv1_reach h l Hn HR) as HI. unfold Inv1 in HI. rewrite Forall_forall in HI.
  pose proof (rel_prefix_releasable _ _ Hin) as Hrel.
  unfold releasable in Hrel. apply andb_true_iff in Hrel. destruct Hrel as [Hc Ht].
  apply negb_true_iff, N.eqb_neq in Hc. apply Z.eqb_eq in Ht.
  assert (Hex : exists k, In (k, e) (items l)).
  { destruct (rel_prefix_in _ _ Hin) as [H|H]; eauto. }
  destruct Hex as [k Hk]. specialize (HI _ Hk). destruct HI as (Hkey & Hcnt & Hs). subst k.
  split; [assumption|]. split; [auto|]. lia.
Qed.

(* the value emitted is the commit of the last released entry *)
Lemma last_in {A} (l : list A) d : l <> [] -> In (last l d) l.
Proof.
  induction l as [|a l IH]; [congruence|]. intros _. destruct l as [|b l]; [now left|].
  right. apply IH. discriminate.
Qed.

Lemma emit_value l f l' : emit l = (Some f, l') ->
  exists e, In e (rel_prefix (items l)) /\ f = e_commit e.
Proof.
  unfold emit. destruct (rel_prefix (items l)) as [|e p] eqn:Hp; [discriminate|].
  intros H. injection H as Hf _. subst f.
  exists (last (e :: p) (mkEntry "" "" 0 0 0)). split; [|reflexivity]. apply last_in. discriminate.
Qed.

Lemma emit_none l l' : emit l = (None, l') -> l' = l.
Proof. unfold emit. destruct (rel_prefix (items l)); intros H; inversion H; auto. Qed.

(* L1 as a statement about runs: every position of every run at which a value is emitted *)
Theorem ledger_emission_sound : forall ops1 ops2 l rs f,
  nonneg_counts (ops1 ++ OEmit :: ops2) ->
  lrun empty_ledger ops1 = (l, rs) -> ~ In RError rs ->
  fst (emit l) = Some f ->
  f <> 0%N /\
  exists t k n, In (OSeen t k n f) ops1 /\ (n <= certified k ops1)%Z.
Proof.
  intros ops1 ops2 l rs f Hn Hrun Hne Hem.
  assert (Hn1 : nonneg_counts ops1) by (intros t k n Hin; apply (Hn t k n); apply in_or_app; now left).
  pose proof (lrun_reach _ _ _ Hrun Hne) as HR.
  destruct (emit l) as [o l'] eqn:He. simpl in Hem. subst o.
  destruct (emit_value _ _ _ He) as (e & Hin & ->).
  destruct (ledger_released_complete _ _ _ Hn1 HR Hin) as (Hc & (t & Ht) & Hle).
  split; [assumption|]. exists t, (e_key e), (e_total e). auto.
Qed.

(* ---------- finding F1, wedge half ---------- *)
Lemma lrun_app l ops1 ops2 :
  ~ In RError (snd (lrun l ops1)) ->
  lrun l (ops1 ++ ops2) =
  (fst (lrun (fst (lrun l ops1)) ops2), snd (lrun l ops1) ++ snd (lrun (fst (lrun l ops1)) ops2)).
Proof.
  revert l. induction ops1 as [|o ops1 IH]; intros l Hne; simpl.
  - now destruct (lrun l ops2).
  - destruct (lstep l o) as [l1 x] eqn:Hs. simpl in Hne. rewrite Hs in Hne.
    destruct x.
    + destruct (lrun l1 ops1) as [l2 xs] eqn:Hr. simpl in *.
      rewrite IH by (rewrite Hr; simpl; intros H; apply Hne; now right). rewrite Hr. reflexivity.
    + destruct (lrun l1 ops1) as [l2 xs] eqn:Hr. simpl in *.
      rewrite IH by (rewrite Hr; simpl; intros H; apply Hne; now right). rewrite Hr. reflexivity.
    + exfalso. apply Hne. now left.
Qed.

Definition f1_complete_ops : list lop :=
  [ OWritten "701" "701-1" 1; OSeen "701" "701-2" 3 100; OSeen "702" "702-3" 1 200;
    OWritten "702" "702-3" 1; OWritten "701" "701-1" 1; OEmit; OWritten "701" "701-2" 3 ].

Definition f1_stuck : ledger := fst (lrun empty_ledger f1_complete_ops).

Lemma f1_stuck_emits_nothing n : lrun f1_stuck (repeat OEmit n) = (f1_stuck, repeat RNone n).
Proof.
  induction n as [|n IH]; [reflexivity|].
  change (repeat OEmit (S n)) with (OEmit :: repeat OEmit n).
  cbn [lrun]. replace (lstep f1_stuck OEmit) with (f1_stuck, RNone) by (vm_compute; reflexivity).
  rewrite IH. reflexivity.
Qed.

Lemma f1_wedges_forever : forall n,
  let l := fst (lrun empty_ledger (f1_complete_ops ++ repeat OEmit n)) in
  items l <> [] /\ ~ In (REmit 100) (snd (lrun empty_ledger (f1_complete_ops ++ repeat OEmit n))).
Proof.
  intros n. cbv zeta.
  rewrite lrun_app by (vm_compute; intuition discriminate).
  fold f1_stuck. rewrite f1_stuck_emits_nothing. simpl fst. simpl snd. split.
  - vm_compute. discriminate.
  - intros H. repeat (destruct H as [H|H]; [discriminate|]).
    apply repeat_spec in H. discriminate.
Qed.
