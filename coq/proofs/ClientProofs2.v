(* ClientProofs2.v — structure of one loop iteration of model/Client.v and the lemmas behind
   props/C03.v, props/C07.v, props/C18.v.  Continues ClientProofs.v. *)
From Bifrost.model Require Import Base Client.
From Bifrost.proofs Require Import ClientProofs PartitionProofs.
From Coq Require Import Sorted.

(* ================================================================================== *)
(* 1. One handleProgress call, exactly                                                 *)
(* ================================================================================== *)
Definition hp_val (s : cstate) (vs : list N) : N := fst (absorb (overall s) vs).
Definition hp_upd (s : cstate) (vs : list N) : bool := snd (absorb (overall s) vs).

Lemma hp_closed s force vs : handle_progress s force vs true = None.
Proof. unfold handle_progress. destruct (absorb (overall s) vs). reflexivity. Qed.

Lemma hp_shape s force vs : handle_progress s force vs false =
  Some (if hp_upd s vs || force
        then (set_conn (set_overall s (hp_val s vs)) true,
              [CGetStart (highest s) (negb (conn_open s)); CSend (hp_val s vs)])
        else (set_overall s (hp_val s vs), [])).
Proof.
  unfold handle_progress, hp_val, hp_upd. destruct (absorb (overall s) vs) as [c u]. simpl.
  destruct (u || force); reflexivity.
Qed.

Lemma hp_val_ge s vs : (overall s <= hp_val s vs)%N.
Proof. apply absorb_ge. Qed.

Lemma hp_val_source s vs : hp_val s vs = overall s \/ In (hp_val s vs) vs.
Proof. apply absorb_source. Qed.

(* ================================================================================== *)
(* 1b. The blocked-output loop (WriteLoop of handleXLogData), exactly                   *)
(* ================================================================================== *)
(* state and observations after the ticks served while the output channel is full; a tick that
   finds the progress channel closed ends the loop (and the client: [blocked_closed]) *)
Fixpoint bt_state (s : cstate) (bl : list (list N * bool)) : cstate :=
  match bl with
  | [] => s
  | (vs, closed) :: r =>
      if closed then s else bt_state (set_conn (set_overall s (hp_val s vs)) true) r
  end.

(* [h] = highestWalStart, [conn] = the manager holds a live connection, [cur] = overallProgress
   when the loop is entered: per tick one connection request and one status update carrying the
   position after absorbing the values waiting at that tick *)
Fixpoint blocked_obs (h : N) (conn : bool) (cur : N) (bl : list (list N * bool)) : list cobs :=
  match bl with
  | [] => []
  | (vs, closed) :: r =>
      if closed then [] else
      CGetStart h (negb conn) :: CSend (fst (absorb cur vs)) :: blocked_obs h true (fst (absorb cur vs)) r
  end.

(* overallProgress after the loop *)
Fixpoint blocked_val (cur : N) (bl : list (list N * bool)) : N :=
  match bl with
  | [] => cur
  | (vs, closed) :: r => if closed then cur else blocked_val (fst (absorb cur vs)) r
  end.

Definition bt_obs (s : cstate) (bl : list (list N * bool)) : list cobs :=
  blocked_obs (highest s) (conn_open s) (overall s) bl.

Lemma blocked_ticks_eq bl : forall s,
  blocked_ticks s bl = (bt_state s bl, bt_obs s bl, blocked_closed bl).
Proof.
  induction bl as [|[vs closed] bl IH]; intros s; [reflexivity|].
  unfold bt_obs. cbn [blocked_ticks bt_state blocked_obs blocked_closed existsb snd].
  destruct closed; [rewrite hp_closed; reflexivity|].
  rewrite hp_shape, orb_true_r, IH. reflexivity.
Qed.

Lemma bt_overall bl : forall s, overall (bt_state s bl) = blocked_val (overall s) bl.
Proof.
  induction bl as [|[vs closed] bl IH]; intros s; [reflexivity|].
  cbn [bt_state blocked_val]. destruct closed; [reflexivity|]. rewrite IH. reflexivity.
Qed.

Definition gs_or_send (x : cobs) : bool :=
  match x with CGetStart _ _ | CSend _ => true | _ => false end.

Lemma bt_state_frame s bl :
  highest (bt_state s bl) = highest s /\ ctxn (bt_state s bl) = ctxn s /\ ckey (bt_state s bl) = ckey s /\
  begins (bt_state s bl) = begins s /\ saw_commit (bt_state s bl) = saw_commit s /\
  first_iter (bt_state s bl) = first_iter s /\ stopped (bt_state s bl) = stopped s /\
  hb_count (bt_state s bl) = hb_count s /\ hb_slow (bt_state s bl) = hb_slow s /\
  (conn_open s = true -> conn_open (bt_state s bl) = true).
Proof.
  destruct (bt_frame bl s _ _ _ (blocked_ticks_eq bl s)) as (F1 & F2 & F3 & F4 & F5 & F6 & F7 & F8 & F9 & F10 & _).
  repeat split; assumption.
Qed.

Lemma bt_highest s bl : highest (bt_state s bl) = highest s.
Proof. apply bt_state_frame. Qed.
Lemma bt_ctxn s bl : ctxn (bt_state s bl) = ctxn s.
Proof. apply bt_state_frame. Qed.
Lemma bt_ckey s bl : ckey (bt_state s bl) = ckey s.
Proof. apply bt_state_frame. Qed.
Lemma bt_begins s bl : begins (bt_state s bl) = begins s.
Proof. apply bt_state_frame. Qed.
Lemma bt_saw_commit s bl : saw_commit (bt_state s bl) = saw_commit s.
Proof. apply bt_state_frame. Qed.
Lemma bt_first_iter s bl : first_iter (bt_state s bl) = first_iter s.
Proof. apply bt_state_frame. Qed.
Lemma bt_stopped s bl : stopped (bt_state s bl) = stopped s.
Proof. apply bt_state_frame. Qed.
Lemma bt_hb_count s bl : hb_count (bt_state s bl) = hb_count s.
Proof. apply bt_state_frame. Qed.
Lemma bt_hb_slow s bl : hb_slow (bt_state s bl) = hb_slow s.
Proof. apply bt_state_frame. Qed.
Lemma bt_conn_open s bl : conn_open s = true -> conn_open (bt_state s bl) = true.
Proof. apply bt_state_frame. Qed.

Lemma bt_overall_ge s bl : (overall s <= overall (bt_state s bl))%N.
Proof. apply (bt_acks bl s _ _ _ (blocked_ticks_eq bl s)). Qed.

(* the loop emits connection requests (never a fresh one when the connection is open) and status
   updates only *)
Lemma bt_obs_kind s bl x : In x (bt_obs s bl) -> gs_or_send x = true.
Proof.
  intros I. destruct (bt_frame bl s _ _ _ (blocked_ticks_eq bl s)) as (_ & _ & _ & _ & _ & _ & _ & _ & _ & _ & _ & K).
  destruct (K x I) as [(f & -> & _)|(v & ->)]; reflexivity.
Qed.

Lemma bt_obs_getstart s bl l f : In (CGetStart l f) (bt_obs s bl) ->
  l = highest s /\ (f = true -> conn_open s = false) /\ bl <> [].
Proof.
  intros I. assert (Ne : bl <> []) by (intros ->; exact I). destruct (bt_frame bl s _ _ _ (blocked_ticks_eq bl s)) as (_ & _ & _ & _ & _ & _ & _ & _ & _ & _ & _ & K).
  destruct (K _ I) as [(f' & E & Ff)|(v & E)]; inversion E; subst; auto.
Qed.

Lemma blocked_obs_count bl : forall h conn cur, blocked_closed bl = false ->
  List.length (acks (blocked_obs h conn cur bl)) = List.length bl.
Proof.
  induction bl as [|[vs closed] bl IH]; intros h conn cur C; [reflexivity|].
  cbn [blocked_closed existsb snd] in C. apply orb_false_elim in C. destruct C as [-> C].
  cbn [blocked_obs acks flat_map app List.length]. f_equal. apply IH. exact C.
Qed.

Lemma bt_obs_source s bl a : In a (acks (bt_obs s bl)) -> a = overall s \/ In a (blocked_values bl).
Proof.
  intros I.
  destruct (bt_source (fun v => v = overall s \/ In v (blocked_values bl)) bl s _ _ _ (blocked_ticks_eq bl s)) as [_ F];
    [now left|intros v Hv; now right|].
  rewrite Forall_forall in F. apply F. exact I.
Qed.

(* one status update per tick *)
Lemma bt_obs_count bl : forall s, blocked_closed bl = false ->
  List.length (acks (bt_obs s bl)) = List.length bl.
Proof.
  induction bl as [|[vs closed] bl IH]; intros s C; [reflexivity|].
  cbn [blocked_closed existsb snd] in C. apply orb_false_elim in C. destruct C as [-> C].
  unfold bt_obs in *. cbn [blocked_obs acks flat_map app List.length]. f_equal.
  apply (IH (set_conn (set_overall s (fst (absorb (overall s) vs))) true)). exact C.
Qed.

(* decomposition of a membership hypothesis over the observation lists built here *)
Ltac in_split_k H k :=
  lazymatch type of H with
  | In _ (_ ++ _) => apply in_app_or in H; destruct H as [H|H]; in_split_k H k
  | In _ (_ :: _) => destruct H as [H|H]; [|in_split_k H k]
  | In _ [] => destruct H
  | In _ (bt_obs _ _) => k H
  | _ => idtac
  end.
Ltac in_split H := in_split_k H ltac:(fun H => apply bt_obs_kind in H).

(* ================================================================================== *)
(* 2. One loop iteration, factored: head (ticker, handleProgress, GetConn, Receive)     *)
(*    then the handling of the received event                                          *)
(* ================================================================================== *)
Definition head_state (s : cstate) (it : citer) : cstate :=
  set_conn (set_overall s (hp_val s (i_prog it))) true.

Definition head_sends (s : cstate) (it : citer) : bool := hp_upd s (i_prog it) || i_tick it.

Definition head_out (s : cstate) (it : citer) : list cobs :=
  (if head_sends s it
   then [CGetStart (highest s) (negb (conn_open s)); CSend (hp_val s (i_prog it)); CGetStart (highest s) false]
   else [CGetStart (highest s) (negb (conn_open s))]) ++ [CRecv].

(* the second handleProgress(true) of an iteration (timeout, keepalive with reply) when the
   channel is open *)
Definition prog2 (s2 : cstate) (it : citer) : cstate * list cobs :=
  (set_conn (set_overall s2 (hp_val s2 (i_prog2 it))) true,
   [CGetStart (highest s2) (negb (conn_open s2)); CSend (hp_val s2 (i_prog2 it))]).

(* the state in which the received event is handled: the head state, except that a connection
   that died at this message boundary reports closed *)
Definition recv_state (s : cstate) (it : citer) : cstate :=
  if i_dies it then set_conn (head_state s it) false else head_state s it.

Definition ev_step (s2 : cstate) (it : citer) : cstate * list cobs :=
  match i_ev it with
  | ETimeout => if i_pclosed2 it then fatal s2 [] else prog2 s2 it
  | EClosedErr => (set_conn s2 false, [])
  | EOtherErr => if i_dies it then (s2, []) else fatal s2 []
  | EUnexpected | EKeepaliveBad => fatal s2 []
  | ENil | ECopyOther | EParam => (s2, [])
  | EErrorResponse x => recover s2 x
  | EErrorResponseFail idf => let '(s3, o3) := recover_fail s2 idf in fatal s3 o3
  | EKeepalive _ false _ => (s2, [])
  | EKeepalive _ true slow =>
      if i_pclosed2 it then fatal s2 [] else
      let '(s3, o3) := prog2 s2 it in
      let '(s4, f) := heartbeat s3 slow in
      if f then fatal s4 o3 else (s4, o3)
  | EXLog wal k =>
      let '(s3, o3, f) := handle_xlog s2 wal k (i_blocked it) in
      if f then fatal s3 o3 else (s3, o3)
  end.

Lemma cstep_eq s it : cstep s it =
  if stopped s then (s, []) else
  if i_pclosed it then (stop s, [CClose; CStop]) else
  let '(s3, o3) := ev_step (recv_state s it) it in (s3, head_out s it ++ o3).
Proof.
  unfold cstep. destruct (stopped s); [reflexivity|].
  destruct (i_pclosed it); [rewrite hp_closed; reflexivity|].
  rewrite hp_shape. unfold head_out, head_sends, ev_step, recv_state, head_state, prog2.
  destruct (hp_upd s (i_prog it) || i_tick it); unfold get_start; destruct (i_dies it);
    (destruct (i_ev it) as [w k| w [|] sl | | | | | | x | | | | idf]; try reflexivity;
     [ destruct k; unfold handle_xlog, write_loop, fatal; simpl; try reflexivity;
       try (destruct (saw_commit s), (first_iter s); simpl; try reflexivity);
       rewrite ?blocked_ticks_eq; cbv beta iota;
       try match goal with |- context [blocked_closed ?b] => destruct (blocked_closed b) end;
       simpl; rewrite <- ?app_assoc; reflexivity
     | destruct (i_pclosed2 it); [rewrite hp_closed; reflexivity|];
       rewrite hp_shape, orb_true_r; unfold heartbeat, fatal; simpl;
       destruct (negb (hb_slow s || sl) && (5 <? hb_count s + 1)%N);
         [|destruct (5 <? hb_count s + 1)%N]; simpl; rewrite <- ?app_assoc; reflexivity
     | destruct (i_pclosed2 it); [rewrite hp_closed; reflexivity|];
       rewrite hp_shape, orb_true_r; reflexivity ]).
Qed.

(* ---------- the head of an iteration ---------- *)
Lemma head_state_fields s it :
  overall (head_state s it) = hp_val s (i_prog it) /\ highest (head_state s it) = highest s /\
  ctxn (head_state s it) = ctxn s /\ ckey (head_state s it) = ckey s /\
  saw_commit (head_state s it) = saw_commit s /\ first_iter (head_state s it) = first_iter s /\
  conn_open (head_state s it) = true /\ hb_count (head_state s it) = hb_count s /\
  hb_slow (head_state s it) = hb_slow s /\ begins (head_state s it) = begins s /\
  stopped (head_state s it) = stopped s.
Proof. unfold head_state. simpl. repeat split. Qed.

Lemma recv_state_fields s it :
  overall (recv_state s it) = hp_val s (i_prog it) /\ highest (recv_state s it) = highest s /\
  ctxn (recv_state s it) = ctxn s /\ ckey (recv_state s it) = ckey s /\
  saw_commit (recv_state s it) = saw_commit s /\ first_iter (recv_state s it) = first_iter s /\
  conn_open (recv_state s it) = negb (i_dies it) /\ hb_count (recv_state s it) = hb_count s /\
  hb_slow (recv_state s it) = hb_slow s /\ begins (recv_state s it) = begins s /\
  stopped (recv_state s it) = stopped s.
Proof. unfold recv_state. destruct (i_dies it); simpl; repeat split. Qed.

Lemma recv_highest s it : highest (recv_state s it) = highest s.
Proof. apply recv_state_fields. Qed.
Lemma recv_conn_open s it : conn_open (recv_state s it) = negb (i_dies it).
Proof. apply recv_state_fields. Qed.
Lemma recv_stopped s it : stopped (recv_state s it) = stopped s.
Proof. apply recv_state_fields. Qed.
Lemma recv_overall s it : overall (recv_state s it) = hp_val s (i_prog it).
Proof. apply recv_state_fields. Qed.

Lemma head_out_shape s it : exists pre, head_out s it = pre ++ [CRecv] /\
  (forall x, In x pre -> (exists f, x = CGetStart (highest s) f) \/ x = CSend (hp_val s (i_prog it))) /\
  (forall l, In (CGetStart l true) pre -> conn_open s = false).
Proof.
  unfold head_out. destruct (head_sends s it); eexists; (split; [reflexivity|]); split.
  - intros x [H|[H|[H|[]]]]; subst; eauto.
  - intros l [H|[H|[H|[]]]]; inversion H. now destruct (conn_open s).
  - intros x [H|[]]; subst; eauto.
  - intros l [H|[]]; inversion H. now destruct (conn_open s).
Qed.

(* ---------- stopping is final; an iteration that leaves the client running consumed its event ---------- *)
Lemma cstep_stopped s it : stopped s = true -> cstep s it = (s, []).
Proof. intros H. rewrite cstep_eq, H. reflexivity. Qed.

Lemma citers_stopped its : forall s, stopped s = true -> citers s its = (s, []).
Proof.
  induction its as [|it its IH]; intros s H; simpl; [reflexivity|].
  rewrite (cstep_stopped _ _ H), (IH _ H). reflexivity.
Qed.

Lemma cstep_pclosed s it : stopped s = false -> i_pclosed it = true -> cstep s it = (stop s, [CClose; CStop]).
Proof. intros H1 H2. rewrite cstep_eq, H1, H2. reflexivity. Qed.

Lemma cstep_consumed s it : stopped s = false -> i_pclosed it = false ->
  cstep s it = (fst (ev_step (recv_state s it) it), head_out s it ++ snd (ev_step (recv_state s it) it)).
Proof. intros H1 H2. rewrite cstep_eq, H1, H2. destruct (ev_step (recv_state s it) it). reflexivity. Qed.

(* case analysis of one iteration: H : cstep s it = (s', o) *)
Ltac step3 H :=
  let Hst := fresh "Hst" in let Hpc := fresh "Hpc" in
  match type of H with cstep ?s ?it = _ =>
    destruct (stopped s) eqn:Hst;
    [ rewrite (cstep_stopped s it Hst) in H
    | destruct (i_pclosed it) eqn:Hpc;
      [ rewrite (cstep_pclosed s it Hst Hpc) in H
      | rewrite (cstep_consumed s it Hst Hpc) in H ] ]
  end; inversion H; subst; clear H.

Lemma cstep_running_after s it s' o :
  cstep s it = (s', o) -> stopped s' = false -> stopped s = false /\ i_pclosed it = false.
Proof. intros H R. step3 H; simpl in R; try congruence. auto. Qed.

(* ================================================================================== *)
(* 3. Prefixes of runs                                                                 *)
(* ================================================================================== *)
Lemma citers_app its1 : forall s its2,
  citers s (its1 ++ its2) =
  (fst (citers (fst (citers s its1)) its2), snd (citers s its1) ++ snd (citers (fst (citers s its1)) its2)).
Proof.
  induction its1 as [|it its1 IH]; intros s its2; simpl.
  - destruct (citers s its2); reflexivity.
  - destruct (cstep s it) as [s1 o1]. rewrite IH.
    destruct (citers s1 its1) as [s2 o2]. simpl.
    destruct (citers s2 its2) as [s3 o3]. simpl. rewrite app_assoc. reflexivity.
Qed.

Lemma crun_fst first its : fst (crun first its) = fst (citers (fst (cstart first)) its).
Proof. unfold crun. destruct (cstart first) as [s0 o0]. simpl. destruct (citers s0 its). reflexivity. Qed.

Lemma crun_snd first its : snd (crun first its) = snd (cstart first) ++ snd (citers (fst (cstart first)) its).
Proof. unfold crun. destruct (cstart first) as [s0 o0]. simpl. destruct (citers s0 its). reflexivity. Qed.

(* the observations of a run extended by further iterations = those of the prefix, followed by
   those of the further iterations started in the state the prefix ended in *)
Lemma crun_app first its1 its2 :
  snd (crun first (its1 ++ its2)) = snd (crun first its1) ++ snd (citers (fst (crun first its1)) its2) /\
  fst (crun first (its1 ++ its2)) = fst (citers (fst (crun first its1)) its2).
Proof.
  rewrite !crun_snd, !crun_fst, citers_app. simpl. rewrite app_assoc. split; reflexivity.
Qed.

Lemma citers_cons s it its :
  citers s (it :: its) = (fst (citers (fst (cstep s it)) its), snd (cstep s it) ++ snd (citers (fst (cstep s it)) its)).
Proof. simpl. destruct (cstep s it) as [s1 o1]. simpl. destruct (citers s1 its). reflexivity. Qed.

(* iteration k of a run: its outputs sit between those of the first k iterations and the rest *)
Lemma crun_split first its1 it its2 :
  snd (crun first (its1 ++ it :: its2)) =
  snd (crun first its1) ++ snd (cstep (fst (crun first its1)) it) ++
  snd (citers (fst (cstep (fst (crun first its1)) it)) its2).
Proof. destruct (crun_app first its1 (it :: its2)) as [-> _]. rewrite citers_cons. reflexivity. Qed.

Lemma citers_running its : forall s s' o,
  citers s its = (s', o) -> stopped s' = false -> stopped s = false.
Proof.
  induction its as [|it its IH]; intros s s' o; simpl.
  - intros H; inversion H; subst; auto.
  - destruct (cstep s it) as [s1 o1] eqn:H1. destruct (citers s1 its) as [s2 o2] eqn:H2.
    intros H R; inversion H; subst. pose proof (IH _ _ _ H2 R) as R1.
    apply (cstep_running_after _ _ _ _ H1 R1).
Qed.

(* a component of the state whose evolution is a function of the consumed events is, as long as
   the client runs, that function folded over all events received so far *)
Lemma citers_fold {A} (p : cstate -> A) (f : A -> cev -> A) :
  (forall s it, stopped s = false -> i_pclosed it = false ->
                p (fst (cstep s it)) = f (p s) (i_ev it)) ->
  forall its s, stopped (fst (citers s its)) = false ->
                p (fst (citers s its)) = fold_left f (map i_ev its) (p s).
Proof.
  intros Hstep. induction its as [|it its IH]; intros s R; [reflexivity|].
  rewrite citers_cons in R |- *. simpl in R |- *.
  destruct (cstep s it) as [s1 o1] eqn:H1. simpl in *.
  rewrite (IH _ R).
  destruct (citers s1 its) as [s2 o2] eqn:H2. simpl in R.
  pose proof (citers_running _ _ _ _ H2 R) as R1.
  destruct (cstep_running_after _ _ _ _ H1 R1) as [R0 Pc].
  specialize (Hstep s it R0 Pc). rewrite H1 in Hstep. simpl in Hstep. rewrite Hstep. reflexivity.
Qed.

Lemma crun_fold {A} (p : cstate -> A) (f : A -> cev -> A) :
  (forall s it, stopped s = false -> i_pclosed it = false ->
                p (fst (cstep s it)) = f (p s) (i_ev it)) ->
  forall first its, stopped (fst (crun first its)) = false ->
                p (fst (crun first its)) = fold_left f (map i_ev its) (p (fst (cstart first))).
Proof. intros H first its. rewrite crun_fst. apply citers_fold. exact H. Qed.

(* full case analysis of the handling of the received event (goal-directed) *)
Ltac ev_an :=
  unfold ev_step, prog2, fatal, recover, recover_fail, heartbeat, handle_xlog, write_loop;
  match goal with
  | |- context [i_ev ?it] =>
      let Hev := fresh "Hev" in
      destruct (i_ev it) as [w [t|t|op| |]| w [|] sl | | | | | | x | | | | idf] eqn:Hev
  end;
  rewrite ?blocked_ticks_eq; cbv beta iota;
  repeat match goal with |- context [if ?c then _ else _] => destruct c eqn:? end;
  cbn [fst snd app set_conn set_overall stop overall highest ctxn ckey saw_commit first_iter conn_open
       hb_count hb_slow begins stopped negb];
  rewrite ?bt_highest, ?bt_ctxn, ?bt_ckey, ?bt_begins, ?bt_saw_commit, ?bt_first_iter, ?bt_stopped,
          ?bt_hb_count, ?bt_hb_slow;
  cbn [fst snd app set_conn set_overall stop overall highest ctxn ckey saw_commit first_iter conn_open
       hb_count hb_slow begins stopped negb].

(* ================================================================================== *)
(* 4. C03                                                                              *)
(* ================================================================================== *)

(* ---- acknowledged values: only what was delivered before ---- *)
Lemma crun_acks_sourced_prefix first its1 its2 :
  acks (snd (crun first (its1 ++ its2))) =
    acks (snd (crun first its1)) ++ acks (snd (citers (fst (crun first its1)) its2)) /\
  forall a, In a (acks (snd (crun first its1))) ->
    a = start_pos first \/ a = 0%N \/ In a (flat_map iter_values its1).
Proof.
  split.
  - destruct (crun_app first its1 its2) as [-> _]. apply acks_app.
  - intros a. apply crun_acks_sourced.
Qed.

Lemma ev_out_no_recv s2 it : ~ In CRecv (snd (ev_step s2 it)).
Proof. ev_an; intros H; in_split H; discriminate H. Qed.

Lemma head_out_one_recv s it : exists pre, head_out s it = pre ++ [CRecv] /\ ~ In CRecv pre.
Proof.
  unfold head_out. destruct (head_sends s it); eexists; (split; [reflexivity|]);
  intros H; repeat (destruct H as [H|H]; [discriminate H|]); exact H.
Qed.

(* inside one iteration: what is sent before the receive comes from the values waiting at the
   loop head, what is sent after it from those, the values waiting at the second call and the
   values waiting at the ticks served while the output channel is full *)
Lemma cstep_acks_fine s it s' o :
  cstep s it = (s', o) -> stopped s = false -> i_pclosed it = false ->
  exists pre post, o = pre ++ CRecv :: post /\ ~ In CRecv pre /\ ~ In CRecv post /\
    (forall a, In a (acks pre) -> a = overall s \/ In a (i_prog it)) /\
    (forall a, In a (acks post) -> a = overall s \/ In a (i_prog it) \/ In a (i_prog2 it) \/
                                   In a (blocked_values (i_blocked it))).
Proof.
  intros H R Pc. rewrite (cstep_consumed _ _ R Pc) in H. inversion H; subst; clear H.
  exists (removelast (head_out s it)), (snd (ev_step (recv_state s it) it)).
  assert (Hh : head_out s it = removelast (head_out s it) ++ [CRecv]).
  { unfold head_out. rewrite removelast_last. reflexivity. }
  split; [rewrite Hh at 1; rewrite <- app_assoc; reflexivity|].
  split; [|split; [apply ev_out_no_recv|split]].
  - unfold head_out. rewrite removelast_last.
    destruct (head_sends s it); intros H; repeat (destruct H as [H|H]; [discriminate H|]); exact H.
  - unfold head_out. rewrite removelast_last. intros a.
    destruct (head_sends s it); simpl; [|tauto].
    intros [<-|[]]. apply hp_val_source.
  - intros a. pose proof (hp_val_source s (i_prog it)) as S1.
    pose proof (recv_state_fields s it) as (O & _).
    pose proof (hp_val_source (recv_state s it) (i_prog2 it)) as S2. rewrite O in S2.
    revert O S2. generalize (recv_state s it). intros s2 O S2.
    unfold ev_step, prog2.
    revert S2. generalize (hp_val s2 (i_prog2 it)) as c2. intros c2 S2.
    ev_an; rewrite ?acks_app; simpl; try tauto;
    first [ intros [<-|[]]; destruct S2 as [->|?]; tauto
          | intros I; rewrite ?app_nil_r in I; apply bt_obs_source in I;
            cbn [overall] in I; rewrite ?O in I;
            destruct I as [->|I]; [destruct S1 as [->|S1]; tauto|tauto] ].
Qed.

(* ---- the requested restart position ---- *)
Definition hi_ev (h : N) (e : cev) : N :=
  match e with
  | EXLog w (XCommit _) => N.max h w
  | EErrorResponse x => x
  | _ => h
  end.
Definition hi_spec (h : N) (evs : list cev) : N := fold_left hi_ev evs h.

Lemma ev_step_highest s2 it : highest (fst (ev_step s2 it)) = hi_ev (highest s2) (i_ev it).
Proof.
  ev_an; try reflexivity; unfold hi_ev;
  match goal with
  | Hlt : (highest _ <? _)%N = true |- _ => apply N.ltb_lt in Hlt; lia
  | Hge : (highest _ <? _)%N = false |- _ => apply N.ltb_ge in Hge; lia
  end.
Qed.

Lemma cstep_highest s it :
  highest (fst (cstep s it)) = if stopped s || i_pclosed it then highest s else hi_ev (highest s) (i_ev it).
Proof.
  destruct (stopped s) eqn:R; [rewrite cstep_stopped by assumption; reflexivity|].
  destruct (i_pclosed it) eqn:Pc; [rewrite cstep_pclosed by assumption; reflexivity|].
  rewrite cstep_consumed by assumption. simpl. rewrite ev_step_highest, recv_highest. reflexivity.
Qed.

Lemma cstep_highest_cases s it s' o : cstep s it = (s', o) ->
  highest s' = highest s \/
  (exists w t, i_ev it = EXLog w (XCommit t) /\ highest s' = N.max (highest s) w) \/
  (exists x, i_ev it = EErrorResponse x /\ highest s' = x).
Proof.
  intros H. pose proof (cstep_highest s it) as E. rewrite H in E. simpl in E.
  destruct (stopped s || i_pclosed it); [now left|].
  destruct (i_ev it) as [w [t|t|op| |]| w [|] sl | | | | | | x | | | | idf]; simpl in E; eauto 10.
Qed.

(* connection requests made while handling the received event carry highestWalStart as it was at
   the loop head - except those of the blocked-output loop of a COMMIT: handleXLogData has
   advanced highestWalStart to that COMMIT before it enters the WriteLoop *)
Lemma ev_out_getstart s2 it l f : In (CGetStart l f) (snd (ev_step s2 it)) ->
  (l = highest s2 \/
   (exists w t, i_ev it = EXLog w (XCommit t) /\ i_blocked it <> [] /\ l = N.max (highest s2) w)) /\
  (f = true -> conn_open s2 = false).
Proof.
  ev_an; intros H;
  in_split_k H ltac:(fun H => apply bt_obs_getstart in H; cbn [highest conn_open] in H;
                              destruct H as (-> & Hf & Hne));
  try discriminate H;
  try (inversion H; subst; split; [now left|now destruct (conn_open s2)]);
  (split; [|exact Hf]);
  try (now left);
  match goal with
  | Hlt : (highest _ <? _)%N = true |- _ => apply N.ltb_lt in Hlt; right; exists w, t; repeat split; auto; lia
  | Hge : (highest _ <? _)%N = false |- _ => apply N.ltb_ge in Hge; now left
  end.
Qed.

(* every connection request made before the receive carries highestWalStart as it was at the loop
   head; every one made after it (second handleProgress of a timeout / keepalive reply, ticks of the
   blocked-output loop) carries highestWalStart as updated by the received event - the received
   COMMIT included.  A request after the receive issues START_REPLICATION only if the connection
   died at this message boundary. *)
Lemma ev_out_getstart_hi s2 it l f : In (CGetStart l f) (snd (ev_step s2 it)) ->
  l = hi_ev (highest s2) (i_ev it) /\ (f = true -> conn_open s2 = false).
Proof.
  ev_an; intros H;
  in_split_k H ltac:(fun H => apply bt_obs_getstart in H; cbn [highest conn_open] in H;
                              destruct H as (-> & Hf & Hne));
  try discriminate H;
  try (inversion H; subst; split; [reflexivity|now destruct (conn_open s2)]);
  (split; [|exact Hf]); unfold hi_ev; try reflexivity;
  match goal with
  | Hlt : (highest _ <? _)%N = true |- _ => apply N.ltb_lt in Hlt; lia
  | Hge : (highest _ <? _)%N = false |- _ => apply N.ltb_ge in Hge; lia
  end.
Qed.

Lemma cstep_getstart_split s it s' o :
  cstep s it = (s', o) -> stopped s = false -> i_pclosed it = false ->
  exists pre post, o = pre ++ CRecv :: post /\ ~ In CRecv pre /\ ~ In CRecv post /\
    (forall l f, In (CGetStart l f) pre -> l = highest s /\ (f = true -> conn_open s = false)) /\
    (forall l f, In (CGetStart l f) post ->
       l = hi_ev (highest s) (i_ev it) /\ (f = true -> i_dies it = true)).
Proof.
  intros H R Pc. rewrite (cstep_consumed _ _ R Pc) in H. inversion H; subst; clear H.
  destruct (head_out_shape s it) as (pre & E & P & Pf).
  exists pre, (snd (ev_step (recv_state s it) it)).
  split; [rewrite E, <- app_assoc; reflexivity|].
  split; [|split; [apply ev_out_no_recv|split]].
  - intros I. destruct (P _ I) as [[f E']|E']; discriminate E'.
  - intros l f I. split.
    + destruct (P _ I) as [[f' E']|E']; inversion E'; reflexivity.
    + intros ->. eapply Pf; exact I.
  - intros l f I. apply ev_out_getstart_hi in I. rewrite recv_highest, recv_conn_open in I.
    destruct I as [El Ff]. split; [exact El|]. intros Hf. specialize (Ff Hf).
    destruct (i_dies it); [reflexivity|discriminate Ff].
Qed.

Lemma cstep_getstart s it s' o l f :
  cstep s it = (s', o) -> In (CGetStart l f) o ->
  l = highest s \/
  (exists w t, i_ev it = EXLog w (XCommit t) /\ i_blocked it <> [] /\ l = N.max (highest s) w /\
               (f = true -> i_dies it = true)).
Proof.
  intros H I. step3 H; try (simpl in I; repeat (destruct I as [I|I]; [discriminate I|]); contradiction).
  apply in_app_or in I. destruct I as [I|I].
  - left. destruct (head_out_shape s it) as (pre & E & P & _). rewrite E in I.
    apply in_app_or in I. destruct I as [I|[I|[]]]; [|discriminate I].
    destruct (P _ I) as [[f' E']|E']; inversion E'; reflexivity.
  - apply ev_out_getstart in I. rewrite recv_highest, recv_conn_open in I.
    destruct I as [[E|(w & t & Ev & Ne & E)] Ff]; [now left|right].
    exists w, t. repeat split; auto. intros Hf. specialize (Ff Hf).
    destruct (i_dies it); [reflexivity|discriminate Ff].
Qed.

(* a request that issues START_REPLICATION carries the loop-head value - or, when the connection
   died at this message boundary while a COMMIT is held in the blocked-output loop, the position
   of that COMMIT (if higher): always the end of the last transaction whose COMMIT was received *)
Lemma cstep_getstart_fresh s it s' o l :
  cstep s it = (s', o) -> In (CGetStart l true) o ->
  l = highest s \/
  (i_dies it = true /\ exists w t, i_ev it = EXLog w (XCommit t) /\ i_blocked it <> [] /\
                                   l = N.max (highest s) w).
Proof.
  intros H I. destruct (cstep_getstart _ _ _ _ _ _ H I) as [E|(w & t & Ev & Ne & E & Ff)]; [now left|right].
  split; [exact (Ff eq_refl)|eauto].
Qed.

Lemma cstart_highest first : highest (fst (cstart first)) = 0%N.
Proof. unfold cstart, get_start, fatal. destruct first; reflexivity. Qed.

Lemma cstart_getstart first l f : In (CGetStart l f) (snd (cstart first)) -> l = 0%N /\ f = true.
Proof.
  unfold cstart, get_start, fatal. destruct first; simpl; intros H;
  repeat (destruct H as [H|H]; [try discriminate H|]); try contradiction; inversion H; auto.
Qed.

Lemma crun_highest first its : stopped (fst (crun first its)) = false ->
  highest (fst (crun first its)) = hi_spec 0 (map i_ev its).
Proof.
  intros R. rewrite (crun_fold highest hi_ev); [rewrite cstart_highest; reflexivity| |exact R].
  intros s it R0 Pc. rewrite cstep_highest, R0, Pc. reflexivity.
Qed.

(* run level: iteration k (after its1) of a client that is still running *)
Lemma hi_spec_snoc h evs e : hi_spec h (evs ++ [e]) = hi_ev (hi_spec h evs) e.
Proof. unfold hi_spec. rewrite fold_left_app. reflexivity. Qed.

Lemma crun_restart_lsn first its1 it its2 s' o l f :
  stopped (fst (crun first its1)) = false ->
  cstep (fst (crun first its1)) it = (s', o) ->
  In (CGetStart l f) o ->
  (l = hi_spec 0 (map i_ev its1) \/
   (i_blocked it <> [] /\ (exists w t, i_ev it = EXLog w (XCommit t)) /\
    l = hi_spec 0 (map i_ev (its1 ++ [it])) /\ (f = true -> i_dies it = true))) /\
  snd (crun first (its1 ++ it :: its2)) = snd (crun first its1) ++ o ++ snd (citers s' its2).
Proof.
  intros R H I. split.
  - rewrite <- (crun_highest first its1 R).
    destruct (cstep_getstart _ _ _ _ _ _ H I) as [E|(w & t & Ev & Ne & E & Ff)]; [now left|right].
    repeat split; eauto. rewrite map_app. cbn [map]. rewrite hi_spec_snoc, Ev. cbn [hi_ev].
    rewrite <- (crun_highest first its1 R). exact E.
  - rewrite crun_split, H. reflexivity.
Qed.

(* run level, split at the receive of iteration k (= after [its1]) of a running client: every
   connection request before the receive carries hi_spec of the events received in iterations
   0..k-1; every one after it carries hi_spec of the events 0..k, the one just received
   included; one after the receive is fresh only if the connection died at this message boundary *)
Lemma crun_restart_split first its1 it s' o :
  stopped (fst (crun first its1)) = false -> i_pclosed it = false ->
  cstep (fst (crun first its1)) it = (s', o) ->
  exists pre post, o = pre ++ CRecv :: post /\ ~ In CRecv pre /\ ~ In CRecv post /\
    (forall l f, In (CGetStart l f) pre -> l = hi_spec 0 (map i_ev its1)) /\
    (forall l f, In (CGetStart l f) post ->
       l = hi_spec 0 (map i_ev (its1 ++ [it])) /\ (f = true -> i_dies it = true)).
Proof.
  intros R Pc H.
  destruct (cstep_getstart_split _ _ _ _ H R Pc) as (pre & post & E & N1 & N2 & P1 & P2).
  exists pre, post. split; [exact E|]. split; [exact N1|]. split; [exact N2|]. split.
  - intros l f I. rewrite <- (crun_highest first its1 R). apply (P1 l f I).
  - intros l f I. destruct (P2 l f I) as [El Ff]. split; [|exact Ff].
    rewrite map_app. cbn [map]. rewrite hi_spec_snoc, <- (crun_highest first its1 R). exact El.
Qed.

(* ---- START_REPLICATION is issued only when the manager holds no live connection ---- *)
Lemma cstep_fresh s it s' o l :
  cstep s it = (s', o) -> In (CGetStart l true) o -> conn_open s = false \/ i_dies it = true.
Proof.
  intros H I. step3 H; try (simpl in I; repeat (destruct I as [I|I]; [discriminate I|]); contradiction).
  apply in_app_or in I. destruct I as [I|I].
  - left. destruct (head_out_shape s it) as (pre & E & _ & P). rewrite E in I.
    apply in_app_or in I. destruct I as [I|[I|[]]]; [|discriminate I]. eapply P; eassumption.
  - right. apply ev_out_getstart in I. destruct I as [_ I]. specialize (I eq_refl).
    rewrite recv_conn_open in I. destruct (i_dies it); [reflexivity|discriminate I].
Qed.

Lemma cstep_conn_closes s it s' o :
  cstep s it = (s', o) -> conn_open s' = false ->
  stopped s' = true \/ i_ev it = EClosedErr \/
  (exists w t, i_ev it = EXLog w (XBegin t) /\ saw_commit s = false /\ first_iter s = false /\ In CClose o) \/
  (exists x, i_ev it = EErrorResponse x) \/
  i_dies it = true.
Proof.
  intros H C. step3 H; auto.
  destruct (i_dies it) eqn:D; [auto 6|].
  revert C. generalize (head_out s it). intros ho.
  pose proof (recv_state_fields s it) as (_ & _ & _ & _ & Fs & Ff & Fc & _). rewrite D in Fc. cbn [negb] in Fc.
  revert Fs Ff Fc. generalize (recv_state s it). intros s2 Fs Ff Fc.
  ev_an; intros C; auto; try congruence;
  try (right; right; right; left; eexists; reflexivity);
  try (rewrite bt_conn_open in C by (cbn [conn_open]; exact Fc); discriminate C).
  right; right; left. exists w, t. rewrite <- Fs, <- Ff.
  apply andb_prop in Heqb. destruct Heqb as [B1 B2].
  apply negb_true_iff in B1. apply negb_true_iff in B2.
  repeat split; auto. apply in_or_app. right. now left.
Qed.

(* ---- acknowledged values do not depend on any position carried by received data ---- *)
Definition erase_ev (e : cev) : cev :=
  match e with
  | EXLog _ k => EXLog 0 k
  | EKeepalive _ r sl => EKeepalive 0 r sl
  | EErrorResponse _ => EErrorResponse 0
  | e => e
  end.
Definition erase_it (it : citer) : citer :=
  mkIter (i_tick it) (i_prog it) (i_pclosed it) (erase_ev (i_ev it)) (i_prog2 it) (i_pclosed2 it) (i_blocked it) (i_dies it).

Definition ev_positions (e : cev) : list N :=
  match e with EXLog w _ => [w] | EKeepalive w _ _ => [w] | EErrorResponse x => [x] | _ => [] end.
Definition data_positions (its : list citer) : list N := flat_map (fun it => ev_positions (i_ev it)) its.

(* the state without highestWalStart (the only component data positions flow into) *)
Definition forget (s : cstate) : cstate :=
  mkCst (overall s) 0 (ctxn s) (ckey s) (saw_commit s) (first_iter s) (conn_open s) (hb_count s) (hb_slow s)
        (begins s) (stopped s).

Lemma stop_forget s t : forget s = forget t -> forget (stop s) = forget (stop t).
Proof. destruct s, t. unfold forget. simpl. intros H. inversion H; subst. reflexivity. Qed.

(* the blocked-output loop reads [overall] and [conn_open] only; [highest] appears in its
   connection requests, not in what it acknowledges *)
Lemma bt_forget bl : forall s t, forget s = forget t ->
  forget (bt_state s bl) = forget (bt_state t bl) /\ acks (bt_obs s bl) = acks (bt_obs t bl).
Proof.
  induction bl as [|[vs closed] bl IH]; intros s t H; [split; [exact H|reflexivity]|].
  unfold bt_obs in *. cbn [bt_state blocked_obs]. destruct closed; [split; [exact H|reflexivity]|].
  assert (Ho : overall s = overall t) by (apply (f_equal overall) in H; exact H).
  unfold hp_val. rewrite Ho.
  destruct (IH (set_conn (set_overall s (fst (absorb (overall t) vs))) true)
               (set_conn (set_overall t (fst (absorb (overall t) vs))) true)) as [F A].
  { destruct s, t. unfold forget in *. simpl in *. inversion H; subst. reflexivity. }
  split; [exact F|]. cbn [acks flat_map app]. f_equal. exact A.
Qed.

Lemma write_loop_forget s t bl op tx k w w' : forget s = forget t ->
  forget (fst (fst (write_loop s bl (COut op tx k w)))) = forget (fst (fst (write_loop t bl (COut op tx k w')))) /\
  acks (snd (fst (write_loop s bl (COut op tx k w)))) = acks (snd (fst (write_loop t bl (COut op tx k w')))) /\
  snd (write_loop s bl (COut op tx k w)) = snd (write_loop t bl (COut op tx k w')).
Proof.
  intros H. unfold write_loop. rewrite !blocked_ticks_eq. destruct (bt_forget bl s t H) as [F A].
  destruct (blocked_closed bl); cbn [fst snd]; rewrite ?acks_app, A; auto.
Qed.

Lemma handle_xlog_forget s2 t2 w k bl : forget s2 = forget t2 ->
  forget (fst (fst (handle_xlog s2 w k bl))) = forget (fst (fst (handle_xlog t2 0 k bl))) /\
  acks (snd (fst (handle_xlog s2 w k bl))) = acks (snd (fst (handle_xlog t2 0 k bl))) /\
  snd (handle_xlog s2 w k bl) = snd (handle_xlog t2 0 k bl).
Proof.
  intros H.
  destruct k as [t|t|op| |]; unfold handle_xlog.
  - (* BEGIN *)
    assert (E1 : saw_commit s2 = saw_commit t2) by (apply (f_equal saw_commit) in H; exact H).
    assert (E2 : first_iter s2 = first_iter t2) by (apply (f_equal first_iter) in H; exact H).
    assert (E3 : begins s2 = begins t2) by (apply (f_equal begins) in H; exact H).
    rewrite E1, E2, E3. destruct (negb (saw_commit t2) && negb (first_iter t2)).
    + cbn [fst snd]. repeat split; try reflexivity.
      destruct s2, t2. unfold forget in *. simpl in *. inversion H; subst. reflexivity.
    + apply write_loop_forget. destruct s2, t2. unfold forget in *. simpl in *. inversion H; subst. reflexivity.
  - (* COMMIT *)
    assert (E1 : ctxn s2 = ctxn t2) by (apply (f_equal ctxn) in H; exact H).
    assert (E2 : ckey s2 = ckey t2) by (apply (f_equal ckey) in H; exact H).
    cbn [ctxn ckey]. rewrite E1, E2.
    apply write_loop_forget. destruct s2, t2. unfold forget in *. simpl in *. inversion H; subst. reflexivity.
  - (* change *)
    assert (E1 : ctxn s2 = ctxn t2) by (apply (f_equal ctxn) in H; exact H).
    assert (E2 : ckey s2 = ckey t2) by (apply (f_equal ckey) in H; exact H).
    rewrite E1, E2. apply write_loop_forget. exact H.
  - cbn [fst snd]. repeat split; try reflexivity. exact H.
  - cbn [fst snd]. repeat split; try reflexivity. exact H.
Qed.

Lemma ev_step_forget s2 t2 it : forget s2 = forget t2 ->
  forget (fst (ev_step s2 it)) = forget (fst (ev_step t2 (erase_it it))) /\
  acks (snd (ev_step s2 it)) = acks (snd (ev_step t2 (erase_it it))).
Proof.
  intros H. unfold ev_step. cbn [erase_it i_ev i_blocked i_prog2 i_pclosed2 i_dies].
  destruct (i_ev it) as [w k| w [|] sl | | | | | | x | | | | idf]; cbn [erase_ev].
  1: { destruct (handle_xlog_forget s2 t2 w k (i_blocked it) H) as (F & A & E).
       destruct (handle_xlog s2 w k (i_blocked it)) as [[s3 o3] f].
       destruct (handle_xlog t2 0 k (i_blocked it)) as [[t3 p3] f']. cbn [fst snd] in *. subst f'.
       destruct f; unfold fatal; cbn [fst snd].
       - split; [apply stop_forget; exact F|rewrite !acks_app, A; reflexivity].
       - split; assumption. }
  all: destruct s2, t2; unfold forget in H; simpl in H; inversion H; subst; clear H;
       unfold prog2, fatal, recover, recover_fail, heartbeat, hp_val, forget; simpl;
       repeat match goal with |- context [if ?c then _ else _] => destruct c eqn:? end; simpl; split; reflexivity.
Qed.

Lemma cstep_forget s t it : forget s = forget t ->
  forget (fst (cstep s it)) = forget (fst (cstep t (erase_it it))) /\
  acks (snd (cstep s it)) = acks (snd (cstep t (erase_it it))).
Proof.
  intros H.
  assert (Hs : stopped s = stopped t) by (apply (f_equal stopped) in H; exact H).
  assert (Ho : overall s = overall t) by (apply (f_equal overall) in H; exact H).
  rewrite !cstep_eq. rewrite <- Hs. destruct (stopped s) eqn:R; [split; [exact H|reflexivity]|].
  change (i_pclosed (erase_it it)) with (i_pclosed it).
  destruct (i_pclosed it).
  - simpl. split; [|reflexivity]. destruct s, t. unfold forget in *. simpl in *. inversion H; subst. reflexivity.
  - assert (H2 : forget (recv_state s it) = forget (recv_state t (erase_it it))).
    { unfold recv_state, head_state, hp_val. simpl. rewrite Ho. destruct s, t. unfold forget in *. simpl in *.
      inversion H; subst. destruct (i_dies it); reflexivity. }
    destruct (ev_step_forget _ _ it H2) as [F A].
    destruct (ev_step (recv_state s it) it) as [s3 o3].
    destruct (ev_step (recv_state t (erase_it it)) (erase_it it)) as [t3 p3]. simpl in *.
    split; [exact F|]. rewrite !acks_app, A. f_equal.
    unfold head_out, head_sends, hp_upd, hp_val. simpl. rewrite Ho.
    destruct (snd (absorb (overall t) (i_prog it)) || i_tick it); reflexivity.
Qed.

Lemma citers_forget its : forall s t, forget s = forget t ->
  forget (fst (citers s its)) = forget (fst (citers t (map erase_it its))) /\
  acks (snd (citers s its)) = acks (snd (citers t (map erase_it its))).
Proof.
  induction its as [|it its IH]; intros s t H; [split; [exact H|reflexivity]|].
  cbn [map]. rewrite !citers_cons. cbn [fst snd].
  destruct (cstep_forget s t it H) as [F A]. destruct (IH _ _ F) as [F2 A2].
  split; [exact F2|]. rewrite !acks_app, A, A2. reflexivity.
Qed.

Lemma crun_acks_erase first its :
  acks (snd (crun first its)) = acks (snd (crun first (map erase_it its))).
Proof.
  rewrite !crun_snd, !acks_app. f_equal. apply citers_forget. reflexivity.
Qed.

Lemma crun_acks_data_independent first its its' :
  map erase_it its = map erase_it its' ->
  acks (snd (crun first its)) = acks (snd (crun first its')).
Proof. intros H. rewrite (crun_acks_erase first its), (crun_acks_erase first its'), H. reflexivity. Qed.

(* ================================================================================== *)
(* 5. C07                                                                              *)
(* ================================================================================== *)

(* ---- delivery keys: txn ++ "-" ++ decimal counter is injective in both components ---- *)
Fixpoint no_dash (s : string) : Prop :=
  match s with EmptyString => True | String c r => c <> "-"%char /\ no_dash r end.

Lemma digit_not_dash d : (d < 10)%N -> digit d <> "-"%char.
Proof.
  intros H E. apply (f_equal N_of_ascii) in E. unfold digit in E.
  rewrite N_ascii_embedding in E by lia. change (N_of_ascii "-"%char) with 45%N in E. lia.
Qed.

Lemma dec_fuel_no_dash f : forall n acc, no_dash acc -> no_dash (dec_fuel f n acc).
Proof.
  induction f as [|f IH]; intros n acc H; simpl; [exact H|].
  assert (D : no_dash (String (digit (n mod 10)) acc)).
  { split; [apply digit_not_dash; apply N.mod_lt; discriminate|exact H]. }
  destruct (n <? 10)%N; [exact D|apply IH; exact D].
Qed.

Lemma dec_no_dash n : no_dash (dec n).
Proof. apply dec_fuel_no_dash. exact I. Qed.

Lemma no_dash_app_dash r d : ~ no_dash (r ++ String "-" d)%string.
Proof. induction r as [|c r IH]; simpl; intros [H1 H2]; [now apply H1|auto]. Qed.

Lemma dash_split_inj t1 : forall t2 d1 d2, no_dash d1 -> no_dash d2 ->
  (t1 ++ String "-" d1)%string = (t2 ++ String "-" d2)%string -> t1 = t2 /\ d1 = d2.
Proof.
  induction t1 as [|c r IH]; intros [|c' r'] d1 d2 N1 N2 E; simpl in E.
  - inversion E; auto.
  - inversion E; subst. exfalso. exact (no_dash_app_dash _ _ N1).
  - inversion E; subst. exfalso. exact (no_dash_app_dash _ _ N2).
  - inversion E; subst. destruct (IH _ _ _ N1 N2 H1) as [-> ->]. auto.
Qed.

Lemma key_of_injective t1 n1 t2 n2 : key_of t1 n1 = key_of t2 n2 -> t1 = t2 /\ n1 = n2.
Proof.
  unfold key_of. simpl. intros E.
  destruct (dash_split_inj _ _ _ _ (dec_no_dash n1) (dec_no_dash n2) E) as [-> D].
  split; [reflexivity|apply dec_injective; exact D].
Qed.

(* ---- what one iteration forwards downstream, exactly ---- *)
Definition is_cout (x : cobs) : bool := match x with COut _ _ _ _ => true | _ => false end.
Definition couts (o : list cobs) : list cobs := filter is_cout o.

Definition ev_couts (s : cstate) (e : cev) : list cobs :=
  match e with
  | EXLog w (XBegin t) =>
      if negb (saw_commit s) && negb (first_iter s) then [] else [COut "BEGIN" t (key_of t (begins s)) w]
  | EXLog w (XCommit _) => [COut "COMMIT" (ctxn s) (ckey s) w]
  | EXLog w (XChange op) => [COut op (ctxn s) (ckey s) w]
  | EErrorResponse _ | EErrorResponseFail _ =>
      (* the synthetic COMMIT of recoverFromErrorResponse, whether the recovery then succeeds or not *)
      if negb (first_iter s) && negb (saw_commit s)
      then [COut "COMMIT" (ctxn s) (ckey s) (if (highest s =? 0)%N then overall s else highest s)]
      else []
  | _ => []
  end.

Lemma couts_app a b : couts (a ++ b) = couts a ++ couts b.
Proof. apply filter_app. Qed.

Lemma in_couts x o : In x (couts o) <-> In x o /\ is_cout x = true.
Proof. apply filter_In. Qed.

Lemma head_out_couts s it : couts (head_out s it) = [].
Proof. unfold head_out. destruct (head_sends s it); reflexivity. Qed.

(* does handleXLogData reach its WriteLoop with this event, i.e. is there a message to forward
   (XShort, XBadText and a BEGIN that is dropped return before) *)
Definition reaches_write_loop (s : cstate) (e : cev) : bool :=
  match e with
  | EXLog _ (XBegin _) => negb (negb (saw_commit s) && negb (first_iter s))
  | EXLog _ (XCommit _) | EXLog _ (XChange _) => true
  | _ => false
  end.

(* the WriteLoop is reached and fails: a tick served while the output channel is full finds the
   progress channel closed.  The message held is never forwarded and the client stops. *)
Definition write_fails (s : cstate) (it : citer) : bool :=
  reaches_write_loop s (i_ev it) && blocked_closed (i_blocked it).

Lemma couts_bt_obs s bl : couts (bt_obs s bl) = [].
Proof.
  assert (H : forall l, (forall x, In x l -> gs_or_send x = true) -> couts l = []).
  { induction l as [|x l IH]; intros K; [reflexivity|].
    assert (Kx : gs_or_send x = true) by (apply K; now left).
    simpl. destruct x; try discriminate Kx; apply IH; intros y Hy; apply K; now right. }
  apply H. intros x. apply bt_obs_kind.
Qed.

Lemma ev_step_couts s2 it :
  couts (snd (ev_step s2 it)) = if write_fails s2 it then [] else ev_couts s2 (i_ev it).
Proof.
  unfold write_fails, reaches_write_loop, ev_couts, ev_step, prog2, fatal, recover, recover_fail, heartbeat, handle_xlog, write_loop.
  destruct (i_ev it) as [w [t|t|op| |]| w [|] sl | | | | | | x | | | | idf];
  rewrite ?blocked_ticks_eq; cbv beta iota;
  repeat (cbn [negb andb]; match goal with |- context [if ?c then _ else _] => destruct c eqn:? end);
  cbn [fst snd negb andb]; rewrite ?couts_app, ?couts_bt_obs; reflexivity.
Qed.

(* (the state handed to the handlers is the one after the loop-head handleProgress: same as [s]
   except that [overall] has absorbed the values waiting on the progress channel) *)
Lemma write_fails_head s it : write_fails (recv_state s it) it = write_fails s it.
Proof. unfold recv_state. destruct (i_dies it); reflexivity. Qed.

Lemma ev_couts_recv s it e : ev_couts (recv_state s it) e = ev_couts (head_state s it) e.
Proof. unfold recv_state. destruct (i_dies it); reflexivity. Qed.

Lemma cstep_couts s it :
  couts (snd (cstep s it)) =
  if stopped s || i_pclosed it || write_fails s it then [] else ev_couts (head_state s it) (i_ev it).
Proof.
  destruct (stopped s) eqn:R; [rewrite cstep_stopped by assumption; reflexivity|].
  destruct (i_pclosed it) eqn:Pc; [rewrite cstep_pclosed by assumption; reflexivity|].
  rewrite cstep_consumed by assumption. simpl.
  rewrite couts_app, head_out_couts, ev_step_couts, write_fails_head, ev_couts_recv. reflexivity.
Qed.

(* when the WriteLoop fails the client stops in this iteration *)
Lemma ev_step_write_fails s2 it : write_fails s2 it = true -> stopped (fst (ev_step s2 it)) = true.
Proof.
  unfold write_fails, reaches_write_loop. intros H. apply andb_prop in H. destruct H as [Hr Hc].
  unfold ev_step, handle_xlog, write_loop.
  destruct (i_ev it) as [w [t|t|op| |]| w [|] sl | | | | | | x | | | | idf]; try discriminate Hr;
  rewrite ?blocked_ticks_eq, ?Hc; cbv beta iota; try reflexivity.
  apply negb_true_iff in Hr. rewrite Hr. reflexivity.
Qed.

Lemma cstep_write_fails s it : stopped s = false -> i_pclosed it = false ->
  write_fails s it = true -> stopped (fst (cstep s it)) = true.
Proof.
  intros R Pc W. rewrite cstep_consumed by assumption. cbn [fst].
  apply ev_step_write_fails. rewrite write_fails_head. exact W.
Qed.

(* the server sent an ErrorResponse and the recovery fails: the client stops in this iteration *)
Definition fails_recovery (e : cev) : bool :=
  match e with EErrorResponseFail _ => true | _ => false end.

Lemma ev_step_fails_recovery s2 it : fails_recovery (i_ev it) = true -> stopped (fst (ev_step s2 it)) = true.
Proof.
  unfold ev_step, fails_recovery, recover_fail, fatal. intros Fr.
  destruct (i_ev it) as [w k| w r sl | | | | | | x | | | | idf]; try discriminate Fr. reflexivity.
Qed.

Lemma cstep_fails_recovery s it : stopped s = false -> i_pclosed it = false ->
  fails_recovery (i_ev it) = true -> stopped (fst (cstep s it)) = true.
Proof.
  intros R Pc Fr. rewrite cstep_consumed by assumption. cbn [fst].
  apply ev_step_fails_recovery. exact Fr.
Qed.

(* ---- the stamp (transaction id, delivery key, clock) and where it changes ---- *)
Definition stamp := (string * string * N)%type.
Definition stamp_of (s : cstate) : stamp := (ctxn s, ckey s, begins s).
Definition stamp_ev (st : stamp) (e : cev) : stamp :=
  match e with
  | EXLog _ (XBegin t) => (t, key_of t (snd st), (snd st + 1)%N)
  | _ => st
  end.
Definition stamp_spec (evs : list cev) : stamp := fold_left stamp_ev evs (""%string, ""%string, 0%N).

Lemma ev_step_stamp s2 it : stamp_of (fst (ev_step s2 it)) = stamp_ev (stamp_of s2) (i_ev it).
Proof. unfold stamp_of, stamp_ev. ev_an; reflexivity. Qed.

Lemma cstep_stamp s it :
  stamp_of (fst (cstep s it)) = if stopped s || i_pclosed it then stamp_of s else stamp_ev (stamp_of s) (i_ev it).
Proof.
  destruct (stopped s) eqn:R; [rewrite cstep_stopped by assumption; reflexivity|].
  destruct (i_pclosed it) eqn:Pc; [rewrite cstep_pclosed by assumption; reflexivity|].
  rewrite cstep_consumed by assumption. simpl. rewrite ev_step_stamp.
  unfold recv_state. destruct (i_dies it); reflexivity.
Qed.

Lemma stamp_ev_begins_ge st e : (snd st <= snd (stamp_ev st e))%N.
Proof. destruct e as [w [t|t|op| |]| | | | | | | | | | |]; simpl; lia. Qed.

Lemma cstart_stamp first : stamp_of (fst (cstart first)) = (""%string, ""%string, 0%N).
Proof. unfold cstart, get_start, fatal. destruct first; reflexivity. Qed.

Lemma crun_stamp first its : stopped (fst (crun first its)) = false ->
  stamp_of (fst (crun first its)) = stamp_spec (map i_ev its).
Proof.
  intros R. rewrite (crun_fold stamp_of stamp_ev); [rewrite cstart_stamp; reflexivity| |exact R].
  intros s it R0 Pc. rewrite cstep_stamp, R0, Pc. reflexivity.
Qed.

(* ---- attribution ---- *)
Lemma cstep_attribution s it s' o op t k w :
  cstep s it = (s', o) -> In (COut op t k w) o ->
  (exists t', i_ev it = EXLog w (XBegin t') /\ t = t' /\ op = "BEGIN"%string /\ k = key_of t' (begins s)) \/
  (t = ctxn s /\ k = ckey s).
Proof.
  intros H I. assert (I2 : In (COut op t k w) (couts o)) by (apply in_couts; auto).
  pose proof (cstep_couts s it) as E. rewrite H in E. simpl in E. rewrite E in I2. clear E.
  destruct (stopped s || i_pclosed it || write_fails s it); [contradiction|].
  unfold ev_couts in I2.
  destruct (i_ev it) as [w' [t'|t'|op'| |]| w' [|] sl | | | | | | x | | | | idf]; try contradiction.
  - match type of I2 with context [if ?c then _ else _] => destruct c end; [contradiction|].
    destruct I2 as [I2|[]]. inversion I2; subst. left. eauto.
  - destruct I2 as [I2|[]]. inversion I2; subst. auto.
  - destruct I2 as [I2|[]]. inversion I2; subst. auto.
  - match type of I2 with context [if ?c then _ else _] => destruct c end; [|contradiction].
    destruct I2 as [I2|[]]. inversion I2; subst. auto.
  - (* the synthetic COMMIT of a recovery that then fails *)
    match type of I2 with context [if ?c then _ else _] => destruct c end; [|contradiction].
    destruct I2 as [I2|[]]. inversion I2; subst. auto.
Qed.

Lemma cstep_stamp_frame s it s' o :
  cstep s it = (s', o) ->
  (ctxn s' = ctxn s /\ ckey s' = ckey s /\ begins s' = begins s) \/
  (stopped s = false /\ i_pclosed it = false /\
   exists w t', i_ev it = EXLog w (XBegin t') /\
     ctxn s' = t' /\ ckey s' = key_of t' (begins s) /\ begins s' = (begins s + 1)%N).
Proof.
  intros H. pose proof (cstep_stamp s it) as E. rewrite H in E. simpl in E. unfold stamp_of in E.
  destruct (stopped s); [inversion E; auto|]. destruct (i_pclosed it); [inversion E; auto|].
  simpl in E.
  destruct (i_ev it) as [w' [t'|t'|op'| |]| w' [|] sl | | | | | | x | | | | idf]; simpl in E; inversion E; auto.
  right. repeat split; auto. eauto 10.
Qed.

Lemma crun_attribution first its1 it s' o op t k w :
  stopped (fst (crun first its1)) = false ->
  cstep (fst (crun first its1)) it = (s', o) -> In (COut op t k w) o ->
  (exists t', i_ev it = EXLog w (XBegin t') /\ op = "BEGIN"%string /\ t = t' /\
              k = key_of t' (snd (stamp_spec (map i_ev its1)))) \/
  (t = fst (fst (stamp_spec (map i_ev its1))) /\ k = snd (fst (stamp_spec (map i_ev its1)))).
Proof.
  intros R H I. rewrite <- (crun_stamp first its1 R). unfold stamp_of. simpl.
  destruct (cstep_attribution _ _ _ _ _ _ _ _ H I) as [(t' & E & -> & -> & ->)|[-> ->]]; eauto 10.
Qed.

(* ---- keys of forwarded BEGINs and COMMITs ---- *)
Definition out_keys (op0 : string) (o : list cobs) : list string :=
  flat_map (fun x => match x with COut op _ k _ => if String.eqb op op0 then [k] else [] | _ => [] end) o.
Definition begin_keys := out_keys "BEGIN".
Definition commit_keys := out_keys "COMMIT".

Lemma out_keys_app op0 a b : out_keys op0 (a ++ b) = out_keys op0 a ++ out_keys op0 b.
Proof. apply flat_map_app. Qed.

Lemma out_keys_couts op0 o : out_keys op0 o = out_keys op0 (couts o).
Proof.
  induction o as [|x o IH]; [reflexivity|]. destruct x; simpl; try exact IH. rewrite IH. reflexivity.
Qed.

(* XChange stands for a parsed message whose operation is neither BEGIN nor COMMIT *)
Definition ev_ok (e : cev) : bool :=
  match e with
  | EXLog _ (XChange op) => negb (String.eqb op "BEGIN") && negb (String.eqb op "COMMIT")
  | _ => true
  end.
Definition script_ok (its : list citer) : bool := forallb (fun it => ev_ok (i_ev it)) its.

Definition ev_begin_keys (s : cstate) (e : cev) : list string :=
  match e with
  | EXLog _ (XBegin t) => if negb (saw_commit s) && negb (first_iter s) then [] else [key_of t (begins s)]
  | _ => []
  end.
Definition ev_commit_keys (s : cstate) (e : cev) : list string :=
  match e with
  | EXLog _ (XCommit _) => [ckey s]
  | EErrorResponse _ | EErrorResponseFail _ =>
      if negb (first_iter s) && negb (saw_commit s) then [ckey s] else []
  | _ => []
  end.

Lemma cstep_begin_keys s it : ev_ok (i_ev it) = true ->
  begin_keys (snd (cstep s it)) =
  if stopped s || i_pclosed it || write_fails s it then [] else ev_begin_keys s (i_ev it).
Proof.
  intros Ok. unfold begin_keys. rewrite out_keys_couts, cstep_couts.
  destruct (stopped s || i_pclosed it || write_fails s it); [reflexivity|].
  unfold ev_couts, ev_begin_keys.
  cbn [head_state set_conn set_overall saw_commit first_iter ctxn ckey begins highest].
  destruct (i_ev it) as [w' [t'|t'|op'| |]| w' [|] sl | | | | | | x | | | | idf]; try reflexivity.
  - destruct (negb (saw_commit s) && negb (first_iter s)); reflexivity.
  - simpl in Ok. apply andb_prop in Ok. destruct Ok as [Ok _]. apply negb_true_iff in Ok.
    simpl. rewrite Ok. reflexivity.
  - destruct (negb (first_iter s) && negb (saw_commit s)); reflexivity.
  - destruct (negb (first_iter s) && negb (saw_commit s)); reflexivity.
Qed.


Lemma cstep_commit_keys s it : ev_ok (i_ev it) = true ->
  commit_keys (snd (cstep s it)) =
  if stopped s || i_pclosed it || write_fails s it then [] else ev_commit_keys s (i_ev it).
Proof.
  intros Ok. unfold commit_keys. rewrite out_keys_couts, cstep_couts.
  destruct (stopped s || i_pclosed it || write_fails s it); [reflexivity|].
  unfold ev_couts, ev_commit_keys.
  cbn [head_state set_conn set_overall saw_commit first_iter ctxn ckey begins highest].
  destruct (i_ev it) as [w' [t'|t'|op'| |]| w' [|] sl | | | | | | x | | | | idf]; try reflexivity.
  - destruct (negb (saw_commit s) && negb (first_iter s)); reflexivity.
  - simpl in Ok. apply andb_prop in Ok. destruct Ok as [_ Ok]. apply negb_true_iff in Ok.
    simpl. rewrite Ok. reflexivity.
  - destruct (negb (first_iter s) && negb (saw_commit s)); reflexivity.
  - destruct (negb (first_iter s) && negb (saw_commit s)); reflexivity.
Qed.


Lemma cstart_couts first : couts (snd (cstart first)) = [].
Proof. unfold cstart, get_start, fatal. destruct first; reflexivity. Qed.

(* ---- uniqueness of the keys of forwarded BEGINs ---- *)
Definition bounded (b : N) (K : list string) : Prop :=
  forall k, In k K -> exists t n, k = key_of t n /\ (n < b)%N.

Lemma bounded_weaken b b' K : bounded b K -> (b <= b')%N -> bounded b' K.
Proof. intros H L k I. destruct (H k I) as (t & n & E & Hn). exists t, n. split; [exact E|lia]. Qed.

Lemma bounded_fresh b K t : bounded b K -> ~ In (key_of t b) K.
Proof.
  intros H I. destruct (H _ I) as (t' & n & E & Hn). apply key_of_injective in E. destruct E as [_ E]. lia.
Qed.

Lemma bounded_snoc b K t : bounded b K -> bounded (b + 1) (K ++ [key_of t b]).
Proof.
  intros H k I. apply in_app_or in I. destruct I as [I|[<-|[]]].
  - destruct (H k I) as (t' & n & E & Hn). exists t', n. split; [exact E|lia].
  - exists t, b. split; [reflexivity|lia].
Qed.

Lemma NoDup_snoc {A} (K : list A) a : NoDup K -> ~ In a K -> NoDup (K ++ [a]).
Proof.
  induction K as [|x K IH]; simpl; intros N I.
  - constructor; [intros []|constructor].
  - inversion N; subst. constructor.
    + intros J. apply in_app_or in J. destruct J as [J|[J|[]]]; [contradiction|subst; apply I; now left].
    + apply IH; [assumption|intros J; apply I; now right].
Qed.

Lemma citers_begin_keys its : forall s K,
  script_ok its = true -> bounded (begins s) K -> NoDup K ->
  NoDup (K ++ begin_keys (snd (citers s its))).
Proof.
  induction its as [|it its IH]; intros s K Ok B N.
  - simpl. rewrite app_nil_r. exact N.
  - simpl in Ok. apply andb_prop in Ok. destruct Ok as [Ok1 Ok2].
    rewrite citers_cons. cbn [snd]. unfold begin_keys in *. rewrite out_keys_app, app_assoc.
    pose proof (cstep_begin_keys s it Ok1) as E. unfold begin_keys in E.
    pose proof (cstep_stamp s it) as St.
    destruct (cstep s it) as [s1 o1]. cbn [fst snd] in *. rewrite E. clear E.
    apply (f_equal snd) in St. unfold stamp_of in St. cbn [snd] in St.
    destruct (stopped s || i_pclosed it); cbn [orb].
    + rewrite app_nil_r. apply IH; auto. rewrite St. exact B.
    + destruct (write_fails s it).
      { (* the WriteLoop fails: nothing is forwarded (the clock may have advanced) *)
        rewrite app_nil_r. apply IH; auto. rewrite St. eapply bounded_weaken; [exact B|].
        apply (stamp_ev_begins_ge (ctxn s, ckey s, begins s)). }
      unfold ev_begin_keys.
      destruct (i_ev it) as [w' [t'|t'|op'| |]| w' [|] sl | | | | | | x | | | | idf]; simpl in St;
        try (rewrite app_nil_r; apply IH; auto; rewrite St; exact B).
      destruct (negb (saw_commit s) && negb (first_iter s)).
      * rewrite app_nil_r. apply IH; auto. rewrite St. eapply bounded_weaken; [eassumption|lia].
      * apply IH; auto.
        -- rewrite St. apply bounded_snoc. exact B.
        -- apply NoDup_snoc; [exact N|apply bounded_fresh; exact B].
Qed.

Lemma crun_begin_keys_nodup first its : script_ok its = true -> NoDup (begin_keys (snd (crun first its))).
Proof.
  intros Ok. rewrite crun_snd. unfold begin_keys. rewrite out_keys_app.
  rewrite (out_keys_couts _ (snd (cstart first))), cstart_couts. simpl.
  apply (citers_begin_keys its _ [] Ok); [intros k []|constructor].
Qed.

(* every stamp ever made (forwarded BEGIN or dropped BEGIN) is different from every other:
   the stamps are key_of t_i i for i = 0, 1, 2, ... in the order of the BEGIN events handled *)
Fixpoint stamps (n : N) (evs : list cev) : list string :=
  match evs with
  | [] => []
  | EXLog _ (XBegin t) :: r => key_of t n :: stamps (n + 1) r
  | _ :: r => stamps n r
  end.

Lemma stamps_bounded evs : forall n k, In k (stamps n evs) -> exists t m, k = key_of t m /\ (n <= m)%N.
Proof.
  induction evs as [|e evs IH]; intros n k; simpl; [intros []|].
  destruct e as [w' [t'|t'|op'| |]| w' r sl | | | | | | x | | | | idf]; try apply IH.
  intros [<-|I]; [exists t', n; split; [reflexivity|lia]|].
  destruct (IH _ _ I) as (t & m & E & L). exists t, m. split; [exact E|lia].
Qed.

Lemma stamps_nodup evs : forall n, NoDup (stamps n evs).
Proof.
  induction evs as [|e evs IH]; intros n; simpl; [constructor|].
  destruct e as [w' [t'|t'|op'| |]| w' r sl | | | | | | x | | | | idf]; try apply IH.
  constructor; [|apply IH]. intros I. destruct (stamps_bounded _ _ _ I) as (t & m & E & L).
  apply key_of_injective in E. destruct E as [_ E]. lia.
Qed.

Lemma last_cons_default {A} (a d : A) l : last (a :: l) d = last l a.
Proof.
  revert a d. induction l as [|b l IH]; intros a d; [reflexivity|].
  change (last (a :: b :: l) d) with (last (b :: l) d). rewrite (IH b d), (IH b a). reflexivity.
Qed.

Lemma stamp_fold evs : forall t0 k0 n,
  snd (fst (fold_left stamp_ev evs (t0, k0, n))) = last (stamps n evs) k0 /\
  snd (fold_left stamp_ev evs (t0, k0, n)) = (n + N.of_nat (List.length (stamps n evs)))%N.
Proof.
  induction evs as [|e evs IH]; intros t0 k0 n; [simpl; split; [reflexivity|lia]|].
  destruct e as [w' [t'|t'|op'| |]| w' r sl | | | | | | x | | | | idf]; try apply IH.
  cbn [fold_left stamp_ev stamps snd]. destruct (IH t' (key_of t' n) (n + 1)%N) as [E1 E2].
  rewrite E1, E2, last_cons_default. split; [reflexivity|]. cbn [List.length]. lia.
Qed.

Lemma crun_key_is_last_stamp first its : stopped (fst (crun first its)) = false ->
  ckey (fst (crun first its)) = last (stamps 0 (map i_ev its)) ""%string /\
  begins (fst (crun first its)) = N.of_nat (List.length (stamps 0 (map i_ev its))).
Proof.
  intros R. pose proof (crun_stamp first its R) as E. unfold stamp_of, stamp_spec in E.
  destruct (stamp_fold (map i_ev its) ""%string ""%string 0%N) as [E1 E2].
  rewrite <- E in E1, E2. simpl in E1, E2. split; [exact E1|]. rewrite E2. lia.
Qed.

(* ---- is a transaction open on the client's side? ---- *)
(* firstIteration / sawCommit as a function of the received events *)
Definition flags_of (s : cstate) : bool * bool := (first_iter s, saw_commit s).
Definition flags_ev (fl : bool * bool) (e : cev) : bool * bool :=
  match e with
  | EXLog _ (XBegin _) => if negb (snd fl) && negb (fst fl) then (true, false) else (false, false)
  | EXLog _ (XCommit _) => (fst fl, true)
  | EErrorResponse _ => (true, false)
  | _ => fl
  end.
(* a BEGIN was forwarded and neither a COMMIT, nor a dropped BEGIN, nor a recovery followed *)
Definition open_txn (s : cstate) : bool := negb (first_iter s) && negb (saw_commit s).

Lemma ev_step_flags s2 it : flags_of (fst (ev_step s2 it)) = flags_ev (flags_of s2) (i_ev it).
Proof.
  unfold flags_of. ev_an; cbn [flags_ev fst snd];
  repeat match goal with Hc : ?c = _ |- context [if ?c then _ else _] => rewrite Hc end; reflexivity.
Qed.

Lemma cstep_flags s it :
  flags_of (fst (cstep s it)) = if stopped s || i_pclosed it then flags_of s else flags_ev (flags_of s) (i_ev it).
Proof.
  destruct (stopped s) eqn:R; [rewrite cstep_stopped by assumption; reflexivity|].
  destruct (i_pclosed it) eqn:Pc; [rewrite cstep_pclosed by assumption; reflexivity|].
  rewrite cstep_consumed by assumption. simpl. rewrite ev_step_flags.
  unfold recv_state. destruct (i_dies it); reflexivity.
Qed.

Lemma cstart_flags first : flags_of (fst (cstart first)) = (true, false).
Proof. unfold cstart, get_start, fatal. destruct first; reflexivity. Qed.

Definition flags_spec (evs : list cev) : bool * bool := fold_left flags_ev evs (true, false).

Lemma crun_flags first its : stopped (fst (crun first its)) = false ->
  flags_of (fst (crun first its)) = flags_spec (map i_ev its).
Proof.
  intros R. rewrite (crun_fold flags_of flags_ev); [rewrite cstart_flags; reflexivity| |exact R].
  intros s it R0 Pc. rewrite cstep_flags, R0, Pc. reflexivity.
Qed.

(* ---- at most one COMMIT per delivery key ---- *)
(* [b] = the current stamp already has its COMMIT (or there is no stamp yet).  A BEGIN event makes
   a new stamp; a COMMIT is allowed only if the stamp has none yet; an ErrorResponse gives the
   open transaction, if any, its one (synthetic) COMMIT now: no further COMMIT may come before
   the next BEGIN (the same when the recovery fails: the synthetic COMMIT is forwarded before the
   failure, and the client stops) *)
Fixpoint commits_ok (b : bool) (evs : list cev) : bool :=
  match evs with
  | [] => true
  | EXLog _ (XBegin _) :: r => commits_ok false r
  | EXLog _ (XCommit _) :: r => negb b && commits_ok true r
  | EErrorResponse _ :: r | EErrorResponseFail _ :: r => commits_ok true r
  | _ :: r => commits_ok b r
  end.

Definition commit_inv (s : cstate) (K : list string) (b : bool) : Prop :=
  bounded (begins s) K /\
  (b = false -> ~ In (ckey s) K /\ exists t n, ckey s = key_of t n /\ (n < begins s)%N) /\
  (b = true -> open_txn s = false).

Lemma citers_commit_keys its : forall s K b,
  script_ok its = true -> commits_ok b (map i_ev its) = true -> commit_inv s K b -> NoDup K ->
  NoDup (K ++ commit_keys (snd (citers s its))).
Proof.
  induction its as [|it its IH]; intros s K b Ok Co (B & J & Op) N.
  - simpl. rewrite app_nil_r. exact N.
  - simpl in Ok. apply andb_prop in Ok. destruct Ok as [Ok1 Ok2].
    destruct (stopped s) eqn:R.
    { rewrite citers_stopped by assumption. simpl. rewrite app_nil_r. exact N. }
    destruct (i_pclosed it) eqn:Pc.
    { rewrite citers_cons, cstep_pclosed by assumption. cbn [fst snd].
      rewrite citers_stopped by reflexivity. simpl. rewrite app_nil_r. exact N. }
    destruct (write_fails s it) eqn:Wf.
    { (* the WriteLoop fails: nothing is forwarded, the client stops *)
      rewrite citers_cons. cbn [snd]. unfold commit_keys. rewrite out_keys_app.
      pose proof (cstep_commit_keys s it Ok1) as E. unfold commit_keys in E. rewrite E, R, Pc, Wf. cbn [orb app].
      rewrite citers_stopped by (apply cstep_write_fails; assumption). simpl. rewrite app_nil_r. exact N. }
    destruct (fails_recovery (i_ev it)) eqn:Fr.
    { (* the recovery from an ErrorResponse fails: the open transaction, if any, has got its one
         (synthetic) COMMIT; the client stops *)
      rewrite citers_cons. cbn [snd]. unfold commit_keys. rewrite out_keys_app.
      pose proof (cstep_commit_keys s it Ok1) as E. unfold commit_keys in E. rewrite E, R, Pc, Wf. cbn [orb].
      rewrite citers_stopped by (apply cstep_fails_recovery; assumption). cbn [out_keys flat_map]. rewrite app_nil_r.
      unfold ev_commit_keys, fails_recovery in *.
      destruct (i_ev it) as [w' k'| w' r' sl | | | | | | x | | | | idf]; try discriminate Fr.
      destruct (negb (first_iter s) && negb (saw_commit s)) eqn:Opn; [|rewrite app_nil_r; exact N].
      destruct b; [pose proof (Op eq_refl) as Op'; unfold open_txn in Op'; congruence|].
      destruct (J eq_refl) as (Nin & _). apply NoDup_snoc; assumption. }
    rewrite citers_cons. cbn [snd]. unfold commit_keys in *. rewrite out_keys_app, app_assoc.
    pose proof (cstep_commit_keys s it Ok1) as E. unfold commit_keys in E. rewrite Wf, orb_false_r in E.
    pose proof (cstep_stamp s it) as St. pose proof (cstep_flags s it) as Fl.
    destruct (cstep s it) as [s1 o1]. cbn [fst snd] in *. rewrite E. clear E.
    rewrite R, Pc in *. cbn [orb] in *. unfold stamp_of in St. unfold flags_of in Fl.
    assert (Sk : ckey s1 = snd (fst (stamp_ev (ctxn s, ckey s, begins s) (i_ev it)))) by (rewrite <- St; reflexivity).
    assert (Sb : begins s1 = snd (stamp_ev (ctxn s, ckey s, begins s) (i_ev it))) by (rewrite <- St; reflexivity).
    assert (Ff : first_iter s1 = fst (flags_ev (first_iter s, saw_commit s) (i_ev it))) by (rewrite <- Fl; reflexivity).
    assert (Fs : saw_commit s1 = snd (flags_ev (first_iter s, saw_commit s) (i_ev it))) by (rewrite <- Fl; reflexivity).
    clear St Fl. cbn [map] in Co. unfold ev_commit_keys. unfold open_txn in *.
    destruct (i_ev it) as [w' [t'|t'|op'| |]| w' [|] sl | | | | | | x | | | | idf];
      cbn [commits_ok stamp_ev flags_ev fst snd] in *;
      try (rewrite app_nil_r; apply (IH s1 K b); auto; (split; [|split]); unfold open_txn; rewrite ?Sb, ?Sk, ?Ff, ?Fs; assumption);
      try (cbn in Fr; discriminate Fr).
    + (* BEGIN *)
      rewrite app_nil_r. apply (IH s1 K false); auto. split; [|split; [|discriminate]].
      * rewrite Sb. eapply bounded_weaken; [exact B|apply N.le_add_r].
      * intros _. rewrite Sk, Sb. split; [apply bounded_fresh; exact B|].
        exists t', (begins s). split; [reflexivity|rewrite N.add_1_r; apply N.lt_succ_diag_r].
    + (* COMMIT *)
      apply andb_prop in Co. destruct Co as [Hb Co]. apply negb_true_iff in Hb. subst b.
      destruct (J eq_refl) as (Nin & t & n & Ek & Ln).
      apply (IH s1 (K ++ [ckey s]) true); auto.
      * split; [|split; [discriminate|]].
        -- rewrite Sb. intros k I. apply in_app_or in I.
           destruct I as [I|[<-|[]]]; [apply B; exact I|eauto].
        -- intros _. unfold open_txn. rewrite Fs. apply andb_false_r.
      * apply NoDup_snoc; assumption.
    + (* ErrorResponse *)
      destruct (negb (first_iter s) && negb (saw_commit s)) eqn:Opn.
      * destruct b; [pose proof (Op eq_refl) as Op'; congruence|].
        destruct (J eq_refl) as (Nin & t & n & Ek & Ln).
        apply (IH s1 (K ++ [ckey s]) true); auto.
        -- split; [|split; [discriminate|]].
           ++ rewrite Sb. intros k I. apply in_app_or in I.
              destruct I as [I|[<-|[]]]; [apply B; exact I|eauto].
           ++ intros _. unfold open_txn. rewrite Ff. reflexivity.
        -- apply NoDup_snoc; assumption.
      * rewrite app_nil_r. apply (IH s1 K true); auto.
        split; [rewrite Sb; exact B|split; [discriminate|]]. intros _. unfold open_txn. rewrite Ff. reflexivity.
Qed.

Lemma crun_one_commit first its :
  script_ok its = true -> commits_ok true (map i_ev its) = true ->
  NoDup (commit_keys (snd (crun first its))).
Proof.
  intros Ok Co. rewrite crun_snd. unfold commit_keys. rewrite out_keys_app.
  rewrite (out_keys_couts _ (snd (cstart first))), cstart_couts. simpl.
  apply (citers_commit_keys its _ [] true Ok Co); [|constructor].
  split; [intros k []|split; [discriminate|]]. intros _.
  pose proof (cstart_flags first) as F. unfold flags_of in F. unfold open_txn.
  apply (f_equal fst) in F. simpl in F. rewrite F. reflexivity.
Qed.

(* ---- key scope, as a monitor over the output list ---- *)
(* the monitor remembers the (txn, key) of the last forwarded BEGIN; a Close (dropped BEGIN,
   recovery, shutdown) makes it forget; every other forwarded message is checked against it *)
Fixpoint scope_ok (c : option (string * string)) (o : list cobs) : bool :=
  match o with
  | [] => true
  | COut op t k _ :: r =>
      if String.eqb op "BEGIN" then scope_ok (Some (t, k)) r
      else match c with Some (t0, k0) => String.eqb t t0 && String.eqb k k0 | None => true end && scope_ok c r
  | CClose :: r => scope_ok None r
  | _ :: r => scope_ok c r
  end.
Fixpoint scope_end (c : option (string * string)) (o : list cobs) : option (string * string) :=
  match o with
  | [] => c
  | COut op t k _ :: r => if String.eqb op "BEGIN" then scope_end (Some (t, k)) r else scope_end c r
  | CClose :: r => scope_end None r
  | _ :: r => scope_end c r
  end.

Lemma scope_app a : forall c b,
  scope_ok c (a ++ b) = scope_ok c a && scope_ok (scope_end c a) b /\
  scope_end c (a ++ b) = scope_end (scope_end c a) b.
Proof.
  induction a as [|x a IH]; intros c b; [split; reflexivity|].
  destruct x; simpl; try apply IH.
  destruct (String.eqb op "BEGIN"); [apply IH|].
  destruct (IH c b) as [E1 E2]. rewrite E1, E2, andb_assoc. split; reflexivity.
Qed.

(* connection requests and status updates (all the blocked-output loop emits) are invisible to
   the monitor *)
Lemma scope_gs l : (forall x, In x l -> gs_or_send x = true) ->
  forall c, scope_ok c l = true /\ scope_end c l = c.
Proof.
  induction l as [|x l IH]; intros K c; [split; reflexivity|].
  assert (Kx : gs_or_send x = true) by (apply K; now left).
  assert (Kl : forall y, In y l -> gs_or_send y = true) by (intros y Hy; apply K; now right).
  destruct x; try discriminate Kx; simpl; apply IH; exact Kl.
Qed.

Lemma scope_bt s bl c : scope_ok c (bt_obs s bl) = true /\ scope_end c (bt_obs s bl) = c.
Proof. apply scope_gs. intros x. apply bt_obs_kind. Qed.

Definition scope_rel (c : option (string * string)) (s : cstate) : Prop :=
  c = None \/ c = Some (ctxn s, ckey s).

Lemma ev_step_scope s2 it c : ev_ok (i_ev it) = true -> scope_rel c s2 ->
  scope_ok c (snd (ev_step s2 it)) = true /\ scope_rel (scope_end c (snd (ev_step s2 it))) (fst (ev_step s2 it)).
Proof.
  intros Ok Rl. unfold scope_rel in *. revert Ok.
  ev_an; intros Ok;
    try match goal with |- context [scope_ok ?c0 (bt_obs ?S ?bl ++ ?r)] =>
      let E1 := fresh in let E2 := fresh in let E3 := fresh in let E4 := fresh in
      destruct (scope_app (bt_obs S bl) c0 r) as [E1 E2]; rewrite E1, E2;
      destruct (scope_bt S bl c0) as [E3 E4]; rewrite E3, E4; clear E1 E2 E3 E4
    end;
    simpl;
    try (split; [reflexivity|]; auto; fail);
    try (destruct Rl as [->| ->]; rewrite ?String.eqb_refl; simpl; auto; fail).
  simpl in Ok. apply andb_prop in Ok. destruct Ok as [Ok _]. apply negb_true_iff in Ok. rewrite Ok.
  destruct Rl as [->| ->]; rewrite ?String.eqb_refl; simpl; auto.
Qed.

Lemma cstep_scope s it c : ev_ok (i_ev it) = true -> scope_rel c s ->
  scope_ok c (snd (cstep s it)) = true /\ scope_rel (scope_end c (snd (cstep s it))) (fst (cstep s it)).
Proof.
  intros Ok Rl.
  destruct (stopped s) eqn:R; [rewrite cstep_stopped by assumption; simpl; auto|].
  destruct (i_pclosed it) eqn:Pc; [rewrite cstep_pclosed by assumption; simpl; split; [reflexivity|now left]|].
  rewrite cstep_consumed by assumption. cbn [fst snd].
  destruct (scope_app (head_out s it) c (snd (ev_step (recv_state s it) it))) as [E1 E2]. rewrite E1, E2.
  assert (Hh : scope_ok c (head_out s it) = true /\ scope_end c (head_out s it) = c).
  { unfold head_out. destruct (head_sends s it); split; reflexivity. }
  destruct Hh as [-> ->]. simpl. apply ev_step_scope; [assumption|].
  unfold scope_rel, recv_state in *. destruct (i_dies it); exact Rl.
Qed.

Lemma citers_scope its : forall s c, script_ok its = true -> scope_rel c s ->
  scope_ok c (snd (citers s its)) = true.
Proof.
  induction its as [|it its IH]; intros s c Ok Rl; [reflexivity|].
  simpl in Ok. apply andb_prop in Ok. destruct Ok as [Ok1 Ok2].
  rewrite citers_cons. cbn [snd].
  destruct (scope_app (snd (cstep s it)) c (snd (citers (fst (cstep s it)) its))) as [-> _].
  destruct (cstep_scope s it c Ok1 Rl) as [-> Rl']. simpl. apply IH; assumption.
Qed.

Lemma crun_scope first its : script_ok its = true -> scope_ok None (snd (crun first its)) = true.
Proof.
  intros Ok. rewrite crun_snd.
  destruct (scope_app (snd (cstart first)) None (snd (citers (fst (cstart first)) its))) as [-> _].
  assert (H : scope_ok None (snd (cstart first)) = true /\ scope_end None (snd (cstart first)) = None).
  { unfold cstart, get_start, fatal. destruct first; split; reflexivity. }
  destruct H as [-> ->]. simpl. apply citers_scope; [exact Ok|now left].
Qed.

(* the monitor's verdict, read on the output list *)
Definition not_close_nor_begin (x : cobs) : Prop :=
  x <> CClose /\ forall t k w, x <> COut "BEGIN" t k w.

Lemma scope_ok_mid mid : forall t1 k1 post op t k w,
  scope_ok (Some (t1, k1)) (mid ++ post) = true ->
  (forall x, In x mid -> not_close_nor_begin x) ->
  In (COut op t k w) mid -> t = t1 /\ k = k1.
Proof.
  induction mid as [|x mid IH]; intros t1 k1 post op t k w S Nm I; [destruct I|].
  assert (Nx : not_close_nor_begin x) by (apply Nm; now left).
  assert (Nm' : forall y, In y mid -> not_close_nor_begin y) by (intros; apply Nm; now right).
  destruct I as [->|I].
  - simpl in S. destruct (String.eqb op "BEGIN") eqn:E.
    + apply String.eqb_eq in E. subst. destruct Nx as [_ Nx]. exfalso. eapply Nx. reflexivity.
    + apply andb_prop in S. destruct S as [S _]. apply andb_prop in S. destruct S as [S1 S2].
      apply String.eqb_eq in S1. apply String.eqb_eq in S2. auto.
  - destruct x; simpl in S; try (eapply IH; eassumption).
    + destruct Nx as [Nx _]. exfalso. apply Nx. reflexivity.
    + destruct (String.eqb op0 "BEGIN") eqn:E.
      * apply String.eqb_eq in E. subst. destruct Nx as [_ Nx]. exfalso. eapply Nx. reflexivity.
      * apply andb_prop in S. destruct S as [_ S]. eapply IH; eassumption.
Qed.

Lemma crun_key_scope first its pre t1 k1 w1 mid post op t k w :
  script_ok its = true ->
  snd (crun first its) = pre ++ COut "BEGIN" t1 k1 w1 :: mid ++ post ->
  (forall x, In x mid -> not_close_nor_begin x) ->
  In (COut op t k w) mid -> t = t1 /\ k = k1.
Proof.
  intros Ok E Nm I. pose proof (crun_scope first its Ok) as S. rewrite E in S.
  destruct (scope_app pre None (COut "BEGIN" t1 k1 w1 :: mid ++ post)) as [S1 _]. rewrite S1 in S.
  apply andb_prop in S. destruct S as [_ S]. simpl in S.
  eapply scope_ok_mid; eassumption.
Qed.

(* ---- BEGIN without a preceding COMMIT ---- *)
Lemma cstep_begin_without_commit s it s' o w t :
  stopped s = false -> i_pclosed it = false ->
  saw_commit s = false -> first_iter s = false ->
  i_ev it = EXLog w (XBegin t) -> cstep s it = (s', o) ->
  couts o = [] /\ o = head_out s it ++ [CClose] /\ conn_open s' = false /\ highest s' = highest s /\
  first_iter s' = true /\ saw_commit s' = false /\ stopped s' = false /\
  ctxn s' = t /\ ckey s' = key_of t (begins s).
Proof.
  intros R Pc Sc Fi Ev H. rewrite (cstep_consumed _ _ R Pc) in H. inversion H; subst; clear H.
  rewrite couts_app, head_out_couts. unfold ev_step, handle_xlog, recv_state. rewrite Ev.
  destruct (i_dies it);
  cbn [saw_commit first_iter set_conn head_state set_overall]; rewrite Sc, Fi; simpl;
  repeat split; reflexivity.
Qed.

(* the connection the manager holds after the blocked-output loop: a tick that sends reconnects *)
Definition blocked_conn (conn : bool) (bl : list (list N * bool)) : bool :=
  match bl with (_, false) :: _ => true | _ => conn end.

Lemma bt_conn_exact bl : forall s, blocked_closed bl = false ->
  conn_open (bt_state s bl) = blocked_conn (conn_open s) bl.
Proof.
  destruct bl as [|[vs closed] bl]; intros s C; [reflexivity|].
  cbn [blocked_closed existsb snd] in C. apply orb_false_elim in C. destruct C as [-> _].
  cbn [bt_state blocked_conn]. apply bt_conn_open. reflexivity.
Qed.

(* the BEGIN is accepted: the state is stamped, then the WriteLoop serves the ticks that fire while
   the output channel is full (one connection request - a fresh one only if the connection died
   at this message boundary, and then only the first - and one status update
   each) and hands the BEGIN over; if one of those ticks finds the progress channel closed the
   BEGIN is NOT forwarded and the client stops (Close, Stop).  With [i_blocked it = []] this is:
   o = head_out s it ++ [COut "BEGIN" ...], connection kept, client running. *)
Lemma cstep_begin_accepted s it s' o w t :
  stopped s = false -> i_pclosed it = false ->
  saw_commit s = true \/ first_iter s = true ->
  i_ev it = EXLog w (XBegin t) -> cstep s it = (s', o) ->
  o = head_out s it ++ blocked_obs (highest s) (negb (i_dies it)) (hp_val s (i_prog it)) (i_blocked it) ++
      (if blocked_closed (i_blocked it) then [CClose; CStop] else [COut "BEGIN" t (key_of t (begins s)) w]) /\
  conn_open s' = (if blocked_closed (i_blocked it) then false
                  else blocked_conn (negb (i_dies it)) (i_blocked it)) /\
  highest s' = highest s /\ first_iter s' = false /\ saw_commit s' = false /\
  stopped s' = blocked_closed (i_blocked it) /\
  ctxn s' = t /\ ckey s' = key_of t (begins s).
Proof.
  intros R Pc Sf Ev H. rewrite (cstep_consumed _ _ R Pc) in H. inversion H; subst; clear H.
  assert (E : negb (saw_commit s) && negb (first_iter s) = false).
  { destruct Sf as [-> | ->]; simpl; [reflexivity|apply andb_false_r]. }
  unfold ev_step, handle_xlog, write_loop, recv_state. rewrite Ev.
  destruct (i_dies it);
  cbn [saw_commit first_iter set_conn head_state set_overall];
  rewrite E, blocked_ticks_eq; cbv beta iota;
  destruct (blocked_closed (i_blocked it)) eqn:Bc; unfold fatal;
    cbn [fst snd stop conn_open highest first_iter saw_commit stopped ctxn ckey negb];
    rewrite ?bt_highest, ?bt_first_iter, ?bt_saw_commit, ?bt_stopped, ?bt_ctxn, ?bt_ckey;
    rewrite ?(bt_conn_exact _ _ Bc);
    repeat split; reflexivity.
Qed.

(* after a dropped BEGIN the next connection request restarts at [highest] *)
Lemma cstep_after_drop s it s' o :
  stopped s = false -> i_pclosed it = false -> conn_open s = false ->
  cstep s it = (s', o) -> exists rest, o = CGetStart (highest s) true :: rest.
Proof.
  intros R Pc Co H. rewrite (cstep_consumed _ _ R Pc) in H. inversion H; subst; clear H.
  unfold head_out. rewrite Co. destruct (head_sends s it); simpl; eauto.
Qed.

(* ================================================================================== *)
(* 6. C18                                                                              *)
(* ================================================================================== *)
Definition head_pre (s : cstate) (it : citer) : list cobs :=
  if head_sends s it
  then [CGetStart (highest s) (negb (conn_open s)); CSend (hp_val s (i_prog it)); CGetStart (highest s) false]
  else [CGetStart (highest s) (negb (conn_open s))].

Lemma head_out_pre s it : head_out s it = head_pre s it ++ [CRecv].
Proof. reflexivity. Qed.

Lemma head_pre_no_recv s it : ~ In CRecv (head_pre s it).
Proof.
  unfold head_pre. destruct (head_sends s it); intros H;
  repeat (destruct H as [H|H]; [discriminate H|]); exact H.
Qed.

Lemma head_pre_no_stop s it : ~ In CStop (head_pre s it).
Proof.
  unfold head_pre. destruct (head_sends s it); intros H;
  repeat (destruct H as [H|H]; [discriminate H|]); exact H.
Qed.

(* the rapid-heartbeat rule: more than 5 reply requests, all within 100 ms *)
Definition rapid (s : cstate) (slow : bool) : bool :=
  negb (hb_slow s || slow) && (5 <? hb_count s + 1)%N.

(* keepalive with reply requested: exact observations of the iteration *)
Lemma cstep_keepalive_reply s it s' o w sl :
  stopped s = false -> i_pclosed it = false -> i_ev it = EKeepalive w true sl ->
  cstep s it = (s', o) ->
  (i_pclosed2 it = true /\ o = head_pre s it ++ CRecv :: [CClose; CStop] /\ stopped s' = true) \/
  (i_pclosed2 it = false /\
   o = head_pre s it ++ CRecv :: [CGetStart (highest s) (i_dies it); CSend (overall s')] ++
       (if rapid s sl then [CClose; CStop] else []) /\
   stopped s' = rapid s sl /\ overall s' = hp_val (head_state s it) (i_prog2 it)).
Proof.
  intros R Pc Ev H. rewrite (cstep_consumed _ _ R Pc) in H. inversion H; subst; clear H.
  rewrite head_out_pre, <- app_assoc. unfold ev_step, recv_state. rewrite Ev.
  destruct (i_pclosed2 it); [left; destruct (i_dies it); repeat split; reflexivity|right].
  unfold prog2, heartbeat, rapid, fatal. destruct (i_dies it); simpl;
  (destruct (negb (hb_slow s || sl) && (5 <? hb_count s + 1)%N); [|destruct (5 <? hb_count s + 1)%N];
    simpl; rewrite ?R; repeat split; reflexivity).
Qed.

Lemma cstep_timeout s it s' o :
  stopped s = false -> i_pclosed it = false -> i_ev it = ETimeout ->
  cstep s it = (s', o) ->
  (i_pclosed2 it = true /\ o = head_pre s it ++ CRecv :: [CClose; CStop] /\ stopped s' = true) \/
  (i_pclosed2 it = false /\
   o = head_pre s it ++ CRecv :: [CGetStart (highest s) (i_dies it); CSend (overall s')] /\
   stopped s' = false /\ overall s' = hp_val (head_state s it) (i_prog2 it)).
Proof.
  intros R Pc Ev H. rewrite (cstep_consumed _ _ R Pc) in H. inversion H; subst; clear H.
  rewrite head_out_pre, <- app_assoc. unfold ev_step, recv_state. rewrite Ev.
  destruct (i_pclosed2 it); [left; destruct (i_dies it); repeat split; reflexivity|right].
  unfold prog2. destruct (i_dies it); simpl; rewrite R; repeat split; reflexivity.
Qed.

Lemma cstep_tick s it s' o :
  stopped s = false -> i_pclosed it = false -> i_tick it = true ->
  cstep s it = (s', o) ->
  exists post, o = CGetStart (highest s) (negb (conn_open s)) :: CSend (hp_val s (i_prog it)) ::
                   CGetStart (highest s) false :: CRecv :: post /\ ~ In CRecv post /\
               (overall s <= hp_val s (i_prog it))%N.
Proof.
  intros R Pc Tk H. rewrite (cstep_consumed _ _ R Pc) in H. inversion H; subst; clear H.
  exists (snd (ev_step (recv_state s it) it)). split; [|split; [apply ev_out_no_recv|apply hp_val_ge]].
  unfold head_out, head_sends. rewrite Tk, orb_true_r. reflexivity.
Qed.

(* ---------- the blocked-output loop inside an iteration ---------- *)
Lemma blocked_obs_shape h bl : forall conn cur x, In x (blocked_obs h conn cur bl) ->
  (exists f, x = CGetStart h f /\ (f = true -> conn = false)) \/ exists v, x = CSend v.
Proof.
  induction bl as [|[vs closed] bl IH]; intros conn cur x; cbn [blocked_obs]; [intros []|].
  destruct closed; [intros []|]. intros [<-|[<-|I]].
  - left. exists (negb conn). split; [reflexivity|]. now destruct conn.
  - right; eauto.
  - destruct (IH _ _ _ I) as [(f & E & Ff)|Hv]; [left|now right].
    exists f. split; [exact E|]. intros Hf. specialize (Ff Hf). discriminate Ff.
Qed.

(* An XLogData message that is to be forwarded (handleXLogData reaches its WriteLoop), received
   by a running client: after the receive the observations are exactly the connection requests
   and status updates of the ticks served while the output channel is full, then the message -
   or, if one of those ticks finds the progress channel closed, Close, Stop instead of the
   message.  The connection requests carry highestWalStart as already advanced by a held COMMIT
   (= [highest s']); the first of them is a fresh one (START_REPLICATION at that position) iff the
   connection died at this message boundary. *)
Lemma cstep_write_loop s it s' o :
  stopped s = false -> i_pclosed it = false -> reaches_write_loop s (i_ev it) = true ->
  cstep s it = (s', o) ->
  exists m, ev_couts (head_state s it) (i_ev it) = [m] /\
    o = head_pre s it ++ CRecv :: blocked_obs (highest s') (negb (i_dies it)) (hp_val s (i_prog it)) (i_blocked it) ++
        (if blocked_closed (i_blocked it) then [CClose; CStop] else [m]) /\
    acks o = (if head_sends s it then [hp_val s (i_prog it)] else []) ++
             acks (blocked_obs (highest s') (negb (i_dies it)) (hp_val s (i_prog it)) (i_blocked it)) /\
    stopped s' = blocked_closed (i_blocked it) /\
    overall s' = blocked_val (hp_val s (i_prog it)) (i_blocked it).
Proof.
  intros R Pc Hr H. rewrite (cstep_consumed _ _ R Pc) in H. inversion H; subst; clear H.
  assert (Ha : acks (head_pre s it) = if head_sends s it then [hp_val s (i_prog it)] else []).
  { unfold head_pre. destruct (head_sends s it); reflexivity. }
  unfold reaches_write_loop in Hr. unfold ev_step, ev_couts, handle_xlog, write_loop, recv_state.
  destruct (i_dies it);
  cbn [saw_commit first_iter set_conn head_state set_overall negb];
  destruct (i_ev it) as [w [t|t|op| |]| w [|] sl | | | | | | x | | | | idf]; try discriminate Hr;
  try (apply negb_true_iff in Hr; rewrite Hr);
  rewrite blocked_ticks_eq; cbv beta iota;
  (eexists; split; [reflexivity|]);
  rewrite head_out_pre, <- app_assoc, <- Ha;
  destruct (blocked_closed (i_blocked it)); unfold fatal;
    cbn [fst snd stop highest stopped overall app];
    rewrite ?bt_highest, ?bt_stopped, ?bt_overall; cbn [highest stopped overall head_state set_conn set_overall];
    rewrite ?R, !acks_app; cbn [acks flat_map app]; rewrite ?acks_app, ?app_nil_r;
    repeat split; reflexivity.
Qed.

Lemma cstep_reads_once_or_stops s it s' o :
  stopped s = false -> cstep s it = (s', o) ->
  (i_pclosed it = true /\ o = [CClose; CStop] /\ stopped s' = true) \/
  (i_pclosed it = false /\ exists pre post, o = pre ++ CRecv :: post /\ ~ In CRecv pre /\ ~ In CRecv post).
Proof.
  intros R H. destruct (i_pclosed it) eqn:Pc.
  - rewrite (cstep_pclosed _ _ R Pc) in H. inversion H; subst. left. auto.
  - rewrite (cstep_consumed _ _ R Pc) in H. inversion H; subst; clear H. right. split; [reflexivity|].
    exists (head_pre s it), (snd (ev_step (recv_state s it) it)).
    rewrite head_out_pre, <- app_assoc. split; [reflexivity|].
    split; [apply head_pre_no_recv|apply ev_out_no_recv].
Qed.

Lemma ev_step_stop s2 it : stopped s2 = false ->
  (stopped (fst (ev_step s2 it)) = true <-> In CStop (snd (ev_step s2 it))) /\
  (In CStop (snd (ev_step s2 it)) -> exists pre, snd (ev_step s2 it) = pre ++ [CClose; CStop]).
Proof.
  intros R. ev_an; rewrite ?R;
  (split; [split; intros H; [try discriminate H; first [simpl; tauto|apply in_or_app; right; simpl; tauto]
                            |try reflexivity; exfalso; in_split H; discriminate H]
          |intros H; first [ now (exists []) | now (eexists [_]) | now (eexists [_; _]) | now (eexists [_; _; _])
                           | eexists; reflexivity
                           | exfalso; in_split H; discriminate H ]]).
Qed.

Lemma cstep_stop_announced s it s' o :
  stopped s = false -> cstep s it = (s', o) ->
  (stopped s' = true <-> In CStop o) /\ (In CStop o -> exists pre, o = pre ++ [CClose; CStop]).
Proof.
  intros R H. destruct (i_pclosed it) eqn:Pc.
  - rewrite (cstep_pclosed _ _ R Pc) in H. inversion H; subst. simpl.
    split; [split; auto|intros _; now exists []].
  - rewrite (cstep_consumed _ _ R Pc) in H. inversion H; subst; clear H.
    assert (R2 : stopped (recv_state s it) = false) by (rewrite recv_stopped; exact R).
    destruct (ev_step_stop (recv_state s it) it R2) as [A B].
    assert (E : In CStop (head_out s it ++ snd (ev_step (recv_state s it) it)) <->
                In CStop (snd (ev_step (recv_state s it) it))).
    { rewrite in_app_iff, head_out_pre, in_app_iff. pose proof (head_pre_no_stop s it) as Np.
      split; [intros [[?|[?|[]]]|?]; [contradiction|discriminate|assumption]|auto]. }
    split; [rewrite E; exact A|]. intros I. apply E in I. destruct (B I) as [pre Ep].
    exists (head_out s it ++ pre). rewrite Ep, app_assoc. reflexivity.
Qed.

Lemma hp_some_iff s force vs closed : handle_progress s force vs closed <> None <-> closed = false.
Proof.
  destruct closed; [rewrite hp_closed|rewrite hp_shape]; split; intros H; try congruence; discriminate.
Qed.

(* run level: the reply to a keepalive received in iteration k sits between that iteration's
   receive and the next receive of the run (or the client has stopped and nothing follows) *)
Lemma crun_keepalive_reply first its1 it its2 s' o w sl :
  stopped (fst (crun first its1)) = false -> i_pclosed it = false ->
  i_ev it = EKeepalive w true sl ->
  cstep (fst (crun first its1)) it = (s', o) ->
  exists A post,
    snd (crun first (its1 ++ it :: its2)) = A ++ CRecv :: post ++ snd (citers s' its2) /\
    ~ In CRecv post /\
    (In (CSend (overall s')) post \/ (In CStop post /\ snd (citers s' its2) = [])).
Proof.
  intros R Pc Ev H. rewrite crun_split, H. cbn [fst snd].
  set (s0 := fst (crun first its1)) in *. set (o0 := snd (crun first its1)).
  set (rest := snd (citers s' its2)).
  destruct (cstep_keepalive_reply _ _ _ _ _ _ R Pc Ev H) as [(C2 & E & St)|(C2 & E & St & _)].
  - exists (o0 ++ head_pre s0 it), [CClose; CStop]. split; [|split].
    + rewrite E, <- !app_assoc. reflexivity.
    + intros I. repeat (destruct I as [I|I]; [discriminate I|]). exact I.
    + right. split; [simpl; auto|]. unfold rest. rewrite citers_stopped by exact St. reflexivity.
  - exists (o0 ++ head_pre s0 it),
           ([CGetStart (highest s0) (i_dies it); CSend (overall s')] ++ (if rapid s0 sl then [CClose; CStop] else [])).
    split; [|split].
    + rewrite E, <- !app_assoc. reflexivity.
    + destruct (rapid s0 sl); intros I; repeat (destruct I as [I|I]; [discriminate I|]); exact I.
    + left. simpl. auto.
Qed.

(* ================================================================================== *)
(* 7. C02 (client part): the synthetic COMMIT of recoverFromErrorResponse               *)
(* ================================================================================== *)
Lemma cstep_recovery_couts s it x :
  stopped s = false -> i_pclosed it = false -> i_ev it = EErrorResponse x ->
  couts (snd (cstep s it)) =
  if open_txn s
  then [COut "COMMIT" (ctxn s) (ckey s) (if (highest s =? 0)%N then hp_val s (i_prog it) else highest s)]
  else [].
Proof. intros R Pc Ev. rewrite cstep_couts, R, Pc. unfold write_fails. rewrite Ev. reflexivity. Qed.

(* while a transaction is open on a RUNNING client, the current key is the key of the last
   forwarded BEGIN.  (A client that stopped inside the WriteLoop of an accepted BEGIN - the
   progress channel was found closed while the output channel was full - has stamped that BEGIN
   but never forwarded it: hence "running".) *)
Definition open_key_inv (s : cstate) (K : list string) : Prop :=
  stopped s = false -> open_txn s = true -> exists K0, K = K0 ++ [ckey s].

Lemma cstep_open_key s it K : ev_ok (i_ev it) = true -> open_key_inv s K ->
  open_key_inv (fst (cstep s it)) (K ++ begin_keys (snd (cstep s it))).
Proof.
  intros Ok P.
  destruct (stopped s) eqn:R.
  { rewrite cstep_stopped by exact R. cbn [fst snd]. intros R'. congruence. }
  destruct (i_pclosed it) eqn:Pc.
  { rewrite cstep_pclosed by assumption. cbn [fst snd]. intros R'. discriminate R'. }
  destruct (write_fails s it) eqn:Wf.
  { intros R'. rewrite (cstep_write_fails s it R Pc Wf) in R'. discriminate R'. }
  rewrite (cstep_begin_keys s it Ok), R, Pc, Wf. cbn [orb].
  pose proof (cstep_stamp s it) as St. pose proof (cstep_flags s it) as Fl. rewrite R, Pc in St, Fl. cbn [orb] in St, Fl.
  destruct (cstep s it) as [s1 o1]. cbn [fst snd] in *.
  unfold open_key_inv, open_txn, stamp_of, flags_of in *. specialize (P R).
  pose proof (f_equal (fun p => snd (fst p)) St) as Sk. pose proof (f_equal snd St) as Sb.
  pose proof (f_equal fst Fl) as Ff. pose proof (f_equal snd Fl) as Fs. cbn beta in Sk. cbn [fst snd] in Sk, Sb, Ff, Fs.
  clear St Fl. intros _. unfold ev_begin_keys.
  destruct (i_ev it) as [w' [t'|t'|op'| |]| w' [|] sl | | | | | | x | | | | idf];
    cbn [stamp_ev flags_ev fst snd] in *;
    try (rewrite app_nil_r, Sk, Ff, Fs; exact P);
    try (rewrite Ff, Fs; simpl; rewrite ?andb_false_r; discriminate).
  rewrite Sk. destruct (negb (saw_commit s) && negb (first_iter s)).
  - rewrite Ff. simpl. discriminate.
  - intros _. exists K. reflexivity.
Qed.

Lemma citers_open_key its : forall s K, script_ok its = true -> open_key_inv s K ->
  open_key_inv (fst (citers s its)) (K ++ begin_keys (snd (citers s its))).
Proof.
  induction its as [|it its IH]; intros s K Ok P.
  - simpl. rewrite app_nil_r. exact P.
  - simpl in Ok. apply andb_prop in Ok. destruct Ok as [Ok1 Ok2].
    rewrite citers_cons. cbn [fst snd]. unfold begin_keys. rewrite out_keys_app, app_assoc.
    apply IH; [exact Ok2|]. apply cstep_open_key; assumption.
Qed.

Lemma crun_open_key first its : script_ok its = true ->
  stopped (fst (crun first its)) = false ->
  open_txn (fst (crun first its)) = true ->
  exists K0, begin_keys (snd (crun first its)) = K0 ++ [ckey (fst (crun first its))].
Proof.
  intros Ok. rewrite crun_fst, crun_snd. unfold begin_keys. rewrite out_keys_app.
  rewrite (out_keys_couts _ (snd (cstart first))), cstart_couts.
  apply (citers_open_key its (fst (cstart first)) [] Ok).
  intros _ O. pose proof (cstart_flags first) as F. apply (f_equal fst) in F. unfold flags_of in F. simpl in F.
  unfold open_txn in O. rewrite F in O. discriminate.
Qed.

(* while a transaction is open on a RUNNING client, no COMMIT carrying its key has been forwarded
   yet.  (A client that stopped because the recovery from an ErrorResponse failed has forwarded the
   synthetic COMMIT of the open transaction and keeps its flags: hence "running".) *)
Definition bounded0 (b : N) (K : list string) : Prop :=
  forall k, In k K -> k = ""%string \/ exists t n, k = key_of t n /\ (n < b)%N.

Lemma key_of_nonempty t n : key_of t n <> ""%string.
Proof. unfold key_of. destruct t; simpl; discriminate. Qed.

Definition first_commit_inv (s : cstate) (C : list string) : Prop :=
  bounded0 (begins s) C /\
  (ckey s = ""%string \/ exists t n, ckey s = key_of t n /\ (n < begins s)%N) /\
  (stopped s = false -> open_txn s = true -> ~ In (ckey s) C).

Lemma bounded0_snoc b C k : bounded0 b C ->
  (k = ""%string \/ exists t n, k = key_of t n /\ (n < b)%N) -> bounded0 b (C ++ [k]).
Proof. intros B H k' I. apply in_app_or in I. destruct I as [I|[<-|[]]]; auto. Qed.

Lemma cstep_first_commit s it C : ev_ok (i_ev it) = true -> first_commit_inv s C ->
  first_commit_inv (fst (cstep s it)) (C ++ commit_keys (snd (cstep s it))).
Proof.
  intros Ok (B & Kf & P). rewrite (cstep_commit_keys s it Ok).
  pose proof (cstep_stamp s it) as St. pose proof (cstep_flags s it) as Fl.
  assert (Sm : stopped (fst (cstep s it)) = false ->
               stopped s = false /\ i_pclosed it = false /\ fails_recovery (i_ev it) = false).
  { intros R1. destruct (cstep s it) as [s1 o1] eqn:H. cbn [fst] in R1.
    destruct (cstep_running_after _ _ _ _ H R1) as [R Pc]. split; [exact R|split; [exact Pc|]].
    destruct (fails_recovery (i_ev it)) eqn:Fr; [|reflexivity].
    pose proof (cstep_fails_recovery s it R Pc Fr) as X. rewrite H in X. cbn [fst] in X. congruence. }
  destruct (cstep s it) as [s1 o1]. cbn [fst snd] in *.
  unfold first_commit_inv, open_txn, stamp_of, flags_of in *.
  assert (P' : stopped s1 = false -> negb (first_iter s) && negb (saw_commit s) = true -> ~ In (ckey s) C)
    by (intros R1; apply P; apply Sm; exact R1).
  clear P.
  pose proof (f_equal (fun p => snd (fst p)) St) as Sk. pose proof (f_equal snd St) as Sb.
  pose proof (f_equal fst Fl) as Ff. pose proof (f_equal snd Fl) as Fs. cbn beta in Sk. cbn [fst snd] in Sk, Sb, Ff, Fs.
  clear St Fl.
  destruct (stopped s || i_pclosed it); cbn [orb fst snd] in *.
  - rewrite app_nil_r, Sk, Sb, Ff, Fs. auto.
  - destruct (write_fails s it) eqn:Wf.
    { (* the WriteLoop fails: the state is stamped / flagged, nothing is forwarded *)
      rewrite app_nil_r. unfold write_fails, reaches_write_loop in Wf.
      destruct (i_ev it) as [w' [t'|t'|op'| |]| w' [|] sl | | | | | | x | | | | idf]; try discriminate Wf;
        cbn [stamp_ev flags_ev fst snd] in *.
      - rewrite Sk, Sb. split; [|split].
        + intros k I. destruct (B k I) as [E|(t & n & E & L)]; [now left|right].
          exists t, n. split; [exact E|clear - L; lia].
        + right. exists t', (begins s). split; [reflexivity|clear; lia].
        + intros _ _ I. destruct (B _ I) as [E|(t & n & E & L)].
          * exact (key_of_nonempty _ _ E).
          * apply key_of_injective in E. destruct E as [_ E]. clear - E L. lia.
      - rewrite Sk, Sb, Fs. split; [exact B|split; [exact Kf|]]. rewrite andb_false_r. discriminate.
      - rewrite Sk, Sb, Ff, Fs. auto. }
    unfold ev_commit_keys.
    destruct (i_ev it) as [w' [t'|t'|op'| |]| w' [|] sl | | | | | | x | | | | idf];
      cbn [stamp_ev flags_ev fst snd] in *;
      try (rewrite app_nil_r, Sk, Sb, Ff, Fs; auto; fail).
    + (* BEGIN *)
      rewrite app_nil_r, Sk, Sb. split; [|split].
      * intros k I. destruct (B k I) as [E|(t & n & E & L)]; [now left|right].
        exists t, n. split; [exact E|clear - L; lia].
      * right. exists t', (begins s). split; [reflexivity|clear; lia].
      * intros _ _ I. destruct (B _ I) as [E|(t & n & E & L)].
        -- exact (key_of_nonempty _ _ E).
        -- apply key_of_injective in E. destruct E as [_ E]. clear - E L. lia.
    + (* COMMIT *)
      rewrite Sk, Sb, Fs. split; [apply bounded0_snoc; assumption|split; [exact Kf|]].
      rewrite andb_false_r. discriminate.
    + (* ErrorResponse *)
      rewrite Sk, Sb, Ff. split; [|split; [exact Kf|simpl; discriminate]].
      destruct (negb (first_iter s) && negb (saw_commit s)); [apply bounded0_snoc; assumption|].
      rewrite app_nil_r. exact B.
    + (* ErrorResponse whose recovery fails: the synthetic COMMIT is forwarded, the client has stopped *)
      rewrite Sk, Sb. split; [|split; [exact Kf|]].
      * destruct (negb (first_iter s) && negb (saw_commit s)); [apply bounded0_snoc; assumption|].
        rewrite app_nil_r. exact B.
      * intros R1. destruct (Sm R1) as (_ & _ & Fr). cbn in Fr. discriminate Fr.
Qed.

Lemma citers_first_commit its : forall s C, script_ok its = true -> first_commit_inv s C ->
  first_commit_inv (fst (citers s its)) (C ++ commit_keys (snd (citers s its))).
Proof.
  induction its as [|it its IH]; intros s C Ok P.
  - simpl. rewrite app_nil_r. exact P.
  - simpl in Ok. apply andb_prop in Ok. destruct Ok as [Ok1 Ok2].
    rewrite citers_cons. cbn [fst snd]. unfold commit_keys. rewrite out_keys_app, app_assoc.
    apply IH; [exact Ok2|]. apply cstep_first_commit; assumption.
Qed.

Lemma crun_first_commit first its : script_ok its = true ->
  stopped (fst (crun first its)) = false ->
  open_txn (fst (crun first its)) = true ->
  ~ In (ckey (fst (crun first its))) (commit_keys (snd (crun first its))).
Proof.
  intros Ok. rewrite crun_fst, crun_snd. unfold commit_keys. rewrite out_keys_app.
  rewrite (out_keys_couts _ (snd (cstart first))), cstart_couts.
  apply (citers_first_commit its (fst (cstart first)) [] Ok).
  pose proof (cstart_stamp first) as St. unfold stamp_of in St.
  split; [intros k []|split].
  - left. apply (f_equal (fun p => snd (fst p))) in St. exact St.
  - intros _ _ [].
Qed.

(* overall never decreases and starts at the session start position *)
Lemma cstart_overall_eq first : overall (fst (cstart first)) = start_pos first.
Proof. unfold cstart, get_start, fatal, start_pos. destruct first; reflexivity. Qed.

Lemma crun_overall_ge first its : (start_pos first <= overall (fst (crun first its)))%N.
Proof.
  rewrite crun_fst, <- cstart_overall_eq.
  destruct (citers (fst (cstart first)) its) as [s1 o1] eqn:H.
  destruct (citers_acks _ _ _ _ H) as [L _]. exact L.
Qed.

(* run level: a recovery step in iteration k of a running client *)
Lemma crun_synthetic_commit first its1 it x :
  script_ok its1 = true ->
  stopped (fst (crun first its1)) = false -> i_pclosed it = false -> i_ev it = EErrorResponse x ->
  let s := fst (crun first its1) in
  let w := if (highest s =? 0)%N then hp_val s (i_prog it) else highest s in
  couts (snd (cstep s it)) = (if open_txn s then [COut "COMMIT" (ctxn s) (ckey s) w] else []) /\
  open_txn s = (let fl := flags_spec (map i_ev its1) in negb (fst fl) && negb (snd fl)) /\
  (open_txn s = true ->
     (exists K0, begin_keys (snd (crun first its1)) = K0 ++ [ckey s]) /\
     ~ In (ckey s) (commit_keys (snd (crun first its1)))) /\
  (start_pos first <= overall s <= hp_val s (i_prog it))%N.
Proof.
  intros Ok R Pc Ev s w. split; [|split; [|split]].
  - apply (cstep_recovery_couts s it x R Pc Ev).
  - unfold open_txn. pose proof (crun_flags first its1 R) as F. fold s in F. unfold flags_of in F.
    rewrite <- F. reflexivity.
  - intros O. split; [apply crun_open_key; assumption|apply crun_first_commit; assumption].
  - split; [apply crun_overall_ge|apply hp_val_ge].
Qed.

Lemma crun_synthetic_commit_nonzero first its1 it x s' o op t k w :
  start_pos first <> 0%N ->
  cstep (fst (crun first its1)) it = (s', o) -> i_ev it = EErrorResponse x ->
  In (COut op t k w) o -> w <> 0%N.
Proof.
  intros Sp H Ev I. assert (I2 : In (COut op t k w) (couts o)) by (apply in_couts; auto).
  pose proof (cstep_couts (fst (crun first its1)) it) as E. rewrite H in E. simpl in E. rewrite E in I2. clear E.
  destruct (stopped (fst (crun first its1)) || i_pclosed it || write_fails (fst (crun first its1)) it); [contradiction|].
  rewrite Ev in I2. unfold ev_couts in I2.
  match type of I2 with context [if ?c then [_] else _] => destruct c end; [|contradiction].
  destruct I2 as [I2|[]]. inversion I2; subst. clear I2.
  pose proof (crun_overall_ge first its1) as G.
  pose proof (hp_val_ge (fst (crun first its1)) (i_prog it)) as G2.
  change (overall (head_state (fst (crun first its1)) it)) with (hp_val (fst (crun first its1)) (i_prog it)).
  change (highest (head_state (fst (crun first its1)) it)) with (highest (fst (crun first its1))).
  destruct (N.eqb_spec (highest (fst (crun first its1))) 0); lia.
Qed.

(* ================================================================================== *)
(* 8. The blocked-output loop: status updates while the downstream channel is full     *)
(* ================================================================================== *)
(* C03: every value acknowledged in an iteration - at the loop head, at the second handleProgress
   call, or at a tick served while the output channel is full - is the position held when the
   iteration began or a value delivered on the progress channel during the iteration *)
Lemma cstep_sends_sourced s it s' o a :
  cstep s it = (s', o) -> In a (acks o) ->
  a = overall s \/ In a (i_prog it) \/ In a (i_prog2 it) \/ In a (blocked_values (i_blocked it)).
Proof.
  intros H I.
  destruct (cstep_source s it s' o (fun v => v = overall s \/ In v (iter_values it)) H) as [_ F];
    [now left|intros v Hv; now right|].
  rewrite Forall_forall in F. destruct (F a I) as [E|E]; [now left|right].
  unfold iter_values in E. apply in_app_or in E. destruct E as [E|E]; [now left|right].
  apply in_app_or in E. exact E.
Qed.

(* C18: no tick served while the output channel is full finds the progress channel closed: one
   status update per tick between the receive and the hand-over, and the message is forwarded *)
Lemma cstep_blocked_tick_sends s it s' o :
  stopped s = false -> i_pclosed it = false ->
  reaches_write_loop s (i_ev it) = true -> blocked_closed (i_blocked it) = false ->
  cstep s it = (s', o) ->
  exists m sends,
    ev_couts (head_state s it) (i_ev it) = [m] /\
    o = head_pre s it ++ CRecv :: sends ++ [m] /\
    sends = blocked_obs (highest s') (negb (i_dies it)) (hp_val s (i_prog it)) (i_blocked it) /\
    (forall x, In x sends ->
       (exists f, x = CGetStart (highest s') f /\ (f = true -> i_dies it = true)) \/ exists v, x = CSend v) /\
    List.length (acks sends) = List.length (i_blocked it) /\
    List.length (acks o) = ((if head_sends s it then 1 else 0) + List.length (i_blocked it))%nat /\
    stopped s' = false /\
    overall s' = blocked_val (hp_val s (i_prog it)) (i_blocked it).
Proof.
  intros R Pc Hr Hc H.
  destruct (cstep_write_loop s it s' o R Pc Hr H) as (m & Em & Eo & Ea & Es & Ev).
  rewrite Hc in Eo, Es.
  exists m, (blocked_obs (highest s') (negb (i_dies it)) (hp_val s (i_prog it)) (i_blocked it)).
  repeat split; try assumption.
  - intros x I. destruct (blocked_obs_shape _ _ _ _ _ I) as [(f & E & Ff)|Hv]; [left|now right].
    exists f. split; [exact E|]. intros Hf. specialize (Ff Hf). now destruct (i_dies it).
  - apply blocked_obs_count. exact Hc.
  - rewrite Ea, app_length, (blocked_obs_count _ _ _ _ Hc). destruct (head_sends s it); reflexivity.
Qed.

(* ... and when one of them does: the status updates of the ticks before it, then Close, Stop;
   the message held is never forwarded *)
Lemma cstep_blocked_channel_closed s it s' o :
  stopped s = false -> i_pclosed it = false ->
  reaches_write_loop s (i_ev it) = true -> blocked_closed (i_blocked it) = true ->
  cstep s it = (s', o) ->
  o = head_pre s it ++ CRecv :: blocked_obs (highest s') (negb (i_dies it)) (hp_val s (i_prog it)) (i_blocked it) ++ [CClose; CStop] /\
  couts o = [] /\ stopped s' = true.
Proof.
  intros R Pc Hr Hc H.
  destruct (cstep_write_loop s it s' o R Pc Hr H) as (m & Em & Eo & Ea & Es & Ev).
  rewrite Hc in Eo, Es. repeat split; try assumption.
  pose proof (cstep_couts s it) as C. rewrite H in C. cbn [snd] in C.
  unfold write_fails in C. rewrite Hr, Hc, R, Pc in C. exact C.
Qed.

(* ================================================================================== *)
(* 9. The connection dies silently at a message boundary                               *)
(* ================================================================================== *)
(* run level: in iteration k (= after [its1]) of a running client, a request that issues
   START_REPLICATION before the receive carries hi_spec of the events received in iterations
   0..k-1; one issued after the receive exists only if the connection died at this message
   boundary and carries hi_spec of the events 0..k - the event just received INCLUDED: if that is a
   COMMIT held in the blocked-output loop, the reconnect asks for the end of that transaction *)
Lemma crun_restart_after_silent_death first its1 it s' o :
  stopped (fst (crun first its1)) = false -> i_pclosed it = false ->
  cstep (fst (crun first its1)) it = (s', o) ->
  exists pre post, o = pre ++ CRecv :: post /\ ~ In CRecv pre /\ ~ In CRecv post /\
    (forall l, In (CGetStart l true) pre -> l = hi_spec 0 (map i_ev its1)) /\
    (forall l, In (CGetStart l true) post ->
       i_dies it = true /\ l = hi_spec 0 (map i_ev (its1 ++ [it]))).
Proof.
  intros R Pc H.
  destruct (crun_restart_split first its1 it s' o R Pc H) as (pre & post & E & N1 & N2 & P1 & P2).
  exists pre, post. split; [exact E|]. split; [exact N1|]. split; [exact N2|]. split.
  - intros l I. exact (P1 l true I).
  - intros l I. destruct (P2 l true I) as [El Ff]. split; [exact (Ff eq_refl)|exact El].
Qed.

(* existence: a COMMIT is received, the connection dies at that boundary, the output channel is
   full and the first tick finds the progress channel open: the very next observation after the
   receive is START_REPLICATION at the end of that COMMIT's transaction (or the higher position
   already held) *)
Lemma cstep_silent_death_reconnects s it s' o w t vs r :
  stopped s = false -> i_pclosed it = false -> i_ev it = EXLog w (XCommit t) -> i_dies it = true ->
  i_blocked it = (vs, false) :: r -> cstep s it = (s', o) ->
  exists post, o = head_pre s it ++ CRecv :: CGetStart (N.max (highest s) w) true :: post.
Proof.
  intros R Pc Ev D Bl H.
  assert (Hr : reaches_write_loop s (i_ev it) = true) by (rewrite Ev; reflexivity).
  destruct (cstep_write_loop s it s' o R Pc Hr H) as (m & _ & Eo & _).
  pose proof (cstep_highest s it) as Hh. rewrite H, R, Pc, Ev in Hh. cbn [fst orb hi_ev] in Hh.
  rewrite Eo, Bl, D, Hh. cbn [blocked_obs negb app]. eexists. reflexivity.
Qed.
