(* FrontProofs.v — the front stages (model/Front.v: filter -> partitioner -> marshaller) and their
   composition with the back end (model/Pipeline.v: batcher -> workers -> sink -> ledger).

     Part A  vocabulary: passes / key_of / out_of / sel / has_key
     Part B  the shape of [front]: the output is the marshalled form of the consumed input that
             passes the filter, in order (front_consumed); no stage stops when every regexp compiled
             and the bucket count is not 0 (front_total); relation to Filter.stage
     Part C  C08 / C05 / C06 / C04 flavoured facts about the front alone: front_forwarded_iff,
             front_order, front_pkey, front_fields_intact
     Part D  composition: whatever the batcher is fed is an initial segment of [front]'s output;
             pipeline_exactly_once, pipeline_record_intact, pipeline_complete_at_quiescence and
             pipeline_sink_order_per_key lifted to statements about the WAL stream *)
From Bifrost.model Require Import Base Crc32 Batch Batcher Ledger Pipeline Filter Partition Front.
From Bifrost.proofs Require Import BatchProofs BatcherProofs PipelineProofs PipelineE2E FilterProofs PartitionProofs.
From Coq Require Import Permutation.

(* ===================================================================== *)
(* Part A — vocabulary                                                     *)
(* ===================================================================== *)

(* BEGIN / COMMIT *)
Definition wmarker (w : wal) : bool := Filter.is_marker (fmsg_of w).

(* the filter's intended verdict (FilterProofs.fwd): a marker, or a relation the list permits *)
Definition passes (cfg : frcfg) (M : string -> string -> bool) (w : wal) : bool :=
  fwd (fr_filter cfg) M (fmsg_of w).

(* the partition key the configured method gives the message ("" where the partitioner would panic) *)
Definition key_of (cfg : frcfg) (w : wal) : string :=
  match pkey (fr_method cfg) (fr_buckets cfg) (w_rel w) (w_txn w) with PKey k => k | PPanic => "" end.

(* the MarshalledMessage of an input message *)
Definition out_of (cfg : frcfg) (jlen : wal -> N) (w : wal) : msg := marshal jlen w (key_of cfg w).

(* a row change whose relation the filter permits and whose marshalled form satisfies g *)
Definition sel (cfg : frcfg) (M : string -> string -> bool) (jlen : wal -> N) (g : msg -> bool) (w : wal) : bool :=
  negb (wmarker w) && decide (fr_filter cfg) M (w_rel w) && g (out_of cfg jlen w).

(* the configured method gives the message partition key p *)
Definition has_key (cfg : frcfg) (p : string) (w : wal) : bool :=
  match pkey (fr_method cfg) (fr_buckets cfg) (w_rel w) (w_txn w) with
  | PKey k => String.eqb k p
  | PPanic => false
  end.

(* the bucket count cannot make the partitioner panic *)
Definition buckets_ok (cfg : frcfg) : Prop := fr_method cfg = PBucket -> fr_buckets cfg <> 0%N.

Lemma passes_unfold cfg M w : passes cfg M w = wmarker w || decide (fr_filter cfg) M (w_rel w).
Proof. reflexivity. Qed.

Lemma change_out_of cfg jlen w : change (out_of cfg jlen w) = negb (wmarker w).
Proof. reflexivity. Qed.

Lemma m_id_out_of cfg jlen w : m_id (out_of cfg jlen w) = w_id w.
Proof. reflexivity. Qed.

Lemma map_id_out_of cfg jlen l : map m_id (map (out_of cfg jlen) l) = map w_id l.
Proof. rewrite map_map. apply map_ext. intros; reflexivity. Qed.

Lemma out_of_inj cfg jlen a b : out_of cfg jlen a = out_of cfg jlen b -> a = b.
Proof.
  destruct a as [i o r t k l], b as [i' o' r' t' k' l']. unfold out_of, marshal. simpl.
  intros H. inversion H; subst. reflexivity.
Qed.

(* ---------- list helpers ---------- *)
Lemma filter_map_comm {A B} (f : B -> bool) (g : A -> B) (l : list A) :
  filter f (map g l) = map g (filter (fun x => f (g x)) l).
Proof.
  induction l as [|x l IH]; [reflexivity|]. simpl. destruct (f (g x)); simpl; now rewrite IH.
Qed.

Lemma filter_filter {A} (f g : A -> bool) (l : list A) :
  filter f (filter g l) = filter (fun x => g x && f x) l.
Proof.
  induction l as [|x l IH]; [reflexivity|]. simpl. destruct (g x); simpl; [destruct (f x)|]; now rewrite IH.
Qed.

Lemma sublist_NoDup {A} (a b : list A) : sublist a b -> NoDup b -> NoDup a.
Proof.
  induction 1; intros Hn.
  - constructor.
  - inversion Hn; subst. auto.
  - inversion Hn; subst. constructor; [|auto]. intros Hin. apply H2. eapply sublist_in; eauto.
Qed.

Lemma sublist_prefix {A} (a b : list A) : prefix a b -> sublist a b.
Proof.
  intros [r ->]. rewrite <- (app_nil_r a) at 1. apply sublist_app; [apply sublist_refl|apply sub_nil].
Qed.

Lemma prefix_in {A} (a b : list A) x : prefix a b -> In x a -> In x b.
Proof. intros [r ->] H. apply in_or_app. now left. Qed.

Lemma prefix_NoDup_map {A B} (f : A -> B) (a b : list A) : prefix a b -> NoDup (map f b) -> NoDup (map f a).
Proof. intros Hp. apply sublist_NoDup, sublist_prefix, prefix_map, Hp. Qed.

(* ===================================================================== *)
(* Part B — the shape of [front]                                           *)
(* ===================================================================== *)

Lemma step_forward c bad M m : Filter.step c bad M m = Forward -> fwd c M m = true.
Proof.
  intros H. assert (Hn : Filter.step c bad M m <> Panic) by congruence.
  rewrite (step_nopanic _ _ _ _ Hn) in H. destruct (fwd c M m); [reflexivity|discriminate].
Qed.

Lemma step_drop c bad M m : Filter.step c bad M m = Drop -> fwd c M m = false.
Proof.
  intros H. assert (Hn : Filter.step c bad M m <> Panic) by congruence.
  rewrite (step_nopanic _ _ _ _ Hn) in H. destruct (fwd c M m); [discriminate|reflexivity].
Qed.

(* one message: the four outcomes *)
Lemma front_step_out cfg bad M jlen w m : front_step cfg bad M jlen w = FOut m ->
  passes cfg M w = true /\
  pkey (fr_method cfg) (fr_buckets cfg) (w_rel w) (w_txn w) = PKey (key_of cfg w) /\
  m = out_of cfg jlen w.
Proof.
  unfold front_step, passes, out_of, key_of.
  destruct (Filter.step (fr_filter cfg) bad M (fmsg_of w)) eqn:Es; try discriminate.
  destruct (pkey (fr_method cfg) (fr_buckets cfg) (w_rel w) (w_txn w)) eqn:Ek; try discriminate.
  intros H. inversion H; subst. split; [now apply (step_forward _ bad)|]. split; reflexivity.
Qed.

Lemma front_step_dropped cfg bad M jlen w : front_step cfg bad M jlen w = FDropped -> passes cfg M w = false.
Proof.
  unfold front_step, passes.
  destruct (Filter.step (fr_filter cfg) bad M (fmsg_of w)) eqn:Es; try discriminate.
  - destruct (pkey (fr_method cfg) (fr_buckets cfg) (w_rel w) (w_txn w)); discriminate.
  - intros _. now apply (step_drop _ bad).
Qed.

(* the outcome does not depend on the marshalling function, except for the JSON length it records *)
Lemma front_step_jlen cfg bad M j1 j2 w :
  match front_step cfg bad M j1 w with
  | FOut _ => exists m, front_step cfg bad M j2 w = FOut m
  | r => front_step cfg bad M j2 w = r
  end.
Proof.
  unfold front_step. destruct (Filter.step (fr_filter cfg) bad M (fmsg_of w)); try reflexivity.
  destruct (pkey (fr_method cfg) (fr_buckets cfg) (w_rel w) (w_txn w)); [eexists|]; reflexivity.
Qed.

Lemma front_cons cfg bad M jlen w r :
  front cfg bad M jlen (w :: r) =
  match front_step cfg bad M jlen w with
  | FOut m => let '(o, s) := front cfg bad M jlen r in (m :: o, s)
  | FDropped => front cfg bad M jlen r
  | FPanicFilter => ([], StopFilter)
  | FPanicPartition => ([], StopPartition)
  end.
Proof. reflexivity. Qed.

Lemma consumed_cons cfg bad M w r :
  consumed cfg bad M (w :: r) =
  match front_step cfg bad M (fun _ => 0%N) w with
  | FOut _ | FDropped => w :: consumed cfg bad M r
  | _ => []
  end.
Proof. reflexivity. Qed.

(* THE SHAPE: the output is the marshalled form of the consumed input that passes the filter, in order *)
Theorem front_consumed cfg bad M jlen ws :
  fst (front cfg bad M jlen ws) =
  map (out_of cfg jlen) (filter (passes cfg M) (consumed cfg bad M ws)).
Proof.
  induction ws as [|w r IH]; [reflexivity|].
  rewrite front_cons, consumed_cons.
  pose proof (front_step_jlen cfg bad M jlen (fun _ => 0%N) w) as Hj.
  destruct (front_step cfg bad M jlen w) as [m| | |] eqn:Es.
  - destruct Hj as [m0 Hj]. rewrite Hj.
    destruct (front_step_out _ _ _ _ _ _ Es) as (Hp & _ & ->).
    destruct (front cfg bad M jlen r) as [o s]. simpl in *. rewrite Hp. simpl. now rewrite IH.
  - rewrite Hj. simpl. rewrite (front_step_dropped _ _ _ _ _ Es). exact IH.
  - rewrite Hj. reflexivity.
  - rewrite Hj. reflexivity.
Qed.

(* what was consumed is an initial segment of the input; all of it when no stage stopped *)
Lemma consumed_prefix cfg bad M ws : prefix (consumed cfg bad M ws) ws.
Proof.
  induction ws as [|w r [rest IH]]; [now exists []|]. rewrite consumed_cons.
  destruct (front_step cfg bad M (fun _ => 0%N) w).
  - exists rest. simpl. now rewrite <- IH.
  - exists rest. simpl. now rewrite <- IH.
  - now exists (w :: r).
  - now exists (w :: r).
Qed.

Lemma consumed_in cfg bad M ws w : In w (consumed cfg bad M ws) -> In w ws.
Proof. apply prefix_in, consumed_prefix. Qed.

Lemma consumed_all cfg bad M jlen ws :
  snd (front cfg bad M jlen ws) = StopNone -> consumed cfg bad M ws = ws.
Proof.
  induction ws as [|w r IH]; [reflexivity|]. rewrite front_cons, consumed_cons.
  pose proof (front_step_jlen cfg bad M jlen (fun _ => 0%N) w) as Hj.
  destruct (front_step cfg bad M jlen w) as [m| | |] eqn:Es.
  - destruct Hj as [m0 ->]. destruct (front cfg bad M jlen r) as [o s]. simpl in *. intros H. now rewrite IH.
  - rewrite Hj. intros H. now rewrite IH.
  - discriminate.
  - discriminate.
Qed.

Theorem front_shape cfg bad M jlen ws :
  fst (front cfg bad M jlen ws) =
  map (out_of cfg jlen) (filter (passes cfg M) (consumed cfg bad M ws)) /\
  prefix (consumed cfg bad M ws) ws /\
  (snd (front cfg bad M jlen ws) = StopNone -> consumed cfg bad M ws = ws).
Proof.
  split; [apply front_consumed|]. split; [apply consumed_prefix|apply consumed_all].
Qed.

(* every consumed message that passes the filter got a key from the partitioner *)
Lemma consumed_key cfg bad M ws w : In w (consumed cfg bad M ws) -> passes cfg M w = true ->
  pkey (fr_method cfg) (fr_buckets cfg) (w_rel w) (w_txn w) = PKey (key_of cfg w).
Proof.
  induction ws as [|w0 r IH]; [intros []|]. rewrite consumed_cons.
  destruct (front_step cfg bad M (fun _ => 0%N) w0) as [m| | |] eqn:Es.
  - intros [<-|Hin] Hp; [|auto]. now destruct (front_step_out _ _ _ _ _ _ Es) as (_ & Hk & _).
  - intros [<-|Hin] Hp; [|auto]. rewrite (front_step_dropped _ _ _ _ _ Es) in Hp. discriminate.
  - intros [].
  - intros [].
Qed.

Lemma has_key_consumed cfg bad M ws w p : In w (consumed cfg bad M ws) -> passes cfg M w = true ->
  has_key cfg p w = String.eqb (key_of cfg w) p.
Proof. intros Hin Hp. unfold has_key. now rewrite (consumed_key _ _ _ _ _ Hin Hp). Qed.

(* every output message comes from a consumed input message that passes the filter *)
Lemma front_out_origin cfg bad M jlen ws m : In m (fst (front cfg bad M jlen ws)) ->
  exists w, In w (consumed cfg bad M ws) /\ In w ws /\ passes cfg M w = true /\ m = out_of cfg jlen w /\
            pkey (fr_method cfg) (fr_buckets cfg) (w_rel w) (w_txn w) = PKey (m_pkey m).
Proof.
  rewrite front_consumed. intros H. apply in_map_iff in H. destruct H as (w & <- & Hw).
  apply filter_In in Hw. destruct Hw as [Hc Hp]. exists w.
  split; [assumption|]. split; [eapply consumed_in; eauto|]. split; [assumption|]. split; [reflexivity|].
  exact (consumed_key _ _ _ _ _ Hc Hp).
Qed.

(* no stage can stop: every regexp of the list compiled and the bucket count is not 0 *)
Lemma pkey_nopanic cfg w : buckets_ok cfg ->
  pkey (fr_method cfg) (fr_buckets cfg) (w_rel w) (w_txn w) = PKey (key_of cfg w).
Proof.
  intros Hb. unfold key_of, buckets_ok in *. destruct (fr_method cfg); try reflexivity.
  unfold pkey, quick_hash. destruct (N.eqb_spec (fr_buckets cfg) 0) as [E|_]; [now elim Hb|reflexivity].
Qed.

Lemma front_step_total cfg bad M jlen w : regs_compile (fr_filter cfg) bad -> buckets_ok cfg ->
  front_step cfg bad M jlen w = if passes cfg M w then FOut (out_of cfg jlen w) else FDropped.
Proof.
  intros Hc Hb. unfold front_step, passes. rewrite (step_compiled _ _ M (fmsg_of w) Hc).
  destruct (fwd (fr_filter cfg) M (fmsg_of w)); [|reflexivity].
  now rewrite (pkey_nopanic cfg w Hb).
Qed.

Theorem front_total cfg bad M jlen ws : regs_compile (fr_filter cfg) bad -> buckets_ok cfg ->
  front cfg bad M jlen ws = (map (out_of cfg jlen) (filter (passes cfg M) ws), StopNone).
Proof.
  intros Hc Hb. induction ws as [|w r IH]; [reflexivity|].
  rewrite front_cons, (front_step_total _ _ _ _ _ Hc Hb), IH. simpl.
  destruct (passes cfg M w); reflexivity.
Qed.

Lemma consumed_total cfg bad M ws : regs_compile (fr_filter cfg) bad -> buckets_ok cfg ->
  consumed cfg bad M ws = ws.
Proof.
  intros Hc Hb. apply (consumed_all cfg bad M (fun _ => 0%N)). now rewrite front_total.
Qed.

(* the front is Filter.stage followed by the two stages that forward everything: when the bucket
   count cannot make the partitioner panic, the ids leaving the marshaller are the ids Filter.stage
   forwards, and the front stops exactly when Filter.stage panics *)
Lemma forwarded_cons_res m r : forwarded (cons_res m r) = m :: forwarded r.
Proof. destruct r; reflexivity. Qed.

Lemma panicked_cons_res m r :
  match cons_res m r with Panicked _ => true | Done _ => false end =
  match r with Panicked _ => true | Done _ => false end.
Proof. destruct r; reflexivity. Qed.

Theorem front_is_filter_stage cfg bad M jlen ws : buckets_ok cfg ->
  map m_id (fst (front cfg bad M jlen ws)) =
    map f_id (forwarded (stage (fr_filter cfg) bad M (map fmsg_of ws))) /\
  stopped (snd (front cfg bad M jlen ws)) =
    match stage (fr_filter cfg) bad M (map fmsg_of ws) with Panicked _ => true | Done _ => false end.
Proof.
  intros Hb. induction ws as [|w r [IH1 IH2]]; [split; reflexivity|].
  rewrite front_cons. simpl map. simpl stage. unfold front_step.
  destruct (Filter.step (fr_filter cfg) bad M (fmsg_of w)).
  - rewrite (pkey_nopanic cfg w Hb). destruct (front cfg bad M jlen r) as [o s]. simpl in *.
    rewrite forwarded_cons_res, panicked_cons_res. simpl. now rewrite IH1, IH2.
  - split; assumption.
  - split; reflexivity.
Qed.

(* ===================================================================== *)
(* Part C — the front alone                                                *)
(* ===================================================================== *)

(* C08 through the three stages: a consumed input message comes out of the marshaller iff it is a
   marker or its relation is permitted *)
Theorem front_forwarded_iff cfg bad M jlen ws w : In w (consumed cfg bad M ws) ->
  (In (out_of cfg jlen w) (fst (front cfg bad M jlen ws)) <->
   wmarker w = true \/ decide (fr_filter cfg) M (w_rel w) = true).
Proof.
  intros Hc. rewrite front_consumed, <- orb_true_iff, <- passes_unfold. split.
  - intros H. apply in_map_iff in H. destruct H as (w' & E & Hw'). apply out_of_inj in E. subst w'.
    apply filter_In in Hw'. tauto.
  - intros Hp. apply in_map. apply filter_In. auto.
Qed.

(* ... stated with the user's intent, for the configuration each kind of list needs *)
Corollary front_forwarded_permitted kind lst meth buckets bad M jlen ws w :
  In w (consumed (mkFront (cfg_of kind lst) meth buckets) bad M ws) ->
  (In (out_of (mkFront (cfg_of kind lst) meth buckets) jlen w)
      (fst (front (mkFront (cfg_of kind lst) meth buckets) bad M jlen ws)) <->
   wmarker w = true \/ permitted kind lst M (w_rel w)).
Proof.
  intros Hc. rewrite (front_forwarded_iff _ _ _ _ _ _ Hc). simpl fr_filter.
  now rewrite (decide_permitted kind lst M (w_rel w)).
Qed.

(* when no stage can stop, every input message is consumed *)
Corollary front_forwarded_iff_total cfg bad M jlen ws w :
  regs_compile (fr_filter cfg) bad -> buckets_ok cfg -> In w ws ->
  (In (out_of cfg jlen w) (fst (front cfg bad M jlen ws)) <->
   wmarker w = true \/ decide (fr_filter cfg) M (w_rel w) = true).
Proof.
  intros Hr Hb Hin. apply front_forwarded_iff. now rewrite consumed_total.
Qed.

(* order: the ids leaving the marshaller are a subsequence of the input ids, in input order;
   nothing duplicated when the input ids are pairwise distinct *)
Theorem front_order cfg bad M jlen ws :
  sublist (map m_id (fst (front cfg bad M jlen ws))) (map w_id ws) /\
  (NoDup (map w_id ws) -> NoDup (map m_id (fst (front cfg bad M jlen ws)))).
Proof.
  assert (S : sublist (map m_id (fst (front cfg bad M jlen ws))) (map w_id ws)).
  { rewrite front_consumed, map_id_out_of.
    eapply sublist_trans; [apply sublist_map_filter|].
    apply sublist_prefix, prefix_map, consumed_prefix. }
  split; [exact S|]. intros Hn. exact (sublist_NoDup _ _ S Hn).
Qed.

(* nothing invented: every output message is the marshalled form of an input message *)
Theorem front_nothing_invented cfg bad M jlen ws m : In m (fst (front cfg bad M jlen ws)) ->
  exists w, In w ws /\ m = marshal jlen w (m_pkey m).
Proof.
  intros H. destruct (front_out_origin _ _ _ _ _ _ H) as (w & _ & Hin & _ & -> & _).
  exists w. split; [assumption|reflexivity].
Qed.

(* C06, key part: every output message carries the key the configured method gives its
   (relation, transaction id); with transaction-bucket it names one of the buckets *)
Theorem front_pkey cfg bad M jlen ws m : In m (fst (front cfg bad M jlen ws)) ->
  pkey (fr_method cfg) (fr_buckets cfg) (m_table m) (m_txn m) = PKey (m_pkey m) /\
  (fr_method cfg = PBucket -> exists i, (i < fr_buckets cfg)%N /\ m_pkey m = dec i).
Proof.
  intros H. destruct (front_out_origin _ _ _ _ _ _ H) as (w & _ & _ & _ & E & Hk).
  assert (Hk' : pkey (fr_method cfg) (fr_buckets cfg) (m_table m) (m_txn m) = PKey (m_pkey m)).
  { rewrite E at 1 2. exact Hk. }
  split; [exact Hk'|]. intros Hm. rewrite Hm in Hk'. unfold pkey, quick_hash in Hk'.
  destruct (N.eqb_spec (fr_buckets cfg) 0) as [E0|NE]; [discriminate|].
  exists (crc32 (m_txn m) mod fr_buckets cfg)%N. split; [apply N.mod_lt; assumption|].
  now inversion Hk'.
Qed.

(* ... as a closed formula when the bucket count is not 0 *)
Corollary front_pkey_function cfg bad M jlen ws m : fr_buckets cfg <> 0%N ->
  In m (fst (front cfg bad M jlen ws)) ->
  m_pkey m = match fr_method cfg with
             | PNone => "" | PTable => m_table m | PTxn => m_txn m
             | PBucket => dec (crc32 (m_txn m) mod fr_buckets cfg)
             end.
Proof.
  intros Hb H. destruct (front_pkey _ _ _ _ _ _ H) as [Hk _].
  rewrite (pkey_function _ _ (m_table m) (m_txn m) Hb) in Hk. now inversion Hk.
Qed.

(* intact: operation, table, transaction id, delivery key and WAL position are copied unchanged,
   and the JSON is the one the marshalling function makes of that message *)
Theorem front_fields_intact cfg bad M jlen ws m : In m (fst (front cfg bad M jlen ws)) ->
  exists w, In w ws /\ m_id m = w_id w /\ m_op m = w_op w /\ m_table m = w_rel w /\
            m_txn m = w_txn w /\ m_key m = w_key w /\ m_wal m = w_wal w /\ m_jlen m = jlen w.
Proof.
  intros H. destruct (front_out_origin _ _ _ _ _ _ H) as (w & _ & Hin & _ & -> & _).
  exists w. repeat split; assumption || reflexivity.
Qed.

(* ===================================================================== *)
(* Part D — composition with the back end                                  *)
(* ===================================================================== *)

(* selecting from the front's output = selecting from the consumed input *)
Lemma filter_front_out cfg M jlen (f : msg -> bool) l :
  filter f (map (out_of cfg jlen) (filter (passes cfg M) l)) =
  map (out_of cfg jlen) (filter (fun w => passes cfg M w && f (out_of cfg jlen w)) l).
Proof. now rewrite filter_map_comm, filter_filter. Qed.

Lemma filter_changes_front_out cfg M jlen (g : msg -> bool) l :
  filter (fun m => change m && g m) (map (out_of cfg jlen) (filter (passes cfg M) l)) =
  map (out_of cfg jlen) (filter (sel cfg M jlen g) l).
Proof.
  rewrite filter_front_out. f_equal. apply filter_ext. intros w.
  rewrite change_out_of, passes_unfold. unfold sel.
  destruct (wmarker w), (decide (fr_filter cfg) M (w_rel w)), (g (out_of cfg jlen w)); reflexivity.
Qed.

Lemma filter_accp_front_out cfg bad M jlen bc p ws :
  filter (accp bc p) (fst (front cfg bad M jlen ws)) =
  map (out_of cfg jlen)
      (filter (fun w => sel cfg M jlen (accepted bc) w && has_key cfg p w) (consumed cfg bad M ws)).
Proof.
  rewrite front_consumed, filter_front_out. f_equal. apply filter_ext_in. intros w Hin.
  unfold accp. rewrite change_out_of. unfold sel.
  destruct (passes cfg M w) eqn:Hp.
  - rewrite (has_key_consumed _ _ _ _ _ p Hin Hp). rewrite passes_unfold in Hp.
    change (m_pkey (out_of cfg jlen w)) with (key_of cfg w).
    destruct (wmarker w), (decide (fr_filter cfg) M (w_rel w)); simpl in *; try reflexivity; discriminate.
  - rewrite passes_unfold in Hp. apply orb_false_elim in Hp. destruct Hp as [-> ->]. reflexivity.
Qed.

Section Composed.
  Context (cfg : frcfg) (bad : string -> bool) (M : string -> string -> bool) (jlen : wal -> N)
          (ws : list wal) (bc : bcfg) (ls : list plabel).
  Let out := fst (front cfg bad M jlen ws).
  (* what the batcher was fed is an initial segment of what left the marshaller *)
  Context (Hfed : prefix (fed_of ls) out).
  Context (Hw : workers_ok bc).

  Lemma fed_nodup : NoDup (map w_id ws) -> NoDup (map m_id (fed_of ls)).
  Proof.
    intros Hn. apply (prefix_NoDup_map m_id _ out Hfed).
    now apply (proj2 (front_order cfg bad M jlen ws)).
  Qed.

  (* (ii) every record the sink accepted is the record of a change of the WAL stream that passes the
     filter, carrying the partition key the configured method gives its (relation, xid) *)
  Theorem front_sink_record : forall r, In r (p_accepted (prun bc ls)) ->
    exists w, In w ws /\ wmarker w = false /\ decide (fr_filter cfg) M (w_rel w) = true /\
              pkey (fr_method cfg) (fr_buckets cfg) (w_rel w) (w_txn w) = PKey (key_of cfg w) /\
              accepted bc (out_of cfg jlen w) = true /\
              r = rec_of_kind (c_kind bc) (out_of cfg jlen w).
  Proof.
    intros r Hr. destruct (pipeline_record_intact bc ls Hw r Hr) as (m & Hm & Hch & Hacc & ->).
    apply (prefix_in _ _ _ Hfed) in Hm.
    destruct (front_out_origin _ _ _ _ _ _ Hm) as (w & Hc & Hin & Hp & -> & _).
    exists w. rewrite change_out_of in Hch. apply negb_true_iff in Hch.
    rewrite passes_unfold, Hch in Hp. simpl in Hp.
    repeat split; try assumption.
    apply (consumed_key _ _ _ _ _ Hc). now rewrite passes_unfold, Hch.
  Qed.

  (* (i) no change whose relation the filter removes is ever accepted by the sink *)
  Theorem front_sink_no_filtered : NoDup (map w_id ws) ->
    forall w, In w ws -> wmarker w = false -> decide (fr_filter cfg) M (w_rel w) = false ->
    ~ In (w_id w) (rec_ids (p_accepted (prun bc ls))).
  Proof.
    intros Hn w Hin Hmk Hd Hacc. unfold rec_ids in Hacc. apply in_map_iff in Hacc.
    destruct Hacc as (r & Ei & Hr). destruct (front_sink_record r Hr) as (w' & Hin' & _ & Hd' & _ & _ & ->).
    rewrite r_id_rec_of_kind, m_id_out_of in Ei.
    assert (w' = w) by (eapply (NoDup_map_eq w_id); eauto). subst w'. congruence.
  Qed.

  (* markers never reach the sink either *)
  Theorem front_sink_no_marker : NoDup (map w_id ws) ->
    forall w, In w ws -> wmarker w = true -> ~ In (w_id w) (rec_ids (p_accepted (prun bc ls))).
  Proof.
    intros Hn w Hin Hmk Hacc. unfold rec_ids in Hacc. apply in_map_iff in Hacc.
    destruct Hacc as (r & Ei & Hr). destruct (front_sink_record r Hr) as (w' & Hin' & Hmk' & _ & _ & _ & ->).
    rewrite r_id_rec_of_kind, m_id_out_of in Ei.
    assert (w' = w) by (eapply (NoDup_map_eq w_id); eauto). subst w'. congruence.
  Qed.

  (* exactly once from the WAL to the sink: no id accepted twice, every accepted id is the id of a
     change of the WAL stream that passes the filter and that the batch limits accept *)
  Theorem front_sink_exactly_once : NoDup (map w_id ws) ->
    NoDup (rec_ids (p_accepted (prun bc ls))) /\
    forall i, In i (rec_ids (p_accepted (prun bc ls))) ->
              In i (map w_id (filter (sel cfg M jlen (accepted bc)) ws)).
  Proof.
    intros Hn. destruct (pipeline_exactly_once bc ls Hw (fed_nodup Hn)) as [H1 _].
    split; [exact H1|]. intros i Hi. unfold rec_ids in Hi. apply in_map_iff in Hi.
    destruct Hi as (r & <- & Hr). destruct (front_sink_record r Hr) as (w & Hin & Hmk & Hd & _ & Ha & ->).
    rewrite r_id_rec_of_kind, m_id_out_of. apply in_map. apply filter_In. split; [assumption|].
    unfold sel. now rewrite Hmk, Hd, Ha.
  Qed.

  (* (iv) per partition key the sink order is the WAL order: for every key p, the batches of key p
     accepted by the sink, concatenated in ACCEPTANCE order, are an initial segment of the records
     of the changes of the WAL stream, in WAL order, that pass the filter, that the limits accept
     and to which the configured method gives key p *)
  Lemma front_accp_prefix p :
    prefix (map (rec_of_kind (c_kind bc)) (filter (accp bc p) (fed_of ls)))
           (map (fun w => rec_of_kind (c_kind bc) (out_of cfg jlen w))
                (filter (fun w => sel cfg M jlen (accepted bc) w && has_key cfg p w) ws)).
  Proof.
    eapply prefix_trans.
    - apply prefix_map, prefix_filter. exact Hfed.
    - unfold out. rewrite filter_accp_front_out, map_map.
      apply prefix_map, prefix_filter, consumed_prefix.
  Qed.

  Theorem front_sink_order_per_key : c_routing bc = ByPartition -> forall p,
    prefix (items_of (for_key p (accepted_batches bc ls)))
           (map (fun w => rec_of_kind (c_kind bc) (out_of cfg jlen w))
                (filter (fun w => sel cfg M jlen (accepted bc) w && has_key cfg p w) ws)).
  Proof.
    intros Hr p. eapply prefix_trans; [exact (pipeline_sink_order_per_key bc ls p Hw Hr)|].
    apply front_accp_prefix.
  Qed.

  (* the same on the sink's flat record list (a record's key is that of the fed message with its id) *)
  Theorem front_sink_order_per_key_records : c_routing bc = ByPartition -> NoDup (map w_id ws) -> forall p,
    prefix (filter (rec_has_key (fed_of ls) p) (p_accepted (prun bc ls)))
           (map (fun w => rec_of_kind (c_kind bc) (out_of cfg jlen w))
                (filter (fun w => sel cfg M jlen (accepted bc) w && has_key cfg p w) ws)).
  Proof.
    intros Hr Hn p.
    eapply prefix_trans; [exact (pipeline_sink_order_per_key_records bc ls p Hw Hr (fed_nodup Hn))|].
    apply front_accp_prefix.
  Qed.

  (* one worker and partition method "none": the whole sink list is in WAL order *)
  Theorem front_sink_single_worker_whole_stream : c_workers bc = 1%N -> fr_method cfg = PNone ->
    prefix (p_accepted (prun bc ls))
           (map (fun w => rec_of_kind (c_kind bc) (out_of cfg jlen w))
                (filter (sel cfg M jlen (accepted bc)) ws)).
  Proof.
    intros H1 Hm.
    assert (Hk : forall m, In m (fed_of ls) -> m_pkey m = "").
    { intros m Hin. apply (prefix_in _ _ _ Hfed) in Hin.
      destruct (front_pkey _ _ _ _ _ _ Hin) as [Hk _]. rewrite Hm in Hk. simpl in Hk. now inversion Hk. }
    eapply prefix_trans; [exact (pipeline_single_worker_whole_stream bc ls "" H1 Hk)|].
    eapply prefix_trans.
    - apply prefix_map, prefix_filter. exact Hfed.
    - unfold out. rewrite front_consumed, filter_changes_front_out, map_map.
      apply prefix_map, prefix_filter, consumed_prefix.
  Qed.
End Composed.

(* (iii) nothing lost from the WAL to the sink: the batcher has received everything that left the
   marshaller, batcher and tracker are alive, every worker queue is empty and no open batch holds
   a record.  Then the sink has accepted, as a multiset of ids, exactly the changes of the consumed
   WAL stream that pass the filter and that the batch limits accept, and the two drop statistics
   count the changes that pass the filter and are too big / invalid *)
Theorem front_sink_complete_at_quiescence cfg bad M jlen ws bc ls : workers_ok bc ->
  fed_of ls = fst (front cfg bad M jlen ws) ->
  dead (p_b (prun bc ls)) = false -> p_failed (prun bc ls) = false ->
  queued (p_queues (prun bc ls)) = [] -> open_ids (p_b (prun bc ls)) = [] ->
  Permutation (rec_ids (p_accepted (prun bc ls)))
              (map w_id (filter (sel cfg M jlen (accepted bc)) (consumed cfg bad M ws))) /\
  drops_big (p_b (prun bc ls)) =
    N.of_nat (List.length (filter (sel cfg M jlen (is_big bc)) (consumed cfg bad M ws))) /\
  drops_invalid (p_b (prun bc ls)) =
    N.of_nat (List.length (filter (sel cfg M jlen (is_invalid bc)) (consumed cfg bad M ws))).
Proof.
  intros Hw Hfed Hd Hf Hq Ho.
  destruct (pipeline_complete_at_quiescence bc ls Hw Hd Hf Hq Ho) as (C1 & C2 & C3).
  rewrite Hfed, front_consumed in C1, C2, C3.
  rewrite filter_changes_front_out in C1, C2, C3.
  rewrite map_id_out_of in C1. rewrite map_length in C2, C3. auto.
Qed.

(* ... over the whole WAL stream when no stage of the front can stop *)
Corollary front_sink_complete_total cfg bad M jlen ws bc ls : workers_ok bc ->
  regs_compile (fr_filter cfg) bad -> buckets_ok cfg ->
  fed_of ls = fst (front cfg bad M jlen ws) ->
  dead (p_b (prun bc ls)) = false -> p_failed (prun bc ls) = false ->
  queued (p_queues (prun bc ls)) = [] -> open_ids (p_b (prun bc ls)) = [] ->
  Permutation (rec_ids (p_accepted (prun bc ls)))
              (map w_id (filter (sel cfg M jlen (accepted bc)) ws)) /\
  drops_big (p_b (prun bc ls)) = N.of_nat (List.length (filter (sel cfg M jlen (is_big bc)) ws)) /\
  drops_invalid (p_b (prun bc ls)) = N.of_nat (List.length (filter (sel cfg M jlen (is_invalid bc)) ws)).
Proof.
  intros Hw Hc Hb Hfed Hd Hf Hq Ho.
  pose proof (front_sink_complete_at_quiescence cfg bad M jlen ws bc ls Hw Hfed Hd Hf Hq Ho) as H.
  now rewrite (consumed_total cfg bad M ws Hc Hb) in H.
Qed.
