From Bifrost.model Require Import Base Backoff.
From Bifrost.gen Require Import GenWiring.

Lemma every_stage_defers : forallb st_defers_shutdown stages = true.
Proof. vm_compute. reflexivity. Qed.

Lemma shutdown_raises_signal :
  forallb st_shutdown_cancels stages = true /\
  forall s, In s stages ->
    st_calls_before_cancel s = [] \/
    (st_name s = "kafka transporter" /\ st_calls_before_cancel s = ["time.Sleep"; "field.Close"]).
Proof.
  split; [vm_compute; reflexivity|].
  intros s Hin. unfold stages in Hin. simpl in Hin.
  repeat (destruct Hin as [<-|Hin]; [simpl; first [now left | right; split; reflexivity]|]).
  contradiction.
Qed.

Lemma main_exits : main_waits_for_termination = true /\ main_exits_after_grace_timer = true.
Proof. split; reflexivity. Qed.

Lemma budget_exhausts : forall mx elapsed next,
  (0 < mx)%Z -> (mx < elapsed + next)%Z ->
  retries_again (policy_of_literal mx true) elapsed next = false.
Proof.
  intros mx elapsed next Hm Hlt. unfold retries_again, next_backoff, policy_of_literal; simpl.
  destruct (mx =? 0)%Z eqn:E0; [apply Z.eqb_eq in E0; lia|]. simpl.
  destruct (mx <? elapsed + next)%Z eqn:E1; [reflexivity|]. apply Z.ltb_ge in E1. lia.
Qed.

Lemma budget_never_exhausts : forall mx elapsed next,
  (0 <= next)%Z -> retries_again (policy_of_literal mx false) elapsed next = true.
Proof.
  intros mx elapsed next Hn. unfold retries_again, next_backoff, policy_of_literal, backoff_Stop; simpl.
  destruct (negb (mx =? 0)%Z && (mx <? elapsed + next)%Z); simpl; [reflexivity|].
  destruct (next =? -1)%Z eqn:E; [apply Z.eqb_eq in E; lia|reflexivity].
Qed.

Lemma worker_budgets_finite :
  forall l, In l transporter_backoff_literals ->
    (0 < bl_max_elapsed_ns l)%Z /\ bl_stop_is_backoff_stop l = true /\
    forall elapsed next, (bl_max_elapsed_ns l < elapsed + next)%Z ->
      retries_again (policy_of_literal (bl_max_elapsed_ns l) (bl_stop_is_backoff_stop l)) elapsed next = false.
Proof.
  intros l Hin. unfold transporter_backoff_literals in Hin. simpl in Hin.
  repeat (destruct Hin as [<-|Hin]; [simpl; split; [lia|split; [reflexivity|intros; apply budget_exhausts; simpl; lia]]|]).
  contradiction.
Qed.
