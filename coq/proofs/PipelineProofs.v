(* PipelineProofs.v — composition theorems for model/Pipeline.v (batcher -> worker queues -> sink ->
   written queue -> progress ledger), for ALL label lists and ALL configurations with >= 1 worker.

   Method: reuse.  [prun] is related to [lrun] (Part 1: the ledger really executed the ghost history
   p_lops) and to [brun] (Part 2: the batcher component is a run of model/Batcher.v and the queues,
   the written channel, the ghost sink and the ghost history are projections of its trace).  The
   theorems of LedgerProofs / LedgerOrder / BatcherProofs are then transported.
     Part 1  ledger agreement (I1)
     Part 2  batcher agreement and the bookkeeping of batches and transaction maps (I2)
     Part 3  one more invariant of the batcher's action machine: what a transactions map says about
             the items of its batch
     Part 4  accounting per delivery key (I3), the sink (I4)
     Part 5  C01: acknowledged => announced and certified;  acknowledged => every change in the sink
     Part 6  C17 corollaries
     Part 7  the WF contract of LedgerOrder derived from pipeline facts; C01 order (partial)
     Part 8  C02: drain at quiescence; quiescence is reachable
     Part 9  witnesses (finding F1 at pipeline level) *)
From Bifrost.model Require Import Base Crc32 Batch Batcher Ledger.
From Bifrost.proofs Require Import BatchProofs BatcherProofs LedgerProofs LedgerOrder.
From Bifrost.model Require Import Pipeline.
From Coq Require Import Permutation.

(* ===================================================================== *)
(* Part 1 — ledger agreement (I1)                                          *)
(* ===================================================================== *)

Lemma emitted_app a b : emitted (a ++ b) = emitted a ++ emitted b.
Proof. apply flat_map_app. Qed.

Lemma prun_snoc cfg ls l : prun cfg (ls ++ [l]) = pstep cfg (prun cfg ls) l.
Proof. unfold prun. now rewrite fold_left_app. Qed.

Lemma prun_app cfg ls1 ls2 : prun cfg (ls1 ++ ls2) = fold_left (pstep cfg) ls2 (prun cfg ls1).
Proof. unfold prun. now rewrite fold_left_app. Qed.

Lemma fed_of_app a b : fed_of (a ++ b) = fed_of a ++ fed_of b.
Proof. apply flat_map_app. Qed.

(* apply_lops is lrun without the results *)
Lemma apply_lops_lrun : forall ops l l', apply_lops l ops = (l', false) ->
  fst (lrun l ops) = l' /\ ~ In RError (snd (lrun l ops)).
Proof.
  induction ops as [|o ops IH]; intros l l' H; simpl in *.
  - inversion H; subst. split; [reflexivity|tauto].
  - destruct (lstep l o) as [l1 x] eqn:Hs. destruct x.
    + destruct (IH _ _ H) as [E1 E2]. destruct (lrun l1 ops) as [l2 xs]. simpl in *.
      split; [assumption|]. intros [E|E]; [discriminate|auto].
    + destruct (IH _ _ H) as [E1 E2]. destruct (lrun l1 ops) as [l2 xs]. simpl in *.
      split; [assumption|]. intros [E|E]; [discriminate|auto].
    + discriminate.
Qed.

Lemma lrun_no_emit : forall ops l, (forall o, In o ops -> o <> OEmit) -> emitted (snd (lrun l ops)) = [].
Proof.
  induction ops as [|o ops IH]; intros l H; simpl; [reflexivity|].
  assert (Ho : o <> OEmit) by (apply H; now left).
  assert (Hr : forall o', In o' ops -> o' <> OEmit) by (intros o' Hin; apply H; now right).
  destruct o as [t k n c|t k n|]; [| |congruence]; simpl.
  - destruct (update_seen t k n c l) as [l1|]; [|reflexivity].
    specialize (IH l1 Hr). destruct (lrun l1 ops) as [l2 xs]. simpl in *. assumption.
  - specialize (IH (update_written t k n l) Hr). destruct (lrun (update_written t k n l) ops) as [l2 xs].
    simpl in *. assumption.
Qed.

Lemma seen_ops_no_emit l o : In o (seen_ops l) -> o <> OEmit.
Proof. unfold seen_ops. intros H. apply in_map_iff in H. destruct H as (s & <- & _). discriminate. Qed.
Lemma written_ops_no_emit t o : In o (written_ops t) -> o <> OEmit.
Proof. unfold written_ops. intros H. apply in_map_iff in H. destruct H as (s & <- & _). discriminate. Qed.

(* I1: as long as the tracker has not failed, the ledger is the result of running the ghost history
   from the empty ledger, without error, and the acknowledged positions are its emissions *)
Definition ledger_agrees (st : pstate) : Prop :=
  p_failed st = false ->
  exists rs, lrun empty_ledger (p_lops st) = (p_ledger st, rs) /\ ~ In RError rs /\ emitted rs = p_acked st.

Lemma agrees_extend st ops lg f st' :
  ledger_agrees st -> apply_lops (p_ledger st) ops = (lg, f) -> (forall o, In o ops -> o <> OEmit) ->
  p_lops st' = p_lops st ++ ops -> p_ledger st' = lg -> p_acked st' = p_acked st ->
  p_failed st' = p_failed st || f -> ledger_agrees st'.
Proof.
  intros Ha Hap Hne El Eg Ea Ef Hnf. rewrite Ef in Hnf. apply orb_false_iff in Hnf. destruct Hnf as [Hf1 Hf2].
  subst f. destruct (Ha Hf1) as (rs & Hrun & Hnerr & Hem).
  destruct (apply_lops_lrun _ _ _ Hap) as [E1 E2].
  exists (rs ++ snd (lrun (p_ledger st) ops)). rewrite El, Eg, Ea.
  rewrite lrun_app by (rewrite Hrun; exact Hnerr). rewrite Hrun. simpl. rewrite E1. split; [reflexivity|].
  split.
  - intros Hin. apply in_app_or in Hin. tauto.
  - rewrite emitted_app, Hem, (lrun_no_emit _ _ Hne). apply app_nil_r.
Qed.

Lemma route_agrees outs : forall st, ledger_agrees st -> ledger_agrees (route st outs).
Proof.
  induction outs as [|o outs IH]; intros st Ha; simpl; [assumption|]. apply IH.
  destruct o as [l|w b|t|]; try exact Ha.
  destruct (apply_lops (p_ledger st) (seen_ops l)) as [lg f] eqn:E.
  eapply (agrees_extend st (seen_ops l) lg f); eauto using seen_ops_no_emit.
Qed.

Lemma pstep_agrees cfg st l : ledger_agrees st -> ledger_agrees (pstep cfg st l).
Proof.
  intros Ha. unfold pstep. destruct (p_failed st) eqn:Hf; [assumption|].
  destruct l as [now m|now order pops|w| |].
  - destruct (dead (p_b st)); [assumption|]. destruct (bstep_msg cfg (p_b st) now m) as [b' outs].
    apply route_agrees. exact Ha.
  - destruct (bstep_tick cfg (p_b st) now order pops) as [[b' outs]|]; [|assumption].
    apply route_agrees. exact Ha.
  - destruct (dequeue w (p_queues st)) as [[b qs]|]; [|assumption]. intros _. exact (Ha Hf).
  - destruct (p_written st) as [|t r] eqn:Ew; [assumption|].
    destruct (apply_lops (p_ledger st) (written_ops t)) as [lg f] eqn:E.
    eapply (agrees_extend st (written_ops t) lg f); eauto using written_ops_no_emit.
    simpl. now rewrite Hf.
  - intros _. destruct (Ha Hf) as (rs & Hrun & Hnerr & Hem).
    destruct (emit (p_ledger st)) as [[f|] lg] eqn:Ee; simpl.
    + exists (rs ++ [REmit f]). rewrite lrun_app by (rewrite Hrun; exact Hnerr). rewrite Hrun. simpl. rewrite Ee.
      split; [reflexivity|]. split.
      * intros Hin. apply in_app_or in Hin. destruct Hin as [Hin|[Hin|[]]]; [auto|discriminate].
      * rewrite emitted_app, Hem. reflexivity.
    + exists (rs ++ [RNone]). rewrite lrun_app by (rewrite Hrun; exact Hnerr). rewrite Hrun. simpl. rewrite Ee.
      split; [reflexivity|]. split.
      * intros Hin. apply in_app_or in Hin. destruct Hin as [Hin|[Hin|[]]]; [auto|discriminate].
      * rewrite emitted_app, Hem. simpl. apply app_nil_r.
Qed.

Theorem pipeline_ledger_agrees cfg ls : ledger_agrees (prun cfg ls).
Proof.
  induction ls as [|l ls IH] using rev_ind.
  - intros _. exists []. simpl. split; [reflexivity|]. split; [tauto|reflexivity].
  - rewrite prun_snoc. now apply pstep_agrees.
Qed.

(* in the form used to transport the ledger theorems *)
Lemma pipeline_reach cfg ls : p_failed (prun cfg ls) = false -> Reach (p_lops (prun cfg ls)) (p_ledger (prun cfg ls)).
Proof.
  intros Hf. destruct (pipeline_ledger_agrees cfg ls Hf) as (rs & Hrun & Hne & _). eapply lrun_reach; eauto.
Qed.

(* failure is permanent and freezes the whole state *)
Lemma pstep_failed cfg st l : p_failed st = true -> pstep cfg st l = st.
Proof. intros H. unfold pstep. now rewrite H. Qed.

Lemma psteps_failed cfg ls : forall st, p_failed st = true -> fold_left (pstep cfg) ls st = st.
Proof. induction ls as [|l ls IH]; intros st H; simpl; [reflexivity|]. rewrite pstep_failed by assumption. auto. Qed.

(* ===================================================================== *)
(* Part 2 — batcher agreement (I2)                                         *)
(* ===================================================================== *)

Definition queued (qs : list (N * list batch)) : list batch := flat_map snd qs.

(* the Seen records / the transaction-map entries applied to the ledger so far, in order *)
Definition seens_in (h : list lop) : list seen :=
  flat_map (fun o => match o with OSeen t k n c => [mkSeen t k n c] | _ => [] end) h.
Definition writs_in (h : list lop) : list (string * (string * Z)) :=
  flat_map (fun o => match o with OWritten t k n => [(k, (t, n))] | _ => [] end) h.

Lemma seens_in_app a b : seens_in (a ++ b) = seens_in a ++ seens_in b. Proof. apply flat_map_app. Qed.
Lemma writs_in_app a b : writs_in (a ++ b) = writs_in a ++ writs_in b. Proof. apply flat_map_app. Qed.
Lemma seens_in_seen_ops l : seens_in (seen_ops l) = l.
Proof. induction l as [|[t k n c] l IH]; simpl; [reflexivity|]. now rewrite IH. Qed.
Lemma writs_in_seen_ops l : writs_in (seen_ops l) = [].
Proof. induction l as [|s l IH]; simpl; auto. Qed.
Lemma seens_in_written_ops x : seens_in (written_ops x) = [].
Proof. induction x as [|p x IH]; simpl; auto. Qed.
Lemma writs_in_written_ops x : writs_in (written_ops x) = x.
Proof. induction x as [|[k [t n]] x IH]; simpl; [reflexivity|]. now rewrite IH. Qed.
Lemma seen_ops_app a b : seen_ops (a ++ b) = seen_ops a ++ seen_ops b. Proof. apply map_app. Qed.

Lemma in_seens_in h t k n c : In (mkSeen t k n c) (seens_in h) <-> In (OSeen t k n c) h.
Proof.
  unfold seens_in. rewrite in_flat_map. split.
  - intros (o & Hin & Ho). destruct o; simpl in Ho; try contradiction. destruct Ho as [E|[]]. inversion E; subst. assumption.
  - intros H. exists (OSeen t k n c). split; [assumption|now left].
Qed.
Lemma in_writs_in h t k n : In (k, (t, n)) (writs_in h) <-> In (OWritten t k n) h.
Proof.
  unfold writs_in. rewrite in_flat_map. split.
  - intros (o & Hin & Ho). destruct o; simpl in Ho; try contradiction. destruct Ho as [E|[]]. inversion E; subst. assumption.
  - intros H. exists (OWritten t k n). split; [assumption|now left].
Qed.

(* ---------- queues ---------- *)
Lemma enqueue_perm w b qs : Permutation (queued (enqueue w b qs)) (queued qs ++ [b]).
Proof.
  unfold queued. induction qs as [|[w' q] qs IH]; simpl.
  - reflexivity.
  - destruct (w =? w')%N; simpl.
    + rewrite <- !app_assoc. apply Permutation_app_head. apply Permutation_app_comm.
    + rewrite <- app_assoc. apply Permutation_app_head. exact IH.
Qed.

Lemma dequeue_perm w : forall qs b qs', dequeue w qs = Some (b, qs') -> Permutation (queued qs) (b :: queued qs').
Proof.
  unfold queued. induction qs as [|[w' q] qs IH]; intros b qs' H; simpl in H; [discriminate|].
  destruct (w =? w')%N.
  - destruct q as [|b0 q]; [discriminate|]. inversion H; subst. simpl. reflexivity.
  - destruct (dequeue w qs) as [[b1 r1]|] eqn:E; [|discriminate]. inversion H; subst. simpl.
    rewrite (IH _ _ eq_refl). symmetry. apply Permutation_middle.
Qed.

(* ---------- what routing a list of batcher outputs does ---------- *)
Lemma dispatched_cons_feed m t : dispatched (TFeed m :: t) = dispatched t. Proof. reflexivity. Qed.
Lemma seen_outs_cons_feed m t : seen_outs (TFeed m :: t) = seen_outs t. Proof. reflexivity. Qed.
Lemma empties_cons_feed m t : empties (TFeed m :: t) = empties t. Proof. reflexivity. Qed.

Lemma route_effect outs : forall st,
  p_b (route st outs) = p_b st /\ p_accepted (route st outs) = p_accepted st /\
  p_acked (route st outs) = p_acked st /\
  Permutation (queued (p_queues (route st outs))) (queued (p_queues st) ++ map snd (dispatched (map TOut outs))) /\
  p_written (route st outs) = p_written st ++ empties (map TOut outs) /\
  p_lops (route st outs) = p_lops st ++ seen_ops (seen_outs (map TOut outs)).
Proof.
  induction outs as [|o outs IH]; intros st; simpl route.
  - simpl. rewrite !app_nil_r. repeat split; reflexivity.
  - match goal with |- context [route ?s outs] => destruct (IH s) as (E1 & E2 & E3 & E4 & E5 & E6) end.
    destruct o as [l|w b|x|]; simpl in *.
    + destruct (apply_lops (p_ledger st) (seen_ops l)) as [lg f]. simpl in *.
      repeat split; try assumption. rewrite E6, seen_ops_app. now rewrite app_assoc.
    + repeat split; try assumption.
      rewrite E4. rewrite (enqueue_perm w b (p_queues st)). rewrite <- app_assoc. reflexivity.
    + repeat split; try assumption. rewrite E5. now rewrite <- app_assoc.
    + repeat split; assumption.
Qed.

Lemma brun_app cfg e1 : forall st e2,
  brun cfg st (e1 ++ e2) =
  let '(st1, t1) := brun cfg st e1 in let '(st2, t2) := brun cfg st1 e2 in (st2, t1 ++ t2).
Proof.
  induction e1 as [|e r IH]; intros st e2; simpl.
  - destruct (brun cfg st e2) as [st2 t2]. reflexivity.
  - destruct (bstep cfg st e) as [st1 t1]. rewrite IH.
    destruct (brun cfg st1 r) as [st2 t2]. destruct (brun cfg st2 e2) as [st3 t3]. now rewrite app_assoc.
Qed.

Lemma brun_snoc cfg evs e b t : brun cfg binit evs = (b, t) ->
  brun cfg binit (evs ++ [e]) = (fst (bstep cfg b e), t ++ snd (bstep cfg b e)).
Proof.
  intros H. rewrite brun_app, H. simpl. destruct (bstep cfg b e) as [b1 t1]. simpl. now rewrite app_nil_r.
Qed.

(* I2: the batcher component is a run of model/Batcher.v; queues, written channel, ghost sink and
   ghost history are projections of its trace.  [accb] = the batches the sink accepted, in
   acceptance order; [readm] = the transaction maps the tracker has read, in order. *)
Record PI (cfg : bcfg) (ls : list plabel) (st : pstate) (evs : list bevent) (t : list tr)
          (accb : list batch) (readm : list txmap) : Prop := {
  pi_run : brun cfg binit evs = (p_b st, t);
  pi_disp : Permutation (map snd (dispatched t)) (accb ++ queued (p_queues st));
  pi_maps : Permutation (map b_txns accb ++ empties t) (readm ++ p_written st);
  pi_sink : p_accepted st = flat_map b_items accb;
  pi_seens : seens_in (p_lops st) = seen_outs t;
  pi_writs : writs_in (p_lops st) = List.concat readm;
  pi_fed : exists rest, fed_of ls = fed t ++ rest /\
                        (dead (p_b st) = false -> p_failed st = false -> rest = []) }.

Lemma PI_stutter cfg ls l st evs t accb readm :
  PI cfg ls st evs t accb readm -> (dead (p_b st) = true \/ p_failed st = true \/ fed_of [l] = []) ->
  PI cfg (ls ++ [l]) st evs t accb readm.
Proof.
  intros [H1 H2 H3 H4 H5 H6 (rest & H7 & H8)] Hc. constructor; try assumption.
  exists (rest ++ fed_of [l]). rewrite fed_of_app, H7, app_assoc. split; [reflexivity|].
  intros Hd Hf. destruct Hc as [Hc|[Hc|Hc]]; [congruence|congruence|]. rewrite Hc, app_nil_r. auto.
Qed.

(* a batcher step whose outputs are routed *)
Lemma PI_bstep cfg ls l st evs t accb readm e b' outs tf :
  PI cfg ls st evs t accb readm -> p_failed st = false -> dead (p_b st) = false ->
  bstep cfg (p_b st) e = (b', tf ++ map TOut outs) ->
  fed_of [l] = fed tf -> dispatched tf = [] -> empties tf = [] -> seen_outs tf = [] ->
  exists evs', PI cfg (ls ++ [l]) (route (set_b st b') outs) evs' (t ++ tf ++ map TOut outs) accb readm.
Proof.
  intros [H1 H2 H3 H4 H5 H6 (rest & H7 & H8)] Hf Hd Hs Hfed Hd0 He0 Hs0.
  exists (evs ++ [e]).
  destruct (route_effect outs (set_b st b')) as (E1 & E2 & E3 & E4 & E5 & E6). simpl in E1, E2, E3, E4, E5, E6.
  constructor.
  - rewrite (brun_snoc _ _ e _ _ H1), Hs, E1. reflexivity.
  - rewrite !dispatched_app, Hd0, map_app. simpl. rewrite E4, H2. now rewrite app_assoc.
  - rewrite !empties_app, He0, E5. simpl. rewrite !app_assoc. apply Permutation_app_tail. exact H3.
  - now rewrite E2.
  - rewrite E6, seens_in_app, seens_in_seen_ops, !seen_outs_app, Hs0, H5. reflexivity.
  - rewrite E6, writs_in_app, writs_in_seen_ops, app_nil_r. assumption.
  - exists []. rewrite fed_of_app, H7, (H8 Hd Hf), Hfed, !fed_app, fed_outs, !app_nil_r. split; [reflexivity|auto].
Qed.

Lemma pstep_PI cfg ls st l evs t accb readm :
  PI cfg ls st evs t accb readm ->
  exists evs' t' accb' readm', PI cfg (ls ++ [l]) (pstep cfg st l) evs' t' accb' readm'.
Proof.
  intros HP. unfold pstep. destruct (p_failed st) eqn:Hf.
  { exists evs, t, accb, readm. apply PI_stutter; auto. }
  destruct l as [now m|now order pops|w| |].
  - destruct (dead (p_b st)) eqn:Hd.
    { exists evs, t, accb, readm. apply PI_stutter; auto. }
    destruct (bstep_msg cfg (p_b st) now m) as [b' outs] eqn:Em.
    destruct (PI_bstep cfg ls (LFeed now m) st evs t accb readm (BMsg now m) b' outs [TFeed m] HP Hf Hd) as [evs' HP'];
      try reflexivity.
    { simpl. now rewrite Hd, Em. }
    eauto.
  - destruct (bstep_tick cfg (p_b st) now order pops) as [[b' outs]|] eqn:Et.
    + destruct (dead (p_b st)) eqn:Hd.
      { unfold bstep_tick in Et. rewrite Hd in Et. inversion Et; subst. simpl.
        exists evs, t, accb, readm. destruct st; simpl in *. apply PI_stutter; auto. }
      destruct (PI_bstep cfg ls (LTick now order pops) st evs t accb readm (BTick now order pops) b' outs [] HP Hf Hd) as [evs' HP'];
        try reflexivity.
      { simpl. now rewrite Et. }
      eauto.
    + exists evs, t, accb, readm. apply PI_stutter; auto.
  - destruct (dequeue w (p_queues st)) as [[b qs]|] eqn:Eq.
    + destruct HP as [H1 H2 H3 H4 H5 H6 (rest & H7 & H8)].
      exists evs, t, (accb ++ [b]), readm. constructor; simpl; try assumption.
      * rewrite H2, (dequeue_perm _ _ _ _ Eq). rewrite <- app_assoc. reflexivity.
      * rewrite map_app. simpl.
        transitivity ((map b_txns accb ++ empties t) ++ [b_txns b]).
        { rewrite <- !app_assoc. apply Permutation_app_head. apply Permutation_app_comm. }
        rewrite H3. now rewrite app_assoc.
      * rewrite flat_map_app, H4. simpl. now rewrite app_nil_r.
      * exists rest. rewrite fed_of_app, H7. simpl. rewrite app_nil_r. split; [reflexivity|]. intros Hd _. auto.
    + exists evs, t, accb, readm. apply PI_stutter; auto.
  - destruct (p_written st) as [|x r] eqn:Ew.
    + exists evs, t, accb, readm. apply PI_stutter; auto.
    + destruct (apply_lops (p_ledger st) (written_ops x)) as [lg f] eqn:Ea.
      destruct HP as [H1 H2 H3 H4 H5 H6 (rest & H7 & H8)].
      exists evs, t, accb, (readm ++ [x]). constructor; simpl; try assumption.
      * rewrite Ew in H3. rewrite H3. rewrite <- app_assoc. reflexivity.
      * rewrite seens_in_app, seens_in_written_ops, app_nil_r. assumption.
      * rewrite writs_in_app, writs_in_written_ops, H6, List.concat_app. simpl. now rewrite app_nil_r.
      * exists rest. rewrite fed_of_app, H7. simpl. rewrite app_nil_r. split; [reflexivity|]. intros Hd _. auto.
  - destruct HP as [H1 H2 H3 H4 H5 H6 (rest & H7 & H8)].
    exists evs, t, accb, readm.
    destruct (emit (p_ledger st)) as [[f|] lg]; constructor; simpl; try assumption;
      try (rewrite seens_in_app; simpl; now rewrite app_nil_r);
      try (rewrite writs_in_app; simpl; now rewrite app_nil_r);
      (exists rest; rewrite fed_of_app, H7; simpl; rewrite app_nil_r; split; [reflexivity|]; intros Hd _; auto).
Qed.

Theorem pipeline_batcher_agrees cfg ls :
  exists evs t accb readm, PI cfg ls (prun cfg ls) evs t accb readm.
Proof.
  induction ls as [|l ls IH] using rev_ind.
  - exists [], [], [], []. constructor; simpl; try reflexivity. exists []. auto.
  - destruct IH as (evs & t & accb & readm & HP). rewrite prun_snoc. eapply pstep_PI; eauto.
Qed.

(* ===================================================================== *)
(* Part 3 — what a transactions map says about its batch                   *)
(* ===================================================================== *)

(* a well-formed transactions map over the received changes A: one entry per delivery key, every
   count >= 1, every entry made from a received change with that key and that transaction id *)
Definition goodx (A : list msg) (x : txmap) : Prop :=
  NoDup (map fst x) /\
  forall k tx c, In (k, (tx, c)) x ->
    (1 <= c)%Z /\ exists m, In m A /\ is_marker m = false /\ m_key m = k /\ m_txn m = tx.

(* ... and every item of the batch is the record of a received change whose delivery key the map counts *)
Definition good (A : list msg) (b : batch) : Prop :=
  goodx A (b_txns b) /\
  forall r, In r (b_items b) ->
    exists m, In m A /\ is_marker m = false /\ r_id r = m_id m /\ (1 <= txcount (m_key m) (b_txns b))%Z.

Lemma goodx_mono A A' x : incl A A' -> goodx A x -> goodx A' x.
Proof.
  intros Hi [H1 H2]. split; [assumption|]. intros k tx c Hin. destruct (H2 k tx c Hin) as (Hc & m & Hm & Hr).
  split; [assumption|]. exists m. split; [now apply Hi|assumption].
Qed.
Lemma good_mono A A' b : incl A A' -> good A b -> good A' b.
Proof.
  intros Hi [H1 H2]. split; [eapply goodx_mono; eauto|]. intros r Hr. destruct (H2 r Hr) as (m & Hm & Hx).
  exists m. split; [now apply Hi|assumption].
Qed.

Lemma goodx_nonneg A x k : goodx A x -> (0 <= txcount k x)%Z.
Proof.
  intros [_ H]. unfold txcount. destruct (aget k x) as [[tx c]|] eqn:E; [|lia].
  apply LedgerProofs.aget_in in E. destruct (H _ _ _ E). lia.
Qed.

Lemma goodx_nil A : goodx A [].
Proof. split; [constructor|]. intros k tx c []. Qed.

Lemma good_new A k p : good A (new_batch k p).
Proof. split; [apply goodx_nil|]. intros r []. Qed.

Lemma goodx_update A x m : goodx A x -> In m A -> is_marker m = false -> goodx A (update_transactions m x).
Proof.
  intros [Hnd Hent] Hin Hm. unfold update_transactions.
  destruct (aget (m_key m) x) as [[tx c]|] eqn:E.
  - split; [now apply nodup_aset|]. intros k tx' c' H.
    apply LedgerProofs.in_aset in H. destruct H as [H|H]; [now apply Hent|].
    inversion H; subst. apply LedgerProofs.aget_in in E. destruct (Hent _ _ _ E) as (Hc & Hex). split; [lia|assumption].
  - split.
    + rewrite map_app. simpl. apply NoDup_snoc; [assumption|]. now apply BatcherProofs.aget_none_notin.
    + intros k tx' c' H. apply in_app_or in H. destruct H as [H|[H|[]]]; [now apply Hent|].
      inversion H; subst. split; [lia|]. exists m. auto.
Qed.

Lemma good_add A L b m b' r : good A b -> In m A -> is_marker m = false -> add L b m = (b', r) -> good A b'.
Proof.
  intros [Hx Hit] Hin Hm Ha.
  pose proof (add_items _ _ _ _ _ Ha) as Ei. pose proof (add_txns _ _ _ _ _ Ha) as Et.
  unfold change in Ei, Et. rewrite Hm in Ei, Et. simpl in Ei, Et.
  assert (Hmono : forall k, (txcount k (b_txns b) <= txcount k (b_txns b'))%Z).
  { intros k. rewrite Et. destruct (counted r); [|lia]. rewrite txcount_update. destruct (String.eqb k (m_key m)); lia. }
  split.
  - rewrite Et. destruct (counted r); [now apply goodx_update|assumption].
  - intros r0 Hr0. rewrite Ei in Hr0. apply in_app_or in Hr0. destruct Hr0 as [Hr0|Hr0].
    + destruct (Hit r0 Hr0) as (m0 & H1 & H2 & H3 & H4). exists m0. repeat split; auto.
      specialize (Hmono (m_key m0)). lia.
    + destruct (is_ok r) eqn:Eok; [|destruct Hr0]. destruct Hr0 as [<-|[]].
      exists m. repeat split; auto; [apply r_id_rec_of_kind|].
      rewrite Et. assert (counted r = true) by (destruct r; try discriminate; reflexivity). rewrite H.
      rewrite txcount_update, String.eqb_refl. pose proof (goodx_nonneg A (b_txns b) (m_key m) Hx). lia.
Qed.

(* the invariant of the action machine: open batches, dispatched batches and reported empty maps
   are good over the changes received so far *)
Definition MI (g : gstate) (t : list tr) : Prop :=
  (forall p ob, In (p, ob) (open (g_st g)) -> good (g_added g ++ olist (g_pend g)) (ob_batch ob)) /\
  (forall w b, In (w, b) (dispatched t) -> good (g_added g ++ olist (g_pend g)) b) /\
  (forall x, In x (empties t) -> goodx (g_added g ++ olist (g_pend g)) x).

Lemma MI_step cfg g a g' t t' :
  astep cfg g a = Some (g', t') -> pend_change g -> MI g t -> MI g' (t ++ t').
Proof.
  intros H Hpc (Ho & Hd & He). unfold MI. apply astep_cases in H. destruct H as [Hdead [H|[H|H]]].
  - destruct H as (now & m & -> & Hp & -> & ->). cbn [g_st g_added g_pend].
    rewrite Hp in *. simpl in Ho, Hd, He. rewrite app_nil_r in Ho, Hd, He.
    assert (Hinc : incl (g_added g) (g_added g ++ olist (if is_marker m then None else Some m))).
    { intros x Hx. apply in_or_app. now left. }
    split; [|split].
    + intros p ob Hin. unfold feed_state in Hin. simpl in Hin.
      destruct (aget (m_pkey m) (open (g_st g))); [eapply good_mono; eauto|].
      apply LedgerProofs.in_aset in Hin. destruct Hin as [Hin|Hin]; [eapply good_mono; eauto|].
      inversion Hin; subst. apply good_new.
    + intros w b Hin. rewrite dispatched_app in Hin. simpl in Hin. rewrite app_nil_r in Hin. eapply good_mono; eauto.
    + intros x Hin. rewrite empties_app in Hin. simpl in Hin. rewrite app_nil_r in Hin. eapply goodx_mono; eauto.
  - destruct H as (p & repl & ob & -> & Hg & -> & ->). cbn [g_st g_added g_pend].
    pose proof (Ho _ _ (aget_some_in _ _ _ Hg)) as Hgood.
    split; [|split].
    + intros p' ob' Hin. simpl in Hin. destruct repl as [now|].
      * apply LedgerProofs.in_aset in Hin. destruct Hin as [Hin|Hin]; [eauto|]. inversion Hin; subst. apply good_new.
      * apply LedgerProofs.in_adel in Hin. eauto.
    + intros w b Hin. rewrite dispatched_app in Hin. apply in_app_or in Hin. destruct Hin as [Hin|Hin]; [eauto|].
      rewrite dispatched_send in Hin. destruct (is_empty (ob_batch ob)); [destruct Hin|].
      destruct (BatcherProofs.route cfg (g_st g) (ob_batch ob)); [|destruct Hin].
      destruct Hin as [E|[]]. inversion E; subst. assumption.
    + intros x Hin. rewrite empties_app in Hin. apply in_app_or in Hin. destruct Hin as [Hin|Hin]; [eauto|].
      rewrite empties_send in Hin. destruct (is_empty (ob_batch ob)); [|destruct Hin].
      destruct Hin as [<-|[]]. exact (proj1 Hgood).
  - destruct H as (now & m & ob & b' & r & -> & Hp & Hg & Ha & Hr & -> & ->). cbn [g_st g_added g_pend].
    rewrite Hp in *. simpl in Ho, Hd, He. rewrite !app_nil_r.
    assert (Hin : In m (g_added g ++ [m])) by (apply in_or_app; right; now left).
    split; [|split]; auto.
    intros p ob' Hin'. simpl in Hin'.
    assert (Hopen : open (bump_for r (g_st g)) = open (g_st g)) by (destruct r; reflexivity).
    apply LedgerProofs.in_aset in Hin'. destruct Hin' as [Hin'|Hin']; [now apply (Ho p ob')|].
    inversion Hin'; subst. simpl.
    eapply good_add; [exact (Ho _ _ (aget_some_in _ _ _ Hg))|exact Hin|exact (Hpc _ Hp)|exact Ha].
Qed.

Lemma MI_invariant cfg acts g t : arun cfg ginit acts = Some (g, t) -> MI g t.
Proof.
  intros H.
  assert (HH : pend_change g /\ MI g t); [|tauto].
  refine (arun_inv cfg (fun g t => pend_change g /\ MI g t) _ acts ginit [] g t _ H).
  - intros g0 t0 a g1 t1 (Hp & Hm) Hs. split; [eapply pend_change_step; eauto|eapply MI_step; eauto].
  - split; [intros m; discriminate|]. repeat split; simpl; intros; contradiction.
Qed.

(* ===================================================================== *)
(* Part 4 — accounting per delivery key (I3)                                *)
(* ===================================================================== *)

(* ---------- sums ---------- *)
Lemma zsum_map {A B} (f : B -> Z) (g : A -> B) l : zsum f (map g l) = zsum (fun x => f (g x)) l.
Proof. unfold zsum. now rewrite map_map. Qed.

Lemma zsum_nonneg {A} (f : A -> Z) l : (forall y, In y l -> (0 <= f y)%Z) -> (0 <= zsum f l)%Z.
Proof.
  induction l as [|x l IH]; intros H; [unfold zsum, sum_Z; simpl; lia|]. rewrite zsum_cons.
  assert (0 <= f x)%Z by (apply H; now left). assert (0 <= zsum f l)%Z by (apply IH; intros y Hy; apply H; now right). lia.
Qed.

Lemma zsum_ge_in {A} (f : A -> Z) l x : (forall y, In y l -> (0 <= f y)%Z) -> In x l -> (f x <= zsum f l)%Z.
Proof.
  induction l as [|y l IH]; intros H Hin; [destruct Hin|]. rewrite zsum_cons.
  assert (H0 : (0 <= f y)%Z) by (apply H; now left).
  assert (Hl : forall z, In z l -> (0 <= f z)%Z) by (intros z Hz; apply H; now right).
  destruct Hin as [->|Hin].
  - pose proof (zsum_nonneg f l Hl). lia.
  - specialize (IH Hl Hin). lia.
Qed.

Lemma zsum_le_pointwise {A} (f g : A -> Z) l : (forall x, In x l -> (f x <= g x)%Z) -> (zsum f l <= zsum g l)%Z.
Proof.
  induction l as [|x l IH]; intros H; [unfold zsum, sum_Z; simpl; lia|]. rewrite !zsum_cons.
  assert (f x <= g x)%Z by (apply H; now left).
  assert (zsum f l <= zsum g l)%Z by (apply IH; intros y Hy; apply H; now right). lia.
Qed.

Lemma zsum_eq_pointwise {A} (f g : A -> Z) l :
  (forall x, In x l -> (f x <= g x)%Z) -> zsum f l = zsum g l -> forall x, In x l -> f x = g x.
Proof.
  induction l as [|y l IH]; intros H E x Hin; [destruct Hin|]. rewrite !zsum_cons in E.
  assert (H0 : (f y <= g y)%Z) by (apply H; now left).
  assert (Hl : forall z, In z l -> (f z <= g z)%Z) by (intros z Hz; apply H; now right).
  pose proof (zsum_le_pointwise f g l Hl).
  destruct Hin as [->|Hin]; [lia|]. apply IH; auto. lia.
Qed.

Lemma zsum_nil {A} (f : A -> Z) : zsum f [] = 0%Z. Proof. reflexivity. Qed.

Lemma zsum_ext_in {A} (f g : A -> Z) l : (forall x, In x l -> f x = g x) -> zsum f l = zsum g l.
Proof. intros H. unfold zsum. f_equal. now apply map_ext_in. Qed.

Lemma zsum_zero {A} (l : list A) : zsum (fun _ => 0%Z) l = 0%Z.
Proof. induction l as [|x l IH]; [reflexivity|]. rewrite zsum_cons, IH. reflexivity. Qed.


(* ---------- certified, as a sum over the transaction maps read ---------- *)
Definition esum (k : string) (x : list (string * (string * Z))) : Z :=
  zsum (fun e => if String.eqb k (fst e) then snd (snd e) else 0%Z) x.

Lemma certified_esum k h : certified k h = esum k (writs_in h).
Proof.
  unfold certified, esum. induction h as [|o h IH]; [reflexivity|].
  change (writs_in (o :: h)) with ((match o with OWritten t k' n => [(k', (t, n))] | _ => [] end) ++ writs_in h).
  rewrite zsum_app, <- IH. simpl map. unfold sum_Z at 1. simpl fold_right. fold (sum_Z (map
    (fun o0 : lop => match o0 with OWritten _ k' n => if String.eqb k k' then n else 0%Z | _ => 0%Z end) h)).
  destruct o as [t k' n c|t k' n|]; unfold zsum, sum_Z; simpl; lia.
Qed.

Lemma esum_concat k l : esum k (List.concat l) = zsum (esum k) l.
Proof.
  induction l as [|x l IH]; [reflexivity|]. simpl. unfold esum at 1. rewrite zsum_app. fold (esum k x).
  fold (esum k (List.concat l)). rewrite IH. now rewrite zsum_cons.
Qed.

Lemma esum_notin k x : ~ In k (map fst x) -> esum k x = 0%Z.
Proof.
  unfold esum. induction x as [|[k0 v] x IH]; intros H; [reflexivity|]. rewrite zsum_cons. simpl in *.
  destruct (String.eqb_spec k k0) as [->|Hne]; [tauto|]. rewrite IH; [reflexivity|tauto].
Qed.

Lemma esum_txcount k x : NoDup (map fst x) -> esum k x = txcount k x.
Proof.
  unfold txcount. induction x as [|[k0 [tx c]] x IH]; intros H; [reflexivity|].
  inversion H; subst. unfold esum. rewrite zsum_cons. fold (esum k x). simpl.
  destruct (String.eqb_spec k k0) as [->|Hne].
  - rewrite esum_notin by assumption. lia.
  - rewrite IH by assumption. lia.
Qed.

(* ---------- from a run of the batcher to a run of its action machine ---------- *)
Record MT (cfg : bcfg) (t : list tr) (g : gstate) (t0 : list tr) : Prop := {
  mt_run : exists acts, arun cfg ginit acts = Some (g, t0);
  mt_disp : dispatched t = dispatched t0;
  mt_emp : empties t = empties t0;
  mt_seen : seen_outs t = seen_outs t0;
  mt_fed : fed t = fed t0 }.

Lemma machine_of_run cfg evs b t : workers_ok cfg -> brun cfg binit evs = (b, t) ->
  exists g t0, MT cfg t g t0 /\ (dead b = false -> g = mkG b (changes (fed t)) None).
Proof.
  intros Hw H. destruct (dead b) eqn:Hd.
  - destruct (brun_trace cfg evs b t Hw H) as (t0 & (acts & g & Ha) & Ht).
    exists g, t0. split; [|discriminate].
    destruct Ht as [->| ->]; constructor; eauto;
      rewrite ?dispatched_app, ?empties_app, ?seen_outs_app, ?fed_app; simpl; now rewrite app_nil_r.
  - destruct (brun_machine cfg evs b t Hw H Hd) as [acts Ha].
    exists (mkG b (changes (fed t)) None), t. split; [constructor; eauto|auto].
Qed.

(* C04_written_counts at the level of the machine (holds also just before a fatal stop) *)
Lemma machine_written_counts cfg acts g t k : workers_ok cfg -> arun cfg ginit acts = Some (g, t) ->
  (zsum (fun wb => txcount k (b_txns (snd wb))) (dispatched t) + zsum (txcount k) (empties t) +
   open_txcount k (g_st g))%Z =
  zsum (fun m => if String.eqb (m_key m) k && negb (is_invalid cfg m) then 1%Z else 0%Z) (g_added g).
Proof.
  intros Hw H.
  apply (add_invariant cfg (fun b => txcount k (b_txns b)) (txcount k)
           (fun m => if String.eqb (m_key m) k && negb (is_invalid cfg m) then 1%Z else 0%Z)) with (acts := acts); auto.
  intros b m b' r Hk Hm Ha Hr.
  pose proof (add_fate cfg _ _ _ _ Hk Hm Ha Hr) as Hf. unfold is_invalid. rewrite Hf.
  rewrite (add_txns _ _ _ _ _ Ha). unfold change. rewrite Hm. simpl.
  destruct r; try discriminate; simpl; rewrite ?txcount_update, (String.eqb_sym (m_key m) k);
    destruct (String.eqb k (m_key m)); simpl; lia.
Qed.

Section Accounting.
  Context (cfg : bcfg) (ls : list plabel) (st : pstate) (evs : list bevent) (t : list tr)
          (accb : list batch) (readm : list txmap) (g : gstate) (t0 : list tr).
  Context (Hw : workers_ok cfg) (HP : PI cfg ls st evs t accb readm) (HM : MT cfg t g t0).

  Let A := g_added g ++ olist (g_pend g).

  Lemma PI_batches_good b : In b (accb ++ queued (p_queues st)) -> good A b.
  Proof.
    intros Hin. destruct HM as [[acts Ha] E1 _ _ _]. destruct (MI_invariant cfg acts g t0 Ha) as (_ & Hd & _).
    apply (Permutation_in _ (Permutation_sym (pi_disp _ _ _ _ _ _ _ HP))) in Hin.
    apply in_map_iff in Hin. destruct Hin as ([w b0] & <- & Hin). rewrite E1 in Hin. exact (Hd w b0 Hin).
  Qed.

  Lemma PI_maps_good x : In x (readm ++ p_written st) -> goodx A x.
  Proof.
    intros Hin. destruct HM as [[acts Ha] E1 E2 _ _]. destruct (MI_invariant cfg acts g t0 Ha) as (_ & _ & He).
    apply (Permutation_in _ (Permutation_sym (pi_maps _ _ _ _ _ _ _ HP))) in Hin.
    apply in_app_or in Hin. destruct Hin as [Hin|Hin].
    - apply in_map_iff in Hin. destruct Hin as (b & <- & Hb).
      apply PI_batches_good. apply in_or_app. now left.
    - rewrite E2 in Hin. now apply He.
  Qed.

  Lemma PI_open_good p ob : In (p, ob) (open (g_st g)) -> good A (ob_batch ob).
  Proof.
    destruct HM as [[acts Ha] _ _ _ _]. destruct (MI_invariant cfg acts g t0 Ha) as (Ho & _ & _). apply Ho.
  Qed.

  Lemma certified_read k : certified k (p_lops st) = zsum (txcount k) readm.
  Proof.
    rewrite certified_esum, (pi_writs _ _ _ _ _ _ _ HP), esum_concat.
    unfold zsum. f_equal. apply map_ext_in. intros x Hx. apply esum_txcount.
    apply (proj1 (PI_maps_good x (in_or_app _ _ _ (or_introl Hx)))).
  Qed.

  (* I3: per delivery key, what the ledger was told + what waits in the written channel + what waits in
     the worker queues + what is still open = the changes of that key received and not dropped as invalid *)
  Lemma I3_accounting k :
    (certified k (p_lops st) + zsum (txcount k) (p_written st) +
     zsum (fun b => txcount k (b_txns b)) (queued (p_queues st)) + open_txcount k (g_st g))%Z =
    zsum (fun m => if String.eqb (m_key m) k && negb (is_invalid cfg m) then 1%Z else 0%Z) (g_added g).
  Proof.
    destruct HM as [[acts Ha] E1 E2 _ _].
    rewrite <- (machine_written_counts cfg acts g t0 k Hw Ha), <- E1, <- E2, certified_read.
    pose proof (zsum_perm (txcount k) _ _ (pi_maps _ _ _ _ _ _ _ HP)) as P3. rewrite !zsum_app, zsum_map in P3.
    pose proof (zsum_perm (fun b => txcount k (b_txns b)) _ _ (pi_disp _ _ _ _ _ _ _ HP)) as P2.
    rewrite zsum_app, zsum_map in P2. lia.
  Qed.

  Lemma written_wait_nonneg k : (0 <= zsum (txcount k) (p_written st))%Z.
  Proof. apply zsum_nonneg. intros x Hx. eapply goodx_nonneg. apply PI_maps_good. apply in_or_app. now right. Qed.
  Lemma queued_nonneg k : (0 <= zsum (fun b => txcount k (b_txns b)) (queued (p_queues st)))%Z.
  Proof.
    apply zsum_nonneg. intros b Hb. eapply goodx_nonneg. apply (proj1 (PI_batches_good b (in_or_app _ _ _ (or_intror Hb)))).
  Qed.
  Lemma open_nonneg k : (0 <= open_txcount k (g_st g))%Z.
  Proof.
    unfold open_txcount. apply zsum_nonneg. intros [p ob] Hin. simpl. eapply goodx_nonneg.
    apply (proj1 (PI_open_good p ob Hin)).
  Qed.
End Accounting.

(* ===================================================================== *)
(* Part 5 — C01: what an acknowledgement implies                           *)
(* ===================================================================== *)

(* ---------- transaction framing ---------- *)
Lemma framed_from_prefix a : forall used cur b, framed_from used cur (a ++ b) = true -> framed_from used cur a = true.
Proof.
  induction a as [|m a IH]; intros used cur b H; [reflexivity|]. simpl in *.
  destruct (is_begin m).
  - apply andb_prop in H. destruct H as [H1 H2]. rewrite H1. simpl. eapply IH; eauto.
  - destruct cur as [k|]; [|discriminate]. apply andb_prop in H. destruct H as [H1 H2]. rewrite H1. simpl. eapply IH; eauto.
Qed.

Lemma framed_prefix a b : framed (a ++ b) = true -> framed a = true.
Proof. apply framed_from_prefix. Qed.

(* a delivery key whose block is closed is never used again *)
Lemma framed_after_closed k : forall ms used cur,
  framed_from used cur ms = true -> (forall k', cur = Some k' -> k' <> k) -> In k used ->
  forall m, In m ms -> m_key m <> k.
Proof.
  induction ms as [|m0 ms IH]; intros used cur H Hc Hu m Hin; [destruct Hin|]. simpl in H.
  destruct (is_begin m0) eqn:Hb.
  - apply andb_prop in H. destruct H as [H1 H2]. apply negb_true_iff in H1.
    assert (Hk : m_key m0 <> k).
    { intros E. subst k. apply existsb_eqb_in in Hu. congruence. }
    destruct Hin as [<-|Hin]; [assumption|].
    apply (IH _ _ H2); [intros k' E; inversion E; subst; assumption|now right|assumption].
  - destruct cur as [k0|]; [|discriminate]. apply andb_prop in H. destruct H as [H1 H2]. apply String.eqb_eq in H1.
    assert (Hk : m_key m0 <> k) by (rewrite H1; now apply Hc).
    destruct Hin as [<-|Hin]; [assumption|].
    apply (IH _ _ H2); [|assumption|assumption].
    intros k' E. destruct (is_commit m0); [discriminate|]. now apply Hc.
Qed.

Lemma commit_not_begin m : is_commit m = true -> is_begin m = false.
Proof. intros H. destruct (is_begin m) eqn:E; [|reflexivity]. rewrite (begin_not_commit _ E) in H. discriminate. Qed.

Lemma framed_commit_closes : forall ms1 used cur c ms2,
  framed_from used cur (ms1 ++ c :: ms2) = true -> is_commit c = true ->
  (forall k', cur = Some k' -> In k' used) ->
  forall m, In m ms2 -> m_key m <> m_key c.
Proof.
  induction ms1 as [|m0 ms1 IH]; intros used cur c ms2 H Hc Hu m Hin; simpl in H.
  - rewrite (commit_not_begin _ Hc), Hc in H. destruct cur as [k0|]; [|discriminate].
    apply andb_prop in H. destruct H as [H1 H2]. apply String.eqb_eq in H1. rewrite H1.
    apply (framed_after_closed k0 ms2 used None H2); [discriminate|now apply Hu|assumption].
  - destruct (is_begin m0).
    + apply andb_prop in H. destruct H as [_ H2].
      apply (IH _ _ _ _ H2 Hc); [|assumption]. intros k' E. inversion E; subst. now left.
    + destruct cur as [k0|]; [|discriminate]. apply andb_prop in H. destruct H as [_ H2].
      apply (IH _ _ _ _ H2 Hc); [|assumption]. intros k' E. destruct (is_commit m0); [discriminate|]. now apply Hu.
Qed.

Lemma nchanges_app k a b : nchanges k (a ++ b) = (nchanges k a + nchanges k b)%Z.
Proof. unfold nchanges. rewrite filter_app, app_length. lia. Qed.

Lemma nchanges_none k l : (forall m, In m l -> m_key m <> k) -> nchanges k l = 0%Z.
Proof.
  unfold nchanges. induction l as [|m l IH]; intros H; [reflexivity|]. simpl.
  destruct (String.eqb_spec (m_key m) k) as [E|E]; [exfalso; apply (H m); [now left|assumption]|].
  rewrite andb_false_r. apply IH. intros m' Hm'. apply H. now right.
Qed.

Lemma nchanges_zsum k l :
  nchanges k l = zsum (fun m => if String.eqb (m_key m) k then 1%Z else 0%Z) (changes l).
Proof. unfold nchanges. now rewrite zsum_changes. Qed.

Lemma NoDup_map_inj {A B} (f : A -> B) l a b : NoDup (map f l) -> In a l -> In b l -> f a = f b -> a = b.
Proof.
  induction l as [|x l IH]; intros Hn Ha Hb E; [destruct Ha|]. simpl in Hn. inversion Hn; subst.
  destruct Ha as [->|Ha]; destruct Hb as [->|Hb]; auto.
  - exfalso. apply H1. rewrite E. now apply in_map.
  - exfalso. apply H1. rewrite <- E. now apply in_map.
Qed.

Lemma NoDup_app_l {A} (a b : list A) : NoDup (a ++ b) -> NoDup a.
Proof.
  induction a as [|x a IH]; simpl; intros H; [constructor|]. inversion H; subst. constructor; [|auto].
  intros Hin. apply H2. apply in_or_app. now left.
Qed.

Section Complete.
  Context (cfg : bcfg) (ls : list plabel) (st : pstate) (evs : list bevent) (t : list tr)
          (accb : list batch) (readm : list txmap) (g : gstate) (t0 : list tr).
  Context (Hw : workers_ok cfg) (HP : PI cfg ls st evs t accb readm) (HM : MT cfg t g t0).
  (* [full] = everything handed to the batcher in the whole execution, of which the labels [ls] executed
     so far are a prefix: the statements below also speak about changes fed AFTER the current state *)
  Context (full : list msg) (Hfull : exists more, full = fed_of ls ++ more).
  Context (Hfr : framed full = true).

  Lemma fed_prefix : exists rest, full = fed t0 ++ rest.
  Proof.
    destruct (pi_fed _ _ _ _ _ _ _ HP) as (rest & E & _). destruct Hfull as [more Emore].
    exists (rest ++ more). now rewrite Emore, E, (mt_fed _ _ _ _ HM), app_assoc.
  Qed.

  Lemma received_split : changes (fed t0) = g_added g ++ olist (g_pend g).
  Proof. destruct (mt_run _ _ _ _ HM) as [acts Ha]. exact (fed_invariant cfg acts g t0 Ha). Qed.

  (* where a Seen in the ghost history comes from: a COMMIT received by the batcher, whose delivery's
     changes all precede it *)
  Lemma seen_origin tx k n c : In (OSeen tx k n c) (p_lops st) ->
    exists ms1 cm ms2, fed t0 = ms1 ++ cm :: ms2 /\ is_commit cm = true /\
      m_key cm = k /\ m_txn cm = tx /\ m_wal cm = c /\ n = nchanges k ms1 /\
      (forall m, In m (full) -> is_marker m = false -> m_key m = k -> In m ms1) /\
      nchanges k (fed t0) = n /\ nchanges k (full) = n.
  Proof.
    intros Hin. apply in_seens_in in Hin. rewrite (pi_seens _ _ _ _ _ _ _ HP), (mt_seen _ _ _ _ HM) in Hin.
    destruct (mt_run _ _ _ _ HM) as [acts Ha]. destruct fed_prefix as [rest Erest].
    destruct (dispatch_invariant cfg acts g t0 Hw Ha) as [Hs _]. unfold scan_inv in Hs.
    assert (Hf0 : framed (fed t0) = true) by (rewrite Erest in Hfr; eapply framed_prefix; eauto).
    assert (Hin' : In (mkSeen tx k n c) (seens_spec [] (fed t0))).
    { rewrite <- (seens_of_framed _ Hf0). unfold seens_of. rewrite Hs. simpl. apply in_or_app. now left. }
    destruct (seens_spec_in _ _ _ Hin') as (ms1 & cm & ms2 & E & Hc & Es). simpl in Es. injection Es as -> -> -> ->.
    assert (Hlater : forall m, In m (ms2 ++ rest) -> m_key m <> m_key cm).
    { apply (framed_commit_closes ms1 [] None cm (ms2 ++ rest)); [|assumption|discriminate].
      unfold framed in Hfr. rewrite Erest, E, <- app_assoc in Hfr. exact Hfr. }
    assert (Hcm : nchanges (m_key cm) [cm] = 0%Z).
    { unfold nchanges, change. simpl. rewrite (commit_marker _ Hc). reflexivity. }
    exists ms1, cm, ms2. repeat split; auto.
    - intros m Hm Hmk Hk. rewrite Erest, E, <- app_assoc in Hm. apply in_app_or in Hm.
      destruct Hm as [Hm|[Hm|Hm]]; [assumption| |].
      + subst m. rewrite (commit_marker _ Hc) in Hmk. discriminate.
      + exfalso. exact (Hlater m Hm Hk).
    - rewrite E. change (cm :: ms2) with ([cm] ++ ms2). rewrite (nchanges_app _ ms1), (nchanges_app _ [cm] ms2), Hcm.
      rewrite (nchanges_none _ ms2); [lia|]. intros m Hm. apply Hlater. apply in_or_app. now left.
    - rewrite Erest, E, <- app_assoc. change (cm :: ms2 ++ rest) with ([cm] ++ (ms2 ++ rest)).
      rewrite (nchanges_app _ ms1), (nchanges_app _ [cm] (ms2 ++ rest)), Hcm. rewrite (nchanges_none _ (ms2 ++ rest)); [lia|]. assumption.
  Qed.

  Let indk (k : string) := fun m : msg => if String.eqb (m_key m) k then 1%Z else 0%Z.
  Let indv (k : string) := fun m : msg => if String.eqb (m_key m) k && negb (is_invalid cfg m) then 1%Z else 0%Z.

  Lemma ind_le k l : (zsum (indv k) l <= zsum (indk k) l)%Z.
  Proof.
    apply zsum_le_pointwise. intros m _. unfold indk, indv.
    destruct (String.eqb (m_key m) k); simpl; [destruct (is_invalid cfg m); simpl; lia|lia].
  Qed.
  Lemma indk_nonneg k l : (0 <= zsum (indk k) l)%Z.
  Proof. apply zsum_nonneg. intros m _. unfold indk. destruct (String.eqb (m_key m) k); lia. Qed.

  (* no_over_report: the ledger is never told more than the Seen announces *)
  Lemma seen_bound tx k n c : In (OSeen tx k n c) (p_lops st) -> (certified k (p_lops st) <= n)%Z.
  Proof.
    intros Hin. destruct (seen_origin _ _ _ _ Hin) as (ms1 & cm & ms2 & _ & _ & _ & _ & _ & _ & _ & EN & _).
    pose proof (I3_accounting cfg ls st evs t accb readm g t0 Hw HP HM k) as I3.
    pose proof (written_wait_nonneg cfg ls st evs t accb readm g t0 HP HM k).
    pose proof (queued_nonneg cfg ls st evs t accb readm g t0 HP HM k).
    pose proof (open_nonneg cfg t g t0 HM k).
    rewrite nchanges_zsum, received_split, zsum_app in EN. fold (indk k) in EN. fold (indv k) in I3.
    pose proof (ind_le k (g_added g)). pose proof (indk_nonneg k (olist (g_pend g))). lia.
  Qed.

  Context (Hnd : NoDup (map m_id (full))).

  (* the heart of C01: a delivery whose Seen is in the history and whose announced total is certified
     has every one of its changes in the sink, or dropped as too big and counted *)
  Lemma delivery_complete tx k n c :
    In (OSeen tx k n c) (p_lops st) -> (n <= certified k (p_lops st))%Z ->
    certified k (p_lops st) = n /\
    forall m, In m (full) -> is_marker m = false -> m_key m = k ->
      fate_of cfg m <> FDroppedInvalid /\
      (fate_of cfg m = FAccepted -> In (m_id m) (map r_id (p_accepted st))).
  Proof.
    intros Hin Hle. destruct (seen_origin _ _ _ _ Hin) as (ms1 & cm & ms2 & E & _ & _ & _ & _ & _ & Hall & EN & _).
    pose proof (I3_accounting cfg ls st evs t accb readm g t0 Hw HP HM k) as I3.
    pose proof (written_wait_nonneg cfg ls st evs t accb readm g t0 HP HM k) as HW.
    pose proof (queued_nonneg cfg ls st evs t accb readm g t0 HP HM k) as HQ.
    pose proof (open_nonneg cfg t g t0 HM k) as HO.
    rewrite nchanges_zsum, received_split, zsum_app in EN. fold (indk k) in EN. fold (indv k) in I3.
    pose proof (ind_le k (g_added g)) as Hle2. pose proof (indk_nonneg k (olist (g_pend g))) as Hp0.
    assert (Eq1 : zsum (indv k) (g_added g) = zsum (indk k) (g_added g)) by lia.
    assert (Eq2 : zsum (indk k) (olist (g_pend g)) = 0%Z) by lia.
    assert (EO : open_txcount k (g_st g) = 0%Z) by lia.
    assert (EQ : zsum (fun b => txcount k (b_txns b)) (queued (p_queues st)) = 0%Z) by lia.
    split; [lia|].
    intros m Hm Hmk Hk.
    destruct fed_prefix as [rest Erest].
    assert (Hm1 : In m ms1) by (apply Hall; assumption).
    assert (Hm0 : In m (fed t0)) by (rewrite E; apply in_or_app; now left).
    assert (Hmc : In m (g_added g ++ olist (g_pend g))).
    { rewrite <- received_split. unfold changes. apply filter_In. split; [assumption|]. unfold change. now rewrite Hmk. }
    assert (Hma : In m (g_added g)).
    { apply in_app_or in Hmc. destruct Hmc as [|Hmc]; [assumption|]. exfalso.
      assert (indk k m <= zsum (indk k) (olist (g_pend g)))%Z.
      { apply zsum_ge_in; [|assumption]. intros y _. unfold indk. destruct (String.eqb (m_key y) k); lia. }
      unfold indk in H at 1. rewrite Hk, String.eqb_refl in H. lia. }
    assert (Hinv : is_invalid cfg m = false).
    { assert (Ep : indv k m = indk k m).
      { apply (zsum_eq_pointwise (indv k) (indk k) (g_added g)); [|assumption|assumption].
        intros x _. unfold indk, indv. destruct (String.eqb (m_key x) k); simpl; [destruct (is_invalid cfg x); simpl; lia|lia]. }
      unfold indk, indv in Ep. rewrite Hk, String.eqb_refl in Ep. simpl in Ep.
      destruct (is_invalid cfg m); [simpl in Ep; discriminate|reflexivity]. }
    split.
    { intros Ef. unfold is_invalid in Hinv. rewrite Ef in Hinv. discriminate. }
    intros Hacc.
    destruct (mt_run _ _ _ _ HM) as [acts Ha].
    destruct (pk_invariant cfg acts g t0 Hw Ha) as (_ & _ & Hpk). specialize (Hpk (m_pkey m)).
    assert (Hr : In (rec_of_kind (c_kind cfg) m) (disp_items (m_pkey m) t0 ++ open_items (m_pkey m) (g_st g))).
    { rewrite Hpk. apply in_map. apply filter_In. split; [assumption|].
      unfold accp, accepted, change. rewrite Hmk, Hacc, String.eqb_refl. reflexivity. }
    (* whichever batch holds the record counts at least one change for k *)
    assert (Hpos : forall b, good (g_added g ++ olist (g_pend g)) b -> In (rec_of_kind (c_kind cfg) m) (b_items b) ->
                             (1 <= txcount k (b_txns b))%Z).
    { intros b [_ Hb] Hrb. destruct (Hb _ Hrb) as (m' & Hm' & _ & Eid & Hc).
      rewrite r_id_rec_of_kind in Eid.
      assert (Hm'0 : In m' (full)).
      { rewrite Erest. apply in_or_app. left. rewrite <- received_split in Hm'. unfold changes in Hm'.
        apply filter_In in Hm'. tauto. }
      assert (m = m') by (eapply (NoDup_map_inj m_id); eauto). subst m'. now rewrite Hk in Hc. }
    apply in_app_or in Hr. destruct Hr as [Hr|Hr].
    - unfold disp_items in Hr. apply in_flat_map in Hr. destruct Hr as ([w b] & Hwb & Hr).
      unfold items_for in Hr. simpl in Hr. destruct (String.eqb (b_pkey b) (m_pkey m)); [|destruct Hr].
      rewrite <- (mt_disp _ _ _ _ HM) in Hwb.
      assert (Hb : In b (accb ++ queued (p_queues st))).
      { apply (Permutation_in _ (pi_disp _ _ _ _ _ _ _ HP)). apply in_map_iff. exists (w, b). auto. }
      pose proof (Hpos b (PI_batches_good cfg ls st evs t accb readm g t0 HP HM b Hb) Hr) as H1.
      apply in_app_or in Hb. destruct Hb as [Hb|Hb].
      + rewrite (pi_sink _ _ _ _ _ _ _ HP). apply in_map_iff. exists (rec_of_kind (c_kind cfg) m).
        split; [apply r_id_rec_of_kind|]. apply in_flat_map. eauto.
      + exfalso.
        assert (txcount k (b_txns b) <= zsum (fun b => txcount k (b_txns b)) (queued (p_queues st)))%Z.
        { apply (zsum_ge_in (fun b => txcount k (b_txns b))); [|assumption]. intros y Hy. eapply goodx_nonneg.
          apply (proj1 (PI_batches_good cfg ls st evs t accb readm g t0 HP HM y (in_or_app _ _ _ (or_intror Hy)))). }
        lia.
    - exfalso. unfold open_items in Hr. destruct (aget (m_pkey m) (open (g_st g))) as [ob|] eqn:Eg; [|destruct Hr].
      apply aget_some_in in Eg.
      pose proof (Hpos _ (PI_open_good cfg t g t0 HM _ _ Eg) Hr) as H1.
      assert (txcount k (b_txns (ob_batch ob)) <= open_txcount k (g_st g))%Z.
      { unfold open_txcount.
        apply (zsum_ge_in (fun kv : string * obatch => txcount k (b_txns (ob_batch (snd kv)))) (open (g_st g)) (m_pkey m, ob));
          [|assumption].
        intros [p' ob'] Hy. simpl. eapply goodx_nonneg. apply (proj1 (PI_open_good cfg t g t0 HM _ _ Hy)). }
      lia.
  Qed.
End Complete.

(* ---------- everything known about a reachable state, packaged ---------- *)
Lemma pipeline_facts cfg ls : workers_ok cfg ->
  exists evs t accb readm g t0,
    PI cfg ls (prun cfg ls) evs t accb readm /\ MT cfg t g t0 /\
    (dead (p_b (prun cfg ls)) = false -> g = mkG (p_b (prun cfg ls)) (changes (fed t)) None).
Proof.
  intros Hw. destruct (pipeline_batcher_agrees cfg ls) as (evs & t & accb & readm & HP).
  destruct (machine_of_run cfg evs _ t Hw (pi_run _ _ _ _ _ _ _ HP)) as (g & t0 & HM & Hg).
  exists evs, t, accb, readm, g, t0. auto.
Qed.

(* pos_counts: every Written applied to the ledger carries a count >= 1 (UpdateTransactions starts at 1) *)
Lemma pipeline_pos_counts cfg ls : workers_ok cfg -> pos_counts (p_lops (prun cfg ls)).
Proof.
  intros Hw tx k n Hin. destruct (pipeline_facts cfg ls Hw) as (evs & t & accb & readm & g & t0 & HP & HM & _).
  apply in_writs_in in Hin. rewrite (pi_writs _ _ _ _ _ _ _ HP) in Hin. apply in_concat in Hin.
  destruct Hin as (x & Hx & Hin).
  destruct (PI_maps_good cfg ls _ evs t accb readm g t0 HP HM x (in_or_app _ _ _ (or_introl Hx))) as [_ H].
  destruct (H _ _ _ Hin). assumption.
Qed.

Lemma pipeline_nonneg cfg ls : workers_ok cfg -> nonneg_counts (p_lops (prun cfg ls)).
Proof. intros Hw. apply pos_nonneg. now apply pipeline_pos_counts. Qed.

(* ---------- how one label extends the ghost history and the acknowledgements ---------- *)
Local Ltac stutter := exists []; rewrite app_nil_r; split; [reflexivity|left; split; [reflexivity|intros ? []]].

Lemma pstep_history cfg st l :
  exists extra, p_lops (pstep cfg st l) = p_lops st ++ extra /\
    ((p_acked (pstep cfg st l) = p_acked st /\ forall o, In o extra -> o <> OEmit) \/
     (p_failed st = false /\ extra = [OEmit] /\
      p_acked (pstep cfg st l) = p_acked st ++ olist (fst (emit (p_ledger st))))).
Proof.
  unfold pstep. destruct (p_failed st) eqn:Hf.
  { stutter. }
  destruct l as [now m|now order pops|w| |].
  - destruct (dead (p_b st)); [stutter|].
    destruct (bstep_msg cfg (p_b st) now m) as [b' outs].
    destruct (route_effect outs (set_b st b')) as (_ & _ & E3 & _ & _ & E6). simpl in E3, E6.
    eexists. split; [exact E6|]. left. split; [assumption|apply seen_ops_no_emit].
  - destruct (bstep_tick cfg (p_b st) now order pops) as [[b' outs]|];
      [|stutter].
    destruct (route_effect outs (set_b st b')) as (_ & _ & E3 & _ & _ & E6). simpl in E3, E6.
    eexists. split; [exact E6|]. left. split; [assumption|apply seen_ops_no_emit].
  - destruct (dequeue w (p_queues st)) as [[b qs]|]; stutter.
  - destruct (p_written st) as [|x r]; [stutter|].
    destruct (apply_lops (p_ledger st) (written_ops x)) as [lg f]. simpl.
    eexists. split; [reflexivity|]. left. split; [reflexivity|apply written_ops_no_emit].
  - exists [OEmit]. destruct (emit (p_ledger st)) as [[f|] lg] eqn:Ee; simpl; (split; [reflexivity|]); right;
      repeat split; auto. now rewrite app_nil_r.
Qed.

Lemma certified_mono k h extra : nonneg_counts (h ++ extra) -> (certified k h <= certified k (h ++ extra))%Z.
Proof.
  intros Hn. rewrite certified_app.
  assert (nonneg_counts extra) by (intros t k' n Hin; apply (Hn t k' n); apply in_or_app; now right).
  pose proof (certified_nonneg k extra H). lia.
Qed.

(* released keys of an extended history *)
Lemma released_from_app h : forall l extra, ~ In RError (snd (lrun l h)) ->
  released_from l (h ++ extra) = released_from l h ++ released_from (fst (lrun l h)) extra.
Proof.
  induction h as [|o h IH]; intros l extra Hne; simpl in *; [reflexivity|].
  destruct (lstep l o) as [l1 x] eqn:Hs. destruct x.
  - destruct (lrun l1 h) as [l2 xs] eqn:Hr. simpl in *. rewrite (IH l1 extra); [|rewrite Hr; simpl; tauto].
    rewrite Hr. simpl. now rewrite !app_assoc.
  - destruct (lrun l1 h) as [l2 xs] eqn:Hr. simpl in *. rewrite (IH l1 extra); [|rewrite Hr; simpl; tauto].
    rewrite Hr. simpl. now rewrite !app_assoc.
  - simpl in Hne. tauto.
Qed.

Lemma released_from_no_emit extra : forall l, (forall o, In o extra -> o <> OEmit) -> released_from l extra = [].
Proof.
  induction extra as [|o extra IH]; intros l H; simpl; [reflexivity|].
  assert (Ho : o <> OEmit) by (apply H; now left).
  destruct (lstep l o) as [l1 x]. destruct o; [| |congruence]; simpl;
    (destruct x; [apply IH; intros o' Ho'; apply H; now right|apply IH; intros o' Ho'; apply H; now right|reflexivity]).
Qed.

(* the invariant behind C01: whatever the ledger released was announced by a Seen whose total is
   certified, and every acknowledged position is the commit of such a released delivery *)
Definition rel_ok (st : pstate) : Prop :=
  (forall k, In k (released_keys (p_lops st)) ->
     exists t n c, In (OSeen t k n c) (p_lops st) /\ (n <= certified k (p_lops st))%Z) /\
  (forall F, In F (p_acked st) ->
     exists t k n, In (OSeen t k n F) (p_lops st) /\ (n <= certified k (p_lops st))%Z /\
                   In k (released_keys (p_lops st))).

Lemma pipeline_rel_ok cfg ls : workers_ok cfg -> rel_ok (prun cfg ls).
Proof.
  intros Hw. induction ls as [|l ls IH] using rev_ind; [split; [intros k []|intros F []]|].
  pose proof (pipeline_nonneg cfg (ls ++ [l]) Hw) as Hnn. rewrite prun_snoc in *.
  destruct (p_failed (prun cfg ls)) eqn:Hf; [now rewrite pstep_failed|].
  destruct (pipeline_ledger_agrees cfg ls Hf) as (rs & Hrun & Hne & _).
  pose proof (lrun_reach _ _ _ Hrun Hne) as HR.
  destruct (pstep_history cfg (prun cfg ls) l) as (extra & El & Ha). unfold rel_ok. rewrite El in *.
  set (st := prun cfg ls) in *. destruct IH as [IHr IHa].
  assert (Erel : released_keys (p_lops st ++ extra) = released_keys (p_lops st) ++ released_from (p_ledger st) extra).
  { unfold released_keys. rewrite released_from_app by (rewrite Hrun; exact Hne). now rewrite Hrun. }
  (* old facts survive the extension *)
  assert (Holdr : forall k, In k (released_keys (p_lops st)) ->
            exists t n c, In (OSeen t k n c) (p_lops st ++ extra) /\ (n <= certified k (p_lops st ++ extra))%Z).
  { intros k Hk. destruct (IHr k Hk) as (t & n & c & H1 & H2). exists t, n, c. split; [apply in_or_app; now left|].
    pose proof (certified_mono k _ _ Hnn). lia. }
  assert (Holda : forall F, In F (p_acked st) ->
            exists t k n, In (OSeen t k n F) (p_lops st ++ extra) /\ (n <= certified k (p_lops st ++ extra))%Z /\
                          In k (released_keys (p_lops st ++ extra))).
  { intros F HF. destruct (IHa F HF) as (t & k & n & H1 & H2 & H3). exists t, k, n.
    split; [apply in_or_app; now left|]. split; [pose proof (certified_mono k _ _ Hnn); lia|].
    rewrite Erel. apply in_or_app. now left. }
  destruct Ha as [[Ea Hno]|(_ & -> & Ea)].
  - rewrite (released_from_no_emit extra _ Hno), app_nil_r in Erel. split.
    + intros k Hk. rewrite Erel in Hk. auto.
    + intros F HF. rewrite Ea in HF. auto.
  - (* the tracker's tick *)
    assert (Hnn0 : nonneg_counts (p_lops st)).
    { intros t k n Hin. apply (Hnn t k n). apply in_or_app. now left. }
    assert (Hnew : forall e, In e (rel_prefix (items (p_ledger st))) ->
              exists t, In (OSeen t (e_key e) (e_total e) (e_commit e)) (p_lops st ++ [OEmit]) /\
                        (e_total e <= certified (e_key e) (p_lops st ++ [OEmit]))%Z /\
                        In (e_key e) (released_keys (p_lops st ++ [OEmit]))).
    { intros e He. destruct (ledger_released_complete _ _ _ Hnn0 HR He) as (_ & (t & Ht) & Hle).
      exists t. split; [apply in_or_app; now left|]. split; [pose proof (certified_mono (e_key e) _ _ Hnn); lia|].
      rewrite Erel. apply in_or_app. right. simpl.
      destruct (emit (p_ledger st)) as [[f|] lg]; rewrite app_nil_r; now apply in_map. }
    split.
    + intros k Hk. rewrite Erel in Hk. apply in_app_or in Hk. destruct Hk as [Hk|Hk]; [auto|].
      simpl in Hk. assert (Hk' : In k (map e_key (rel_prefix (items (p_ledger st))))).
      { destruct (emit (p_ledger st)) as [[f|] lg]; now rewrite app_nil_r in Hk. }
      apply in_map_iff in Hk'. destruct Hk' as (e & <- & He). destruct (Hnew e He) as (t & H1 & H2 & _). eauto.
    + intros F HF. rewrite Ea in HF. apply in_app_or in HF. destruct HF as [HF|HF]; [auto|].
      destruct (emit (p_ledger st)) as [[f|] lg] eqn:Ee; simpl in HF; [|destruct HF]. destruct HF as [<-|[]].
      destruct (emit_value _ _ _ Ee) as (e & He & ->). destruct (Hnew e He) as (t & H1 & H2 & H3). eauto 6.
Qed.

(* C01, L1 lifted: every acknowledged position was announced by a Seen carrying exactly that commit
   position, and at least the announced number of changes of that delivery has been reported written *)
Theorem pipeline_acked_from_ledger cfg ls : workers_ok cfg ->
  forall F, In F (p_acked (prun cfg ls)) ->
  exists t k n, In (OSeen t k n F) (p_lops (prun cfg ls)) /\ (n <= certified k (p_lops (prun cfg ls)))%Z.
Proof.
  intros Hw F HF. destruct (proj2 (pipeline_rel_ok cfg ls Hw) F HF) as (t & k & n & H1 & H2 & _). eauto.
Qed.

Theorem pipeline_acked_released cfg ls : workers_ok cfg ->
  forall F, In F (p_acked (prun cfg ls)) ->
  exists t k n, In (OSeen t k n F) (p_lops (prun cfg ls)) /\ In k (released_keys (p_lops (prun cfg ls))).
Proof.
  intros Hw F HF. destruct (proj2 (pipeline_rel_ok cfg ls Hw) F HF) as (t & k & n & H1 & _ & H3). eauto.
Qed.

(* C01, the half that holds for every schedule, every worker count, routing, batch kind and size,
   tick placement, stale completions included: whenever a position is acknowledged, EVERY change of
   the delivery it was announced for is in the sink, or was dropped as too big and counted; none was
   dropped as invalid.  Stated at every prefix ls1 of an execution ls1 ++ ls2 (= at every crash
   point), about ALL changes of the delivery in the whole execution: nothing fed later belongs to it. *)
Theorem pipeline_released_complete_prefix cfg ls1 ls2 : workers_ok cfg ->
  NoDup (map m_id (fed_of (ls1 ++ ls2))) -> framed (fed_of (ls1 ++ ls2)) = true ->
  forall F, In F (p_acked (prun cfg ls1)) ->
  exists t k n, In (OSeen t k n F) (p_lops (prun cfg ls1)) /\
    certified k (p_lops (prun cfg ls1)) = n /\ n = nchanges k (fed_of (ls1 ++ ls2)) /\
    (forall m, In m (fed_of (ls1 ++ ls2)) -> is_marker m = false -> m_key m = k -> fate_of cfg m = FAccepted ->
               In (m_id m) (map r_id (p_accepted (prun cfg ls1)))) /\
    (forall m, In m (fed_of (ls1 ++ ls2)) -> is_marker m = false -> m_key m = k -> fate_of cfg m <> FDroppedInvalid).
Proof.
  intros Hw Hnd Hfr F HF. destruct (pipeline_acked_from_ledger cfg ls1 Hw F HF) as (tx & k & n & Hin & Hle).
  destruct (pipeline_facts cfg ls1 Hw) as (evs & t & accb & readm & g & t0 & HP & HM & _).
  assert (Hfull : exists more, fed_of (ls1 ++ ls2) = fed_of ls1 ++ more) by (exists (fed_of ls2); apply fed_of_app).
  destruct (delivery_complete cfg ls1 _ evs t accb readm g t0 Hw HP HM _ Hfull Hfr Hnd tx k n F Hin Hle) as [Ec Hall].
  destruct (seen_origin cfg ls1 _ evs t accb readm g t0 Hw HP HM _ Hfull Hfr tx k n F Hin) as (_ & _ & _ & _ & _ & _ & _ & _ & _ & _ & _ & EN).
  exists tx, k, n. split; [assumption|]. split; [assumption|]. split; [now symmetry|]. split.
  - intros m H1 H2 H3 H4. exact (proj2 (Hall m H1 H2 H3) H4).
  - intros m H1 H2 H3. exact (proj1 (Hall m H1 H2 H3)).
Qed.

Theorem pipeline_released_complete cfg ls : workers_ok cfg ->
  NoDup (map m_id (fed_of ls)) -> framed (fed_of ls) = true ->
  forall F, In F (p_acked (prun cfg ls)) ->
  exists t k n, In (OSeen t k n F) (p_lops (prun cfg ls)) /\
    certified k (p_lops (prun cfg ls)) = n /\ n = nchanges k (fed_of ls) /\
    (forall m, In m (fed_of ls) -> is_marker m = false -> m_key m = k -> fate_of cfg m = FAccepted ->
               In (m_id m) (map r_id (p_accepted (prun cfg ls)))) /\
    (forall m, In m (fed_of ls) -> is_marker m = false -> m_key m = k -> fate_of cfg m <> FDroppedInvalid).
Proof.
  intros Hw Hnd Hfr. pose proof (pipeline_released_complete_prefix cfg ls [] Hw) as H.
  rewrite app_nil_r in H. auto.
Qed.

(* I4: the sink holds only records of received changes whose fate is "accepted" *)
Theorem pipeline_sink_sound cfg ls : workers_ok cfg ->
  forall r, In r (p_accepted (prun cfg ls)) ->
  exists m, In m (fed_of ls) /\ is_marker m = false /\ fate_of cfg m = FAccepted /\ r = rec_of_kind (c_kind cfg) m.
Proof.
  intros Hw r Hr. destruct (pipeline_facts cfg ls Hw) as (evs & t & accb & readm & g & t0 & HP & HM & _).
  rewrite (pi_sink _ _ _ _ _ _ _ HP) in Hr. apply in_flat_map in Hr. destruct Hr as (b & Hb & Hr).
  assert (Hb' : In b (map snd (dispatched t))).
  { apply (Permutation_in _ (Permutation_sym (pi_disp _ _ _ _ _ _ _ HP))). apply in_or_app. now left. }
  apply in_map_iff in Hb'. destruct Hb' as ([w b0] & <- & Hwb). simpl in *.
  destruct (run_items_all cfg evs _ t Hw (pi_run _ _ _ _ _ _ _ HP) w b0 Hwb) as (ms & Hs & E & Hall).
  rewrite E in Hr. apply in_map_iff in Hr. destruct Hr as (m & <- & Hm). exists m.
  destruct (Hall m Hm) as (H1 & H2 & _). repeat split; auto.
  destruct (pi_fed _ _ _ _ _ _ _ HP) as (rest & Ef & _). rewrite Ef. apply in_or_app. left.
  eapply sublist_in; eauto.
Qed.

(* the same for EVERY delivery the ledger has released (also those released in the middle of a
   prefix, whose commit position was never itself acknowledged), again for every schedule *)
Theorem pipeline_released_keys_complete cfg ls1 ls2 : workers_ok cfg ->
  NoDup (map m_id (fed_of (ls1 ++ ls2))) -> framed (fed_of (ls1 ++ ls2)) = true ->
  forall k, In k (released_keys (p_lops (prun cfg ls1))) ->
  exists t n c, In (OSeen t k n c) (p_lops (prun cfg ls1)) /\
    certified k (p_lops (prun cfg ls1)) = n /\ n = nchanges k (fed_of (ls1 ++ ls2)) /\
    (forall m, In m (fed_of (ls1 ++ ls2)) -> is_marker m = false -> m_key m = k -> fate_of cfg m = FAccepted ->
               In (m_id m) (map r_id (p_accepted (prun cfg ls1)))) /\
    (forall m, In m (fed_of (ls1 ++ ls2)) -> is_marker m = false -> m_key m = k -> fate_of cfg m <> FDroppedInvalid).
Proof.
  intros Hw Hnd Hfr k Hk. destruct (proj1 (pipeline_rel_ok cfg ls1 Hw) k Hk) as (tx & n & c & Hin & Hle).
  destruct (pipeline_facts cfg ls1 Hw) as (evs & t & accb & readm & g & t0 & HP & HM & _).
  assert (Hfull : exists more, fed_of (ls1 ++ ls2) = fed_of ls1 ++ more) by (exists (fed_of ls2); apply fed_of_app).
  destruct (delivery_complete cfg ls1 _ evs t accb readm g t0 Hw HP HM _ Hfull Hfr Hnd tx k n c Hin Hle) as [Ec Hall].
  destruct (seen_origin cfg ls1 _ evs t accb readm g t0 Hw HP HM _ Hfull Hfr tx k n c Hin) as (_ & _ & _ & _ & _ & _ & _ & _ & _ & _ & _ & EN).
  exists tx, n, c. split; [assumption|]. split; [assumption|]. split; [now symmetry|]. split.
  - intros m H1 H2 H3 H4. exact (proj2 (Hall m H1 H2 H3) H4).
  - intros m H1 H2 H3. exact (proj1 (Hall m H1 H2 H3)).
Qed.

(* I3 in the vocabulary of C04_written_counts, for a state in which batcher and tracker are alive:
   per delivery key, what the ledger was told + what waits in the written channel + what waits in the
   worker queues + what is still open = the changes of that key handed over and not dropped as invalid *)
Theorem pipeline_accounting cfg ls k : workers_ok cfg ->
  dead (p_b (prun cfg ls)) = false -> p_failed (prun cfg ls) = false ->
  (certified k (p_lops (prun cfg ls)) + zsum (txcount k) (p_written (prun cfg ls)) +
   zsum (fun b => txcount k (b_txns b)) (queued (p_queues (prun cfg ls))) + open_txcount k (p_b (prun cfg ls)))%Z =
  Z.of_nat (List.length (filter (fun m => change m && (String.eqb (m_key m) k && negb (is_invalid cfg m))) (fed_of ls))).
Proof.
  intros Hw Hd Hf. destruct (pipeline_facts cfg ls Hw) as (evs & t & accb & readm & g & t0 & HP & HM & Hg).
  specialize (Hg Hd). pose proof (I3_accounting cfg ls _ evs t accb readm g t0 Hw HP HM k) as I3.
  destruct (pi_fed _ _ _ _ _ _ _ HP) as (rest & Efed & Hrest). rewrite (Hrest Hd Hf), app_nil_r in Efed.
  rewrite Hg in I3. simpl in I3. rewrite I3, Efed. apply zsum_changes.
Qed.

(* I4, second half: nothing reaches the sink twice.  C04_conservation at the level of the machine
   (so that it also covers the trace of a batcher that later stopped fatally) *)
Lemma machine_conservation cfg acts g t : workers_ok cfg -> arun cfg ginit acts = Some (g, t) ->
  Permutation (map m_id (filter (accepted cfg) (g_added g)))
              (flat_map (fun wb => ids (snd wb)) (dispatched t) ++ open_ids (g_st g)).
Proof.
  intros Hw H. apply (Permutation_count_occ N.eq_dec). intros i.
  apply Nat2Z.inj. rewrite count_occ_app, Nat2Z.inj_add.
  unfold open_ids. rewrite !count_occ_flat_map, count_occ_map_filter.
  pose proof (add_invariant cfg (fun b => Z.of_nat (count_occ N.eq_dec (ids b) i)) (fun _ => 0%Z)
                (fun m => if accepted cfg m && (m_id m =? i)%N then 1%Z else 0%Z)) as HA.
  unfold add_inv, osum in HA. rewrite <- HA with (acts := acts) (t := t); auto.
  - rewrite zsum_zero. lia.
  - intros b He. unfold ids. now rewrite is_empty_items.
  - intros b m b' r Hk Hm Ha Hr.
    pose proof (add_fate cfg _ _ _ _ Hk Hm Ha Hr) as Hf. unfold accepted. rewrite Hf.
    unfold ids. rewrite (add_items _ _ _ _ _ Ha). unfold change. rewrite Hm. simpl.
    destruct r; try discriminate; simpl; rewrite ?app_nil_r; try lia.
    rewrite map_app, count_occ_app. simpl. rewrite r_id_rec_of_kind.
    destruct (N.eq_dec (m_id m) i) as [E|E].
    + apply N.eqb_eq in E. rewrite E. lia.
    + apply N.eqb_neq in E. rewrite E. lia.
Qed.

Lemma NoDup_map_filter {A B} (f : A -> B) (p : A -> bool) l : NoDup (map f l) -> NoDup (map f (filter p l)).
Proof.
  induction l as [|x l IH]; simpl; intros H; [constructor|]. inversion H; subst.
  destruct (p x); simpl; [|auto]. constructor; [|auto].
  intros Hin. apply H2. apply in_map_iff in Hin. destruct Hin as (y & E & Hy). apply filter_In in Hy.
  rewrite <- E. apply in_map. tauto.
Qed.

Lemma map_rid_flat l : map r_id (flat_map b_items l) = flat_map ids l.
Proof. unfold ids. induction l as [|b l IH]; [reflexivity|]. simpl. now rewrite map_app, IH. Qed.
Lemma flat_ids_snd (l : list (N * batch)) : flat_map (fun wb => ids (snd wb)) l = flat_map ids (map snd l).
Proof. induction l as [|wb l IH]; [reflexivity|]. simpl. now rewrite IH. Qed.

Theorem pipeline_sink_nodup cfg ls : workers_ok cfg -> NoDup (map m_id (fed_of ls)) ->
  NoDup (map r_id (p_accepted (prun cfg ls))).
Proof.
  intros Hw Hnd. destruct (pipeline_facts cfg ls Hw) as (evs & t & accb & readm & g & t0 & HP & HM & _).
  destruct (mt_run _ _ _ _ HM) as [acts Ha].
  assert (Hfull : exists more, fed_of ls = fed_of ls ++ more) by (exists []; now rewrite app_nil_r).
  destruct (fed_prefix cfg ls _ evs t accb readm g t0 HP HM _ Hfull) as [rest Erest].
  assert (N1 : NoDup (map m_id (g_added g))).
  { rewrite Erest, map_app in Hnd. apply NoDup_app_l in Hnd.
    apply (NoDup_map_filter m_id change) in Hnd. fold (changes (fed t0)) in Hnd.
    rewrite (received_split cfg t g t0 HM), map_app in Hnd. now apply NoDup_app_l in Hnd. }
  apply (NoDup_map_filter m_id (accepted cfg)) in N1.
  apply (Permutation_NoDup (machine_conservation cfg acts g t0 Hw Ha)) in N1. apply NoDup_app_l in N1.
  rewrite (pi_sink _ _ _ _ _ _ _ HP).
  rewrite map_rid_flat, flat_ids_snd, <- (mt_disp _ _ _ _ HM) in *.
  apply (Permutation_NoDup (Permutation_flat_map ids (pi_disp _ _ _ _ _ _ _ HP))) in N1.
  rewrite flat_map_app in N1. now apply NoDup_app_l in N1.
Qed.

(* ===================================================================== *)
(* Part 6 — C17: fail-stop corollaries                                     *)
(* ===================================================================== *)

(* once the tracker has failed no label changes anything, in particular nothing more is acknowledged *)
Theorem pipeline_failed_tracker_stops cfg ls1 ls2 :
  p_failed (prun cfg ls1) = true -> prun cfg (ls1 ++ ls2) = prun cfg ls1.
Proof. intros H. rewrite prun_app. now apply psteps_failed. Qed.

(* only the tracker's own tick acknowledges: while it takes no LEmit label nothing is acknowledged,
   whatever the other components do *)
Theorem pipeline_ack_only_by_emit cfg ls2 : (forall l, In l ls2 -> l <> LEmit) ->
  forall st, p_acked (fold_left (pstep cfg) ls2 st) = p_acked st.
Proof.
  induction ls2 as [|l ls2 IH]; intros H st; [reflexivity|]. simpl.
  rewrite IH by (intros l' Hl'; apply H; now right).
  assert (Hl : l <> LEmit) by (apply H; now left).
  unfold pstep. destruct (p_failed st); [reflexivity|].
  destruct l as [now m|now order pops|w| |]; try congruence.
  - destruct (dead (p_b st)); [reflexivity|]. destruct (bstep_msg cfg (p_b st) now m) as [b' outs].
    now destruct (route_effect outs (set_b st b')) as (_ & _ & E3 & _).
  - destruct (bstep_tick cfg (p_b st) now order pops) as [[b' outs]|]; [|reflexivity].
    now destruct (route_effect outs (set_b st b')) as (_ & _ & E3 & _).
  - destruct (dequeue w (p_queues st)) as [[b qs]|]; reflexivity.
  - destruct (p_written st) as [|x r]; [reflexivity|].
    destruct (apply_lops (p_ledger st) (written_ops x)) as [lg f]. reflexivity.
Qed.

(* ===================================================================== *)
(* Part 7 — the WF contract from pipeline facts; C01 order (partial)       *)
(* ===================================================================== *)

(* ---------- ledger level: released keys are closed under "older and current" ---------- *)
Lemma first_pos_app_notin k h r : ~ mentioned k h -> first_pos k (h ++ r) = List.length h + first_pos k r.
Proof.
  induction h as [|o h IH]; intros Hn; simpl; [reflexivity|].
  destruct (mentions_key k o) eqn:E.
  - exfalso. apply Hn. apply mentions_key_true in E. destruct E as [t E]. exists o, t. split; [now left|assumption].
  - rewrite IH; [reflexivity|]. intros (x & t & Hin & Hx). apply Hn. exists x, t. split; [now right|assumption].
Qed.

Lemma first_pos_snoc_lt k h o : first_pos k (h ++ [o]) < List.length h -> mentioned k h.
Proof.
  intros H. destruct (lt_dec (first_pos k h) (List.length h)) as [Hlt|Hge]; [now apply first_pos_mentioned|].
  exfalso. assert (Hn : ~ mentioned k h) by (intros Hm; apply first_pos_mentioned in Hm; lia).
  rewrite (first_pos_app_notin k h [o] Hn) in H. lia.
Qed.

Lemma current_snoc_emit k h : current k (h ++ [OEmit]) <-> current k h.
Proof.
  rewrite !current_cur_of. split; intros [t H]; exists t; rewrite cur_of_snoc in *; simpl in *; assumption.
Qed.

Lemma current_snoc_back h o k : WF (h ++ [o]) -> current k (h ++ [o]) -> mentioned k h -> current k h.
Proof.
  intros HW Hc Hm. apply current_cur_of in Hc. destruct Hc as [t Hc]. rewrite cur_of_snoc in Hc.
  apply current_cur_of. destruct (mention o) as [[t' k2]|] eqn:Em; [|eauto].
  destruct (String.eqb_spec t' t) as [->|Hne]; [|eauto].
  inversion Hc; subst k2. exists t. destruct (cur_of t h) as [k0|] eqn:Ec.
  - destruct (string_dec k0 k) as [->|Hd]; [reflexivity|]. exfalso.
    apply (WF_fresh h o t k HW Em); [congruence|assumption].
  - exfalso. apply (WF_fresh h o t k HW Em); [congruence|assumption].
Qed.

Lemma rel_prefix_mentioned h l e : INV h l -> In e (rel_prefix (items l)) -> mentioned (e_key e) h.
Proof.
  intros HI He. pose proof (inv_struct _ _ HI) as Hs.
  assert (Hex : exists k0, In (k0, e) (items l)) by (destruct (rel_prefix_in _ _ He) as [H|H]; eauto).
  destruct Hex as [k0 Hk0]. apply (LedgerOrder.in_nodup_aget _ _ _ (st_nodup _ Hs)) in Hk0.
  rewrite (st_key _ Hs _ _ Hk0). eapply INV_item_mentioned; eauto.
Qed.

(* ORDER over whole histories: under the contract, whenever k has been released, every delivery that
   is current and was first mentioned before k has been released too *)
Theorem released_prefix_closed : forall h, WF h ->
  forall k, In k (released_keys h) ->
  forall k', current k' h -> first_pos k' h < first_pos k h -> In k' (released_keys h).
Proof.
  induction h as [|o h IH] using rev_ind; intros HW k Hk k' Hc Hlt; [destruct Hk|].
  pose proof (WF_snoc _ _ HW) as HW0.
  destruct (lrun empty_ledger h) as [l rs] eqn:Hrun.
  pose proof (WF_run_reach h l rs HW0 Hrun) as HR. pose proof (INV_reach h l HW0 HR) as HI.
  rewrite (released_keys_snoc h l o HR) in *. apply in_app_or in Hk. destruct Hk as [Hk|Hk].
  - (* k was released earlier *)
    pose proof (DoneRel_mentioned h k (inv_rel _ _ HI) Hk) as Hmk.
    rewrite (first_pos_snoc_old k h o Hmk) in Hlt.
    assert (Hmk' : mentioned k' h).
    { apply (first_pos_snoc_lt k' h o). apply first_pos_mentioned in Hmk. lia. }
    rewrite (first_pos_snoc_old k' h o Hmk') in Hlt.
    apply in_or_app. left. apply (IH HW0 k Hk k'); [|assumption].
    eapply current_snoc_back; eauto.
  - (* k is released by this very op: a tracker tick *)
    destruct o as [t0 k0 n0 c0|t0 k0 n0|]; try destruct Hk. simpl in Hk.
    apply in_map_iff in Hk. destruct Hk as (e & <- & He).
    pose proof (rel_prefix_mentioned h l e HI He) as Hmk.
    rewrite (first_pos_snoc_old _ h OEmit Hmk) in Hlt.
    assert (Hmk' : mentioned k' h).
    { apply (first_pos_snoc_lt k' h OEmit). apply first_pos_mentioned in Hmk. lia. }
    rewrite (first_pos_snoc_old k' h OEmit Hmk') in Hlt.
    apply (proj1 (current_snoc_emit k' h)) in Hc.
    destruct (ledger_order_safe h l HW0 HR e He k' Hc Hlt) as [H|H]; apply in_or_app; [now left|now right].
Qed.

(* ---------- the contract from pipeline facts ---------- *)
(* hypotheses on the input stream that the client layer is responsible for (C07): all messages of one
   delivery carry the same transaction id; no COMMIT carries position 0 (finding F2 is exactly a
   violation of the latter) *)
Definition key_txn_ok (ms : list msg) : Prop :=
  forall m m', In m ms -> In m' ms -> m_key m = m_key m' -> m_txn m = m_txn m'.
Definition commits_nonzero (ms : list msg) : Prop :=
  forall m, In m ms -> is_commit m = true -> m_wal m <> 0%N.
(* no transaction is delivered twice: one delivery key per transaction id *)
Definition txn_one_key (ms : list msg) : Prop :=
  forall m m', In m ms -> In m' ms -> m_txn m = m_txn m' -> m_key m = m_key m'.

Lemma NoDup_map_filter_later {A B} (f : A -> B) (P : A -> bool) : forall ms,
  (forall ms1 c ms2, ms = ms1 ++ c :: ms2 -> P c = true -> forall m, In m ms2 -> f m <> f c) ->
  NoDup (map f (filter P ms)).
Proof.
  induction ms as [|x ms IH]; intros H; simpl; [constructor|].
  assert (Hr : NoDup (map f (filter P ms))).
  { apply IH. intros ms1 c ms2 E Hc m Hm. apply (H (x :: ms1) c ms2); [now rewrite E|assumption|assumption]. }
  destruct (P x) eqn:Px; [|assumption]. simpl. constructor; [|assumption].
  intros Hin. apply in_map_iff in Hin. destruct Hin as (m & E & Hm). apply filter_In in Hm.
  apply (H [] x ms eq_refl Px m); tauto.
Qed.

Lemma framed_commit_keys_nodup ms : framed ms = true -> NoDup (map s_key (seens_of ms)).
Proof.
  intros Hf.
  assert (E : map s_key (seens_of ms) = map m_key (filter is_commit ms)).
  { unfold seens_of. pose proof (scan_commits ms "" 0%Z) as H.
    apply (f_equal (map (fun x : string * string * N => snd (fst x)))) in H. rewrite !map_map in H. exact H. }
  rewrite E. apply NoDup_map_filter_later. intros ms1 c ms2 -> Hc m Hm.
  apply (framed_commit_closes ms1 [] None c ms2 Hf Hc); [discriminate|assumption].
Qed.

Lemma seen_once_of_nodup h : NoDup (map s_key (seens_in h)) -> seen_once h.
Proof.
  induction h as [|o h IH]; intros Hn i j t1 t2 k n1 n2 c1 c2 Hi Hj; [destruct i; discriminate|].
  assert (Hn' : NoDup (map s_key (seens_in h))).
  { change (seens_in (o :: h)) with ((match o with OSeen t k n c => [mkSeen t k n c] | _ => [] end) ++ seens_in h) in Hn.
    destruct o; simpl in Hn; [inversion Hn; assumption|assumption|assumption]. }
  assert (Hhead : forall t k n c j' t' n' c', o = OSeen t k n c -> nth_error h j' = Some (OSeen t' k n' c') -> False).
  { intros t k0 n c j' t' n' c' -> Hj'. simpl in Hn. inversion Hn; subst. apply H1.
    apply nth_error_In in Hj'. apply in_seens_in in Hj'. apply (in_map s_key) in Hj'. exact Hj'. }
  destruct i as [|i]; destruct j as [|j]; simpl in Hi, Hj.
  - reflexivity.
  - exfalso. inversion Hi; subst. eapply Hhead; eauto.
  - exfalso. inversion Hj; subst. eapply Hhead; eauto.
  - f_equal. eapply IH; eauto.
Qed.

Section Contract.
  Context (cfg : bcfg) (ls : list plabel) (Hw : workers_ok cfg) (Hfr : framed (fed_of ls) = true).
  Let st := prun cfg ls.

  (* whatever the ghost history mentions stems from a received message of that delivery and transaction *)
  Lemma mention_origin o t k : In o (p_lops st) -> mention o = Some (t, k) ->
    exists m, In m (fed_of ls) /\ m_key m = k /\ m_txn m = t.
  Proof.
    intros Hin Hm. destruct (pipeline_facts cfg ls Hw) as (evs & tr & accb & readm & g & t0 & HP & HM & _). fold st in HP.
    assert (Hfull : exists more, fed_of ls = fed_of ls ++ more) by (exists []; now rewrite app_nil_r).
    destruct (fed_prefix cfg ls st evs tr accb readm g t0 HP HM _ Hfull) as [rest Erest].
    destruct o as [t1 k1 n c|t1 k1 n|]; simpl in Hm; inversion Hm; subst.
    - destruct (seen_origin cfg ls st evs tr accb readm g t0 Hw HP HM _ Hfull Hfr t k n c Hin)
        as (ms1 & cm & ms2 & E & _ & E1 & E2 & _).
      exists cm. split; [|auto]. rewrite Erest, E. apply in_or_app. left. apply in_or_app. right. now left.
    - apply in_writs_in in Hin. rewrite (pi_writs _ _ _ _ _ _ _ HP) in Hin. apply in_concat in Hin.
      destruct Hin as (x & Hx & Hin).
      destruct (PI_maps_good cfg ls st evs tr accb readm g t0 HP HM x (in_or_app _ _ _ (or_introl Hx))) as [_ H].
      destruct (H _ _ _ Hin) as (_ & m & Hm' & _ & E1 & E2). exists m. split; [|auto].
      rewrite Erest. apply in_or_app. left.
      rewrite <- (received_split cfg tr g t0 HM) in Hm'. unfold changes in Hm'. apply filter_In in Hm'. tauto.
  Qed.

  Lemma pipeline_key_txn_fun : key_txn_ok (fed_of ls) -> key_txn_fun (p_lops st).
  Proof.
    intros Hk o1 o2 t1 t2 k H1 H2 M1 M2.
    destruct (mention_origin o1 t1 k H1 M1) as (m1 & A1 & B1 & C1).
    destruct (mention_origin o2 t2 k H2 M2) as (m2 & A2 & B2 & C2).
    rewrite <- C1, <- C2. apply Hk; auto. congruence.
  Qed.

  Lemma pipeline_seen_once : seen_once (p_lops st).
  Proof.
    apply seen_once_of_nodup.
    destruct (pipeline_facts cfg ls Hw) as (evs & tr & accb & readm & g & t0 & HP & HM & _). fold st in HP.
    assert (Hfull : exists more, fed_of ls = fed_of ls ++ more) by (exists []; now rewrite app_nil_r).
    destruct (fed_prefix cfg ls st evs tr accb readm g t0 HP HM _ Hfull) as [rest Erest].
    rewrite (pi_seens _ _ _ _ _ _ _ HP), (mt_seen _ _ _ _ HM).
    destruct (mt_run _ _ _ _ HM) as [acts Ha].
    destruct (dispatch_invariant cfg acts g t0 Hw Ha) as [Hs _]. unfold scan_inv in Hs.
    assert (Hf0 : framed (fed t0) = true) by (rewrite Erest in Hfr; eapply framed_prefix; eauto).
    pose proof (framed_commit_keys_nodup _ Hf0) as Hn. unfold seens_of in Hn. rewrite Hs in Hn. simpl in Hn.
    rewrite map_app in Hn. eapply NoDup_app_l; eauto.
  Qed.

  Lemma pipeline_commit_nonzero : commits_nonzero (fed_of ls) -> commit_nonzero (p_lops st).
  Proof.
    intros Hc t k n c Hin.
    destruct (pipeline_facts cfg ls Hw) as (evs & tr & accb & readm & g & t0 & HP & HM & _). fold st in HP.
    assert (Hfull : exists more, fed_of ls = fed_of ls ++ more) by (exists []; now rewrite app_nil_r).
    destruct (fed_prefix cfg ls st evs tr accb readm g t0 HP HM _ Hfull) as [rest Erest].
    destruct (seen_origin cfg ls st evs tr accb readm g t0 Hw HP HM _ Hfull Hfr t k n c Hin)
      as (ms1 & cm & ms2 & E & Hcm & _ & _ & <- & _).
    apply Hc; [|assumption]. rewrite Erest, E. apply in_or_app. left. apply in_or_app. right. now left.
  Qed.

  Lemma pipeline_no_over_report : no_over_report (p_lops st).
  Proof.
    intros t k n c Hin.
    destruct (pipeline_facts cfg ls Hw) as (evs & tr & accb & readm & g & t0 & HP & HM & _). fold st in HP.
    assert (Hfull : exists more, fed_of ls = fed_of ls ++ more) by (exists []; now rewrite app_nil_r).
    exact (seen_bound cfg ls st evs tr accb readm g t0 Hw HP HM _ Hfull Hfr t k n c Hin).
  Qed.

  (* E5 for free: when no transaction is redelivered (every transaction id comes with ONE delivery key) no
     completion can be stale, whatever the schedule *)
  Lemma pipeline_no_stale_uninterrupted : txn_one_key (fed_of ls) -> no_stale (p_lops st).
  Proof.
    intros H1 i j l t k k' _ _ Hi Hj _.
    destruct (mention_at_in _ _ _ Hi) as (o1 & Ho1 & M1). destruct (mention_at_in _ _ _ Hj) as (o2 & Ho2 & M2).
    destruct (mention_origin o1 t k Ho1 M1) as (m1 & A1 & B1 & C1).
    destruct (mention_origin o2 t k' Ho2 M2) as (m2 & A2 & B2 & C2).
    rewrite <- B1, <- B2. apply H1; auto. congruence.
  Qed.

  (* five of the six conjuncts of the ledger contract are consequences of the composition; what remains
     is E5, no stale completion *)
  Theorem pipeline_WF : key_txn_ok (fed_of ls) -> commits_nonzero (fed_of ls) ->
    no_stale (p_lops st) -> WF (p_lops st).
  Proof.
    intros Hk Hc Hs. split; [now apply pipeline_key_txn_fun|]. split; [assumption|].
    split; [apply pipeline_seen_once|]. split; [now apply pipeline_commit_nonzero|].
    split; [now apply pipeline_pos_counts|apply pipeline_no_over_report].
  Qed.
End Contract.

(* C01, ORDER half under the contract: every acknowledged position is the commit of a released
   delivery k; every delivery that the ledger history shows as current and first mentioned before k
   is released too; and everything released is completely in the sink *)
Theorem pipeline_order_partial cfg ls : workers_ok cfg ->
  NoDup (map m_id (fed_of ls)) -> framed (fed_of ls) = true ->
  key_txn_ok (fed_of ls) -> commits_nonzero (fed_of ls) -> no_stale (p_lops (prun cfg ls)) ->
  let h := p_lops (prun cfg ls) in
  WF h /\
  forall F, In F (p_acked (prun cfg ls)) ->
  exists t k n, In (OSeen t k n F) h /\ In k (released_keys h) /\
    forall k', (k' = k \/ (current k' h /\ first_pos k' h < first_pos k h)) ->
      In k' (released_keys h) /\
      exists t' n' c', In (OSeen t' k' n' c') h /\ certified k' h = n' /\ n' = nchanges k' (fed_of ls) /\
        (forall m, In m (fed_of ls) -> is_marker m = false -> m_key m = k' -> fate_of cfg m = FAccepted ->
                   In (m_id m) (map r_id (p_accepted (prun cfg ls)))) /\
        (forall m, In m (fed_of ls) -> is_marker m = false -> m_key m = k' -> fate_of cfg m <> FDroppedInvalid).
Proof.
  intros Hw Hnd Hfr Hk Hc Hs h. pose proof (pipeline_WF cfg ls Hw Hfr Hk Hc Hs) as HW. fold h in HW.
  split; [assumption|]. intros F HF.
  destruct (pipeline_acked_released cfg ls Hw F HF) as (t & k & n & H1 & H2). fold h in H1, H2.
  exists t, k, n. split; [assumption|]. split; [assumption|]. intros k' Hk'.
  assert (Hrel : In k' (released_keys h)).
  { destruct Hk' as [->|[Hcur Hlt]]; [assumption|]. eapply released_prefix_closed; eauto. }
  split; [assumption|].
  pose proof (pipeline_released_keys_complete cfg ls [] Hw) as Hcomp. rewrite app_nil_r in Hcomp.
  exact (Hcomp Hnd Hfr k' Hrel).
Qed.

(* ===================================================================== *)
(* Part 8 — C02: the ledger drains at quiescence                           *)
(* ===================================================================== *)

(* no stage other than the tracker's tick has anything left to do *)
Definition quiescent (st : pstate) : Prop :=
  queued (p_queues st) = [] /\ p_written st = [] /\
  (forall p ob, In (p, ob) (open (p_b st)) -> b_txns (ob_batch ob) = []) /\
  seenl (p_b st) = [] /\ dead (p_b st) = false.

(* the input is complete: every delivery the ledger history still shows as current had its COMMIT
   handed to the batcher, and no change was dropped as invalid (a change dropped as invalid is counted
   in the Seen total but in no transactions map: C04_invalid_change_never_written_refuted) *)
Definition input_complete (cfg : bcfg) (ls : list plabel) : Prop :=
  (forall k, current k (p_lops (prun cfg ls)) ->
     exists c, In c (fed_of ls) /\ is_commit c = true /\ m_key c = k) /\
  (forall m, In m (fed_of ls) -> is_marker m = false -> fate_of cfg m <> FDroppedInvalid).

Section Drain.
  Context (cfg : bcfg) (ls : list plabel) (Hw : workers_ok cfg) (Hfr : framed (fed_of ls) = true).
  Let st := prun cfg ls.
  Context (Hf : p_failed st = false) (Hq : quiescent st) (Hic : input_complete cfg ls).

  Lemma quiescent_settled : all_settled (p_lops st).
  Proof.
    intros k Hcur _. destruct Hic as [Hic1 Hic2]. destruct (Hic1 k Hcur) as (c & Hc1 & Hc2 & Hc3).
    destruct Hq as (Q1 & Q2 & Q3 & Q4 & Q5).
    destruct (pipeline_facts cfg ls Hw) as (evs & tr & accb & readm & g & t0 & HP & HM & Hg). fold st in HP, Hg.
    specialize (Hg Q5).
    assert (Hfull : exists more, fed_of ls = fed_of ls ++ more) by (exists []; now rewrite app_nil_r).
    destruct (pi_fed _ _ _ _ _ _ _ HP) as (rest & Efed & Hrest). rewrite (Hrest Q5 Hf), app_nil_r in Efed.
    rewrite (mt_fed _ _ _ _ HM) in Efed.
    destruct (mt_run _ _ _ _ HM) as [acts Ha].
    destruct (dispatch_invariant cfg acts g t0 Hw Ha) as [Hs _]. unfold scan_inv in Hs.
    assert (Hgs : g_st g = p_b st) by (rewrite Hg; reflexivity).
    rewrite Hgs, Q4, app_nil_r in Hs.
    rewrite Efed in Hc1. destruct (seens_of_commit _ _ Hc1 Hc2) as [n Hn].
    unfold seens_of in Hn. rewrite Hs in Hn. simpl in Hn.
    rewrite <- (mt_seen _ _ _ _ HM), <- (pi_seens _ _ _ _ _ _ _ HP) in Hn. apply in_seens_in in Hn. rewrite Hc3 in Hn.
    exists (m_txn c), n, (m_wal c). split; [assumption|].
    destruct (seen_origin cfg ls st evs tr accb readm g t0 Hw HP HM _ Hfull Hfr _ _ _ _ Hn)
      as (_ & _ & _ & _ & _ & _ & _ & _ & _ & _ & EN & _).
    pose proof (I3_accounting cfg ls st evs tr accb readm g t0 Hw HP HM k) as I3.
    rewrite Q1, Q2, !zsum_nil, Hgs in I3.
    assert (EO : open_txcount k (p_b st) = 0%Z).
    { unfold open_txcount. rewrite (zsum_ext_in _ (fun _ => 0%Z)).
      - apply zsum_zero.
      - intros [p ob] Hin. simpl. now rewrite (Q3 p ob Hin). }
    rewrite EO in I3.
    assert (Ea : g_added g = changes (fed t0)) by (rewrite Hg; simpl; now rewrite (mt_fed _ _ _ _ HM)).
    rewrite nchanges_zsum in EN. rewrite Ea in I3.
    assert (Eind : zsum (fun m => if String.eqb (m_key m) k && negb (is_invalid cfg m) then 1%Z else 0%Z) (changes (fed t0)) =
                   zsum (fun m => if String.eqb (m_key m) k then 1%Z else 0%Z) (changes (fed t0))); [|lia].
    apply zsum_ext_in.
    intros m Hm. unfold changes in Hm. apply filter_In in Hm. destruct Hm as [Hm1 Hm2].
    unfold change in Hm2. apply negb_true_iff in Hm2. rewrite <- Efed in Hm1.
    pose proof (Hic2 m Hm1 Hm2) as Hni. unfold is_invalid.
    destruct (fate_of cfg m); try congruence; now rewrite andb_true_r.
  Qed.

  Context (Hk : key_txn_ok (fed_of ls)) (Hc : commits_nonzero (fed_of ls)) (Hs : no_stale (p_lops st)).

  (* C02: one more tracker tick empties the ledger — items and index — and acknowledges the commit of
     the newest delivery the ledger was still tracking *)
  Theorem pipeline_drains :
    let h := p_lops st in
    let st' := pstep cfg st LEmit in
    items (p_ledger st') = [] /\ idx (p_ledger st') = [] /\ p_failed st' = false /\
    (items (p_ledger st) = [] -> p_acked st' = p_acked st) /\
    (items (p_ledger st) <> [] ->
       exists its k e, items (p_ledger st) = its ++ [(k, e)] /\ p_acked st' = p_acked st ++ [e_commit e] /\
         In (OSeen (e_txn e) k (e_total e) (e_commit e)) h /\ certified k h = e_total e /\
         current k h /\ ~ In k (released_keys h) /\
         forall k', current k' h -> ~ In k' (released_keys h) -> k' = k \/ first_pos k' h < first_pos k h).
  Proof.
    intros h st'. pose proof (pipeline_WF cfg ls Hw Hfr Hk Hc Hs) as HW. fold st in HW. fold h in HW.
    pose proof (pipeline_reach cfg ls Hf) as HR. fold st in HR. fold h in HR.
    pose proof quiescent_settled as Hset. fold h in Hset.
    pose proof (ledger_drains h _ HW HR Hset) as D.
    pose proof (ledger_last_is_newest h _ HW HR Hset) as N.
    subst st'. unfold pstep. rewrite Hf.
    destruct (emit (p_ledger st)) as [r l'] eqn:Ee. destruct D as (D1 & D2 & D3 & D4).
    destruct r as [f|]; simpl.
    - split; [assumption|]. split; [assumption|]. split; [reflexivity|]. split.
      + intros E. specialize (D3 E). discriminate.
      + intros Hne. destruct (N Hne) as (its & k & e & E1 & E2 & E3 & E4 & E5 & E6 & E7).
        simpl in E2. inversion E2; subst f. exists its, k, e. repeat split; auto.
    - split; [assumption|]. split; [assumption|]. split; [reflexivity|]. split; [reflexivity|].
      intros Hne. destruct (N Hne) as (its & k & e & E1 & E2 & _). simpl in E2. discriminate.
  Qed.
End Drain.

(* ---------- quiescence is reachable ---------- *)
(* worker queues: one queue per worker index *)
Lemma enqueue_keys_in w b qs x : In x (map fst (enqueue w b qs)) -> x = w \/ In x (map fst qs).
Proof.
  induction qs as [|[w' q] qs IH]; simpl.
  - intros [<-|[]]. now left.
  - destruct (w =? w')%N; simpl; intros [<-|H]; auto. destruct (IH H); auto.
Qed.

Lemma enqueue_keys w b qs : NoDup (map fst qs) -> NoDup (map fst (enqueue w b qs)).
Proof.
  induction qs as [|[w' q] qs IH]; simpl; intros H.
  - constructor; [tauto|constructor].
  - inversion H; subst. destruct (N.eqb_spec w w') as [->|Hne]; simpl; [constructor; assumption|].
    constructor; [|auto]. intros Hin. apply enqueue_keys_in in Hin. destruct Hin as [->|Hin]; [congruence|contradiction].
Qed.

Lemma dequeue_keys w : forall qs b qs', dequeue w qs = Some (b, qs') -> map fst qs' = map fst qs.
Proof.
  induction qs as [|[w' q] qs IH]; intros b qs' H; simpl in H; [discriminate|].
  destruct (w =? w')%N.
  - destruct q; [discriminate|]. inversion H; subst. reflexivity.
  - destruct (dequeue w qs) as [[b1 r1]|] eqn:E; [|discriminate]. inversion H; subst. simpl. f_equal. eapply IH; eauto.
Qed.

Lemma dequeue_some_key w : forall qs b qs', dequeue w qs = Some (b, qs') -> In w (map fst qs).
Proof.
  induction qs as [|[w' q] qs IH]; intros b qs' H; simpl in H; [discriminate|].
  destruct (N.eqb_spec w w') as [->|Hne]; [now left|].
  destruct (dequeue w qs) as [[b1 r1]|] eqn:E; [|discriminate]. right. eapply IH; eauto.
Qed.

Lemma route_queues_nodup outs : forall st, NoDup (map fst (p_queues st)) -> NoDup (map fst (p_queues (route st outs))).
Proof.
  induction outs as [|o outs IH]; intros st H; simpl; [assumption|]. apply IH.
  destruct o as [l|w b|x|]; simpl; auto.
  - destruct (apply_lops (p_ledger st) (seen_ops l)); simpl; assumption.
  - now apply enqueue_keys.
Qed.

Lemma pipeline_queues_nodup cfg ls : NoDup (map fst (p_queues (prun cfg ls))).
Proof.
  induction ls as [|l ls IH] using rev_ind; [constructor|]. rewrite prun_snoc.
  set (st := prun cfg ls) in *. unfold pstep. destruct (p_failed st); [assumption|].
  destruct l as [now m|now order pops|w| |].
  - destruct (dead (p_b st)); [assumption|]. destruct (bstep_msg cfg (p_b st) now m) as [b' outs].
    apply route_queues_nodup. assumption.
  - destruct (bstep_tick cfg (p_b st) now order pops) as [[b' outs]|]; [|assumption].
    apply route_queues_nodup. assumption.
  - destruct (dequeue w (p_queues st)) as [[b qs]|] eqn:E; [|assumption]. simpl. now rewrite (dequeue_keys _ _ _ _ E).
  - destruct (p_written st) as [|x r]; [assumption|]. destruct (apply_lops (p_ledger st) (written_ops x)). assumption.
  - destruct (emit (p_ledger st)) as [[f|] lg]; assumption.
Qed.

Lemma queued_nonempty_dequeue : forall qs, NoDup (map fst qs) -> queued qs <> [] ->
  exists w b qs', dequeue w qs = Some (b, qs').
Proof.
  induction qs as [|[w q] qs IH]; intros Hnd Hne; [now elim Hne|]. simpl in *. inversion Hnd; subst.
  destruct q as [|b q].
  - destruct (IH H2 Hne) as (w0 & b & qs' & E). exists w0, b, ((w, []) :: qs').
    pose proof (dequeue_some_key _ _ _ _ E) as Hin.
    destruct (N.eqb_spec w0 w) as [->|Hd]; [contradiction|]. now rewrite E.
  - exists w, b, ((w, q) :: qs). now rewrite N.eqb_refl.
Qed.

(* the workers finish everything that is queued *)
Lemma accept_all cfg : forall n st, List.length (queued (p_queues st)) = n ->
  NoDup (map fst (p_queues st)) -> p_failed st = false ->
  exists ws, List.length ws = n /\
    let st' := fold_left (pstep cfg) (map LAccept ws) st in
    queued (p_queues st') = [] /\ List.length (p_written st') = List.length (p_written st) + n /\
    p_b st' = p_b st /\ p_failed st' = false.
Proof.
  induction n as [|n IH]; intros st Hl Hnd Hf.
  - exists []. simpl. split; [reflexivity|]. split; [now apply length_zero_iff_nil|]. split; [lia|auto].
  - assert (Hne : queued (p_queues st) <> []) by (intros E; rewrite E in Hl; discriminate).
    destruct (queued_nonempty_dequeue _ Hnd Hne) as (w & b & qs' & E).
    set (st1 := pstep cfg st (LAccept w)).
    assert (E1 : st1 = mkPst (p_b st) qs' (p_written st ++ [b_txns b]) (p_ledger st) (p_accepted st ++ b_items b)
                             (p_acked st) (p_lops st) (p_failed st)).
    { unfold st1, pstep. now rewrite Hf, E. }
    destruct (IH st1) as (ws & Hws & H1 & H2 & H3 & H4).
    + rewrite E1. simpl. pose proof (Permutation_length (dequeue_perm _ _ _ _ E)) as P. simpl in P. lia.
    + rewrite E1. simpl. now rewrite (dequeue_keys _ _ _ _ E).
    + rewrite E1. simpl. assumption.
    + exists (w :: ws). split; [simpl; lia|]. simpl. fold st1. split; [assumption|].
      split; [|split; [|assumption]].
      * rewrite H2, E1. simpl. rewrite app_length. simpl. lia.
      * rewrite H3, E1. reflexivity.
Qed.

Lemma apply_written_ok x : forall l, exists lg, apply_lops l (written_ops x) = (lg, false).
Proof. induction x as [|p x IH]; intros l; simpl; [eauto|]. apply IH. Qed.

(* the tracker reads everything off the written channel (a Written never makes it fail) *)
Lemma read_all cfg : forall n st, List.length (p_written st) = n -> p_failed st = false ->
  let st' := fold_left (pstep cfg) (repeat LRead n) st in
  p_written st' = [] /\ p_queues st' = p_queues st /\ p_b st' = p_b st /\ p_failed st' = false.
Proof.
  induction n as [|n IH]; intros st Hl Hf; simpl.
  - split; [now apply length_zero_iff_nil|auto].
  - destruct (p_written st) as [|x r] eqn:Ew; [discriminate|].
    destruct (apply_written_ok x (p_ledger st)) as [lg Ea].
    set (st1 := pstep cfg st LRead).
    assert (E1 : st1 = mkPst (p_b st) (p_queues st) r lg (p_accepted st) (p_acked st) (p_lops st ++ written_ops x) false).
    { unfold st1, pstep. now rewrite Hf, Ew, Ea. }
    destruct (IH st1) as (H1 & H2 & H3 & H4).
    + rewrite E1. simpl. simpl in Hl. lia.
    + rewrite E1. reflexivity.
    + fold st1. cbv zeta. split; [assumption|]. split; [rewrite H2, E1; reflexivity|].
      split; [rewrite H3, E1; reflexivity|assumption].
Qed.

(* the batcher: a pending Seen list implies an open batch (the COMMIT that made it created one) *)
Lemma aset_nonempty {V} (k : string) (v : V) m : aset k v m <> [].
Proof. destruct m as [|[k0 v0] m]; simpl; [discriminate|]. destruct (String.eqb k k0); discriminate. Qed.

Lemma seen_needs_open cfg evs b t : workers_ok cfg -> brun cfg binit evs = (b, t) -> dead b = false ->
  seenl b <> [] -> open b <> [].
Proof.
  intros Hw H Hd. destruct (brun_machine cfg evs b t Hw H Hd) as [acts Ha].
  change b with (g_st (mkG b (changes (fed t)) None)).
  refine (arun_inv cfg (fun g _ => seenl (g_st g) <> [] -> open (g_st g) <> []) _ acts ginit [] _ t _ Ha).
  - clear. intros g t a g' t' IH Hs. apply astep_cases in Hs. destruct Hs as [Hd [Hs|[Hs|Hs]]].
    + destruct Hs as (now & m & -> & _ & -> & ->). intros _. simpl.
      destruct (aget (m_pkey m) (open (g_st g))) eqn:E; [|apply aset_nonempty].
      intros E0. rewrite E0 in E. discriminate.
    + destruct Hs as (p & repl & ob & -> & Hg & -> & ->). simpl. intros Hn. now elim Hn.
    + destruct Hs as (now & m & ob & b' & r & -> & _ & _ & _ & _ & -> & ->). intros _. simpl. apply aset_nonempty.
  - simpl. intros Hn. now elim Hn.
Qed.

Lemma flush_keys_seenl_nil cfg : workers_ok cfg -> forall ks st st' o,
  flush_keys cfg st ks = (st', o) -> seenl st = [] -> seenl st' = [].
Proof.
  intros Hw. induction ks as [|k r IH]; intros st st' o H Hs; simpl in H; [inversion H; subst; assumption|].
  destruct (aget k (open st)) as [ob|]; [|eauto].
  rewrite send_batch_spec in H. change (existsb _ ?x) with (has_fatal x) in H. rewrite send_no_fatal in H by assumption.
  destruct (flush_keys cfg _ r) as [st2 o2] eqn:E. inversion H; subst. eapply IH; eauto.
Qed.

Lemma flush_keys_seenl cfg : workers_ok cfg -> forall ks st st' o,
  flush_keys cfg st ks = (st', o) -> (exists k, In k ks /\ aget k (open st) <> None) -> seenl st' = [].
Proof.
  intros Hw. induction ks as [|k r IH]; intros st st' o H (k0 & Hin & Hk0); [destruct Hin|]. simpl in H.
  destruct (aget k (open st)) as [ob|] eqn:Eg.
  - rewrite send_batch_spec in H. change (existsb _ ?x) with (has_fatal x) in H. rewrite send_no_fatal in H by assumption.
    destruct (flush_keys cfg _ r) as [st2 o2] eqn:E. inversion H; subst.
    eapply flush_keys_seenl_nil; eauto.
  - apply (IH _ _ _ H). exists k0. split; [|assumption]. destruct Hin as [->|Hin]; [congruence|assumption].
Qed.

Lemma payload_count outs :
  List.length (dispatched (map TOut outs)) + List.length (empties (map TOut outs)) = List.length (payloads outs).
Proof.
  induction outs as [|o outs IH]; [reflexivity|].
  change (map TOut (o :: outs)) with ([TOut o] ++ map TOut outs). change (o :: outs) with ([o] ++ outs).
  rewrite dispatched_app, empties_app, payloads_app, !app_length, <- IH. destruct o; simpl; lia.
Qed.

(* one tick late enough flushes every open batch and the pending Seen list *)
Lemma flush_all_tick cfg b : workers_ok cfg -> (0 < c_mem_limit cfg)%Z -> NoDup (map fst (open b)) ->
  dead b = false -> (seenl b <> [] -> open b <> []) ->
  exists now pops b' outs, bstep_tick cfg b now (map fst (open b)) pops = Some (b', outs) /\
    open b' = [] /\ seenl b' = [] /\ dead b' = false /\
    List.length (dispatched (map TOut outs)) + List.length (empties (map TOut outs)) <= List.length (open b).
Proof.
  intros Hw Hlim Hnd Hd Hso.
  set (now := (c_upd_age cfg + 1 + zsum (fun kv : string * obatch => Z.abs (ob_mtime (snd kv))) (open b))%Z).
  assert (Hflag : forall k ob, In (k, ob) (open b) -> flagged cfg now ob = true).
  { intros k ob Hin. unfold flagged.
    assert (Z.abs (ob_mtime ob) <= zsum (fun kv : string * obatch => Z.abs (ob_mtime (snd kv))) (open b))%Z.
    { apply (zsum_ge_in (fun kv : string * obatch => Z.abs (ob_mtime (snd kv))) (open b) (k, ob)); [|assumption].
      intros y _. apply Z.abs_nonneg. }
    assert ((ob_mtime ob <? now - c_upd_age cfg)%Z = true) by (apply Z.ltb_lt; unfold now; lia).
    rewrite H0. now rewrite orb_true_r. }
  destruct (tick_oracle_exists cfg b now Hlim Hnd) as (pops & [b' outs] & Ht).
  destruct (tick_age cfg b now _ pops b' outs Hw Hnd Hd Ht) as (Hd' & Hkeep & flushed & Hfn & Hfl & Hpay).
  assert (Hopen : open b' = []).
  { destruct (open b') as [|[k ob] r] eqn:E; [reflexivity|]. exfalso.
    destruct (Hkeep k ob) as (Hin & _ & _ & _ & Hm); [now left|].
    pose proof (Hflag k ob Hin) as Hf.
    assert (Z.abs (ob_mtime ob) <= zsum (fun kv : string * obatch => Z.abs (ob_mtime (snd kv))) (open b))%Z.
    { apply (zsum_ge_in (fun kv : string * obatch => Z.abs (ob_mtime (snd kv))) (open b) (k, ob)); [|assumption].
      intros y _. apply Z.abs_nonneg. }
    unfold now in Hm. lia. }
  exists now, pops, b', outs. split; [assumption|]. split; [assumption|]. split; [|split; [assumption|]].
  - unfold bstep_tick in Ht. rewrite Hd in Ht.
    destruct (negb (is_perm_of_keys (map fst (open b)) b)); [discriminate|].
    destruct (mem_flush _ cfg b _ _ pops) as [mf|]; [|discriminate]. inversion Ht as [Hfk]. clear Ht.
    destruct (seenl b) as [|s sl] eqn:Es; [eapply flush_keys_seenl_nil; eauto|].
    apply (flush_keys_seenl cfg Hw _ _ _ _ Hfk).
    destruct (open b) as [|[k0 ob0] r] eqn:Eo; [exfalso; apply Hso; [discriminate|reflexivity]|].
    exists k0. split.
    + apply in_or_app. left. unfold rule_flush. apply filter_In. split; [now left|].
      rewrite Eo. simpl. rewrite String.eqb_refl. apply (Hflag k0 ob0). now left.
    + simpl. rewrite String.eqb_refl. discriminate.
  - rewrite payload_count, Hpay, map_length.
    rewrite <- (map_length fst flushed), <- (map_length fst (open b)).
    apply NoDup_incl_length; [assumption|]. intros k Hk. apply in_map_iff in Hk. destruct Hk as ([k1 ob] & <- & Hin).
    apply Hfl in Hin. destruct Hin as [Hin _]. change k1 with (fst (k1, ob)). now apply in_map.
Qed.

Lemma fed_of_accepts ws : fed_of (map LAccept ws) = [].
Proof. induction ws; simpl; auto. Qed.
Lemma fed_of_reads n : fed_of (repeat LRead n) = [].
Proof. induction n; simpl; auto. Qed.

(* measure: one tick; every open or queued batch needs an accept and a read (an empty one only a read);
   every waiting report needs a read *)
Definition work_left (st : pstate) : nat :=
  1 + 2 * (List.length (queued (p_queues st)) + List.length (open (p_b st))) + List.length (p_written st).

(* C02: from every reachable state in which batcher and tracker are alive, without feeding anything
   new, at most work_left labels lead to a quiescent state — unless the tracker fails on the way
   (it then stops for good, C17): one all-flushing tick, the workers accept, the tracker reads *)
Theorem pipeline_quiescence_reachable cfg ls : workers_ok cfg -> (0 < c_mem_limit cfg)%Z ->
  dead (p_b (prun cfg ls)) = false -> p_failed (prun cfg ls) = false ->
  exists ls', fed_of ls' = [] /\ List.length ls' <= work_left (prun cfg ls) /\
    (p_failed (prun cfg (ls ++ ls')) = true \/ quiescent (prun cfg (ls ++ ls'))).
Proof.
  intros Hw Hlim Hd Hf. set (st := prun cfg ls) in *.
  destruct (pipeline_batcher_agrees cfg ls) as (evs & t & accb & readm & HP). fold st in HP.
  pose proof (pi_run _ _ _ _ _ _ _ HP) as Hrun.
  pose proof (run_wf cfg evs _ t Hw Hrun Hd) as Hnd.
  pose proof (seen_needs_open cfg evs _ t Hw Hrun Hd) as Hso.
  destruct (flush_all_tick cfg (p_b st) Hw Hlim Hnd Hd Hso) as (now & pops & b' & outs & Ht & Ho & Hs & Hd' & Hcnt).
  set (l1 := LTick now (map fst (open (p_b st))) pops).
  set (st1 := pstep cfg st l1).
  assert (E1 : st1 = route (set_b st b') outs) by (unfold st1, pstep, l1; now rewrite Hf, Ht).
  destruct (route_effect outs (set_b st b')) as (R1 & _ & _ & R4 & R5 & _). rewrite <- E1 in R1, R4, R5. simpl in R1, R4, R5.
  assert (Est1 : st1 = prun cfg (ls ++ [l1])) by (now rewrite prun_snoc).
  destruct (p_failed st1) eqn:Hf1.
  { exists [l1]. split; [reflexivity|]. split; [unfold work_left; simpl; lia|]. left. now rewrite <- Est1. }
  pose proof (pipeline_queues_nodup cfg (ls ++ [l1])) as Hq1. rewrite <- Est1 in Hq1.
  destruct (accept_all cfg _ st1 eq_refl Hq1 Hf1) as (ws & Hws & A1 & A2 & A3 & A4).
  set (st2 := fold_left (pstep cfg) (map LAccept ws) st1) in *.
  destruct (read_all cfg _ st2 eq_refl A4) as (B1 & B2 & B3 & B4).
  set (n2 := List.length (p_written st2)) in *.
  set (st3 := fold_left (pstep cfg) (repeat LRead n2) st2) in *.
  exists ([l1] ++ map LAccept ws ++ repeat LRead n2).
  assert (Efinal : prun cfg (ls ++ [l1] ++ map LAccept ws ++ repeat LRead n2) = st3).
  { rewrite app_assoc, prun_app, <- Est1, fold_left_app. reflexivity. }
  split; [|split].
  - rewrite !fed_of_app, fed_of_accepts, fed_of_reads. reflexivity.
  - rewrite !app_length, map_length, repeat_length, Hws. simpl List.length.
    pose proof (Permutation_length R4) as P4. rewrite app_length, map_length in P4.
    rewrite A2, R5, app_length. unfold work_left. fold st. lia.
  - right. rewrite Efinal. unfold quiescent. rewrite B1, B2, A1, B3, A3, R1, Ho, Hs, Hd'.
    repeat split; auto. intros p ob [].
Qed.

(* ===================================================================== *)
(* Part 9 — witnesses: finding F1 at pipeline level                        *)
(* ===================================================================== *)

(* 2 workers, generic batches of size 1, round robin.  Transaction 701 is delivered partially under
   key kx1 (changes 2 and 3: batch [2] goes to worker 0 and is accepted and read at once, batch [3]
   waits at the slow worker 1), the connection drops, 701 is redelivered under key kx2 (changes 5, 6,
   COMMIT at 100; batch [5] -> worker 0, batch [6] -> worker 1 BEHIND the old batch [3]); transaction
   702 (change 9, COMMIT at 200; batch [9] -> worker 0) is complete.  Worker 0 finishes [5] and [9];
   then worker 1 finishes the OLD batch [3] of kx1: its report makes the ledger drop the entry of kx2. *)
Definition f1_mk (id : N) (op key txn : string) (wal : N) : msg := mkMsg id op "t" 10 key txn wal "".
Definition f1_cfg : bcfg := mkBcfg (BGeneric 1) (mkLimits 500 5242880 1048576) 2 RoundRobin 1000 5000 1000000.
Definition f1_ls : list plabel :=
  [ LFeed 0 (f1_mk 1 "BEGIN" "kx1" "701" 10); LFeed 0 (f1_mk 2 "INSERT" "kx1" "701" 11);
    LFeed 0 (f1_mk 3 "INSERT" "kx1" "701" 12);
    LAccept 0; LRead;
    LFeed 0 (f1_mk 4 "BEGIN" "kx2" "701" 10); LFeed 0 (f1_mk 5 "INSERT" "kx2" "701" 11);
    LFeed 0 (f1_mk 6 "INSERT" "kx2" "701" 12); LFeed 0 (f1_mk 7 "COMMIT" "kx2" "701" 100);
    LFeed 0 (f1_mk 8 "BEGIN" "ky" "702" 150); LFeed 0 (f1_mk 9 "INSERT" "ky" "702" 151);
    LFeed 0 (f1_mk 10 "COMMIT" "ky" "702" 200);
    LAccept 0; LAccept 0; LRead; LRead; LEmit;      (* nothing releasable yet: kx2 is 1/2 *)
    LAccept 1; LRead; LEmit ].                      (* the stale completion; 200 is acknowledged *)
(* ... continued to completion: everything flushed, accepted and read *)
Definition f1_done : list plabel := f1_ls ++ [LTick 100000 [""] []; LAccept 1; LRead; LRead; LEmit].

(* a variant in which the old delivery is mentioned for the FIRST time after the new one: the ghost
   history then satisfies all six conjuncts of WF — the ledger-level contract cannot see that kx1 is
   older than kx2 — and the same damage is done *)
Definition f1b_ls : list plabel :=
  [ LFeed 0 (f1_mk 1 "BEGIN" "kx1" "701" 10); LFeed 0 (f1_mk 2 "INSERT" "kx1" "701" 11);
    LFeed 0 (f1_mk 3 "BEGIN" "kx2" "701" 10); LFeed 0 (f1_mk 4 "INSERT" "kx2" "701" 11);
    LFeed 0 (f1_mk 5 "INSERT" "kx2" "701" 12); LFeed 0 (f1_mk 6 "COMMIT" "kx2" "701" 100);
    LFeed 0 (f1_mk 7 "BEGIN" "ky" "702" 150); LFeed 0 (f1_mk 8 "INSERT" "ky" "702" 151);
    LFeed 0 (f1_mk 9 "COMMIT" "ky" "702" 200);
    LAccept 1; LAccept 1; LAccept 0; LRead; LRead; LRead; LEmit ].

(* non-vacuity run: transaction 7 is delivered as k71 (change 2, its batch accepted and read), the
   connection drops, 7 is redelivered as k72 (changes 4, 5, COMMIT at 100); transaction 8 = k81 (change 8,
   COMMIT at 200).  Worker 1 is fast ([4] and [8] first), worker 0 slow ([5] last); the tracker ticks
   four times; no stale completion.  [nv_pre] stops just before the tick that drains the ledger. *)
Definition nv_pre : list plabel :=
  [ LFeed 0 (f1_mk 1 "BEGIN" "k71" "7" 10); LFeed 0 (f1_mk 2 "INSERT" "k71" "7" 11);
    LFeed 0 (f1_mk 3 "BEGIN" "k72" "7" 10);
    LAccept 0; LRead; LEmit;
    LFeed 0 (f1_mk 4 "INSERT" "k72" "7" 11); LFeed 0 (f1_mk 5 "INSERT" "k72" "7" 12);
    LFeed 0 (f1_mk 6 "COMMIT" "k72" "7" 100);
    LFeed 0 (f1_mk 7 "BEGIN" "k81" "8" 150); LFeed 0 (f1_mk 8 "INSERT" "k81" "8" 151);
    LFeed 0 (f1_mk 9 "COMMIT" "k81" "8" 200);
    LAccept 1; LAccept 1; LRead; LRead; LEmit;
    LAccept 0; LRead ].
Definition nv_ls : list plabel := nv_pre ++ [LEmit; LTick 100000 [""] []; LRead; LEmit].

(* while nothing is releasable, tracker ticks change nothing but the ghost history *)
Lemma emit_idle cfg n : forall st, p_failed st = false -> fst (emit (p_ledger st)) = None ->
  let st' := fold_left (pstep cfg) (repeat LEmit n) st in
  p_ledger st' = p_ledger st /\ p_acked st' = p_acked st /\ p_accepted st' = p_accepted st /\
  p_queues st' = p_queues st /\ p_written st' = p_written st /\ p_b st' = p_b st /\ p_failed st' = false.
Proof.
  induction n as [|n IH]; intros st Hf He; simpl; [repeat split; auto|].
  assert (E : exists st1, pstep cfg st LEmit = st1 /\ p_ledger st1 = p_ledger st /\ p_acked st1 = p_acked st /\
              p_accepted st1 = p_accepted st /\ p_queues st1 = p_queues st /\ p_written st1 = p_written st /\
              p_b st1 = p_b st /\ p_failed st1 = false).
  { unfold pstep. rewrite Hf. destruct (emit (p_ledger st)) as [[f|] lg] eqn:Ee; [discriminate|].
    eexists. split; [reflexivity|]. simpl. rewrite (emit_none _ _ Ee). repeat split; auto. }
  destruct E as (st1 & -> & E1 & E2 & E3 & E4 & E5 & E6 & E7).
  destruct (IH st1 E7) as (F1 & F2 & F3 & F4 & F5 & F6 & F7); [now rewrite E1|].
  repeat split; congruence.
Qed.

(* C02, the wedge half of F1 at pipeline level: the input is complete (both COMMITs fed), every change
   of the current deliveries is in the sink, every queue, the written channel and the batcher are
   empty — and the ledger keeps an entry for ever: 100 is never acknowledged *)
Theorem f1_wedges_pipeline : forall n,
  let st := prun f1_cfg (f1_done ++ repeat LEmit n) in
  items (p_ledger st) <> [] /\ p_acked st = [200%N] /\
  map r_id (p_accepted st) = [2; 5; 9; 3; 6]%N /\
  queued (p_queues st) = [] /\ p_written st = [] /\ open (p_b st) = [] /\ seenl (p_b st) = [] /\
  dead (p_b st) = false /\ p_failed st = false.
Proof.
  intros n. cbv zeta. rewrite prun_app.
  destruct (emit_idle f1_cfg n (prun f1_cfg f1_done)) as (E1 & E2 & E3 & E4 & E5 & E6 & E7);
    [vm_compute; reflexivity|vm_compute; reflexivity|].
  rewrite E1, E2, E3, E4, E5, E6, E7. vm_compute. repeat split; auto; discriminate.
Qed.
