(* BatchProofs.v — lemmas about model/Batch.v (GenericBatch.Add, KinesisBatch.Add, UpdateTransactions).
   Everything here is for ALL add sequences; no bound on lengths or sizes. *)
From Bifrost.model Require Import Base Batch.

(* ---------- association lists ---------- *)
Section AssocFacts.
  Context {V : Type}.
  Lemma aget_app (k : string) (a b : list (string * V)) :
    aget k (a ++ b) = match aget k a with Some v => Some v | None => aget k b end.
  Proof.
    induction a as [|[k' v'] a IH]; simpl; [reflexivity|].
    destruct (String.eqb k k'); auto.
  Qed.
  Lemma aget_aset (k k' : string) (v : V) (m : list (string * V)) :
    aget k' (aset k v m) = if String.eqb k' k then Some v else aget k' m.
  Proof.
    induction m as [|[k0 v0] m IH]; simpl.
    - destruct (String.eqb k' k); reflexivity.
    - destruct (String.eqb_spec k k0) as [->|Hne]; simpl.
      + destruct (String.eqb k' k0); reflexivity.
      + rewrite IH. destruct (String.eqb_spec k' k0) as [->|Hne'].
        * destruct (String.eqb_spec k0 k) as [->|]; [congruence|reflexivity].
        * reflexivity.
  Qed.
  Lemma aget_adel (k k' : string) (m : list (string * V)) :
    aget k' (adel k m) = if String.eqb k' k then None else aget k' m.
  Proof.
    induction m as [|[k0 v0] m IH]; simpl.
    - destruct (String.eqb k' k); reflexivity.
    - destruct (String.eqb_spec k k0) as [->|Hne]; simpl.
      + rewrite IH. destruct (String.eqb k' k0); reflexivity.
      + rewrite IH. destruct (String.eqb_spec k' k0) as [->|Hne'].
        * destruct (String.eqb_spec k0 k) as [->|]; [congruence|reflexivity].
        * reflexivity.
  Qed.
End AssocFacts.

(* ---------- vocabulary ---------- *)
Definition change (m : msg) : bool := negb (is_marker m).

(* number of messages a transactions map attributes to delivery key k *)
Definition txcount (k : string) (t : txmap) : Z :=
  match aget k t with Some (_, c) => c | None => 0%Z end.

(* the Kinesis partition key of the record made from m *)
Definition pk_of (meth : kinesis_method) (m : msg) : string :=
  match meth with KWalStart => dec (m_wal m) | KBatch => m_pkey m end.

(* the record a batch of kind k makes from m *)
Definition rec_of_kind (k : bkind) (m : msg) : rec :=
  match k with
  | BGeneric _ => mkRec (m_id m) "" (m_jlen m)
  | BKinesis meth => mkRec (m_id m) (pk_of meth m) (m_jlen m)
  end.

Definition ids (b : batch) : list N := map r_id (b_items b).
Definition rsize (r : rec) : N := (r_len r + N.of_nat (String.length (r_pk r)))%N.

Lemma r_id_rec_of_kind k m : r_id (rec_of_kind k m) = m_id m.
Proof. destruct k; reflexivity. Qed.

Inductive sublist {A : Type} : list A -> list A -> Prop :=
| sub_nil : forall l, sublist [] l
| sub_skip : forall a l x, sublist a l -> sublist a (x :: l)
| sub_take : forall a l x, sublist a l -> sublist (x :: a) (x :: l).

Lemma sublist_refl {A} (l : list A) : sublist l l.
Proof. induction l; [apply sub_nil|apply sub_take; auto]. Qed.

Lemma sublist_map_filter {A B} (f : A -> B) (p : A -> bool) (l : list A) :
  sublist (map f (filter p l)) (map f l).
Proof.
  induction l as [|x l IH]; simpl; [constructor|].
  destruct (p x); simpl; [apply sub_take|apply sub_skip]; auto.
Qed.

Lemma sublist_app {A} (a b c d : list A) : sublist a b -> sublist c d -> sublist (a ++ c) (b ++ d).
Proof.
  induction 1; intros Hcd; simpl.
  - induction l; simpl; auto. apply sub_skip; auto.
  - apply sub_skip; auto.
  - apply sub_take; auto.
Qed.

Lemma sublist_trans {A} (a b c : list A) : sublist a b -> sublist b c -> sublist a c.
Proof.
  intros Hab Hbc. revert a Hab. induction Hbc; intros a0 Hab.
  - inversion Hab; subst. apply sub_nil.
  - apply sub_skip; auto.
  - inversion Hab; subst.
    + apply sub_nil.
    + apply sub_skip; auto.
    + apply sub_take; auto.
Qed.

Lemma sublist_in {A} (a b : list A) x : sublist a b -> In x a -> In x b.
Proof. induction 1; simpl; intros; intuition. Qed.

(* ---------- UpdateTransactions ---------- *)
Lemma txcount_update m t k :
  txcount k (update_transactions m t) =
  (txcount k t + (if String.eqb k (m_key m) then 1 else 0))%Z.
Proof.
  unfold txcount, update_transactions.
  destruct (aget (m_key m) t) as [[tx c]|] eqn:Hg.
  - rewrite aget_aset. destruct (String.eqb_spec k (m_key m)) as [->|Hne].
    + rewrite Hg. reflexivity.
    + destruct (aget k t) as [[? ?]|]; lia.
  - rewrite aget_app. destruct (String.eqb_spec k (m_key m)) as [->|Hne].
    + rewrite Hg. simpl. rewrite String.eqb_refl. reflexivity.
    + destruct (aget k t) as [[? ?]|]; [lia|]. simpl.
      destruct (String.eqb_spec k (m_key m)); [congruence|reflexivity].
Qed.

(* ---------- one Add ---------- *)
Ltac add_cases H :=
  unfold add in H;
  repeat match type of H with
  | (if ?c then _ else _) = _ => let E := fresh "E" in destruct c eqn:E
  | (match ?c with _ => _ end) = _ => let E := fresh "E" in destruct c eqn:E
  end; inversion H; subst; clear H.

Lemma add_kind L b m b' r : add L b m = (b', r) -> b_kind b' = b_kind b.
Proof. intros H. add_cases H; simpl; auto. Qed.

Lemma add_pkey L b m b' r : add L b m = (b', r) -> b_pkey b' = b_pkey b.
Proof. intros H. add_cases H; simpl; auto. Qed.

Lemma add_marker L b m : is_marker m = true -> add L b m = (b, AOk).
Proof. intros H. unfold add. now rewrite H. Qed.

(* what each result of Add means for the batch *)
Definition counted (r : add_result) : bool := match r with AOk | ATooBig => true | _ => false end.
Definition is_ok (r : add_result) : bool := match r with AOk => true | _ => false end.

Lemma add_items L b m b' r : add L b m = (b', r) ->
  b_items b' = b_items b ++ (if change m && is_ok r then [rec_of_kind (b_kind b) m] else []).
Proof.
  intros H. unfold change. add_cases H; simpl; rewrite ?app_nil_r; auto.
Qed.

Lemma add_txns L b m b' r : add L b m = (b', r) ->
  b_txns b' = if change m && counted r then update_transactions m (b_txns b) else b_txns b.
Proof. intros H. unfold change. add_cases H; simpl; auto. Qed.

Lemma add_bytes L b m b' r : add L b m = (b', r) ->
  b_bytes b' = (b_bytes b + (if change m && is_ok r then rsize (rec_of_kind (b_kind b) m) else 0))%N.
Proof.
  intros H. unfold change, rsize. add_cases H; simpl; try lia. reflexivity.
Qed.

Lemma add_noop L b m b' r : add L b m = (b', r) ->
  change m && counted r = false -> b' = b.
Proof. intros H. unfold change. add_cases H; simpl; auto; discriminate. Qed.

(* the result of Add on a change, as a function of batch and message *)
Lemma add_result_kinesis L b m meth b' r :
  add L b m = (b', r) -> is_marker m = false -> b_kind b = BKinesis meth ->
  match r with
  | ATooBig => (max_record_bytes L < m_jlen m)%N
  | AFull => (m_jlen m <= max_record_bytes L)%N /\ is_full L b = true
  | ACantFit => (m_jlen m <= max_record_bytes L)%N /\ is_full L b = false /\
                (max_batch_bytes L < rsize (rec_of_kind (b_kind b) m) + b_bytes b)%N
  | AInvalid => (m_jlen m <= max_record_bytes L)%N /\ is_full L b = false /\ pk_of meth m = ""
  | AOk => (m_jlen m <= max_record_bytes L)%N /\ is_full L b = false /\ pk_of meth m <> "" /\
           (rsize (rec_of_kind (b_kind b) m) + b_bytes b <= max_batch_bytes L)%N
  end.
Proof.
  intros H Hm Hk. unfold add in H. rewrite Hm, Hk in H. rewrite Hk. unfold rsize; simpl.
  fold (pk_of meth m) in H.
  destruct (max_record_bytes L <? m_jlen m)%N eqn:E1; [inversion H; subst; now apply N.ltb_lt|].
  apply N.ltb_ge in E1.
  destruct (is_full L b) eqn:E2; [inversion H; subst; auto|].
  destruct (max_batch_bytes L <? m_jlen m + N.of_nat (String.length (pk_of meth m)) + b_bytes b)%N eqn:E3.
  { inversion H; subst. apply N.ltb_lt in E3. auto. }
  apply N.ltb_ge in E3.
  destruct (String.eqb_spec (pk_of meth m) "") as [E4|E4]; inversion H; subst; auto.
Qed.

Lemma add_result_generic L b m mx b' r :
  add L b m = (b', r) -> is_marker m = false -> b_kind b = BGeneric mx ->
  (r = AOk /\ nitems b <> mx) \/ (r = AFull /\ nitems b = mx).
Proof.
  intros H Hm Hk. unfold add in H. rewrite Hm, Hk in H.
  destruct (Z.eqb_spec (nitems b) mx); inversion H; subst; auto.
Qed.

(* ---------- limits (C15) ---------- *)
Definition kinesis_ok (L : klimits) (b : batch) : Prop :=
  (N.of_nat (List.length (b_items b)) <= max_records L)%N /\
  b_bytes b = sum_N (map rsize (b_items b)) /\
  (b_bytes b <= max_batch_bytes L)%N /\
  Forall (fun r => (r_len r <= max_record_bytes L)%N) (b_items b).

Definition batch_ok (L : klimits) (b : batch) : Prop :=
  match b_kind b with
  | BGeneric mx => (nitems b <= mx)%Z
  | BKinesis _ => kinesis_ok L b
  end.

Lemma sum_N_app a b : sum_N (a ++ b) = (sum_N a + sum_N b)%N.
Proof. unfold sum_N. induction a; simpl; lia. Qed.

Lemma new_batch_ok L k pk :
  match k with BGeneric mx => (0 <= mx)%Z | _ => True end -> batch_ok L (new_batch k pk).
Proof.
  unfold batch_ok, kinesis_ok, nitems. destruct k; simpl; intros H; [lia|].
  repeat split; try lia. constructor.
Qed.

Lemma add_ok L b m b' r : add L b m = (b', r) -> batch_ok L b -> batch_ok L b'.
Proof.
  intros H Hb. destruct (is_marker m) eqn:Hm.
  { rewrite add_marker in H by assumption. inversion H; subst; assumption. }
  unfold batch_ok in *. rewrite (add_kind _ _ _ _ _ H).
  pose proof (add_items _ _ _ _ _ H) as Hi. pose proof (add_bytes _ _ _ _ _ H) as Hy.
  unfold change in Hi, Hy. rewrite Hm in Hi, Hy. simpl in Hi, Hy.
  destruct (b_kind b) as [mx|meth] eqn:Hk.
  - destruct (add_result_generic _ _ _ _ _ _ H Hm Hk) as [[-> Hn]|[-> Hn]]; simpl in Hi.
    + unfold nitems in *. rewrite Hi, app_length. simpl. lia.
    + unfold nitems in *. rewrite Hi, app_nil_r. lia.
  - pose proof (add_result_kinesis _ _ _ _ _ _ H Hm Hk) as Hr.
    destruct Hb as (H1 & H2 & H3 & H4). unfold kinesis_ok.
    destruct r; simpl in Hi, Hy; rewrite ?app_nil_r in Hi; rewrite ?N.add_0_r in Hy;
      try (rewrite Hi, Hy; split; [assumption|split; [assumption|split; assumption]]).
    destruct Hr as (Hr1 & Hr2 & Hr3 & Hr4). rewrite Hk in *.
    rewrite Hi, Hy, app_length, map_app, sum_N_app. simpl.
    unfold is_full in Hr2. rewrite Hk in Hr2. unfold nitems in Hr2. apply Z.leb_gt in Hr2.
    simpl in Hr4. split; [lia|]. split; [lia|]. split; [lia|].
    apply Forall_app; split; [assumption|]. constructor; [simpl; assumption|constructor].
Qed.

(* ---------- add sequences ---------- *)
Definition res_of (o : add_result * bool * bool * Z * N) : add_result :=
  let '(r, _, _, _, _) := o in r.

(* (message, result) pairs of a run *)
Definition outcomes (ms : list msg) (obs : list (add_result * bool * bool * Z * N)) : list (msg * add_result) :=
  combine ms (map res_of obs).

Definition accepted_of (oc : list (msg * add_result)) : list msg :=
  map fst (filter (fun p => change (fst p) && is_ok (snd p)) oc).

Definition counted_for (k : string) (oc : list (msg * add_result)) : Z :=
  Z.of_nat (List.length (filter (fun p => change (fst p) && counted (snd p) && String.eqb (m_key (fst p)) k) oc)).

Lemma run_adds_cons L b m r b2 obs :
  run_adds L b (m :: r) = (b2, obs) ->
  exists b1 x obs', add L b m = (b1, x) /\ run_adds L b1 r = (b2, obs') /\
                    obs = (x, is_full L b1, is_empty b1, nitems b1, b_bytes b1) :: obs'.
Proof.
  simpl. destruct (add L b m) as [b1 x]. destruct (run_adds L b1 r) as [b3 xs] eqn:Hr.
  intros H; inversion H; subst. exists b1, x, xs. auto.
Qed.

Lemma run_adds_length L ms : forall b b2 obs, run_adds L b ms = (b2, obs) -> List.length obs = List.length ms.
Proof.
  induction ms as [|m r IH]; intros b b2 obs H.
  - inversion H; reflexivity.
  - destruct (run_adds_cons _ _ _ _ _ _ H) as (b1 & x & obs' & Ha & Hr & ->). simpl. f_equal. eauto.
Qed.

Lemma run_adds_ok L ms : forall b b2 obs, run_adds L b ms = (b2, obs) -> batch_ok L b -> batch_ok L b2.
Proof.
  induction ms as [|m r IH]; intros b b2 obs H Hb.
  - inversion H; subst; assumption.
  - destruct (run_adds_cons _ _ _ _ _ _ H) as (b1 & x & obs' & Ha & Hr & ->).
    eapply IH; eauto. eapply add_ok; eauto.
Qed.

Lemma run_adds_kind L ms : forall b b2 obs, run_adds L b ms = (b2, obs) -> b_kind b2 = b_kind b /\ b_pkey b2 = b_pkey b.
Proof.
  induction ms as [|m r IH]; intros b b2 obs H.
  - inversion H; subst; auto.
  - destruct (run_adds_cons _ _ _ _ _ _ H) as (b1 & x & obs' & Ha & Hr & ->).
    destruct (IH _ _ _ Hr) as [-> ->]. split; [eapply add_kind|eapply add_pkey]; eauto.
Qed.

Lemma run_adds_items L ms : forall b b2 obs, run_adds L b ms = (b2, obs) ->
  b_items b2 = b_items b ++ map (rec_of_kind (b_kind b)) (accepted_of (outcomes ms obs)).
Proof.
  induction ms as [|m r IH]; intros b b2 obs H.
  - inversion H; subst. simpl. now rewrite app_nil_r.
  - destruct (run_adds_cons _ _ _ _ _ _ H) as (b1 & x & obs' & Ha & Hr & ->).
    rewrite (IH _ _ _ Hr), (add_items _ _ _ _ _ Ha), (add_kind _ _ _ _ _ Ha).
    unfold outcomes, accepted_of. simpl.
    destruct (change m && is_ok x); simpl; now rewrite <- app_assoc.
Qed.

Lemma run_adds_txns L ms k : forall b b2 obs, run_adds L b ms = (b2, obs) ->
  txcount k (b_txns b2) = (txcount k (b_txns b) + counted_for k (outcomes ms obs))%Z.
Proof.
  induction ms as [|m r IH]; intros b b2 obs H.
  - inversion H; subst. unfold counted_for. simpl. lia.
  - destruct (run_adds_cons _ _ _ _ _ _ H) as (b1 & x & obs' & Ha & Hr & ->).
    rewrite (IH _ _ _ Hr), (add_txns _ _ _ _ _ Ha).
    unfold counted_for, outcomes. simpl.
    destruct (change m && counted x); simpl.
    + rewrite txcount_update. rewrite String.eqb_sym.
      destruct (String.eqb (m_key m) k); simpl; lia.
    + lia.
Qed.

Lemma accepted_sublist ms obs : sublist (map m_id (accepted_of (outcomes ms obs))) (map m_id ms).
Proof.
  unfold accepted_of, outcomes. generalize (map res_of obs) as rs.
  induction ms as [|m r IH]; intros rs; simpl; [constructor|].
  destruct rs as [|x rs]; simpl; [apply sub_nil|].
  destruct (change m && is_ok x); simpl; [apply sub_take|apply sub_skip]; auto.
Qed.

Lemma accepted_in ms obs m : In m (accepted_of (outcomes ms obs)) -> In m ms /\ change m = true.
Proof.
  unfold accepted_of, outcomes. intros H. apply in_map_iff in H. destruct H as ([m' x] & <- & H).
  apply filter_In in H. destruct H as [H1 H2]. simpl in *. apply in_combine_l in H1.
  apply andb_prop in H2. tauto.
Qed.

(* ================= the batch-level theorems ================= *)

(* C15, Kinesis, for arbitrary limits L *)
Lemma kinesis_limits_gen L meth pk ms b obs :
  run_adds L (new_batch (BKinesis meth) pk) ms = (b, obs) ->
  (N.of_nat (List.length (b_items b)) <= max_records L)%N /\
  sum_N (map rsize (b_items b)) = b_bytes b /\
  (sum_N (map rsize (b_items b)) <= max_batch_bytes L)%N /\
  Forall (fun r => (r_len r <= max_record_bytes L)%N) (b_items b).
Proof.
  intros H. pose proof (run_adds_ok _ _ _ _ _ H (new_batch_ok L (BKinesis meth) pk I)) as Hok.
  unfold batch_ok in Hok. destruct (run_adds_kind _ _ _ _ _ H) as [Hk _]. rewrite Hk in Hok.
  destruct Hok as (H1 & H2 & H3 & H4). rewrite <- H2. auto.
Qed.

Lemma generic_limit L mx pk ms b obs :
  (0 <= mx)%Z -> run_adds L (new_batch (BGeneric mx) pk) ms = (b, obs) -> (nitems b <= mx)%Z.
Proof.
  intros Hmx H. pose proof (run_adds_ok _ _ _ _ _ H (new_batch_ok L (BGeneric mx) pk Hmx)) as Hok.
  unfold batch_ok in Hok. destruct (run_adds_kind _ _ _ _ _ H) as [Hk _]. now rewrite Hk in Hok.
Qed.

(* C04_batch_counts / C15_drop_counted *)
Lemma batch_counts L k pk ms b obs :
  run_adds L (new_batch k pk) ms = (b, obs) ->
  (forall key, txcount key (b_txns b) = counted_for key (outcomes ms obs)) /\
  b_items b = map (rec_of_kind k) (accepted_of (outcomes ms obs)) /\
  sublist (ids b) (map m_id ms).
Proof.
  intros H. split; [|split].
  - intros key. rewrite (run_adds_txns _ _ key _ _ _ H). reflexivity.
  - rewrite (run_adds_items _ _ _ _ _ H). reflexivity.
  - unfold ids. rewrite (run_adds_items _ _ _ _ _ H). simpl. rewrite map_map.
    erewrite map_ext; [apply accepted_sublist|]. intros m. apply r_id_rec_of_kind.
Qed.

(* a too-big record is dropped by the batch but still counted for its delivery *)
Lemma drop_counted L b m meth :
  b_kind b = BKinesis meth -> is_marker m = false -> (max_record_bytes L < m_jlen m)%N ->
  exists b', add L b m = (b', ATooBig) /\ b_items b' = b_items b /\ b_bytes b' = b_bytes b /\
             forall k, txcount k (b_txns b') = (txcount k (b_txns b) + (if String.eqb k (m_key m) then 1 else 0))%Z.
Proof.
  intros Hk Hm Hl. unfold add. rewrite Hm, Hk. apply N.ltb_lt in Hl. rewrite Hl.
  eexists; split; [reflexivity|]. simpl. repeat split. intros k. apply txcount_update.
Qed.

(* C06_kinesis_key *)
Lemma accepted_key_nonempty L meth m : forall ms b0 b obs,
  b_kind b0 = BKinesis meth -> run_adds L b0 ms = (b, obs) ->
  In m (accepted_of (outcomes ms obs)) -> pk_of meth m <> "".
Proof.
  induction ms as [|m0 r IH]; intros b0 b obs Hk H Hm.
  - inversion H; subst. destruct Hm.
  - destruct (run_adds_cons _ _ _ _ _ _ H) as (b1 & x & obs' & Ha & Hr & ->).
    unfold accepted_of, outcomes in Hm. simpl in Hm.
    destruct (change m0 && is_ok x) eqn:E; simpl in Hm.
    + destruct Hm as [->|Hm].
      * apply andb_prop in E. destruct E as [E1 E2]. destruct x; try discriminate.
        unfold change in E1. apply negb_true_iff in E1.
        pose proof (add_result_kinesis _ _ _ _ _ _ Ha E1 Hk) as Hr'. simpl in Hr'. tauto.
      * eapply (IH b1); eauto. rewrite (add_kind _ _ _ _ _ Ha); auto.
    + eapply (IH b1); eauto. rewrite (add_kind _ _ _ _ _ Ha); auto.
Qed.

Lemma kinesis_key L meth pk ms b obs r :
  run_adds L (new_batch (BKinesis meth) pk) ms = (b, obs) -> In r (b_items b) ->
  exists m, In m ms /\ change m = true /\ r_id r = m_id m /\ r_len r = m_jlen m /\
            r_pk r = match meth with KWalStart => dec (m_wal m) | KBatch => m_pkey m end /\
            r_pk r <> "".
Proof.
  intros H Hin. pose proof (run_adds_items _ _ _ _ _ H) as Hi. simpl in Hi. rewrite Hi in Hin.
  apply in_map_iff in Hin. destruct Hin as (m & <- & Hm).
  exists m. destruct (accepted_in _ _ _ Hm) as [H1 H2]. simpl. repeat split; auto.
  eapply accepted_key_nonempty; eauto. reflexivity.
Qed.

(* the limits documented by AWS for PutRecords, as numbers *)
Definition within_aws (L : klimits) : Prop :=
  (max_records L <= 500)%N /\ (max_batch_bytes L <= 5 * 2^20)%N /\ (max_record_bytes L <= 2^20)%N.

Lemma kinesis_ok_aws L b : within_aws L -> kinesis_ok L b ->
  (N.of_nat (List.length (b_items b)) <= 500)%N /\
  sum_N (map rsize (b_items b)) = b_bytes b /\
  (sum_N (map rsize (b_items b)) <= 5 * 2^20)%N /\
  Forall (fun r => (r_len r <= 2^20)%N) (b_items b).
Proof.
  intros (L1 & L2 & L3) (H1 & H2 & H3 & H4). rewrite <- H2.
  split; [exact (N.le_trans _ _ _ H1 L1)|]. split; [reflexivity|]. split; [exact (N.le_trans _ _ _ H3 L2)|].
  eapply Forall_impl; [|exact H4]. intros r Hr. exact (N.le_trans _ _ _ Hr L3).
Qed.

Lemma kinesis_limits_aws L : within_aws L -> forall meth pk ms b obs,
  run_adds L (new_batch (BKinesis meth) pk) ms = (b, obs) ->
  (N.of_nat (List.length (b_items b)) <= 500)%N /\
  sum_N (map rsize (b_items b)) = b_bytes b /\
  (sum_N (map rsize (b_items b)) <= 5 * 2^20)%N /\
  Forall (fun r => (r_len r <= 2^20)%N) (b_items b).
Proof.
  intros HL meth pk ms b obs H. apply (kinesis_ok_aws L b HL).
  destruct (kinesis_limits_gen L meth pk ms b obs H) as (H1 & H2 & H3 & H4).
  unfold kinesis_ok. rewrite <- H2. auto.
Qed.
