(* PartitionProofs.v — the partition key function (C06, key part) and injectivity of Base.dec. *)
From Bifrost.model Require Import Base Crc32 Partition.
From Coq Require Import ZifyN ZifyNat ZifyBool.

(* ---------- dec is injective: reading the digits back returns the number ---------- *)
Fixpoint vfold (v : N) (s : string) : N :=
  match s with
  | EmptyString => v
  | String c r => vfold (10 * v + (N_of_ascii c - 48)) r
  end.

Lemma vfold_shift : forall s v, vfold v s = (v * 10 ^ N.of_nat (String.length s) + vfold 0 s)%N.
Proof.
  induction s as [|c r IH]; intros v.
  - simpl. lia.
  - cbn [vfold String.length]. rewrite (IH (10 * v + _)%N), (IH (10 * 0 + _)%N).
    rewrite Nat2N.inj_succ, N.pow_succ_r'. lia.
Qed.

Lemma digit_val d : (d < 10)%N -> (N_of_ascii (digit d) - 48 = d)%N.
Proof.
  intros H. unfold digit. rewrite N_ascii_embedding by lia. lia.
Qed.

Lemma dec_fuel_val : forall f n acc, (n < 2 ^ N.of_nat f)%N ->
  vfold 0 (dec_fuel f n acc) = (n * 10 ^ N.of_nat (String.length acc) + vfold 0 acc)%N.
Proof.
  induction f as [|f IH]; intros n acc Hn.
  - simpl in *. assert (n = 0%N) by lia. subst. lia.
  - cbn [dec_fuel]. rewrite Nat2N.inj_succ, N.pow_succ_r' in Hn.
    assert (Hd : (n mod 10 < 10)%N) by (apply N.mod_lt; lia).
    destruct (n <? 10)%N eqn:E.
    + apply N.ltb_lt in E. rewrite N.mod_small by assumption.
      cbn [vfold]. rewrite digit_val by assumption. rewrite vfold_shift. lia.
    + apply N.ltb_ge in E.
      assert (Hq : (n / 10 < 2 ^ N.of_nat f)%N).
      { apply N.div_lt_upper_bound; lia. }
      rewrite (IH _ _ Hq). cbn [String.length vfold]. rewrite digit_val by assumption.
      rewrite Nat2N.inj_succ, N.pow_succ_r'.
      rewrite (vfold_shift acc (10 * 0 + n mod 10)%N).
      pose proof (N.div_mod n 10 ltac:(lia)) as Hdm.
      remember (n / 10)%N as q. remember (n mod 10)%N as r.
      remember (10 ^ N.of_nat (String.length acc))%N as p.
      rewrite Hdm. ring.
Qed.

Lemma dec_val n : vfold 0 (dec n) = n.
Proof.
  unfold dec. rewrite dec_fuel_val.
  - simpl. lia.
  - rewrite Nat2N.inj_succ, N2Nat.id.
    destruct (N.eq_dec n 0) as [->|Hn]; [reflexivity|].
    apply N.log2_spec. lia.
Qed.

Lemma dec_injective : forall a b : N, dec a = dec b -> a = b.
Proof. intros a b H. rewrite <- (dec_val a), <- (dec_val b), H. reflexivity. Qed.

(* ---------- the key function ---------- *)
Lemma pkey_function : forall m buckets rel txn, buckets <> 0%N ->
  pkey m buckets rel txn =
  PKey (match m with
        | PNone => "" | PTable => rel | PTxn => txn
        | PBucket => dec (crc32 txn mod buckets)
        end).
Proof.
  intros m buckets rel txn Hb. destruct m; try reflexivity.
  unfold pkey, quick_hash. apply N.eqb_neq in Hb. now rewrite Hb.
Qed.

(* methods other than transaction-bucket never panic, whatever the bucket count *)
Lemma pkey_function_nobucket : forall m buckets rel txn, m <> PBucket ->
  pkey m buckets rel txn = PKey (match m with PTable => rel | PTxn => txn | _ => "" end).
Proof. intros m buckets rel txn H. destruct m; try reflexivity. congruence. Qed.

(* 'transaction' and 'transaction-bucket': every record of a transaction gets the same key *)
Lemma pkey_txn_only : forall m buckets rel1 rel2 txn, m = PTxn \/ m = PBucket ->
  pkey m buckets rel1 txn = pkey m buckets rel2 txn.
Proof. intros m buckets rel1 rel2 txn [-> | ->]; reflexivity. Qed.

Lemma pkey_bucket_range : forall buckets rel txn, (1 <= buckets)%N ->
  exists i, (i < buckets)%N /\ pkey PBucket buckets rel txn = PKey (dec i).
Proof.
  intros buckets rel txn Hb. exists (crc32 txn mod buckets)%N. split.
  - apply N.mod_lt. lia.
  - rewrite pkey_function by lia. reflexivity.
Qed.

(* distinct buckets have distinct keys, so "same key" means "same bucket" *)
Lemma pkey_bucket_key_inj : forall buckets rel1 rel2 t1 t2, (1 <= buckets)%N ->
  pkey PBucket buckets rel1 t1 = pkey PBucket buckets rel2 t2 ->
  (crc32 t1 mod buckets = crc32 t2 mod buckets)%N.
Proof.
  intros buckets rel1 rel2 t1 t2 Hb H. rewrite !pkey_function in H by lia.
  inversion H. now apply dec_injective.
Qed.

Lemma pkey_zero_buckets_panics rel txn : pkey PBucket 0 rel txn = PPanic.
Proof. reflexivity. Qed.

Lemma pmethod_names :
  pmethod_of_name "none" = PNone /\ pmethod_of_name "tablename" = PTable /\
  pmethod_of_name "transaction" = PTxn /\ pmethod_of_name "transaction-bucket" = PBucket.
Proof. repeat split. Qed.

(* the stage stamps exactly pkey on every message, in order, when it cannot panic *)
Lemma pstage_keys : forall m buckets ms, (m = PBucket -> buckets <> 0%N) ->
  pstage m buckets ms =
  (map (fun p => match pkey m buckets (fst p) (snd p) with PKey k => k | PPanic => "" end) ms, false).
Proof.
  intros m buckets ms Hb. induction ms as [|[rel txn] r IH]; simpl; [reflexivity|].
  destruct (pkey m buckets rel txn) eqn:E.
  - rewrite IH. reflexivity.
  - exfalso. destruct m; try discriminate. unfold pkey, quick_hash in E.
    specialize (Hb eq_refl). apply N.eqb_neq in Hb. rewrite Hb in E. discriminate.
Qed.
