(* WorkerFailStop.v — C17 at the level of one transport worker, for each of the four flavours.

   One shape, four models.  Every worker model produces, for a sequence of offered batches, ONE
   ENTRY PER BATCH THE WORKER TOOK (Kinesis: [breport], S3: [bres], Kafka: [tobs]; RabbitMQ: the
   events of the trace, each tagged with the batch the worker was busy with) and an END OUTCOME.
   The statement proved for each flavour:

     if the entry of batch i does not say "reported written", then
       (last)   it is the last entry: no later batch is taken, hence none is attempted, sent to the
                sink or reported written (sink calls and reports only exist inside entries);
       (prefix) every earlier entry says "reported written";
       (stop)   the run ends in the model's "returned / panicked" outcome, i.e. the outcome in which
                the real worker has run its deferred shutdown(), which calls CancelFunc() on the
                shared context — or in the model's explicit "blocked for ever" outcome, which is
                then named in the statement (Kinesis: RPending/TRunning, RabbitMQ: FBlocked).

   The four model files and their proof files reuse names ([run], [outcome], [attempt], [msg],
   [bres], [b_script], [CNone], [SOk], [obs_of], [run_nth] ...).  All of them are imported here;
   statements use qualified names wherever a name exists twice, and each part re-imports its own
   model so that the proof scripts read as in the per-flavour proof files. *)
From Bifrost.model Require Import Base KinesisRetry S3 Rabbit Kafka.
From Bifrost.proofs Require Import KinesisRetryProofs S3Proofs RabbitProofs KafkaProofs.

(* ====================================================================================== *)
(* 0. Lists                                                                                 *)
(* ====================================================================================== *)

Lemma forallb_firstn_le {A} (f : A -> bool) : forall l i j,
  j <= i -> forallb f (firstn i l) = true -> forallb f (firstn j l) = true.
Proof.
  induction l as [|x l IH]; intros i j Hle H.
  - rewrite firstn_nil. reflexivity.
  - destruct j as [|j]; [reflexivity|].
    destruct i as [|i]; [lia|].
    cbn [firstn forallb] in H |- *. apply andb_true_iff in H. destruct H as [Hx H].
    rewrite Hx. cbn [andb]. apply (IH i j); [lia|exact H].
Qed.

Lemma forallb_firstn_nth {A} (f : A -> bool) : forall l i j x,
  j < i -> nth_error l j = Some x -> forallb f (firstn i l) = true -> f x = true.
Proof.
  induction l as [|y l IH]; intros i j x Hlt Hn H.
  - destruct j; discriminate Hn.
  - destruct i as [|i]; [lia|].
    cbn [firstn forallb] in H. apply andb_true_iff in H. destruct H as [Hy H].
    destruct j as [|j].
    + cbn [nth_error] in Hn. inversion Hn; subst y. exact Hy.
    + cbn [nth_error] in Hn. apply (IH i j x); [lia|exact Hn|exact H].
Qed.

(* ====================================================================================== *)
(* 1. Kinesis                                                                               *)
(* ====================================================================================== *)
Import KinesisRetry KinesisRetryProofs.

(* [reps] has one report per batch that was taken from inputChan and passed both selects;
   TStopped / TPanicked = StartTransporting returned / recovered a panic: deferred shutdown()
   has cancelled TerminateCtx.  The only other end, TRunning, is possible after an unwritten
   batch only as "blocked inside PutRecords" (the sink oracle has no further answer: RPending). *)
Lemma kinesis_worker_fail_stop : forall n ctx bs reps e i rep,
  KinesisRetry.transporter n ctx bs = (reps, e) ->
  nth_error reps i = Some rep -> KinesisRetry.r_written rep = false ->
  List.length reps = S i /\
  (forall j rj, j < i -> nth_error reps j = Some rj -> KinesisRetry.r_written rj = true) /\
  exists b res cx, nth_error bs i = Some b /\
    KinesisRetry.transport_with_retry n (KinesisRetry.b_pre b) (KinesisRetry.b_recs b) (KinesisRetry.b_script b)
      = (KinesisRetry.r_calls rep, res, cx) /\
    res <> KinesisRetry.RWritten /\
    (e = KinesisRetry.TStopped \/ e = KinesisRetry.TPanicked \/
     (e = KinesisRetry.TRunning /\ res = KinesisRetry.RPending)).
Proof.
  intros n ctx bs reps e i rep Hrun Hrep Hnw.
  destruct (kinesis_transporter_reports n ctx bs reps e i rep Hrun Hrep)
    as (b & res & cx & Hb & Htr & Hiff & Hu & Hprev).
  destruct (Hu Hnw) as [Hlen He].
  split; [exact Hlen|]. split; [exact Hprev|].
  exists b, res, cx. split; [exact Hb|]. split; [exact Htr|]. split.
  - intros Hres. apply Hiff in Hres. congruence.
  - destruct e eqn:Ee.
    + right. right. split; [reflexivity|].
      destruct res eqn:Er; try reflexivity; exfalso; apply He; try discriminate; reflexivity.
    + left. reflexivity.
    + right. left. reflexivity.
Qed.

(* ====================================================================================== *)
(* 2. S3                                                                                    *)
(* ====================================================================================== *)
Import S3 S3Proofs.

(* [run] returns one result per batch that entered transportWithRetry.  The list is cut after the
   first batch that is not an uncancelled Written: the model has no separate end outcome, the end
   of the list IS "StartTransporting returned / panicked / sees terminateCtx at the next select". *)
Lemma s3_run_last gzip ks max_reuse retries : forall bs w i res,
  nth_error (S3.run gzip ks max_reuse retries w bs) i = Some res ->
  exists b, nth_error bs i = Some b /\
    (S3.r_outcome res <> S3.Written \/ S3.b_cancel b <> S3.CNone ->
       List.length (S3.run gzip ks max_reuse retries w bs) = S i) /\
    (forall j rj, j < i -> nth_error (S3.run gzip ks max_reuse retries w bs) j = Some rj ->
       S3.r_outcome rj = S3.Written).
Proof.
  induction bs as [|b0 bs IH]; intros w i res Hr; [destruct i; discriminate Hr|].
  cbn [S3.run] in Hr |- *.
  destruct (S3.step gzip ks max_reuse retries w b0) as [w' res0] eqn:S0.
  (* the run stops with [res0] *)
  assert (HEAD : nth_error [res0] i = Some res ->
            (S3.r_outcome res0 <> S3.Written \/ S3.b_cancel b0 <> S3.CNone) ->
            exists b, nth_error (b0 :: bs) i = Some b /\
              (S3.r_outcome res <> S3.Written \/ S3.b_cancel b <> S3.CNone -> List.length [res0] = S i) /\
              (forall j rj, j < i -> nth_error [res0] j = Some rj -> S3.r_outcome rj = S3.Written)).
  { intros H1 _. destruct i as [|i]; [|destruct i; discriminate H1].
    exists b0. split; [reflexivity|]. split; [reflexivity|]. intros j rj Hj. lia. }
  destruct (S3.b_cancel b0) eqn:Cb.
  - (* CNone *)
    destruct (S3.r_outcome res0) eqn:Ho;
      try (apply HEAD; [exact Hr|left; discriminate]).
    destruct i as [|i].
    + cbn [nth_error] in Hr. inversion Hr; subst res0.
      exists b0. split; [reflexivity|]. split.
      * intros [Hc|Hc]; [congruence|congruence].
      * intros j rj Hj. lia.
    + cbn [nth_error] in Hr.
      destruct (IH w' i res Hr) as (b & Hb & Hlast & Hprev).
      exists b. split; [exact Hb|]. split.
      * intros Hc. cbn [List.length]. rewrite (Hlast Hc). reflexivity.
      * intros j rj Hj Hrj. destruct j as [|j].
        -- cbn [nth_error] in Hrj. inversion Hrj; subst rj. exact Ho.
        -- cbn [nth_error] in Hrj. apply (Hprev j rj); [lia|exact Hrj].
  - (* CBeforeRecv: not taken *)
    destruct i; discriminate Hr.
  - (* CBeforeCheck *)
    destruct (S3.r_outcome res0) eqn:Ho; apply HEAD; try exact Hr; right; discriminate.
  - (* CDuringUpload *)
    destruct (S3.r_outcome res0) eqn:Ho; apply HEAD; try exact Hr; right; discriminate.
Qed.

(* the three unwritten outcomes, by their cause *)
Lemma s3_unwritten_cause gzip ks max_reuse retries b res :
  S3Proofs.result_of gzip ks max_reuse retries b res ->
  (S3.r_outcome res = S3.UploadedNotReported -> S3.b_cancel b = S3.CBeforeCheck) /\
  (S3.r_outcome res = S3.PanicEmptyBatch -> S3.b_msgs b = [] /\ S3.r_atts res = []) /\
  (S3.r_outcome res = S3.RetriesExhausted ->
     List.length (S3.r_atts res) = S (N.to_nat retries) /\
     forall a, In a (S3.r_atts res) -> S3.a_ok a = false).
Proof.
  intros R.
  destruct (S3Proofs.step_attempts gzip ks max_reuse retries b res R) as (_ & _ & HX & HP & _).
  split; [|split].
  - destruct R as [w <-]. unfold S3.step.
    destruct (S3.b_msgs b) as [|m0 ms] eqn:Hm; [cbn [snd S3.r_outcome]; discriminate|].
    destruct (S3.upload _ _ _ _ _) as [atts ok] eqn:U. cbn [snd S3.r_outcome].
    destruct ok; [|discriminate].
    destruct (S3.b_cancel b) eqn:Cb; try discriminate. reflexivity.
  - intros Hp. pose proof (proj1 HP Hp) as Hm. split; [exact Hm|].
    destruct R as [w <-]. unfold S3.step. rewrite Hm. reflexivity.
  - intros Hx. destruct (HX Hx) as [Hall Hlen]. split; [exact Hlen|exact Hall].
Qed.

Lemma s3_worker_fail_stop : forall (gzip : string -> string) ks max_reuse retries w bs i res,
  nth_error (S3.run gzip ks max_reuse retries w bs) i = Some res ->
  exists b, nth_error bs i = Some b /\
    (S3.r_outcome res <> S3.Written \/ S3.b_cancel b <> S3.CNone ->
       List.length (S3.run gzip ks max_reuse retries w bs) = S i) /\
    (forall j rj, j < i -> nth_error (S3.run gzip ks max_reuse retries w bs) j = Some rj ->
       S3.r_outcome rj = S3.Written) /\
    (S3.r_outcome res = S3.UploadedNotReported -> S3.b_cancel b = S3.CBeforeCheck) /\
    (S3.r_outcome res = S3.PanicEmptyBatch -> S3.b_msgs b = [] /\ S3.r_atts res = []) /\
    (S3.r_outcome res = S3.RetriesExhausted ->
       List.length (S3.r_atts res) = S (N.to_nat retries) /\
       forall a, In a (S3.r_atts res) -> S3.a_ok a = false).
Proof.
  intros gzip ks max_reuse retries w bs i res Hr.
  destruct (s3_run_last gzip ks max_reuse retries bs w i res Hr) as (b & Hb & Hlast & Hprev).
  pose proof (S3Proofs.run_nth gzip ks max_reuse retries bs w i b res Hb Hr) as R.
  destruct (s3_unwritten_cause gzip ks max_reuse retries b res R) as (HU & HP & HX).
  exists b. split; [exact Hb|]. split; [exact Hlast|]. split; [exact Hprev|].
  split; [exact HU|]. split; [exact HP|exact HX].
Qed.

(* ====================================================================================== *)
(* 3. RabbitMQ                                                                              *)
(* ====================================================================================== *)
Import Rabbit RabbitProofs.

(* the batch the worker is busy with when the event is emitted (a setupChannel carries none) *)
Definition rabbit_ev_batch (e : Rabbit.event) : option nat :=
  match e with
  | Rabbit.ESetup _ _ => None
  | Rabbit.EPub _ _ b _ _ _ => Some b
  | Rabbit.EPubErr _ b _ _ => Some b
  | Rabbit.ECons _ cur => Some cur
  | Rabbit.EAttemptFail b _ _ _ => Some b
  | Rabbit.EWritten b _ _ => Some b
  | Rabbit.EGiveUp b => Some b
  end.

(* what backoff.Retry(operation) may emit while it works on batch b: anything of batch b, a
   setup, but never a written report *)
Definition ev_at (b : nat) (e : Rabbit.event) : Prop :=
  match e with
  | Rabbit.ESetup _ _ => True
  | Rabbit.EPub _ _ b' _ _ _ => b' = b
  | Rabbit.EPubErr _ b' _ _ => b' = b
  | Rabbit.ECons _ cur => cur = b
  | Rabbit.EAttemptFail b' _ _ _ => b' = b
  | Rabbit.EWritten _ _ _ => False
  | Rabbit.EGiveUp b' => b' = b
  end.

Lemma ev_at_batch b e j : ev_at b e -> rabbit_ev_batch e = Some j -> j = b.
Proof. destruct e; cbn [ev_at rabbit_ev_batch]; intros H E; inversion E; subst; try reflexivity; contradiction. Qed.

Lemma ev_at_not_written b e j cf q : ev_at b e -> e <> Rabbit.EWritten j cf q.
Proof. intros H E. subst e. exact H. Qed.

Lemma extP_cons (P : Rabbit.event -> Prop) x s s' : tr s' = x :: tr s -> P x -> extP P s s'.
Proof. intros Ht Hx. exists [x]. split; [exact Ht|]. constructor; [exact Hx|constructor]. Qed.

Lemma setup_ext b s s' ok : Rabbit.setup s = (s', ok) -> extP (ev_at b) s s'.
Proof.
  unfold Rabbit.setup. intros H. destruct (has_chan s); [inversion H; subst; apply extP_refl|].
  destruct (pop_s s) as [a s1] eqn:Hp. destruct (pop_s_spec _ _ _ Hp) as (Ht & _).
  destruct a; inversion H; subst;
    (eapply extP_cons; [cbn [tr emit fresh_chan]; rewrite Ht; reflexivity|exact I]).
Qed.

Lemma send_ext b att : forall ms s s' ok, Rabbit.send b att ms s = (s', ok) -> extP (ev_at b) s s'.
Proof.
  induction ms as [|m r IH]; intros s s' ok H; cbn [Rabbit.send] in H.
  - inversion H; subst. apply extP_refl.
  - destruct (closed s); [inversion H; subst; apply extP_refl|].
    destruct (pop_p s) as [a s1] eqn:Hp. destruct (pop_p_spec _ _ _ Hp) as (Ht & _).
    destruct a as [ack cl|cl|].
    + eapply extP_trans; [|eapply IH; exact H].
      eapply extP_cons; [cbn [tr emit bump_tag set_queue]; rewrite Ht; reflexivity|reflexivity].
    + inversion H; subst.
      eapply extP_cons; [destruct cl; cbn [tr emit close_chan]; rewrite Ht; reflexivity|reflexivity].
    + eapply extP_trans; [|eapply IH; exact H].
      eapply extP_cons; [cbn [tr emit bump_tag close_chan]; rewrite Ht; reflexivity|reflexivity].
Qed.

Lemma wait_ext cur desired : forall q s s' w,
  Rabbit.wait_loop cur desired q s = (s', w) -> extP (ev_at cur) s s'.
Proof.
  induction q as [|c q IH]; intros s s' w H; cbn [Rabbit.wait_loop] in H.
  - destruct (desired <=? confirms s)%N; [inversion H; subst; apply extP_same; reflexivity|].
    destruct (closed s); inversion H; subst; apply extP_same; reflexivity.
  - destruct (desired <=? confirms s)%N; [inversion H; subst; apply extP_same; reflexivity|].
    destruct (closed s); [inversion H; subst; apply extP_same; reflexivity|].
    destruct (c_ack c).
    + destruct (c_close c).
      * destruct (desired <=? c_tag c)%N; inversion H; subst;
          (eapply extP_cons; [reflexivity|reflexivity]).
      * eapply extP_trans; [|eapply IH; exact H].
        eapply extP_cons; [reflexivity|reflexivity].
    + inversion H; subst.
      destruct (c_close c); (eapply extP_cons; [reflexivity|reflexivity]).
Qed.

Lemma attempt_ext b att ms s s' r : Rabbit.attempt b att ms s = (s', r) -> extP (ev_at b) s s'.
Proof.
  unfold Rabbit.attempt. intros H. destruct (Rabbit.setup s) as [s1 ok] eqn:Hs.
  pose proof (setup_ext b _ _ _ Hs) as E1.
  destruct ok; cbn [negb] in H; [|inversion H; subst; exact E1].
  destruct (Rabbit.send b att ms s1) as [s2 ok2] eqn:Hd.
  pose proof (send_ext _ _ _ _ _ _ Hd) as E2.
  destruct ok2; cbn [negb] in H; [|inversion H; subst; eapply extP_trans; [exact E1|exact E2]].
  destruct (Rabbit.wait_loop b _ (queue s2) s2) as [s3 w] eqn:Hw.
  pose proof (wait_ext _ _ _ _ _ _ Hw) as E3.
  assert (E : extP (ev_at b) s s3).
  { eapply extP_trans; [exact E1|]. eapply extP_trans; [exact E2|exact E3]. }
  destruct w; inversion H; subst; exact E.
Qed.

(* backoff.Retry on batch b: only events of b, no written report; when it gives up, the newest
   event is the EGiveUp of b *)
Lemma attempts_ext b : forall retries att ms s s' r,
  Rabbit.attempts retries b att ms s = (s', r) ->
  exists e, tr s' = e ++ tr s /\ Forall (ev_at b) e /\
            (r = Rabbit.BGiveUp -> exists e0, e = Rabbit.EGiveUp b :: e0).
Proof.
  induction retries as [|k IH]; intros att ms s s' r H; cbn [Rabbit.attempts] in H;
    destruct (Rabbit.attempt b att ms s) as [s1 a] eqn:Ha;
    destruct (attempt_ext _ _ _ _ _ _ Ha) as (e1 & He1 & F1);
    destruct a as [|rem|].
  - inversion H; subst. exists e1. rewrite handler_tr. split; [exact He1|]. split; [exact F1|discriminate].
  - destruct (N.of_nat (List.length ms) <? rem)%N eqn:Hp.
    + inversion H; subst. exists e1. split; [exact He1|]. split; [exact F1|discriminate].
    + inversion H; subst.
      exists (Rabbit.EGiveUp b ::
              Rabbit.EAttemptFail b att (confirms (handler_step s1)) (List.length (queue (handler_step s1))) :: e1).
      split; [cbn [tr emit]; rewrite handler_tr, He1; reflexivity|].
      split; [constructor; [reflexivity|constructor; [reflexivity|exact F1]]|].
      intros _. eexists. reflexivity.
  - inversion H; subst. exists e1. split; [exact He1|]. split; [exact F1|discriminate].
  - inversion H; subst. exists e1. rewrite handler_tr. split; [exact He1|]. split; [exact F1|discriminate].
  - destruct (N.of_nat (List.length ms) <? rem)%N eqn:Hp.
    + inversion H; subst. exists e1. split; [exact He1|]. split; [exact F1|discriminate].
    + destruct (IH _ _ _ _ _ H) as (e2 & He2 & F2 & G2).
      exists (e2 ++ Rabbit.EAttemptFail b att (confirms (handler_step s1)) (List.length (queue (handler_step s1))) :: e1).
      split; [|split].
      * rewrite He2. cbn [tr emit]. rewrite handler_tr, He1, <- app_assoc. reflexivity.
      * apply Forall_app. split; [exact F2|]. constructor; [reflexivity|exact F1].
      * intros Hr. destruct (G2 Hr) as (e0 & ->). eexists. reflexivity.
  - inversion H; subst. exists e1. split; [exact He1|]. split; [exact F1|discriminate].
Qed.

Definition rabbit_written_in (l : list Rabbit.event) (b : nat) : Prop :=
  exists cf q, In (Rabbit.EWritten b cf q) l.

Lemma written_in_app l1 l2 b :
  rabbit_written_in (l1 ++ l2) b <-> rabbit_written_in l1 b \/ rabbit_written_in l2 b.
Proof.
  unfold rabbit_written_in. split.
  - intros (cf & q & H). apply in_app_or in H. destruct H as [H|H]; [left|right]; eauto.
  - intros [(cf & q & H)|(cf & q & H)]; exists cf, q; apply in_or_app; [left|right]; exact H.
Qed.

Lemma no_written_in_attempts b e j : Forall (ev_at b) e -> ~ rabbit_written_in e j.
Proof.
  intros F (cf & q & H). rewrite Forall_forall in F. exact (F _ H).
Qed.

(* the loop over the batches b, b+1, ...: [new] is what the loop adds to the trace (newest first) *)
Lemma run_batches_fail_stop retries : forall sizes b s s' f,
  Rabbit.run_batches retries b sizes s = (s', f) ->
  exists new, tr s' = new ++ tr s /\
    (f = Rabbit.FDone ->
       (forall j, rabbit_written_in new j <-> b <= j < b + List.length sizes) /\
       (forall e j, In e new -> rabbit_ev_batch e = Some j -> b <= j < b + List.length sizes)) /\
    (f <> Rabbit.FDone -> exists k, b <= k < b + List.length sizes /\
       (forall j, rabbit_written_in new j <-> b <= j < k) /\
       (forall e j, In e new -> rabbit_ev_batch e = Some j -> b <= j <= k) /\
       (f = Rabbit.FTerminated -> exists t0, new = Rabbit.EGiveUp k :: t0)).
Proof.
  induction sizes as [|n r IH]; intros b s s' f H; cbn [Rabbit.run_batches] in H.
  - inversion H; subst. exists []. split; [reflexivity|]. split.
    + intros _. split.
      * intros j. split; [intros (cf & q & []) | cbn [List.length]; lia].
      * intros e j [].
    + intros Hf. congruence.
  - destruct (Rabbit.attempts retries b 0 (seq 0 n) s) as [s1 res] eqn:Ha.
    destruct (attempts_ext _ _ _ _ _ _ _ Ha) as (e1 & He1 & F1 & G1).
    (* the run stops inside batch b *)
    assert (STOP : forall f0, (s1, f0) = (s', f) -> f0 <> Rabbit.FDone ->
              (f0 = Rabbit.FTerminated -> res = Rabbit.BGiveUp) ->
              exists new, tr s' = new ++ tr s /\
                (f = Rabbit.FDone ->
                   (forall j, rabbit_written_in new j <-> b <= j < b + List.length (n :: r)) /\
                   (forall e j, In e new -> rabbit_ev_batch e = Some j -> b <= j < b + List.length (n :: r))) /\
                (f <> Rabbit.FDone -> exists k, b <= k < b + List.length (n :: r) /\
                   (forall j, rabbit_written_in new j <-> b <= j < k) /\
                   (forall e j, In e new -> rabbit_ev_batch e = Some j -> b <= j <= k) /\
                   (f = Rabbit.FTerminated -> exists t0, new = Rabbit.EGiveUp k :: t0))).
    { intros f0 E Hf0 Hg. inversion E; subst s' f. exists e1. split; [exact He1|]. split.
      - intros Hd. congruence.
      - intros _. exists b. cbn [List.length]. split; [lia|]. split; [|split].
        + intros j. split; [intros Hw; exfalso; exact (no_written_in_attempts b e1 j F1 Hw)|lia].
        + intros e j Hin Hb. rewrite Forall_forall in F1.
          pose proof (ev_at_batch b e j (F1 e Hin) Hb). lia.
        + intros Ht. exact (G1 (Hg Ht)). }
    destruct res.
    + (* BWritten: the report, then the remaining batches *)
      clear STOP.
      destruct (IH _ _ _ _ H) as (new' & Hn' & HD & HS).
      set (w := Rabbit.EWritten b (confirms s1) (List.length (queue s1))) in *.
      assert (Hmid_w : forall j, rabbit_written_in (w :: e1) j <-> j = b).
      { intros j. split.
        - intros (cf & q & [Hh|Ht]); [inversion Hh; reflexivity|].
          exfalso. apply (no_written_in_attempts b e1 j F1). exists cf, q. exact Ht.
        - intros ->. exists (confirms s1), (List.length (queue s1)). left. reflexivity. }
      assert (Hmid_b : forall e j, In e (w :: e1) -> rabbit_ev_batch e = Some j -> j = b).
      { intros e j [Hh|Ht] Hb.
        - subst e. cbn [rabbit_ev_batch] in Hb. inversion Hb. reflexivity.
        - rewrite Forall_forall in F1. exact (ev_at_batch b e j (F1 e Ht) Hb). }
      exists (new' ++ w :: e1). split.
      { rewrite Hn'. cbn [tr emit]. rewrite He1, <- app_assoc. reflexivity. }
      split.
      * intros Hd. destruct (HD Hd) as [HW HB]. cbn [List.length]. split.
        -- intros j. rewrite written_in_app, HW, Hmid_w. lia.
        -- intros e j Hin Hb. apply in_app_or in Hin. destruct Hin as [Hin|Hin].
           ++ pose proof (HB e j Hin Hb). lia.
           ++ pose proof (Hmid_b e j Hin Hb). lia.
      * intros Hnd. destruct (HS Hnd) as (k & Hk & HW & HB & HG). exists k. cbn [List.length].
        split; [lia|]. split; [|split].
        -- intros j. rewrite written_in_app, HW, Hmid_w. lia.
        -- intros e j Hin Hb. apply in_app_or in Hin. destruct Hin as [Hin|Hin].
           ++ pose proof (HB e j Hin Hb). lia.
           ++ pose proof (Hmid_b e j Hin Hb). lia.
        -- intros Ht. destruct (HG Ht) as (t0 & ->). eexists. reflexivity.
    + apply (STOP Rabbit.FTerminated H); [discriminate|reflexivity].
    + apply (STOP Rabbit.FBlocked H); [discriminate|discriminate].
    + apply (STOP Rabbit.FPanic H); [discriminate|discriminate].
Qed.

(* by end outcome.  FTerminated = "max retries exceeded", StartTransporting returns; FPanic = the
   slice-bounds panic in operation; both run the deferred shutdown().  FBlocked = the worker waits
   in waitForConfirmations for a confirmation that will never come: the model's "waits for ever"
   outcome (it only ends when another stage cancels the context; the confirmation accounting that
   leads there is the territory of known finding F8) — no termination signal from this worker, but
   the same no-hole facts. *)
Lemma rabbit_worker_fail_stop : forall retries sizes ps ss,
  let t := Rabbit.trace retries sizes ps ss in
  let f := snd (Rabbit.run retries sizes ps ss) in
  let written b := exists cf q, In (Rabbit.EWritten b cf q) t in
  let stops_at k :=
    k < List.length sizes /\
    (forall b, written b <-> b < k) /\
    (forall e b, In e t -> rabbit_ev_batch e = Some b -> b <= k) in
  (f = Rabbit.FDone ->
     (forall b, written b <-> b < List.length sizes) /\
     (forall e b, In e t -> rabbit_ev_batch e = Some b -> b < List.length sizes)) /\
  (f = Rabbit.FTerminated -> exists k, stops_at k /\ exists t0, t = t0 ++ [Rabbit.EGiveUp k]) /\
  (f = Rabbit.FPanic -> exists k, stops_at k) /\
  (f = Rabbit.FBlocked -> exists k, stops_at k).
Proof.
  intros retries sizes ps ss. cbv zeta. unfold Rabbit.trace, Rabbit.run.
  destruct (Rabbit.run_batches retries 0 sizes (init_st ps ss)) as [s' f] eqn:H.
  destruct (run_batches_fail_stop retries sizes 0 (init_st ps ss) s' f H) as (new & Hn & HD & HS).
  cbn [init_st tr] in Hn. rewrite app_nil_r in Hn. cbn [fst snd]. rewrite Hn.
  assert (Hw : forall b, (exists cf q, In (Rabbit.EWritten b cf q) (rev new)) <-> rabbit_written_in new b).
  { intros b. unfold rabbit_written_in. split; intros (cf & q & Hi); exists cf, q;
      [apply in_rev; exact Hi|apply in_rev in Hi; exact Hi]. }
  assert (STOP : f <> Rabbit.FDone -> exists k,
            (k < List.length sizes /\
             (forall b, (exists cf q, In (Rabbit.EWritten b cf q) (rev new)) <-> b < k) /\
             (forall e b, In e (rev new) -> rabbit_ev_batch e = Some b -> b <= k)) /\
            (f = Rabbit.FTerminated -> exists t0, rev new = t0 ++ [Rabbit.EGiveUp k])).
  { intros Hf. destruct (HS Hf) as (k & Hk & HW & HB & HG). exists k. split; [split; [lia|split]|].
    - intros b. rewrite Hw, HW. lia.
    - intros e b Hin Hb. apply in_rev in Hin. pose proof (HB e b Hin Hb). lia.
    - intros Ht. destruct (HG Ht) as (t0 & ->). exists (rev t0). reflexivity. }
  split; [|split; [|split]].
  - intros Hd. destruct (HD Hd) as [HW HB]. split.
    + intros b. rewrite Hw, HW. lia.
    + intros e b Hin Hb. apply in_rev in Hin. pose proof (HB e b Hin Hb). lia.
  - intros Hf. destruct STOP as (k & Hk & HG); [congruence|]. exists k. split; [exact Hk|exact (HG Hf)].
  - intros Hf. destruct STOP as (k & Hk & _); [congruence|]. exists k. exact Hk.
  - intros Hf. destruct STOP as (k & Hk & _); [congruence|]. exists k. exact Hk.
Qed.

(* the same in the per-batch shape of the other three flavours: a batch the worker touched
   (some event of the trace belongs to it) and did not report written is the last one it touches,
   all earlier ones are reported written, and the run did not end FDone *)
Lemma rabbit_worker_last_batch : forall retries sizes ps ss k e,
  let t := Rabbit.trace retries sizes ps ss in
  let f := snd (Rabbit.run retries sizes ps ss) in
  In e t -> rabbit_ev_batch e = Some k ->
  (forall cf q, ~ In (Rabbit.EWritten k cf q) t) ->
  (forall e' b, In e' t -> rabbit_ev_batch e' = Some b -> b <= k) /\
  (forall b, b < k -> exists cf q, In (Rabbit.EWritten b cf q) t) /\
  (f = Rabbit.FTerminated \/ f = Rabbit.FPanic \/ f = Rabbit.FBlocked).
Proof.
  intros retries sizes ps ss k e. cbv zeta. intros Hin Hk Hnw.
  pose proof (rabbit_worker_fail_stop retries sizes ps ss) as HM. cbv zeta in HM.
  destruct HM as (HD & HT & HP & HB).
  assert (KEY : forall k0,
            (k0 < List.length sizes /\
             (forall b, (exists cf q, In (Rabbit.EWritten b cf q) (Rabbit.trace retries sizes ps ss)) <-> b < k0) /\
             (forall e b, In e (Rabbit.trace retries sizes ps ss) -> rabbit_ev_batch e = Some b -> b <= k0)) ->
            (forall e' b, In e' (Rabbit.trace retries sizes ps ss) -> rabbit_ev_batch e' = Some b -> b <= k) /\
            (forall b, b < k -> exists cf q, In (Rabbit.EWritten b cf q) (Rabbit.trace retries sizes ps ss))).
  { intros k0 (Hk0 & HW & HE).
    assert (k = k0).
    { pose proof (HE e k Hin Hk) as Hle.
      destruct (Nat.eq_dec k k0) as [Heq|Hne]; [exact Heq|]. exfalso.
      assert (Hlt : k < k0) by lia. apply HW in Hlt. destruct Hlt as (cf & q & Hi). exact (Hnw cf q Hi). }
    subst k0. split; [exact HE|]. intros b Hb. apply HW. exact Hb. }
  destruct (snd (Rabbit.run retries sizes ps ss)) eqn:Ef.
  - exfalso. destruct (HD eq_refl) as [HW HE].
    pose proof (HE e k Hin Hk) as Hlt. apply HW in Hlt. destruct Hlt as (cf & q & Hi). exact (Hnw cf q Hi).
  - destruct (HT eq_refl) as (k0 & Hs & _). destruct (KEY k0 Hs) as [A B].
    split; [exact A|]. split; [exact B|]. left. reflexivity.
  - destruct (HB eq_refl) as (k0 & Hs). destruct (KEY k0 Hs) as [A B].
    split; [exact A|]. split; [exact B|]. right. right. reflexivity.
  - destruct (HP eq_refl) as (k0 & Hs). destruct (KEY k0 Hs) as [A B].
    split; [exact A|]. split; [exact B|]. right. left. reflexivity.
Qed.

(* ====================================================================================== *)
(* 4. Kafka                                                                                 *)
(* ====================================================================================== *)
Import Kafka KafkaProofs.

(* [r_obs] has one entry per batch the worker got to look at (what SendMessages received, what
   went onto txnsWritten); r_stopped / r_terminated / r_closes / r_chan_closed are the effects of
   the deferred shutdown(): producer closed, CancelFunc() called, txnsWritten closed.  The model
   has no blocked outcome (SendMessages always returns). *)
Lemma kafka_worker_fail_stop : forall sc i o,
  let r := Kafka.transport sc in
  nth_error (Kafka.r_obs r) i = Some o -> Kafka.o_written o = None ->
  List.length (Kafka.r_obs r) = S i /\
  (forall j oj, j < i -> nth_error (Kafka.r_obs r) j = Some oj -> Kafka.o_written oj <> None) /\
  (exists s, nth_error sc i = Some s /\ o = fst (fst (Kafka.iterate s))) /\
  Kafka.r_stopped r = true /\ Kafka.r_terminated r = true /\
  Kafka.r_closes r = 1%N /\ Kafka.r_chan_closed r = true.
Proof.
  intros sc i o. cbv zeta. unfold Kafka.transport. intros Ho Hnw.
  (* batch i was reached *)
  assert (Hr : KafkaProofs.reached sc i).
  { unfold KafkaProofs.reached. destruct (forallb KafkaProofs.continues (firstn i sc)) eqn:E; [reflexivity|].
    assert (Hn : ~ KafkaProofs.reached sc i) by (unfold KafkaProofs.reached; congruence).
    pose proof (KafkaProofs.obs_not_reached sc i Hn) as Hnone. unfold KafkaProofs.obs_at in Hnone. congruence. }
  (* and it exists in the script *)
  destruct (nth_error sc i) as [s|] eqn:Hn.
  2:{ exfalso. apply nth_error_None in Hn.
      unfold KafkaProofs.reached in Hr. rewrite firstn_all2 in Hr by exact Hn.
      destruct (KafkaProofs.alive_at_end sc Hr) as (Hlen & _).
      assert (Hnone : nth_error (Kafka.r_obs (Kafka.tloop false sc)) i = None) by (apply nth_error_None; lia).
      congruence. }
  pose proof (KafkaProofs.obs_reached sc i s Hr Hn) as Hobs. unfold KafkaProofs.obs_at in Hobs.
  assert (Eo : o = KafkaProofs.obs_of s) by congruence.
  pose proof (KafkaProofs.transport_no_hole sc i s Hn Hr) as NH. cbv zeta in NH.
  unfold Kafka.transport, KafkaProofs.written_at, KafkaProofs.obs_at in NH. rewrite Ho in NH.
  destruct (NH Hnw) as (Hlen & H1 & H2 & H3 & H4).
  split; [exact Hlen|]. split; [|split].
  - intros j oj Hj Hoj.
    assert (Hrj : KafkaProofs.reached sc j).
    { unfold KafkaProofs.reached in *. apply (forallb_firstn_le KafkaProofs.continues sc i j); [lia|exact Hr]. }
    destruct (nth_error sc j) as [sj|] eqn:Hnj.
    2:{ apply nth_error_None in Hnj. assert (i < List.length sc) by (apply nth_error_Some; congruence). lia. }
    pose proof (KafkaProofs.obs_reached sc j sj Hrj Hnj) as Hobsj. unfold KafkaProofs.obs_at in Hobsj.
    assert (Eoj : oj = KafkaProofs.obs_of sj) by congruence. subst oj.
    apply KafkaProofs.continues_written.
    unfold KafkaProofs.reached in Hr.
    exact (forallb_firstn_nth KafkaProofs.continues sc i j sj Hj Hnj Hr).
  - exists s. split; [reflexivity|exact Eo].
  - split; [exact H1|]. split; [exact H2|]. split; [exact H3|exact H4].
Qed.
