(* RabbitProofs.v — lemmas about model/Rabbit.v (confirmation accounting of the RabbitMQ worker). *)
From Bifrost.model Require Import Base Rabbit.

(* ====================================================================================== *)
(* 1. Reading of a trace                                                                    *)
(* ====================================================================================== *)

(* the publish a confirmation answers, as an event *)
Definition pub_of (c : conf) : event :=
  EPub (c_chan c) (c_tag c) (c_b c) (c_m c) (c_att c) (Some (c_ack c)).

(* message m of batch b was positively confirmed to the worker while it worked on b: it read an
   ack which answers a publish of (b, m) made for b, and that publish is in the trace *)
Definition confirmed_in (t : list event) (b m : nat) : Prop :=
  exists c, In (ECons c b) t /\ c_ack c = true /\ c_b c = b /\ c_m c = m /\ In (pub_of c) t.

(* FULL STATEMENTS of property C13 over the model (all retry budgets, batch sequences, broker
   scripts).  Both are refuted on the faithful model (finding F8). *)
Definition written_confirmed_statement : Prop :=
  forall retries sizes ps ss b cf q n m,
    In (EWritten b cf q) (trace retries sizes ps ss) ->
    nth_error sizes b = Some n -> m < n ->
    confirmed_in (trace retries sizes ps ss) b m.

Definition no_cross_counting_statement : Prop :=
  forall retries sizes ps ss c cur,
    In (ECons c cur) (trace retries sizes ps ss) -> c_b c = cur.

(* the restriction under which both hold: every failure the broker produces closes the channel
   (a nack or a publish error never leaves the channel open) *)
Definition safe_act (a : pact) : bool :=
  match a with
  | PConf ack cl => ack || cl
  | PErr cl => cl
  | PSilentClose => true
  end.
Definition closure_only (ps : list pact) : bool := forallb safe_act ps.

(* ---- boolean readings agree with the propositions (used by the refutations) ---- *)
Lemma confirmed_in_bool t b m : confirmed_in t b m -> consumed_ack_in t b m = true.
Proof.
  intros (c & Hin & Ha & Hb & Hm & _). unfold consumed_ack_in. apply existsb_exists.
  exists (ECons c b). split; [assumption|]. simpl. rewrite Ha, Hb, Hm, !Nat.eqb_refl. reflexivity.
Qed.

Lemma cross_counted_bool t : cross_counted_in t = true -> exists c cur, In (ECons c cur) t /\ c_b c <> cur.
Proof.
  unfold cross_counted_in. intros H. apply existsb_exists in H. destruct H as (e & Hin & He).
  destruct e; try discriminate. exists c, cur. split; [assumption|].
  apply negb_true_iff, Nat.eqb_neq in He. assumption.
Qed.

(* ====================================================================================== *)
(* 2. Refutation witnesses (finding F8)                                                     *)
(* ====================================================================================== *)

(* batch m0 m1 m2; broker: ack tag 1, nack tag 2, ack tag 3; the republished m1, m2 (tags 4, 5)
   are both nacked.  The worker reads ack 1, nack 2, republishes the suffix, then reads the OLD
   ack 3 and reports the batch. *)
Definition f8_script : list pact :=
  [PConf true false; PConf false false; PConf true false; PConf false false; PConf false false].

Lemma f8_written_unconfirmed :
  let t := trace 3 [3] f8_script [] in
  In (EWritten 0 3 2) t /\ acked_pub_in t 0 1 = false /\ consumed_ack_in t 0 1 = false.
Proof. vm_compute. split; [|split]; auto 20. Qed.

Lemma written_confirmed_refuted : ~ written_confirmed_statement.
Proof.
  intros H. destruct f8_written_unconfirmed as (Hw & _ & Hc).
  specialize (H 3 [3] f8_script [] 0 3%N 2 3 1 Hw eq_refl ltac:(lia)).
  apply confirmed_in_bool in H. rewrite Hc in H. discriminate H.
Qed.

(* same start, but the republishes (tags 4, 5) are acked; a second batch of one message (tag 6)
   is nacked: the worker counts the stale ack of tag 4 for it and reports it written. *)
Definition f8_script2 : list pact :=
  [PConf true false; PConf false false; PConf true false; PConf true false; PConf true false;
   PConf false false].

Lemma f8_cross_counted :
  let t := trace 3 [3; 1] f8_script2 [] in
  cross_counted_in t = true /\ In (EWritten 1 4 2) t /\ acked_pub_in t 1 0 = false.
Proof. vm_compute. split; [|split]; auto 30. Qed.

Lemma no_cross_counting_refuted : ~ no_cross_counting_statement.
Proof.
  intros H. destruct f8_cross_counted as (Hc & _).
  apply cross_counted_bool in Hc. destruct Hc as (c & cur & Hin & Hne).
  apply Hne. eapply H. exact Hin.
Qed.

(* a publish error that leaves the channel open has the same effect: m0 (tag 1) acked, m1's
   Publish fails, the whole batch is republished (tags 2, 3, 4), tag 4 (m2) is nacked; the worker
   reads acks 1, 2, 3 and reports the batch. *)
Definition f8_script3 : list pact :=
  [PConf true false; PErr false; PConf true false; PConf true false; PConf false false].

Lemma f8_publish_error :
  let t := trace 3 [3] f8_script3 [] in
  In (EWritten 0 3 1) t /\ acked_pub_in t 0 2 = false.
Proof. vm_compute. split; auto 20. Qed.

(* ====================================================================================== *)
(* 3. Trace extension                                                                       *)
(* ====================================================================================== *)
Definition extP (P : event -> Prop) (s s' : rst) : Prop :=
  exists e, tr s' = e ++ tr s /\ Forall P e.

Lemma extP_refl P s : extP P s s.
Proof. exists []. split; [reflexivity|constructor]. Qed.

Lemma extP_trans P s1 s2 s3 : extP P s1 s2 -> extP P s2 s3 -> extP P s1 s3.
Proof.
  intros (e1 & H1 & F1) (e2 & H2 & F2). exists (e2 ++ e1). split.
  - rewrite H2, H1, app_assoc. reflexivity.
  - apply Forall_app; split; assumption.
Qed.

Lemma extP_weaken (P Q : event -> Prop) s s' : (forall e, P e -> Q e) -> extP P s s' -> extP Q s s'.
Proof. intros H (e & He & F). exists e. split; [assumption|]. eapply Forall_impl; eauto. Qed.

Lemma extP_in P s s' x : extP P s s' -> In x (tr s) -> In x (tr s').
Proof. intros (e & He & _) H. rewrite He. apply in_or_app. now right. Qed.

Lemma extP_new P s s' x : extP P s s' -> In x (tr s') -> In x (tr s) \/ P x.
Proof.
  intros (e & He & F) H. rewrite He in H. apply in_app_or in H. destruct H as [H|H]; [|now left].
  right. rewrite Forall_forall in F. auto.
Qed.

Lemma extP_emit (P : event -> Prop) x s : P x -> extP P s (emit x s).
Proof. intros H. exists [x]. split; [reflexivity|]. constructor; [assumption|constructor]. Qed.

Lemma extP_same P s s' : tr s' = tr s -> extP P s s'.
Proof. intros H. exists []. split; [assumption|constructor]. Qed.

(* events of a publish phase *)
Definition is_pubev (e : event) : Prop :=
  match e with EPub _ _ _ _ _ _ | EPubErr _ _ _ _ => True | _ => False end.
(* events that may be added while the worker is busy with batch b *)
Definition ev_ok (b : nat) (e : event) : Prop :=
  match e with
  | ECons c cur => cur = b /\ c_b c = b
  | EWritten _ _ _ => False
  | _ => True
  end.
Lemma is_pubev_ok b e : is_pubev e -> ev_ok b e.
Proof. destruct e; simpl; tauto. Qed.

(* ====================================================================================== *)
(* 4. Ghost labels are truthful, for ALL scripts                                            *)
(* ====================================================================================== *)
Definition QG (q : list conf) (t : list event) : Prop := forall c, In c q -> In (pub_of c) t.
Definition T2 (t : list event) : Prop := forall c cur, In (ECons c cur) t -> In (pub_of c) t.
Definition GI (s : rst) : Prop := QG (queue s) (tr s) /\ T2 (tr s).

Lemma QG_mono q t t' : (forall x, In x t -> In x t') -> QG q t -> QG q t'.
Proof. intros H Q c Hc. auto. Qed.

Lemma pop_p_spec s a s1 : pop_p s = (a, s1) ->
  tr s1 = tr s /\ queue s1 = queue s /\ closed s1 = closed s /\ confirms s1 = confirms s /\
  next_tag s1 = next_tag s /\ has_chan s1 = has_chan s /\ handler s1 = handler s /\ chan_id s1 = chan_id s /\
  ss s1 = ss s /\
  ((ps s = [] /\ a = PConf true false /\ ps s1 = []) \/ ps s = a :: ps s1).
Proof.
  unfold pop_p. destruct (ps s) as [|a' r] eqn:E; intros H; inversion H; subst; simpl; rewrite ?E; intuition.
Qed.

Lemma send_GI b att : forall ms s s' ok, GI s -> send b att ms s = (s', ok) -> GI s'.
Proof.
  induction ms as [|m r IH]; intros s s' ok G H; simpl in H.
  - inversion H; subst; assumption.
  - destruct (closed s); [inversion H; subst; assumption|].
    destruct (pop_p s) as [a s1] eqn:Hp.
    destruct (pop_p_spec _ _ _ Hp) as (Ht & Hq & _).
    destruct G as [Q T].
    destruct a as [ack cl|cl|].
    + eapply IH; [|exact H]. split; simpl.
      * intros c Hc. apply in_app_or in Hc. destruct Hc as [Hc|[<-|[]]].
        -- right. rewrite Ht. apply Q. rewrite <- Hq. assumption.
        -- left. reflexivity.
      * intros c cur [Hc|Hc]; [discriminate|]. right. rewrite Ht in *. eauto.
    + inversion H; subst. split.
      * destruct cl; simpl; [intros c []|]. intros c Hc. right. rewrite Ht. apply Q. rewrite <- Hq. assumption.
      * intros c cur Hc. destruct cl; simpl in *; (destruct Hc as [Hc|Hc]; [discriminate|]); right; rewrite Ht in *; eauto.
    + eapply IH; [|exact H]. split; simpl.
      * intros c [].
      * intros c cur [Hc|Hc]; [discriminate|]. right. rewrite Ht in *. eauto.
Qed.

Lemma wait_GI cur desired : forall q s s' w,
  QG q (tr s) -> T2 (tr s) -> wait_loop cur desired q s = (s', w) -> GI s'.
Proof.
  induction q as [|c q IH]; intros s s' w Q T H; simpl in H.
  - destruct (desired <=? confirms s)%N; [inversion H; subst; split; simpl; auto|].
    destruct (closed s); inversion H; subst; split; simpl; auto; intros c [].
  - destruct (desired <=? confirms s)%N; [inversion H; subst; split; simpl; auto|].
    destruct (closed s); [inversion H; subst; split; simpl; auto|].
    assert (T' : T2 (ECons c cur :: tr s)).
    { intros c' cur' [Hc|Hc]; right; [inversion Hc; subst; apply Q; now left|eauto]. }
    assert (Q' : QG q (ECons c cur :: tr s)).
    { intros c' Hc'. right. apply Q. now right. }
    destruct (c_ack c).
    + destruct (c_close c).
      * destruct (desired <=? c_tag c)%N; inversion H; subst; split; simpl; auto; intros c' [].
      * eapply IH; [| |exact H]; simpl; assumption.
    + inversion H; subst. destruct (c_close c); split; simpl; auto. intros c' [].
Qed.

Lemma pop_s_spec s a s1 : pop_s s = (a, s1) ->
  tr s1 = tr s /\ queue s1 = queue s /\ closed s1 = closed s /\ confirms s1 = confirms s /\
  next_tag s1 = next_tag s /\ has_chan s1 = has_chan s /\ handler s1 = handler s /\ chan_id s1 = chan_id s /\
  ps s1 = ps s.
Proof.
  unfold pop_s. destruct (ss s) as [|a' r] eqn:E; intros H; inversion H; subst; simpl; intuition.
Qed.

Lemma T2_cons e t : (forall c cur, e <> ECons c cur) -> T2 t -> T2 (e :: t).
Proof. intros Hne T c cur [H|H]; [exfalso; eapply Hne; eauto|right; eauto]. Qed.

Lemma setup_GI s s' ok : GI s -> setup s = (s', ok) -> GI s'.
Proof.
  unfold setup. intros [Q T] H. destruct (has_chan s); [inversion H; subst; split; assumption|].
  destruct (pop_s s) as [a s1] eqn:Hp. destruct (pop_s_spec _ _ _ Hp) as (Ht & Hq & _).
  destruct a; inversion H; subst; split; simpl; rewrite ?Ht, ?Hq;
    try (intros c []); try (apply T2_cons; [intros; discriminate|assumption]).
  - intros c Hc. right. auto.
  - intros c Hc. right. auto.
Qed.

Lemma handler_GI s : GI s -> GI (handler_step s).
Proof.
  unfold handler_step. intros [Q T]. destruct (has_chan s && closed s && handler s); split; simpl; auto.
  intros c [].
Qed.

Lemma emit_GI e s : (forall c cur, e <> ECons c cur) -> GI s -> GI (emit e s).
Proof.
  intros Hne [Q T]. split; simpl; [|apply T2_cons; assumption]. intros c Hc. right. auto.
Qed.

Lemma attempt_GI b att ms s s' r : GI s -> attempt b att ms s = (s', r) -> GI s'.
Proof.
  unfold attempt. intros G H. destruct (setup s) as [s1 ok] eqn:Hs.
  pose proof (setup_GI _ _ _ G Hs) as G1.
  destruct ok; simpl in H; [|inversion H; subst; assumption].
  destruct (send b att ms s1) as [s2 ok2] eqn:Hd.
  pose proof (send_GI _ _ _ _ _ _ G1 Hd) as G2.
  destruct ok2; simpl in H; [|inversion H; subst; assumption].
  destruct (wait_loop b _ (queue s2) s2) as [s3 w] eqn:Hw.
  destruct G2 as [Q2 T2']. pose proof (wait_GI _ _ _ _ _ _ Q2 T2' Hw) as G3.
  destruct w; inversion H; subst; assumption.
Qed.

Lemma attempts_GI b : forall retries att ms s s' r, GI s -> attempts retries b att ms s = (s', r) -> GI s'.
Proof.
  induction retries as [|k IH]; intros att ms s s' r G H; simpl in H;
    destruct (attempt b att ms s) as [s1 a] eqn:Ha;
    pose proof (attempt_GI _ _ _ _ _ _ G Ha) as G1;
    destruct a as [|rem|]; try (inversion H; subst; auto using handler_GI; fail);
    destruct (N.of_nat (List.length ms) <? rem)%N; try (inversion H; subst; assumption).
  - inversion H; subst. apply emit_GI; [intros; discriminate|]. apply emit_GI; [intros; discriminate|].
    apply handler_GI; assumption.
  - eapply IH; [|exact H]. apply emit_GI; [intros; discriminate|]. apply handler_GI; assumption.
Qed.

Lemma run_batches_GI retries : forall sizes b s s' f, GI s -> run_batches retries b sizes s = (s', f) -> GI s'.
Proof.
  induction sizes as [|n r IH]; intros b s s' f G H; simpl in H.
  - inversion H; subst; assumption.
  - destruct (attempts retries b 0 (seq 0 n) s) as [s1 res] eqn:Ha.
    pose proof (attempts_GI _ _ _ _ _ _ _ G Ha) as G1.
    destruct res; try (inversion H; subst; assumption).
    eapply IH; [|exact H]. apply emit_GI; [intros; discriminate|assumption].
Qed.

(* every confirmation the worker ever reads answers a publish recorded in the trace, with the
   verdict the broker gave to that publish *)
Theorem ghost_sound retries sizes ps ss c cur :
  In (ECons c cur) (trace retries sizes ps ss) -> In (pub_of c) (trace retries sizes ps ss).
Proof.
  unfold trace, run. destruct (run_batches retries 0 sizes (init_st ps ss)) as [s f] eqn:H. simpl.
  assert (G0 : GI (init_st ps ss)) by (split; simpl; [intros x []|intros x y []]).
  destruct (run_batches_GI _ _ _ _ _ _ G0 H) as [_ T].
  rewrite <- !in_rev. apply T.
Qed.

(* ====================================================================================== *)
(* 5. Scripts in which every failure closes the channel                                     *)
(* ====================================================================================== *)

(* the content of publishNotify answers, in order, the publishes of messages [ms] of batch b,
   with consecutive tags from [base], and contains no nack that leaves the channel open *)
Fixpoint qmatch (b : nat) (base : N) (ms : list nat) (q : list conf) : Prop :=
  match ms, q with
  | [], [] => True
  | m :: ms', c :: q' =>
      c_tag c = base /\ c_m c = m /\ c_b c = b /\ (c_ack c || c_close c = true) /\
      qmatch b (base + 1) ms' q'
  | _, _ => False
  end.

Lemma qmatch_snoc b : forall ms q base m c,
  qmatch b base ms q -> c_tag c = (base + N.of_nat (List.length ms))%N -> c_m c = m -> c_b c = b ->
  c_ack c || c_close c = true -> qmatch b base (ms ++ [m]) (q ++ [c]).
Proof.
  induction ms as [|m0 ms IH]; intros q base m c Hq Ht Hm Hb Hs; destruct q as [|c0 q]; simpl in *; try tauto.
  - rewrite N.add_0_r in Ht. intuition.
  - destruct Hq as (H1 & H2 & H3 & H4 & H5). repeat split; try assumption.
    apply IH; try assumption. lia.
Qed.

(* state between two attempts *)
Definition sync (s : rst) : Prop :=
  closure_only (ps s) = true /\
  (closed s = true -> queue s = []) /\
  (closed s = false -> has_chan s = true -> queue s = [] /\ next_tag s = (confirms s + 1)%N).

Definition hc (t : list event) (b m : nat) : Prop :=
  exists c, In (ECons c b) t /\ c_ack c = true /\ c_b c = b /\ c_m c = m.

Lemma hc_mono P s s' b m : extP P s s' -> hc (tr s) b m -> hc (tr s') b m.
Proof. intros E (c & H & R). exists c. split; [eapply extP_in; eauto|assumption]. Qed.

Lemma send_closed b att ms s : closed s = true -> send b att ms s = (s, match ms with [] => true | _ => false end).
Proof. intros H. destruct ms; simpl; [reflexivity|]. rewrite H. reflexivity. Qed.

Lemma send_sync b att : forall ms s s' ok ms0 base,
  closure_only (ps s) = true -> closed s = false ->
  qmatch b base ms0 (queue s) -> next_tag s = (base + N.of_nat (List.length ms0))%N ->
  send b att ms s = (s', ok) ->
  closure_only (ps s') = true /\ confirms s' = confirms s /\ has_chan s' = has_chan s /\
  extP is_pubev s s' /\
  ((ok = true /\ closed s' = false /\ qmatch b base (ms0 ++ ms) (queue s') /\
    next_tag s' = (base + N.of_nat (List.length (ms0 ++ ms)))%N)
   \/ (closed s' = true /\ queue s' = [])).
Proof.
  induction ms as [|m r IH]; intros s s' ok ms0 base Hps Hcl Hq Hn H; simpl in H.
  - inversion H; subst. rewrite app_nil_r. repeat split; auto using extP_refl.
  - rewrite Hcl in H. destruct (pop_p s) as [a s1] eqn:Hp.
    destruct (pop_p_spec _ _ _ Hp) as (Ht & Hqq & Hc1 & Hcf & Hnt & Hhc & Hh & Hid & Hss & Hpp).
    assert (Hsafe : safe_act a = true /\ closure_only (ps s1) = true).
    { destruct Hpp as [(E & -> & E1)|E]; [rewrite E1; split; reflexivity|].
      unfold closure_only in *. rewrite E in Hps. simpl in Hps. apply andb_true_iff in Hps. assumption. }
    destruct Hsafe as [Hsa Hps1].
    destruct a as [ack cl|cl|]; simpl in Hsa.
    + match type of H with send _ _ _ ?S = _ => set (sN := S) in * end.
      assert (E : extP is_pubev s sN).
      { exists [EPub (chan_id s1) (next_tag s1) b m att (Some ack)]. split; [simpl; rewrite Ht; reflexivity|].
        constructor; [exact I|constructor]. }
      specialize (IH sN s' ok (ms0 ++ [m]) base).
      destruct IH as (I1 & I2 & I3 & I4 & I5); try assumption.
      * simpl. rewrite Hc1. assumption.
      * simpl. rewrite Hqq. apply qmatch_snoc; simpl; try assumption; try reflexivity. rewrite Hnt. assumption.
      * simpl. rewrite Hnt, Hn, app_length. simpl. lia.
      * simpl in I2, I3. rewrite Hcf in I2. rewrite Hhc in I3.
        split; [assumption|]. split; [assumption|]. split; [assumption|].
        split; [eapply extP_trans; eauto|].
        rewrite <- app_assoc in I5. simpl in I5. assumption.
    + subst cl. inversion H; subst. simpl. rewrite Hcf, Hhc.
      repeat split; auto.
      exists [EPubErr (chan_id s1) b m att]. split; [simpl; rewrite Ht; reflexivity|].
      constructor; [exact I|constructor].
    + match type of H with send _ _ _ ?S = _ => set (sN := S) in * end.
      rewrite (send_closed b att r sN) in H by reflexivity. inversion H; subst.
      simpl. rewrite Hcf, Hhc. repeat split; auto.
      exists [EPub (chan_id s1) (next_tag s1) b m att None]. split; [simpl; rewrite Ht; reflexivity|].
      constructor; [exact I|constructor].
Qed.

Lemma wait_sync b : forall q ms s s' w desired,
  closed s = false -> qmatch b (confirms s + 1) ms q ->
  desired = (confirms s + N.of_nat (List.length ms))%N ->
  wait_loop b desired q s = (s', w) ->
  ps s' = ps s /\ next_tag s' = next_tag s /\ has_chan s' = has_chan s /\
  extP (ev_ok b) s s' /\
  exists k, k <= List.length ms /\ Forall (hc (tr s') b) (firstn k ms) /\
    ((w = WDone /\ k = List.length ms /\ queue s' = [] /\ (closed s' = false -> confirms s' = desired))
     \/ (exists r, w = WFail r /\ N.to_nat r = List.length ms - k /\ k < List.length ms /\
                   closed s' = true /\ queue s' = [])).
Proof.
  induction q as [|c q IH]; intros ms s s' w desired Hcl Hq Hd H; simpl in H.
  - destruct ms; [|simpl in Hq; tauto]. simpl in Hd. rewrite N.add_0_r in Hd.
    replace (desired <=? confirms s)%N with true in H by (symmetry; apply N.leb_le; lia).
    inversion H; subst s' w. simpl. repeat split; auto using extP_same.
    exists 0. split; [lia|]. split; [constructor|]. left. auto.
  - destruct ms as [|m ms]; [simpl in Hq; tauto|]. simpl in Hq.
    destruct Hq as (Htag & Hm & Hb & Hsafe & Hq).
    simpl List.length in Hd.
    replace (desired <=? confirms s)%N with false in H by (symmetry; apply N.leb_gt; lia).
    rewrite Hcl in H.
    destruct (c_ack c) eqn:Hack.
    + destruct (c_close c) eqn:Hclose.
      * (* ack, then the channel closes *)
        assert (Hcons : hc (ECons c b :: tr s) b m).
        { exists c. split; [now left|]. auto. }
        destruct (desired <=? c_tag c)%N eqn:Hle; inversion H; subst s' w; simpl;
          (split; [reflexivity|]); (split; [reflexivity|]); (split; [reflexivity|]);
          (split; [exists [ECons c b]; split; [reflexivity|]; constructor; [simpl; auto|constructor]|]).
        -- apply N.leb_le in Hle. simpl List.length in Hle.
           assert (List.length ms = 0) by lia. destruct ms; [|discriminate].
           exists 1. split; [simpl; lia|]. split; [simpl; constructor; [assumption|constructor]|].
           left. repeat split; auto. intros; discriminate.
        -- apply N.leb_gt in Hle. simpl List.length in Hle.
           exists 1. split; [simpl; lia|]. split; [simpl; constructor; [assumption|constructor]|].
           right. eexists. split; [reflexivity|]. simpl List.length. repeat split; auto; lia.
      * (* ack, channel stays open *)
        match type of H with wait_loop _ _ _ ?S = _ => set (s2 := S) in * end.
        specialize (IH ms s2 s' w desired).
        destruct IH as (I1 & I2 & I3 & I4 & k & Hk & HF & Hres); try assumption.
        -- simpl. rewrite Htag. assumption.
        -- simpl. rewrite Htag, Hd. simpl List.length. lia.
        -- simpl in I1, I2, I3.
           split; [assumption|]. split; [assumption|]. split; [assumption|].
           assert (E2 : extP (ev_ok b) s s2).
           { exists [ECons c b]. split; [reflexivity|]. constructor; [simpl; auto|constructor]. }
           split; [eapply extP_trans; eauto|].
           exists (S k). split; [simpl; lia|]. split.
           ++ simpl. constructor; [|assumption].
              eapply hc_mono; [exact I4|]. exists c. split; [now left|]. auto.
           ++ destruct Hres as [(-> & -> & R)|(r & -> & Hr & Hlt & R)].
              ** left. auto.
              ** right. exists r. simpl List.length. repeat split; try tauto; lia.
    + (* nack: by the restriction it closes the channel *)
      simpl in Hsafe. rewrite Hsafe in H. inversion H; subst s' w. simpl.
      split; [reflexivity|]. split; [reflexivity|]. split; [reflexivity|].
      split; [exists [ECons c b]; split; [reflexivity|]; constructor; [simpl; auto|constructor]|].
      exists 0. split; [lia|]. split; [constructor|].
      right. eexists. split; [reflexivity|]. simpl List.length. repeat split; auto; lia.
Qed.

Lemma sync_emit e s : sync s -> sync (emit e s).
Proof. intros H. exact H. Qed.

Lemma sync_handler s : sync s -> sync (handler_step s).
Proof.
  unfold handler_step, sync. intros (H1 & H2 & H3).
  destruct (has_chan s && closed s && handler s); simpl; [|auto].
  split; [assumption|]. split; intros; discriminate.
Qed.

Lemma handler_tr s : tr (handler_step s) = tr s.
Proof. unfold handler_step. destruct (has_chan s && closed s && handler s); reflexivity. Qed.

Lemma setup_sync b s s1 ok : sync s -> setup s = (s1, ok) ->
  sync s1 /\ (ok = true -> has_chan s1 = true) /\ extP (ev_ok b) s s1.
Proof.
  unfold setup. intros Hs H. destruct (has_chan s) eqn:Hh.
  - inversion H; subst. auto using extP_refl.
  - destruct (pop_s s) as [a s0] eqn:Hp.
    destruct (pop_s_spec _ _ _ Hp) as (Ht & Hq & Hc & Hcf & Hn & Hhc & _ & _ & Hps).
    destruct Hs as (S1 & S2 & S3).
    assert (E : forall k ch x, tr x = ESetup k ch :: tr s0 -> extP (ev_ok b) s x).
    { intros k ch x Hx. exists [ESetup k ch]. split; [rewrite Hx, Ht; reflexivity|].
      constructor; [exact I|constructor]. }
    destruct a; inversion H; subst; (split; [|split; [|eapply E; reflexivity]]);
      try discriminate; try reflexivity; unfold sync; simpl; rewrite ?Hps, ?Hc, ?Hq, ?Hhc, ?Hn, ?Hcf;
      try (split; [assumption|]; split; [discriminate|intros; split; reflexivity]); auto.
Qed.

Definition attempt_post (b : nat) (ms : list nat) (s' : rst) (r : ares) : Prop :=
  match r with
  | AOk => Forall (hc (tr s') b) ms
  | AFail rem => N.to_nat rem <= List.length ms /\
                 ((0 < rem)%N -> Forall (hc (tr s') b) (firstn (List.length ms - N.to_nat rem) ms))
  | ABlocked => False
  end.

Lemma sync_closed s : closure_only (ps s) = true -> closed s = true -> queue s = [] -> sync s.
Proof. intros P C Q. split; [assumption|]. split; [auto|]. rewrite C. discriminate. Qed.

Lemma wait_closed cur desired s : closed s = true -> (confirms s < desired)%N ->
  wait_loop cur desired [] s = (set_queue [] s, WFail (desired - confirms s)%N).
Proof.
  intros C L. simpl. replace (desired <=? confirms s)%N with false by (symmetry; apply N.leb_gt; lia).
  rewrite C. reflexivity.
Qed.

Lemma attempt_post_fail0 b ms s : attempt_post b ms s (AFail 0).
Proof. simpl. split; [lia|intros; lia]. Qed.

Lemma attempt_sync b att ms s s' r :
  sync s -> attempt b att ms s = (s', r) ->
  sync s' /\ extP (ev_ok b) s s' /\ attempt_post b ms s' r.
Proof.
  unfold attempt. intros Hs H. destruct (setup s) as [s1 ok] eqn:Hset.
  destruct (setup_sync b _ _ _ Hs Hset) as (Hs1 & Hhas & E1).
  destruct ok; simpl in H; [|inversion H; subst; split; [assumption|]; split; [assumption|apply attempt_post_fail0]].
  specialize (Hhas eq_refl).
  destruct (send b att ms s1) as [s2 ok2] eqn:Hsend.
  destruct Hs1 as (P1 & C1 & O1).
  destruct (closed s1) eqn:Hc1.
  - (* the channel is closed and nobody resets it (no closeHandler) *)
    rewrite send_closed in Hsend by assumption. inversion Hsend; subst s2 ok2.
    destruct ms as [|m ms]; simpl in H.
    + rewrite (C1 eq_refl) in H. simpl in H. rewrite N.leb_refl in H.
      inversion H; subst. split; [|split; [|simpl; constructor]].
      * apply sync_closed; auto.
      * eapply extP_trans; [exact E1|]. apply extP_same. reflexivity.
    + inversion H; subst. split; [apply sync_closed; auto|]. split; [assumption|].
      apply attempt_post_fail0.
  - destruct (O1 eq_refl Hhas) as (Q1 & N1).
    destruct (send_sync b att ms s1 s2 ok2 [] (confirms s1 + 1)%N P1 Hc1) as (P2 & Cf2 & H2 & E2 & D);
      [rewrite Q1; exact I|simpl; lia|assumption|].
    assert (E12 : extP (ev_ok b) s s2).
    { eapply extP_trans; [exact E1|]. eapply extP_weaken; [|exact E2]. apply is_pubev_ok. }
    destruct D as [(-> & Hc2 & Hqm & Hn2)|(Hc2 & Hq2)].
    + simpl in H, Hqm, Hn2.
      destruct (wait_loop b (N.of_nat (List.length ms) + confirms s2) (queue s2) s2) as [s3 w] eqn:Hw.
      rewrite N.add_comm in Hw.
      assert (Hqm2 : qmatch b (confirms s2 + 1) ms (queue s2)) by (rewrite Cf2; assumption).
      destruct (wait_sync b (queue s2) ms s2 s3 w _ Hc2 Hqm2 eq_refl Hw)
        as (P3 & N3 & H3 & E3 & k & Hk & HF & R).
      assert (E13 : extP (ev_ok b) s s3) by (eapply extP_trans; eauto).
      destruct R as [(-> & -> & Q3 & C3)|(rem & -> & Hrem & Hlt & C3 & Q3)]; inversion H; subst.
      * split; [|split; [assumption|]].
        -- split; [rewrite P3; assumption|]. split; [auto|]. intros Hc3 _. split; [assumption|].
           rewrite N3, Hn2, (C3 Hc3), Cf2. lia.
        -- simpl. rewrite firstn_all in HF. assumption.
      * split; [apply sync_closed; auto; rewrite P3; assumption|]. split; [assumption|].
        simpl. split; [lia|]. intros _. replace (List.length ms - N.to_nat rem) with k by lia. assumption.
    + (* the channel closed during the publish phase *)
      destruct ok2; cbn [negb] in H.
      * destruct ms as [|m ms].
        -- simpl in Hsend. inversion Hsend; subst s2. congruence.
        -- rewrite Hq2, wait_closed in H by (simpl List.length; lia || assumption).
           cbv beta iota in H. apply pair_equal_spec in H. destruct H as [<- <-].
           split; [apply sync_closed; auto|]. split.
           ++ eapply extP_trans; [exact E12|]. apply extP_same. reflexivity.
           ++ unfold attempt_post. split; [lia|]. intros _.
              match goal with |- Forall _ (firstn ?n _) => replace n with 0 by lia end.
              constructor.
      * inversion H; subst. split; [apply sync_closed; auto|]. split; [assumption|].
        apply attempt_post_fail0.
Qed.

Lemma skipn_seq j : forall k len, skipn j (seq k len) = seq (k + j) (len - j).
Proof.
  induction j as [|j IH]; intros k len; simpl.
  - rewrite Nat.add_0_r, Nat.sub_0_r. reflexivity.
  - destruct len; simpl; [reflexivity|]. rewrite IH. f_equal. lia.
Qed.

Lemma in_firstn_seq j : forall k len m, k <= m < k + j -> m < k + len -> In m (firstn j (seq k len)).
Proof.
  induction j as [|j IH]; intros k len m H1 H2; [lia|]. destruct len; [lia|]. simpl.
  destruct (Nat.eq_dec k m); [left; assumption|right; apply IH; lia].
Qed.

Lemma attempts_eq retries b att ms s :
  attempts retries b att ms s =
  let (s1, r) := attempt b att ms s in
  match r with
  | AOk => (handler_step s1, BWritten)
  | ABlocked => (s1, BBlocked)
  | AFail rem =>
      if (N.of_nat (List.length ms) <? rem)%N then (s1, BPanic) else
      let ms' := if (0 <? rem)%N then skipn (List.length ms - N.to_nat rem) ms else ms in
      let s2 := handler_step s1 in
      let s3 := emit (EAttemptFail b att (confirms s2) (List.length (queue s2))) s2 in
      match retries with
      | O => (emit (EGiveUp b) s3, BGiveUp)
      | S k => attempts k b (S att) ms' s3
      end
  end.
Proof. destruct retries; reflexivity. Qed.

Lemma attempts_sync n b : forall retries att k s s' r,
  sync s -> k <= n -> (forall m, m < k -> hc (tr s) b m) ->
  attempts retries b att (seq k (n - k)) s = (s', r) ->
  sync s' /\ extP (ev_ok b) s s' /\ (r = BWritten \/ r = BGiveUp) /\
  (r = BWritten -> forall m, m < n -> hc (tr s') b m).
Proof.
  induction retries as [|retries IH]; intros att k s s' r Hs Hk Hold H;
    rewrite attempts_eq in H;
    destruct (attempt b att (seq k (n - k)) s) as [s1 a] eqn:Ha;
    destruct (attempt_sync _ _ _ _ _ _ Hs Ha) as (S1 & E1 & Post);
    (destruct a as [|rem|]; [| |destruct Post]).
  1,3: (apply pair_equal_spec in H; destruct H as [<- <-];
        split; [apply sync_handler; assumption|];
        split; [eapply extP_trans; [exact E1|]; apply extP_same; apply handler_tr|];
        split; [left; reflexivity|]; intros _ m Hm; rewrite handler_tr;
        destruct (Nat.lt_ge_cases m k) as [Hlt|Hge];
        [eapply hc_mono; [exact E1|auto]|];
        simpl in Post; rewrite Forall_forall in Post; apply Post; apply in_seq; lia).
  all: simpl in Post; rewrite seq_length in Post, H; destruct Post as (Hle & Hpre);
    replace (N.of_nat (n - k) <? rem)%N with false in H by (symmetry; apply N.ltb_ge; lia);
    cbv zeta in H;
    set (s3 := emit (EAttemptFail b att (confirms (handler_step s1)) (List.length (queue (handler_step s1)))) (handler_step s1)) in *;
    assert (S3 : sync s3) by (apply sync_emit, sync_handler; assumption);
    assert (E13 : extP (ev_ok b) s1 s3)
      by (exists [EAttemptFail b att (confirms (handler_step s1)) (List.length (queue (handler_step s1)))];
          split; [simpl; rewrite handler_tr; reflexivity|constructor; [exact I|constructor]]);
    assert (E3 : extP (ev_ok b) s s3) by (eapply extP_trans; eauto).
  - apply pair_equal_spec in H. destruct H as [<- <-].
    split; [apply sync_emit; assumption|].
    split; [eapply extP_trans; [exact E3|]; apply extP_emit; exact I|].
    split; [right; reflexivity|discriminate].
  - set (j := if (0 <? rem)%N then n - k - N.to_nat rem else 0).
    assert (Hms : (if (0 <? rem)%N then skipn (n - k - N.to_nat rem) (seq k (n - k)) else seq k (n - k))
                  = seq (k + j) (n - (k + j))).
    { unfold j. destruct (0 <? rem)%N.
      - rewrite skipn_seq. f_equal. lia.
      - rewrite Nat.add_0_r. reflexivity. }
    rewrite Hms in H.
    destruct (IH (S att) (k + j) s3 s' r S3) as (I1 & I2 & I3 & I4); [unfold j; destruct (0 <? rem)%N; lia| |exact H|].
    + intros m Hm. destruct (Nat.lt_ge_cases m k) as [Hlt|Hge].
      * eapply hc_mono; [exact E3|auto].
      * unfold j in Hm. destruct (0 <? rem)%N eqn:Hr; [|lia].
        apply N.ltb_lt in Hr. specialize (Hpre Hr). rewrite Forall_forall in Hpre.
        assert (Hin : In m (firstn (n - k - N.to_nat rem) (seq k (n - k)))) by (apply in_firstn_seq; lia).
        specialize (Hpre _ Hin).
        eapply hc_mono; [exact E13|exact Hpre].
    + split; [assumption|]. split; [eapply extP_trans; eauto|]. split; assumption.
Qed.

Definition Wr (all : list nat) (t : list event) : Prop :=
  forall b cf q n m, In (EWritten b cf q) t -> nth_error all b = Some n -> m < n -> hc t b m.
Definition NC (t : list event) : Prop := forall c cur, In (ECons c cur) t -> c_b c = cur.

Lemma Wr_ext all b s s' : extP (ev_ok b) s s' -> Wr all (tr s) -> Wr all (tr s').
Proof.
  intros E W b' cf q n m Hin Hn Hm. destruct (extP_new _ _ _ _ E Hin) as [Hold|[]].
  eapply hc_mono; [exact E|]. eapply W; eauto.
Qed.

Lemma NC_ext b s s' : extP (ev_ok b) s s' -> NC (tr s) -> NC (tr s').
Proof.
  intros E N c cur Hin. destruct (extP_new _ _ _ _ E Hin) as [Hold|[H1 H2]]; [auto|congruence].
Qed.

Lemma run_sync retries all : forall sizes pre s s' f,
  all = pre ++ sizes -> sync s -> Wr all (tr s) -> NC (tr s) ->
  run_batches retries (List.length pre) sizes s = (s', f) ->
  Wr all (tr s') /\ NC (tr s') /\ (f = FDone \/ f = FTerminated).
Proof.
  induction sizes as [|n rest IH]; intros pre s s' f Hall Hs W N H; simpl in H.
  - inversion H; subst. auto.
  - set (b := List.length pre) in *.
    destruct (attempts retries b 0 (seq 0 n) s) as [s1 res] eqn:Ha.
    replace (seq 0 n) with (seq 0 (n - 0)) in Ha by (rewrite Nat.sub_0_r; reflexivity).
    destruct (attempts_sync n b retries 0 0 s s1 res Hs) as (S1 & E1 & Hres & Hhc); [lia|intros; lia|exact Ha|].
    pose proof (Wr_ext _ _ _ _ E1 W) as W1. pose proof (NC_ext _ _ _ E1 N) as N1.
    destruct res; try (destruct Hres; discriminate); try (inversion H; subst; auto; fail).
    specialize (Hhc eq_refl).
    set (s2 := emit (EWritten b (confirms s1) (List.length (queue s1))) s1) in *.
    assert (E2 : extP (fun e => e = EWritten b (confirms s1) (List.length (queue s1))) s1 s2)
      by (apply extP_emit; reflexivity).
    apply (IH (pre ++ [n]) s2 s' f).
    + rewrite <- app_assoc. assumption.
    + apply sync_emit. assumption.
    + intros b' cf q n' m Hin Hn Hm. eapply hc_mono; [exact E2|].
      destruct Hin as [Heq|Hin].
      * inversion Heq; subst b'. rewrite Hall in Hn. unfold b in Hn.
        rewrite nth_error_app2, Nat.sub_diag in Hn by lia. simpl in Hn. inversion Hn; subst n'. auto.
      * eapply W1; eauto.
    + intros c cur [Heq|Hin]; [discriminate|auto].
    + rewrite app_length. simpl. rewrite Nat.add_1_r. exact H.
Qed.

(* Under the restriction "every broker-side failure closes the channel" both halves of C13 hold,
   for every retry budget, batch sequence, publish script and channel-opening script. *)
Theorem written_confirmed_partial retries sizes ps ss :
  closure_only ps = true ->
  (forall b cf q n m, In (EWritten b cf q) (trace retries sizes ps ss) ->
     nth_error sizes b = Some n -> m < n -> confirmed_in (trace retries sizes ps ss) b m) /\
  (forall c cur, In (ECons c cur) (trace retries sizes ps ss) -> c_b c = cur).
Proof.
  intros Hsafe.
  assert (HWN : Wr sizes (trace retries sizes ps ss) /\ NC (trace retries sizes ps ss)).
  { unfold trace, run. destruct (run_batches retries 0 sizes (init_st ps ss)) as [s f] eqn:H. simpl.
    destruct (run_sync retries sizes sizes [] (init_st ps ss) s f eq_refl) as (W & N & _); try assumption.
    - split; [exact Hsafe|]. split; simpl; [discriminate|intros _; discriminate].
    - intros b cf q n m [].
    - intros c cur [].
    - split.
      + intros b cf q n m Hin Hn Hm. rewrite <- in_rev in Hin.
        destruct (W b cf q n m Hin Hn Hm) as (c & Hc & R). exists c. rewrite <- in_rev. auto.
      + intros c cur Hin. rewrite <- in_rev in Hin. auto. }
  destruct HWN as [W N]. split; [|exact N].
  intros b cf q n m Hin Hn Hm. destruct (W b cf q n m Hin Hn Hm) as (c & Hc & Ha & Hb & Hmm).
  exists c. repeat split; try assumption. eapply ghost_sound; eauto.
Qed.

(* ... and the worker neither blocks for ever nor panics on a slice bound *)
Theorem closure_only_ends retries sizes ps ss :
  closure_only ps = true ->
  snd (run retries sizes ps ss) = FDone \/ snd (run retries sizes ps ss) = FTerminated.
Proof.
  intros Hsafe. unfold run. destruct (run_batches retries 0 sizes (init_st ps ss)) as [s f] eqn:H. simpl.
  destruct (run_sync retries sizes sizes [] (init_st ps ss) s f eq_refl) as (_ & _ & F); try assumption.
  - split; [exact Hsafe|]. split; simpl; [discriminate|intros _; discriminate].
  - intros b cf q n m [].
  - intros c cur [].
Qed.

(* routing key and persistence: what the model hands to Channel.Publish *)
Theorem routing_key_fact exch retries bs ps ss o :
  In o (fst (observe exch retries bs ps ss)) ->
  match o with
  | OPub _ _ e key body mode | OPubErr _ e key body mode =>
      e = exch /\ mode = persistent /\
      exists x, key = (m_table x ++ "." ++ m_op x)%string /\ body = m_body x
  | _ => True
  end.
Proof.
  unfold observe. destruct (run retries (map (@List.length msg) bs) ps ss) as [s f]. simpl.
  intros H. apply in_flat_map in H. destruct H as (e & _ & He).
  destruct e; simpl in He; try (destruct He as [<-|[]]; try exact I; repeat split; eexists; split; reflexivity).
  destruct He.
Qed.
