(* RabbitProofs.v — lemmas about model/Rabbit.v (confirmation accounting of the RabbitMQ worker). *)
From Bifrost.model Require Import Base Rabbit.

(* ====================================================================================== *)
(* 1. Reading of a trace                                                                    *)
(* ====================================================================================== *)

(* the publish a confirmation answers, as an event *)
Definition pub_of (c : conf) : event :=
  EPub (c_chan c) (c_tag c) (c_b c) (c_m c) (c_att c) (Some (c_ack c)).

(* message m of batch b was positively confirmed to the worker while it worked on b: it read an
   ack which answers a publish of (b, m) made for b, and that publish is in the trace *)
Definition confirmed_in (t : list event) (b m : nat) : Prop :=
  exists c, In (ECons c b) t /\ c_ack c = true /\ c_b c = b /\ c_m c = m /\ In (pub_of c) t.

(* FULL STATEMENTS of property C13 over the model (all retry budgets, batch sequences, broker
   scripts).  Both are refuted on the faithful model (finding F8). *)
Definition written_confirmed_statement : Prop :=
  forall retries sizes ps ss b cf q n m,
    In (EWritten b cf q) (trace retries sizes ps ss) ->
    nth_error sizes b = Some n -> m < n ->
    confirmed_in (trace retries sizes ps ss) b m.

Definition no_cross_counting_statement : Prop :=
  forall retries sizes ps ss c cur,
    In (ECons c cur) (trace retries sizes ps ss) -> c_b c = cur.

(* the restriction under which both hold: every failure the broker produces closes the channel
   (a nack or a publish error never leaves the channel open) *)
Definition safe_act (a : pact) : bool :=
  match a with
  | PConf ack cl => ack || cl
  | PErr cl => cl
  | PSilentClose => true
  end.
Definition closure_only (ps : list pact) : bool := forallb safe_act ps.

(* ---- boolean readings agree with the propositions (used by the refutations) ---- *)
Lemma confirmed_in_bool t b m : confirmed_in t b m -> consumed_ack_in t b m = true.
Proof.
  intros (c & Hin & Ha & Hb & Hm & _). unfold consumed_ack_in. apply existsb_exists.
  exists (ECons c b). split; [assumption|]. simpl. rewrite Ha, Hb, Hm, !Nat.eqb_refl. reflexivity.
Qed.

Lemma cross_counted_bool t : cross_counted_in t = true -> exists c cur, In (ECons c cur) t /\ c_b c <> cur.
Proof.
  unfold cross_counted_in. intros H. apply existsb_exists in H. destruct H as (e & Hin & He).
  destruct e; try discriminate. exists c, cur. split; [assumption|].
  apply negb_true_iff, Nat.eqb_neq in He. assumption.
Qed.

(* ====================================================================================== *)
(* 2. Refutation witnesses (finding F8)                                                     *)
(* ====================================================================================== *)

(* batch m0 m1 m2; broker: ack tag 1, nack tag 2, ack tag 3; the republished m1, m2 (tags 4, 5)
   are both nacked.  The worker reads ack 1, nack 2, republishes the suffix, then reads the OLD
   ack 3 and reports the batch. *)
Definition f8_script : list pact :=
  [PConf true false; PConf false false; PConf true false; PConf false false; PConf false false].

Lemma f8_written_unconfirmed :
  let t := trace 3 [3] f8_script [] in
  In (EWritten 0 3 2) t /\ acked_pub_in t 0 1 = false /\ consumed_ack_in t 0 1 = false.
Proof. vm_compute. split; [|split]; auto 20. Qed.

Lemma written_confirmed_refuted : ~ written_confirmed_statement.
Proof.
  intros H. destruct f8_written_unconfirmed as (Hw & _ & Hc).
  specialize (H 3 [3] f8_script [] 0 3%N 2 3 1 Hw eq_refl ltac:(lia)).
  apply confirmed_in_bool in H. rewrite Hc in H. discriminate.
Qed.

(* same start, but the republishes (tags 4, 5) are acked; a second batch of one message (tag 6)
   is nacked: the worker counts the stale ack of tag 4 for it and reports it written. *)
Definition f8_script2 : list pact :=
  [PConf true false; PConf false false; PConf true false; PConf true false; PConf true false;
   PConf false false].

Lemma f8_cross_counted :
  let t := trace 3 [3; 1] f8_script2 [] in
  cross_counted_in t = true /\ In (EWritten 1 4 2) t /\ acked_pub_in t 1 0 = false.
Proof. vm_compute. split; [|split]; auto 30. Qed.

Lemma no_cross_counting_refuted : ~ no_cross_counting_statement.
Proof.
  intros H. destruct f8_cross_counted as (Hc & _).
  apply cross_counted_bool in Hc. destruct Hc as (c & cur & Hin & Hne).
  apply Hne. eapply H. exact Hin.
Qed.

(* a publish error that leaves the channel open has the same effect: m0 (tag 1) acked, m1's
   Publish fails, the whole batch is republished (tags 2, 3, 4), tag 4 (m2) is nacked; the worker
   reads acks 1, 2, 3 and reports the batch. *)
Definition f8_script3 : list pact :=
  [PConf true false; PErr false; PConf true false; PConf true false; PConf false false].

Lemma f8_publish_error :
  let t := trace 3 [3] f8_script3 [] in
  In (EWritten 0 3 1) t /\ acked_pub_in t 0 2 = false.
Proof. vm_compute. split; auto 20. Qed.
