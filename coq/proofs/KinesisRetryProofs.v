(* KinesisRetryProofs.v — lemmas about model/KinesisRetry.v (property C11). *)
From Bifrost.model Require Import Base KinesisRetry.

(* ================= specification-side vocabulary (independent of the model's functions) ================= *)

Inductive Subseq {A : Type} : list A -> list A -> Prop :=
| sub_nil : forall l, Subseq [] l
| sub_keep : forall x s l, Subseq s l -> Subseq (x :: s) (x :: l)
| sub_skip : forall x s l, Subseq s l -> Subseq s (x :: l).

(* records of a request whose response entry carries an error code / carries none.  A record
   without a response entry (response shorter than the request) is in neither list. *)
Definition failed_ids (recs : list N) (codes : list bool) : list N :=
  map fst (filter (fun p => snd p) (combine recs codes)).
Definition ok_ids (recs : list N) (codes : list bool) : list N :=
  map fst (filter (fun p => negb (snd p)) (combine recs codes)).

(* the records PutRecords accepted in one call: err == nil and no ErrorCode at the record's index *)
Definition accepted_ids (c : call) : list N :=
  match snd c with Resp _ codes => ok_ids (fst c) codes | _ => [] end.

(* what C11 prescribes as the next request after a call that has to be retried *)
Definition next_request (c : call) : list N :=
  match snd c with Resp _ codes => failed_ids (fst c) codes | _ => fst c end.

(* the code's own success test: err == nil && *FailedRecordCount == 0 *)
Definition call_failed (c : call) : bool :=
  match snd c with Resp cnt _ => negb (cnt =? 0)%N | _ => true end.

(* AWS PutRecords response contract (API reference: "FailedRecordCount: the number of
   unsuccessfully processed records"; "Records: ... includes both successfully and unsuccessfully
   processed records ... in the same order as the request"): one entry per request record and the
   count is the number of entries with an ErrorCode.  Whole-call errors are AWS/SDK errors, never
   backoff.PermanentError; a nil FailedRecordCount is not a response. *)
Definition resp_wf (c : call) : bool :=
  match snd c with
  | Resp cnt codes => Nat.eqb (List.length codes) (List.length (fst c)) &&
                      (cnt =? N.of_nat (List.length (filter (fun b : bool => b) codes)))%N
  | WholeErr p => negb p
  | NilResp => false
  end.

(* shutdown was requested at a moment at which the batch was not yet fully accepted: before the
   first attempt, or while a call that turned out failed was in flight *)
Definition shutdown_while_unaccepted (ctx : bool) (script : list step) (tr : list call) : Prop :=
  ctx = true \/
  exists i c s, nth_error tr i = Some c /\ nth_error script i = Some s /\
                call_failed c = true /\ s_cancel s = true.

(* shutdown was requested before or during the part of the script that was consumed *)
Definition shutdown_requested (ctx : bool) (script : list step) (tr : list call) : Prop :=
  ctx = true \/
  exists i s, i < List.length tr /\ nth_error script i = Some s /\ s_cancel s = true.

(* ================= list facts ================= *)

Lemma Subseq_refl {A} (l : list A) : Subseq l l.
Proof. induction l; constructor; auto. Qed.

Lemma Subseq_trans {A} (a b c : list A) : Subseq a b -> Subseq b c -> Subseq a c.
Proof.
  intros H1 H2. revert a H1. induction H2 as [l|x s l H2 IH|x s l H2 IH]; intros a H1.
  - inversion H1; subst. constructor.
  - inversion H1; subst.
    + constructor.
    + apply sub_keep. auto.
    + apply sub_skip. auto.
  - apply sub_skip. auto.
Qed.

Lemma Subseq_In {A} (a b : list A) x : Subseq a b -> In x a -> In x b.
Proof.
  induction 1 as [l|y s l H IH|y s l H IH]; simpl; intros Hin.
  - contradiction.
  - destruct Hin; auto.
  - auto.
Qed.

Lemma Subseq_NoDup {A} (a b : list A) : Subseq a b -> NoDup b -> NoDup a.
Proof.
  induction 1 as [l|y s l H IH|y s l H IH]; intros Hn.
  - constructor.
  - inversion Hn; subst. constructor; auto. intros Hin. eapply Subseq_In in Hin; eauto.
  - inversion Hn; subst. auto.
Qed.

Lemma nth_short {A} (l : list A) k x : nth_error l (S k) = Some x -> List.length l <= 1 -> False.
Proof. destruct l as [|a [|b l]]; simpl; intros H Hl; try discriminate; [destruct k; discriminate|lia]. Qed.

Lemma keep_failed_spec recs codes : keep_failed recs codes = failed_ids recs codes.
Proof.
  unfold failed_ids. revert codes. induction recs as [|r rs IH]; intros [|c cs]; simpl; auto.
  destruct c; simpl; rewrite IH; reflexivity.
Qed.

Lemma failed_ids_subseq recs codes : Subseq (failed_ids recs codes) recs.
Proof.
  unfold failed_ids. revert codes. induction recs as [|r rs IH]; intros [|c cs]; simpl;
    try (now constructor).
  destruct c; simpl; constructor; apply IH.
Qed.

Lemma ok_ids_subseq recs codes : Subseq (ok_ids recs codes) recs.
Proof.
  unfold ok_ids. revert codes. induction recs as [|r rs IH]; intros [|c cs]; simpl;
    try (now constructor).
  destruct c; simpl; constructor; apply IH.
Qed.

(* with one response entry per record, every record is either accepted or failed *)
Lemma failed_or_ok recs codes r :
  List.length recs = List.length codes -> In r recs ->
  In r (failed_ids recs codes) \/ In r (ok_ids recs codes).
Proof.
  unfold failed_ids, ok_ids. revert codes.
  induction recs as [|a rs IH]; intros [|c cs] Hl Hin; simpl in *; try contradiction; try discriminate.
  injection Hl as Hl. destruct Hin as [->|Hin].
  - destruct c; simpl; auto.
  - destruct (IH cs Hl Hin); destruct c; simpl; auto.
Qed.

Lemma ok_ids_cons a rs c cs : ok_ids (a :: rs) (c :: cs) = if c then ok_ids rs cs else a :: ok_ids rs cs.
Proof. unfold ok_ids. simpl. destruct c; reflexivity. Qed.
Lemma failed_ids_cons a rs c cs :
  failed_ids (a :: rs) (c :: cs) = if c then a :: failed_ids rs cs else failed_ids rs cs.
Proof. unfold failed_ids. simpl. destruct c; reflexivity. Qed.

(* ... and not both, when ids are distinct *)
Lemma ok_not_failed recs codes r :
  NoDup recs -> In r (ok_ids recs codes) -> ~ In r (failed_ids recs codes).
Proof.
  revert codes. induction recs as [|a rs IH]; intros [|c cs] Hn Hok; try (intros []; fail).
  inversion Hn as [|? ? Ha Hn']; subst.
  pose proof (ok_ids_subseq rs cs) as Sok. pose proof (failed_ids_subseq rs cs) as Sf.
  rewrite ok_ids_cons in Hok. rewrite failed_ids_cons. destruct c.
  - intros [<-|Hf].
    + apply Ha. exact (Subseq_In _ _ _ Sok Hok).
    + exact (IH cs Hn' Hok Hf).
  - destruct Hok as [<-|Hok].
    + intros Hf. apply Ha. exact (Subseq_In _ _ _ Sf Hf).
    + exact (IH cs Hn' Hok).
Qed.

Lemma ok_ids_all recs codes :
  List.length codes = List.length recs -> filter (fun b : bool => b) codes = [] -> ok_ids recs codes = recs.
Proof.
  unfold ok_ids. revert codes. induction recs as [|a rs IH]; intros [|c cs] Hl Hf; simpl in *; try discriminate; auto.
  destruct c; simpl in *; [discriminate|]. f_equal. apply IH; auto.
Qed.

(* ================= the runs of [retry] as an inductive relation ================= *)

(* a failed call after which Retry may go round again, and pri.Records for the next attempt *)
Definition retry_next (recs : list N) (o : outcome) : option (list N) :=
  match o with
  | WholeErr false => Some recs
  | Resp cnt codes => if negb (cnt =? 0)%N && Nat.eqb (List.length recs) (List.length codes)
                      then Some (keep_failed recs codes) else None
  | _ => None
  end.

Inductive RetryRun (n : N) : N -> bool -> list N -> list step -> list call -> rresult -> bool -> Prop :=
| RR_cancel : forall t recs script, RetryRun n t true recs script [] RCancelled true
| RR_pending : forall t recs, RetryRun n t false recs [] [] RPending false
| RR_ok : forall t recs codes cn rest,
    RetryRun n t false recs (mkStep (Resp 0 codes) cn :: rest) [(recs, Resp 0 codes)] RWritten cn
| RR_stop : forall t recs s rest res,
    call_failed (recs, s_out s) = true ->
    res = RExhausted \/ res = RPermanent \/ res = RPanic ->
    RetryRun n t false recs (s :: rest) [(recs, s_out s)] res (s_cancel s)
| RR_retry : forall t recs s rest recs' tr res cx,
    next_stop n t = false ->
    retry_next recs (s_out s) = Some recs' ->
    RetryRun n (t + 1) (s_cancel s) recs' rest tr res cx ->
    RetryRun n t false recs (s :: rest) ((recs, s_out s) :: tr) res cx.

Lemma retry_run n : forall script t ctx recs tr res cx,
  retry n t ctx recs script = (tr, res, cx) -> RetryRun n t ctx recs script tr res cx.
Proof.
  induction script as [|s rest IH]; intros t ctx recs tr res cx H; destruct ctx; simpl in H;
    try (inversion H; subst; constructor).
  destruct s as [o cn]. simpl in H.
  destruct o as [p|cnt codes|]; simpl in H.
  - destruct p.
    + injection H as <- <- <-. apply (RR_stop n t recs (mkStep (WholeErr true) cn)); auto.
    + destruct (next_stop n t) eqn:Hs.
      * injection H as <- <- <-. apply (RR_stop n t recs (mkStep (WholeErr false) cn)); auto.
      * destruct (retry n (t + 1) cn recs rest) as [[tr' res'] cx'] eqn:Hr. injection H as <- <- <-.
        apply (RR_retry n t recs (mkStep (WholeErr false) cn) rest recs); auto.
  - destruct (cnt =? 0)%N eqn:Hc.
    + apply N.eqb_eq in Hc. subst cnt. injection H as <- <- <-. constructor.
    + destruct (Nat.eqb (List.length recs) (List.length codes)) eqn:Hl; simpl in H.
      * destruct (next_stop n t) eqn:Hs.
        -- injection H as <- <- <-. apply (RR_stop n t recs (mkStep (Resp cnt codes) cn)); auto.
           unfold call_failed; simpl. now rewrite Hc.
        -- destruct (retry n (t + 1) cn (keep_failed recs codes) rest) as [[tr' res'] cx'] eqn:Hr.
           injection H as <- <- <-.
           apply (RR_retry n t recs (mkStep (Resp cnt codes) cn) rest (keep_failed recs codes)); auto.
           simpl. now rewrite Hc, Hl.
      * injection H as <- <- <-. apply (RR_stop n t recs (mkStep (Resp cnt codes) cn)); auto.
        unfold call_failed; simpl. now rewrite Hc.
  - injection H as <- <- <-. apply (RR_stop n t recs (mkStep NilResp cn)); auto.
Qed.

(* what [retry_next] says about the failed call *)
Lemma retry_next_inv recs o recs' : retry_next recs o = Some recs' ->
  call_failed (recs, o) = true /\ recs' = next_request (recs, o) /\ Subseq recs' recs /\
  ((o = WholeErr false /\ recs' = recs) \/
   (exists cnt codes, o = Resp cnt codes /\ cnt <> 0%N /\ List.length recs = List.length codes /\
                      recs' = failed_ids recs codes)).
Proof.
  destruct o as [[|]|cnt codes|]; simpl; try discriminate.
  - intros H; inversion H; subst. repeat split; auto using Subseq_refl.
  - destruct (cnt =? 0)%N eqn:Hc; simpl; [discriminate|].
    destruct (Nat.eqb (List.length recs) (List.length codes)) eqn:Hl; [|discriminate].
    intros H; inversion H; subst. apply Nat.eqb_eq in Hl. apply N.eqb_neq in Hc.
    unfold call_failed, next_request; simpl. rewrite keep_failed_spec.
    repeat split; auto using failed_ids_subseq.
    + apply negb_true_iff. now apply N.eqb_neq.
    + right. exists cnt, codes. auto.
Qed.

(* ================= per-batch theorems ================= *)

Lemma run_cancelled_start n t recs script tr res cx :
  RetryRun n t true recs script tr res cx -> tr = [] /\ res = RCancelled /\ cx = true.
Proof. intros H; inversion H; auto. Qed.

(* ---- written => every record accepted in some call ---- *)
Lemma run_written_all_accepted n t ctx recs script tr res cx :
  RetryRun n t ctx recs script tr res cx -> res = RWritten -> forallb resp_wf tr = true ->
  forall r, In r recs -> exists c, In c tr /\ In r (accepted_ids c).
Proof.
  induction 1 as [t recs script|t recs|t recs codes cn rest|t recs s rest res Hf Hres
                  |t recs s rest recs' tr res cx Hs Hn Hrun IH]; intros Hw Hwf r Hin; try discriminate.
  - (* success: count 0, and by well-formedness one entry per record, none with a code *)
    cbn [forallb] in Hwf. rewrite andb_true_r in Hwf. unfold resp_wf in Hwf. cbn [snd fst] in Hwf.
    apply andb_true_iff in Hwf. destruct Hwf as [Hl Hc].
    apply Nat.eqb_eq in Hl. apply N.eqb_eq in Hc.
    assert (Hnil : filter (fun b : bool => b) codes = []).
    { destruct (filter (fun b : bool => b) codes); [reflexivity|simpl in Hc; lia]. }
    exists (recs, Resp 0 codes). split; [now left|].
    unfold accepted_ids; simpl. rewrite ok_ids_all; auto.
  - destruct Hres as [-> | [-> | ->]]; discriminate.
  - simpl in Hwf. apply andb_true_iff in Hwf. destruct Hwf as [_ Hwf].
    destruct (retry_next_inv _ _ _ Hn) as (_ & _ & _ & [[Ho ->]|(cnt & codes & Ho & Hc & Hl & ->)]).
    + destruct (IH Hw Hwf r Hin) as (c & Hc & Ha). exists c. split; [now right|assumption].
    + destruct (failed_or_ok recs codes r Hl Hin) as [Hfl|Hok].
      * destruct (IH Hw Hwf r Hfl) as (c & Hc' & Ha). exists c. split; [now right|assumption].
      * exists (recs, s_out s). split; [now left|]. unfold accepted_ids; simpl. now rewrite Ho.
Qed.

(* ---- retry exactness ---- *)
Lemma run_head n t ctx recs script tr res cx :
  RetryRun n t ctx recs script tr res cx -> forall c tl, tr = c :: tl -> fst c = recs.
Proof. intros H; inversion H; subst; intros c tl E; inversion E; reflexivity. Qed.

Lemma run_next n t ctx recs script tr res cx :
  RetryRun n t ctx recs script tr res cx ->
  forall k c1 c2, nth_error tr k = Some c1 -> nth_error tr (S k) = Some c2 ->
                  call_failed c1 = true /\ fst c2 = next_request c1.
Proof.
  induction 1 as [t recs script|t recs|t recs codes cn rest|t recs s rest res Hf Hres
                  |t recs s rest recs' tr res cx Hs Hn Hrun IH]; intros k c1 c2 H1 H2;
    try (exfalso; exact (nth_short _ _ _ H2 ltac:(simpl; lia))).
  destruct k as [|k].
  - simpl in H1, H2. inversion H1; subst c1. destruct tr as [|c tl]; [discriminate|].
    simpl in H2. inversion H2; subst c2.
    destruct (retry_next_inv _ _ _ Hn) as (Hcf & Hnx & _).
    split; [assumption|]. rewrite <- Hnx. eapply run_head; eauto.
  - simpl in H1, H2. eapply IH; eauto.
Qed.

Lemma run_subseq n t ctx recs script tr res cx :
  RetryRun n t ctx recs script tr res cx -> forall c, In c tr -> Subseq (fst c) recs.
Proof.
  induction 1 as [t recs script|t recs|t recs codes cn rest|t recs s rest res Hf Hres
                  |t recs s rest recs' tr res cx Hs Hn Hrun IH]; intros c Hin; simpl in Hin;
    try contradiction.
  - destruct Hin as [<-|[]]. apply Subseq_refl.
  - destruct Hin as [<-|[]]. apply Subseq_refl.
  - destruct Hin as [<-|Hin]; [apply Subseq_refl|].
    destruct (retry_next_inv _ _ _ Hn) as (_ & _ & Hsub & _).
    eapply Subseq_trans; eauto.
Qed.

(* ---- a record accepted in a call is in no later call ---- *)
Lemma run_accepted_not_resent n t ctx recs script tr res cx :
  RetryRun n t ctx recs script tr res cx -> NoDup recs ->
  forall j k cj ck r, nth_error tr j = Some cj -> In r (accepted_ids cj) -> j < k ->
                      nth_error tr k = Some ck -> ~ In r (fst ck).
Proof.
  induction 1 as [t recs script|t recs|t recs codes cn rest|t recs s rest res Hf Hres
                  |t recs s rest recs' tr res cx Hs Hn Hrun IH]; intros Hnd j k cj ck r Hj Ha Hlt Hk;
    try (exfalso; destruct k as [|k]; [lia|]; exact (nth_short _ _ _ Hk ltac:(simpl; lia))).
  destruct (retry_next_inv _ _ _ Hn) as (_ & _ & Hsub & Hshape).
  destruct k as [|k]; [lia|]. simpl in Hk.
  assert (Hck : Subseq (fst ck) recs').
  { eapply run_subseq; eauto. eapply nth_error_In; eauto. }
  destruct j as [|j].
  - simpl in Hj. inversion Hj; subst cj. unfold accepted_ids in Ha; simpl in Ha.
    destruct Hshape as [[Ho _]|(cnt & codes & Ho & _ & _ & ->)]; rewrite Ho in Ha; [contradiction|].
    intros Hin. apply (ok_not_failed recs codes r Hnd Ha). exact (Subseq_In _ _ _ Hck Hin).
  - simpl in Hj. apply (IH (Subseq_NoDup _ _ Hsub Hnd) j k cj ck r Hj Ha ltac:(lia) Hk).
Qed.

(* ---- the attempt bound of backoff.WithMaxRetries(_, n): at most n+1 calls ---- *)
Lemma run_length n t ctx recs script tr res cx :
  RetryRun n t ctx recs script tr res cx -> List.length tr <= S (N.to_nat (n - t)).
Proof.
  induction 1 as [t recs script|t recs|t recs codes cn rest|t recs s rest res Hf Hres
                  |t recs s rest recs' tr res cx Hs Hn Hrun IH]; simpl; try lia.
  unfold next_stop in Hs. apply orb_false_iff in Hs. destruct Hs as [H0 Hle].
  apply N.eqb_neq in H0. apply N.leb_gt in Hle. lia.
Qed.

(* ---- written: all calls but the last failed, the last succeeded ---- *)
Lemma run_written_shape n t ctx recs script tr res cx :
  RetryRun n t ctx recs script tr res cx -> res = RWritten ->
  exists tr0 c, tr = tr0 ++ [c] /\ call_failed c = false /\ forallb call_failed tr0 = true.
Proof.
  induction 1 as [t recs script|t recs|t recs codes cn rest|t recs s rest res Hf Hres
                  |t recs s rest recs' tr res cx Hs Hn Hrun IH]; intros Hw; try discriminate.
  - exists [], (recs, Resp 0 codes). auto.
  - destruct Hres as [-> | [-> | ->]]; discriminate.
  - destruct (IH Hw) as (tr0 & c & -> & Hc & Hall).
    destruct (retry_next_inv _ _ _ Hn) as (Hcf & _).
    exists ((recs, s_out s) :: tr0), c. simpl. rewrite Hcf, Hall. auto.
Qed.

Lemma run_not_written_all_failed n t ctx recs script tr res cx :
  RetryRun n t ctx recs script tr res cx -> res <> RWritten -> forallb call_failed tr = true.
Proof.
  induction 1 as [t recs script|t recs|t recs codes cn rest|t recs s rest res Hf Hres
                  |t recs s rest recs' tr res cx Hs Hn Hrun IH]; intros Hw; cbn [forallb]; auto;
    try (exfalso; apply Hw; reflexivity).
  - now rewrite Hf.
  - destruct (retry_next_inv _ _ _ Hn) as (Hcf & _). rewrite Hcf. simpl. auto.
Qed.

Lemma filter_all {A} (f : A -> bool) l : forallb f l = true -> filter f l = l.
Proof. induction l as [|a l IH]; simpl; auto. intros H. apply andb_true_iff in H. destruct H as [-> H]. f_equal; auto. Qed.

Lemma run_written_failed_count n t ctx recs script tr res cx :
  RetryRun n t ctx recs script tr res cx -> res = RWritten ->
  S (List.length (filter call_failed tr)) = List.length tr.
Proof.
  intros H Hw. destruct (run_written_shape _ _ _ _ _ _ _ _ H Hw) as (tr0 & c & -> & Hc & Hall).
  rewrite filter_app, !app_length. simpl. rewrite Hc. simpl. rewrite filter_all by assumption. lia.
Qed.

(* ---- shutdown requested while the batch is not fully accepted => not written ---- *)
Lemma run_shutdown_not_written n t ctx recs script tr res cx :
  RetryRun n t ctx recs script tr res cx -> shutdown_while_unaccepted ctx script tr -> res <> RWritten.
Proof.
  unfold shutdown_while_unaccepted.
  induction 1 as [t recs script|t recs|t recs codes cn rest|t recs s rest res Hf Hres
                  |t recs s rest recs' tr res cx Hs Hn Hrun IH]; intros Hsd; try discriminate.
  - destruct Hsd as [Hc|(i & c & s & Hi & Hsi & Hcf & Hcn)]; [discriminate|].
    destruct i as [|i]; [|destruct i; discriminate]. simpl in Hi. inversion Hi; subst c. discriminate.
  - destruct Hres as [-> | [-> | ->]]; discriminate.
  - apply IH. destruct Hsd as [Hc|(i & c & s' & Hi & Hsi & Hcf & Hcn)]; [discriminate|].
    destruct i as [|i].
    + simpl in Hsi. inversion Hsi; subst s'. now left.
    + right. exists i, c, s'. auto.
Qed.

(* ---- no call is made after shutdown was requested ---- *)
Lemma run_no_call_after_shutdown n t ctx recs script tr res cx :
  RetryRun n t ctx recs script tr res cx ->
  (ctx = true -> tr = []) /\
  forall i s, nth_error script i = Some s -> S i < List.length tr -> s_cancel s = false.
Proof.
  induction 1 as [t recs script|t recs|t recs codes cn rest|t recs s rest res Hf Hres
                  |t recs s rest recs' tr res cx Hs Hn Hrun IH]; (split; [intros; try discriminate; auto|]);
    intros i s0 Hi Hlt; simpl in Hlt; try lia.
  destruct IH as [IH0 IH1]. destruct i as [|i].
  - simpl in Hi. inversion Hi; subst s0. destruct (s_cancel s) eqn:Hc; auto.
    rewrite (IH0 eq_refl) in Hlt. simpl in Hlt. lia.
  - simpl in Hi. apply (IH1 i s0 Hi). lia.
Qed.

(* ---- the cancellation state handed back to the transporter loop ---- *)
Lemma run_shutdown_final n t ctx recs script tr res cx :
  RetryRun n t ctx recs script tr res cx -> shutdown_requested ctx script tr -> cx = true.
Proof.
  unfold shutdown_requested.
  induction 1 as [t recs script|t recs|t recs codes cn rest|t recs s rest res Hf Hres
                  |t recs s rest recs' tr res cx Hs Hn Hrun IH]; intros Hsd; auto.
  - destruct Hsd as [Hc|(i & s & Hi & _)]; [discriminate|simpl in Hi; lia].
  - destruct Hsd as [Hc|(i & s & Hi & Hsi & Hcn)]; [discriminate|].
    simpl in Hi. destruct i; [|lia]. simpl in Hsi. inversion Hsi; subst s. assumption.
  - destruct Hsd as [Hc|(i & s' & Hi & Hsi & Hcn)]; [discriminate|].
    simpl in Hi. destruct i; [|lia]. simpl in Hsi. inversion Hsi; subst s'. assumption.
  - apply IH. destruct Hsd as [Hc|(i & s' & Hi & Hsi & Hcn)]; [discriminate|].
    destruct i as [|i].
    + simpl in Hsi. inversion Hsi; subst s'. now left.
    + right. exists i, s'. simpl in Hi. repeat split; auto. lia.
Qed.

Lemma run_cancelled_final n t ctx recs script tr res cx :
  RetryRun n t ctx recs script tr res cx -> res = RCancelled -> cx = true.
Proof.
  induction 1 as [t recs script|t recs|t recs codes cn rest|t recs s rest res Hf Hres
                  |t recs s rest recs' tr res cx Hs Hn Hrun IH]; intros Hr; auto; try discriminate.
  destruct Hres as [-> | [-> | ->]]; discriminate.
Qed.

(* ================= statements about [retry] itself ================= *)

Theorem kinesis_written_all_accepted : forall n ctx recs script tr cx,
  transport_with_retry n ctx recs script = (tr, RWritten, cx) ->
  forallb resp_wf tr = true ->
  forall r, In r recs -> exists c, In c tr /\ In r (accepted_ids c).
Proof.
  intros n ctx recs script tr cx H. apply retry_run in H.
  eapply run_written_all_accepted; eauto.
Qed.

Theorem kinesis_retry_exact : forall n ctx recs script tr res cx,
  transport_with_retry n ctx recs script = (tr, res, cx) ->
  (forall c tl, tr = c :: tl -> fst c = recs) /\
  (forall k c1 c2, nth_error tr k = Some c1 -> nth_error tr (S k) = Some c2 ->
                   call_failed c1 = true /\ fst c2 = next_request c1) /\
  (forall c, In c tr -> Subseq (fst c) recs).
Proof.
  intros n ctx recs script tr res cx H. apply retry_run in H. split; [|split].
  - eapply run_head; eauto.
  - eapply run_next; eauto.
  - eapply run_subseq; eauto.
Qed.

Theorem kinesis_accepted_not_resent : forall n ctx recs script tr res cx,
  transport_with_retry n ctx recs script = (tr, res, cx) -> NoDup recs ->
  forall j k cj ck r, nth_error tr j = Some cj -> In r (accepted_ids cj) -> j < k ->
                      nth_error tr k = Some ck -> ~ In r (fst ck).
Proof.
  intros n ctx recs script tr res cx H. apply retry_run in H.
  eapply run_accepted_not_resent; eauto.
Qed.

Theorem kinesis_attempts_bounded : forall n ctx recs script tr res cx,
  transport_with_retry n ctx recs script = (tr, res, cx) -> List.length tr <= S (N.to_nat n).
Proof.
  intros n ctx recs script tr res cx H. apply retry_run in H.
  apply run_length in H. rewrite N.sub_0_r in H. assumption.
Qed.

Theorem kinesis_written_iff : forall n ctx recs script tr res cx,
  transport_with_retry n ctx recs script = (tr, res, cx) ->
  (res = RWritten <-> exists tr0 c, tr = tr0 ++ [c] /\ call_failed c = false) /\
  (forall tr0 c, tr = tr0 ++ [c] -> forallb call_failed tr0 = true).
Proof.
  intros n ctx recs script tr res cx H. apply retry_run in H. split; [split|].
  - intros Hw. destruct (run_written_shape _ _ _ _ _ _ _ _ H Hw) as (tr0 & c & E & Hc & _). eauto.
  - intros (tr0 & c & E & Hc). destruct res; try reflexivity; exfalso;
      (assert (Hall : forallb call_failed tr = true) by (eapply run_not_written_all_failed; eauto; discriminate));
      subst tr; rewrite forallb_app in Hall; simpl in Hall; rewrite Hc in Hall;
      rewrite andb_false_r in Hall; discriminate.
  - intros tr0 c E. destruct res;
      try (assert (Hall : forallb call_failed tr = true) by (eapply run_not_written_all_failed; eauto; discriminate);
           subst tr; rewrite forallb_app in Hall; apply andb_true_iff in Hall; tauto).
    destruct (run_written_shape _ _ _ _ _ _ _ _ H eq_refl) as (tr1 & c1 & E1 & _ & Hall).
    rewrite E in E1. apply app_inj_tail in E1. destruct E1 as [-> _]. assumption.
Qed.

Theorem kinesis_no_false_written : forall n ctx recs script tr res cx,
  transport_with_retry n ctx recs script = (tr, res, cx) ->
  S (N.to_nat n) <= List.length (filter call_failed tr) \/ shutdown_while_unaccepted ctx script tr ->
  res <> RWritten.
Proof.
  intros n ctx recs script tr res cx H [Hb|Hs] Hw.
  - pose proof (kinesis_attempts_bounded _ _ _ _ _ _ _ H) as Hlen.
    apply retry_run in H. pose proof (run_written_failed_count _ _ _ _ _ _ _ _ H Hw). lia.
  - apply retry_run in H. eapply run_shutdown_not_written; eauto.
Qed.

Theorem kinesis_no_call_after_shutdown : forall n ctx recs script tr res cx,
  transport_with_retry n ctx recs script = (tr, res, cx) ->
  (ctx = true -> tr = [] /\ res = RCancelled) /\
  (forall i s, nth_error script i = Some s -> S i < List.length tr -> s_cancel s = false).
Proof.
  intros n ctx recs script tr res cx H. apply retry_run in H. split.
  - intros ->. destruct (run_cancelled_start _ _ _ _ _ _ _ H) as (? & ? & ?). auto.
  - apply (run_no_call_after_shutdown _ _ _ _ _ _ _ _ H).
Qed.

(* ================= the transporter loop ================= *)

Lemma transporter_true n bs : transporter n true bs = ([], TStopped).
Proof. destruct bs; reflexivity. Qed.

(* report j of a run belongs to batch j; reports before it are all written and left the context
   uncancelled; what follows an unwritten report *)
Lemma transporter_nth n : forall bs ctx reps e j rep,
  transporter n ctx bs = (reps, e) -> nth_error reps j = Some rep ->
  ctx = false /\
  exists b res cx, nth_error bs j = Some b /\
    transport_with_retry n (b_pre b) (b_recs b) (b_script b) = (r_calls rep, res, cx) /\
    (r_written rep = true <-> res = RWritten) /\
    (r_written rep = false -> List.length reps = S j /\ (res <> RPending -> e <> TRunning)) /\
    (cx = true -> List.length reps = S j) /\
    (forall i ri, i < j -> nth_error reps i = Some ri -> r_written ri = true).
Proof.
  induction bs as [|b rest IH]; intros ctx reps e j rep H Hj; destruct ctx; simpl in H;
    try (inversion H; subst; destruct j; discriminate).
  split; [reflexivity|].
  destruct (transport_with_retry n (b_pre b) (b_recs b) (b_script b)) as [[tr res] cx] eqn:Hr.
  assert (Hterm : forall e0, res <> RWritten -> (res <> RPending -> e0 <> TRunning) ->
            (reps, e) = ([mkRep tr false], e0) ->
            exists b0 res0 cx0, nth_error (b :: rest) j = Some b0 /\
              transport_with_retry n (b_pre b0) (b_recs b0) (b_script b0) = (r_calls rep, res0, cx0) /\
              (r_written rep = true <-> res0 = RWritten) /\
              (r_written rep = false -> List.length reps = S j /\ (res0 <> RPending -> e <> TRunning)) /\
              (cx0 = true -> List.length reps = S j) /\
              (forall i ri, i < j -> nth_error reps i = Some ri -> r_written ri = true)).
  { intros e0 Hnw He0 E. inversion E; subst reps e. clear E.
    destruct j as [|j]; [|destruct j; discriminate].
    simpl in Hj. inversion Hj; subst rep. exists b, res, cx. simpl.
    split; [reflexivity|]. split; [exact Hr|]. split; [split; [discriminate|intros; contradiction]|].
    split; [intros _; split; [reflexivity|exact He0]|]. split; [reflexivity|].
    intros i ri Hi. lia. }
  destruct res.
  - (* written *)
    clear Hterm.
    destruct (transporter n cx rest) as [reps' e'] eqn:Ht. inversion H; subst reps e. clear H.
    destruct j as [|j].
    + simpl in Hj. inversion Hj; subst rep. exists b, RWritten, cx. simpl.
      split; [reflexivity|]. split; [exact Hr|]. split; [split; reflexivity|].
      split; [discriminate|]. split.
      * intros ->. rewrite transporter_true in Ht. inversion Ht. reflexivity.
      * intros i ri Hi. lia.
    + simpl in Hj.
      destruct (IH cx reps' e' j rep Ht Hj) as (Hcx & b' & res' & cx' & Hb & Hrun & Hw & Hu & Hc & Hprev).
      exists b', res', cx'. simpl.
      split; [exact Hb|]. split; [exact Hrun|]. split; [exact Hw|]. split; [|split].
      * intros Hf. destruct (Hu Hf) as [-> He]. split; [reflexivity|exact He].
      * intros Hc'. rewrite (Hc Hc'). reflexivity.
      * intros i ri Hi Hri. destruct i as [|i]; simpl in Hri.
        -- inversion Hri; subst ri. reflexivity.
        -- apply (Hprev i ri); [lia|exact Hri].
  - (* cancelled: cx = true, the loop returns at the next select *)
    assert (cx = true).
    { unfold transport_with_retry in Hr. apply retry_run in Hr. eapply run_cancelled_final; eauto. }
    subst cx. rewrite transporter_true in H.
    apply (Hterm TStopped); [discriminate|discriminate|symmetry; exact H].
  - apply (Hterm TStopped); [discriminate|discriminate|symmetry; exact H].
  - apply (Hterm TStopped); [discriminate|discriminate|symmetry; exact H].
  - apply (Hterm TPanicked); [discriminate|discriminate|symmetry; exact H].
  - apply (Hterm TRunning); [discriminate|intros Hp; now elim Hp|symmetry; exact H].
Qed.

Theorem kinesis_transporter_written_all_accepted : forall n ctx bs reps e j b rep,
  transporter n ctx bs = (reps, e) ->
  nth_error bs j = Some b -> nth_error reps j = Some rep -> r_written rep = true ->
  forallb resp_wf (r_calls rep) = true ->
  forall r, In r (b_recs b) -> exists c, In c (r_calls rep) /\ In r (accepted_ids c).
Proof.
  intros n ctx bs reps e j b rep H Hb Hrep Hw Hwf r Hin.
  destruct (transporter_nth n bs ctx reps e j rep H Hrep) as (_ & b' & res & cx & Hb' & Hrun & Hiff & _).
  rewrite Hb in Hb'. inversion Hb'; subst b'. apply Hiff in Hw. subst res.
  eapply kinesis_written_all_accepted; eauto.
Qed.

(* every report is the run of transportWithRetry on the batch of the same index (so every
   per-batch theorem applies to it), and an unwritten report is the last thing the transporter does *)
Theorem kinesis_transporter_reports : forall n ctx bs reps e j rep,
  transporter n ctx bs = (reps, e) -> nth_error reps j = Some rep ->
  exists b res cx, nth_error bs j = Some b /\
    transport_with_retry n (b_pre b) (b_recs b) (b_script b) = (r_calls rep, res, cx) /\
    (r_written rep = true <-> res = RWritten) /\
    (r_written rep = false -> List.length reps = S j /\ (res <> RPending -> e <> TRunning)) /\
    (forall i ri, i < j -> nth_error reps i = Some ri -> r_written ri = true).
Proof.
  intros n ctx bs reps e j rep H Hrep.
  destruct (transporter_nth n bs ctx reps e j rep H Hrep) as (_ & b & res & cx & Hb & Hrun & Hiff & Hu & _ & Hprev).
  exists b, res, cx. auto.
Qed.

(* once shutdown has been requested (before the start, before a batch's first attempt, or during
   any call), no later batch is taken: the report of the batch during which it was requested is the last *)
Theorem kinesis_transporter_shutdown_final : forall n ctx bs reps e,
  transporter n ctx bs = (reps, e) ->
  (ctx = true -> reps = [] /\ e = TStopped) /\
  (forall j b rep, nth_error bs j = Some b -> nth_error reps j = Some rep ->
     shutdown_requested (b_pre b) (b_script b) (r_calls rep) -> List.length reps = S j).
Proof.
  intros n ctx bs reps e H. split.
  - intros ->. destruct bs; simpl in H; inversion H; auto.
  - intros j b rep Hb Hrep Hsd.
    destruct (transporter_nth n bs ctx reps e j rep H Hrep) as (_ & b' & res & cx & Hb' & Hrun & _ & _ & Hc & _).
    rewrite Hb in Hb'. inversion Hb'; subst b'. apply Hc.
    unfold transport_with_retry in Hrun. apply retry_run in Hrun. eapply run_shutdown_final; eauto.
Qed.
