(* MarshalProofs.v -- lemmas about model/Marshal.v. *)
From Bifrost.model Require Import Base Json Marshal.
From Bifrost.proofs Require Import JsonProofs.
From Coq Require Import ZifyN ZifyNat ZifyBool Permutation.

(* ---------- LSN ---------- *)
Lemma dvalHEX_digit d : (d < 16)%N -> dvalHEX (hexU_digit d) = Some d.
Proof.
  intros H. unfold dvalHEX, hexU_digit.
  destruct (d <? 10)%N eqn:E.
  - rewrite cN_ascii by lia.
    replace ((48 <=? 48 + d) && (48 + d <=? 57))%N with true by lia. f_equal. lia.
  - rewrite cN_ascii by lia.
    replace ((48 <=? 55 + d) && (55 + d <=? 57))%N with false by lia.
    replace ((65 <=? 55 + d) && (55 + d <=? 70))%N with true by lia. f_equal. lia.
Qed.

Lemma is_HEX_digit d : (d < 16)%N -> is_HEX (hexU_digit d) = true.
Proof. intros H. unfold is_HEX. rewrite dvalHEX_digit by assumption. reflexivity. Qed.

Lemma parse_nat_hexU n rest : nodig dvalHEX rest ->
  parse_nat 16 dvalHEX (hexU n ++ rest) = Some (n, rest).
Proof. apply (parse_nat_radix 16 hexU_digit dvalHEX); [lia|exact dvalHEX_digit]. Qed.

Theorem parse_fmt_lsn w : (w < 2 ^ 64)%N -> parse_lsn (fmt_lsn w) = Some w.
Proof.
  intros Hw. unfold parse_lsn, fmt_lsn.
  rewrite parse_nat_hexU by reflexivity.
  change (cN "/" =? 47)%N with true. cbv iota.
  rewrite <- (append_nil_r (hexU (w mod 2 ^ 32))).
  rewrite parse_nat_hexU by exact I.
  assert (H1 : ((w / 2 ^ 32) mod 2 ^ 32 < 2 ^ 32)%N) by (apply N.mod_lt; lia).
  assert (H2 : (w mod 2 ^ 32 < 2 ^ 32)%N) by (apply N.mod_lt; lia).
  replace (((w / 2 ^ 32) mod 2 ^ 32 <? 2 ^ 32) && (w mod 2 ^ 32 <? 2 ^ 32))%N with true by lia.
  f_equal. rewrite N.mod_small.
  - pose proof (N.div_mod w (2 ^ 32) ltac:(lia)). lia.
  - apply N.div_lt_upper_bound; [lia|]. change (2 ^ 32 * 2 ^ 32)%N with (2 ^ 64)%N. assumption.
Qed.

Lemma all_chars_app p a b : all_chars p (a ++ b) = all_chars p a && all_chars p b.
Proof. induction a; simpl; [reflexivity|]. rewrite IHa. apply andb_assoc. Qed.

Lemma split_slash_app a b : all_chars is_HEX a = true ->
  split_slash (a ++ String "/" b) = Some (a, b).
Proof.
  induction a as [|c a IH]; simpl; intros H; [reflexivity|].
  apply andb_true_iff in H as [Hc Ha]. rewrite IH by assumption.
  destruct (cN c =? 47)%N eqn:E; [|reflexivity].
  apply N.eqb_eq in E. unfold is_HEX, dvalHEX in Hc. rewrite E in Hc. discriminate.
Qed.

Lemma canonical_hexU n : canonical_hex (hexU n) = true.
Proof.
  unfold canonical_hex.
  assert (Hall : all_chars is_HEX (hexU n) = true)
    by (apply (radix_all 16 hexU_digit ltac:(lia) is_HEX is_HEX_digit)).
  destruct (N.eq_dec n 0) as [->|Hn]; [reflexivity|].
  unfold hexU in *. unfold radix in *.
  destruct (radix_fuel_head 16 hexU_digit ltac:(lia) _ n "" (fuel_ok n) ltac:(lia)) as (d & r & Hd & Heq).
  rewrite Heq in *. rewrite Hall. simpl.
  replace (cN (hexU_digit d) =? 48)%N with false; [reflexivity|].
  unfold hexU_digit. destruct (d <? 10)%N eqn:E; rewrite cN_ascii by lia; lia.
Qed.

Theorem canonical_fmt_lsn w : canonical_lsn (fmt_lsn w) = true.
Proof.
  unfold canonical_lsn, fmt_lsn. rewrite split_slash_app.
  - rewrite !canonical_hexU. reflexivity.
  - apply (radix_all 16 hexU_digit ltac:(lia) is_HEX is_HEX_digit).
Qed.

(* ---------- the decision table ---------- *)
Definition valjson (cv : colval) : json :=
  JObj [("q", JStr (qstr (cv_quoted cv))); ("t", JStr (cv_type cv)); ("v", JStr (cv_value cv))].

Definition pairjson (d : coldec) : json :=
  match d with
  | DNew n => JObj [("new", valjson n)]
  | DOld o => JObj [("old", valjson o)]
  | DBoth n o => JObj [("new", valjson n); ("old", valjson o)]
  end.

Lemma enc_val_fields cv : enc_vmap (val_fields cv) = valjson cv.
Proof. reflexivity. Qed.

Lemma enc_pair_fields d : enc_pmap (pair_fields d) = pairjson d.
Proof. destruct d; reflexivity. Qed.

Lemma fold_aset_map {V W} (f : string * V -> W) (l : list (string * V)) : NoDup (map fst l) ->
  forall acc, (forall k, In k (map fst l) -> ~ In k (map fst acc)) ->
  fold_left (fun a kv => aset (fst kv) (f kv) a) l acc = acc ++ map (fun kv => (fst kv, f kv)) l.
Proof.
  induction l as [|[k v] l IH]; intros Hnd acc Hfresh; simpl.
  - rewrite app_nil_r. reflexivity.
  - inversion Hnd as [|? ? Hni Hnd']; subst.
    assert (Hset : aset k (f (k, v)) acc = acc ++ [(k, f (k, v))]).
    { assert (Hk : ~ In k (map fst acc)) by (apply Hfresh; left; reflexivity).
      clear -Hk. induction acc as [|[k' v'] acc IHa]; simpl; [reflexivity|].
      destruct (String.eqb_spec k k') as [->|Hne]; [elim Hk; left; reflexivity|].
      rewrite IHa; [reflexivity|]. intros H. apply Hk. right. assumption. }
    rewrite Hset, IH; [rewrite <- app_assoc; reflexivity|assumption|].
    intros k' Hin. rewrite map_app, in_app_iff. simpl. intros [H|[<-|[]]].
    + apply (Hfresh k'); [right; assumption|assumption].
    + apply Hni. assumption.
Qed.

Lemma columns_of_map nomo c : NoDup (map fst (ch_cols c)) ->
  columns_of nomo c = map (fun kv => (fst kv, col_entry nomo c (fst kv) (snd kv))) (ch_cols c).
Proof.
  intros Hnd. unfold columns_of.
  rewrite (fold_aset_map (fun kv => col_entry nomo c (fst kv) (snd kv)) _ Hnd []); [reflexivity|].
  intros k _ [].
Qed.

(* the members of the columns object *)
Definition tree_columns (nomo : bool) (c : change) : list (string * json) :=
  sort_kv (mapv enc_pmap (columns_of nomo c)).

Lemma tree_shape nomo c :
  tree nomo c =
  JObj [ ("time", JStr (fmt_time (ch_time c))); ("time_ms", JInt (ch_time c)); ("txn", JStr (ch_key c));
         ("lsn", JStr (fmt_lsn (ch_wal c))); ("table", JStr (ch_table c)); ("operation", JStr (ch_op c));
         ("columns", JObj (tree_columns nomo c)) ].
Proof. reflexivity. Qed.

Theorem tree_columns_spec nomo c : NoDup (map fst (ch_cols c)) ->
  forall k j, In (k, j) (tree_columns nomo c) <->
    exists v, In (k, v) (ch_cols c) /\ j = pairjson (col_decision nomo (ch_op c) v (aget k (ch_old c))).
Proof.
  intros Hnd k j. unfold tree_columns. rewrite sort_kv_in, mapv_in, columns_of_map by assumption.
  split.
  - intros (p & Hin & ->). apply in_map_iff in Hin as ([k' v] & E & Hin). inversion E; subst.
    exists v. split; [assumption|]. unfold col_entry. apply enc_pair_fields.
  - intros (v & Hin & ->). exists (col_entry nomo c k v). split.
    + apply in_map_iff. exists (k, v). auto.
    + unfold col_entry. symmetry. apply enc_pair_fields.
Qed.

(* the table itself *)
Theorem decision_rows nomo op v oldv :
  (op = "DELETE" -> col_decision nomo op v oldv = DOld v) /\
  (op <> "DELETE" -> oldv = None -> col_decision nomo op v oldv = DNew v) /\
  (forall o, op <> "DELETE" -> oldv = Some o -> cv_value v = cv_value o -> col_decision nomo op v oldv = DNew v) /\
  (forall o, op <> "DELETE" -> oldv = Some o -> cv_value v <> cv_value o -> cv_value v <> toast_marker ->
     col_decision nomo op v oldv = if nomo then DNew v else DBoth v o) /\
  (forall o, op <> "DELETE" -> oldv = Some o -> cv_value v <> cv_value o -> cv_value v = toast_marker ->
     col_decision nomo op v oldv = if nomo then DNew o else DBoth o o).
Proof.
  unfold col_decision. repeat split.
  - intros ->. reflexivity.
  - intros Hop ->. apply String.eqb_neq in Hop. rewrite Hop. reflexivity.
  - intros o Hop -> E. apply String.eqb_neq in Hop. rewrite Hop, E, String.eqb_refl. reflexivity.
  - intros o Hop -> E M. apply String.eqb_neq in Hop, E, M. rewrite Hop, E, M. reflexivity.
  - intros o Hop -> E M. apply String.eqb_neq in Hop, E. rewrite Hop, E, M, String.eqb_refl. reflexivity.
Qed.

(* ---------- association lists as Go maps ---------- *)
Section AssocMap.
  Context {V : Type}.
  Implicit Types (m : list (string * V)).

  Lemma aset_keys_in k v m k' : In k' (map fst (aset k v m)) <-> k' = k \/ In k' (map fst m).
  Proof.
    induction m as [|[k0 v0] m IH]; simpl.
    - intuition.
    - destruct (String.eqb_spec k k0) as [->|Hne]; simpl; [intuition|]. rewrite IH. intuition.
  Qed.

  Lemma aset_nodup k v m : NoDup (map fst m) -> NoDup (map fst (aset k v m)).
  Proof.
    induction m as [|[k0 v0] m IH]; simpl; intros Hnd.
    - constructor; [intros []|constructor].
    - inversion Hnd as [|? ? Hni Hnd']; subst.
      destruct (String.eqb_spec k k0) as [->|Hne]; simpl; [constructor; assumption|].
      constructor; [|auto]. rewrite aset_keys_in. intros [E|Hin]; [congruence|contradiction].
  Qed.

  Lemma aset_in_iff k v m : NoDup (map fst m) -> forall k' x,
    In (k', x) (aset k v m) <-> (k' = k /\ x = v) \/ (k' <> k /\ In (k', x) m).
  Proof.
    induction m as [|[k0 v0] m IH]; simpl; intros Hnd k' x.
    - split; [intros [E|[]]; inversion E; auto|intros [[-> ->]|[_ []]]; auto].
    - inversion Hnd as [|? ? Hni Hnd']; subst.
      destruct (String.eqb_spec k k0) as [->|Hne]; simpl.
      + split.
        * intros [E|Hin]; [inversion E; auto|]. right. split; [|auto].
          intros ->. apply Hni. apply (in_map fst) in Hin. exact Hin.
        * intros [[-> ->]|[Hne [E|Hin]]]; auto. inversion E; subst. congruence.
      + rewrite IH by assumption. split.
        * intros [E|[[-> ->]|[Hn Hin]]]; auto. inversion E; subst. right. split; auto.
        * intros [[-> ->]|[Hn [E|Hin]]]; auto.
    Qed.

  Lemma adel_keys_in k m k' : In k' (map fst (adel k m)) -> k' <> k /\ In k' (map fst m).
  Proof.
    induction m as [|[k0 v0] m IH]; simpl; [tauto|].
    destruct (String.eqb_spec k k0) as [->|Hne]; simpl.
    - intros H. destruct (IH H). auto.
    - intros [<-|H]; [auto|]. destruct (IH H). auto.
  Qed.

  Lemma clear_keys : forall keys m, (forall k, In k (map fst m) -> In k keys) ->
    fold_left (fun acc k => adel k acc) keys m = [].
  Proof.
    induction keys as [|k ks IH]; intros m H; simpl.
    - destruct m as [|[k v] m]; [reflexivity|]. elim (H k). left. reflexivity.
    - apply IH. intros k' Hin. apply adel_keys_in in Hin as [Hne Hin].
      destruct (H k' Hin) as [<-|]; [congruence|assumption].
  Qed.

  Lemma clear_map_nil m : clear_map m = [].
  Proof. unfold clear_map. apply clear_keys. auto. Qed.
End AssocMap.

Lemma mapv_keys {V W} (f : V -> W) (l : list (string * V)) : map fst (mapv f l) = map fst l.
Proof. unfold mapv. rewrite map_map. reflexivity. Qed.

(* ---------- the pools ---------- *)
Definition vkeys_ok (m : vmap) : Prop :=
  NoDup (map fst m) /\ forall k, In k (map fst m) -> k = "v" \/ k = "t" \/ k = "q".

(* value maps in the pool hold only the keys v t q; pair maps in the pool are empty *)
Definition PoolInv (pl : pool) : Prop :=
  Forall vkeys_ok (p_vals pl) /\ Forall (fun p => p = []) (p_pairs pl).

Lemma triple_in {V} (Q T W : V) (M : list (string * V)) :
  NoDup (map fst M) -> (forall k, In k (map fst M) -> k = "v" \/ k = "t" \/ k = "q") ->
  forall p, In p [("q", Q); ("t", T); ("v", W)] <-> In p (aset "q" Q (aset "t" T (aset "v" W M))).
Proof.
  intros Hnd Hk [k x].
  rewrite (aset_in_iff "q" Q _ (aset_nodup _ _ _ (aset_nodup _ _ _ Hnd))).
  rewrite (aset_in_iff "t" T _ (aset_nodup _ _ _ Hnd)).
  rewrite (aset_in_iff "v" W _ Hnd).
  simpl. split.
  - intros [E|[E|[E|[]]]]; inversion E; subst.
    + left; auto.
    + right. split; [discriminate|]. left; auto.
    + right. split; [discriminate|]. right. split; [discriminate|]. left; auto.
  - intros [[E1 E2]|[Hq [[E1 E2]|[Ht [[E1 E2]|[Hv Hin]]]]]]; subst; auto.
    apply (in_map fst) in Hin. simpl in Hin. destruct (Hk k Hin) as [-> | [-> | ->]]; congruence.
Qed.

Lemma set_val_keys_ok cv m : vkeys_ok m -> vkeys_ok (set_val cv m).
Proof.
  intros [Hnd Hk]. unfold set_val. split.
  - repeat apply aset_nodup. assumption.
  - intros k. rewrite !aset_keys_in. intros [->|[->|[->|H]]]; auto.
Qed.

Lemma nodup_target {V} (Q T W : V) : NoDup (skeys [("q", Q); ("t", T); ("v", W)]).
Proof.
  unfold skeys. simpl. repeat constructor; simpl; intuition discriminate.
Qed.

(* whatever the pooled map held, after the three writes it encodes as the fresh one *)
Theorem enc_set_val cv m : vkeys_ok m -> enc_vmap (set_val cv m) = valjson cv.
Proof.
  intros [Hnd Hk]. unfold enc_vmap, enc_map, set_val. rewrite !mapv_aset.
  set (M := mapv JStr m).
  assert (HndM : NoDup (map fst M)) by (unfold M; rewrite mapv_keys; assumption).
  assert (HkM : forall k, In k (map fst M) -> k = "v" \/ k = "t" \/ k = "q") by (unfold M; rewrite mapv_keys; assumption).
  rewrite <- (sort_kv_permutation [("q", JStr (qstr (cv_quoted cv))); ("t", JStr (cv_type cv)); ("v", JStr (cv_value cv))]).
  - reflexivity.
  - apply NoDup_Permutation.
    + apply (NoDup_map_inv fst). simpl. repeat constructor; simpl; intuition discriminate.
    + apply (NoDup_map_inv fst). repeat apply aset_nodup. assumption.
    + apply triple_in; assumption.
  - apply nodup_target.
Qed.

Lemma take_nth_forall {A} (P : A -> Prop) : forall n (l : list A) x r,
  Forall P l -> take_nth n l = Some (x, r) -> P x /\ Forall P r.
Proof.
  induction n as [|n IH]; intros [|y l] x r Hl; simpl; try discriminate.
  - intros E. inversion E; subst. inversion Hl; auto.
  - destruct (take_nth n l) as [[y' r']|] eqn:Ht; [|discriminate].
    intros E. inversion E; subst. inversion Hl; subst.
    destruct (IH l x r' H2 Ht). auto.
Qed.

Lemma pool_get_forall {A} (P : A -> Prop) fresh ch (l : list A) x r :
  pool_get fresh ch l = (x, r) -> Forall P l -> P fresh -> P x /\ Forall P r.
Proof.
  unfold pool_get. intros E Hl Hf. destruct (take_nth ch l) as [[x' r']|] eqn:Et.
  - inversion E; subst. eapply take_nth_forall; eauto.
  - inversion E; subst. auto.
Qed.

(* invariant of the working state during one call *)
Definition WInv (w : wst) : Prop :=
  Forall vkeys_ok (w_vals w) /\ Forall (fun p => p = []) (w_pairs w) /\
  Forall vkeys_ok (w_usedv w) /\ Forall (fun p => scrub_pair p = []) (w_usedp w).

Lemma vkeys_ok_nil : vkeys_ok [].
Proof. split; [constructor|intros k []]. Qed.

Lemma marshal_col_value_spec cv w : WInv w ->
  enc_vmap (fst (marshal_col_value cv w)) = valjson cv /\ WInv (snd (marshal_col_value cv w)) /\
  w_pairs (snd (marshal_col_value cv w)) = w_pairs w /\ w_usedp (snd (marshal_col_value cv w)) = w_usedp w.
Proof.
  intros (Hv & Hp & Huv & Hup). unfold marshal_col_value.
  destruct (next_choice w) as [ch ch'].
  destruct (pool_get [] ch (w_vals w)) as [m rest] eqn:Eg.
  destruct (pool_get_forall vkeys_ok _ _ _ _ _ Eg Hv vkeys_ok_nil) as [Hm Hrest]. simpl in *.
  split; [apply enc_set_val; assumption|]. split; [|auto].
  repeat split; simpl; auto.
  apply Forall_app. split; [assumption|]. constructor; [|constructor]. apply set_val_keys_ok. assumption.
Qed.

Lemma marshal_pair_spec d w : WInv w ->
  enc_pmap (fst (marshal_pair d w)) = pairjson d /\ WInv (snd (marshal_pair d w)).
Proof.
  intros HW. pose proof HW as (Hv & Hp & Huv & Hup). unfold marshal_pair.
  destruct (next_choice w) as [ch ch'].
  destruct (pool_get [] ch (w_pairs w)) as [p rest] eqn:Eg.
  destruct (pool_get_forall (fun p : pmap => p = []) _ _ _ _ _ Eg Hp eq_refl) as [Hm Hrest]. simpl in Hm, Hrest. subst p.
  set (w1 := mkW (w_vals w) rest (w_usedv w) (w_usedp w) ch').
  assert (HW1 : WInv w1) by (repeat split; assumption).
  destruct d as [n|o|n o].
  - destruct (marshal_col_value_spec n w1 HW1) as (He & (Hv2 & Hp2 & Huv2 & Hup2) & Epairs & Eusedp).
    destruct (marshal_col_value n w1) as [mn w2]. simpl in *.
    split.
    + unfold enc_pmap, enc_map. simpl. fold enc_vmap. rewrite He. reflexivity.
    + repeat split; simpl; auto. apply Forall_app. split; [assumption|]. repeat constructor.
  - destruct (marshal_col_value_spec o w1 HW1) as (He & (Hv2 & Hp2 & Huv2 & Hup2) & Epairs & Eusedp).
    destruct (marshal_col_value o w1) as [mo w2]. simpl in *.
    split.
    + unfold enc_pmap, enc_map. simpl. fold enc_vmap. rewrite He. reflexivity.
    + repeat split; simpl; auto. apply Forall_app. split; [assumption|]. repeat constructor.
  - destruct (marshal_col_value_spec o w1 HW1) as (Heo & HW2 & Epairs & Eusedp).
    destruct (marshal_col_value o w1) as [mo w2]. simpl in Heo, HW2, Epairs, Eusedp.
    destruct (marshal_col_value_spec n w2 HW2) as (Hen & (Hv3 & Hp3 & Huv3 & Hup3) & Epairs3 & Eusedp3).
    destruct (marshal_col_value n w2) as [mn w3]. simpl in *.
    split.
    + unfold enc_pmap, enc_map. simpl. fold enc_vmap. rewrite Heo, Hen. reflexivity.
    + repeat split; simpl; auto. apply Forall_app. split; [assumption|]. repeat constructor.
Qed.

Definition columns_from (nomo : bool) (c : change) (cols : list (string * colval)) (acc : cmap) : cmap :=
  fold_left (fun acc kv => aset (fst kv) (col_entry nomo c (fst kv) (snd kv)) acc) cols acc.

Lemma marshal_cols_spec nomo c : forall cols acc acc' w, WInv w ->
  mapv enc_pmap acc = mapv enc_pmap acc' ->
  mapv enc_pmap (fst (marshal_cols nomo c cols acc w)) = mapv enc_pmap (columns_from nomo c cols acc') /\
  WInv (snd (marshal_cols nomo c cols acc w)).
Proof.
  induction cols as [|[k v] cols IH]; intros acc acc' w HW Hacc; simpl.
  - auto.
  - destruct (marshal_pair_spec (col_decision nomo (ch_op c) v (aget k (ch_old c))) w HW) as (He & HW').
    destruct (marshal_pair (col_decision nomo (ch_op c) v (aget k (ch_old c))) w) as [p w']. simpl in He, HW'.
    apply IH; [assumption|].
    rewrite !mapv_aset, Hacc, He. unfold col_entry. rewrite enc_pair_fields. reflexivity.
Qed.

Lemma fill_entry_eq e t ms txn lsn table op cols :
  set_cols cols (set_op op (set_table table (set_lsn lsn (set_txn txn (set_time_ms ms (set_time t e)))))) =
  mkWE t ms txn lsn table op cols.
Proof. reflexivity. Qed.

Theorem render_with_pool_spec nomo pl choices c : PoolInv pl ->
  fst (render_with_pool nomo pl choices c) = render nomo c /\
  PoolInv (snd (render_with_pool nomo pl choices c)).
Proof.
  intros [Hv Hp]. unfold render_with_pool. rewrite clear_map_nil.
  assert (HW : WInv (mkW (p_vals pl) (p_pairs pl) [] [] choices)) by (repeat split; simpl; auto).
  destruct (marshal_cols_spec nomo c (ch_cols c) [] [] _ HW eq_refl) as (He & (Hv' & Hp' & Huv' & Hup')).
  destruct (marshal_cols nomo c (ch_cols c) [] (mkW (p_vals pl) (p_pairs pl) [] [] choices)) as [cols w].
  cbn [fst snd] in *. rewrite fill_entry_eq. split.
  - unfold render, tree, enc_entry, lsn_buffer. cbn [we_time we_time_ms we_txn we_lsn we_table we_op we_cols append].
    unfold enc_cmap, enc_map. rewrite He. reflexivity.
  - split; cbn [p_vals p_pairs].
    + apply Forall_app. auto.
    + apply Forall_app. split; [assumption|].
      apply Forall_forall. intros p Hin. apply in_map_iff in Hin as (p0 & <- & Hin0).
      rewrite Forall_forall in Hup'. auto.
Qed.

Lemma PoolInv_empty : PoolInv empty_pool.
Proof. split; constructor. Qed.

Theorem marshal_stage_spec nomo : forall cs chs pl, PoolInv pl ->
  fst (marshal_stage nomo pl chs cs) = map (pure_out nomo) cs /\
  PoolInv (snd (marshal_stage nomo pl chs cs)).
Proof.
  induction cs as [|c cs IH]; intros chs pl HI; simpl; [auto|].
  unfold stage_step, pure_out.
  destruct (is_framing (ch_op c)).
  - destruct (IH (tl chs) pl HI) as (E & HI'). destruct (marshal_stage nomo pl (tl chs) cs) as [os pl'']. simpl in *.
    rewrite E. auto.
  - destruct (render_with_pool_spec nomo pl (hd [] chs) c HI) as (Er & HI1).
    destruct (render_with_pool nomo pl (hd [] chs) c) as [js pl']. simpl in Er, HI1.
    destruct (IH (tl chs) pl' HI1) as (E & HI'). destruct (marshal_stage nomo pl' (tl chs) cs) as [os pl'']. simpl in *.
    rewrite E, Er. auto.
Qed.

(* ---------- ASCII-only strings are well-formed ---------- *)
Definition is_ascii (c : ascii) : bool := (cN c <? 128)%N.

Lemma ascii_Utf8 s : all_chars is_ascii s = true -> Utf8 s.
Proof.
  induction s as [|c s IH]; simpl; intros H; [constructor|].
  apply andb_true_iff in H as [Hc Hs]. apply U1; [|auto].
  unfold lead_len. unfold is_ascii in Hc. rewrite Hc. reflexivity.
Qed.

Lemma ascii_digit d : (d < 10)%N -> is_ascii (digit d) = true.
Proof. intros H. unfold is_ascii, digit. rewrite cN_ascii by lia. lia. Qed.
Lemma ascii_hexU_digit d : (d < 16)%N -> is_ascii (hexU_digit d) = true.
Proof. intros H. unfold is_ascii, hexU_digit. destruct (d <? 10)%N; rewrite cN_ascii by lia; lia. Qed.

Lemma ascii_decN n : all_chars is_ascii (decN n) = true.
Proof. apply (radix_all 10 digit ltac:(lia) is_ascii ascii_digit). Qed.
Lemma ascii_hexU n : all_chars is_ascii (hexU n) = true.
Proof. apply (radix_all 16 hexU_digit ltac:(lia) is_ascii ascii_hexU_digit). Qed.

Lemma ascii_fmt_lsn w : all_chars is_ascii (fmt_lsn w) = true.
Proof. unfold fmt_lsn. rewrite all_chars_app. simpl. rewrite !ascii_hexU. reflexivity. Qed.

Lemma ascii_pad2 n : all_chars is_ascii (pad2 n) = true.
Proof. unfold pad2. destruct (n <? 10)%Z; simpl; rewrite ascii_decN; reflexivity. Qed.
Lemma ascii_pad4 n : all_chars is_ascii (pad4 n) = true.
Proof.
  unfold pad4. destruct (n <? 0)%Z, (Z.abs n <? 10)%Z, (Z.abs n <? 100)%Z, (Z.abs n <? 1000)%Z; simpl;
    rewrite ?all_chars_app, ?ascii_decN; reflexivity.
Qed.

Lemma ascii_fmt_time ms : all_chars is_ascii (fmt_time ms) = true.
Proof.
  unfold fmt_time. destruct (ms =? 0)%Z; [reflexivity|].
  unfold fmt_instant. destruct (civil_from_days _) as [[y m] d].
  repeat (rewrite all_chars_app; cbn [all_chars]).
  rewrite ascii_pad4, !ascii_pad2. reflexivity.
Qed.

(* ---------- the rendered tree is well-formed whenever the change's strings are ---------- *)
Lemma Forall_aset {V} (P : string * V -> Prop) k v m : Forall P m -> P (k, v) -> Forall P (aset k v m).
Proof.
  intros Hm Hp. induction Hm as [|[k' v'] m Hp' Hm IH]; simpl.
  - constructor; auto.
  - destruct (String.eqb_spec k k') as [->|Hne]; constructor; auto.
Qed.

Lemma Forall_fold_aset {V W} (P : string * W -> Prop) (f : string * V -> W) (l : list (string * V)) :
  (forall kv, In kv l -> P (fst kv, f kv)) -> forall acc, Forall P acc ->
  Forall P (fold_left (fun a kv => aset (fst kv) (f kv) a) l acc).
Proof.
  induction l as [|kv l IH]; simpl; intros H acc Ha; [assumption|].
  apply IH; [intros; apply H; auto|]. apply Forall_aset; [assumption|]. apply H. auto.
Qed.

Lemma valid_Utf8 s : valid_utf8 s = true -> Utf8 s.
Proof. apply valid_utf8_Utf8. Qed.

Lemma qstr_Utf8 b : Utf8 (qstr b).
Proof. apply valid_Utf8. destruct b; reflexivity. Qed.

Definition MemWf (kv : string * json) : Prop := Utf8 (fst kv) /\ JWf (snd kv).
Lemma wf_cons k j l : valid_utf8 k = true -> JWf j -> Forall MemWf l -> Forall MemWf ((k, j) :: l).
Proof. intros Hk Hj Hl. constructor; [split; [apply valid_Utf8; exact Hk|exact Hj]|exact Hl]. Qed.
Lemma wf_str s : Utf8 s -> JWf (JStr s).
Proof. apply WfStr. Qed.

Lemma valjson_wf cv : valid_cv cv = true -> JWf (valjson cv).
Proof.
  unfold valid_cv. intros H. apply andb_true_iff in H as [Hv Ht].
  apply WfObj. change (Forall MemWf [("q", JStr (qstr (cv_quoted cv))); ("t", JStr (cv_type cv)); ("v", JStr (cv_value cv))]).
  apply wf_cons; [reflexivity|apply wf_str, qstr_Utf8|].
  apply wf_cons; [reflexivity|apply wf_str, valid_Utf8, Ht|].
  apply wf_cons; [reflexivity|apply wf_str, valid_Utf8, Hv|]. constructor.
Qed.

Lemma pairjson_wf d : (forall cv, dec_new d = Some cv \/ dec_old d = Some cv -> valid_cv cv = true) -> JWf (pairjson d).
Proof.
  intros H. destruct d as [n|o|n o]; simpl in *; apply WfObj.
  - apply (wf_cons "new"); [reflexivity|apply valjson_wf, H; auto|constructor].
  - apply (wf_cons "old"); [reflexivity|apply valjson_wf, H; auto|constructor].
  - apply (wf_cons "new"); [reflexivity|apply valjson_wf, H; auto|].
    apply (wf_cons "old"); [reflexivity|apply valjson_wf, H; auto|constructor].
Qed.

Lemma valid_cols_in l k cv : valid_cols l = true -> In (k, cv) l -> valid_utf8 k = true /\ valid_cv cv = true.
Proof.
  unfold valid_cols. rewrite forallb_forall. intros H Hin. specialize (H _ Hin). simpl in H.
  apply andb_true_iff in H. exact H.
Qed.

Lemma aget_in {V} (k : string) (m : list (string * V)) v : aget k m = Some v -> In (k, v) m.
Proof.
  induction m as [|[k' v'] m IH]; simpl; [discriminate|].
  destruct (String.eqb_spec k k') as [->|Hne]; intros H.
  - inversion H; subst; now left.
  - right; auto.
Qed.

Lemma col_decision_valid nomo op v oldv cv :
  valid_cv v = true -> (forall o, oldv = Some o -> valid_cv o = true) ->
  dec_new (col_decision nomo op v oldv) = Some cv \/ dec_old (col_decision nomo op v oldv) = Some cv ->
  valid_cv cv = true.
Proof.
  intros Hv Ho. unfold col_decision.
  destruct (String.eqb op "DELETE"); simpl; [intros [H|H]; inversion H; subst; auto|].
  destruct oldv as [o|]; simpl; [|intros [H|H]; inversion H; subst; auto].
  specialize (Ho o eq_refl).
  destruct (negb _), (String.eqb (cv_value v) toast_marker), nomo; simpl; intros [H|H]; inversion H; subst; auto.
Qed.

Theorem tree_wf nomo c : valid_utf8_fields c = true -> JWf (tree nomo c).
Proof.
  unfold valid_utf8_fields. intros H.
  apply andb_true_iff in H as [H Hold]. apply andb_true_iff in H as [H Hcols].
  apply andb_true_iff in H as [H Hkey]. apply andb_true_iff in H as [Hop Htab].
  rewrite tree_shape. apply WfObj.
  apply (wf_cons "time"); [reflexivity|apply wf_str, ascii_Utf8, ascii_fmt_time|].
  apply (wf_cons "time_ms"); [reflexivity|apply WfInt|].
  apply (wf_cons "txn"); [reflexivity|apply wf_str, valid_Utf8, Hkey|].
  apply (wf_cons "lsn"); [reflexivity|apply wf_str, ascii_Utf8, ascii_fmt_lsn|].
  apply (wf_cons "table"); [reflexivity|apply wf_str, valid_Utf8, Htab|].
  apply (wf_cons "operation"); [reflexivity|apply wf_str, valid_Utf8, Hop|].
  apply (wf_cons "columns"); [reflexivity| |constructor].
  apply WfObj.
  - (* the columns *)
    unfold tree_columns.
    assert (Hc : Forall (fun kp : string * pmap => Utf8 (fst kp) /\ JWf (enc_pmap (snd kp))) (columns_of nomo c)).
    { unfold columns_of.
      apply (Forall_fold_aset (fun kp : string * pmap => Utf8 (fst kp) /\ JWf (enc_pmap (snd kp)))
               (fun kv => col_entry nomo c (fst kv) (snd kv))); [|constructor].
      intros [k v] Hin. simpl. destruct (valid_cols_in _ _ _ Hcols Hin) as [Hk Hv]. split; [apply valid_Utf8; assumption|].
      unfold col_entry. rewrite enc_pair_fields. apply pairjson_wf. intros cv.
      apply col_decision_valid; [assumption|].
      intros o Ho. apply aget_in in Ho. apply (valid_cols_in _ _ _ Hold Ho). }
    apply Forall_forall. intros [k j] Hin. apply (proj1 (sort_kv_in _ _)) in Hin. apply (proj1 (mapv_in _ _ _ _)) in Hin as (p & Hin & ->).
    rewrite Forall_forall in Hc. apply (Hc (k, p) Hin).
Qed.

(* valid JSON, and reading it back gives exactly the tree *)
Theorem render_faithful nomo c : valid_utf8_fields c = true ->
  json_parse (render nomo c) = Some (tree nomo c).
Proof. intros H. apply json_parse_print. apply tree_wf. assumption. Qed.

(* ---------- Go's iteration order over Pr.Columns does not matter ---------- *)
Definition with_cols (c : change) (cols : list (string * colval)) : change :=
  mkChange (ch_op c) (ch_table c) (ch_txn c) cols (ch_old c) (ch_wal c) (ch_time c) (ch_key c) (ch_pkey c).

Lemma NoDup_map_inj_in {A B} (f : A -> B) (l : list A) :
  (forall a b, In a l -> In b l -> f a = f b -> a = b) -> NoDup l -> NoDup (map f l).
Proof.
  intros Hinj Hnd. induction Hnd as [|x l Hni Hnd IH]; simpl; constructor.
  - rewrite in_map_iff. intros (y & E & Hin). apply Hni.
    rewrite (Hinj x y); auto; [left; reflexivity|right; assumption].
  - apply IH. intros a b Ha Hb. apply Hinj; right; assumption.
Qed.

Theorem render_order_irrelevant nomo c cols' :
  Permutation (ch_cols c) cols' -> NoDup (map fst (ch_cols c)) ->
  (forall k, In k (map fst (ch_cols c)) -> valid_utf8 k = true) ->
  render nomo (with_cols c cols') = render nomo c.
Proof.
  intros Hp Hnd Hval.
  assert (Hnd' : NoDup (map fst cols')) by (eapply Permutation_NoDup; [apply Permutation_map; exact Hp|exact Hnd]).
  assert (E : tree_columns nomo (with_cols c cols') = tree_columns nomo c).
  { unfold tree_columns. rewrite !columns_of_map by assumption. simpl.
    symmetry. apply sort_kv_permutation.
    - unfold mapv. apply Permutation_map.
      change (fun kv : string * colval => (fst kv, col_entry nomo (with_cols c cols') (fst kv) (snd kv)))
        with (fun kv : string * colval => (fst kv, col_entry nomo c (fst kv) (snd kv))).
      apply Permutation_map. exact Hp.
    - unfold skeys, mapv. rewrite !map_map. simpl.
      rewrite <- (map_map fst skey).
      apply NoDup_map_inj_in; [|assumption].
      intros a b Ha Hb E. apply skey_inj; auto using valid_utf8_Utf8. }
  unfold render. rewrite !tree_shape. simpl. rewrite E. reflexivity.
Qed.

(* ---------- a change renders the same at every position of every sequence ---------- *)
Corollary position_independent nomo pl chs cs1 c cs2 : PoolInv pl ->
  nth_error (fst (marshal_stage nomo pl chs (cs1 ++ c :: cs2))) (List.length cs1) = Some (pure_out nomo c).
Proof.
  intros HI. destruct (marshal_stage_spec nomo (cs1 ++ c :: cs2) chs pl HI) as [E _]. rewrite E.
  rewrite map_app. simpl. rewrite nth_error_app2 by (rewrite map_length; lia).
  rewrite map_length, Nat.sub_diag. reflexivity.
Qed.

(* ---------- time ---------- *)
(* finite sweep over an interval of Z, evaluated by vm_compute and lifted to a forall *)
Definition sweep_step (p : Z -> bool) (st : Z * bool) : Z * bool := ((fst st + 1)%Z, snd st && p (fst st)).
Definition range_check (lo : Z) (n : N) (p : Z -> bool) : bool := snd (N.iter n (sweep_step p) (lo, true)).

Lemma sweep_spec p lo : forall n,
  fst (N.iter n (sweep_step p) (lo, true)) = (lo + Z.of_N n)%Z /\
  (snd (N.iter n (sweep_step p) (lo, true)) = true -> forall z, (lo <= z < lo + Z.of_N n)%Z -> p z = true).
Proof.
  induction n as [|n [IH1 IH2]] using N.peano_ind.
  - simpl. split; [lia|]. intros _ z Hz. lia.
  - rewrite N.iter_succ. unfold sweep_step at 1. simpl. rewrite IH1. split; [lia|].
    intros H. apply andb_true_iff in H as [Hs Hp]. intros z Hz.
    destruct (Z.eq_dec z (lo + Z.of_N n)) as [->|Hne]; [assumption|]. apply IH2; [assumption|lia].
Qed.

Lemma range_check_ok lo n p : range_check lo n p = true -> forall z, (lo <= z < lo + Z.of_N n)%Z -> p z = true.
Proof. unfold range_check. intros H. apply (sweep_spec p lo n). assumption. Qed.

Definition civil_ok (z : Z) : bool :=
  let '(y, m, d) := civil_from_days z in
  ((1000 <=? y) && (y <=? 9999) && (1 <=? m) && (m <=? 12) && (1 <=? d) && (d <=? 31) &&
   (days_from_civil y m d =? z))%Z.

(* every day number an int64 of nanoseconds can denote: 1677-09-21 .. 2262-04-11 *)
Lemma civil_sweep : range_check (-106752) 213504 civil_ok = true.
Proof. vm_cast_no_check (eq_refl true). Qed.

Definition pad2_shape (n : Z) : bool :=
  String.eqb (pad2 n) (String (digit (Z.to_N (n / 10))) (String (digit (Z.to_N (n mod 10))) "")).
Lemma pad2_sweep : range_check 0 100 pad2_shape = true.
Proof. vm_compute. reflexivity. Qed.

Definition pad4_shape (n : Z) : bool :=
  String.eqb (pad4 n) (String (digit (Z.to_N (n / 1000))) (String (digit (Z.to_N ((n / 100) mod 10)))
                      (String (digit (Z.to_N ((n / 10) mod 10))) (String (digit (Z.to_N (n mod 10))) "")))).
Lemma pad4_sweep : range_check 1000 9000 pad4_shape = true.
Proof. vm_compute. reflexivity. Qed.

Lemma read_pad2 n rest : (0 <= n < 100)%Z -> read_digits 2 0 (pad2 n ++ rest) = Some (n, rest).
Proof.
  intros Hn. pose proof (range_check_ok _ _ _ pad2_sweep n ltac:(lia)) as H.
  unfold pad2_shape in H. apply String.eqb_eq in H. rewrite H. simpl.
  rewrite !dval10_digit by lia. f_equal. f_equal. lia.
Qed.

Lemma read_pad4 n rest : (1000 <= n <= 9999)%Z -> read_digits 4 0 (pad4 n ++ rest) = Some (n, rest).
Proof.
  intros Hn. pose proof (range_check_ok _ _ _ pad4_sweep n ltac:(lia)) as H.
  unfold pad4_shape in H. apply String.eqb_eq in H. rewrite H. simpl.
  rewrite !dval10_digit by lia. f_equal. f_equal. lia.
Qed.

Lemma parse_fmt_instant sec : (-9223372037 <= sec <= 9223372036)%Z -> parse_time (fmt_instant sec) = Some sec.
Proof.
  intros Hs. unfold fmt_instant.
  set (days := (sec / 86400)%Z). set (sod := (sec mod 86400)%Z).
  assert (Hd : (-106752 <= days < -106752 + Z.of_N 213504)%Z) by (unfold days; lia).
  pose proof (range_check_ok _ _ _ civil_sweep days Hd) as Hc. unfold civil_ok in Hc.
  destruct (civil_from_days days) as [[y m] d].
  assert (Hsod : (0 <= sod < 86400)%Z) by (unfold sod; lia).
  unfold parse_time.
  rewrite read_pad4 by lia. cbn [obind expect_char]. change (cN "-" =? cN "-")%N with true. cbn [obind].
  rewrite read_pad2 by lia. cbn [obind expect_char]. change (cN "-" =? cN "-")%N with true. cbn [obind].
  rewrite read_pad2 by lia. cbn [obind expect_char]. change (cN "T" =? cN "T")%N with true. cbn [obind].
  rewrite read_pad2 by lia. cbn [obind expect_char]. change (cN ":" =? cN ":")%N with true. cbn [obind].
  rewrite read_pad2 by lia. cbn [obind expect_char]. change (cN ":" =? cN ":")%N with true. cbn [obind].
  rewrite read_pad2 by lia. cbn [obind].
  rewrite String.eqb_refl.
  replace ((1 <=? m) && (m <=? 12) && (1 <=? d) && (d <=? 31) && (sod / 3600 <? 24) && ((sod / 60) mod 60 <? 60) && (sod mod 60 <? 60))%Z
    with true by lia.
  simpl andb. cbv iota. f_equal.
  assert (E : days_from_civil y m d = days) by lia. rewrite E.
  unfold days, sod in *. lia.
Qed.

(* the time field denotes the instant of ServerTime (whole seconds, floor), as long as the
   int64 nanosecond count does not wrap *)
Theorem parse_fmt_time ms : (-9223372036854 <= ms <= 9223372036854)%Z ->
  parse_time (fmt_time ms) = Some (ms / 1000)%Z.
Proof.
  intros H. unfold fmt_time. destruct (ms =? 0)%Z eqn:E.
  - apply Z.eqb_eq in E. subst. vm_compute. reflexivity.
  - assert (Hw : wrap64 (ms * 1000000) = (ms * 1000000)%Z).
    { unfold wrap64. rewrite Z.mod_small; lia. }
    rewrite Hw.
    replace (ms * 1000000 / 1000000000)%Z with (ms / 1000)%Z by lia.
    apply parse_fmt_instant. lia.
Qed.

(* ---------- what survives of "the new entry is the new value" (finding F6) ---------- *)
Lemma new_is_value_unless_marker nomo op v oldv :
  op <> "DELETE" -> cv_value v <> toast_marker -> dec_new (col_decision nomo op v oldv) = Some v.
Proof.
  intros Hop Hm. apply String.eqb_neq in Hop, Hm. unfold col_decision. rewrite Hop.
  destruct oldv as [o|]; [|reflexivity].
  destruct (negb _); [|reflexivity]. rewrite Hm. destruct nomo; reflexivity.
Qed.

Lemma old_shown_only_if_text_differs nomo op v oldv o :
  op <> "DELETE" -> dec_old (col_decision nomo op v oldv) = Some o ->
  nomo = false /\ oldv = Some o /\ cv_value v <> cv_value o.
Proof.
  intros Hop. apply String.eqb_neq in Hop. unfold col_decision. rewrite Hop.
  destruct oldv as [o'|]; [|discriminate].
  destruct (String.eqb_spec (cv_value v) (cv_value o')) as [E|E]; simpl; [discriminate|].
  destruct (String.eqb (cv_value v) toast_marker), nomo; simpl; intros H; inversion H; subst; auto.
Qed.

(* ---------- statements as used in props/C10.v ---------- *)
Lemma escape_roundtrip_valid : forall s, valid_utf8 s = true -> forall rest,
  unescape (escape s ++ String c_dq rest) = Some (s, rest).
Proof. intros s H. apply unescape_escape. apply valid_utf8_Utf8. exact H. Qed.

Lemma decision_table_full : forall nomo c, NoDup (map fst (ch_cols c)) ->
  (forall k j, In (k, j) (tree_columns nomo c) <->
     exists v, In (k, v) (ch_cols c) /\ j = pairjson (col_decision nomo (ch_op c) v (aget k (ch_old c)))) /\
  (forall op v oldv,
     (op = "DELETE" -> col_decision nomo op v oldv = DOld v) /\
     (op <> "DELETE" -> oldv = None -> col_decision nomo op v oldv = DNew v) /\
     (forall o, op <> "DELETE" -> oldv = Some o -> cv_value v = cv_value o -> col_decision nomo op v oldv = DNew v) /\
     (forall o, op <> "DELETE" -> oldv = Some o -> cv_value v <> cv_value o -> cv_value v <> toast_marker ->
        col_decision nomo op v oldv = if nomo then DNew v else DBoth v o) /\
     (forall o, op <> "DELETE" -> oldv = Some o -> cv_value v <> cv_value o -> cv_value v = toast_marker ->
        col_decision nomo op v oldv = if nomo then DNew o else DBoth o o)).
Proof. intros nomo c H. split; [exact (tree_columns_spec nomo c H)|intros; apply decision_rows]. Qed.

Lemma lsn_full : forall w, (w < 2 ^ 64)%N ->
  parse_lsn (fmt_lsn w) = Some w /\ canonical_lsn (fmt_lsn w) = true.
Proof. intros w H. split; [exact (parse_fmt_lsn w H)|exact (canonical_fmt_lsn w)]. Qed.
