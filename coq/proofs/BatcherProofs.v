(* BatcherProofs.v — lemmas about model/Batcher.v (StartBatching, handleTicker, sendBatch, addToBatch).

   Method.  The model functions are first REFINED to a small machine of three elementary actions
   (feed a message / send the batch stored under a key and replace or delete it / add the pending
   change to the batch of its key).  [brun_refines] shows that every run of the model that does not
   end dead is a run of the machine with the same trace and the same final state.  All invariants
   are then proved by induction over action lists, three easy cases each. *)
From Bifrost.model Require Import Base Crc32 Batch Batcher.
From Bifrost.proofs Require Import BatchProofs.
From Coq Require Import Permutation.

Lemma NoDup_snoc {A} (l : list A) x : NoDup l -> ~ In x l -> NoDup (l ++ [x]).
Proof.
  induction l as [|y l IH]; simpl; intros Hn Hx.
  - constructor; [tauto|constructor].
  - inversion Hn; subst. constructor.
    + rewrite in_app_iff. simpl. intros [H|[H|[]]]; [tauto|subst; tauto].
    + apply IH; tauto.
Qed.

(* ---------- more association-list facts ---------- *)
Section AssocFacts2.
  Context {V : Type}.
  Lemma aset_aset (k : string) (v v' : V) (m : list (string * V)) : aset k v (aset k v' m) = aset k v m.
  Proof.
    induction m as [|[k0 v0] m IH]; simpl.
    - now rewrite String.eqb_refl.
    - destruct (String.eqb_spec k k0) as [->|Hne]; simpl.
      + now rewrite String.eqb_refl.
      + destruct (String.eqb_spec k k0); [congruence|]. now rewrite IH.
  Qed.
  Lemma aset_same (k : string) (v : V) (m : list (string * V)) : aget k m = Some v -> aset k v m = m.
  Proof.
    induction m as [|[k0 v0] m IH]; simpl; [discriminate|].
    destruct (String.eqb_spec k k0) as [->|Hne]; intros H.
    - inversion H; reflexivity.
    - now rewrite IH.
  Qed.
  Lemma aget_none_notin (k : string) (m : list (string * V)) : aget k m = None -> ~ In k (map fst m).
  Proof.
    induction m as [|[k0 v0] m IH]; simpl; [tauto|].
    destruct (String.eqb_spec k k0) as [->|Hne]; [discriminate|]. intros H [E|E]; [congruence|]. now apply IH.
  Qed.
  Lemma aget_some_in (k : string) (m : list (string * V)) v : aget k m = Some v -> In (k, v) m.
  Proof.
    induction m as [|[k0 v0] m IH]; simpl; [discriminate|].
    destruct (String.eqb_spec k k0) as [->|Hne]; intros H.
    - inversion H; now left.
    - right; auto.
  Qed.
  Lemma in_nodup_aget (k : string) (m : list (string * V)) v :
    NoDup (map fst m) -> In (k, v) m -> aget k m = Some v.
  Proof.
    induction m as [|[k0 v0] m IH]; simpl; [tauto|]. intros Hnd [E|Hin].
    - inversion E; subst. now rewrite String.eqb_refl.
    - inversion Hnd; subst. destruct (String.eqb_spec k k0) as [->|Hne].
      + exfalso. apply H1. change k0 with (fst (k0, v)). now apply in_map.
      + auto.
  Qed.
  Lemma map_fst_aset_some (k : string) (v : V) (m : list (string * V)) :
    aget k m <> None -> map fst (aset k v m) = map fst m.
  Proof.
    induction m as [|[k0 v0] m IH]; simpl; [congruence|].
    destruct (String.eqb_spec k k0) as [->|Hne]; simpl; intros H; [reflexivity|]. now rewrite IH.
  Qed.
  Lemma map_fst_aset_none (k : string) (v : V) (m : list (string * V)) :
    aget k m = None -> map fst (aset k v m) = map fst m ++ [k].
  Proof.
    induction m as [|[k0 v0] m IH]; simpl; [reflexivity|].
    destruct (String.eqb_spec k k0) as [->|Hne]; simpl; intros H; [discriminate|]. now rewrite IH.
  Qed.
  Lemma in_adel_iff (k : string) (m : list (string * V)) p : In p (adel k m) <-> In p m /\ fst p <> k.
  Proof.
    induction m as [|[k0 v0] m IH]; simpl; [tauto|].
    destruct (String.eqb_spec k k0) as [->|Hne]; simpl; rewrite IH.
    - split; [tauto|]. intros [[E|H] Hn]; [subst; simpl in Hn; congruence|tauto].
    - split; [intros [E|H]; [subst; simpl; split; auto|tauto]|tauto].
  Qed.
  Lemma nodup_adel (k : string) (m : list (string * V)) : NoDup (map fst m) -> NoDup (map fst (adel k m)).
  Proof.
    induction m as [|[k0 v0] m IH]; simpl; [auto|]. intros H. inversion H; subst.
    destruct (String.eqb k k0); simpl; auto. constructor; auto.
    intros Hin. apply H2. apply in_map_iff in Hin. destruct Hin as (p & Hp & Hin).
    apply in_adel_iff in Hin. apply in_map_iff. exists p. tauto.
  Qed.
  Lemma nodup_aset (k : string) (v : V) (m : list (string * V)) : NoDup (map fst m) -> NoDup (map fst (aset k v m)).
  Proof.
    intros H. destruct (aget k m) eqn:E.
    - rewrite map_fst_aset_some; [assumption|congruence].
    - rewrite map_fst_aset_none by assumption. apply NoDup_snoc; auto. now apply aget_none_notin.
  Qed.
End AssocFacts2.

(* ---------- projections of a trace ---------- *)
Definition fed (t : list tr) : list msg :=
  flat_map (fun e => match e with TFeed m => [m] | _ => [] end) t.
Definition dispatched (t : list tr) : list (N * batch) :=
  flat_map (fun e => match e with TOut (OBatch w b) => [(w, b)] | _ => [] end) t.
Definition seen_outs (t : list tr) : list seen :=
  flat_map (fun e => match e with TOut (OSeenList l) => l | _ => [] end) t.
Definition empties (t : list tr) : list txmap :=
  flat_map (fun e => match e with TOut (OEmptyWritten x) => [x] | _ => [] end) t.
Definition changes (l : list msg) : list msg := filter change l.

Lemma fed_app a b : fed (a ++ b) = fed a ++ fed b. Proof. apply flat_map_app. Qed.
Lemma dispatched_app a b : dispatched (a ++ b) = dispatched a ++ dispatched b. Proof. apply flat_map_app. Qed.
Lemma seen_outs_app a b : seen_outs (a ++ b) = seen_outs a ++ seen_outs b. Proof. apply flat_map_app. Qed.
Lemma empties_app a b : empties (a ++ b) = empties a ++ empties b. Proof. apply flat_map_app. Qed.
Lemma changes_app a b : changes (a ++ b) = changes a ++ changes b. Proof. apply filter_app. Qed.
Lemma fed_cons_feed m t : fed (TFeed m :: t) = m :: fed t. Proof. reflexivity. Qed.
Lemma fed_outs o : fed (map TOut o) = [].
Proof. induction o; simpl; auto. Qed.

(* ---------- sendBatch ---------- *)
Definition has_fatal (o : list bout) : bool :=
  existsb (fun o => match o with OFatal => true | _ => false end) o.

Definition seen_part (st : bstate) : list bout :=
  match seenl st with [] => [] | l => [OSeenList l] end.

Definition route (cfg : bcfg) (st : bstate) (b : batch) : option N :=
  match c_routing cfg with
  | RoundRobin => Some (rr st)
  | ByPartition => quick_hash (b_pkey b) (c_workers cfg)
  end.

Definition next_rr (cfg : bcfg) (st : bstate) : N :=
  match c_routing cfg with
  | RoundRobin => if (rr st =? c_workers cfg - 1)%N then 0%N else (rr st + 1)%N
  | ByPartition => rr st
  end.

(* the state after sendBatch(b) *)
Definition sent_state (cfg : bcfg) (st : bstate) (b : batch) : bstate :=
  mkBst (open st) [] (total st) (curkey st) (if is_empty b then rr st else next_rr cfg st)
        (drops_big st) (drops_invalid st) (dead st).

Definition sent_body (cfg : bcfg) (st : bstate) (b : batch) : bout :=
  if is_empty b then OEmptyWritten (b_txns b)
  else match route cfg st b with Some w => OBatch w b | None => OFatal end.

Lemma bstate_eta st :
  st = mkBst (open st) (seenl st) (total st) (curkey st) (rr st) (drops_big st) (drops_invalid st) (dead st).
Proof. destruct st; reflexivity. Qed.

Lemma send_batch_spec cfg st b :
  send_batch cfg st b = (sent_state cfg st b, seen_part st ++ [sent_body cfg st b]).
Proof.
  unfold send_batch, flush_seen, sent_state, sent_body, seen_part, route, next_rr.
  destruct st as [op sl tot ck r db di dd]; simpl.
  destruct sl; simpl; destruct (is_empty b); simpl; try reflexivity;
    destruct (c_routing cfg); simpl; try reflexivity;
    destruct (quick_hash (b_pkey b) (c_workers cfg)); reflexivity.
Qed.

Definition workers_ok (cfg : bcfg) : Prop := (1 <= c_workers cfg)%N.

Lemma route_some cfg st b : workers_ok cfg -> exists w, route cfg st b = Some w.
Proof.
  unfold workers_ok, route, quick_hash. intros H. destruct (c_routing cfg); eauto.
  destruct (N.eqb_spec (c_workers cfg) 0); [lia|eauto].
Qed.

Lemma sent_body_not_fatal cfg st b : workers_ok cfg -> sent_body cfg st b <> OFatal.
Proof.
  intros H. unfold sent_body. destruct (is_empty b); [discriminate|].
  destruct (route_some cfg st b H) as [w ->]. discriminate.
Qed.

Lemma send_no_fatal cfg st b : workers_ok cfg -> has_fatal (seen_part st ++ [sent_body cfg st b]) = false.
Proof.
  intros H. unfold has_fatal. rewrite existsb_app. simpl.
  pose proof (sent_body_not_fatal cfg st b H).
  unfold seen_part. destruct (seenl st); simpl; destruct (sent_body cfg st b); try reflexivity; congruence.
Qed.

(* ---------- the action machine ---------- *)
Record gstate := mkG { g_st : bstate; g_added : list msg; g_pend : option msg }.

Inductive act :=
| AFeed (now : Z) (m : msg)              (* receive m: TFeed, make sure a batch exists, Seen/counter bookkeeping *)
| ASend (p : string) (repl : option Z)   (* sendBatch(batches[p]); then batches[p] = new batch / delete *)
| AAdd (now : Z).                        (* batches[pk].Add(pending change) with a final (non-retry) result *)

Definition feed_state (cfg : bcfg) (st : bstate) (now : Z) (m : msg) : bstate :=
  let pk := m_pkey m in
  mkBst (match aget pk (open st) with
         | Some ob => open st
         | None => aset pk (mkOB (new_batch (c_kind cfg) pk) now now) (open st)
         end)
        (if String.eqb (m_op m) "COMMIT"
         then seenl st ++ [mkSeen (m_txn m) (m_key m) (total st) (m_wal m)] else seenl st)
        (if String.eqb (curkey st) (m_key m) then total st else 0%Z)
        (if String.eqb (curkey st) (m_key m) then curkey st else m_key m)
        (rr st) (drops_big st) (drops_invalid st) false.

Definition finish (st : bstate) (opn : list (string * obatch)) : bstate :=
  mkBst opn (seenl st) (total st + 1) (curkey st) (rr st) (drops_big st) (drops_invalid st) false.

Definition astep (cfg : bcfg) (g : gstate) (a : act) : option (gstate * list tr) :=
  let st := g_st g in
  if dead st then None else
  match a with
  | AFeed now m =>
      match g_pend g with
      | Some _ => None
      | None => Some (mkG (feed_state cfg st now m) (g_added g) (if is_marker m then None else Some m), [TFeed m])
      end
  | ASend p repl =>
      match aget p (open st) with
      | None => None
      | Some ob =>
          let b := ob_batch ob in
          let st1 := sent_state cfg st b in
          Some (mkG (set_open st1 (match repl with
                                   | Some now => aset p (mkOB (new_batch (c_kind cfg) p) now now) (open st1)
                                   | None => adel p (open st1)
                                   end)) (g_added g) (g_pend g),
                map TOut (seen_part st ++ [sent_body cfg st b]))
      end
  | AAdd now =>
      match g_pend g with
      | None => None
      | Some m =>
          let p := m_pkey m in
          match aget p (open st) with
          | None => None
          | Some ob =>
              let '(b', r) := add (c_limits cfg) (ob_batch ob) m in
              match r with
              | AOk => Some (mkG (finish st (aset p (mkOB b' (ob_ctime ob) now) (open st))) (g_added g ++ [m]) None, [])
              | ATooBig => Some (mkG (finish (bump_big st) (aset p (mkOB b' (ob_ctime ob) (ob_mtime ob)) (open st)))
                                     (g_added g ++ [m]) None, [])
              | AInvalid => Some (mkG (finish (bump_invalid st) (aset p (mkOB b' (ob_ctime ob) (ob_mtime ob)) (open st)))
                                      (g_added g ++ [m]) None, [])
              | _ => None
              end
          end
      end
  end.

Fixpoint arun (cfg : bcfg) (g : gstate) (acts : list act) : option (gstate * list tr) :=
  match acts with
  | [] => Some (g, [])
  | a :: r => match astep cfg g a with
              | None => None
              | Some (g1, t1) => match arun cfg g1 r with
                                 | None => None
                                 | Some (g2, t2) => Some (g2, t1 ++ t2)
                                 end
              end
  end.

Lemma arun_app cfg a1 : forall g g1 t1 a2 g2 t2,
  arun cfg g a1 = Some (g1, t1) -> arun cfg g1 a2 = Some (g2, t2) ->
  arun cfg g (a1 ++ a2) = Some (g2, t1 ++ t2).
Proof.
  induction a1 as [|a r IH]; intros g g1 t1 a2 g2 t2 H1 H2; simpl in *.
  - inversion H1; subst. assumption.
  - destruct (astep cfg g a) as [[g' t']|]; [|discriminate].
    destruct (arun cfg g' r) as [[g'' t'']|] eqn:E; [|discriminate].
    inversion H1; subst. rewrite (IH _ _ _ _ _ _ E H2). now rewrite app_assoc.
Qed.

Lemma arun_one cfg g a g1 t1 : astep cfg g a = Some (g1, t1) -> arun cfg g [a] = Some (g1, t1).
Proof. intros H. simpl. rewrite H. now rewrite app_nil_r. Qed.

(* induction principle: a property of (state, trace) preserved by every action holds after every run *)
Lemma arun_inv cfg (P : gstate -> list tr -> Prop) :
  (forall g t a g' t', P g t -> astep cfg g a = Some (g', t') -> P g' (t ++ t')) ->
  forall acts g t g' t', P g t -> arun cfg g acts = Some (g', t') -> P g' (t ++ t').
Proof.
  intros Hstep. induction acts as [|a r IH]; intros g t g' t' HP H; simpl in H.
  - inversion H; subst. now rewrite app_nil_r.
  - destruct (astep cfg g a) as [[g1 t1]|] eqn:E; [|discriminate].
    destruct (arun cfg g1 r) as [[g2 t2]|] eqn:E2; [|discriminate].
    inversion H; subst. rewrite app_assoc. eapply IH; eauto.
Qed.

(* ---------- refinement: addToBatch ---------- *)
Definition with_ob (st : bstate) (p : string) (ob : obatch) : bstate := set_open st (aset p ob (open st)).

Lemma with_ob_same st p ob : aget p (open st) = Some ob -> with_ob st p ob = st.
Proof. intros H. unfold with_ob, set_open. rewrite (aset_same _ _ _ H). symmetry. apply bstate_eta. Qed.

Definition ok_status (s : add_status) : bool := match s with SOk | SFail => true | _ => false end.

Lemma add_to_batch_open fuel cfg : forall st b m st3 b3 s o,
  add_to_batch fuel cfg st b m = (st3, b3, s, o) -> open st3 = open st /\ dead st3 = dead st.
Proof.
  induction fuel as [|f IH]; intros st b m st3 b3 s o H; simpl in H;
    destruct (add (c_limits cfg) b m) as [b' r]; destruct r; inversion H; subst; auto.
  clear H1. rewrite send_batch_spec in H.
  destruct (add_to_batch f cfg (sent_state cfg st b) (new_batch (c_kind cfg) (m_pkey m)) m) as [[[st2 b2] s2] o2] eqn:E.
  inversion H; subst. apply IH in E. simpl in E. assumption.
Qed.

Lemma astep_send_with_ob cfg st p b ct mt added pend now : dead st = false ->
  astep cfg (mkG (with_ob st p (mkOB b ct mt)) added pend) (ASend p (Some now)) =
  Some (mkG (with_ob (sent_state cfg st b) p (mkOB (new_batch (c_kind cfg) p) now now)) added pend,
        map TOut (seen_part st ++ [sent_body cfg st b])).
Proof.
  intros Hd. unfold astep. simpl. rewrite Hd, aget_aset, String.eqb_refl. simpl.
  unfold with_ob, set_open, sent_state. simpl. rewrite aset_aset. reflexivity.
Qed.

Lemma add_to_batch_refines cfg now : forall fuel st b m st3 b3 s o3 ct mt added,
  add_to_batch fuel cfg st b m = (st3, b3, s, o3) -> ok_status s = true -> dead st = false ->
  let fresh := negb (match o3 with [] => true | _ => false end) in
  exists acts,
    arun cfg (mkG (with_ob st (m_pkey m) (mkOB b ct mt)) added (Some m)) acts =
    Some (mkG (finish st3 (aset (m_pkey m)
                 (mkOB b3 (if fresh then now else ct)
                          (match s with SOk => now | _ => if fresh then now else mt end)) (open st3)))
              (added ++ [m]) None, map TOut o3).
Proof.
  induction fuel as [|f IH]; intros st b m st3 b3 s o3 ct mt added H Hs Hd fresh.
  - (* no fuel left: only the direct results *)
    simpl in H. destruct (add (c_limits cfg) b m) as [b' r] eqn:Ha.
    exists [AAdd now]. apply arun_one. unfold astep. simpl. rewrite Hd. rewrite aget_aset, String.eqb_refl. simpl.
    rewrite Ha. destruct r; inversion H; subst; try discriminate; simpl; rewrite aset_aset; reflexivity.
  - simpl in H. destruct (add (c_limits cfg) b m) as [b' r] eqn:Ha.
    destruct r.
    + exists [AAdd now]. apply arun_one. unfold astep. simpl. rewrite Hd. rewrite aget_aset, String.eqb_refl. simpl.
      rewrite Ha. inversion H; subst. simpl. rewrite aset_aset. reflexivity.
    + exists [AAdd now]. apply arun_one. unfold astep. simpl. rewrite Hd. rewrite aget_aset, String.eqb_refl. simpl.
      rewrite Ha. inversion H; subst. simpl. rewrite aset_aset. reflexivity.
    + inversion H; subst. discriminate.
    + rewrite send_batch_spec in H.
      destruct (add_to_batch f cfg (sent_state cfg st b) (new_batch (c_kind cfg) (m_pkey m)) m)
        as [[[st2 b2] s2] o2] eqn:E.
      inversion H; subst. clear H.
      destruct (IH _ _ _ _ _ _ _ now now added E Hs Hd) as [acts Hacts].
      exists (ASend (m_pkey m) (Some now) :: acts).
      cbn [arun]. rewrite astep_send_with_ob by assumption. rewrite Hacts.
      f_equal. f_equal.
      * f_equal. f_equal. f_equal. f_equal.
        -- subst fresh. destruct (seen_part st); simpl; destruct o2; reflexivity.
        -- subst fresh. destruct s; try reflexivity; destruct (seen_part st); simpl; destruct o2; reflexivity.
      * symmetry. apply map_app.
    + exists [AAdd now]. apply arun_one. unfold astep. simpl. rewrite Hd. rewrite aget_aset, String.eqb_refl. simpl.
      rewrite Ha. inversion H; subst. simpl. rewrite aset_aset. reflexivity.
Qed.

(* ---------- refinement: one received message ---------- *)
Definition cur_ob (cfg : bcfg) (st : bstate) (now : Z) (pk : string) : obatch :=
  match aget pk (open st) with Some ob => ob | None => mkOB (new_batch (c_kind cfg) pk) now now end.

Lemma bstep_msg_eq cfg st now m : dead st = false ->
  bstep_msg cfg st now m =
  let pk := m_pkey m in
  let st1 := feed_state cfg st now m in
  let ob0 := cur_ob cfg st now pk in
  let '(st2, ob2, o2) :=
    if is_full (c_limits cfg) (ob_batch ob0)
    then let '(s, o) := send_batch cfg st1 (ob_batch ob0) in
         let ob := mkOB (new_batch (c_kind cfg) pk) now now in
         (set_open s (aset pk ob (open s)), ob, o)
    else (st1, ob0, []) in
  if has_fatal o2
  then (mkBst (open st2) (seenl st2) (total st2) (curkey st2) (rr st2) (drops_big st2) (drops_invalid st2) true, o2) else
  if is_marker m then (st2, o2) else
  let '(st3, b3, status, o3) := add_to_batch 2 cfg st2 (ob_batch ob2) m in
  let fresh := negb (match o3 with [] => true | _ => false end) in
  let ob3 := mkOB b3 (if fresh then now else ob_ctime ob2)
                     (match status with SOk => now | _ => if fresh then now else ob_mtime ob2 end) in
  let st4 := set_open st3 (aset pk ob3 (open st3)) in
  match status with
  | SFatal | SNoFuel => (mkBst (open st4) (seenl st4) (total st4) (curkey st4) (rr st4) (drops_big st4) (drops_invalid st4) true,
                         o2 ++ o3 ++ [OFatal])
  | _ => (mkBst (open st4) (seenl st4) (total st4 + 1) (curkey st4) (rr st4) (drops_big st4) (drops_invalid st4) false, o2 ++ o3)
  end.
Proof.
  intros Hd. unfold bstep_msg, feed_state, cur_ob, has_fatal. rewrite Hd.
  destruct (aget (m_pkey m) (open st)); destruct (String.eqb (curkey st) (m_key m)); reflexivity.
Qed.

Lemma feed_state_aget cfg st now m :
  aget (m_pkey m) (open (feed_state cfg st now m)) = Some (cur_ob cfg st now (m_pkey m)).
Proof.
  unfold feed_state, cur_ob. simpl. destruct (aget (m_pkey m) (open st)) eqn:E; [assumption|].
  now rewrite aget_aset, String.eqb_refl.
Qed.

Lemma obatch_eta ob : ob = mkOB (ob_batch ob) (ob_ctime ob) (ob_mtime ob).
Proof. destruct ob; reflexivity. Qed.

Lemma bstep_msg_refines cfg st now m st' o added :
  workers_ok cfg -> dead st = false -> bstep_msg cfg st now m = (st', o) -> dead st' = false ->
  exists acts, arun cfg (mkG st added None) acts =
               Some (mkG st' (added ++ changes [m]) None, TFeed m :: map TOut o).
Proof.
  intros Hw Hd H Hd'. rewrite bstep_msg_eq in H by assumption. cbv zeta in H.
  (* the feed action *)
  assert (Hfeed : astep cfg (mkG st added None) (AFeed now m) =
                  Some (mkG (feed_state cfg st now m) added (if is_marker m then None else Some m), [TFeed m])).
  { unfold astep. simpl. now rewrite Hd. }
  set (st1 := feed_state cfg st now m) in *.
  set (ob0 := cur_ob cfg st now (m_pkey m)) in *.
  pose proof (feed_state_aget cfg st now m) as Hg0. fold st1 ob0 in Hg0.
  assert (Hd1 : dead st1 = false) by reflexivity.
  (* phase 1: a full batch is sent and replaced *)
  assert (Hph1 : exists st2 ob2 o2 acts1,
            (if is_full (c_limits cfg) (ob_batch ob0)
             then let '(s, o) := send_batch cfg st1 (ob_batch ob0) in
                  (set_open s (aset (m_pkey m) (mkOB (new_batch (c_kind cfg) (m_pkey m)) now now) (open s)),
                   mkOB (new_batch (c_kind cfg) (m_pkey m)) now now, o)
             else (st1, ob0, [])) = (st2, ob2, o2) /\
            has_fatal o2 = false /\ dead st2 = false /\ aget (m_pkey m) (open st2) = Some ob2 /\
            forall pend, arun cfg (mkG st1 added pend) acts1 = Some (mkG st2 added pend, map TOut o2)).
  { destruct (is_full (c_limits cfg) (ob_batch ob0)).
    - rewrite send_batch_spec. do 3 eexists. exists [ASend (m_pkey m) (Some now)].
      split; [reflexivity|]. split; [now apply send_no_fatal|]. split; [reflexivity|].
      split; [simpl; now rewrite aget_aset, String.eqb_refl|].
      intros pend. apply arun_one. unfold astep. simpl g_st. rewrite Hd1, Hg0. reflexivity.
    - exists st1, ob0, [], []. repeat split; auto. }
  destruct Hph1 as (st2 & ob2 & o2 & acts1 & E1 & Hnf & Hd2 & Hg2 & Hrun1).
  rewrite E1 in H. rewrite Hnf in H.
  destruct (is_marker m) eqn:Hm.
  - (* BEGIN / COMMIT *)
    inversion H; subst. exists (AFeed now m :: acts1).
    cbn [arun]. rewrite Hfeed, Hrun1. unfold changes, change. simpl. rewrite Hm. simpl.
    now rewrite app_nil_r.
  - destruct (add_to_batch 2 cfg st2 (ob_batch ob2) m) as [[[st3 b3] status] o3] eqn:E3.
    destruct (ok_status status) eqn:Hs.
    2:{ destruct status; try discriminate; inversion H; subst; discriminate. }
    pose proof (add_to_batch_refines cfg now 2 st2 (ob_batch ob2) m st3 b3 status o3
                  (ob_ctime ob2) (ob_mtime ob2) added E3 Hs Hd2) as Hr.
    rewrite <- obatch_eta in Hr. rewrite (with_ob_same _ _ _ Hg2) in Hr.
    assert (Hst' : st' = finish st3 (aset (m_pkey m)
               (mkOB b3 (if negb (match o3 with [] => true | _ => false end) then now else ob_ctime ob2)
                        (match status with SOk => now
                         | _ => if negb (match o3 with [] => true | _ => false end) then now else ob_mtime ob2 end))
               (open st3)) /\ o = o2 ++ o3).
    { destruct status; try discriminate; inversion H; subst; split; reflexivity. }
    destruct Hst' as [-> ->]. cbv zeta in Hr. destruct Hr as [acts2 Hr].
    exists (AFeed now m :: acts1 ++ acts2). cbn [arun]. rewrite Hfeed.
    rewrite (arun_app _ _ _ _ _ _ _ _ (Hrun1 (Some m)) Hr).
    unfold changes, change. simpl. rewrite Hm. simpl. now rewrite map_app.
Qed.

(* ---------- refinement: tick ---------- *)
Lemma flush_keys_refines cfg added pend : workers_ok cfg -> forall ks st st' o,
  dead st = false -> flush_keys cfg st ks = (st', o) ->
  dead st' = false /\
  exists acts, arun cfg (mkG st added pend) acts = Some (mkG st' added pend, map TOut o).
Proof.
  intros Hw. induction ks as [|k r IH]; intros st st' o Hd H; simpl in H.
  - inversion H; subst. split; [assumption|]. exists []. reflexivity.
  - destruct (aget k (open st)) as [ob|] eqn:Hg; [|eauto].
    rewrite send_batch_spec in H.
    change (existsb _ ?x) with (has_fatal x) in H. rewrite send_no_fatal in H by assumption.
    destruct (flush_keys cfg (set_open (sent_state cfg st (ob_batch ob)) (adel k (open (sent_state cfg st (ob_batch ob))))) r)
      as [st2 o2] eqn:E.
    inversion H; subst. apply IH in E; [|exact Hd]. destruct E as [Hd2 [acts Hacts]].
    split; [assumption|]. exists (ASend k None :: acts). cbn [arun].
    unfold astep at 1. simpl g_st. rewrite Hd, Hg. cbv zeta. simpl g_added. simpl g_pend.
    rewrite Hacts. f_equal. f_equal. symmetry. apply map_app.
Qed.

Lemma bstep_tick_refines cfg st now order pops st' o added :
  workers_ok cfg -> dead st = false -> bstep_tick cfg st now order pops = Some (st', o) ->
  dead st' = false /\
  exists acts, arun cfg (mkG st added None) acts = Some (mkG st' added None, map TOut o).
Proof.
  intros Hw Hd H. unfold bstep_tick in H. rewrite Hd in H.
  destruct (negb (is_perm_of_keys order st)); [discriminate|].
  destruct (mem_flush _ cfg st _ _ pops) as [mf|]; [|discriminate].
  inversion H as [H1]. eapply flush_keys_refines; eauto.
Qed.

(* ---------- refinement: whole runs ---------- *)
Lemma bstep_dead cfg st e : dead st = true -> bstep cfg st e = (st, []).
Proof.
  intros Hd. destruct e; simpl.
  - now rewrite Hd.
  - unfold bstep_tick. now rewrite Hd.
Qed.

Lemma brun_dead cfg evs : forall st, dead st = true -> brun cfg st evs = (st, []).
Proof.
  induction evs as [|e r IH]; intros st Hd; simpl; [reflexivity|].
  rewrite bstep_dead by assumption. now rewrite IH.
Qed.

Lemma brun_refines cfg : workers_ok cfg -> forall evs st st' t added,
  brun cfg st evs = (st', t) -> dead st' = false ->
  exists acts, arun cfg (mkG st added None) acts = Some (mkG st' (added ++ changes (fed t)) None, t).
Proof.
  intros Hw. induction evs as [|e r IH]; intros st st' t added H Hd'; simpl in H.
  - inversion H; subst. exists []. simpl. now rewrite app_nil_r.
  - destruct (bstep cfg st e) as [st1 t1] eqn:E1. destruct (brun cfg st1 r) as [st2 t2] eqn:E2.
    inversion H; subst. clear H.
    destruct (dead st1) eqn:Hd1.
    { rewrite brun_dead in E2 by assumption. inversion E2; subst. congruence. }
    destruct (dead st) eqn:Hd.
    { rewrite bstep_dead in E1 by assumption. inversion E1; subst. congruence. }
    assert (Hstep : exists acts1, arun cfg (mkG st added None) acts1 =
                                  Some (mkG st1 (added ++ changes (fed t1)) None, t1)).
    { destruct e as [now m|now order pops]; simpl in E1.
      - rewrite Hd in E1. destruct (bstep_msg cfg st now m) as [sx ox] eqn:Em. inversion E1; subst.
        destruct (bstep_msg_refines cfg st now m st1 ox added Hw Hd Em Hd1) as [acts Ha].
        exists acts. rewrite Ha. now rewrite fed_cons_feed, fed_outs.
      - destruct (bstep_tick cfg st now order pops) as [[sx ox]|] eqn:Et.
        + inversion E1; subst.
          destruct (bstep_tick_refines cfg st now order pops st1 ox added Hw Hd Et) as [_ [acts Ha]].
          exists acts. rewrite Ha. rewrite fed_outs. simpl. now rewrite app_nil_r.
        + inversion E1; subst. exists []. simpl. now rewrite app_nil_r. }
    destruct Hstep as [acts1 H1].
    destruct (IH _ _ _ (added ++ changes (fed t1)) E2 Hd') as [acts2 H2].
    exists (acts1 ++ acts2). rewrite (arun_app _ _ _ _ _ _ _ _ H1 H2).
    now rewrite fed_app, changes_app, app_assoc.
Qed.

Definition ginit : gstate := mkG binit [] None.

(* every run of the model that does not end dead is a run of the action machine *)
Lemma brun_machine cfg evs st t :
  workers_ok cfg -> brun cfg binit evs = (st, t) -> dead st = false ->
  exists acts, arun cfg ginit acts = Some (mkG st (changes (fed t)) None, t).
Proof. intros Hw H Hd. apply (brun_refines cfg Hw evs binit st t [] H Hd). Qed.

(* ================= invariants of the action machine ================= *)

Definition final_res (r : add_result) : bool := match r with AOk | ATooBig | AInvalid => true | _ => false end.
Definition bump_for (r : add_result) (st : bstate) : bstate :=
  match r with ATooBig => bump_big st | AInvalid => bump_invalid st | _ => st end.
Definition olist {A} (o : option A) : list A := match o with Some x => [x] | None => [] end.

(* the three ways a step can be taken, in a form convenient for invariant proofs *)
Lemma astep_cases cfg g a g' t' : astep cfg g a = Some (g', t') ->
  dead (g_st g) = false /\
  ((exists now m, a = AFeed now m /\ g_pend g = None /\
       g' = mkG (feed_state cfg (g_st g) now m) (g_added g) (if is_marker m then None else Some m) /\
       t' = [TFeed m])
   \/
   (exists p repl ob, a = ASend p repl /\ aget p (open (g_st g)) = Some ob /\
       g' = mkG (set_open (sent_state cfg (g_st g) (ob_batch ob))
                   (match repl with
                    | Some now => aset p (mkOB (new_batch (c_kind cfg) p) now now) (open (g_st g))
                    | None => adel p (open (g_st g))
                    end)) (g_added g) (g_pend g) /\
       t' = map TOut (seen_part (g_st g) ++ [sent_body cfg (g_st g) (ob_batch ob)]))
   \/
   (exists now m ob b' r, a = AAdd now /\ g_pend g = Some m /\
       aget (m_pkey m) (open (g_st g)) = Some ob /\
       add (c_limits cfg) (ob_batch ob) m = (b', r) /\ final_res r = true /\
       g' = mkG (finish (bump_for r (g_st g))
                   (aset (m_pkey m) (mkOB b' (ob_ctime ob) (match r with AOk => now | _ => ob_mtime ob end))
                         (open (g_st g))))
                (g_added g ++ [m]) None /\
       t' = [])).
Proof.
  unfold astep. destruct (dead (g_st g)) eqn:Hd; [discriminate|]. intros H. split; [reflexivity|].
  destruct a as [now m|p repl|now].
  - left. destruct (g_pend g); [discriminate|]. inversion H; subst. eauto 8.
  - right; left. destruct (aget p (open (g_st g))) as [ob|] eqn:Hg; [|discriminate].
    inversion H; subst. exists p, repl, ob. auto.
  - right; right. destruct (g_pend g) as [m|]; [|discriminate].
    destruct (aget (m_pkey m) (open (g_st g))) as [ob|] eqn:Hg; [|discriminate].
    destruct (add (c_limits cfg) (ob_batch ob) m) as [b' r] eqn:Ha.
    exists now, m, ob, b', r. destruct r; try discriminate; inversion H; subst; auto 10.
Qed.

(* what a send contributes to the projections of the trace *)
Lemma seen_outs_send cfg st b : seen_outs (map TOut (seen_part st ++ [sent_body cfg st b])) = seenl st.
Proof.
  unfold seen_part, sent_body. destruct (seenl st); simpl; destruct (is_empty b); simpl;
    try destruct (route cfg st b); simpl; rewrite ?app_nil_r; reflexivity.
Qed.
Lemma dispatched_send cfg st b :
  dispatched (map TOut (seen_part st ++ [sent_body cfg st b])) =
  if is_empty b then [] else match route cfg st b with Some w => [(w, b)] | None => [] end.
Proof.
  unfold seen_part, sent_body. destruct (seenl st); simpl; destruct (is_empty b); simpl;
    try destruct (route cfg st b); reflexivity.
Qed.
Lemma empties_send cfg st b :
  empties (map TOut (seen_part st ++ [sent_body cfg st b])) = if is_empty b then [b_txns b] else [].
Proof.
  unfold seen_part, sent_body. destruct (seenl st); simpl; destruct (is_empty b); simpl;
    try destruct (route cfg st b); reflexivity.
Qed.

(* ---------- structure of the open map; limits of every batch (C06, C15) ---------- *)
Definition kind_ok (cfg : bcfg) : Prop :=
  match c_kind cfg with BGeneric mx => (0 <= mx)%Z | BKinesis _ => True end.

Definition entry_ok (cfg : bcfg) (p : string * obatch) : Prop :=
  b_pkey (ob_batch (snd p)) = fst p /\ b_kind (ob_batch (snd p)) = c_kind cfg /\
  (kind_ok cfg -> batch_ok (c_limits cfg) (ob_batch (snd p))).

Definition open_ok (cfg : bcfg) (st : bstate) : Prop :=
  NoDup (map fst (open st)) /\ Forall (entry_ok cfg) (open st).

Lemma Forall_aset_b {V} (P : string * V -> Prop) k v m : Forall P m -> P (k, v) -> Forall P (aset k v m).
Proof.
  intros Hm Hp. induction Hm as [|[k' v'] m Hp' Hm IH]; simpl.
  - constructor; auto.
  - destruct (String.eqb_spec k k') as [->|Hne]; constructor; auto.
Qed.
Lemma Forall_adel_b {V} (P : string * V -> Prop) k m : Forall P m -> Forall P (adel k m).
Proof.
  induction 1 as [|[k' v] m Hp Hm IH]; simpl; [constructor|].
  destruct (String.eqb k k'); auto.
Qed.

Lemma new_entry_ok cfg p c t : entry_ok cfg (p, mkOB (new_batch (c_kind cfg) p) c t).
Proof.
  unfold entry_ok; simpl. repeat split; auto. intros H. apply new_batch_ok. exact H.
Qed.

Lemma open_ok_aget cfg st p ob : open_ok cfg st -> aget p (open st) = Some ob -> entry_ok cfg (p, ob).
Proof.
  intros [_ H] Hg. rewrite Forall_forall in H. apply H. now apply aget_some_in.
Qed.

Lemma open_ok_step cfg g a g' t' : astep cfg g a = Some (g', t') -> open_ok cfg (g_st g) -> open_ok cfg (g_st g').
Proof.
  intros H [Hnd Hall]. apply astep_cases in H. destruct H as [Hd [H|[H|H]]].
  - destruct H as (now & m & -> & Hp & -> & ->). unfold open_ok, feed_state; simpl.
    destruct (aget (m_pkey m) (open (g_st g))) eqn:E; [split; assumption|].
    split; [now apply nodup_aset|]. apply Forall_aset_b; [assumption|apply new_entry_ok].
  - destruct H as (p & repl & ob & -> & Hg & -> & ->). unfold open_ok; simpl.
    destruct repl as [now|].
    + split; [now apply nodup_aset|]. apply Forall_aset_b; [assumption|apply new_entry_ok].
    + split; [now apply nodup_adel|now apply Forall_adel_b].
  - destruct H as (now & m & ob & b' & r & -> & Hp & Hg & Ha & Hr & -> & ->). unfold open_ok; simpl.
    split; [now apply nodup_aset|]. apply Forall_aset_b; [assumption|].
    destruct (open_ok_aget cfg _ _ _ (conj Hnd Hall) Hg) as (E1 & E2 & E3). simpl in *.
    unfold entry_ok; simpl. rewrite (add_pkey _ _ _ _ _ Ha), (add_kind _ _ _ _ _ Ha).
    repeat split; auto. intros Hk. eapply add_ok; eauto.
Qed.

Lemma open_ok_init cfg : open_ok cfg binit.
Proof. split; constructor. Qed.

(* every dispatched batch came out of the open map: non-empty, of the configured kind, within limits *)
Definition disp_ok (cfg : bcfg) (t : list tr) : Prop :=
  forall w b, In (w, b) (dispatched t) ->
    is_empty b = false /\ b_kind b = c_kind cfg /\ (kind_ok cfg -> batch_ok (c_limits cfg) b).

Lemma struct_inv cfg acts g t :
  arun cfg ginit acts = Some (g, t) -> open_ok cfg (g_st g) /\ disp_ok cfg t.
Proof.
  intros H.
  apply (arun_inv cfg (fun g t => open_ok cfg (g_st g) /\ disp_ok cfg t)) with (t := []) (g := ginit) (acts := acts).
  - clear. intros g t a g' t' [Ho Hdisp] H. split; [eapply open_ok_step; eauto|].
    intros w b Hin. rewrite dispatched_app in Hin.
    apply in_app_or in Hin. destruct Hin as [Hin|Hin]; [exact (Hdisp w b Hin)|].
    apply astep_cases in H. destruct H as [Hd [H|[H|H]]].
    + destruct H as (now & m & -> & Hp & -> & ->). destruct Hin.
    + destruct H as (p & repl & ob & -> & Hg & -> & ->). rewrite dispatched_send in Hin.
      destruct (is_empty (ob_batch ob)) eqn:He; [destruct Hin|].
      destruct (route cfg (g_st g) (ob_batch ob)); [|destruct Hin].
      destruct Hin as [E|[]]. inversion E; subst.
      destruct (open_ok_aget cfg _ _ _ Ho Hg) as (E1 & E2 & E3). auto.
    + destruct H as (now & m & ob & b' & r & -> & Hp & Hg & Ha & Hr & -> & ->). destruct Hin.
  - split; [apply open_ok_init|]. intros w b [].
  - exact H.
Qed.

(* ---------- the final result of Add on a change is decided by the change alone ---------- *)
Definition accepted (cfg : bcfg) (m : msg) : bool :=
  match fate_of cfg m with FAccepted => true | _ => false end.

Lemma add_fate cfg b m b' r :
  b_kind b = c_kind cfg -> is_marker m = false -> add (c_limits cfg) b m = (b', r) -> final_res r = true ->
  fate_of cfg m = match r with AOk => FAccepted | ATooBig => FDroppedBig | _ => FDroppedInvalid end.
Proof.
  intros Hk Hm Ha Hr. unfold fate_of. destruct (c_kind cfg) as [mx|meth] eqn:Ek.
  - destruct (add_result_generic _ _ _ _ _ _ Ha Hm Hk) as [[-> _]|[-> _]]; [reflexivity|discriminate].
  - pose proof (add_result_kinesis _ _ _ _ _ _ Ha Hm Hk) as H. fold (pk_of meth m).
    destruct r; try discriminate.
    + destruct H as (H1 & _ & H3 & _). apply N.ltb_ge in H1. rewrite H1.
      destruct (String.eqb_spec (pk_of meth m) ""); [contradiction|reflexivity].
    + apply N.ltb_lt in H. now rewrite H.
    + destruct H as (H1 & _ & H3). apply N.ltb_ge in H1. rewrite H1, H3. reflexivity.
Qed.

Definition pend_change (g : gstate) : Prop := forall m, g_pend g = Some m -> is_marker m = false.

Lemma pend_change_step cfg g a g' t' : astep cfg g a = Some (g', t') -> pend_change g -> pend_change g'.
Proof.
  intros H Hp. apply astep_cases in H. destruct H as [Hd [H|[H|H]]].
  - destruct H as (now & m & -> & _ & -> & ->). intros m'. simpl.
    destruct (is_marker m) eqn:E; [discriminate|]. intros H; inversion H; subst; assumption.
  - destruct H as (p & repl & ob & -> & Hg & -> & ->). exact Hp.
  - destruct H as (now & m & ob & b' & r & -> & _ & Hg & Ha & Hr & -> & ->). intros m'; discriminate.
Qed.

(* ---------- per partition key nothing is reordered, lost or invented (C05, C06) ---------- *)
Definition accp (cfg : bcfg) (p : string) (m : msg) : bool :=
  change m && accepted cfg m && String.eqb (m_pkey m) p.

Definition items_for (p : string) (wb : N * batch) : list rec :=
  if String.eqb (b_pkey (snd wb)) p then b_items (snd wb) else [].
Definition disp_items (p : string) (t : list tr) : list rec := flat_map (items_for p) (dispatched t).
Definition open_items (p : string) (st : bstate) : list rec :=
  match aget p (open st) with Some ob => b_items (ob_batch ob) | None => [] end.

Definition pk_inv (cfg : bcfg) (g : gstate) (t : list tr) : Prop :=
  forall p, disp_items p t ++ open_items p (g_st g) =
            map (rec_of_kind (c_kind cfg)) (filter (accp cfg p) (g_added g)).

Lemma disp_items_app p a b : disp_items p (a ++ b) = disp_items p a ++ disp_items p b.
Proof. unfold disp_items. now rewrite dispatched_app, flat_map_app. Qed.

Lemma is_empty_items b : is_empty b = true -> b_items b = [].
Proof. unfold is_empty. destruct (b_items b); [reflexivity|discriminate]. Qed.

Lemma pk_inv_step cfg g a g' t t' :
  workers_ok cfg ->
  astep cfg g a = Some (g', t') -> open_ok cfg (g_st g) -> pend_change g -> pk_inv cfg g t -> pk_inv cfg g' (t ++ t').
Proof.
  intros Hw H Ho Hpc Hpk p. specialize (Hpk p). rewrite disp_items_app.
  apply astep_cases in H. destruct H as [Hd [H|[H|H]]].
  - destruct H as (now & m & -> & _ & -> & ->). simpl g_st. simpl g_added.
    unfold disp_items at 2. simpl. rewrite app_nil_r. rewrite <- Hpk. f_equal.
    unfold open_items, feed_state. simpl.
    destruct (aget (m_pkey m) (open (g_st g))) eqn:E; [reflexivity|].
    rewrite aget_aset. destruct (String.eqb_spec p (m_pkey m)) as [->|Hne]; [now rewrite E|reflexivity].
  - destruct H as (p0 & repl & ob & -> & Hg & -> & ->). simpl g_st. simpl g_added. rewrite <- Hpk.
    destruct (open_ok_aget cfg _ _ _ Ho Hg) as (E1 & E2 & E3). simpl in E1.
    unfold disp_items at 2. rewrite dispatched_send.
    assert (Hopen : open_items p (set_open (sent_state cfg (g_st g) (ob_batch ob))
               match repl with
               | Some now => aset p0 (mkOB (new_batch (c_kind cfg) p0) now now) (open (g_st g))
               | None => adel p0 (open (g_st g))
               end) = if String.eqb p p0 then [] else open_items p (g_st g)).
    { unfold open_items. simpl. destruct repl; [rewrite aget_aset|rewrite aget_adel];
        destruct (String.eqb p p0); reflexivity. }
    rewrite Hopen. rewrite <- app_assoc. f_equal.
    destruct (String.eqb_spec p p0) as [->|Hne].
    + unfold open_items at 1. rewrite Hg.
      destruct (is_empty (ob_batch ob)) eqn:He.
      * simpl. now rewrite is_empty_items.
      * destruct (route_some cfg (g_st g) (ob_batch ob) Hw) as [w ->]. simpl.
        unfold items_for. simpl. rewrite E1, String.eqb_refl. now rewrite !app_nil_r.
    + destruct (is_empty (ob_batch ob)) eqn:He; [reflexivity|].
      destruct (route_some cfg (g_st g) (ob_batch ob) Hw) as [w ->]. simpl.
      unfold items_for. simpl. rewrite E1.
      destruct (String.eqb_spec p0 p); [congruence|reflexivity].
  - destruct H as (now & m & ob & b' & r & -> & Hp & Hg & Ha & Hr & -> & ->). simpl g_st. simpl g_added.
    unfold disp_items at 2. simpl. rewrite app_nil_r.
    destruct (open_ok_aget cfg _ _ _ Ho Hg) as (E1 & E2 & E3). simpl in E1, E2.
    pose proof (Hpc _ Hp) as Hm.
    pose proof (add_fate cfg _ _ _ _ E2 Hm Ha Hr) as Hf.
    rewrite filter_app, map_app, <- Hpk, <- app_assoc. f_equal.
    unfold open_items. simpl. rewrite aget_aset.
    unfold accp, accepted, change. simpl. rewrite Hm, Hf. simpl.
    rewrite (String.eqb_sym (m_pkey m) p).
    destruct (String.eqb_spec p (m_pkey m)) as [->|Hne].
    + rewrite Hg. simpl. rewrite (add_items _ _ _ _ _ Ha). unfold change. rewrite Hm, E2.
      destruct r; try discriminate; simpl; rewrite ?app_nil_r; reflexivity.
    + destruct r; try discriminate; simpl; now rewrite app_nil_r.
Qed.

Lemma pk_invariant cfg acts g t : workers_ok cfg ->
  arun cfg ginit acts = Some (g, t) -> open_ok cfg (g_st g) /\ pend_change g /\ pk_inv cfg g t.
Proof.
  intros Hw H.
  apply (arun_inv cfg (fun g t => open_ok cfg (g_st g) /\ pend_change g /\ pk_inv cfg g t))
    with (t := []) (g := ginit) (acts := acts).
  - intros g0 t0 a g1 t1 (Ho & Hp & Hk) Hs. split; [eapply open_ok_step; eauto|].
    split; [eapply pend_change_step; eauto|]. eapply pk_inv_step; eauto.
  - split; [apply open_ok_init|]. split; [intros m; discriminate|]. intros p. reflexivity.
  - exact H.
Qed.

(* ================= statements about runs of the model ================= *)
Lemma sublist_map {A B} (f : A -> B) a b : sublist a b -> sublist (map f a) (map f b).
Proof. induction 1; simpl; [apply sub_nil|apply sub_skip|apply sub_take]; auto. Qed.
Lemma sublist_app_l {A} (a b : list A) : sublist a (a ++ b).
Proof. rewrite <- (app_nil_r a) at 1. apply sublist_app; [apply sublist_refl|apply sub_nil]. Qed.
Lemma sublist_app_r {A} (a b : list A) : sublist b (a ++ b).
Proof. change b with ([] ++ b) at 1. apply sublist_app; [apply sub_nil|apply sublist_refl]. Qed.
Lemma sublist_flat_map {A B} (f : A -> list B) x l : In x l -> sublist (f x) (flat_map f l).
Proof.
  induction l as [|y l IH]; simpl; [tauto|]. intros [->|H].
  - apply sublist_app_l.
  - eapply sublist_trans; [apply IH; assumption|apply sublist_app_r].
Qed.
Lemma sublist_filter {A} (p : A -> bool) l : sublist (filter p l) l.
Proof. induction l as [|x l IH]; simpl; [apply sub_nil|]. destruct (p x); [apply sub_take|apply sub_skip]; auto. Qed.

Lemma filter_changes (f : msg -> bool) l : (forall m, f m = true -> change m = true) ->
  filter f (changes l) = filter f l.
Proof.
  intros H. unfold changes. induction l as [|m l IH]; simpl; [reflexivity|].
  destruct (change m) eqn:E; simpl; rewrite IH; [reflexivity|].
  destruct (f m) eqn:F; [rewrite (H _ F) in E; discriminate|reflexivity].
Qed.

Lemma accp_change cfg p m : accp cfg p m = true -> change m = true.
Proof. unfold accp. intros H. apply andb_prop in H. destruct H as [H _]. apply andb_prop in H. tauto. Qed.

Definition dispatched_for (p : string) (t : list tr) : list (N * batch) :=
  filter (fun wb => String.eqb (b_pkey (snd wb)) p) (dispatched t).

Lemma disp_items_for p t : flat_map (fun wb => b_items (snd wb)) (dispatched_for p t) = disp_items p t.
Proof.
  unfold dispatched_for, disp_items, items_for. induction (dispatched t) as [|wb l IH]; simpl; [reflexivity|].
  destruct (String.eqb (b_pkey (snd wb)) p); simpl; now rewrite IH.
Qed.

(* C05_per_key, on records (ids, partition keys and lengths), hence on ids *)
Lemma run_per_key cfg evs st t : workers_ok cfg -> brun cfg binit evs = (st, t) -> dead st = false ->
  forall p,
    flat_map (fun wb => b_items (snd wb)) (dispatched_for p t) ++ open_items p st =
    map (rec_of_kind (c_kind cfg)) (filter (accp cfg p) (fed t)).
Proof.
  intros Hw H Hd p. destruct (brun_machine cfg evs st t Hw H Hd) as [acts Ha].
  destruct (pk_invariant cfg acts _ _ Hw Ha) as (_ & _ & Hpk). specialize (Hpk p). simpl in Hpk.
  rewrite disp_items_for, Hpk. rewrite filter_changes; [reflexivity|apply accp_change].
Qed.

Lemma run_per_key_ids cfg evs st t : workers_ok cfg -> brun cfg binit evs = (st, t) -> dead st = false ->
  forall p,
    flat_map (fun wb => ids (snd wb)) (dispatched_for p t) ++ map r_id (open_items p st) =
    map m_id (filter (accp cfg p) (fed t)).
Proof.
  intros Hw H Hd p. pose proof (run_per_key cfg evs st t Hw H Hd p) as E.
  apply (f_equal (map r_id)) in E. rewrite map_app, map_map in E.
  rewrite (map_ext _ m_id (r_id_rec_of_kind (c_kind cfg))) in E. rewrite <- E. f_equal.
  clear E. unfold ids. induction (dispatched_for p t) as [|wb l IH]; simpl; [reflexivity|]. now rewrite map_app, IH.
Qed.

(* C06_homogeneous *)
Lemma run_homogeneous cfg evs st t : workers_ok cfg -> brun cfg binit evs = (st, t) -> dead st = false ->
  (forall p ob, In (p, ob) (open st) -> b_pkey (ob_batch ob) = p /\ b_kind (ob_batch ob) = c_kind cfg) /\
  (forall w b r, In (w, b) (dispatched t) -> In r (b_items b) ->
     exists m, In m (fed t) /\ is_marker m = false /\ fate_of cfg m = FAccepted /\
               m_pkey m = b_pkey b /\ r = rec_of_kind (c_kind cfg) m).
Proof.
  intros Hw H Hd. destruct (brun_machine cfg evs st t Hw H Hd) as [acts Ha].
  destruct (pk_invariant cfg acts _ _ Hw Ha) as ((_ & Ho) & _ & _). simpl in Ho. split.
  - intros p ob Hin. rewrite Forall_forall in Ho. destruct (Ho _ Hin) as (E1 & E2 & _). auto.
  - intros w b r Hin Hr.
    pose proof (run_per_key cfg evs st t Hw H Hd (b_pkey b)) as E.
    assert (Hin' : In r (map (rec_of_kind (c_kind cfg)) (filter (accp cfg (b_pkey b)) (fed t)))).
    { rewrite <- E. apply in_or_app. left. apply in_flat_map. exists (w, b). split; [|exact Hr].
      unfold dispatched_for. apply filter_In. split; [assumption|]. simpl. apply String.eqb_refl. }
    apply in_map_iff in Hin'. destruct Hin' as (m & <- & Hm). apply filter_In in Hm. destruct Hm as [Hm1 Hm2].
    exists m. unfold accp, accepted, change in Hm2.
    apply andb_prop in Hm2. destruct Hm2 as [Hm2 Hm3]. apply andb_prop in Hm2. destruct Hm2 as [Hm2 Hm4].
    apply negb_true_iff in Hm2. apply String.eqb_eq in Hm3.
    repeat split; auto. destruct (fate_of cfg m); try discriminate; reflexivity.
Qed.

(* C05_in_batch *)
Lemma run_in_batch cfg evs st t : workers_ok cfg -> brun cfg binit evs = (st, t) -> dead st = false ->
  forall w b, In (w, b) (dispatched t) ->
    sublist (b_items b) (map (rec_of_kind (c_kind cfg)) (fed t)) /\ sublist (ids b) (map m_id (fed t)).
Proof.
  intros Hw H Hd w b Hin.
  assert (S1 : sublist (b_items b) (map (rec_of_kind (c_kind cfg)) (fed t))).
  { pose proof (run_per_key cfg evs st t Hw H Hd (b_pkey b)) as E.
    eapply sublist_trans; [|apply sublist_map; apply (sublist_filter (accp cfg (b_pkey b)))].
    rewrite <- E. eapply sublist_trans; [|apply sublist_app_l].
    apply (sublist_flat_map (fun wb => b_items (snd wb)) (w, b)).
    unfold dispatched_for. apply filter_In. split; [assumption|]. simpl. apply String.eqb_refl. }
  split; [assumption|]. unfold ids. apply (sublist_map r_id) in S1. rewrite map_map in S1.
  now rewrite (map_ext _ m_id (r_id_rec_of_kind (c_kind cfg))) in S1.
Qed.

(* C15_dispatched_limits *)
Lemma run_dispatched_limits cfg evs st t : workers_ok cfg -> kind_ok cfg ->
  brun cfg binit evs = (st, t) -> dead st = false ->
  forall w b, In (w, b) (dispatched t) ->
    is_empty b = false /\ b_kind b = c_kind cfg /\ batch_ok (c_limits cfg) b.
Proof.
  intros Hw Hk H Hd w b Hin. destruct (brun_machine cfg evs st t Hw H Hd) as [acts Ha].
  destruct (struct_inv cfg acts _ _ Ha) as [_ Hdisp]. destruct (Hdisp w b Hin) as (E1 & E2 & E3). auto.
Qed.

Lemma run_open_limits cfg evs st t : workers_ok cfg -> kind_ok cfg ->
  brun cfg binit evs = (st, t) -> dead st = false ->
  NoDup (map fst (open st)) /\
  forall p ob, In (p, ob) (open st) -> batch_ok (c_limits cfg) (ob_batch ob).
Proof.
  intros Hw Hk H Hd. destruct (brun_machine cfg evs st t Hw H Hd) as [acts Ha].
  destruct (struct_inv cfg acts _ _ Ha) as [[Hnd Ho] _]. simpl in *. split; [assumption|].
  intros p ob Hin. rewrite Forall_forall in Ho. destruct (Ho _ Hin) as (_ & _ & E). auto.
Qed.

(* ---------- routing (C05) ---------- *)
Lemma partition_routing_inv cfg acts g t : c_routing cfg = ByPartition ->
  arun cfg ginit acts = Some (g, t) ->
  forall w b, In (w, b) (dispatched t) -> Some w = quick_hash (b_pkey b) (c_workers cfg).
Proof.
  intros Hr H.
  refine (arun_inv cfg (fun _ t => forall w b, In (w, b) (dispatched t) -> Some w = quick_hash (b_pkey b) (c_workers cfg))
            _ acts ginit [] g t _ H); [|intros w b []].
  clear H. intros g0 t0 a g1 t1 IH H w b Hin. rewrite dispatched_app in Hin.
  apply in_app_or in Hin. destruct Hin as [Hin|Hin]; [now apply IH|].
  apply astep_cases in H. destruct H as [Hd [H|[H|H]]].
  - destruct H as (now & m & -> & _ & -> & ->). destruct Hin.
  - destruct H as (p & repl & ob & -> & Hg & -> & ->). rewrite dispatched_send in Hin.
    destruct (is_empty (ob_batch ob)); [destruct Hin|]. unfold route in Hin. rewrite Hr in Hin.
    destruct (quick_hash (b_pkey (ob_batch ob)) (c_workers cfg)) eqn:E; [|destruct Hin].
    destruct Hin as [E'|[]]. inversion E'; subst. now rewrite E.
  - destruct H as (now & m & ob & b' & r & -> & _ & _ & _ & _ & -> & ->). destruct Hin.
Qed.

Lemma run_partition_routing cfg evs st t : workers_ok cfg -> c_routing cfg = ByPartition ->
  brun cfg binit evs = (st, t) -> dead st = false ->
  forall w b, In (w, b) (dispatched t) -> Some w = quick_hash (b_pkey b) (c_workers cfg).
Proof.
  intros Hw Hr H Hd. destruct (brun_machine cfg evs st t Hw H Hd) as [acts Ha].
  eapply partition_routing_inv; eauto.
Qed.

Lemma next_rr_mod W n : (1 <= W)%N ->
  (if (n mod W =? W - 1)%N then 0%N else (n mod W + 1)%N) = ((n + 1) mod W)%N.
Proof.
  intros HW. assert (HW0 : W <> 0%N) by lia.
  pose proof (N.mod_upper_bound n W HW0) as Hlt.
  assert (E0 : ((n + 1) mod W = (n mod W + 1) mod W)%N) by (symmetry; apply N.add_mod_idemp_l; assumption).
  rewrite E0. clear E0. generalize dependent (n mod W)%N. intros r Hlt.
  destruct (N.eqb_spec r (W - 1)) as [E|E].
  - rewrite E. replace (W - 1 + 1)%N with W by lia. now rewrite N.mod_same.
  - rewrite N.mod_small; [reflexivity|lia].
Qed.

Definition rr_inv (cfg : bcfg) (g : gstate) (t : list tr) : Prop :=
  let n := List.length (dispatched t) in
  rr (g_st g) = (N.of_nat n mod c_workers cfg)%N /\
  map fst (dispatched t) = map (fun i => (N.of_nat i mod c_workers cfg)%N) (seq 0 n).

Lemma round_robin_inv cfg acts g t : workers_ok cfg -> c_routing cfg = RoundRobin ->
  arun cfg ginit acts = Some (g, t) -> rr_inv cfg g t.
Proof.
  intros Hw Hr H.
  refine (arun_inv cfg (rr_inv cfg) _ acts ginit [] g t _ H).
  2:{ unfold rr_inv. simpl. split; [|reflexivity]. rewrite N.mod_0_l; [reflexivity|unfold workers_ok in Hw; lia]. }
  clear H. intros g0 t0 a g1 t1 [IH1 IH2] H. unfold rr_inv. rewrite dispatched_app.
  apply astep_cases in H. destruct H as [Hd [H|[H|H]]].
  - destruct H as (now & m & -> & _ & -> & ->). simpl. rewrite app_nil_r. auto.
  - destruct H as (p & repl & ob & -> & Hg & -> & ->). rewrite dispatched_send. simpl g_st. simpl rr.
    destruct (is_empty (ob_batch ob)).
    + rewrite app_nil_r. auto.
    + unfold route, next_rr. rewrite Hr. rewrite app_length, map_app. simpl.
      rewrite Nat.add_1_r, seq_S, map_app. simpl. rewrite <- IH2, IH1. split; [|reflexivity].
      rewrite next_rr_mod by exact Hw. f_equal. lia.
  - destruct H as (now & m & ob & b' & r & -> & _ & _ & _ & _ & -> & ->). simpl. rewrite app_nil_r.
    split; [|assumption]. destruct r; simpl; assumption.
Qed.

Lemma run_round_robin cfg evs st t : workers_ok cfg -> c_routing cfg = RoundRobin ->
  brun cfg binit evs = (st, t) -> dead st = false ->
  map fst (dispatched t) = map (fun i => (N.of_nat i mod c_workers cfg)%N) (seq 0 (List.length (dispatched t))) /\
  rr st = (N.of_nat (List.length (dispatched t)) mod c_workers cfg)%N.
Proof.
  intros Hw Hr H Hd. destruct (brun_machine cfg evs st t Hw H Hd) as [acts Ha].
  destruct (round_robin_inv cfg acts _ _ Hw Hr Ha) as [E1 E2]. auto.
Qed.

(* ---------- additive invariants: whatever is measured batch by batch is conserved (C04) ---------- *)
Definition zsum {A} (f : A -> Z) (l : list A) : Z := sum_Z (map f l).
Lemma zsum_app {A} (f : A -> Z) a b : zsum f (a ++ b) = (zsum f a + zsum f b)%Z.
Proof. unfold zsum, sum_Z. rewrite map_app. induction (map f a); simpl; lia. Qed.
Lemma zsum_cons {A} (f : A -> Z) x l : zsum f (x :: l) = (f x + zsum f l)%Z.
Proof. reflexivity. Qed.

Lemma adel_notin {V} (k : string) (m : list (string * V)) : ~ In k (map fst m) -> adel k m = m.
Proof.
  induction m as [|[k0 v0] m IH]; simpl; [reflexivity|]. intros H.
  destruct (String.eqb_spec k k0) as [->|Hne]; [tauto|]. rewrite IH; tauto.
Qed.

Section Additive.
  Context (cfg : bcfg) (f : batch -> Z) (fe : txmap -> Z) (h : msg -> Z).
  Context (f_new : forall p, f (new_batch (c_kind cfg) p) = 0%Z).
  Context (f_empty : forall b, is_empty b = true -> f b = fe (b_txns b)).
  Context (f_add : forall b m b' r, b_kind b = c_kind cfg -> is_marker m = false ->
                     add (c_limits cfg) b m = (b', r) -> final_res r = true -> f b' = (f b + h m)%Z).

  Definition osum (opn : list (string * obatch)) : Z := zsum (fun kv => f (ob_batch (snd kv))) opn.

  Lemma osum_aset_none p v l : aget p l = None -> osum (aset p v l) = (osum l + f (ob_batch v))%Z.
  Proof.
    unfold osum. induction l as [|[k0 v0] l IH]; simpl.
    - intros _. unfold zsum, sum_Z. simpl. lia.
    - destruct (String.eqb_spec p k0) as [->|Hne]; [discriminate|]. intros H.
      rewrite !zsum_cons, IH by assumption. simpl. lia.
  Qed.
  Lemma osum_aset_some p v v0 l : aget p l = Some v0 ->
    osum (aset p v l) = (osum l - f (ob_batch v0) + f (ob_batch v))%Z.
  Proof.
    unfold osum. induction l as [|[k0 v1] l IH]; simpl; [discriminate|].
    destruct (String.eqb_spec p k0) as [->|Hne]; intros H.
    - inversion H; subst. rewrite !zsum_cons. simpl. lia.
    - rewrite !zsum_cons, IH by assumption. simpl. lia.
  Qed.
  Lemma osum_adel p v0 l : NoDup (map fst l) -> aget p l = Some v0 ->
    osum (adel p l) = (osum l - f (ob_batch v0))%Z.
  Proof.
    unfold osum. induction l as [|[k0 v1] l IH]; simpl; [discriminate|]. intros Hnd.
    inversion Hnd; subst.
    destruct (String.eqb_spec p k0) as [->|Hne]; intros H.
    - inversion H; subst. rewrite adel_notin by assumption. rewrite zsum_cons. simpl. lia.
    - rewrite !zsum_cons, IH by assumption. simpl. lia.
  Qed.

  Definition add_inv (g : gstate) (t : list tr) : Prop :=
    (zsum (fun wb => f (snd wb)) (dispatched t) + zsum fe (empties t) + osum (open (g_st g)))%Z =
    zsum h (g_added g).

  Lemma add_inv_step g a g' t t' : workers_ok cfg ->
    astep cfg g a = Some (g', t') -> open_ok cfg (g_st g) -> pend_change g -> add_inv g t -> add_inv g' (t ++ t').
  Proof.
    intros Hw H Ho Hpc Hi. unfold add_inv in *. rewrite dispatched_app, empties_app, !zsum_app.
    apply astep_cases in H. destruct H as [Hd [H|[H|H]]].
    - destruct H as (now & m & -> & _ & -> & ->). simpl g_st. simpl g_added. rewrite <- Hi.
      unfold feed_state. simpl open.
      destruct (aget (m_pkey m) (open (g_st g))) eqn:E.
      + unfold zsum, sum_Z. simpl. lia.
      + rewrite osum_aset_none by assumption. simpl. rewrite f_new. unfold zsum, sum_Z. simpl. lia.
    - destruct H as (p & repl & ob & -> & Hg & -> & ->). simpl g_st. simpl g_added. rewrite <- Hi.
      rewrite dispatched_send, empties_send. simpl open.
      assert (Hopen : osum (match repl with
                            | Some now => aset p (mkOB (new_batch (c_kind cfg) p) now now) (open (g_st g))
                            | None => adel p (open (g_st g))
                            end) = (osum (open (g_st g)) - f (ob_batch ob))%Z).
      { destruct repl.
        - rewrite (osum_aset_some _ _ _ _ Hg). simpl. rewrite f_new. lia.
        - destruct Ho as [Hnd _]. now rewrite (osum_adel _ _ _ Hnd Hg). }
      rewrite Hopen. destruct (is_empty (ob_batch ob)) eqn:He.
      + rewrite (f_empty _ He). unfold zsum, sum_Z. simpl. lia.
      + destruct (route_some cfg (g_st g) (ob_batch ob) Hw) as [w ->]. unfold zsum, sum_Z. simpl. lia.
    - destruct H as (now & m & ob & b' & r & -> & Hp & Hg & Ha & Hr & -> & ->). simpl g_st. simpl g_added.
      rewrite zsum_app, <- Hi. simpl open.
      destruct (open_ok_aget cfg _ _ _ Ho Hg) as (E1 & E2 & E3). simpl in E1, E2.
      rewrite (osum_aset_some _ _ _ _ Hg). simpl ob_batch.
      rewrite (f_add _ _ _ _ E2 (Hpc _ Hp) Ha Hr).
      assert (Hopen : open (bump_for r (g_st g)) = open (g_st g)) by (destruct r; reflexivity).
      unfold zsum, sum_Z. simpl. lia.
  Qed.

  Lemma add_invariant acts g t : workers_ok cfg -> arun cfg ginit acts = Some (g, t) -> add_inv g t.
  Proof.
    intros Hw H.
    assert (HH : open_ok cfg (g_st g) /\ pend_change g /\ add_inv g t); [|tauto].
    refine (arun_inv cfg (fun g t => open_ok cfg (g_st g) /\ pend_change g /\ add_inv g t) _ acts ginit [] g t _ H).
    - intros g0 t0 a g1 t1 (Ho & Hp & Hk) Hs. split; [eapply open_ok_step; eauto|].
      split; [eapply pend_change_step; eauto|]. eapply add_inv_step; eauto.
    - split; [apply open_ok_init|]. split; [intros m; discriminate|]. reflexivity.
  Qed.

  Lemma run_additive evs st t : workers_ok cfg -> brun cfg binit evs = (st, t) -> dead st = false ->
    (zsum (fun wb => f (snd wb)) (dispatched t) + zsum fe (empties t) + osum (open st))%Z = zsum h (changes (fed t)).
  Proof.
    intros Hw H Hd. destruct (brun_machine cfg evs st t Hw H Hd) as [acts Ha].
    exact (add_invariant acts _ _ Hw Ha).
  Qed.
End Additive.

Lemma zsum_indicator {A} (q : A -> bool) l :
  zsum (fun x => if q x then 1%Z else 0%Z) l = Z.of_nat (List.length (filter q l)).
Proof.
  induction l as [|x l IH]; [reflexivity|]. rewrite zsum_cons, IH. simpl.
  destruct (q x); simpl List.length; lia.
Qed.

Lemma zsum_changes (q : msg -> bool) l :
  zsum (fun m => if q m then 1%Z else 0%Z) (changes l) =
  Z.of_nat (List.length (filter (fun m => change m && q m) l)).
Proof.
  rewrite zsum_indicator. f_equal. f_equal. unfold changes.
  induction l as [|m l IH]; simpl; [reflexivity|].
  destruct (change m); simpl; [destruct (q m); simpl; now rewrite IH|assumption].
Qed.

(* --- C04_written_counts --- *)
Definition is_invalid (cfg : bcfg) (m : msg) : bool :=
  match fate_of cfg m with FDroppedInvalid => true | _ => false end.
Definition is_big (cfg : bcfg) (m : msg) : bool :=
  match fate_of cfg m with FDroppedBig => true | _ => false end.

Definition open_txcount (k : string) (st : bstate) : Z :=
  zsum (fun kv => txcount k (b_txns (ob_batch (snd kv)))) (open st).

Lemma run_written_counts cfg evs st t k :
  workers_ok cfg -> brun cfg binit evs = (st, t) -> dead st = false ->
  (zsum (fun wb => txcount k (b_txns (snd wb))) (dispatched t) + zsum (txcount k) (empties t) + open_txcount k st)%Z =
  Z.of_nat (List.length (filter (fun m => change m && (String.eqb (m_key m) k && negb (is_invalid cfg m))) (fed t))).
Proof.
  intros Hw H Hd. rewrite <- zsum_changes.
  apply (run_additive cfg (fun b => txcount k (b_txns b)) (txcount k)
           (fun m => if String.eqb (m_key m) k && negb (is_invalid cfg m) then 1%Z else 0%Z)) with (evs := evs); auto.
  intros b m b' r Hk Hm Ha Hr.
  pose proof (add_fate cfg _ _ _ _ Hk Hm Ha Hr) as Hf. unfold is_invalid. rewrite Hf.
  rewrite (add_txns _ _ _ _ _ Ha). unfold change. rewrite Hm. simpl.
  destruct r; try discriminate; simpl; rewrite ?txcount_update, (String.eqb_sym (m_key m) k);
    destruct (String.eqb k (m_key m)); simpl; lia.
Qed.

(* --- C04_conservation --- *)
Definition open_ids (st : bstate) : list N := flat_map (fun kv => ids (ob_batch (snd kv))) (open st).

Lemma count_occ_flat_map {A} (g : A -> list N) l i :
  Z.of_nat (count_occ N.eq_dec (flat_map g l) i) = zsum (fun x => Z.of_nat (count_occ N.eq_dec (g x) i)) l.
Proof.
  induction l as [|x l IH]; [reflexivity|]. simpl flat_map. rewrite count_occ_app, zsum_cons, <- IH. lia.
Qed.

Lemma count_occ_map_filter (q : msg -> bool) l i :
  Z.of_nat (count_occ N.eq_dec (map m_id (filter q l)) i) =
  zsum (fun m => if q m && (m_id m =? i)%N then 1%Z else 0%Z) l.
Proof.
  induction l as [|m l IH]; [reflexivity|]. rewrite zsum_cons, <- IH. simpl.
  destruct (q m); simpl.
  - destruct (N.eq_dec (m_id m) i) as [E|E].
    + apply N.eqb_eq in E. rewrite E. lia.
    + apply N.eqb_neq in E. rewrite E. lia.
  - lia.
Qed.

Lemma run_conservation cfg evs st t :
  workers_ok cfg -> brun cfg binit evs = (st, t) -> dead st = false ->
  Permutation (map m_id (filter (fun m => change m && accepted cfg m) (fed t)))
              (flat_map (fun wb => ids (snd wb)) (dispatched t) ++ open_ids st).
Proof.
  intros Hw H Hd. apply (Permutation_count_occ N.eq_dec). intros i.
  apply Nat2Z.inj. rewrite count_occ_app, Nat2Z.inj_add.
  unfold open_ids. rewrite !count_occ_flat_map.
  pose proof (run_additive cfg (fun b => Z.of_nat (count_occ N.eq_dec (ids b) i)) (fun _ => 0%Z)
                (fun m => if accepted cfg m && (m_id m =? i)%N then 1%Z else 0%Z)) as HA.
  unfold osum in HA. specialize (HA (fun _ => eq_refl)).
  assert (Hz : forall l : list txmap, zsum (fun _ => 0%Z) l = 0%Z).
  { induction l as [|x l IHl]; [reflexivity|]. rewrite zsum_cons, IHl. reflexivity. }
  rewrite count_occ_map_filter.
  assert (HR : zsum (fun m => if accepted cfg m && (m_id m =? i)%N then 1%Z else 0%Z) (changes (fed t)) =
               zsum (fun m => if change m && accepted cfg m && (m_id m =? i)%N then 1%Z else 0%Z) (fed t)).
  { unfold changes. clear. induction (fed t) as [|m l IH]; [reflexivity|]. simpl filter.
    destruct (change m) eqn:E; simpl; rewrite ?zsum_cons, IH, ?E; simpl; [reflexivity|lia]. }
  rewrite <- HR. rewrite <- (HA) with (evs := evs) (st := st) (t := t); auto.
  - rewrite Hz. lia.
  - intros b He. unfold ids. now rewrite is_empty_items.
  - intros b m b' r Hk Hm Ha Hr.
    pose proof (add_fate cfg _ _ _ _ Hk Hm Ha Hr) as Hf. unfold accepted. rewrite Hf.
    unfold ids. rewrite (add_items _ _ _ _ _ Ha). unfold change. rewrite Hm. simpl.
    destruct r; try discriminate; simpl; rewrite ?app_nil_r; try lia.
    rewrite map_app, count_occ_app. simpl. rewrite r_id_rec_of_kind.
    destruct (N.eq_dec (m_id m) i) as [E|E].
    + apply N.eqb_eq in E. rewrite E. lia.
    + apply N.eqb_neq in E. rewrite E. lia.
Qed.

(* --- drop statistics --- *)
Definition drops_inv (cfg : bcfg) (g : gstate) : Prop :=
  Z.of_N (drops_big (g_st g)) = zsum (fun m => if is_big cfg m then 1%Z else 0%Z) (g_added g) /\
  Z.of_N (drops_invalid (g_st g)) = zsum (fun m => if is_invalid cfg m then 1%Z else 0%Z) (g_added g).

Lemma drops_invariant cfg acts g t : arun cfg ginit acts = Some (g, t) -> drops_inv cfg g.
Proof.
  intros H.
  assert (HH : open_ok cfg (g_st g) /\ pend_change g /\ drops_inv cfg g); [|tauto].
  refine (arun_inv cfg (fun g _ => open_ok cfg (g_st g) /\ pend_change g /\ drops_inv cfg g) _ acts ginit [] g t _ H).
  - intros g0 t0 a g1 t1 (Ho & Hp & [D1 D2]) Hs. split; [eapply open_ok_step; eauto|].
    split; [eapply pend_change_step; eauto|].
    apply astep_cases in Hs. destruct Hs as [Hd [Hs|[Hs|Hs]]].
    + destruct Hs as (now & m & -> & _ & -> & ->). split; assumption.
    + destruct Hs as (p & repl & ob & -> & Hg & -> & ->). split; assumption.
    + destruct Hs as (now & m & ob & b' & r & -> & Hpe & Hg & Ha & Hr & -> & ->).
      destruct (open_ok_aget cfg _ _ _ Ho Hg) as (E1 & E2 & E3). simpl in E2.
      pose proof (add_fate cfg _ _ _ _ E2 (Hp _ Hpe) Ha Hr) as Hf.
      unfold drops_inv, is_big, is_invalid. simpl g_added. rewrite !zsum_app.
      unfold drops_inv, is_big, is_invalid in D1, D2. rewrite <- D1, <- D2.
      unfold zsum, sum_Z. simpl. rewrite Hf.
      destruct r; try discriminate; simpl; lia.
  - split; [apply open_ok_init|]. split; [intros m; discriminate|]. split; reflexivity.
Qed.

Lemma run_drops cfg evs st t : workers_ok cfg -> brun cfg binit evs = (st, t) -> dead st = false ->
  drops_big st = N.of_nat (List.length (filter (fun m => change m && is_big cfg m) (fed t))) /\
  drops_invalid st = N.of_nat (List.length (filter (fun m => change m && is_invalid cfg m) (fed t))).
Proof.
  intros Hw H Hd. destruct (brun_machine cfg evs st t Hw H Hd) as [acts Ha].
  destruct (drops_invariant cfg acts _ _ Ha) as [D1 D2]. simpl in D1, D2.
  rewrite zsum_changes in D1, D2. split; lia.
Qed.

Lemma run_dispatched_kinesis L : within_aws L -> forall cfg meth evs st t,
  workers_ok cfg -> c_kind cfg = BKinesis meth -> c_limits cfg = L ->
  brun cfg binit evs = (st, t) -> dead st = false ->
  forall w b, In (w, b) (dispatched t) ->
    b_items b <> [] /\ (N.of_nat (List.length (b_items b)) <= 500)%N /\
    sum_N (map rsize (b_items b)) = b_bytes b /\ (sum_N (map rsize (b_items b)) <= 5 * 2^20)%N /\
    Forall (fun r => (r_len r <= 2^20)%N) (b_items b).
Proof.
  intros HL cfg meth evs st t Hw Hk HLc H Hd w b Hin.
  assert (Hko : kind_ok cfg) by (unfold kind_ok; now rewrite Hk).
  destruct (run_dispatched_limits cfg evs st t Hw Hko H Hd w b Hin) as (E1 & E2 & E3).
  unfold batch_ok in E3. rewrite E2, Hk, HLc in E3.
  split; [unfold is_empty in E1; destruct (b_items b); [discriminate|discriminate]|].
  exact (kinesis_ok_aws L b HL E3).
Qed.

(* ---------- the Seen bookkeeping (C04_totals, C01) ---------- *)
Definition is_commit (m : msg) : bool := String.eqb (m_op m) "COMMIT".

(* totalMsgsInTxn / curTimeBasedKey / the Seen records, as a function of the messages received *)
Fixpoint scan (cur : string) (tot : Z) (ms : list msg) : string * Z * list seen :=
  match ms with
  | [] => (cur, tot, [])
  | m :: r =>
      let s := if is_commit m then [mkSeen (m_txn m) (m_key m) tot (m_wal m)] else [] in
      let tot1 := if String.eqb cur (m_key m) then tot else 0%Z in
      let cur1 := if String.eqb cur (m_key m) then cur else m_key m in
      let '(c, t, l) := scan cur1 (tot1 + (if is_marker m then 0 else 1))%Z r in
      (c, t, s ++ l)
  end.

Definition seens_of (ms : list msg) : list seen := snd (scan "" 0%Z ms).

Lemma scan_app a : forall cur tot b,
  scan cur tot (a ++ b) =
  let '(c1, t1, l1) := scan cur tot a in
  let '(c2, t2, l2) := scan c1 t1 b in (c2, t2, l1 ++ l2).
Proof.
  induction a as [|m a IH]; intros cur tot b; simpl.
  - destruct (scan cur tot b) as [[c t] l]. reflexivity.
  - rewrite IH.
    destruct (scan _ _ a) as [[c1 t1] l1]. destruct (scan c1 t1 b) as [[c2 t2] l2].
    now rewrite app_assoc.
Qed.

Lemma seens_of_app a b : exists l, seens_of (a ++ b) = seens_of a ++ l.
Proof.
  unfold seens_of. rewrite scan_app. destruct (scan "" 0%Z a) as [[c1 t1] l1].
  destruct (scan c1 t1 b) as [[c2 t2] l2]. simpl. eauto.
Qed.

(* one Seen per COMMIT, in order, carrying the COMMIT's transaction, delivery key and position *)
Lemma scan_commits ms : forall cur tot,
  map (fun s => (s_txn s, s_key s, s_commit s)) (snd (scan cur tot ms)) =
  map (fun m => (m_txn m, m_key m, m_wal m)) (filter is_commit ms).
Proof.
  induction ms as [|m r IH]; intros cur tot; simpl; [reflexivity|].
  specialize (IH (if String.eqb cur (m_key m) then cur else m_key m)
                 ((if String.eqb cur (m_key m) then tot else 0) + (if is_marker m then 0 else 1))%Z).
  destruct (scan _ _ r) as [[c t] l]. simpl in *.
  destruct (is_commit m); simpl; now rewrite IH.
Qed.

Lemma seens_of_commit ms c : In c ms -> is_commit c = true ->
  exists n, In (mkSeen (m_txn c) (m_key c) n (m_wal c)) (seens_of ms).
Proof.
  intros Hin Hc.
  assert (H : In (m_txn c, m_key c, m_wal c) (map (fun s => (s_txn s, s_key s, s_commit s)) (seens_of ms))).
  { unfold seens_of. rewrite scan_commits. apply in_map_iff. exists c. split; [reflexivity|].
    apply filter_In. auto. }
  apply in_map_iff in H. destruct H as ([tx k n w] & E & Hs). simpl in E. inversion E; subst. eauto.
Qed.

Definition pendn (g : gstate) : Z := match g_pend g with Some _ => 1%Z | None => 0%Z end.

Definition scan_inv (g : gstate) (t : list tr) : Prop :=
  scan "" 0%Z (fed t) = (curkey (g_st g), (total (g_st g) + pendn g)%Z, seen_outs t ++ seenl (g_st g)).

Lemma scan_inv_step cfg g a g' t t' :
  astep cfg g a = Some (g', t') -> scan_inv g t -> scan_inv g' (t ++ t').
Proof.
  intros H Hi. unfold scan_inv in *. rewrite fed_app, seen_outs_app.
  apply astep_cases in H. destruct H as [Hd [H|[H|H]]].
  - destruct H as (now & m & -> & Hp & -> & ->). rewrite scan_app, Hi. simpl.
    unfold pendn in *. rewrite Hp. simpl. rewrite Z.add_0_r.
    unfold is_commit. destruct (is_marker m); simpl; destruct (String.eqb (m_op m) "COMMIT");
      rewrite ?app_nil_r, ?Z.add_0_r, <- ?app_assoc; reflexivity.
  - destruct H as (p & repl & ob & -> & Hg & -> & ->). rewrite fed_outs, app_nil_r, Hi, seen_outs_send.
    simpl. now rewrite app_nil_r.
  - destruct H as (now & m & ob & b' & r & -> & Hp & Hg & Ha & Hr & -> & ->). simpl. rewrite !app_nil_r, Hi.
    unfold pendn. rewrite Hp. simpl. destruct r; simpl; f_equal; f_equal; lia.
Qed.

(* properties of every batch at the moment it is dispatched, [pre] being the trace up to that moment *)
Fixpoint all_disp (P : list tr -> N -> batch -> Prop) (pre t : list tr) : Prop :=
  match t with
  | [] => True
  | e :: r => match e with TOut (OBatch w b) => P pre w b | _ => True end /\ all_disp P (pre ++ [e]) r
  end.

Lemma all_disp_app P a : forall pre b, all_disp P pre (a ++ b) <-> all_disp P pre a /\ all_disp P (pre ++ a) b.
Proof.
  induction a as [|e a IH]; intros pre b; simpl.
  - rewrite app_nil_r. tauto.
  - rewrite IH, <- app_assoc. simpl. tauto.
Qed.

Lemma all_disp_split P t : all_disp P [] t ->
  forall t1 w b t2, t = t1 ++ TOut (OBatch w b) :: t2 -> P t1 w b.
Proof.
  intros H t1 w b t2 ->. apply all_disp_app in H. destruct H as [_ H]. simpl in H. tauto.
Qed.

Definition at_dispatch (pre : list tr) (w : N) (b : batch) : Prop :=
  seens_of (fed pre) = seen_outs pre /\ incl (ids b) (map m_id (changes (fed pre))).

Definition fed_inv (g : gstate) (t : list tr) : Prop := changes (fed t) = g_added g ++ olist (g_pend g).

Lemma fed_inv_step cfg g a g' t t' :
  astep cfg g a = Some (g', t') -> fed_inv g t -> fed_inv g' (t ++ t').
Proof.
  intros H Hi. unfold fed_inv in *. rewrite fed_app, changes_app.
  apply astep_cases in H. destruct H as [Hd [H|[H|H]]].
  - destruct H as (now & m & -> & Hp & -> & ->). rewrite Hi, Hp. simpl. unfold change.
    destruct (is_marker m); simpl; now rewrite ?app_nil_r.
  - destruct H as (p & repl & ob & -> & Hg & -> & ->). rewrite fed_outs. simpl. now rewrite app_nil_r.
  - destruct H as (now & m & ob & b' & r & -> & Hp & Hg & Ha & Hr & -> & ->). simpl.
    rewrite !app_nil_r, Hi, Hp. reflexivity.
Qed.

Lemma dispatch_invariant cfg acts g t : workers_ok cfg -> arun cfg ginit acts = Some (g, t) ->
  scan_inv g t /\ all_disp at_dispatch [] t.
Proof.
  intros Hw H.
  assert (HH : open_ok cfg (g_st g) /\ pend_change g /\ pk_inv cfg g t /\ scan_inv g t /\ fed_inv g t /\
               all_disp at_dispatch [] t); [|tauto].
  refine (arun_inv cfg (fun g t => open_ok cfg (g_st g) /\ pend_change g /\ pk_inv cfg g t /\ scan_inv g t /\
                                   fed_inv g t /\ all_disp at_dispatch [] t) _ acts ginit [] g t _ H).
  - clear H. intros g0 t0 a g1 t1 (Ho & Hp & Hk & Hs & Hf & Ha) H.
    split; [eapply open_ok_step; eauto|]. split; [eapply pend_change_step; eauto|].
    split; [eapply pk_inv_step; eauto|]. split; [eapply scan_inv_step; eauto|].
    split; [eapply fed_inv_step; eauto|].
    apply all_disp_app. split; [assumption|]. simpl.
    apply astep_cases in H. destruct H as [Hd [H|[H|H]]].
    + destruct H as (now & m & -> & _ & -> & ->). simpl. auto.
    + destruct H as (p & repl & ob & -> & Hg & -> & ->).
      assert (Hids : incl (ids (ob_batch ob)) (map m_id (changes (fed t0)))).
      { specialize (Hk p). unfold open_items in Hk. rewrite Hg in Hk.
        intros i Hi. unfold ids in Hi. apply in_map_iff in Hi. destruct Hi as (r & <- & Hr).
        assert (Hr' : In r (map (rec_of_kind (c_kind cfg)) (filter (accp cfg p) (g_added g0)))).
        { rewrite <- Hk. apply in_or_app. now right. }
        apply in_map_iff in Hr'. destruct Hr' as (m & <- & Hm). apply filter_In in Hm.
        rewrite r_id_rec_of_kind. apply in_map. rewrite Hf. apply in_or_app. left. tauto. }
      unfold scan_inv in Hs.
      unfold sent_body. destruct (is_empty (ob_batch ob)).
      * unfold seen_part. destruct (seenl (g_st g0)); simpl; auto.
      * destruct (route_some cfg (g_st g0) (ob_batch ob) Hw) as [w ->].
        unfold seen_part. destruct (seenl (g_st g0)) as [|s l] eqn:El; simpl.
        -- split; [|exact I]. split; [|assumption].
           unfold seens_of. rewrite Hs. simpl. now rewrite app_nil_r.
        -- split; [exact I|]. split; [|exact I]. split.
           ++ unfold seens_of. rewrite fed_app, seen_outs_app. simpl. rewrite !app_nil_r, Hs. reflexivity.
           ++ rewrite fed_app. simpl. now rewrite app_nil_r.
    + destruct H as (now & m & ob & b' & r & -> & _ & _ & _ & _ & -> & ->). exact I.
  - split; [apply open_ok_init|]. split; [intros m; discriminate|]. split; [intros p; reflexivity|].
    split; [reflexivity|]. split; [reflexivity|exact I].
Qed.

(* C01, the batcher's half: when a batch is handed to a worker, every COMMIT received so far has
   been announced to the progress tracker, and everything in the batch was received before *)
Lemma run_seen_before_dispatch cfg evs st t :
  workers_ok cfg -> brun cfg binit evs = (st, t) -> dead st = false ->
  seen_outs t ++ seenl st = seens_of (fed t) /\
  forall t1 w b t2, t = t1 ++ TOut (OBatch w b) :: t2 ->
    seen_outs t1 = seens_of (fed t1) /\
    incl (ids b) (map m_id (changes (fed t1))) /\
    (forall c, In c (fed t1) -> is_commit c = true ->
       exists n, In (mkSeen (m_txn c) (m_key c) n (m_wal c)) (seen_outs t1)).
Proof.
  intros Hw H Hd. destruct (brun_machine cfg evs st t Hw H Hd) as [acts Ha].
  destruct (dispatch_invariant cfg acts _ _ Hw Ha) as [Hs Hall]. split.
  - unfold scan_inv in Hs. unfold seens_of. rewrite Hs. reflexivity.
  - intros t1 w b t2 E. destruct (all_disp_split _ _ Hall t1 w b t2 E) as [E1 E2].
    split; [auto|]. split; [assumption|]. intros c Hc1 Hc2. rewrite <- E1. now apply seens_of_commit.
Qed.

(* ---------- C04_totals: under transaction framing a Seen carries the number of changes of its delivery ---------- *)
Definition is_begin (m : msg) : bool := String.eqb (m_op m) "BEGIN".

Definition nchanges (k : string) (ms : list msg) : Z :=
  Z.of_nat (List.length (filter (fun m => change m && String.eqb (m_key m) k) ms)).

(* framing: BEGIN k opens a block whose delivery key k was never used before; the changes and the
   COMMIT of a block carry its key; a COMMIT closes the block (it may be missing: the next BEGIN
   simply opens a new block).  [used] = keys of earlier blocks, [cur] = key of the open block. *)
Fixpoint framed_from (used : list string) (cur : option string) (ms : list msg) : bool :=
  match ms with
  | [] => true
  | m :: r =>
      if is_begin m
      then negb (existsb (String.eqb (m_key m)) used) && framed_from (m_key m :: used) (Some (m_key m)) r
      else match cur with
           | Some k => String.eqb (m_key m) k && framed_from used (if is_commit m then None else cur) r
           | None => false
           end
  end.
Definition framed (ms : list msg) : bool := framed_from [] None ms.

(* the specification of the Seen list: one per COMMIT, in order, with the number of changes of the
   COMMIT's delivery key received before it *)
Fixpoint seens_spec (pre ms : list msg) : list seen :=
  match ms with
  | [] => []
  | m :: r => (if is_commit m then [mkSeen (m_txn m) (m_key m) (nchanges (m_key m) pre) (m_wal m)] else [])
              ++ seens_spec (pre ++ [m]) r
  end.

Lemma nchanges_snoc k pre m :
  nchanges k (pre ++ [m]) = (nchanges k pre + (if change m && String.eqb (m_key m) k then 1 else 0))%Z.
Proof.
  unfold nchanges. rewrite filter_app, app_length. simpl.
  destruct (change m && String.eqb (m_key m) k); simpl; lia.
Qed.

Lemma begin_marker m : is_begin m = true -> is_marker m = true.
Proof. unfold is_begin, is_marker. intros ->. reflexivity. Qed.
Lemma commit_marker m : is_commit m = true -> is_marker m = true.
Proof. unfold is_commit, is_marker. intros ->. apply orb_true_r. Qed.
Lemma begin_not_commit m : is_begin m = true -> is_commit m = false.
Proof. unfold is_begin, is_commit. intros H. apply String.eqb_eq in H. rewrite H. reflexivity. Qed.

Lemma existsb_eqb_in k l : existsb (String.eqb k) l = true <-> In k l.
Proof.
  rewrite existsb_exists. split.
  - intros (x & Hx & E). apply String.eqb_eq in E. now subst.
  - intros H. exists k. split; [assumption|apply String.eqb_refl].
Qed.

Lemma scan_framed ms : forall pre used cur c tot,
  framed_from used cur ms = true ->
  (forall k, ~ In k used -> nchanges k pre = 0%Z) ->
  (In c used \/ tot = 0%Z) ->
  (forall k, cur = Some k -> In k used /\ c = k /\ tot = nchanges k pre) ->
  snd (scan c tot ms) = seens_spec pre ms.
Proof.
  induction ms as [|m r IH]; intros pre used cur c tot Hf H1 H2 H3; [reflexivity|].
  simpl in Hf. simpl scan. simpl seens_spec.
  destruct (is_begin m) eqn:Hb.
  - (* BEGIN of a fresh key *)
    apply andb_prop in Hf. destruct Hf as [Hnew Hf]. apply negb_true_iff in Hnew.
    assert (Hnotin : ~ In (m_key m) used).
    { intros Hin. apply existsb_eqb_in in Hin. congruence. }
    rewrite (begin_not_commit _ Hb), (begin_marker _ Hb). simpl.
    specialize (IH (pre ++ [m]) (m_key m :: used) (Some (m_key m))
                   (if String.eqb c (m_key m) then c else m_key m)
                   ((if String.eqb c (m_key m) then tot else 0) + 0)%Z Hf).
    destruct (scan _ _ r) as [[c' t'] l']. simpl in *. apply IH.
    + intros k Hk. rewrite nchanges_snoc. unfold change. rewrite (begin_marker _ Hb). simpl.
      rewrite Z.add_0_r. apply H1. tauto.
    + left. destruct (String.eqb_spec c (m_key m)); auto.
    + intros k Hk. inversion Hk; subst. split; [now left|].
      rewrite nchanges_snoc. unfold change. rewrite (begin_marker _ Hb). simpl.
      rewrite (H1 _ Hnotin).
      destruct (String.eqb_spec c (m_key m)) as [E|E]; [|split; [reflexivity|lia]].
      split; [assumption|]. destruct H2 as [H2|H2]; [subst; contradiction|lia].
  - destruct cur as [k|]; [|discriminate]. apply andb_prop in Hf. destruct Hf as [Hk Hf].
    apply String.eqb_eq in Hk. destruct (H3 k eq_refl) as (Hku & Hc & Ht). subst c.
    rewrite Hk, String.eqb_refl.
    destruct (is_commit m) eqn:Hc.
    + (* COMMIT of the open block *)
      rewrite (commit_marker _ Hc). simpl.
      specialize (IH (pre ++ [m]) used None k (tot + 0)%Z Hf).
      destruct (scan _ _ r) as [[c' t'] l']. simpl in *. rewrite Ht. f_equal. apply IH.
      * intros k' Hk'. rewrite nchanges_snoc. unfold change. rewrite (commit_marker _ Hc). simpl.
        rewrite Z.add_0_r. now apply H1.
      * now left.
      * intros k' Hk'. discriminate.
    + (* a change of the open block *)
      assert (Hm : is_marker m = false).
      { unfold is_marker. unfold is_begin in Hb. unfold is_commit in Hc. now rewrite Hb, Hc. }
      rewrite Hm. simpl.
      specialize (IH (pre ++ [m]) used (Some k) k (tot + 1)%Z Hf).
      destruct (scan _ _ r) as [[c' t'] l']. simpl in *. apply IH.
      * intros k' Hk'. rewrite nchanges_snoc. unfold change. rewrite Hm. simpl. rewrite Hk.
        destruct (String.eqb_spec k k'); [subst; contradiction|]. rewrite Z.add_0_r. now apply H1.
      * now left.
      * intros k' Hk'. inversion Hk'; subst k'. split; [assumption|]. split; [reflexivity|].
        rewrite nchanges_snoc. unfold change. rewrite Hm. simpl. rewrite Hk, String.eqb_refl. lia.
Qed.

Lemma seens_of_framed ms : framed ms = true -> seens_of ms = seens_spec [] ms.
Proof.
  intros H. unfold seens_of. apply (scan_framed ms [] [] None "" 0%Z H).
  - intros k _. reflexivity.
  - now right.
  - intros k Hk. discriminate.
Qed.

(* C04_totals *)
Lemma run_totals cfg evs st t :
  workers_ok cfg -> brun cfg binit evs = (st, t) -> dead st = false -> framed (fed t) = true ->
  seen_outs t ++ seenl st = seens_spec [] (fed t).
Proof.
  intros Hw H Hd Hf. destruct (run_seen_before_dispatch cfg evs st t Hw H Hd) as [E _].
  rewrite E. now apply seens_of_framed.
Qed.

(* reading of the specification: membership form *)
Lemma seens_spec_in ms : forall pre s, In s (seens_spec pre ms) ->
  exists ms1 c ms2, ms = ms1 ++ c :: ms2 /\ is_commit c = true /\
                    s = mkSeen (m_txn c) (m_key c) (nchanges (m_key c) (pre ++ ms1)) (m_wal c).
Proof.
  induction ms as [|m r IH]; intros pre s H; simpl in H; [destruct H|].
  apply in_app_or in H. destruct H as [H|H].
  - destruct (is_commit m) eqn:Hc; [|destruct H]. destruct H as [<-|[]].
    exists [], m, r. rewrite app_nil_r. auto.
  - destruct (IH _ _ H) as (ms1 & c & ms2 & -> & Hc & ->).
    exists (m :: ms1), c, ms2. rewrite <- app_assoc. auto.
Qed.

(* ---------- the domain: configurations and messages for which the batcher never stops (C15/C17) ---------- *)
Definition cfg_ok (cfg : bcfg) : bool :=
  (1 <=? c_workers cfg)%N &&
  match c_kind cfg with
  | BGeneric mx => (1 <=? mx)%Z
  | BKinesis _ => (1 <=? max_records (c_limits cfg))%N
  end.

(* an acceptable record fits an EMPTY batch: this is the exact guard under which addToBatch's
   recursion on ERR_CANT_FIT ends after one retry (otherwise the Go code recurses for ever) *)
Definition fits (cfg : bcfg) (m : msg) : bool :=
  match c_kind cfg with
  | BGeneric _ => true
  | BKinesis meth =>
      is_marker m || (max_record_bytes (c_limits cfg) <? m_jlen m)%N ||
      (m_jlen m + N.of_nat (String.length (pk_of meth m)) <=? max_batch_bytes (c_limits cfg))%N
  end.

Lemma cfg_ok_workers cfg : cfg_ok cfg = true -> workers_ok cfg.
Proof. unfold cfg_ok, workers_ok. intros H. apply andb_prop in H. destruct H as [H _]. now apply N.leb_le. Qed.
Lemma cfg_ok_kind cfg : cfg_ok cfg = true -> kind_ok cfg.
Proof.
  unfold cfg_ok, kind_ok. intros H. apply andb_prop in H. destruct H as [_ H].
  destruct (c_kind cfg); [apply Z.leb_le in H; lia|exact I].
Qed.

Lemma new_not_full cfg p : cfg_ok cfg = true -> is_full (c_limits cfg) (new_batch (c_kind cfg) p) = false.
Proof.
  unfold cfg_ok, is_full, nitems. intros H. apply andb_prop in H. destruct H as [_ H]. simpl.
  destruct (c_kind cfg); simpl.
  - apply Z.leb_le in H. apply Z.leb_gt. lia.
  - apply N.leb_le in H. apply Z.leb_gt. lia.
Qed.

Lemma add_to_batch_never_fatal cfg st b m st3 b3 s o3 :
  cfg_ok cfg = true -> fits cfg m = true -> is_marker m = false ->
  b_kind b = c_kind cfg -> is_full (c_limits cfg) b = false ->
  add_to_batch 2 cfg st b m = (st3, b3, s, o3) -> ok_status s = true.
Proof.
  intros Hc Hfit Hm Hk Hnf H. simpl in H.
  destruct (add (c_limits cfg) b m) as [b' r] eqn:Ha.
  destruct (c_kind cfg) as [mx|meth] eqn:Ek.
  - destruct (add_result_generic _ _ _ _ _ _ Ha Hm Hk) as [[-> _]|[-> Hn]].
    + inversion H; subst. reflexivity.
    + unfold is_full in Hnf. rewrite Hk in Hnf. apply Z.leb_gt in Hnf. lia.
  - pose proof (add_result_kinesis _ _ _ _ _ _ Ha Hm Hk) as Hr.
    destruct r; try (inversion H; subst; reflexivity).
    + destruct Hr as [_ Hr]. congruence.
    + destruct Hr as (Hr1 & _ & _).
      rewrite send_batch_spec in H.
      destruct (add (c_limits cfg) (new_batch (BKinesis meth) (m_pkey m)) m) as [b2 r2] eqn:Ha2.
      pose proof (add_result_kinesis _ _ _ _ _ _ Ha2 Hm eq_refl) as Hr2.
      pose proof (new_not_full cfg (m_pkey m) Hc) as Hnew. rewrite Ek in Hnew.
      destruct r2; try (inversion H; subst; reflexivity).
      * destruct Hr2 as [_ Hr2]. congruence.
      * destruct Hr2 as (_ & _ & Hr2). exfalso.
        unfold fits in Hfit. rewrite Ek, Hm in Hfit. simpl in Hfit.
        apply N.ltb_ge in Hr1. rewrite Hr1 in Hfit. simpl in Hfit. apply N.leb_le in Hfit.
        unfold rsize in Hr2. simpl in Hr2. lia.
Qed.

Lemma bstep_msg_never_dead cfg st now m :
  cfg_ok cfg = true -> fits cfg m = true -> open_ok cfg st -> dead st = false ->
  dead (fst (bstep_msg cfg st now m)) = false.
Proof.
  intros Hc Hfit Ho Hd. pose proof (cfg_ok_workers cfg Hc) as Hw.
  rewrite bstep_msg_eq by assumption. cbv zeta.
  set (st1 := feed_state cfg st now m). set (ob0 := cur_ob cfg st now (m_pkey m)).
  assert (Hk0 : b_kind (ob_batch ob0) = c_kind cfg).
  { unfold ob0, cur_ob. destruct (aget (m_pkey m) (open st)) as [ob|] eqn:E; [|reflexivity].
    destruct (open_ok_aget cfg _ _ _ Ho E) as (_ & E2 & _). exact E2. }
  assert (Hph : exists st2 ob2 o2,
            (if is_full (c_limits cfg) (ob_batch ob0)
             then let '(s, o) := send_batch cfg st1 (ob_batch ob0) in
                  (set_open s (aset (m_pkey m) (mkOB (new_batch (c_kind cfg) (m_pkey m)) now now) (open s)),
                   mkOB (new_batch (c_kind cfg) (m_pkey m)) now now, o)
             else (st1, ob0, [])) = (st2, ob2, o2) /\
            has_fatal o2 = false /\ dead st2 = false /\
            b_kind (ob_batch ob2) = c_kind cfg /\ is_full (c_limits cfg) (ob_batch ob2) = false).
  { destruct (is_full (c_limits cfg) (ob_batch ob0)) eqn:Ef.
    - rewrite send_batch_spec. do 3 eexists. split; [reflexivity|].
      split; [now apply send_no_fatal|]. split; [reflexivity|]. split; [reflexivity|].
      simpl. now apply new_not_full.
    - exists st1, ob0, []. auto. }
  destruct Hph as (st2 & ob2 & o2 & -> & -> & Hd2 & Hk2 & Hnf2).
  destruct (is_marker m) eqn:Hm; [exact Hd2|].
  destruct (add_to_batch 2 cfg st2 (ob_batch ob2) m) as [[[st3 b3] s] o3] eqn:E3.
  pose proof (add_to_batch_never_fatal cfg _ _ _ _ _ _ _ Hc Hfit Hm Hk2 Hnf2 E3) as Hs.
  destruct s; try discriminate; reflexivity.
Qed.

Lemma arun_open_ok cfg acts g g' t : arun cfg g acts = Some (g', t) -> open_ok cfg (g_st g) -> open_ok cfg (g_st g').
Proof.
  intros H Ho.
  refine (arun_inv cfg (fun g _ => open_ok cfg (g_st g)) _ acts g [] g' t Ho H).
  intros g0 t0 a g1 t1 Ho0 Hs. eapply open_ok_step; eauto.
Qed.

Definition msgs_of (evs : list bevent) : list msg :=
  flat_map (fun e => match e with BMsg _ m => [m] | _ => [] end) evs.

Lemma brun_never_dead cfg : cfg_ok cfg = true -> forall evs st,
  forallb (fits cfg) (msgs_of evs) = true -> open_ok cfg st -> dead st = false ->
  dead (fst (brun cfg st evs)) = false.
Proof.
  intros Hc. pose proof (cfg_ok_workers cfg Hc) as Hw.
  induction evs as [|e r IH]; intros st Hfit Ho Hd; simpl; [assumption|].
  destruct (bstep cfg st e) as [st1 t1] eqn:E1. destruct (brun cfg st1 r) as [st2 t2] eqn:E2.
  simpl. change st2 with (fst (st2, t2)). rewrite <- E2.
  simpl in Hfit. rewrite forallb_app in Hfit. apply andb_prop in Hfit. destruct Hfit as [Hf1 Hf2].
  destruct e as [now m|now order pops]; simpl in E1.
  - rewrite Hd in E1. destruct (bstep_msg cfg st now m) as [sx ox] eqn:Em. inversion E1; subst.
    simpl in Hf1. rewrite andb_true_r in Hf1.
    pose proof (bstep_msg_never_dead cfg st now m Hc Hf1 Ho Hd) as Hd1. rewrite Em in Hd1. simpl in Hd1.
    destruct (bstep_msg_refines cfg st now m st1 ox [] Hw Hd Em Hd1) as [acts Ha].
    apply IH; auto. exact (arun_open_ok cfg acts _ _ _ Ha Ho).
  - destruct (bstep_tick cfg st now order pops) as [[sx ox]|] eqn:Et.
    + inversion E1; subst.
      destruct (bstep_tick_refines cfg st now order pops st1 ox [] Hw Hd Et) as [Hd1 [acts Ha]].
      apply IH; auto. exact (arun_open_ok cfg acts _ _ _ Ha Ho).
    + inversion E1; subst. apply IH; auto.
Qed.

(* under the domain hypotheses the batcher never stops *)
Lemma run_never_dead cfg evs st t :
  cfg_ok cfg = true -> forallb (fits cfg) (msgs_of evs) = true -> brun cfg binit evs = (st, t) -> dead st = false.
Proof.
  intros Hc Hf H. pose proof (brun_never_dead cfg Hc evs binit Hf (open_ok_init cfg) eq_refl) as Hd.
  now rewrite H in Hd.
Qed.

(* ================= the tick (C16) ================= *)
(* what a flushed batch looks like on the wire: the batch, or only its transactions if it is empty *)
Definition payload (b : batch) : batch + txmap := if is_empty b then inr (b_txns b) else inl b.
Definition payloads (o : list bout) : list (batch + txmap) :=
  flat_map (fun x => match x with OBatch _ b => [inl b] | OEmptyWritten t => [inr t] | _ => [] end) o.

Lemma payloads_app a b : payloads (a ++ b) = payloads a ++ payloads b.
Proof. apply flat_map_app. Qed.

Lemma payloads_send cfg st b : workers_ok cfg -> payloads (seen_part st ++ [sent_body cfg st b]) = [payload b].
Proof.
  intros Hw. unfold seen_part, sent_body, payload. destruct (seenl st); simpl; destruct (is_empty b); simpl; auto;
    destruct (route_some cfg st b Hw) as [w ->]; reflexivity.
Qed.

(* the keys a flush really acts on: present, first occurrence *)
Fixpoint eff (opn : list (string * obatch)) (ks : list string) : list (string * obatch) :=
  match ks with
  | [] => []
  | k :: r => match aget k opn with
              | None => eff opn r
              | Some ob => (k, ob) :: eff (adel k opn) r
              end
  end.

Lemma flush_keys_spec cfg : workers_ok cfg -> forall ks st st' o,
  flush_keys cfg st ks = (st', o) ->
  payloads o = map (fun kv => payload (ob_batch (snd kv))) (eff (open st) ks) /\
  (forall p, In p (open st') <-> In p (open st) /\ ~ In (fst p) ks) /\
  dead st' = dead st.
Proof.
  intros Hw. induction ks as [|k r IH]; intros st st' o H; simpl in H.
  - inversion H; subst. simpl. split; [reflexivity|]. split; [tauto|reflexivity].
  - simpl eff. destruct (aget k (open st)) as [ob|] eqn:Hg.
    + rewrite send_batch_spec in H.
      change (existsb _ ?x) with (has_fatal x) in H. rewrite send_no_fatal in H by assumption.
      destruct (flush_keys cfg _ r) as [st2 o2] eqn:E. inversion H; subst.
      destruct (IH _ _ _ E) as (I1 & I2 & I3). simpl in I1, I2, I3.
      split; [rewrite payloads_app, payloads_send, I1 by assumption; reflexivity|].
      split; [|assumption].
      intros p. rewrite I2, in_adel_iff. simpl. intuition.
    + destruct (IH _ _ _ H) as (I1 & I2 & I3). split; [assumption|]. split; [|assumption].
      intros p. rewrite I2. simpl. split; [|tauto]. intros [Hin Hn]. split; [assumption|].
      intros [->|Hr]; [|tauto]. apply (aget_none_notin _ _ Hg). now apply in_map.
Qed.

Lemma eff_in opn : forall ks k ob, NoDup (map fst opn) ->
  (In (k, ob) (eff opn ks) <-> In k ks /\ In (k, ob) opn).
Proof.
  intros ks. revert opn. induction ks as [|k0 r IH]; intros opn k ob Hnd; simpl; [tauto|].
  destruct (aget k0 opn) as [ob0|] eqn:Hg.
  - simpl. rewrite IH by now apply nodup_adel. rewrite in_adel_iff. simpl. split.
    + intros [E|[H1 [H2 H3]]]; [inversion E; subst; split; [now left|now apply aget_some_in]|tauto].
    + intros [[->|H1] H2].
      * left. f_equal. pose proof (in_nodup_aget _ _ _ Hnd H2) as E. congruence.
      * destruct (String.eqb_spec k k0) as [->|Hne]; [|tauto].
        left. f_equal. pose proof (in_nodup_aget _ _ _ Hnd H2) as E. congruence.
  - rewrite IH by assumption. split; [tauto|]. intros [[->|H1] H2]; [|tauto].
    exfalso. apply (aget_none_notin _ _ Hg). change k with (fst (k, ob)). now apply in_map.
Qed.

Lemma eff_nodup opn : forall ks, NoDup (map fst (eff opn ks)).
Proof.
  intros ks. revert opn. induction ks as [|k0 r IH]; intros opn; simpl; [constructor|].
  destruct (aget k0 opn) as [ob0|] eqn:Hg; [|apply IH]. simpl. constructor; [|apply IH].
  intros Hin. apply in_map_iff in Hin. destruct Hin as ([k ob] & E & Hin). simpl in E. subst k.
  assert (Hsub : forall ks opn p, In p (eff opn ks) -> In p opn).
  { clear. induction ks as [|k r IH]; intros opn p; simpl; [tauto|].
    destruct (aget k opn) as [ob|] eqn:Hg; [|apply IH]. intros [<-|H]; [now apply aget_some_in|].
    apply IH in H. apply in_adel_iff in H. tauto. }
  apply Hsub in Hin. apply in_adel_iff in Hin. simpl in Hin. tauto.
Qed.

Lemma in_filter_keys (f : string -> bool) l k : In k (filter f l) <-> In k l /\ f k = true.
Proof. apply filter_In. Qed.

Lemma is_perm_keys_spec order st : is_perm_of_keys order st = true ->
  List.length order = List.length (open st) /\
  (forall k, In k (map fst (open st)) -> In k order) /\
  (forall k, In k order -> aget k (open st) <> None).
Proof.
  unfold is_perm_of_keys. intros H. apply andb_prop in H. destruct H as [H H3].
  apply andb_prop in H. destruct H as [H1 H2]. apply Nat.eqb_eq in H1. split; [assumption|]. split.
  - intros k Hk. apply in_map_iff in Hk. destruct Hk as (p & <- & Hp).
    rewrite forallb_forall in H2. specialize (H2 _ Hp). now apply existsb_eqb_in in H2.
  - intros k Hk. rewrite forallb_forall in H3. specialize (H3 _ Hk).
    destruct (aget k (open st)); [discriminate|discriminate].
Qed.

Lemma mem_flush_pops fuel cfg st : forall remaining tot pops mf,
  mem_flush fuel cfg st remaining tot pops = Some mf -> mf = pops.
Proof.
  induction fuel as [|f IH]; intros remaining tot pops mf H; simpl in H.
  - destruct (tot <? c_mem_limit cfg)%Z; [destruct pops; [now inversion H|discriminate]|discriminate].
  - destruct (tot <? c_mem_limit cfg)%Z; [destruct pops; [now inversion H|discriminate]|].
    destruct pops as [|k pops']; [discriminate|].
    destruct (aget k (open st)) as [ob|]; [|discriminate].
    destruct (_ && _); [|discriminate].
    destruct (mem_flush f cfg st _ _ pops') as [l|] eqn:E; [|discriminate].
    inversion H; subst. f_equal. eapply IH; eauto.
Qed.

(* C16_age *)
Lemma tick_age cfg st now order pops st' outs :
  workers_ok cfg -> NoDup (map fst (open st)) -> dead st = false ->
  bstep_tick cfg st now order pops = Some (st', outs) ->
  dead st' = false /\
  (* what stays open is unchanged and neither empty, full, stale nor old *)
  (forall k ob, In (k, ob) (open st') ->
     In (k, ob) (open st) /\ is_empty (ob_batch ob) = false /\ is_full (c_limits cfg) (ob_batch ob) = false /\
     (now - c_max_age cfg <= ob_ctime ob)%Z /\ (now - c_upd_age cfg <= ob_mtime ob)%Z) /\
  (* what is no longer open went out, exactly once, as a batch or (if empty) as its transactions *)
  exists flushed, NoDup (map fst flushed) /\
    (forall k ob, In (k, ob) flushed <-> In (k, ob) (open st) /\ ~ In (k, ob) (open st')) /\
    payloads outs = map (fun kv => payload (ob_batch (snd kv))) flushed.
Proof.
  intros Hw Hnd Hd H. unfold bstep_tick in H. rewrite Hd in H.
  destruct (negb (is_perm_of_keys order st)) eqn:Hperm; [discriminate|]. apply negb_false_iff in Hperm.
  destruct (mem_flush _ cfg st _ _ pops) as [mf|] eqn:Hmf; [|discriminate].
  inversion H as [Hfk]. clear H.
  destruct (flush_keys_spec cfg Hw _ _ _ _ Hfk) as (P1 & P2 & P3).
  destruct (is_perm_keys_spec _ _ Hperm) as (_ & Hall & Hpres).
  split; [congruence|]. split.
  - intros k ob Hin. apply P2 in Hin. simpl in Hin. destruct Hin as [Hin Hnot].
    split; [assumption|].
    assert (Hk : In k order) by (apply Hall; change k with (fst (k, ob)); now apply in_map).
    assert (Hfl : flagged cfg now ob = false).
    { destruct (flagged cfg now ob) eqn:Ef; [|reflexivity]. exfalso. apply Hnot. apply in_or_app. left.
      unfold rule_flush. apply filter_In. split; [assumption|].
      now rewrite (in_nodup_aget _ _ _ Hnd Hin). }
    unfold flagged in Hfl. apply orb_false_elim in Hfl. destruct Hfl as [Hfl F4].
    apply orb_false_elim in Hfl. destruct Hfl as [Hfl F3].
    apply orb_false_elim in Hfl. destruct Hfl as [F1 F2].
    apply Z.ltb_ge in F2, F3. auto.
  - exists (eff (open st) (rule_flush cfg now st order ++ mf)).
    split; [apply eff_nodup|]. split; [|assumption].
    intros k ob. rewrite eff_in by assumption. rewrite P2. simpl.
    destruct (in_dec string_dec k (rule_flush cfg now st order ++ mf)); tauto.
Qed.

(* ---------- memory pressure (C16_memory) ---------- *)
Definition gb (st : bstate) (k : string) : Z :=
  match aget k (open st) with Some ob => bytes_of ob | None => 0%Z end.
Definition open_bytes (st : bstate) : Z := zsum (fun kv => bytes_of (snd kv)) (open st).

Lemma kept_total_zsum st ks : kept_total st ks = zsum (gb st) ks.
Proof. reflexivity. Qed.

Lemma gb_nonneg st k : (0 <= gb st k)%Z.
Proof. unfold gb, bytes_of. destruct (aget k (open st)); lia. Qed.

Lemma zsum_perm {A} (f : A -> Z) l l' : Permutation l l' -> zsum f l = zsum f l'.
Proof.
  induction 1; try reflexivity.
  - rewrite !zsum_cons. lia.
  - rewrite !zsum_cons. lia.
  - congruence.
Qed.

Lemma zsum_remove st k : forall l, NoDup l -> In k l ->
  zsum (gb st) (filter (fun k' => negb (String.eqb k k')) l) = (zsum (gb st) l - gb st k)%Z.
Proof.
  induction l as [|x l IH]; intros Hnd Hin; [destruct Hin|]. inversion Hnd; subst. simpl filter.
  destruct (String.eqb_spec k x) as [->|Hne]; simpl.
  - rewrite zsum_cons.
    assert (E : filter (fun k' => negb (String.eqb x k')) l = l).
    { clear -H1. induction l as [|y l IH]; simpl; [reflexivity|].
      destruct (String.eqb_spec x y) as [->|]; simpl; [exfalso; apply H1; now left|].
      rewrite IH; [reflexivity|]. intros H; apply H1; now right. }
    rewrite E. lia.
  - destruct Hin as [->|Hin]; [congruence|]. rewrite !zsum_cons, IH by assumption. lia.
Qed.

Lemma filter_notin_cons k mf (l : list string) :
  filter (fun k' => negb (existsb (String.eqb k') (k :: mf))) l =
  filter (fun k' => negb (existsb (String.eqb k') mf)) (filter (fun k' => negb (String.eqb k k')) l).
Proof.
  induction l as [|x l IH]; simpl in *; [reflexivity|].
  rewrite (String.eqb_sym x k). destruct (String.eqb k x); simpl; [assumption|].
  destruct (existsb (String.eqb x) mf); simpl; now rewrite IH.
Qed.

Definition not_in (mf : list string) (k : string) : bool := negb (existsb (String.eqb k) mf).

Lemma mem_flush_spec cfg st : forall fuel remaining tot pops mf,
  NoDup remaining -> mem_flush fuel cfg st remaining tot pops = Some mf -> tot = kept_total st remaining ->
  (kept_total st (filter (not_in mf) remaining) < c_mem_limit cfg)%Z /\
  ((tot < c_mem_limit cfg)%Z -> mf = []) /\
  (forall k, In k mf -> In k remaining /\ aget k (open st) <> None /\
                        forall k', In k' (filter (not_in mf) remaining) -> (gb st k' <= gb st k)%Z).
Proof.
  induction fuel as [|f IH]; intros remaining tot pops mf Hnd H Htot; simpl in H.
  - destruct (Z.ltb_spec tot (c_mem_limit cfg)) as [Hlt|Hge]; [|discriminate].
    destruct pops; [|discriminate]. inversion H; subst mf.
    assert (E : filter (not_in []) remaining = remaining).
    { clear. induction remaining as [|x l IH]; simpl; [reflexivity|]. now rewrite IH. }
    rewrite E. split; [lia|]. split; [reflexivity|]. intros k [].
  - destruct (Z.ltb_spec tot (c_mem_limit cfg)) as [Hlt|Hge].
    { destruct pops; [|discriminate]. inversion H; subst mf.
      assert (E : filter (not_in []) remaining = remaining).
      { clear. induction remaining as [|x l IH]; simpl; [reflexivity|]. now rewrite IH. }
      rewrite E. split; [lia|]. split; [reflexivity|]. intros k []. }
    destruct pops as [|k pops']; [discriminate|].
    destruct (aget k (open st)) as [ob|] eqn:Hg; [|discriminate].
    destruct (existsb (String.eqb k) remaining) eqn:Hex; [|discriminate]. simpl in H.
    destruct (forallb _ remaining) eqn:Hmax; [|discriminate].
    destruct (mem_flush f cfg st _ _ pops') as [l|] eqn:E; [|discriminate].
    inversion H; subst mf. clear H.
    apply existsb_eqb_in in Hex.
    assert (Hgk : gb st k = bytes_of ob) by (unfold gb; now rewrite Hg).
    assert (Htot1 : (tot - bytes_of ob)%Z = kept_total st (filter (fun k' => negb (String.eqb k k')) remaining)).
    { rewrite Htot, !kept_total_zsum, zsum_remove by assumption. rewrite Hgk. lia. }
    destruct (IH _ _ _ _ (NoDup_filter _ Hnd) E Htot1) as (I1 & I2 & I3).
    unfold not_in in *. rewrite filter_notin_cons.
    split; [assumption|]. split; [lia|].
    intros k0 [<-|Hk0].
    + split; [assumption|]. split; [congruence|].
      intros k' Hk'. apply filter_In in Hk'. destruct Hk' as [Hk' _]. apply filter_In in Hk'. destruct Hk' as [Hk' _].
      rewrite forallb_forall in Hmax. specialize (Hmax _ Hk'). rewrite Hgk. unfold gb.
      destruct (aget k' (open st)); [now apply Z.leb_le|unfold bytes_of; lia].
    + destruct (I3 _ Hk0) as (J1 & J2 & J3). apply filter_In in J1. tauto.
Qed.

Lemma flush_keys_nodup cfg : forall ks st st' o,
  flush_keys cfg st ks = (st', o) -> NoDup (map fst (open st)) -> NoDup (map fst (open st')).
Proof.
  induction ks as [|k r IH]; intros st st' o H Hnd; simpl in H.
  - now inversion H; subst.
  - destruct (aget k (open st)) as [ob|]; [|eauto].
    rewrite send_batch_spec in H. destruct (existsb _ _).
    + inversion H; subst. assumption.
    + destruct (flush_keys cfg _ r) as [st2 o2] eqn:E. inversion H; subst.
      apply (IH _ _ _ E). simpl. now apply nodup_adel.
Qed.

Lemma zsum_keys {V} (f : string * V -> Z) (g : string -> Z) l :
  (forall p, In p l -> f p = g (fst p)) -> zsum f l = zsum g (map fst l).
Proof.
  induction l as [|p l IH]; intros H; [reflexivity|]. simpl map. rewrite !zsum_cons, IH.
  - rewrite H; [reflexivity|now left].
  - intros q Hq. apply H. now right.
Qed.

(* C16_memory *)
Lemma tick_memory cfg st now order pops st' outs :
  workers_ok cfg -> NoDup (map fst (open st)) -> dead st = false ->
  bstep_tick cfg st now order pops = Some (st', outs) ->
  (open_bytes st' < c_mem_limit cfg)%Z /\
  (forall k ob k' ob', In k pops -> aget k (open st) = Some ob -> In (k', ob') (open st') ->
                       (bytes_of ob' <= bytes_of ob)%Z) /\
  (forall k, In k pops -> exists ob, In (k, ob) (open st) /\ flagged cfg now ob = false /\ ~ In (k, ob) (open st')) /\
  ((kept_total st (kept_keys cfg now st order) < c_mem_limit cfg)%Z -> pops = []).
Proof.
  intros Hw Hnd Hd H. unfold bstep_tick in H. rewrite Hd in H.
  destruct (negb (is_perm_of_keys order st)) eqn:Hperm; [discriminate|]. apply negb_false_iff in Hperm.
  destruct (mem_flush _ cfg st _ _ pops) as [mf|] eqn:Hmf; [|discriminate].
  inversion H as [Hfk]. clear H.
  pose proof (mem_flush_pops _ _ _ _ _ _ _ Hmf) as ->.
  destruct (flush_keys_spec cfg Hw _ _ _ _ Hfk) as (P1 & P2 & P3).
  destruct (is_perm_keys_spec _ _ Hperm) as (Hlen & Hall & Hpres).
  assert (Hnd_order : NoDup order).
  { apply (NoDup_incl_NoDup Hnd); [rewrite map_length; lia|exact Hall]. }
  set (kept := kept_keys cfg now st order) in *.
  assert (Hnd_kept : NoDup kept) by (apply NoDup_filter; assumption).
  destruct (mem_flush_spec cfg st _ _ _ _ _ Hnd_kept Hmf eq_refl) as (M1 & M2 & M3).
  (* membership in kept *)
  assert (Hkept : forall k, In k kept <-> exists ob, In (k, ob) (open st) /\ flagged cfg now ob = false).
  { intros k. unfold kept, kept_keys. rewrite filter_In. split.
    - intros [Hk Hf]. destruct (aget k (open st)) as [ob|] eqn:Hg; [|discriminate].
      exists ob. split; [now apply aget_some_in|now apply negb_true_iff in Hf].
    - intros (ob & Hin & Hf). split; [apply Hall; change k with (fst (k, ob)); now apply in_map|].
      rewrite (in_nodup_aget _ _ _ Hnd Hin), Hf. reflexivity. }
  assert (Hrule : forall k, In k (rule_flush cfg now st order) <-> exists ob, In (k, ob) (open st) /\ flagged cfg now ob = true).
  { intros k. unfold rule_flush. rewrite filter_In. split.
    - intros [Hk Hf]. destruct (aget k (open st)) as [ob|] eqn:Hg; [|discriminate].
      exists ob. split; [now apply aget_some_in|assumption].
    - intros (ob & Hin & Hf). split; [apply Hall; change k with (fst (k, ob)); now apply in_map|].
      now rewrite (in_nodup_aget _ _ _ Hnd Hin). }
  (* the keys still open are exactly the kept keys that were not popped *)
  assert (Hmem : forall k, In k (map fst (open st')) <-> In k (filter (not_in pops) kept)).
  { intros k. rewrite filter_In, Hkept. unfold not_in. split.
    - intros Hk. apply in_map_iff in Hk. destruct Hk as ([k0 ob] & <- & Hin). simpl.
      apply P2 in Hin. simpl in Hin. destruct Hin as [Hin Hnot]. split.
      + exists ob. split; [assumption|]. destruct (flagged cfg now ob) eqn:Ef; [|reflexivity].
        exfalso. apply Hnot. apply in_or_app. left. apply Hrule. eauto.
      + apply negb_true_iff. destruct (existsb (String.eqb k0) pops) eqn:Ee; [|reflexivity].
        exfalso. apply Hnot. apply in_or_app. right. now apply existsb_eqb_in.
    - intros [(ob & Hin & Hf) Hnp]. apply negb_true_iff in Hnp.
      change k with (fst (k, ob)). apply in_map. apply P2. simpl. split; [assumption|].
      intros Hbad. apply in_app_or in Hbad. destruct Hbad as [Hbad|Hbad].
      + apply Hrule in Hbad. destruct Hbad as (ob2 & Hin2 & Hf2).
        pose proof (in_nodup_aget _ _ _ Hnd Hin). pose proof (in_nodup_aget _ _ _ Hnd Hin2). congruence.
      + apply existsb_eqb_in in Hbad. congruence. }
  assert (Hnd' : NoDup (map fst (open st'))) by (eapply flush_keys_nodup; eauto).
  assert (Hbytes : open_bytes st' = kept_total st (filter (not_in pops) kept)).
  { unfold open_bytes. rewrite kept_total_zsum.
    rewrite (zsum_keys _ (gb st)).
    - apply zsum_perm. apply NoDup_Permutation; [assumption|now apply NoDup_filter|exact Hmem].
    - intros [k ob] Hin. apply P2 in Hin. simpl in *. destruct Hin as [Hin _].
      unfold gb. now rewrite (in_nodup_aget _ _ _ Hnd Hin). }
  split; [rewrite Hbytes; exact M1|]. split; [|split].
  - intros k ob k' ob' Hk Hg Hin'. destruct (M3 _ Hk) as (_ & _ & Hmax).
    assert (Hk' : In k' (filter (not_in pops) kept)).
    { apply Hmem. change k' with (fst (k', ob')). now apply in_map. }
    specialize (Hmax _ Hk'). unfold gb in Hmax. rewrite Hg in Hmax.
    apply P2 in Hin'. simpl in Hin'. destruct Hin' as [Hin' _].
    now rewrite (in_nodup_aget _ _ _ Hnd Hin') in Hmax.
  - intros k Hk. destruct (M3 _ Hk) as (Hk1 & _ & _). apply Hkept in Hk1. destruct Hk1 as (ob & Hin & Hf).
    exists ob. split; [assumption|]. split; [assumption|]. intros Hin'. apply P2 in Hin'. simpl in Hin'.
    destruct Hin' as [_ Hnot]. apply Hnot. apply in_or_app. now right.
  - exact M2.
Qed.

(* ---------- the tick is never stuck: admissible oracles exist (C16_oracle_exists) ---------- *)
Lemma exists_max (g : string -> Z) l : l <> [] -> exists k, In k l /\ forall k', In k' l -> (g k' <= g k)%Z.
Proof.
  induction l as [|x l IH]; [congruence|]. intros _. destruct l as [|y l'].
  - exists x. split; [now left|]. intros k' [<-|[]]. lia.
  - destruct IH as (k & Hk & Hmax); [discriminate|].
    destruct (Z.le_gt_cases (g k) (g x)).
    + exists x. split; [now left|]. intros k' [<-|Hk']; [lia|]. specialize (Hmax _ Hk'). lia.
    + exists k. split; [now right|]. intros k' [<-|Hk']; [lia|]. auto.
Qed.

Lemma filter_len_le {A} (f : A -> bool) l : (List.length (filter f l) <= List.length l)%nat.
Proof. induction l as [|x l IH]; simpl; [lia|]. destruct (f x); simpl; lia. Qed.

Lemma filter_remove_length k (l : list string) : In k l ->
  (List.length (filter (fun k' => negb (String.eqb k k')) l) < List.length l)%nat.
Proof.
  induction l as [|x l IH]; intros Hin; [destruct Hin|]. simpl.
  destruct (String.eqb_spec k x) as [->|Hne]; simpl.
  - pose proof (filter_len_le (fun k' => negb (String.eqb x k')) l). lia.
  - destruct Hin as [->|Hin]; [congruence|]. specialize (IH Hin). lia.
Qed.

Lemma mem_flush_exists cfg st : (0 < c_mem_limit cfg)%Z -> forall fuel remaining,
  NoDup remaining -> (forall k, In k remaining -> aget k (open st) <> None) ->
  (List.length remaining < fuel)%nat ->
  exists pops, mem_flush fuel cfg st remaining (kept_total st remaining) pops = Some pops.
Proof.
  intros Hlim. induction fuel as [|f IH]; intros remaining Hnd Hpres Hlen; [lia|]. simpl.
  destruct (Z.ltb_spec (kept_total st remaining) (c_mem_limit cfg)) as [Hlt|Hge].
  - exists []. reflexivity.
  - assert (Hne : remaining <> []) by (intros ->; unfold kept_total, sum_Z in Hge; simpl in Hge; lia).
    destruct (exists_max (gb st) remaining Hne) as (k & Hk & Hmax).
    destruct (aget k (open st)) as [ob|] eqn:Hg; [|exfalso; now apply (Hpres k)].
    assert (Hgk : gb st k = bytes_of ob) by (unfold gb; now rewrite Hg).
    destruct (IH (filter (fun k' => negb (String.eqb k k')) remaining)) as [pops' Hp].
    + now apply NoDup_filter.
    + intros k' Hk'. apply filter_In in Hk'. apply Hpres. tauto.
    + pose proof (filter_remove_length k remaining Hk). lia.
    + exists (k :: pops'). rewrite Hg.
      assert (E1 : existsb (String.eqb k) remaining = true) by now apply existsb_eqb_in.
      rewrite E1. simpl.
      assert (E2 : forallb (fun k' => match aget k' (open st) with
                                      | Some ob' => (bytes_of ob' <=? bytes_of ob)%Z | None => true end) remaining = true).
      { apply forallb_forall. intros k' Hk'. specialize (Hmax _ Hk'). rewrite Hgk in Hmax. unfold gb in Hmax.
        destruct (aget k' (open st)); [now apply Z.leb_le|reflexivity]. }
      rewrite E2.
      replace (kept_total st remaining - bytes_of ob)%Z
        with (kept_total st (filter (fun k' => negb (String.eqb k k')) remaining)).
      * now rewrite Hp.
      * rewrite !kept_total_zsum, zsum_remove by assumption. now rewrite Hgk.
Qed.

Lemma in_keys_aget {V} (k : string) (m : list (string * V)) : In k (map fst m) -> aget k m <> None.
Proof. intros H E. exact (aget_none_notin _ _ E H). Qed.

Lemma tick_oracle_exists cfg st now :
  (0 < c_mem_limit cfg)%Z -> NoDup (map fst (open st)) ->
  exists pops r, bstep_tick cfg st now (map fst (open st)) pops = Some r.
Proof.
  intros Hlim Hnd. unfold bstep_tick. destruct (dead st); [exists [], (st, []); reflexivity|].
  assert (Hperm : is_perm_of_keys (map fst (open st)) st = true).
  { unfold is_perm_of_keys. rewrite map_length, Nat.eqb_refl. simpl. apply andb_true_intro. split.
    - apply forallb_forall. intros p Hp. apply existsb_eqb_in. now apply in_map.
    - apply forallb_forall. intros k Hk. apply in_keys_aget in Hk. destruct (aget k (open st)); congruence. }
  rewrite Hperm. simpl negb. cbv iota.
  set (kept := kept_keys cfg now st (map fst (open st))).
  destruct (mem_flush_exists cfg st Hlim (S (List.length kept)) kept) as [pops Hp].
  - apply NoDup_filter. assumption.
  - intros k Hk. unfold kept, kept_keys in Hk. apply filter_In in Hk. destruct Hk as [_ Hk].
    destruct (aget k (open st)); [discriminate|discriminate].
  - lia.
  - exists pops. rewrite Hp. eexists. reflexivity.
Qed.

(* ---------- packaged statements used by props/ ---------- *)
Lemma run_conservation_full cfg evs st t :
  workers_ok cfg -> brun cfg binit evs = (st, t) -> dead st = false ->
  Permutation (map m_id (filter (fun m => change m && accepted cfg m) (fed t)))
              (flat_map (fun wb => ids (snd wb)) (dispatched t) ++ open_ids st) /\
  drops_big st = N.of_nat (List.length (filter (fun m => change m && is_big cfg m) (fed t))) /\
  drops_invalid st = N.of_nat (List.length (filter (fun m => change m && is_invalid cfg m) (fed t))).
Proof.
  intros Hw H Hd. split; [eapply run_conservation; eauto|eapply run_drops; eauto].
Qed.

(* the same on the stated domain, where "not dead" is a consequence instead of a hypothesis *)
Lemma run_conservation_domain cfg evs st t :
  cfg_ok cfg = true -> forallb (fits cfg) (msgs_of evs) = true -> brun cfg binit evs = (st, t) ->
  dead st = false /\ fed t = msgs_of evs /\
  Permutation (map m_id (filter (fun m => change m && accepted cfg m) (fed t)))
              (flat_map (fun wb => ids (snd wb)) (dispatched t) ++ open_ids st) /\
  drops_big st = N.of_nat (List.length (filter (fun m => change m && is_big cfg m) (fed t))) /\
  drops_invalid st = N.of_nat (List.length (filter (fun m => change m && is_invalid cfg m) (fed t))).
Proof.
  intros Hc Hf H. pose proof (run_never_dead cfg evs st t Hc Hf H) as Hd.
  split; [assumption|]. split; [|apply run_conservation_full with (evs := evs); auto using cfg_ok_workers].
  (* everything offered was received: no step was skipped because of a dead batcher *)
  clear Hf. revert st t H Hd. generalize binit. induction evs as [|e r IH]; intros st0 st t H Hd; simpl in H.
  - inversion H; subst. reflexivity.
  - destruct (bstep cfg st0 e) as [st1 t1] eqn:E1. destruct (brun cfg st1 r) as [st2 t2] eqn:E2.
    inversion H; subst. rewrite fed_app. simpl msgs_of.
    destruct (dead st1) eqn:Hd1.
    { rewrite brun_dead in E2 by assumption. inversion E2; subst. congruence. }
    rewrite (IH _ _ _ E2 Hd). f_equal.
    destruct e as [now m|now order pops]; simpl in E1.
    + destruct (dead st0) eqn:Hd0; [inversion E1; subst; congruence|].
      destruct (bstep_msg cfg st0 now m) as [sx ox]. inversion E1; subst.
      now rewrite fed_cons_feed, fed_outs.
    + destruct (bstep_tick cfg st0 now order pops) as [[sx ox]|]; inversion E1; subst; [apply fed_outs|reflexivity].
Qed.

Lemma run_wf cfg evs st t :
  workers_ok cfg -> brun cfg binit evs = (st, t) -> dead st = false -> NoDup (map fst (open st)).
Proof.
  intros Hw H Hd. destruct (brun_machine cfg evs st t Hw H Hd) as [acts Ha].
  destruct (struct_inv cfg acts _ _ Ha) as [[Hnd _] _]. exact Hnd.
Qed.

(* with limits that leave room for a key of [bound] bytes beside a maximal record, every message whose
   Kinesis partition key has at most [bound] bytes satisfies [fits] *)
Lemma fits_bounded_key L bound : (max_record_bytes L + bound <= max_batch_bytes L)%N ->
  forall cfg meth m, c_kind cfg = BKinesis meth -> c_limits cfg = L ->
  (N.of_nat (String.length (pk_of meth m)) <= bound)%N -> fits cfg m = true.
Proof.
  intros HL cfg meth m Hk HLc Hb. unfold fits. rewrite Hk, HLc.
  destruct (is_marker m); [reflexivity|]. simpl.
  destruct (N.ltb_spec (max_record_bytes L) (m_jlen m)); [reflexivity|]. simpl.
  apply N.leb_le. lia.
Qed.

(* ================= runs that stop fatally: what was sent before is still a machine trace ================= *)
Lemma add_to_batch_sends cfg (now : Z) : forall fuel st b m st3 b3 s o3 ct mt added,
  add_to_batch fuel cfg st b m = (st3, b3, s, o3) -> dead st = false ->
  exists acts g', arun cfg (mkG (with_ob st (m_pkey m) (mkOB b ct mt)) added (Some m)) acts = Some (g', map TOut o3).
Proof.
  induction fuel as [|f IH]; intros st b m st3 b3 s o3 ct mt added H Hd; simpl in H;
    destruct (add (c_limits cfg) b m) as [b' r] eqn:Ha.
  - exists [], (mkG (with_ob st (m_pkey m) (mkOB b ct mt)) added (Some m)).
    destruct r; inversion H; subst; reflexivity.
  - destruct r; try (exists [], (mkG (with_ob st (m_pkey m) (mkOB b ct mt)) added (Some m));
                     inversion H; subst; reflexivity).
    rewrite send_batch_spec in H.
    destruct (add_to_batch f cfg (sent_state cfg st b) (new_batch (c_kind cfg) (m_pkey m)) m)
      as [[[st2 b2] s2] o2] eqn:E.
    inversion H; subst. clear H.
    destruct (IH _ _ _ _ _ _ _ now now added E Hd) as (acts & g' & Hacts).
    exists (ASend (m_pkey m) (Some now) :: acts), g'.
    cbn [arun]. rewrite astep_send_with_ob by assumption. rewrite Hacts. f_equal. f_equal. symmetry. apply map_app.
Qed.

Lemma bstep_msg_fatal cfg st now m st' o added :
  workers_ok cfg -> dead st = false -> bstep_msg cfg st now m = (st', o) -> dead st' = true ->
  exists o' acts g', o = o' ++ [OFatal] /\
    arun cfg (mkG st added None) acts = Some (g', TFeed m :: map TOut o').
Proof.
  intros Hw Hd H Hd'. rewrite bstep_msg_eq in H by assumption. cbv zeta in H.
  assert (Hfeed : astep cfg (mkG st added None) (AFeed now m) =
                  Some (mkG (feed_state cfg st now m) added (if is_marker m then None else Some m), [TFeed m])).
  { unfold astep. simpl. now rewrite Hd. }
  set (st1 := feed_state cfg st now m) in *.
  set (ob0 := cur_ob cfg st now (m_pkey m)) in *.
  pose proof (feed_state_aget cfg st now m) as Hg0. fold st1 ob0 in Hg0.
  assert (Hd1 : dead st1 = false) by reflexivity.
  assert (Hph1 : exists st2 ob2 o2 acts1,
            (if is_full (c_limits cfg) (ob_batch ob0)
             then let '(s, o) := send_batch cfg st1 (ob_batch ob0) in
                  (set_open s (aset (m_pkey m) (mkOB (new_batch (c_kind cfg) (m_pkey m)) now now) (open s)),
                   mkOB (new_batch (c_kind cfg) (m_pkey m)) now now, o)
             else (st1, ob0, [])) = (st2, ob2, o2) /\
            has_fatal o2 = false /\ dead st2 = false /\ aget (m_pkey m) (open st2) = Some ob2 /\
            forall pend, arun cfg (mkG st1 added pend) acts1 = Some (mkG st2 added pend, map TOut o2)).
  { destruct (is_full (c_limits cfg) (ob_batch ob0)).
    - rewrite send_batch_spec. do 3 eexists. exists [ASend (m_pkey m) (Some now)].
      split; [reflexivity|]. split; [now apply send_no_fatal|]. split; [reflexivity|].
      split; [simpl; now rewrite aget_aset, String.eqb_refl|].
      intros pend. apply arun_one. unfold astep. simpl g_st. rewrite Hd1, Hg0. reflexivity.
    - exists st1, ob0, [], []. repeat split; auto. }
  destruct Hph1 as (st2 & ob2 & o2 & acts1 & E1 & Hnf & Hd2 & Hg2 & Hrun1).
  rewrite E1 in H. rewrite Hnf in H.
  destruct (is_marker m) eqn:Hm.
  { inversion H; subst. congruence. }
  destruct (add_to_batch 2 cfg st2 (ob_batch ob2) m) as [[[st3 b3] status] o3] eqn:E3.
  destruct (add_to_batch_sends cfg now 2 st2 (ob_batch ob2) m st3 b3 status o3
              (ob_ctime ob2) (ob_mtime ob2) added E3 Hd2) as (acts2 & g' & Hr).
  rewrite <- obatch_eta in Hr. rewrite (with_ob_same _ _ _ Hg2) in Hr.
  assert (Ho : o = (o2 ++ o3) ++ [OFatal]).
  { destruct status; inversion H; subst; try discriminate; now rewrite app_assoc. }
  exists (o2 ++ o3), (AFeed now m :: acts1 ++ acts2), g'. split; [assumption|].
  cbn [arun]. rewrite Hfeed. rewrite (arun_app _ _ _ _ _ _ _ _ (Hrun1 (Some m)) Hr).
  simpl. now rewrite map_app.
Qed.

(* every trace of the model is a trace of the action machine, possibly followed by one OFatal *)
Definition machine_trace (cfg : bcfg) (t : list tr) : Prop :=
  exists acts g, arun cfg ginit acts = Some (g, t).

Lemma brun_trace_gen cfg : workers_ok cfg -> forall evs st st' t added,
  dead st = false -> brun cfg st evs = (st', t) ->
  exists t0 acts g', arun cfg (mkG st added None) acts = Some (g', t0) /\ (t = t0 \/ t = t0 ++ [TOut OFatal]).
Proof.
  intros Hw. induction evs as [|e r IH]; intros st st' t added Hd H; simpl in H.
  - inversion H; subst. exists [], [], (mkG st' added None). split; [reflexivity|now left].
  - destruct (bstep cfg st e) as [st1 t1] eqn:E1. destruct (brun cfg st1 r) as [st2 t2] eqn:E2.
    inversion H; subst. clear H.
    destruct (dead st1) eqn:Hd1.
    + rewrite brun_dead in E2 by assumption. inversion E2; subst. rewrite app_nil_r.
      destruct e as [now m|now order pops]; simpl in E1.
      * rewrite Hd in E1. destruct (bstep_msg cfg st now m) as [sx ox] eqn:Em. inversion E1; subst.
        destruct (bstep_msg_fatal cfg st now m _ ox added Hw Hd Em Hd1) as (o' & acts & g' & -> & Ha).
        exists (TFeed m :: map TOut o'), acts, g'. split; [assumption|]. right.
        simpl. now rewrite map_app.
      * destruct (bstep_tick cfg st now order pops) as [[sx ox]|] eqn:Et.
        -- inversion E1; subst.
           destruct (bstep_tick_refines cfg st now order pops _ ox added Hw Hd Et) as [Hd2 _]. congruence.
        -- inversion E1; subst. congruence.
    + assert (Hstep : exists acts1, arun cfg (mkG st added None) acts1 =
                                    Some (mkG st1 (added ++ changes (fed t1)) None, t1)).
      { destruct e as [now m|now order pops]; simpl in E1.
        - rewrite Hd in E1. destruct (bstep_msg cfg st now m) as [sx ox] eqn:Em. inversion E1; subst.
          destruct (bstep_msg_refines cfg st now m st1 ox added Hw Hd Em Hd1) as [acts Ha].
          exists acts. rewrite Ha. now rewrite fed_cons_feed, fed_outs.
        - destruct (bstep_tick cfg st now order pops) as [[sx ox]|] eqn:Et.
          + inversion E1; subst.
            destruct (bstep_tick_refines cfg st now order pops st1 ox added Hw Hd Et) as [_ [acts Ha]].
            exists acts. rewrite Ha. rewrite fed_outs. simpl. now rewrite app_nil_r.
          + inversion E1; subst. exists []. simpl. now rewrite app_nil_r. }
      destruct Hstep as [acts1 H1].
      destruct (IH _ _ _ (added ++ changes (fed t1)) Hd1 E2) as (t0 & acts2 & g' & H2 & Ht).
      exists (t1 ++ t0), (acts1 ++ acts2), g'. split; [exact (arun_app _ _ _ _ _ _ _ _ H1 H2)|].
      destruct Ht as [->| ->]; [now left|right; now rewrite app_assoc].
Qed.

Lemma brun_trace cfg evs st t : workers_ok cfg -> brun cfg binit evs = (st, t) ->
  exists t0, machine_trace cfg t0 /\ (t = t0 \/ t = t0 ++ [TOut OFatal]).
Proof.
  intros Hw H. destruct (brun_trace_gen cfg Hw evs binit st t [] eq_refl H) as (t0 & acts & g' & Ha & Ht).
  exists t0. split; [exists acts, g'; exact Ha|exact Ht].
Qed.

Lemma dispatched_fatal t0 : dispatched (t0 ++ [TOut OFatal]) = dispatched t0.
Proof. rewrite dispatched_app. simpl. now rewrite app_nil_r. Qed.
Lemma fed_fatal t0 : fed (t0 ++ [TOut OFatal]) = fed t0.
Proof. rewrite fed_app. simpl. now rewrite app_nil_r. Qed.

(* --- safety properties of the trace, for EVERY run (also those that stop fatally) --- *)
Lemma run_dispatched_limits_all cfg evs st t : workers_ok cfg -> kind_ok cfg ->
  brun cfg binit evs = (st, t) ->
  forall w b, In (w, b) (dispatched t) ->
    is_empty b = false /\ b_kind b = c_kind cfg /\ batch_ok (c_limits cfg) b.
Proof.
  intros Hw Hk H w b Hin. destruct (brun_trace cfg evs st t Hw H) as (t0 & (acts & g & Ha) & Ht).
  assert (Hin0 : In (w, b) (dispatched t0)) by (destruct Ht as [->| ->]; [assumption|now rewrite dispatched_fatal in Hin]).
  destruct (struct_inv cfg acts _ _ Ha) as [_ Hdisp]. destruct (Hdisp w b Hin0) as (E1 & E2 & E3). auto.
Qed.

Lemma run_dispatched_kinesis_all L : within_aws L -> forall cfg meth evs st t,
  workers_ok cfg -> c_kind cfg = BKinesis meth -> c_limits cfg = L ->
  brun cfg binit evs = (st, t) ->
  forall w b, In (w, b) (dispatched t) ->
    b_items b <> [] /\ (N.of_nat (List.length (b_items b)) <= 500)%N /\
    sum_N (map rsize (b_items b)) = b_bytes b /\ (sum_N (map rsize (b_items b)) <= 5 * 2^20)%N /\
    Forall (fun r => (r_len r <= 2^20)%N) (b_items b).
Proof.
  intros HL cfg meth evs st t Hw Hk HLc H w b Hin.
  assert (Hko : kind_ok cfg) by (unfold kind_ok; now rewrite Hk).
  destruct (run_dispatched_limits_all cfg evs st t Hw Hko H w b Hin) as (E1 & E2 & E3).
  unfold batch_ok in E3. rewrite E2, Hk, HLc in E3.
  split; [unfold is_empty in E1; destruct (b_items b); [discriminate|discriminate]|].
  exact (kinesis_ok_aws L b HL E3).
Qed.

Lemma run_partition_routing_all cfg evs st t : workers_ok cfg -> c_routing cfg = ByPartition ->
  brun cfg binit evs = (st, t) ->
  forall w b, In (w, b) (dispatched t) -> Some w = quick_hash (b_pkey b) (c_workers cfg).
Proof.
  intros Hw Hr H w b Hin. destruct (brun_trace cfg evs st t Hw H) as (t0 & (acts & g & Ha) & Ht).
  assert (Hin0 : In (w, b) (dispatched t0)) by (destruct Ht as [->| ->]; [assumption|now rewrite dispatched_fatal in Hin]).
  eapply partition_routing_inv; eauto.
Qed.

Lemma run_round_robin_all cfg evs st t : workers_ok cfg -> c_routing cfg = RoundRobin ->
  brun cfg binit evs = (st, t) ->
  map fst (dispatched t) = map (fun i => (N.of_nat i mod c_workers cfg)%N) (seq 0 (List.length (dispatched t))).
Proof.
  intros Hw Hr H. destruct (brun_trace cfg evs st t Hw H) as (t0 & (acts & g & Ha) & Ht).
  destruct (round_robin_inv cfg acts _ _ Hw Hr Ha) as [_ E].
  destruct Ht as [->| ->]; [assumption|now rewrite dispatched_fatal].
Qed.

Lemma fed_invariant cfg acts g t : arun cfg ginit acts = Some (g, t) -> fed_inv g t.
Proof.
  intros H. refine (arun_inv cfg fed_inv _ acts ginit [] g t _ H); [|reflexivity].
  intros g0 t0 a g1 t1 Hf Hs. eapply fed_inv_step; eauto.
Qed.

Lemma machine_items cfg t0 : workers_ok cfg -> machine_trace cfg t0 ->
  forall w b, In (w, b) (dispatched t0) ->
    exists ms, sublist ms (fed t0) /\ b_items b = map (rec_of_kind (c_kind cfg)) ms /\
               forall m, In m ms -> is_marker m = false /\ fate_of cfg m = FAccepted /\ m_pkey m = b_pkey b.
Proof.
  intros Hw (acts & g & Ha) w b Hin.
  destruct (pk_invariant cfg acts _ _ Hw Ha) as (_ & _ & Hpk). specialize (Hpk (b_pkey b)).
  pose proof (fed_invariant cfg acts _ _ Ha) as Hf. unfold fed_inv in Hf.
  (* the items of b are a segment of the dispatched items of its key *)
  assert (Hseg : exists pre post, disp_items (b_pkey b) t0 = pre ++ b_items b ++ post).
  { unfold disp_items. induction (dispatched t0) as [|wb l IH]; [destruct Hin|]. simpl.
    destruct Hin as [->|Hin].
    - exists [], (flat_map (items_for (b_pkey b)) l). unfold items_for at 1. simpl. now rewrite String.eqb_refl.
    - destruct (IH Hin) as (pre & post & E). exists (items_for (b_pkey b) wb ++ pre), post.
      rewrite E. now rewrite app_assoc. }
  destruct Hseg as (pre & post & Hseg). rewrite Hseg in Hpk.
  (* split the accepted messages accordingly *)
  assert (Hsplit : forall (l : list msg) (a c : list rec) (f : msg -> rec), a ++ c = map f l ->
            exists la lc, l = la ++ lc /\ a = map f la /\ c = map f lc).
  { clear. intros l a. revert l. induction a as [|x a IH]; intros l c f E.
    - exists [], l. auto.
    - destruct l as [|m l]; [discriminate|]. simpl in E. inversion E; subst.
      destruct (IH l c f H1) as (la & lc & -> & -> & ->). exists (m :: la), lc. auto. }
  rewrite <- !app_assoc in Hpk.
  destruct (Hsplit _ _ _ _ Hpk) as (l1 & l2 & E12 & _ & E2).
  destruct (Hsplit _ _ _ _ E2) as (ms & l3 & E23 & Ems & _).
  exists ms. split; [|split; [exact Ems|]].
  - eapply sublist_trans; [|apply (sublist_filter change (fed t0))]. fold (changes (fed t0)). rewrite Hf.
    eapply sublist_trans; [|apply sublist_app_l].
    eapply sublist_trans; [|apply (sublist_filter (accp cfg (b_pkey b)))]. rewrite E12, E23.
    eapply sublist_trans; [apply sublist_app_l|apply sublist_app_r].
  - intros m Hm.
    assert (Hm' : In m (filter (accp cfg (b_pkey b)) (g_added g))).
    { rewrite E12, E23. apply in_or_app. right. apply in_or_app. now left. }
    apply filter_In in Hm'. destruct Hm' as [_ Hacc]. unfold accp, accepted, change in Hacc.
    apply andb_prop in Hacc. destruct Hacc as [Hacc H3]. apply andb_prop in Hacc. destruct Hacc as [H1 H2].
    apply negb_true_iff in H1. apply String.eqb_eq in H3. repeat split; auto.
    destruct (fate_of cfg m); try discriminate; reflexivity.
Qed.

(* C06_homogeneous (dispatched part) and C05_in_batch for EVERY run *)
Lemma run_items_all cfg evs st t : workers_ok cfg -> brun cfg binit evs = (st, t) ->
  forall w b, In (w, b) (dispatched t) ->
    exists ms, sublist ms (fed t) /\ b_items b = map (rec_of_kind (c_kind cfg)) ms /\
               forall m, In m ms -> is_marker m = false /\ fate_of cfg m = FAccepted /\ m_pkey m = b_pkey b.
Proof.
  intros Hw H w b Hin. destruct (brun_trace cfg evs st t Hw H) as (t0 & Hm & Ht).
  destruct Ht as [->| ->]; [exact (machine_items cfg t0 Hw Hm w b Hin)|].
  rewrite dispatched_fatal in Hin. rewrite fed_fatal. exact (machine_items cfg t0 Hw Hm w b Hin).
Qed.

Lemma run_in_batch_all cfg evs st t : workers_ok cfg -> brun cfg binit evs = (st, t) ->
  forall w b, In (w, b) (dispatched t) ->
    sublist (b_items b) (map (rec_of_kind (c_kind cfg)) (fed t)) /\ sublist (ids b) (map m_id (fed t)).
Proof.
  intros Hw H w b Hin. destruct (run_items_all cfg evs st t Hw H w b Hin) as (ms & Hs & E & _).
  split; [rewrite E; now apply sublist_map|].
  unfold ids. rewrite E, map_map. rewrite (map_ext _ m_id (r_id_rec_of_kind (c_kind cfg))). now apply sublist_map.
Qed.

(* C01 (batcher half) for EVERY run *)
Lemma run_dispatch_order_all cfg evs st t : workers_ok cfg -> brun cfg binit evs = (st, t) ->
  forall t1 w b t2, t = t1 ++ TOut (OBatch w b) :: t2 ->
    seen_outs t1 = seens_of (fed t1) /\
    incl (ids b) (map m_id (changes (fed t1))) /\
    (forall c, In c (fed t1) -> is_commit c = true ->
       exists n, In (mkSeen (m_txn c) (m_key c) n (m_wal c)) (seen_outs t1)).
Proof.
  intros Hw H t1 w b t2 E. destruct (brun_trace cfg evs st t Hw H) as (t0 & (acts & g & Ha) & Ht).
  destruct (dispatch_invariant cfg acts _ _ Hw Ha) as [_ Hall].
  assert (Hall' : all_disp at_dispatch [] t).
  { destruct Ht as [->| ->]; [assumption|]. apply all_disp_app. split; [assumption|]. simpl. auto. }
  destruct (all_disp_split _ _ Hall' t1 w b t2 E) as [E1 E2].
  split; [auto|]. split; [assumption|]. intros c Hc1 Hc2. rewrite <- E1. now apply seens_of_commit.
Qed.

Lemma run_open_homogeneous cfg evs st t : workers_ok cfg -> brun cfg binit evs = (st, t) -> dead st = false ->
  forall p ob, In (p, ob) (open st) -> b_pkey (ob_batch ob) = p /\ b_kind (ob_batch ob) = c_kind cfg.
Proof. intros Hw H Hd. exact (proj1 (run_homogeneous cfg evs st t Hw H Hd)). Qed.

Lemma run_seen_announced cfg evs st t : workers_ok cfg -> brun cfg binit evs = (st, t) -> dead st = false ->
  seen_outs t ++ seenl st = seens_of (fed t).
Proof. intros Hw H Hd. exact (proj1 (run_seen_before_dispatch cfg evs st t Hw H Hd)). Qed.
