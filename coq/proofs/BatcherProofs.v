(* BatcherProofs.v — lemmas about model/Batcher.v (StartBatching, handleTicker, sendBatch, addToBatch).

   Method.  The model functions are first REFINED to a small machine of three elementary actions
   (feed a message / send the batch stored under a key and replace or delete it / add the pending
   change to the batch of its key).  [brun_refines] shows that every run of the model that does not
   end dead is a run of the machine with the same trace and the same final state.  All invariants
   are then proved by induction over action lists, three easy cases each. *)
From Bifrost.model Require Import Base Crc32 Batch Batcher.
From Bifrost.proofs Require Import BatchProofs.
From Coq Require Import Permutation.

Lemma NoDup_snoc {A} (l : list A) x : NoDup l -> ~ In x l -> NoDup (l ++ [x]).
Proof.
  induction l as [|y l IH]; simpl; intros Hn Hx.
  - constructor; [tauto|constructor].
  - inversion Hn; subst. constructor.
    + rewrite in_app_iff. simpl. intros [H|[H|[]]]; [tauto|subst; tauto].
    + apply IH; tauto.
Qed.

(* ---------- more association-list facts ---------- *)
Section AssocFacts2.
  Context {V : Type}.
  Lemma aset_aset (k : string) (v v' : V) (m : list (string * V)) : aset k v (aset k v' m) = aset k v m.
  Proof.
    induction m as [|[k0 v0] m IH]; simpl.
    - now rewrite String.eqb_refl.
    - destruct (String.eqb_spec k k0) as [->|Hne]; simpl.
      + now rewrite String.eqb_refl.
      + destruct (String.eqb_spec k k0); [congruence|]. now rewrite IH.
  Qed.
  Lemma aset_same (k : string) (v : V) (m : list (string * V)) : aget k m = Some v -> aset k v m = m.
  Proof.
    induction m as [|[k0 v0] m IH]; simpl; [discriminate|].
    destruct (String.eqb_spec k k0) as [->|Hne]; intros H.
    - inversion H; reflexivity.
    - now rewrite IH.
  Qed.
  Lemma aget_none_notin (k : string) (m : list (string * V)) : aget k m = None -> ~ In k (map fst m).
  Proof.
    induction m as [|[k0 v0] m IH]; simpl; [tauto|].
    destruct (String.eqb_spec k k0) as [->|Hne]; [discriminate|]. intros H [E|E]; [congruence|]. now apply IH.
  Qed.
  Lemma aget_some_in (k : string) (m : list (string * V)) v : aget k m = Some v -> In (k, v) m.
  Proof.
    induction m as [|[k0 v0] m IH]; simpl; [discriminate|].
    destruct (String.eqb_spec k k0) as [->|Hne]; intros H.
    - inversion H; now left.
    - right; auto.
  Qed.
  Lemma in_nodup_aget (k : string) (m : list (string * V)) v :
    NoDup (map fst m) -> In (k, v) m -> aget k m = Some v.
  Proof.
    induction m as [|[k0 v0] m IH]; simpl; [tauto|]. intros Hnd [E|Hin].
    - inversion E; subst. now rewrite String.eqb_refl.
    - inversion Hnd; subst. destruct (String.eqb_spec k k0) as [->|Hne].
      + exfalso. apply H1. change k0 with (fst (k0, v)). now apply in_map.
      + auto.
  Qed.
  Lemma map_fst_aset_some (k : string) (v : V) (m : list (string * V)) :
    aget k m <> None -> map fst (aset k v m) = map fst m.
  Proof.
    induction m as [|[k0 v0] m IH]; simpl; [congruence|].
    destruct (String.eqb_spec k k0) as [->|Hne]; simpl; intros H; [reflexivity|]. now rewrite IH.
  Qed.
  Lemma map_fst_aset_none (k : string) (v : V) (m : list (string * V)) :
    aget k m = None -> map fst (aset k v m) = map fst m ++ [k].
  Proof.
    induction m as [|[k0 v0] m IH]; simpl; [reflexivity|].
    destruct (String.eqb_spec k k0) as [->|Hne]; simpl; intros H; [discriminate|]. now rewrite IH.
  Qed.
  Lemma in_adel_iff (k : string) (m : list (string * V)) p : In p (adel k m) <-> In p m /\ fst p <> k.
  Proof.
    induction m as [|[k0 v0] m IH]; simpl; [tauto|].
    destruct (String.eqb_spec k k0) as [->|Hne]; simpl; rewrite IH.
    - split; [tauto|]. intros [[E|H] Hn]; [subst; simpl in Hn; congruence|tauto].
    - split; [intros [E|H]; [subst; simpl; split; auto|tauto]|tauto].
  Qed.
  Lemma nodup_adel (k : string) (m : list (string * V)) : NoDup (map fst m) -> NoDup (map fst (adel k m)).
  Proof.
    induction m as [|[k0 v0] m IH]; simpl; [auto|]. intros H. inversion H; subst.
    destruct (String.eqb k k0); simpl; auto. constructor; auto.
    intros Hin. apply H2. apply in_map_iff in Hin. destruct Hin as (p & Hp & Hin).
    apply in_adel_iff in Hin. apply in_map_iff. exists p. tauto.
  Qed.
  Lemma nodup_aset (k : string) (v : V) (m : list (string * V)) : NoDup (map fst m) -> NoDup (map fst (aset k v m)).
  Proof.
    intros H. destruct (aget k m) eqn:E.
    - rewrite map_fst_aset_some; [assumption|congruence].
    - rewrite map_fst_aset_none by assumption. apply NoDup_snoc; auto. now apply aget_none_notin.
  Qed.
End AssocFacts2.

(* ---------- projections of a trace ---------- *)
Definition fed (t : list tr) : list msg :=
  flat_map (fun e => match e with TFeed m => [m] | _ => [] end) t.
Definition dispatched (t : list tr) : list (N * batch) :=
  flat_map (fun e => match e with TOut (OBatch w b) => [(w, b)] | _ => [] end) t.
Definition seen_outs (t : list tr) : list seen :=
  flat_map (fun e => match e with TOut (OSeenList l) => l | _ => [] end) t.
Definition empties (t : list tr) : list txmap :=
  flat_map (fun e => match e with TOut (OEmptyWritten x) => [x] | _ => [] end) t.
Definition changes (l : list msg) : list msg := filter change l.

Lemma fed_app a b : fed (a ++ b) = fed a ++ fed b. Proof. apply flat_map_app. Qed.
Lemma dispatched_app a b : dispatched (a ++ b) = dispatched a ++ dispatched b. Proof. apply flat_map_app. Qed.
Lemma seen_outs_app a b : seen_outs (a ++ b) = seen_outs a ++ seen_outs b. Proof. apply flat_map_app. Qed.
Lemma empties_app a b : empties (a ++ b) = empties a ++ empties b. Proof. apply flat_map_app. Qed.
Lemma changes_app a b : changes (a ++ b) = changes a ++ changes b. Proof. apply filter_app. Qed.
Lemma fed_outs o : fed (map TOut o) = [].
Proof. induction o; simpl; auto. Qed.

(* ---------- sendBatch ---------- *)
Definition has_fatal (o : list bout) : bool :=
  existsb (fun o => match o with OFatal => true | _ => false end) o.

Definition seen_part (st : bstate) : list bout :=
  match seenl st with [] => [] | l => [OSeenList l] end.

Definition route (cfg : bcfg) (st : bstate) (b : batch) : option N :=
  match c_routing cfg with
  | RoundRobin => Some (rr st)
  | ByPartition => quick_hash (b_pkey b) (c_workers cfg)
  end.

Definition next_rr (cfg : bcfg) (st : bstate) : N :=
  match c_routing cfg with
  | RoundRobin => if (rr st =? c_workers cfg - 1)%N then 0%N else (rr st + 1)%N
  | ByPartition => rr st
  end.

(* the state after sendBatch(b) *)
Definition sent_state (cfg : bcfg) (st : bstate) (b : batch) : bstate :=
  mkBst (open st) [] (total st) (curkey st) (if is_empty b then rr st else next_rr cfg st)
        (drops_big st) (drops_invalid st) (dead st).

Definition sent_body (cfg : bcfg) (st : bstate) (b : batch) : bout :=
  if is_empty b then OEmptyWritten (b_txns b)
  else match route cfg st b with Some w => OBatch w b | None => OFatal end.

Lemma bstate_eta st :
  st = mkBst (open st) (seenl st) (total st) (curkey st) (rr st) (drops_big st) (drops_invalid st) (dead st).
Proof. destruct st; reflexivity. Qed.

Lemma send_batch_spec cfg st b :
  send_batch cfg st b = (sent_state cfg st b, seen_part st ++ [sent_body cfg st b]).
Proof.
  unfold send_batch, flush_seen, sent_state, sent_body, seen_part, route, next_rr.
  destruct st as [op sl tot ck r db di dd]; simpl.
  destruct sl; simpl; destruct (is_empty b); simpl; try reflexivity;
    destruct (c_routing cfg); simpl; try reflexivity;
    destruct (quick_hash (b_pkey b) (c_workers cfg)); reflexivity.
Qed.

Definition workers_ok (cfg : bcfg) : Prop := (1 <= c_workers cfg)%N.

Lemma route_some cfg st b : workers_ok cfg -> exists w, route cfg st b = Some w.
Proof.
  unfold workers_ok, route, quick_hash. intros H. destruct (c_routing cfg); eauto.
  destruct (N.eqb_spec (c_workers cfg) 0); [lia|eauto].
Qed.

Lemma sent_body_not_fatal cfg st b : workers_ok cfg -> sent_body cfg st b <> OFatal.
Proof.
  intros H. unfold sent_body. destruct (is_empty b); [discriminate|].
  destruct (route_some cfg st b H) as [w ->]. discriminate.
Qed.

Lemma send_no_fatal cfg st b : workers_ok cfg -> has_fatal (seen_part st ++ [sent_body cfg st b]) = false.
Proof.
  intros H. unfold has_fatal. rewrite existsb_app. simpl.
  pose proof (sent_body_not_fatal cfg st b H).
  unfold seen_part. destruct (seenl st); simpl; destruct (sent_body cfg st b); try reflexivity; congruence.
Qed.

(* ---------- the action machine ---------- *)
Record gstate := mkG { g_st : bstate; g_added : list msg; g_pend : option msg }.

Inductive act :=
| AFeed (now : Z) (m : msg)              (* receive m: TFeed, make sure a batch exists, Seen/counter bookkeeping *)
| ASend (p : string) (repl : option Z)   (* sendBatch(batches[p]); then batches[p] = new batch / delete *)
| AAdd (now : Z).                        (* batches[pk].Add(pending change) with a final (non-retry) result *)

Definition feed_state (cfg : bcfg) (st : bstate) (now : Z) (m : msg) : bstate :=
  let pk := m_pkey m in
  mkBst (match aget pk (open st) with
         | Some ob => open st
         | None => aset pk (mkOB (new_batch (c_kind cfg) pk) now now) (open st)
         end)
        (if String.eqb (m_op m) "COMMIT"
         then seenl st ++ [mkSeen (m_txn m) (m_key m) (total st) (m_wal m)] else seenl st)
        (if String.eqb (curkey st) (m_key m) then total st else 0%Z)
        (if String.eqb (curkey st) (m_key m) then curkey st else m_key m)
        (rr st) (drops_big st) (drops_invalid st) false.

Definition finish (st : bstate) (opn : list (string * obatch)) : bstate :=
  mkBst opn (seenl st) (total st + 1) (curkey st) (rr st) (drops_big st) (drops_invalid st) false.

Definition astep (cfg : bcfg) (g : gstate) (a : act) : option (gstate * list tr) :=
  let st := g_st g in
  if dead st then None else
  match a with
  | AFeed now m =>
      match g_pend g with
      | Some _ => None
      | None => Some (mkG (feed_state cfg st now m) (g_added g) (if is_marker m then None else Some m), [TFeed m])
      end
  | ASend p repl =>
      match aget p (open st) with
      | None => None
      | Some ob =>
          let b := ob_batch ob in
          let st1 := sent_state cfg st b in
          Some (mkG (set_open st1 (match repl with
                                   | Some now => aset p (mkOB (new_batch (c_kind cfg) p) now now) (open st1)
                                   | None => adel p (open st1)
                                   end)) (g_added g) (g_pend g),
                map TOut (seen_part st ++ [sent_body cfg st b]))
      end
  | AAdd now =>
      match g_pend g with
      | None => None
      | Some m =>
          let p := m_pkey m in
          match aget p (open st) with
          | None => None
          | Some ob =>
              let '(b', r) := add (c_limits cfg) (ob_batch ob) m in
              match r with
              | AOk => Some (mkG (finish st (aset p (mkOB b' (ob_ctime ob) now) (open st))) (g_added g ++ [m]) None, [])
              | ATooBig => Some (mkG (finish (bump_big st) (aset p (mkOB b' (ob_ctime ob) (ob_mtime ob)) (open st)))
                                     (g_added g ++ [m]) None, [])
              | AInvalid => Some (mkG (finish (bump_invalid st) (aset p (mkOB b' (ob_ctime ob) (ob_mtime ob)) (open st)))
                                      (g_added g ++ [m]) None, [])
              | _ => None
              end
          end
      end
  end.

Fixpoint arun (cfg : bcfg) (g : gstate) (acts : list act) : option (gstate * list tr) :=
  match acts with
  | [] => Some (g, [])
  | a :: r => match astep cfg g a with
              | None => None
              | Some (g1, t1) => match arun cfg g1 r with
                                 | None => None
                                 | Some (g2, t2) => Some (g2, t1 ++ t2)
                                 end
              end
  end.

Lemma arun_app cfg a1 : forall g g1 t1 a2 g2 t2,
  arun cfg g a1 = Some (g1, t1) -> arun cfg g1 a2 = Some (g2, t2) ->
  arun cfg g (a1 ++ a2) = Some (g2, t1 ++ t2).
Proof.
  induction a1 as [|a r IH]; intros g g1 t1 a2 g2 t2 H1 H2; simpl in *.
  - inversion H1; subst. assumption.
  - destruct (astep cfg g a) as [[g' t']|]; [|discriminate].
    destruct (arun cfg g' r) as [[g'' t'']|] eqn:E; [|discriminate].
    inversion H1; subst. rewrite (IH _ _ _ _ _ _ E H2). now rewrite app_assoc.
Qed.

Lemma arun_one cfg g a g1 t1 : astep cfg g a = Some (g1, t1) -> arun cfg g [a] = Some (g1, t1).
Proof. intros H. simpl. rewrite H. now rewrite app_nil_r. Qed.

(* induction principle: a property of (state, trace) preserved by every action holds after every run *)
Lemma arun_inv cfg (P : gstate -> list tr -> Prop) :
  (forall g t a g' t', P g t -> astep cfg g a = Some (g', t') -> P g' (t ++ t')) ->
  forall acts g t g' t', P g t -> arun cfg g acts = Some (g', t') -> P g' (t ++ t').
Proof.
  intros Hstep. induction acts as [|a r IH]; intros g t g' t' HP H; simpl in H.
  - inversion H; subst. now rewrite app_nil_r.
  - destruct (astep cfg g a) as [[g1 t1]|] eqn:E; [|discriminate].
    destruct (arun cfg g1 r) as [[g2 t2]|] eqn:E2; [|discriminate].
    inversion H; subst. rewrite app_assoc. eapply IH; eauto.
Qed.

(* ---------- refinement: addToBatch ---------- *)
Definition with_ob (st : bstate) (p : string) (ob : obatch) : bstate := set_open st (aset p ob (open st)).

Lemma with_ob_same st p ob : aget p (open st) = Some ob -> with_ob st p ob = st.
Proof. intros H. unfold with_ob, set_open. rewrite (aset_same _ _ _ H). symmetry. apply bstate_eta. Qed.

Definition ok_status (s : add_status) : bool := match s with SOk | SFail => true | _ => false end.

Lemma add_to_batch_open fuel cfg : forall st b m st3 b3 s o,
  add_to_batch fuel cfg st b m = (st3, b3, s, o) -> open st3 = open st /\ dead st3 = dead st.
Proof.
  induction fuel as [|f IH]; intros st b m st3 b3 s o H; simpl in H;
    destruct (add (c_limits cfg) b m) as [b' r]; destruct r; inversion H; subst; auto.
  clear H1. rewrite send_batch_spec in H.
  destruct (add_to_batch f cfg (sent_state cfg st b) (new_batch (c_kind cfg) (m_pkey m)) m) as [[[st2 b2] s2] o2] eqn:E.
  inversion H; subst. apply IH in E. simpl in E. assumption.
Qed.

Lemma add_to_batch_refines cfg now : forall fuel st b m st3 b3 s o3 ct mt added,
  add_to_batch fuel cfg st b m = (st3, b3, s, o3) -> ok_status s = true -> dead st = false ->
  b_pkey b = m_pkey m ->
  let fresh := negb (match o3 with [] => true | _ => false end) in
  exists acts,
    arun cfg (mkG (with_ob st (m_pkey m) (mkOB b ct mt)) added (Some m)) acts =
    Some (mkG (finish st3 (aset (m_pkey m)
                 (mkOB b3 (if fresh then now else ct)
                          (match s with SOk => now | _ => if fresh then now else mt end)) (open st3)))
              (added ++ [m]) None, map TOut o3).
Proof.
  induction fuel as [|f IH]; intros st b m st3 b3 s o3 ct mt added H Hs Hd Hpk fresh.
  - (* no fuel left: only the direct results *)
    simpl in H. destruct (add (c_limits cfg) b m) as [b' r] eqn:Ha.
    exists [AAdd now]. apply arun_one. unfold astep. simpl. rewrite Hd. rewrite aget_aset, String.eqb_refl. simpl.
    rewrite Ha. destruct r; inversion H; subst; try discriminate; simpl; rewrite aset_aset; reflexivity.
  - simpl in H. destruct (add (c_limits cfg) b m) as [b' r] eqn:Ha.
    destruct r.
    + exists [AAdd now]. apply arun_one. unfold astep. simpl. rewrite Hd. rewrite aget_aset, String.eqb_refl. simpl.
      rewrite Ha. inversion H; subst. simpl. rewrite aset_aset. reflexivity.
    + exists [AAdd now]. apply arun_one. unfold astep. simpl. rewrite Hd. rewrite aget_aset, String.eqb_refl. simpl.
      rewrite Ha. inversion H; subst. simpl. rewrite aset_aset. reflexivity.
    + inversion H; subst. discriminate.
    + rewrite send_batch_spec in H.
      destruct (add_to_batch f cfg (sent_state cfg st b) (new_batch (c_kind cfg) (m_pkey m)) m)
        as [[[st2 b2] s2] o2] eqn:E.
      inversion H; subst. clear H.
      destruct (IH _ _ _ _ _ _ _ now now added E Hs Hd eq_refl) as [acts Hacts].
      exists (ASend (m_pkey m) (Some now) :: acts).
      simpl arun. unfold astep. simpl g_st. simpl dead. rewrite Hd.
      simpl open. rewrite aget_aset, String.eqb_refl. simpl ob_batch.
      match goal with |- match (match ?X with _ => _ end) with _ => _ end = _ =>
        replace X with (Some (mkG (with_ob (sent_state cfg st b) (m_pkey m) (mkOB (new_batch (c_kind cfg) (m_pkey m)) now now))
                                  added (Some m),
                              map TOut (seen_part st ++ [sent_body cfg st b]))) end.
      * rewrite Hacts. f_equal. f_equal.
        -- f_equal. f_equal. f_equal.
           ++ subst fresh. destruct (seen_part st); simpl; destruct o2; reflexivity.
           ++ subst fresh. destruct s2; try reflexivity; destruct (seen_part st); simpl; destruct o2; reflexivity.
        -- now rewrite map_app.
      * f_equal. f_equal. f_equal. unfold with_ob, set_open. simpl. now rewrite aset_aset.
    + exists [AAdd now]. apply arun_one. unfold astep. simpl. rewrite Hd. rewrite aget_aset, String.eqb_refl. simpl.
      rewrite Ha. inversion H; subst. simpl. rewrite aset_aset. reflexivity.
Qed.
