(* ParseRoundtrip.v — the decoder model inverts the reference printer (C09 round trip).
   Structure: [leads] (the loop, from one configuration, reaches another one, for every
   sufficient fuel), segment lemmas (a quoted/unquoted identifier, a bracketed type, a word, a
   quoted literal are each scanned from state S at index i to state S at index i+len), then
   column, tuple, header, and the whole message. *)
From Bifrost.model Require Import Base TestDecoding Parse.
From Bifrost.proofs Require Import ParseProofs.
From Coq Require Import Arith.

(* ------------------------------------------------------------------------------------------ *)
(* reaching configurations *)

Definition leads (pre : bool) (msg : string) (i : nat) (st : pst) (r : parse_result)
                 (i' : nat) (st' : pst) (r' : parse_result) : Prop :=
  forall fuel, enough (length msg) fuel i ->
    exists fuel', enough (length msg) fuel' i' /\
      loop fuel pre msg (length msg) i st r = loop fuel' pre msg (length msg) i' st' r'.

Definition ends (pre : bool) (msg : string) (i : nat) (st : pst) (r : parse_result) (x : lres) : Prop :=
  forall fuel, enough (length msg) fuel i -> loop fuel pre msg (length msg) i st r = x.

Lemma leads_refl : forall pre msg i st r, leads pre msg i st r i st r.
Proof. intros pre msg i st r fuel H. exists fuel. split; [exact H | reflexivity]. Qed.

Lemma leads_trans : forall pre msg i1 s1 r1 i2 s2 r2 i3 s3 r3,
  leads pre msg i1 s1 r1 i2 s2 r2 -> leads pre msg i2 s2 r2 i3 s3 r3 ->
  leads pre msg i1 s1 r1 i3 s3 r3.
Proof.
  intros until r3. intros H1 H2 fuel Hf.
  destruct (H1 fuel Hf) as [f2 [Hf2 E1]]. destruct (H2 f2 Hf2) as [f3 [Hf3 E2]].
  exists f3. split; [exact Hf3 | congruence].
Qed.

Lemma leads_ends : forall pre msg i1 s1 r1 i2 s2 r2 x,
  leads pre msg i1 s1 r1 i2 s2 r2 -> ends pre msg i2 s2 r2 x -> ends pre msg i1 s1 r1 x.
Proof.
  intros until x. intros H1 H2 fuel Hf.
  destruct (H1 fuel Hf) as [f2 [Hf2 E1]]. rewrite E1. apply H2. exact Hf2.
Qed.

Lemma leads_step : forall pre msg i st r i' st' r',
  i <= length msg -> body pre msg i st r = BNext i' st' r' -> i < i' ->
  leads pre msg i st r i' st' r'.
Proof.
  intros until r'. intros Hi Hb Hlt fuel [H1 H2].
  destruct fuel as [|f]; [lia|]. exists f. specialize (H2 Hi).
  split; [split; [lia | intros; lia]|].
  simpl. destruct (Nat.ltb_spec (length msg) i); [lia|]. now rewrite Hb.
Qed.

Lemma ends_done : forall pre msg i st r, length msg < i -> ends pre msg i st r (LDone st r).
Proof.
  intros pre msg i st r Hi fuel [H1 _]. destruct fuel; [lia|].
  simpl. destruct (Nat.ltb_spec (length msg) i); [reflexivity | lia].
Qed.

Lemma ends_break : forall pre msg i st r st' r',
  i <= length msg -> body pre msg i st r = BBreak st' r' -> ends pre msg i st r (LDone st' r').
Proof.
  intros until r'. intros Hi Hb fuel [H1 _]. destruct fuel; [lia|].
  simpl. destruct (Nat.ltb_spec (length msg) i); [lia|]. now rewrite Hb.
Qed.

(* the skip [if i < TokenStart { i = TokenStart - 1; continue }] *)
Lemma leads_skip : forall pre msg i st r,
  i <= length msg -> i < ts st -> leads pre msg i st r (ts st) st r.
Proof.
  intros. apply leads_step; [assumption | | assumption].
  unfold body. destruct (Nat.ltb_spec i (ts st)); [reflexivity | lia].
Qed.

(* once in End, the loop runs to the end of the message without doing anything *)
Lemma leads_end_state : forall pre msg k i p t ok cn ct r,
  t <= i -> i + k = S (length msg) ->
  leads pre msg i (mkSt SEnd p t ok cn ct) r (S (length msg)) (mkSt SEnd p t ok cn ct) r.
Proof.
  induction k; intros i p t ok cn ct r Ht Hk.
  - replace i with (S (length msg)) by lia. apply leads_refl.
  - eapply leads_trans; [apply leads_step with (i' := S i); [lia | | lia] | apply IHk; lia].
    unfold body. simpl. destruct (Nat.ltb_spec i t); [lia | reflexivity].
Qed.

(* ------------------------------------------------------------------------------------------ *)
(* one-iteration facts *)

Ltac body_simpl :=
  unfold body; simpl ts; simpl cur; simpl prev;
  match goal with |- context [Nat.ltb ?i ?t] => destruct (Nat.ltb_spec i t); [lia|] end.

(* a state X "scans": a byte that is not in its stop set either opens a double-quoted part,
   or (br) opens a bracket, or is skipped *)
Definition scans (pre : bool) (msg : string) (X : pstate) (br : bool) (stop : ascii -> bool) : Prop :=
  forall i p t ok cn ct r, t <= i -> stop (byte_at msg i) = false ->
    body pre msg i (mkSt X p t ok cn ct) r =
      if Ascii.eqb (byte_at msg i) dq then BNext (S i) (mkSt SEscaped X t ok cn ct) r
      else if (br && Ascii.eqb (byte_at msg i) "[")%bool then BNext (S i) (mkSt SOpenSq X t ok cn ct) r
      else BNext (S i) (mkSt X p t ok cn ct) r.

Definition rel_stop (c : ascii) : bool := Ascii.eqb c ":".
Definition col_stop (c : ascii) : bool := (Ascii.eqb c "[" || Ascii.eqb c ":" || Ascii.eqb c "(")%bool.

Lemma scans_relation : forall pre msg, scans pre msg SRelation false rel_stop.
Proof.
  intros pre msg i p t ok cn ct r Ht Hs. unfold rel_stop in Hs. body_simpl. rewrite Hs.
  destruct (Ascii.eqb (byte_at msg i) dq); reflexivity.
Qed.

Lemma scans_colname : forall pre msg, scans pre msg SColName false col_stop.
Proof.
  intros pre msg i p t ok cn ct r Ht Hs. unfold col_stop in Hs.
  apply orb_false_elim in Hs. destruct Hs as [Hs H3]. apply orb_false_elim in Hs. destruct Hs as [H1 H2].
  body_simpl. rewrite H1, H2, H3.
  destruct (Ascii.eqb (byte_at msg i) dq); reflexivity.
Qed.

Lemma scans_coltype : forall pre msg, scans pre msg SColType true type_stop.
Proof.
  intros pre msg i p t ok cn ct r Ht Hs. unfold type_stop in Hs. body_simpl. rewrite Hs.
  destruct (Ascii.eqb (byte_at msg i) dq); [reflexivity|].
  destruct (Ascii.eqb (byte_at msg i) "["); reflexivity.
Qed.

Lemma body_escaped : forall pre msg i X t ok cn ct r, t <= i ->
  body pre msg i (mkSt SEscaped X t ok cn ct) r =
    if Ascii.eqb (byte_at msg i) dq then
      if Ascii.eqb (byte_at msg (S i)) dq then BNext (S (S i)) (mkSt SEscaped X t ok cn ct) r
      else BNext (S i) (mkSt X SNull t ok cn ct) r
    else BNext (S i) (mkSt SEscaped X t ok cn ct) r.
Proof. intros. body_simpl. reflexivity. Qed.

Lemma body_opensq : forall pre msg i X t ok cn ct r, t <= i ->
  body pre msg i (mkSt SOpenSq X t ok cn ct) r =
    if Ascii.eqb (byte_at msg i) "]" then BNext (S i) (mkSt X SNull t ok cn ct) r
    else BNext (S i) (mkSt SOpenSq X t ok cn ct) r.
Proof. intros. body_simpl. reflexivity. Qed.

(* ------------------------------------------------------------------------------------------ *)
(* THE segment lemma: a piece of text accepted by [scan] is scanned from state X back to state
   X; TokenStart, OldKey, CurColumnName, CurColumnType and the result are untouched; Prev may
   have become Null but never ColumnQuotedValue. *)
Lemma scan_leads : forall pre msg X br stop, scans pre msg X br stop ->
  forall seg m a post i j p t ok cn ct r,
    msg = a +++ seg +++ post ->
    scan br stop m seg = true ->
    head_byte post <> dq ->
    t <= length a ->
    p <> SQuoted ->
    i = (match m with MQSkip => S (length a) | _ => length a end) ->
    j = length a + length seg ->
    exists p', p' <> SQuoted /\
      leads pre msg i (match m with
                       | MTop => mkSt X p t ok cn ct
                       | MQuote | MQSkip => mkSt SEscaped X t ok cn ct
                       | MBrack => mkSt SOpenSq X t ok cn ct
                       end) r
                    j (mkSt X p' t ok cn ct) r.
Proof.
  intros pre msg X br stop HX.
  induction seg as [|c s IH]; intros m a post i j p t ok cn ct r Hmsg Hscan Hpost Ht Hp Hi Hj.
  - simpl in Hscan. destruct m; try discriminate. subst i j. exists p. split; [exact Hp|].
    simpl. rewrite Nat.add_0_r. apply leads_refl.
  - assert (Hmsg' : msg = (a +++ String c "") +++ s +++ post) by (rewrite sapp_assoc; exact Hmsg).
    assert (Hlen' : length (a +++ String c "") = S (length a)) by (rewrite slen_app; simpl; lia).
    assert (Hc : byte_at msg (length a) = c) by (rewrite Hmsg, byte_at_app; reflexivity).
    assert (Hn : byte_at msg (S (length a)) = head_byte (s +++ post))
      by (rewrite Hmsg; simpl; apply byte_at_app_S).
    assert (Hle : length a <= length msg) by (rewrite Hmsg, slen_app; lia).
    assert (Hj' : j = length (a +++ String c "") + length s) by (rewrite Hlen'; simpl in Hj; lia).
    assert (Ht' : t <= length (a +++ String c "")) by (rewrite Hlen'; lia).
    assert (HNull : SNull <> SQuoted) by discriminate.
    destruct m; simpl in Hscan.
    + (* top level *)
      subst i. destruct (stop c) eqn:Hs; [discriminate|].
      pose proof (HX (length a) p t ok cn ct r Ht) as Hb. rewrite Hc in Hb. specialize (Hb Hs).
      destruct (Ascii.eqb c dq) eqn:Hq.
      * destruct (IH MQuote _ post (S (length a)) j p t ok cn ct r Hmsg' Hscan Hpost Ht' Hp
                    (eq_sym Hlen') Hj') as [p' [Hp' L]].
        exists p'. split; [exact Hp'|].
        eapply leads_trans; [apply leads_step; [exact Hle | exact Hb | lia] | exact L].
      * destruct (br && Ascii.eqb c "[")%bool eqn:Hbr.
        -- destruct (IH MBrack _ post (S (length a)) j p t ok cn ct r Hmsg' Hscan Hpost Ht' Hp
                      (eq_sym Hlen') Hj') as [p' [Hp' L]].
           exists p'. split; [exact Hp'|].
           eapply leads_trans; [apply leads_step; [exact Hle | exact Hb | lia] | exact L].
        -- destruct (IH MTop _ post (S (length a)) j p t ok cn ct r Hmsg' Hscan Hpost Ht' Hp
                      (eq_sym Hlen') Hj') as [p' [Hp' L]].
           exists p'. split; [exact Hp'|].
           eapply leads_trans; [apply leads_step; [exact Hle | exact Hb | lia] | exact L].
    + (* inside double quotes *)
      subst i. pose proof (body_escaped pre msg (length a) X t ok cn ct r Ht) as Hb.
      rewrite Hc, Hn in Hb.
      destruct (Ascii.eqb c dq) eqn:Hq.
      * destruct s as [|d s'].
        -- simpl in Hb. rewrite (proj2 (Ascii.eqb_neq _ _) Hpost) in Hb.
           exists SNull. split; [exact HNull|]. subst j. simpl.
           replace (length a + 1) with (S (length a)) by lia.
           apply leads_step; [exact Hle | exact Hb | lia].
        -- simpl in Hb. destruct (Ascii.eqb d dq) eqn:Hd.
           ++ destruct (IH MQSkip _ post (S (S (length a))) j p t ok cn ct r Hmsg' Hscan Hpost Ht' Hp
                         ltac:(rewrite Hlen'; reflexivity) Hj') as [p' [Hp' L]].
              exists p'. split; [exact Hp'|].
              eapply leads_trans; [apply leads_step; [exact Hle | exact Hb | lia] | exact L].
           ++ destruct (IH MTop _ post (S (length a)) j SNull t ok cn ct r Hmsg' Hscan Hpost Ht' HNull
                         (eq_sym Hlen') Hj') as [p' [Hp' L]].
              exists p'. split; [exact Hp'|].
              eapply leads_trans; [apply leads_step; [exact Hle | exact Hb | lia] | exact L].
      * destruct (IH MQuote _ post (S (length a)) j p t ok cn ct r Hmsg' Hscan Hpost Ht' Hp
                    (eq_sym Hlen') Hj') as [p' [Hp' L]].
        exists p'. split; [exact Hp'|].
        eapply leads_trans; [apply leads_step; [exact Hle | exact Hb | lia] | exact L].
    + (* the second quote of a doubled quote: already jumped over *)
      destruct (IH MQuote _ post i j p t ok cn ct r Hmsg' Hscan Hpost Ht' Hp
                  ltac:(rewrite Hlen'; exact Hi) Hj') as [p' [Hp' L]].
      exists p'. split; [exact Hp' | exact L].
    + (* inside square brackets *)
      subst i. pose proof (body_opensq pre msg (length a) X t ok cn ct r Ht) as Hb. rewrite Hc in Hb.
      destruct (Ascii.eqb c "]") eqn:Hq.
      * destruct (IH MTop _ post (S (length a)) j SNull t ok cn ct r Hmsg' Hscan Hpost Ht' HNull
                    (eq_sym Hlen') Hj') as [p' [Hp' L]].
        exists p'. split; [exact Hp'|].
        eapply leads_trans; [apply leads_step; [exact Hle | exact Hb | lia] | exact L].
      * destruct (IH MBrack _ post (S (length a)) j p t ok cn ct r Hmsg' Hscan Hpost Ht' Hp
                    (eq_sym Hlen') Hj') as [p' [Hp' L]].
        exists p'. split; [exact Hp'|].
        eapply leads_trans; [apply leads_step; [exact Hle | exact Hb | lia] | exact L].
Qed.

(* ------------------------------------------------------------------------------------------ *)
(* what the printer prints is accepted by [scan] *)

Lemma ident_char_ne : forall c k, ident_char c = true -> ident_char k = false -> Ascii.eqb c k = false.
Proof. intros c k H K. destruct (Ascii.eqb_spec c k); [subst; congruence | reflexivity]. Qed.

Lemma scan_plain : forall br stop s,
  (forall c, ident_char c = true -> stop c = false) ->
  str_all ident_char s = true -> scan br stop MTop s = true.
Proof.
  intros br stop s Hstop. induction s as [|c s IH]; simpl; intros H; [reflexivity|].
  apply andb_prop in H. destruct H as [Hc Hs].
  rewrite (Hstop c Hc). rewrite (ident_char_ne c dq Hc eq_refl).
  rewrite (ident_char_ne c "[" Hc eq_refl). rewrite andb_false_r. apply IH, Hs.
Qed.

Lemma scan_dbl_quote : forall br stop x, scan br stop MQuote (dbl dq x +++ String dq "") = true.
Proof.
  intros br stop. induction x as [|c x IH]; [reflexivity|].
  simpl. destruct (Ascii.eqb c dq) eqn:Hc.
  - simpl. exact IH.
  - simpl. rewrite Hc. exact IH.
Qed.

Lemma ident_start_char : forall c, ident_start c = true -> ident_char c = true.
Proof.
  unfold ident_start, ident_char. intros c H. apply orb_prop in H. destruct H as [H|H]; rewrite H.
  - reflexivity.
  - apply orb_true_r.
Qed.

Lemma scan_quote_ident : forall br stop x,
  (forall c, ident_char c = true -> stop c = false) -> stop dq = false ->
  scan br stop MTop (quote_ident x) = true.
Proof.
  intros br stop x Hstop Hdq. unfold quote_ident.
  destruct (ident_safe x && negb (is_keyword x))%bool eqn:E.
  - apply andb_prop in E. destruct E as [E _]. apply scan_plain; [exact Hstop|].
    destruct x as [|c x]; [discriminate|]. simpl in *. apply andb_prop in E. destruct E as [E1 E2].
    now rewrite (ident_start_char c E1), E2.
  - simpl. rewrite Hdq. apply scan_dbl_quote.
Qed.

Lemma rel_stop_ident : forall c, ident_char c = true -> rel_stop c = false.
Proof. intros c H. unfold rel_stop. apply ident_char_ne; [exact H | reflexivity]. Qed.

Lemma col_stop_ident : forall c, ident_char c = true -> col_stop c = false.
Proof.
  intros c H. unfold col_stop.
  rewrite (ident_char_ne c "[" H eq_refl), (ident_char_ne c ":" H eq_refl),
          (ident_char_ne c "(" H eq_refl). reflexivity.
Qed.

Lemma type_stop_ident : forall c, ident_char c = true -> type_stop c = false.
Proof. intros c H. unfold type_stop. apply ident_char_ne; [exact H | reflexivity]. Qed.

(* ------------------------------------------------------------------------------------------ *)
(* undoing the quote doubling *)

Lemma unq_cons_ne : forall c t, Ascii.eqb c sq = false -> unq (String c t) = String c (unq t).
Proof. intros c t H. destruct t; simpl; [reflexivity | now rewrite H]. Qed.

Lemma unq_dbl : forall x, unq (dbl sq x) = x.
Proof.
  induction x as [|c x IH]; [reflexivity|].
  simpl dbl. destruct (Ascii.eqb_spec c sq) as [->|Hne].
  - simpl. now rewrite IH.
  - rewrite unq_cons_ne by (now apply Ascii.eqb_neq). now rewrite IH.
Qed.

Lemma raw_char_not_sq : forall c, raw_char_ok c = true -> Ascii.eqb c sq = false.
Proof.
  unfold raw_char_ok. intros c H. apply andb_prop in H. destruct H as [H _].
  apply andb_prop in H. destruct H as [_ H]. now apply negb_true_iff in H.
Qed.

Lemma unq_raw : forall w, str_all raw_char_ok w = true -> unq w = w.
Proof.
  induction w as [|c w IH]; [reflexivity|]. simpl str_all. intros H.
  apply andb_prop in H. destruct H as [Hc Hw].
  rewrite unq_cons_ne by (now apply raw_char_not_sq). now rewrite IH.
Qed.

(* ------------------------------------------------------------------------------------------ *)
(* words in the Operation state, unquoted values and quoted literals in the value states *)

Definition not_colon (c : ascii) : bool := negb (Ascii.eqb c ":").

Lemma op_leads : forall pre msg w a post p t ok cn ct r,
  msg = a +++ w +++ post -> str_all not_colon w = true -> t <= length a ->
  leads pre msg (length a) (mkSt SOperation p t ok cn ct) r
                (length a + length w) (mkSt SOperation p t ok cn ct) r.
Proof.
  intros pre msg. induction w as [|c w IH]; intros a post p t ok cn ct r Hmsg Hw Ht.
  - simpl. rewrite Nat.add_0_r. apply leads_refl.
  - simpl in Hw. apply andb_prop in Hw. destruct Hw as [Hc Hw].
    unfold not_colon in Hc. apply negb_true_iff in Hc.
    assert (Hmsg' : msg = (a +++ String c "") +++ w +++ post) by (rewrite sapp_assoc; exact Hmsg).
    assert (Hlen' : length (a +++ String c "") = S (length a)) by (rewrite slen_app; simpl; lia).
    assert (Hb : byte_at msg (length a) = c) by (rewrite Hmsg, byte_at_app; reflexivity).
    eapply leads_trans.
    + apply leads_step with (i' := S (length a)); [rewrite Hmsg, slen_app; lia | | lia].
      body_simpl. rewrite Hb, Hc. reflexivity.
    + specialize (IH _ post p t ok cn ct r Hmsg' Hw ltac:(rewrite Hlen'; lia)).
      rewrite Hlen' in IH. simpl. replace (length a + S (length w)) with (S (length a) + length w) by lia.
      exact IH.
Qed.

Lemma raw_char_facts : forall c, raw_char_ok c = true ->
  Ascii.eqb c zero = false /\ Ascii.eqb c " " = false /\ Ascii.eqb c sq = false.
Proof.
  unfold raw_char_ok. intros c H. apply andb_prop in H. destruct H as [H H3].
  apply andb_prop in H. destruct H as [H1 H2].
  apply negb_true_iff in H1, H2, H3. auto.
Qed.

Lemma raw_leads : forall pre msg w a post p t ok cn ct r,
  msg = a +++ w +++ post -> str_all raw_char_ok w = true -> t <= length a ->
  leads pre msg (length a) (mkSt SColValue p t ok cn ct) r
                (length a + length w) (mkSt SColValue p t ok cn ct) r.
Proof.
  intros pre msg. induction w as [|c w IH]; intros a post p t ok cn ct r Hmsg Hw Ht.
  - simpl. rewrite Nat.add_0_r. apply leads_refl.
  - simpl in Hw. apply andb_prop in Hw. destruct Hw as [Hc Hw].
    destruct (raw_char_facts c Hc) as [H0 [H1 H2]].
    assert (Hmsg' : msg = (a +++ String c "") +++ w +++ post) by (rewrite sapp_assoc; exact Hmsg).
    assert (Hlen' : length (a +++ String c "") = S (length a)) by (rewrite slen_app; simpl; lia).
    assert (Hb : byte_at msg (length a) = c) by (rewrite Hmsg, byte_at_app; reflexivity).
    eapply leads_trans.
    + apply leads_step with (i' := S (length a)); [rewrite Hmsg, slen_app; lia | | lia].
      body_simpl. rewrite Hb, H0, H1, H2. reflexivity.
    + specialize (IH _ post p t ok cn ct r Hmsg' Hw ltac:(rewrite Hlen'; lia)).
      rewrite Hlen' in IH. simpl. replace (length a + S (length w)) with (S (length a) + length w) by lia.
      exact IH.
Qed.

Lemma quoted_leads : forall pre msg x a post t ok cn ct r,
  msg = a +++ dbl sq x +++ post -> t <= length a ->
  leads pre msg (length a) (mkSt SQuoted SColValue t ok cn ct) r
                (length a + length (dbl sq x)) (mkSt SQuoted SColValue t ok cn ct) r.
Proof.
  intros pre msg. induction x as [|c x IH]; intros a post t ok cn ct r Hmsg Ht.
  - simpl. rewrite Nat.add_0_r. apply leads_refl.
  - simpl dbl in *. destruct (Ascii.eqb c sq) eqn:Hc.
    + (* a doubled quote: two bytes in one iteration *)
      assert (Hmsg' : msg = (a +++ String sq (String sq "")) +++ dbl sq x +++ post)
        by (rewrite sapp_assoc; exact Hmsg).
      assert (Hlen' : length (a +++ String sq (String sq "")) = S (S (length a)))
        by (rewrite slen_app; simpl; lia).
      assert (Hb : byte_at msg (length a) = sq) by (rewrite Hmsg, byte_at_app; reflexivity).
      assert (Hn : byte_at msg (S (length a)) = sq) by (rewrite Hmsg; simpl; rewrite byte_at_app_S; reflexivity).
      eapply leads_trans.
      * apply leads_step with (i' := S (S (length a))); [rewrite Hmsg, slen_app; lia | | lia].
        body_simpl. rewrite Hb, Hn. reflexivity.
      * specialize (IH _ post t ok cn ct r Hmsg' ltac:(rewrite Hlen'; lia)).
        rewrite Hlen' in IH. simpl.
        replace (length a + S (S (length (dbl sq x)))) with (S (S (length a)) + length (dbl sq x)) by lia.
        exact IH.
    + assert (Hmsg' : msg = (a +++ String c "") +++ dbl sq x +++ post) by (rewrite sapp_assoc; exact Hmsg).
      assert (Hlen' : length (a +++ String c "") = S (length a)) by (rewrite slen_app; simpl; lia).
      assert (Hb : byte_at msg (length a) = c) by (rewrite Hmsg, byte_at_app; reflexivity).
      eapply leads_trans.
      * apply leads_step with (i' := S (length a)); [rewrite Hmsg, slen_app; lia | | lia].
        body_simpl. rewrite Hb, Hc. reflexivity.
      * specialize (IH _ post t ok cn ct r Hmsg' ltac:(rewrite Hlen'; lia)).
        rewrite Hlen' in IH. simpl.
        replace (length a + S (length (dbl sq x))) with (S (length a) + length (dbl sq x)) by lia.
        exact IH.
Qed.

(* ------------------------------------------------------------------------------------------ *)
(* a value, from ColumnValue at its first byte to the byte after it *)

Lemma not_quoted_state : forall p, p <> SQuoted -> is_quoted_state p = false.
Proof. intros p H. destruct p; try reflexivity. contradiction. Qed.

Definition after_value (pre : bool) (msg : string) (i0 : nat) (st0 : pst) (r : parse_result)
                       (post : string) (j : nat) (ok : bool) (r' : parse_result) : Prop :=
  (post = "" -> exists st', cur st' = SEnd /\ leads pre msg i0 st0 r (S (length msg)) st' r') /\
  (forall post', post = String " " post' ->
     exists cn' ct', leads pre msg i0 st0 r (S j) (mkSt SColName SColValue (S j) ok cn' ct') r').

(* unquoted: null, unchanged-toast-datum, numerics, booleans *)
Lemma unquoted_value_leads : forall pre msg w a post p ok cn ct r,
  msg = a +++ w +++ post -> str_all raw_char_ok w = true -> p <> SQuoted ->
  after_value pre msg (length a) (mkSt SColValue p (length a) ok cn ct) r post
              (length a + length w) ok (set_col ok cn (mkCV w ct false) r).
Proof.
  intros pre msg w a post p ok cn ct r Hmsg Hw Hp.
  pose proof (raw_leads pre msg w a post p (length a) ok cn ct r Hmsg Hw (le_n _)) as L.
  assert (Hsl : slice msg (length a) (length a + length w) = Some w) by (rewrite Hmsg; apply slice_mid).
  assert (Hmsg2 : msg = (a +++ w) +++ post) by (rewrite sapp_assoc; exact Hmsg).
  assert (Hb : byte_at msg (length a + length w) = head_byte post)
    by (rewrite Hmsg2, <- slen_app; apply byte_at_app).
  assert (Hlen : length msg = length a + length w + length post) by (rewrite Hmsg, !slen_app; lia).
  split.
  - intros ->. simpl in Hb, Hlen.
    eexists. split; [|eapply leads_trans; [exact L|]].
    2:{ apply leads_step with (i' := S (length msg)); [lia | | lia].
        body_simpl. rewrite Hb. simpl. rewrite (not_quoted_state p Hp). rewrite Hsl.
        rewrite (unq_raw w Hw). replace (S (length a + length w)) with (S (length msg)) by lia.
        reflexivity. }
    reflexivity.
  - intros post' ->. simpl in Hb.
    exists cn, ct. eapply leads_trans; [exact L|].
    apply leads_step; [simpl in Hlen; lia | | lia].
    body_simpl. rewrite Hb. simpl. rewrite (not_quoted_state p Hp). rewrite Hsl.
    rewrite (unq_raw w Hw). reflexivity.
Qed.

(* quoted text (pfx = "") and bit strings (pfx = "B"): [pfx]'<doubled text>' *)
Lemma quoted_value_leads : forall pre msg pfx x a post p ok cn ct r,
  (pfx = "" \/ pfx = "B") ->
  msg = a +++ pfx +++ String sq (dbl sq x +++ String sq "") +++ post ->
  (post = "" \/ exists post', post = String " " post') ->
  after_value pre msg (length a) (mkSt SColValue p (length a) ok cn ct) r post
              (length a + length (pfx +++ String sq (dbl sq x +++ String sq ""))) ok
              (set_col ok cn (mkCV x ct true) r).
Proof.
  intros pre msg pfx x a post p ok cn ct r Hpfx Hmsg Hpost.
  set (lit := dbl sq x) in *.
  set (A := a +++ pfx).
  assert (HlA : length A = length a + length pfx) by (unfold A; apply slen_app).
  assert (Hm0 : msg = A +++ String sq (lit +++ String sq "") +++ post)
    by (rewrite Hmsg; unfold A; rewrite !sapp_assoc; reflexivity).
  assert (Hm1 : msg = (A +++ String sq "") +++ lit +++ String sq post).
  { rewrite Hm0. rewrite !sapp_assoc. simpl. rewrite !sapp_assoc. reflexivity. }
  assert (Hl1 : length (A +++ String sq "") = S (length A)) by (rewrite slen_app; simpl; lia).
  assert (Hm2 : msg = ((A +++ String sq "") +++ lit) +++ String sq post) by (rewrite sapp_assoc; exact Hm1).
  assert (Hl2 : length ((A +++ String sq "") +++ lit) = S (length A) + length lit)
    by (rewrite slen_app, Hl1; reflexivity).
  assert (Hm3 : msg = (((A +++ String sq "") +++ lit) +++ String sq "") +++ post)
    by (rewrite Hm2, !sapp_assoc; reflexivity).
  assert (Hl3 : length (((A +++ String sq "") +++ lit) +++ String sq "") = S (S (length A + length lit)))
    by (rewrite slen_app, Hl2; simpl; lia).
  assert (Hlen : length msg = S (S (length A + length lit)) + length post)
    by (rewrite Hm3, slen_app, Hl3; reflexivity).
  assert (Hlitlen : length (pfx +++ String sq (lit +++ String sq "")) = length pfx + S (S (length lit)))
    by (rewrite slen_app; simpl; rewrite slen_app; simpl; lia).
  (* the prefix (nothing, or B) *)
  assert (L0 : leads pre msg (length a) (mkSt SColValue p (length a) ok cn ct) r
                     (length A) (mkSt SColValue p (length a) ok cn ct) r).
  { rewrite HlA. apply (raw_leads pre msg pfx a _ p (length a) ok cn ct r Hmsg); [|lia].
    destruct Hpfx as [-> | ->]; reflexivity. }
  (* opening quote *)
  assert (L1 : leads pre msg (length A) (mkSt SColValue p (length a) ok cn ct) r
                     (S (length A)) (mkSt SQuoted SColValue (length a) ok cn ct) r).
  { apply leads_step; [lia | | lia]. body_simpl.
    assert (Hb : byte_at msg (length A) = sq) by (rewrite Hm0, byte_at_app; reflexivity).
    rewrite Hb. reflexivity. }
  (* the doubled text *)
  pose proof (quoted_leads pre msg x (A +++ String sq "") (String sq post) (length a) ok cn ct r Hm1
                ltac:(rewrite Hl1; lia)) as L2.
  rewrite Hl1 in L2. fold lit in L2.
  (* closing quote: the next byte is a space or the end, not a quote *)
  assert (L3 : leads pre msg (S (length A) + length lit) (mkSt SQuoted SColValue (length a) ok cn ct) r
                     (S (S (length A + length lit))) (mkSt SColValue SQuoted (length a) ok cn ct) r).
  { apply leads_step; [lia | | lia]. body_simpl.
    assert (Hb : byte_at msg (S (length A) + length lit) = sq)
      by (rewrite <- Hl2; rewrite Hm2 at 1; rewrite byte_at_app; reflexivity).
    assert (Hn : byte_at msg (S (S (length A) + length lit)) = head_byte post)
      by (rewrite <- Hl2; rewrite Hm2 at 1; apply byte_at_app_S).
    rewrite Hb, Hn. simpl.
    destruct Hpost as [-> | [post' ->]]; reflexivity. }
  assert (Hsl : slice msg (S (length A)) (S (length A) + length lit) = Some lit).
  { rewrite <- Hl1. rewrite Hm1 at 1. apply slice_mid. }
  assert (Hb4 : byte_at msg (S (S (length A + length lit))) = head_byte post).
  { rewrite <- Hl3. rewrite Hm3 at 1. apply byte_at_app. }
  (* what the store reads at TokenStart: the quote itself, or B followed by the quote *)
  assert (Hstore : match get (length a) msg with
                   | None => None
                   | Some b0 =>
                       match (if Ascii.eqb b0 "B" then
                                match get (S (length a)) msg with
                                | None => None
                                | Some b1 => Some (if Ascii.eqb b1 sq then S (length a) else length a)
                                end
                              else Some (length a)) with
                       | Some s0 => slice msg (S s0) (S (length A + length lit))
                       | None => None
                       end
                   end = Some lit).
  { simpl in Hsl. destruct Hpfx as [-> | ->].
    - assert (HA : length A = length a) by (rewrite HlA; simpl; lia).
      rewrite (get_some msg (length a)) by lia.
      assert (Hb : byte_at msg (length a) = sq) by (rewrite Hmsg, byte_at_app; reflexivity).
      rewrite Hb. simpl. rewrite <- HA. exact Hsl.
    - assert (HA : length A = S (length a)) by (rewrite HlA; simpl; lia).
      rewrite (get_some msg (length a)) by lia.
      assert (Hb : byte_at msg (length a) = "B"%char) by (rewrite Hmsg, byte_at_app; reflexivity).
      rewrite Hb. simpl.
      rewrite (get_some msg (S (length a))) by lia.
      assert (Hb1 : byte_at msg (S (length a)) = sq)
        by (rewrite Hmsg; simpl; rewrite byte_at_app_S; reflexivity).
      rewrite Hb1. simpl. rewrite <- HA. exact Hsl. }
  assert (L0123 := leads_trans _ _ _ _ _ _ _ _ _ _ _ L0
                     (leads_trans _ _ _ _ _ _ _ _ _ _ _ L1 (leads_trans _ _ _ _ _ _ _ _ _ _ _ L2 L3))).
  split.
  - intros ->. simpl in Hb4, Hlen.
    eexists. split; [|eapply leads_trans; [exact L0123|]].
    2:{ apply leads_step with (i' := S (length msg)); [lia | | lia].
        body_simpl. rewrite Hb4. simpl. rewrite Hstore.
        unfold lit. rewrite unq_dbl.
        replace (S (S (S (length A + length (dbl sq x))))) with (S (length msg)) by (fold lit; lia).
        reflexivity. }
    reflexivity.
  - intros post' ->. simpl in Hb4.
    exists cn, ct. eapply leads_trans; [exact L0123|].
    rewrite Hlitlen.
    replace (S (length a + (length pfx + S (S (length lit))))) with (S (S (S (length A + length lit)))) by lia.
    apply leads_step; [simpl in Hlen; lia | | lia].
    body_simpl. rewrite Hb4. simpl. rewrite Hstore.
    unfold lit. rewrite unq_dbl. reflexivity.
Qed.

Lemma after_value_prepend : forall pre msg i0 st0 r0 i1 st1 r1 post j ok r',
  leads pre msg i0 st0 r0 i1 st1 r1 ->
  after_value pre msg i1 st1 r1 post j ok r' -> after_value pre msg i0 st0 r0 post j ok r'.
Proof.
  intros until r'. intros L [A1 A2]. split.
  - intros E. destruct (A1 E) as [st' [Hc L']]. exists st'. split; [exact Hc|].
    eapply leads_trans; eassumption.
  - intros post' E. destruct (A2 post' E) as [cn' [ct' L']]. exists cn', ct'.
    eapply leads_trans; eassumption.
Qed.

Lemma dbl_nosq : forall b, str_all not_sq b = true -> dbl sq b = b.
Proof.
  induction b as [|c b IH]; [reflexivity|]. simpl. intros H.
  apply andb_prop in H. destruct H as [Hc Hb]. unfold not_sq in Hc. apply negb_true_iff in Hc.
  now rewrite Hc, IH.
Qed.

Lemma value_leads : forall pre msg v a post p ok cn ct r,
  msg = a +++ print_value v +++ post -> value_ok v = true -> p <> SQuoted ->
  (post = "" \/ exists post', post = String " " post') ->
  after_value pre msg (length a) (mkSt SColValue p (length a) ok cn ct) r post
              (length a + length (print_value v)) ok
              (set_col ok cn (mkCV (fst (exp_val v)) ct (snd (exp_val v))) r).
Proof.
  intros pre msg v a post p ok cn ct r Hmsg Hv Hp Hpost. destruct v; simpl in *.
  - apply unquoted_value_leads; [exact Hmsg | reflexivity | exact Hp].
  - apply unquoted_value_leads; [exact Hmsg | reflexivity | exact Hp].
  - apply unquoted_value_leads; [exact Hmsg | exact Hv | exact Hp].
  - (* bit string: B'<digits>' *)
    pose proof (quoted_value_leads pre msg "B" bits a post p ok cn ct r (or_intror eq_refl)) as Q.
    rewrite (dbl_nosq bits Hv) in Q. apply Q; [|exact Hpost].
    rewrite Hmsg. repeat (first [rewrite !sapp_assoc | progress simpl]). reflexivity.
  - apply (quoted_value_leads pre msg "" s a post p ok cn ct r (or_introl eq_refl) Hmsg Hpost).
Qed.

(* ------------------------------------------------------------------------------------------ *)
(* a column: name[type]:value *)

Ltac snorm := repeat (first [rewrite !sapp_assoc | progress simpl]).

Lemma column_generic : forall pre msg qn ty pv a post p ok cn0 ct0 r r',
  msg = a +++ (qn +++ "[" +++ ty +++ "]:" +++ pv) +++ post ->
  scan false col_stop MTop qn = true -> scan true type_stop MTop ty = true -> p <> SQuoted ->
  (forall a6 p3, msg = a6 +++ pv +++ post -> p3 <> SQuoted ->
     length a6 = length a + length qn + 1 + length ty + 2 ->
     after_value pre msg (length a6) (mkSt SColValue p3 (length a6) ok qn ty) r post
                 (length a6 + length pv) ok r') ->
  after_value pre msg (length a) (mkSt SColName p (length a) ok cn0 ct0) r post
              (length a + length (qn +++ "[" +++ ty +++ "]:" +++ pv)) ok r'.
Proof.
  intros pre msg qn ty pv a post p ok cn0 ct0 r r' Hmsg Hqn Hty Hp Hval.
  set (rest1 := String "[" (ty +++ String "]" (String ":" (pv +++ post)))).
  assert (Hm1 : msg = a +++ qn +++ rest1) by (rewrite Hmsg; unfold rest1; snorm; reflexivity).
  assert (Hlen : length msg = length a + length qn + 1 + length ty + 2 + length pv + length post).
  { rewrite Hm1. unfold rest1. rewrite !slen_app. simpl. rewrite !slen_app. simpl. rewrite !slen_app. lia. }
  (* the name *)
  destruct (scan_leads pre msg SColName false col_stop (scans_colname pre msg) qn MTop a rest1
              (length a) (length a + length qn) p (length a) ok cn0 ct0 r Hm1 Hqn
              ltac:(unfold rest1; simpl; discriminate) (le_n _) Hp eq_refl eq_refl) as [p1 [Hp1 L1]].
  (* '[' *)
  assert (Hm2 : msg = (a +++ qn) +++ rest1) by (rewrite sapp_assoc; exact Hm1).
  assert (L2 : leads pre msg (length a + length qn) (mkSt SColName p1 (length a) ok cn0 ct0) r
                     (S (length a + length qn)) (mkSt SColType p1 (S (length a + length qn)) ok qn ct0) r).
  { apply leads_step; [lia | | lia]. body_simpl.
    assert (Hb : byte_at msg (length a + length qn) = "["%char)
      by (rewrite <- slen_app; rewrite Hm2 at 1; rewrite byte_at_app; reflexivity).
    rewrite Hb. simpl.
    assert (Hsl : slice msg (length a) (length a + length qn) = Some qn) by (rewrite Hm1; apply slice_mid).
    rewrite Hsl. reflexivity. }
  (* the type *)
  set (a3 := (a +++ qn) +++ String "[" "").
  set (rest3 := String "]" (String ":" (pv +++ post))).
  assert (Hl3 : length a3 = S (length a + length qn)) by (unfold a3; rewrite !slen_app; simpl; lia).
  assert (Hm3 : msg = a3 +++ ty +++ rest3) by (rewrite Hmsg; unfold a3, rest3; snorm; reflexivity).
  destruct (scan_leads pre msg SColType true type_stop (scans_coltype pre msg) ty MTop a3 rest3
              (length a3) (length a3 + length ty) p1 (length a3) ok qn ct0 r Hm3 Hty
              ltac:(unfold rest3; simpl; discriminate) (le_n _) Hp1 eq_refl eq_refl) as [p3 [Hp3 L3]].
  rewrite Hl3 in L3.
  (* ']' followed by ':' *)
  assert (Hm4 : msg = (a3 +++ ty) +++ rest3) by (rewrite sapp_assoc; exact Hm3).
  assert (Hl4 : length (a3 +++ ty) = S (length a + length qn) + length ty) by (rewrite slen_app, Hl3; reflexivity).
  assert (L4 : leads pre msg (S (length a + length qn) + length ty) (mkSt SColType p3 (S (length a + length qn)) ok qn ct0) r
                     (S (S (length a + length qn) + length ty))
                     (mkSt SColValue p3 (S (length a + length qn) + length ty + 2) ok qn ty) r).
  { apply leads_step; [lia | | lia]. body_simpl.
    assert (Hb : byte_at msg (S (length a + length qn) + length ty) = "]"%char)
      by (rewrite <- Hl4; rewrite Hm4 at 1; rewrite byte_at_app; reflexivity).
    assert (Hn : byte_at msg (S (S (length a + length qn) + length ty)) = ":"%char)
      by (rewrite <- Hl4; rewrite Hm4 at 1; unfold rest3; rewrite byte_at_app_S; reflexivity).
    rewrite Hb, Hn. simpl.
    assert (Hsl : slice msg (S (length a + length qn)) (S (length a + length qn) + length ty) = Some ty)
      by (rewrite <- Hl3; rewrite Hm3 at 1; apply slice_mid).
    simpl in Hsl. rewrite Hsl. reflexivity. }
  (* the skip over ':' to TokenStart *)
  assert (L5 : leads pre msg (S (S (length a + length qn) + length ty))
                     (mkSt SColValue p3 (S (length a + length qn) + length ty + 2) ok qn ty) r
                     (S (length a + length qn) + length ty + 2)
                     (mkSt SColValue p3 (S (length a + length qn) + length ty + 2) ok qn ty) r).
  { apply (leads_skip pre msg _ (mkSt SColValue p3 (S (length a + length qn) + length ty + 2) ok qn ty) r);
      simpl; lia. }
  (* the value *)
  set (a6 := (a3 +++ ty) +++ String "]" (String ":" "")).
  assert (Hl6 : length a6 = S (length a + length qn) + length ty + 2)
    by (unfold a6; rewrite slen_app, Hl4; simpl; lia).
  assert (Hm6 : msg = a6 +++ pv +++ post) by (rewrite Hmsg; unfold a6, a3; snorm; reflexivity).
  specialize (Hval a6 p3 Hm6 Hp3 ltac:(rewrite Hl6; lia)).
  rewrite Hl6 in Hval.
  replace (length a + length (qn +++ "[" +++ ty +++ "]:" +++ pv))
    with (S (length a + length qn) + length ty + 2 + length pv)
    by (simpl; rewrite !slen_app; simpl; rewrite !slen_app; simpl; lia).
  eapply after_value_prepend; [|exact Hval].
  eapply leads_trans; [exact L1|]. eapply leads_trans; [exact L2|].
  eapply leads_trans; [exact L3|]. eapply leads_trans; [exact L4|]. exact L5.
Qed.

Definition colbody (c : col) : string :=
  quote_ident (c_name c) +++ "[" +++ c_type c +++ "]:" +++ print_value (c_val c).

Lemma print_col_body : forall c, print_col c = String " " (colbody c).
Proof. reflexivity. Qed.

Lemma print_tuple_cons : forall c r, print_tuple (c :: r) = String " " (colbody c +++ print_tuple r).
Proof. reflexivity. Qed.

Lemma column_leads : forall pre msg c a post p ok cn0 ct0 r,
  msg = a +++ colbody c +++ post -> col_ok c = true -> p <> SQuoted ->
  (post = "" \/ exists post', post = String " " post') ->
  after_value pre msg (length a) (mkSt SColName p (length a) ok cn0 ct0) r post
              (length a + length (colbody c)) ok
              (set_col ok (quote_ident (c_name c)) (exp_colval c) r).
Proof.
  intros pre msg c a post p ok cn0 ct0 r Hmsg Hok Hp Hpost.
  unfold col_ok in Hok. apply andb_prop in Hok. destruct Hok as [Hty Hv].
  unfold colbody in *.
  apply column_generic; [exact Hmsg | | exact Hty | exact Hp |].
  - apply scan_quote_ident; [exact col_stop_ident | reflexivity].
  - intros a6 p3 Hm6 Hp3 _.
    replace (exp_colval c) with (mkCV (fst (exp_val (c_val c))) (c_type c) (snd (exp_val (c_val c))))
      by (unfold exp_colval; destruct (exp_val (c_val c)); reflexivity).
    apply value_leads; assumption.
Qed.

(* ------------------------------------------------------------------------------------------ *)
(* a tuple: columns separated by single spaces *)

Definition set_cols (ok : bool) (t : tuple) (r : parse_result) : parse_result :=
  fold_left (fun r c => set_col ok (quote_ident (c_name c)) (exp_colval c) r) t r.

Lemma tuple_leads : forall pre msg rest c a fin p ok cn0 ct0 r,
  msg = a +++ colbody c +++ print_tuple rest +++ fin ->
  tuple_ok (c :: rest) = true -> p <> SQuoted ->
  (fin = "" \/ exists fin', fin = String " " fin') ->
  after_value pre msg (length a) (mkSt SColName p (length a) ok cn0 ct0) r fin
              (length a + length (colbody c +++ print_tuple rest)) ok (set_cols ok (c :: rest) r).
Proof.
  intros pre msg. induction rest as [|c2 rest IH]; intros c a fin p ok cn0 ct0 r Hmsg Hok Hp Hfin.
  - simpl in Hmsg. simpl print_tuple. rewrite sapp_nil_r.
    simpl in Hok. rewrite andb_true_r in Hok.
    apply column_leads; assumption.
  - simpl in Hok. apply andb_prop in Hok. destruct Hok as [Hok1 Hok2].
    set (post := String " " (colbody c2 +++ print_tuple rest +++ fin)).
    assert (Hm1 : msg = a +++ colbody c +++ post).
    { rewrite Hmsg. unfold post. rewrite print_tuple_cons. snorm. reflexivity. }
    destruct (column_leads pre msg c a post p ok cn0 ct0 r Hm1 Hok1 Hp
                ltac:(right; eexists; reflexivity)) as [_ A2].
    destruct (A2 _ eq_refl) as [cn' [ct' L1]].
    set (a2 := (a +++ colbody c) +++ String " " "").
    assert (Hl2 : length a2 = S (length a + length (colbody c)))
      by (unfold a2; rewrite !slen_app; simpl; lia).
    assert (Hm2 : msg = a2 +++ colbody c2 +++ print_tuple rest +++ fin).
    { rewrite Hm1. unfold a2, post. rewrite !sapp_assoc. reflexivity. }
    assert (Hok' : tuple_ok (c2 :: rest) = true) by exact Hok2.
    pose proof (IH c2 a2 fin SColValue ok cn' ct'
                  (set_col ok (quote_ident (c_name c)) (exp_colval c) r)
                  Hm2 Hok' ltac:(discriminate) Hfin) as A.
    rewrite Hl2 in A.
    replace (length a + length (colbody c +++ print_tuple (c2 :: rest)))
      with (S (length a + length (colbody c)) + length (colbody c2 +++ print_tuple rest)).
    2:{ rewrite print_tuple_cons. rewrite !slen_app. simpl. rewrite !slen_app. lia. }
    eapply after_value_prepend; [exact L1 | exact A].
Qed.

(* old-key: / new-tuple: markers in the ColumnName state *)
Definition marker_flag (w : string) (ok : bool) : bool :=
  if String.eqb w "old-key" then true else if String.eqb w "new-tuple" then false else ok.

Lemma marker_leads : forall pre msg w a x post' p ok cn ct r,
  msg = a +++ w +++ String ":" (String x post') -> scan false col_stop MTop w = true -> p <> SQuoted ->
  exists p', p' <> SQuoted /\
    leads pre msg (length a) (mkSt SColName p (length a) ok cn ct) r
                  (length a + length w + 2)
                  (mkSt SColName p' (length a + length w + 2) (marker_flag w ok) cn ct) r.
Proof.
  intros pre msg w a x post' p ok cn ct r Hmsg Hw Hp.
  assert (Hlen : length msg = length a + length w + 2 + length post')
    by (rewrite Hmsg, !slen_app; simpl; lia).
  destruct (scan_leads pre msg SColName false col_stop (scans_colname pre msg) w MTop a _
              (length a) (length a + length w) p (length a) ok cn ct r Hmsg Hw
              ltac:(simpl; discriminate) (le_n _) Hp eq_refl eq_refl) as [p1 [Hp1 L1]].
  exists p1. split; [exact Hp1|].
  eapply leads_trans; [exact L1|].
  assert (Hm2 : msg = (a +++ w) +++ String ":" (String x post')) by (rewrite sapp_assoc; exact Hmsg).
  eapply leads_trans.
  - apply leads_step with (i' := S (length a + length w)); [lia | | lia]. body_simpl.
    assert (Hb : byte_at msg (length a + length w) = ":"%char)
      by (rewrite <- slen_app; rewrite Hm2 at 1; rewrite byte_at_app; reflexivity).
    rewrite Hb. simpl.
    assert (Hsl : slice msg (length a) (length a + length w) = Some w) by (rewrite Hmsg; apply slice_mid).
    rewrite Hsl. reflexivity.
  - fold (marker_flag w ok).
    apply (leads_skip pre msg (S (length a + length w))
             (mkSt SColName p1 (length a + length w + 2) (marker_flag w ok) cn ct) r); simpl; lia.
Qed.

(* (no-tuple-data) *)
Lemma notuple_leads : forall pre msg a p ok cn ct r,
  msg = a +++ "(no-tuple-data)" ->
  exists st', cur st' = SEnd /\
    leads pre msg (length a) (mkSt SColName p (length a) ok cn ct) r (S (length msg)) st' (set_notuple r).
Proof.
  intros pre msg a p ok cn ct r Hmsg.
  assert (Hlen : length msg = length a + 15) by (rewrite Hmsg, slen_app; reflexivity).
  exists (mkSt SEnd p (length a) ok cn ct). split; [reflexivity|].
  eapply leads_trans.
  - apply leads_step with (i' := S (length a)); [lia | | lia]. body_simpl.
    assert (Hb : byte_at msg (length a) = "("%char) by (rewrite Hmsg, byte_at_app; reflexivity).
    rewrite Hb. simpl.
    assert (Hsl : slice msg (length a) (length msg) = Some "(no-tuple-data)").
    { rewrite Hlen. assert (E : msg = a +++ "(no-tuple-data)" +++ "") by (rewrite sapp_nil_r; exact Hmsg).
      rewrite E. apply (slice_mid a "(no-tuple-data)" ""). }
    rewrite Hsl. reflexivity.
  - apply (leads_end_state pre msg (length msg - length a)); lia.
Qed.

Definition opt_body (t : option tuple) : string :=
  match t with
  | None => "(no-tuple-data)"
  | Some [] => ""
  | Some (c :: rest) => colbody c +++ print_tuple rest
  end.

Lemma print_tuple_opt_body : forall t, last_tuple_ok t = true ->
  print_tuple_opt t = String " " (opt_body t).
Proof.
  intros [[|c rest]|] H; try reflexivity. discriminate.
Qed.

Definition apply_tuple (ok : bool) (t : option tuple) (r : parse_result) : parse_result :=
  match t with None => set_notuple r | Some t => set_cols ok t r end.

Lemma tuple_opt_leads : forall pre msg t a p ok cn ct r,
  msg = a +++ opt_body t -> last_tuple_ok t = true -> p <> SQuoted ->
  exists st', cur st' = SEnd /\
    leads pre msg (length a) (mkSt SColName p (length a) ok cn ct) r (S (length msg)) st' (apply_tuple ok t r).
Proof.
  intros pre msg [[|c rest]|] a p ok cn ct r Hmsg Hok Hp.
  - discriminate.
  - simpl in Hok, Hmsg.
    assert (Hm : msg = a +++ colbody c +++ print_tuple rest +++ "") by (rewrite sapp_nil_r; exact Hmsg).
    destruct (tuple_leads pre msg rest c a "" p ok cn ct r Hm Hok Hp (or_introl eq_refl)) as [A1 _].
    exact (A1 eq_refl).
  - apply notuple_leads. exact Hmsg.
Qed.

(* " old-key:" tuple " new-tuple:" — from the column-start position after "UPDATE: " *)
Lemma old_section_leads : forall pre msg o a X p ok cn ct r,
  msg = a +++ "old-key:" +++ print_tuple o +++ " new-tuple:" +++ String " " X ->
  tuple_ok o = true -> p <> SQuoted ->
  exists p' cn' ct', p' <> SQuoted /\
    leads pre msg (length a) (mkSt SColName p (length a) ok cn ct) r
      (length a + length ("old-key:" +++ print_tuple o +++ " new-tuple: "))
      (mkSt SColName p' (length a + length ("old-key:" +++ print_tuple o +++ " new-tuple: ")) false cn' ct')
      (set_cols true o r).
Proof.
  intros pre msg o a X p ok cn ct r Hmsg Hok Hp.
  destruct o as [|c rest].
  - (* empty old tuple: "old-key: new-tuple: " *)
    simpl print_tuple in *.
    assert (Hm1 : msg = a +++ "old-key" +++ String ":" (String " " ("new-tuple:" +++ String " " X)))
      by (rewrite Hmsg; reflexivity).
    destruct (marker_leads pre msg "old-key" a " " _ p ok cn ct r Hm1 eq_refl Hp) as [p1 [Hp1 L1]].
    set (a2 := (a +++ "old-key") +++ String ":" (String " " "")).
    assert (Hl2 : length a2 = length a + length "old-key" + 2) by (unfold a2; rewrite !slen_app; simpl; lia).
    assert (Hm2 : msg = a2 +++ "new-tuple" +++ String ":" (String " " X))
      by (rewrite Hmsg; unfold a2; snorm; reflexivity).
    destruct (marker_leads pre msg "new-tuple" a2 " " X p1 (marker_flag "old-key" ok) cn ct r Hm2 eq_refl Hp1)
      as [p2 [Hp2 L2]].
    rewrite Hl2 in L2.
    exists p2, cn, ct. split; [exact Hp2|].
    replace (length a + length ("old-key:" +++ "" +++ " new-tuple: ")) with (length a + length "old-key" + 2 + length "new-tuple" + 2)
      by (simpl; lia).
    eapply leads_trans; [exact L1 | exact L2].
  - set (fin := String " " ("new-tuple:" +++ String " " X)).
    assert (Hm1 : msg = a +++ "old-key" +++ String ":" (String " " (colbody c +++ print_tuple rest +++ fin))).
    { rewrite Hmsg. unfold fin. rewrite print_tuple_cons. snorm. reflexivity. }
    destruct (marker_leads pre msg "old-key" a " " _ p ok cn ct r Hm1 eq_refl Hp) as [p1 [Hp1 L1]].
    set (a2 := (a +++ "old-key") +++ String ":" (String " " "")).
    assert (Hl2 : length a2 = length a + length "old-key" + 2) by (unfold a2; rewrite !slen_app; simpl; lia).
    assert (Hm2 : msg = a2 +++ colbody c +++ print_tuple rest +++ fin)
      by (rewrite Hm1; unfold a2; snorm; reflexivity).
    destruct (tuple_leads pre msg rest c a2 fin p1 (marker_flag "old-key" ok) cn ct r Hm2 Hok Hp1
                ltac:(right; eexists; reflexivity)) as [_ A2].
    destruct (A2 _ eq_refl) as [cn' [ct' L2]]. rewrite Hl2 in L2.
    set (a3 := (a2 +++ colbody c +++ print_tuple rest) +++ String " " "").
    assert (Hl3 : length a3 = S (length a + length "old-key" + 2 + length (colbody c +++ print_tuple rest)))
      by (unfold a3; rewrite !slen_app, Hl2; simpl; rewrite ?slen_app; lia).
    assert (Hm3 : msg = a3 +++ "new-tuple" +++ String ":" (String " " X)).
    { rewrite Hm2. unfold a3, fin. rewrite !sapp_assoc. reflexivity. }
    destruct (marker_leads pre msg "new-tuple" a3 " " X SColValue (marker_flag "old-key" ok) cn' ct'
                (set_cols (marker_flag "old-key" ok) (c :: rest) r) Hm3 eq_refl ltac:(discriminate))
      as [p3 [Hp3 L3]].
    rewrite Hl3 in L3.
    exists p3, cn', ct'. split; [exact Hp3|].
    replace (length a + length ("old-key:" +++ print_tuple (c :: rest) +++ " new-tuple: "))
      with (S (length a + length "old-key" + 2 + length (colbody c +++ print_tuple rest)) + length "new-tuple" + 2).
    2:{ rewrite print_tuple_cons. simpl. rewrite ?slen_app. simpl. rewrite ?slen_app. simpl. lia. }
    eapply leads_trans; [exact L1|]. eapply leads_trans; [exact L2 | exact L3].
Qed.

(* ------------------------------------------------------------------------------------------ *)
(* the relation part: [scan] is compositional, so the whole "schema"."table" (and a TRUNCATE's
   comma separated list) is one segment of the Relation state *)

Lemma scan_cons : forall br stop m c r,
  scan br stop m (String c r) =
    match m with
    | MTop => if stop c then false
              else if Ascii.eqb c dq then scan br stop MQuote r
              else if (br && Ascii.eqb c "[")%bool then scan br stop MBrack r
              else scan br stop MTop r
    | MQuote => if Ascii.eqb c dq then
                  match r with
                  | EmptyString => true
                  | String d _ => if Ascii.eqb d dq then scan br stop MQSkip r else scan br stop MTop r
                  end
                else scan br stop MQuote r
    | MQSkip => scan br stop MQuote r
    | MBrack => if Ascii.eqb c "]" then scan br stop MTop r else scan br stop MBrack r
    end.
Proof. reflexivity. Qed.

Lemma scan_app : forall br stop A m B,
  scan br stop m A = true -> head_byte B <> dq -> scan br stop MTop B = true ->
  scan br stop m (A +++ B) = true.
Proof.
  intros br stop. induction A as [|c A IH]; intros m B HA HB HB'.
  - destruct m; try discriminate. exact HB'.
  - change (String c A +++ B) with (String c (A +++ B)).
    rewrite scan_cons in HA. rewrite scan_cons. destruct m.
    + destruct (stop c); [discriminate|].
      destruct (Ascii.eqb c dq); [now apply IH|].
      destruct (br && Ascii.eqb c "[")%bool; now apply IH.
    + destruct (Ascii.eqb c dq); [|now apply IH].
      destruct A as [|d A'].
      * change ("" +++ B) with B. destruct B as [|d B']; [reflexivity|]. simpl in HB.
        rewrite (proj2 (Ascii.eqb_neq _ _) HB). exact HB'.
      * change (String d A' +++ B) with (String d (A' +++ B)). cbv beta iota.
        change (String d (A' +++ B)) with (String d A' +++ B).
        destruct (Ascii.eqb d dq); now apply IH.
    + now apply IH.
    + destruct (Ascii.eqb c "]"); now apply IH.
Qed.

Lemma scan_qualified : forall ns rel, scan false rel_stop MTop (qualified ns rel) = true.
Proof.
  intros. unfold qualified. apply scan_app.
  - apply scan_quote_ident; [exact rel_stop_ident | reflexivity].
  - simpl. discriminate.
  - simpl. apply scan_quote_ident; [exact rel_stop_ident | reflexivity].
Qed.

Lemma scan_rels : forall rels, scan false rel_stop MTop (print_rels rels) = true.
Proof.
  induction rels as [|[ns rel] r IH]; [reflexivity|].
  destruct r as [|x r]; [apply scan_qualified|].
  change (print_rels ((ns, rel) :: x :: r)) with (qualified ns rel +++ ", " +++ print_rels (x :: r)).
  apply scan_app; [apply scan_qualified | simpl; discriminate | simpl; exact IH].
Qed.

(* ------------------------------------------------------------------------------------------ *)
(* "table " relation ": " operation ":" *)

Lemma header_leads : forall pre msg R op T r,
  msg = "table " +++ R +++ ": " +++ op +++ ":" +++ T ->
  scan false rel_stop MTop R = true -> str_all not_colon op = true ->
  exists p', p' <> SQuoted /\
    leads pre msg 0 init_table_state r
          (6 + length R + 2 + length op) (mkSt SOperation p' (6 + length R + 2) false "" "") (set_rel r R).
Proof.
  intros pre msg R op T r Hmsg HR Hop.
  assert (Hlen : length msg = 6 + length R + 2 + length op + 1 + length T).
  { rewrite Hmsg. simpl. rewrite !slen_app. simpl. rewrite !slen_app. simpl. lia. }
  assert (L0 : leads pre msg 0 init_table_state r 6 init_table_state r)
    by (apply (leads_skip pre msg 0 init_table_state r); simpl; lia).
  set (a := "table ").
  set (post1 := String ":" (String " " (op +++ String ":" T))).
  assert (Hm1 : msg = a +++ R +++ post1) by (rewrite Hmsg; unfold a, post1; snorm; reflexivity).
  destruct (scan_leads pre msg SRelation false rel_stop (scans_relation pre msg) R MTop a post1
              6 (6 + length R) SInitial 6 false "" "" r Hm1 HR
              ltac:(simpl; discriminate) (le_n _) ltac:(discriminate) eq_refl eq_refl) as [p1 [Hp1 L1]].
  exists p1. split; [exact Hp1|].
  assert (Hm2 : msg = (a +++ R) +++ post1) by (rewrite sapp_assoc; exact Hm1).
  assert (Hl2 : length (a +++ R) = 6 + length R) by (rewrite slen_app; reflexivity).
  assert (L2 : leads pre msg (6 + length R) (mkSt SRelation p1 6 false "" "") r
                     (S (6 + length R)) (mkSt SOperation p1 (6 + length R + 2) false "" "") (set_rel r R)).
  { apply leads_step; [lia | | lia]. body_simpl.
    assert (Hb : byte_at msg (6 + length R) = ":"%char)
      by (rewrite <- Hl2; rewrite Hm2 at 1; rewrite byte_at_app; reflexivity).
    assert (Hn : byte_at msg (S (6 + length R)) = " "%char)
      by (rewrite <- Hl2; rewrite Hm2 at 1; unfold post1; rewrite byte_at_app_S; reflexivity).
    rewrite Hb, Hn. simpl.
    assert (Hsl : slice msg 6 (6 + length R) = Some R) by (rewrite Hm1; apply (slice_mid a R post1)).
    simpl in Hsl. rewrite Hsl. reflexivity. }
  assert (L3 : leads pre msg (S (6 + length R)) (mkSt SOperation p1 (6 + length R + 2) false "" "") (set_rel r R)
                     (6 + length R + 2) (mkSt SOperation p1 (6 + length R + 2) false "" "") (set_rel r R)).
  { apply (leads_skip pre msg _ (mkSt SOperation p1 (6 + length R + 2) false "" "") (set_rel r R)); simpl; lia. }
  set (a4 := (a +++ R) +++ String ":" (String " " "")).
  assert (Hl4 : length a4 = 6 + length R + 2) by (unfold a4; rewrite slen_app, Hl2; simpl; lia).
  assert (Hm4 : msg = a4 +++ op +++ String ":" T) by (rewrite Hm1; unfold a4, post1; snorm; reflexivity).
  pose proof (op_leads pre msg op a4 (String ":" T) p1 (6 + length R + 2) false "" "" (set_rel r R) Hm4 Hop
                ltac:(rewrite Hl4; lia)) as L4.
  rewrite Hl4 in L4.
  eapply leads_trans; [exact L0|]. eapply leads_trans; [exact L1|].
  eapply leads_trans; [exact L2|]. eapply leads_trans; [exact L3 | exact L4].
Qed.

(* the iteration at the operation's colon *)
Lemma body_op_colon : forall pre msg R op T p r,
  msg = "table " +++ R +++ ": " +++ op +++ ":" +++ T -> head_byte T = " "%char ->
  body pre msg (6 + length R + 2 + length op) (mkSt SOperation p (6 + length R + 2) false "" "") r =
    if String.eqb op "TRUNCATE" then BBreak (mkSt STruncate p (6 + length R + 2) false "" "") (set_op r op)
    else if pre then BBreak (mkSt SColName p (6 + length R + 2 + length op + 2) false "" "") (set_op r op)
         else BNext (S (6 + length R + 2 + length op))
                    (mkSt SColName p (6 + length R + 2 + length op + 2) false "" "") (set_op r op).
Proof.
  intros pre msg R op T p r Hmsg HT.
  set (a4 := "table " +++ R +++ ": ").
  assert (Hl4 : length a4 = 6 + length R + 2) by (unfold a4; simpl; rewrite slen_app; simpl; lia).
  assert (Hm4 : msg = a4 +++ op +++ String ":" T) by (rewrite Hmsg; unfold a4; snorm; reflexivity).
  assert (Hm5 : msg = (a4 +++ op) +++ String ":" T) by (rewrite sapp_assoc; exact Hm4).
  assert (Hl5 : length (a4 +++ op) = 6 + length R + 2 + length op) by (rewrite slen_app, Hl4; reflexivity).
  assert (Hb : byte_at msg (6 + length R + 2 + length op) = ":"%char)
    by (rewrite <- Hl5; rewrite Hm5 at 1; rewrite byte_at_app; reflexivity).
  assert (Hn : byte_at msg (S (6 + length R + 2 + length op)) = " "%char)
    by (rewrite <- Hl5; rewrite Hm5 at 1; rewrite byte_at_app_S; exact HT).
  assert (Hsl : slice msg (6 + length R + 2) (6 + length R + 2 + length op) = Some op)
    by (rewrite <- Hl4; rewrite Hm4 at 1; apply slice_mid).
  body_simpl. rewrite Hb, Hn. simpl. simpl in Hsl. rewrite Hsl. reflexivity.
Qed.

Lemma parse_table : forall pre X r,
  parse pre ("table " +++ X) r =
    match loop (length ("table " +++ X) + 2) pre ("table " +++ X) (length ("table " +++ X)) 0 init_table_state r with
    | LOutOfFuel => OutOfFuel
    | LRet o => o
    | LDone st' r' => finish pre st' r'
    end.
Proof. intros. reflexivity. Qed.

Lemma ends_parse : forall pre X r st' r',
  ends pre ("table " +++ X) 0 init_table_state r (LDone st' r') ->
  parse pre ("table " +++ X) r = finish pre st' r'.
Proof.
  intros pre X r st' r' H. rewrite parse_table. rewrite H; [reflexivity|].
  split; [lia | intros; lia].
Qed.

(* ------------------------------------------------------------------------------------------ *)
(* whole table messages *)

Lemma truncate_parse : forall pre R T r,
  scan false rel_stop MTop R = true -> head_byte T = " "%char ->
  parse pre ("table " +++ R +++ ": " +++ "TRUNCATE" +++ ":" +++ T) r = Ok (set_op (set_rel r R) "TRUNCATE").
Proof.
  intros pre R T r HR HT.
  set (msg := "table " +++ R +++ ": " +++ "TRUNCATE" +++ ":" +++ T).
  destruct (header_leads pre msg R "TRUNCATE" T r eq_refl HR eq_refl) as [p1 [Hp1 L]].
  pose proof (body_op_colon pre msg R "TRUNCATE" T p1 (set_rel r R) eq_refl HT) as Hb.
  change (String.eqb "TRUNCATE" "TRUNCATE") with true in Hb. cbv iota in Hb.
  assert (Hlen : 6 + length R + 2 + length "TRUNCATE" <= length msg).
  { unfold msg. simpl. rewrite !slen_app. simpl. lia. }
  pose proof (leads_ends _ _ _ _ _ _ _ _ _ L (ends_break _ _ _ _ _ _ _ Hlen Hb)) as E.
  unfold msg in *. rewrite (ends_parse _ _ _ _ _ E). reflexivity.
Qed.

Lemma dml_prelude : forall R op T r,
  scan false rel_stop MTop R = true -> str_all not_colon op = true ->
  String.eqb op "TRUNCATE" = false -> head_byte T = " "%char ->
  parse true ("table " +++ R +++ ": " +++ op +++ ":" +++ T) r = Ok (set_op (set_rel r R) op).
Proof.
  intros R op T r HR Hop Hnt HT.
  set (msg := "table " +++ R +++ ": " +++ op +++ ":" +++ T).
  destruct (header_leads true msg R op T r eq_refl HR Hop) as [p1 [Hp1 L]].
  pose proof (body_op_colon true msg R op T p1 (set_rel r R) eq_refl HT) as Hb.
  rewrite Hnt in Hb.
  assert (Hlen : 6 + length R + 2 + length op <= length msg).
  { unfold msg. simpl. rewrite !slen_app. simpl. rewrite !slen_app. lia. }
  pose proof (leads_ends _ _ _ _ _ _ _ _ _ L (ends_break _ _ _ _ _ _ _ Hlen Hb)) as E.
  unfold msg in *. rewrite (ends_parse _ _ _ _ _ E). reflexivity.
Qed.

Lemma dml_columns : forall R op T' r r3,
  scan false rel_stop MTop R = true -> str_all not_colon op = true ->
  String.eqb op "TRUNCATE" = false ->
  (forall a p, "table " +++ R +++ ": " +++ op +++ ":" +++ String " " T' = a +++ T' -> p <> SQuoted ->
     exists st', cur st' = SEnd /\
       leads false ("table " +++ R +++ ": " +++ op +++ ":" +++ String " " T')
             (length a) (mkSt SColName p (length a) false "" "") (set_op (set_rel r R) op)
             (S (length ("table " +++ R +++ ": " +++ op +++ ":" +++ String " " T'))) st' r3) ->
  parse false ("table " +++ R +++ ": " +++ op +++ ":" +++ String " " T') r = Ok r3.
Proof.
  intros R op T' r r3 HR Hop Hnt Htail.
  set (msg := "table " +++ R +++ ": " +++ op +++ ":" +++ String " " T') in *.
  destruct (header_leads false msg R op (String " " T') r eq_refl HR Hop) as [p1 [Hp1 L1]].
  pose proof (body_op_colon false msg R op (String " " T') p1 (set_rel r R) eq_refl eq_refl) as Hb.
  rewrite Hnt in Hb.
  assert (Hlen : length msg = 6 + length R + 2 + length op + 2 + length T').
  { unfold msg. simpl. rewrite !slen_app. simpl. rewrite !slen_app. simpl. lia. }
  set (k := 6 + length R + 2 + length op) in *.
  assert (L2 : leads false msg k (mkSt SOperation p1 (6 + length R + 2) false "" "") (set_rel r R)
                     (S k) (mkSt SColName p1 (k + 2) false "" "") (set_op (set_rel r R) op))
    by (apply leads_step; [lia | exact Hb | lia]).
  assert (L3 : leads false msg (S k) (mkSt SColName p1 (k + 2) false "" "") (set_op (set_rel r R) op)
                     (k + 2) (mkSt SColName p1 (k + 2) false "" "") (set_op (set_rel r R) op))
    by (apply (leads_skip false msg (S k) (mkSt SColName p1 (k + 2) false "" "")); simpl ts; lia).
  set (a := "table " +++ R +++ ": " +++ op +++ ": ").
  assert (Hla : length a = k + 2).
  { unfold a, k. simpl. rewrite !slen_app. simpl. rewrite !slen_app. simpl. lia. }
  assert (Hma : msg = a +++ T') by (unfold msg, a; snorm; reflexivity).
  destruct (Htail a p1 Hma Hp1) as [st' [Hc L4]]. rewrite Hla in L4.
  pose proof (leads_trans _ _ _ _ _ _ _ _ _ _ _ L1
               (leads_trans _ _ _ _ _ _ _ _ _ _ _ L2 (leads_trans _ _ _ _ _ _ _ _ _ _ _ L3 L4))) as L.
  pose proof (leads_ends _ _ _ _ _ _ _ _ _ L (ends_done _ _ _ _ _ (Nat.lt_succ_diag_r _))) as E.
  unfold msg in *. rewrite (ends_parse _ _ _ _ _ E). unfold finish. rewrite Hc. reflexivity.
Qed.

(* the result record after a tuple *)
Lemma set_cols_false : forall t a b c d m o,
  set_cols false t (mkPR a b c d m o) = mkPR a b c d (exp_cols m t) o.
Proof.
  induction t as [|x t IH]; intros; [reflexivity|].
  unfold set_cols in *. simpl. apply IH.
Qed.

Lemma set_cols_true : forall t a b c d m o,
  set_cols true t (mkPR a b c d m o) = mkPR a b c d m (exp_cols o t).
Proof.
  induction t as [|x t IH]; intros; [reflexivity|].
  unfold set_cols in *. simpl. apply IH.
Qed.

Lemma apply_tuple_false : forall t b c o,
  apply_tuple false t (mkPR "" b c false [] o) = mkPR "" b c (is_none t) (opt_cols t) o.
Proof. intros [t|] b c o; simpl; [apply set_cols_false | reflexivity]. Qed.

(* a message whose only tuple comes right after the operation (INSERT, DELETE, UPDATE without
   old key) *)
Lemma simple_dml : forall R op t,
  scan false rel_stop MTop R = true -> str_all not_colon op = true ->
  String.eqb op "TRUNCATE" = false ->
  last_tuple_ok t = true ->
  parse_full ("table " +++ R +++ ": " +++ op +++ ":" +++ print_tuple_opt t) =
    Ok (mkPR "" R op (is_none t) (opt_cols t) []).
Proof.
  intros R op t HR Hop Hnt Hok. rewrite (print_tuple_opt_body t Hok).
  unfold parse_full. rewrite (dml_prelude R op (String " " (opt_body t)) empty_result HR Hop Hnt eq_refl).
  rewrite (dml_columns R op (opt_body t) _ (apply_tuple false t (mkPR "" R op false [] [])) HR Hop Hnt).
  - now rewrite apply_tuple_false.
  - intros a p Hma Hp. apply tuple_opt_leads; assumption.
Qed.

Lemma update_with_old : forall R o t,
  scan false rel_stop MTop R = true ->
  tuple_ok o = true ->
  last_tuple_ok t = true ->
  parse_full ("table " +++ R +++ ": " +++ "UPDATE" +++ ":" +++
              " old-key:" +++ print_tuple o +++ " new-tuple:" +++ print_tuple_opt t) =
    Ok (mkPR "" R "UPDATE" (is_none t) (opt_cols t) (exp_cols [] o)).
Proof.
  intros R o t HR Hoo Hok. rewrite (print_tuple_opt_body t Hok).
  set (T' := "old-key:" +++ print_tuple o +++ " new-tuple:" +++ String " " (opt_body t)).
  change (" old-key:" +++ print_tuple o +++ " new-tuple:" +++ String " " (opt_body t)) with (String " " T').
  unfold parse_full. rewrite (dml_prelude R "UPDATE" (String " " T') empty_result HR eq_refl eq_refl eq_refl).
  rewrite (dml_columns R "UPDATE" T' _
             (apply_tuple false t (set_cols true o (mkPR "" R "UPDATE" false [] []))) HR eq_refl eq_refl).
  - rewrite set_cols_true. now rewrite apply_tuple_false.
  - intros a p Hma Hp.
    set (msg := "table " +++ R +++ ": " +++ "UPDATE" +++ ":" +++ String " " T') in *.
    assert (Hm1 : msg = a +++ "old-key:" +++ print_tuple o +++ " new-tuple:" +++ String " " (opt_body t))
      by exact Hma.
    destruct (old_section_leads false msg o a (opt_body t) p false "" ""
                (set_op (set_rel empty_result R) "UPDATE") Hm1 Hoo Hp) as [p2 [cn' [ct' [Hp2 L1]]]].
    set (a2 := a +++ "old-key:" +++ print_tuple o +++ " new-tuple: ").
    assert (Hl2 : length a2 = length a + length ("old-key:" +++ print_tuple o +++ " new-tuple: "))
      by (unfold a2; rewrite slen_app; reflexivity).
    assert (Hm2 : msg = a2 +++ opt_body t) by (rewrite Hm1; unfold a2; snorm; reflexivity).
    destruct (tuple_opt_leads false msg t a2 p2 false cn' ct'
                (set_cols true o (set_op (set_rel empty_result R) "UPDATE")) Hm2 Hok Hp2)
      as [st' [Hc L2]].
    rewrite Hl2 in L2. exists st'. split; [exact Hc|].
    eapply leads_trans; [exact L1 | exact L2].
Qed.

(* ------------------------------------------------------------------------------------------ *)
(* BEGIN / COMMIT *)

Lemma digit_is_digit : forall k, (k < 10)%N -> is_digit (digit k) = true.
Proof.
  intros k H.
  assert (H' : (k = 0 \/ k = 1 \/ k = 2 \/ k = 3 \/ k = 4 \/ k = 5 \/ k = 6 \/ k = 7 \/ k = 8 \/ k = 9)%N) by lia.
  repeat (destruct H' as [->|H']; [reflexivity|]). subst; reflexivity.
Qed.

Lemma dec_fuel_digits : forall f n acc,
  str_all is_digit acc = true -> str_all is_digit (dec_fuel f n acc) = true.
Proof.
  induction f as [|f IH]; intros n acc H; [exact H|].
  simpl.
  assert (H' : str_all is_digit (String (digit (n mod 10)) acc) = true).
  { simpl. rewrite digit_is_digit; [exact H | apply N.mod_lt; discriminate]. }
  destruct (n <? 10)%N; [exact H' | apply IH, H'].
Qed.

Lemma dec_fuel_nonempty : forall f n c acc, exists d ds, dec_fuel f n (String c acc) = String d ds.
Proof.
  induction f as [|f IH]; intros n c acc; [do 2 eexists; reflexivity|].
  simpl. destruct (n <? 10)%N; [do 2 eexists; reflexivity | apply IH].
Qed.

Lemma dec_shape : forall x, exists d ds, dec x = String d ds /\ str_all is_digit (String d ds) = true.
Proof.
  intros x. pose proof (dec_fuel_digits (S (N.to_nat (N.log2 x))) x "" eq_refl) as Hd.
  fold (dec x) in Hd.
  assert (exists d ds, dec x = String d ds) as [d [ds E]].
  { unfold dec. simpl. destruct (x <? 10)%N; [do 2 eexists; reflexivity | apply dec_fuel_nonempty]. }
  exists d, ds. split; [exact E | now rewrite <- E].
Qed.

Lemma ws_len_digit : forall c r, is_digit c = true -> ws_len (String c r) = 0.
Proof.
  intros c r H.
  destruct c as [[] [] [] [] [] [] [] []]; try discriminate H;
    destruct r as [|c1 [|c2 r2]]; reflexivity.
Qed.

Lemma fields_digits : forall ds w, str_all is_digit ds = true -> fields_go ds 0 w = flush (w +++ ds).
Proof.
  induction ds as [|c ds IH]; intros w H.
  - simpl. now rewrite sapp_nil_r.
  - simpl in H. apply andb_prop in H. destruct H as [Hc Hds].
    change (fields_go (String c ds) 0 w) with
      (match ws_len (String c ds) with
       | O => fields_go ds 0 (w +++ String c "")
       | S k => flush w ++ fields_go ds k ""
       end).
    rewrite (ws_len_digit c ds Hc). rewrite (IH _ Hds). now rewrite sapp_assoc.
Qed.

Lemma fields_begin : forall d ds, str_all is_digit (String d ds) = true ->
  fields ("BEGIN " +++ String d ds) = ["BEGIN"; String d ds].
Proof.
  intros d ds H. unfold fields.
  change (fields_go ("BEGIN " +++ String d ds) 0 "") with ("BEGIN" :: fields_go (String d ds) 0 "").
  now rewrite (fields_digits _ "" H).
Qed.

Lemma fields_commit : forall d ds, str_all is_digit (String d ds) = true ->
  fields ("COMMIT " +++ String d ds) = ["COMMIT"; String d ds].
Proof.
  intros d ds H. unfold fields.
  change (fields_go ("COMMIT " +++ String d ds) 0 "") with ("COMMIT" :: fields_go (String d ds) 0 "").
  now rewrite (fields_digits _ "" H).
Qed.

Lemma parse_begin : forall pre X r,
  parse pre ("BEGIN " +++ X) r =
    match fields ("BEGIN " +++ X) with
    | [a; b] => Ok (mkPR b (pr_rel r) a (pr_notuple r) (pr_cols r) (pr_old r))
    | _ => Err
    end.
Proof. reflexivity. Qed.

Lemma parse_commit : forall pre X r,
  parse pre ("COMMIT " +++ X) r =
    match fields ("COMMIT " +++ X) with
    | [a; b] => Ok (mkPR b (pr_rel r) a (pr_notuple r) (pr_cols r) (pr_old r))
    | _ => Err
    end.
Proof. reflexivity. Qed.

(* ------------------------------------------------------------------------------------------ *)
(* the round trip *)

Lemma flags_head : forall rs ca : bool,
  head_byte (if (rs || ca)%bool then (if rs then " restart_seqs" else "") +++ (if ca then " cascade" else "")
             else " (no-flags)") = " "%char.
Proof. intros [] []; reflexivity. Qed.

Theorem roundtrip : forall c, WF c = true -> parse_full (print c) = Ok (expected c).
Proof.
  intros c Hwf. destruct c as [x|x|ns rel new|ns rel old new|ns rel old|rels rs ca]; unfold print, expected.
  - destruct (dec_shape x) as [d [ds [E Hd]]]. rewrite E. unfold parse_full.
    rewrite parse_begin, (fields_begin d ds Hd). cbv beta iota.
    rewrite parse_begin, (fields_begin d ds Hd). reflexivity.
  - destruct (dec_shape x) as [d [ds [E Hd]]]. rewrite E. unfold parse_full.
    rewrite parse_commit, (fields_commit d ds Hd). cbv beta iota.
    rewrite parse_commit, (fields_commit d ds Hd). reflexivity.
  - exact (simple_dml (qualified ns rel) "INSERT" new (scan_qualified ns rel) eq_refl eq_refl Hwf).
  - simpl in Hwf. apply andb_prop in Hwf. destruct Hwf as [Hwo Hwn].
    destruct old as [o|].
    + exact (update_with_old (qualified ns rel) o new (scan_qualified ns rel) Hwo Hwn).
    + exact (simple_dml (qualified ns rel) "UPDATE" new (scan_qualified ns rel) eq_refl eq_refl Hwn).
  - exact (simple_dml (qualified ns rel) "DELETE" old (scan_qualified ns rel) eq_refl eq_refl Hwf).
  - unfold parse_full.
    pose proof (fun pre r => truncate_parse pre (print_rels rels) _ r (scan_rels rels) (flags_head rs ca)) as P.
    change ("table " +++ print_rels rels +++ ": TRUNCATE:" +++
            (if (rs || ca)%bool then (if rs then " restart_seqs" else "") +++ (if ca then " cascade" else "")
             else " (no-flags)"))
      with ("table " +++ print_rels rels +++ ": " +++ "TRUNCATE" +++ ":" +++
            (if (rs || ca)%bool then (if rs then " restart_seqs" else "") +++ (if ca then " cascade" else "")
             else " (no-flags)")).
    rewrite (P true empty_result). rewrite (P false _). reflexivity.
Qed.

(* ------------------------------------------------------------------------------------------ *)
(* every type name format_type_be can print satisfies the hypothesis [type_ok] *)

Lemma scan_builtin : forall w, str_all builtin_char w = true -> scan true type_stop MTop w = true.
Proof.
  induction w as [|c w IH]; [reflexivity|]. simpl str_all. intros H.
  apply andb_prop in H. destruct H as [Hc Hw]. unfold builtin_char in Hc.
  apply andb_prop in Hc. destruct Hc as [Hc H3]. apply andb_prop in Hc. destruct Hc as [H1 H2].
  apply negb_true_iff in H1, H2, H3.
  rewrite scan_cons. unfold type_stop. rewrite H2, H3, H1. simpl. apply IH, Hw.
Qed.

Lemma scan_arr : forall a : bool, scan true type_stop MTop (if a then "[]" else "") = true.
Proof. intros []; reflexivity. Qed.

Lemma arr_head : forall a : bool, head_byte (if a then "[]" else "") <> dq.
Proof. intros []; simpl; discriminate. Qed.

Lemma format_type_ok : forall t, pgtype_ok t = true -> type_ok (format_type t) = true.
Proof.
  intros [w a|a|[ns|] n a] H; unfold type_ok, format_type.
  - apply scan_app; [apply scan_builtin, H | apply arr_head | apply scan_arr].
  - destruct a; reflexivity.
  - apply scan_app; [apply scan_quote_ident; [exact type_stop_ident | reflexivity] | simpl; discriminate |].
    change ("." +++ quote_ident n +++ (if a then "[]" else ""))
      with (String "." (quote_ident n +++ (if a then "[]" else ""))).
    rewrite scan_cons. simpl.
    apply scan_app; [apply scan_quote_ident; [exact type_stop_ident | reflexivity] | apply arr_head | apply scan_arr].
  - apply scan_app; [apply scan_quote_ident; [exact type_stop_ident | reflexivity] | apply arr_head | apply scan_arr].
Qed.

(* ------------------------------------------------------------------------------------------ *)
(* [exp_cols] is the plain list of columns when the printed names are distinct *)

Lemma aset_fresh : forall (V : Type) k (v : V) m, ~ In k (map fst m) -> aset k v m = m ++ [(k, v)].
Proof.
  induction m as [|[k' v'] m IH]; simpl; intros H; [reflexivity|].
  destruct (String.eqb_spec k k') as [->|Hne]; [exfalso; apply H; now left|].
  rewrite IH; [reflexivity|]. intros Hin. apply H. now right.
Qed.

Definition col_entry (c : col) : string * colval := (quote_ident (c_name c), exp_colval c).

Lemma exp_cols_distinct : forall t m,
  NoDup (map fst m ++ map (fun c => quote_ident (c_name c)) t) ->
  exp_cols m t = m ++ map col_entry t.
Proof.
  induction t as [|c t IH]; intros m H; simpl; [now rewrite app_nil_r|].
  simpl in H. pose proof (NoDup_remove_2 _ _ _ H) as Hnot.
  rewrite aset_fresh by (intros Hin; apply Hnot, in_or_app; now left).
  rewrite IH.
  - rewrite <- app_assoc. reflexivity.
  - rewrite map_app. simpl. rewrite <- app_assoc. exact H.
Qed.
