(* JsonProofs.v -- lemmas about model/Json.v: the string escape round trip for every well-formed
   UTF-8 string, positional notation round trip in any base, the printer/parser round trip for the
   whole AST, and the facts about the encoder's key order that make a sorted Go map independent
   of the order in which its entries were produced. *)
From Bifrost.model Require Import Base Json.
From Coq Require Import ZifyN ZifyNat ZifyBool Permutation.

(* ---------- strings ---------- *)
Lemma append_assoc (a b c : string) : ((a ++ b) ++ c)%string = (a ++ (b ++ c))%string.
Proof. induction a; simpl; congruence. Qed.
Lemma append_nil_r (a : string) : (a ++ "")%string = a.
Proof. induction a; simpl; congruence. Qed.

Lemma esc_ascii_rt : forall c, lead_len c = 1 -> forall t,
  unescape (esc_ascii c ++ t) = opt_prepend (String c "") (unescape t).
Proof.
  intros c H t.
  destruct c as [b0 b1 b2 b3 b4 b5 b6 b7].
  destruct b7; [destruct b0,b1,b2,b3,b4,b5,b6; discriminate H|].
  destruct b0,b1,b2,b3,b4,b5,b6; try reflexivity.
Qed.

Inductive Utf8 : string -> Prop :=
| U0 : Utf8 ""
| U1 c s : lead_len c = 1 -> Utf8 s -> Utf8 (String c s)
| U2 c0 c1 s : lead_len c0 = 2 -> second_ok c0 c1 = true -> Utf8 s -> Utf8 (String c0 (String c1 s))
| U3 c0 c1 c2 s : lead_len c0 = 3 -> second_ok c0 c1 = true -> cont c2 = true -> Utf8 s ->
    Utf8 (String c0 (String c1 (String c2 s)))
| U4 c0 c1 c2 c3 s : lead_len c0 = 4 -> second_ok c0 c1 = true -> cont c2 = true -> cont c3 = true -> Utf8 s ->
    Utf8 (String c0 (String c1 (String c2 (String c3 s)))).

Lemma valid_utf8_Utf8_len : forall n s, String.length s <= n -> valid_utf8 s = true -> Utf8 s.
Proof.
  induction n as [|n IH]; intros s Hl Hv.
  - destruct s; [constructor|simpl in Hl; lia].
  - destruct s as [|c0 r0]; [constructor|].
    simpl in Hv. simpl in Hl.
    destruct (lead_len c0) as [|[|[|[|[|k]]]]] eqn:Hc; try discriminate.
    + apply U1; auto. apply IH; auto; lia.
    + destruct r0 as [|c1 r1]; [discriminate|]. apply andb_true_iff in Hv as [H1 H2].
      apply U2; auto. apply IH; auto. simpl in Hl; lia.
    + destruct r0 as [|c1 [|c2 r2]]; try discriminate.
      apply andb_true_iff in Hv as [Hv H3]. apply andb_true_iff in Hv as [H1 H2].
      apply U3; auto. apply IH; auto. simpl in Hl; lia.
    + destruct r0 as [|c1 [|c2 [|c3 r3]]]; try discriminate.
      apply andb_true_iff in Hv as [Hv H4]. apply andb_true_iff in Hv as [Hv H3]. apply andb_true_iff in Hv as [H1 H2].
      apply U4; auto. apply IH; auto. simpl in Hl; lia.
Qed.

Lemma valid_utf8_Utf8 s : valid_utf8 s = true -> Utf8 s.
Proof. apply (valid_utf8_Utf8_len (String.length s)); lia. Qed.

Lemma Utf8_valid s : Utf8 s -> valid_utf8 s = true.
Proof.
  induction 1; simpl; auto.
  - rewrite H; auto.
  - rewrite H, H0; auto.
  - rewrite H, H0, H1; auto.
  - rewrite H, H0, H1, H2; auto.
Qed.

(* the separators: concrete bytes *)
Lemma sep_kind_1 c0 c1 c2 : (sep_kind c0 c1 c2 =? 1)%N = true ->
  c0 = ascii_of_N 226 /\ c1 = ascii_of_N 128 /\ c2 = ascii_of_N 168.
Proof.
  unfold sep_kind, cN. intros H.
  destruct (N_of_ascii c0 =? 226)%N eqn:E0; [|discriminate].
  destruct (N_of_ascii c1 =? 128)%N eqn:E1; [|discriminate]. simpl in H.
  destruct (N_of_ascii c2 =? 168)%N eqn:E2; [|destruct (N_of_ascii c2 =? 169)%N; discriminate].
  apply N.eqb_eq in E0, E1, E2.
  rewrite <- (ascii_N_embedding c0), <- (ascii_N_embedding c1), <- (ascii_N_embedding c2), E0, E1, E2. auto.
Qed.
Lemma sep_kind_2 c0 c1 c2 : (sep_kind c0 c1 c2 =? 2)%N = true ->
  c0 = ascii_of_N 226 /\ c1 = ascii_of_N 128 /\ c2 = ascii_of_N 169.
Proof.
  unfold sep_kind, cN. intros H.
  destruct (N_of_ascii c0 =? 226)%N eqn:E0; [|discriminate].
  destruct (N_of_ascii c1 =? 128)%N eqn:E1; [|discriminate]. simpl in H.
  destruct (N_of_ascii c2 =? 168)%N eqn:E2; [discriminate|].
  destruct (N_of_ascii c2 =? 169)%N eqn:E3; [|discriminate].
  apply N.eqb_eq in E0, E1, E3.
  rewrite <- (ascii_N_embedding c0), <- (ascii_N_embedding c1), <- (ascii_N_embedding c2), E0, E1, E3. auto.
Qed.

Lemma opt_prepend_some p s rest : opt_prepend p (Some (s, rest)) = Some ((p ++ s)%string, rest).
Proof. reflexivity. Qed.

Theorem unescape_escape : forall s, Utf8 s -> forall rest,
  unescape (escape s ++ String c_dq rest) = Some (s, rest).
Proof.
  induction 1 as [|c s Hc Hs IH|c0 c1 s Hc H1 Hs IH|c0 c1 c2 s Hc H1 H2 Hs IH|c0 c1 c2 c3 s Hc H1 H2 H3 Hs IH]; intros rest.
  - reflexivity.
  - cbn [escape]. rewrite Hc. rewrite append_assoc, esc_ascii_rt by assumption. rewrite IH. reflexivity.
  - cbn [escape]. rewrite Hc, H1. cbn [append unescape]. rewrite Hc, H1, IH. reflexivity.
  - cbn [escape]. rewrite Hc, H1, H2. cbn [andb].
    destruct (sep_kind c0 c1 c2 =? 1)%N eqn:K1.
    { apply sep_kind_1 in K1 as (-> & -> & ->). rewrite append_assoc.
      change (unescape (u2028 ++ (escape s ++ String c_dq rest))) with
        (opt_prepend (String (ascii_of_N 226) (String (ascii_of_N 128) (String (ascii_of_N 168) ""))) (unescape (escape s ++ String c_dq rest))).
      rewrite IH. reflexivity. }
    destruct (sep_kind c0 c1 c2 =? 2)%N eqn:K2.
    { apply sep_kind_2 in K2 as (-> & -> & ->). rewrite append_assoc.
      change (unescape (u2029 ++ (escape s ++ String c_dq rest))) with
        (opt_prepend (String (ascii_of_N 226) (String (ascii_of_N 128) (String (ascii_of_N 169) ""))) (unescape (escape s ++ String c_dq rest))).
      rewrite IH. reflexivity. }
    cbn [append unescape]. rewrite Hc, H1, H2, IH. reflexivity.
  - cbn [escape]. rewrite Hc, H1, H2, H3. cbn [andb append unescape]. rewrite Hc, H1, H2, H3, IH. reflexivity.
Qed.

(* ---------- numbers ---------- *)
Lemma fuel_ok n : (n < 2 ^ N.of_nat (S (N.to_nat (N.log2 n))))%N.
Proof.
  rewrite Nat2N.inj_succ, N2Nat.id.
  destruct (N.eq_dec n 0) as [->|Hn]; [reflexivity|].
  apply N.log2_spec. lia.
Qed.

Section RadixShape.
  Variables (b : N) (dig : N -> ascii).
  Hypothesis Hb : (1 < b)%N.

  Lemma radix_fuel_app f : forall n acc rest,
    (radix_fuel b dig f n acc ++ rest)%string = radix_fuel b dig f n (acc ++ rest)%string.
  Proof using.
    induction f as [|f IH]; intros n acc rest; simpl; [reflexivity|].
    destruct (n <? b)%N; [reflexivity|]. rewrite IH. reflexivity.
  Qed.

  (* first digit *)
  Lemma radix_fuel_head : forall f n acc, (n < 2 ^ N.of_nat f)%N -> (0 < n)%N ->
    exists d r, (0 < d < b)%N /\ radix_fuel b dig f n acc = String (dig d) r.
  Proof using Hb.
    induction f as [|f IH]; intros n acc Hn Hpos.
    - simpl in Hn. lia.
    - simpl radix_fuel. destruct (n <? b)%N eqn:Hlt.
      + apply N.ltb_lt in Hlt. exists n, acc. rewrite N.mod_small by assumption. split; [lia|reflexivity].
      + apply N.ltb_ge in Hlt. apply IH.
        * rewrite Nat2N.inj_succ, N.pow_succ_r' in Hn. apply N.div_lt_upper_bound; [lia|]. nia.
        * apply N.div_str_pos. lia.
  Qed.

  Lemma radix_zero : radix b dig 0 = String (dig 0) "".
  Proof using Hb. unfold radix. simpl. destruct (0 <? b)%N eqn:E; [reflexivity|]. apply N.ltb_ge in E. lia. Qed.

  Lemma radix_fuel_nonempty f : forall n c acc, exists c' r, radix_fuel b dig f n (String c acc) = String c' r.
  Proof using.
    induction f as [|f IH]; intros n c acc; simpl; [eauto|].
    destruct (n <? b)%N; eauto.
  Qed.
  Lemma radix_nonempty n : exists c r, radix b dig n = String c r.
  Proof using.
    unfold radix. simpl. destruct (n <? b)%N; eauto. apply radix_fuel_nonempty.
  Qed.

  (* every character is a digit of the base *)
  Variable P : ascii -> bool.
  Hypothesis HP : forall d, (d < b)%N -> P (dig d) = true.
  Lemma radix_fuel_all f : forall n acc, all_chars P acc = true -> all_chars P (radix_fuel b dig f n acc) = true.
  Proof using Hb HP.
    induction f as [|f IH]; intros n acc Ha; simpl; [assumption|].
    assert (all_chars P (String (dig (n mod b)%N) acc) = true).
    { simpl. rewrite HP by (apply N.mod_lt; lia). assumption. }
    destruct (n <? b)%N; auto.
  Qed.
  Lemma radix_all n : all_chars P (radix b dig n) = true.
  Proof using Hb HP. apply radix_fuel_all. reflexivity. Qed.
End RadixShape.

Section RadixParse.
  Variables (b : N) (dig : N -> ascii) (dval : ascii -> option N).
  Hypothesis Hb : (1 < b)%N.
  Hypothesis Hdig : forall d, (d < b)%N -> dval (dig d) = Some d.

  Lemma radix_fuel_parse : forall f n acc, (n < 2 ^ N.of_nat f)%N ->
    exists p, (n < p)%N /\
      forall a, parse_radix b dval a (radix_fuel b dig f n acc) = parse_radix b dval (a * p + n)%N acc.
  Proof using Hb Hdig.
    induction f as [|f IH]; intros n acc Hn.
    - exists 1%N. simpl in Hn. split; [lia|]. intros a. simpl. f_equal. lia.
    - simpl radix_fuel. destruct (n <? b)%N eqn:Hlt.
      + apply N.ltb_lt in Hlt. exists b. split; [assumption|]. intros a. simpl.
        rewrite N.mod_small by assumption. rewrite Hdig by assumption. reflexivity.
      + apply N.ltb_ge in Hlt.
        assert (Hq : (n / b < 2 ^ N.of_nat f)%N).
        { rewrite Nat2N.inj_succ, N.pow_succ_r' in Hn.
          apply N.div_lt_upper_bound; [lia|]. nia. }
        destruct (IH (n / b)%N (String (dig (n mod b)%N) acc) Hq) as (p & Hp & Hpar).
        exists (p * b)%N. split.
        * pose proof (N.div_mod n b ltac:(lia)). pose proof (N.mod_lt n b ltac:(lia)). nia.
        * intros a. rewrite Hpar. simpl.
          rewrite Hdig by (apply N.mod_lt; lia). f_equal.
          pose proof (N.div_mod n b ltac:(lia)). nia.
  Qed.

  Definition nodig (s : string) : Prop :=
    match s with "" => True | String c _ => dval c = None end.

  Lemma parse_radix_stop a s : nodig s -> parse_radix b dval a s = (a, s).
  Proof using. destruct s; simpl; [reflexivity|]. intros ->. reflexivity. Qed.

  Theorem parse_nat_radix n rest : nodig rest ->
    parse_nat b dval (radix b dig n ++ rest) = Some (n, rest).
  Proof using Hb Hdig.
    intros Hr. destruct (N.eq_dec n 0) as [->|Hn].
    - rewrite radix_zero by assumption. simpl. rewrite Hdig by lia. simpl.
      destruct rest as [|c r]; [reflexivity|]. simpl in Hr. rewrite Hr. reflexivity.
    - unfold radix. rewrite radix_fuel_app. simpl append.
      destruct (radix_fuel_head b dig Hb _ n rest (fuel_ok n) ltac:(lia)) as (d & r & Hd & Heq).
      destruct (radix_fuel_parse _ n rest (fuel_ok n)) as (p & Hp & Hpar).
      unfold parse_nat. rewrite Heq. rewrite Hdig by lia.
      replace (d =? 0)%N with false by lia.
      rewrite <- Heq. rewrite Hpar. simpl. rewrite parse_radix_stop by assumption. reflexivity.
  Qed.
End RadixParse.

(* ---------- decimal integers ---------- *)
Lemma cN_ascii n : (n < 256)%N -> cN (ascii_of_N n) = n.
Proof. apply N_ascii_embedding. Qed.

Lemma dval10_digit d : (d < 10)%N -> dval10 (digit d) = Some d.
Proof.
  intros H. unfold dval10, digit. rewrite cN_ascii by lia.
  replace ((48 <=? 48 + d) && (48 + d <=? 57))%N with true by lia. f_equal. lia.
Qed.

Definition nodigit (s : string) : Prop := nodig dval10 s.

Lemma parse_int_jdecZ z rest : nodigit rest -> parse_int (jdecZ z ++ rest) = Some (z, rest).
Proof.
  intros Hr. unfold jdecZ. destruct (z <? 0)%Z eqn:Hz.
  - simpl. unfold decN. rewrite (parse_nat_radix 10 digit dval10 ltac:(lia) dval10_digit) by assumption.
    f_equal. f_equal. lia.
  - unfold decN.
    destruct (radix_nonempty 10 digit (Z.to_N z)) as (c & r & Hc).
    assert (Hne : c <> "-"%char).
    { destruct (N.eq_dec (Z.to_N z) 0) as [E|E].
      - rewrite E, (radix_zero 10 digit) in Hc by lia. inversion Hc. discriminate.
      - destruct (radix_fuel_head 10 digit ltac:(lia) _ (Z.to_N z) "" (fuel_ok (Z.to_N z)) ltac:(lia)) as (d & r' & Hd & Heq).
        unfold radix in Hc. rewrite Heq in Hc. inversion Hc; subst c.
        intros Hx. assert (cN (digit d) = cN "-"%char) by (rewrite Hx; reflexivity).
        unfold digit in H. rewrite cN_ascii in H by lia. change (cN "-"%char) with 45%N in H. lia. }
    unfold parse_int. rewrite Hc. simpl append.
    destruct c as [b0 b1 b2 b3 b4 b5 b6 b7].
    assert (Hgo : match parse_nat 10 dval10 (String (Ascii b0 b1 b2 b3 b4 b5 b6 b7) (r ++ rest)) with
                  | Some (n, r') => Some (Z.of_N n, r') | None => None end = Some (z, rest)).
    { change (String (Ascii b0 b1 b2 b3 b4 b5 b6 b7) (r ++ rest)) with (String (Ascii b0 b1 b2 b3 b4 b5 b6 b7) r ++ rest)%string.
      rewrite <- Hc. rewrite (parse_nat_radix 10 digit dval10 ltac:(lia) dval10_digit) by assumption.
      f_equal. f_equal. lia. }
    destruct b0, b1, b2, b3, b4, b5, b6, b7; try exact Hgo. elim Hne. reflexivity.
Qed.

(* ---------- the AST ---------- *)
Section JsonInd.
  Variable P : json -> Prop.
  Hypothesis HS : forall s, P (JStr s).
  Hypothesis HI : forall z, P (JInt z).
  Hypothesis HO : forall kvs, Forall (fun kv => P (snd kv)) kvs -> P (JObj kvs).
  Fixpoint json_ind' (j : json) : P j :=
    match j with
    | JStr s => HS s
    | JInt z => HI z
    | JObj kvs => HO kvs ((fix go (l : list (string * json)) : Forall (fun kv => P (snd kv)) l :=
                             match l with
                             | [] => Forall_nil _
                             | kv :: r => Forall_cons kv (json_ind' (snd kv)) (go r)
                             end) kvs)
    end.
End JsonInd.

(* all strings of a value (keys and leaves) are well-formed UTF-8 *)
Inductive JWf : json -> Prop :=
| WfStr s : Utf8 s -> JWf (JStr s)
| WfInt z : JWf (JInt z)
| WfObj kvs : Forall (fun kv => Utf8 (fst kv) /\ JWf (snd kv)) kvs -> JWf (JObj kvs).

Fixpoint print_members (l : list (string * json)) : string :=
  match l with
  | [] => ""
  | (k, v) :: r =>
    (quote k ++ String ":" (print v ++ match r with [] => "" | _ => String "," (print_members r) end))%string
  end.

Lemma print_obj kvs : print (JObj kvs) = String "{" (print_members kvs ++ "}")%string.
Proof. reflexivity. Qed.

Fixpoint jsize (j : json) : nat :=
  match j with
  | JObj kvs => S ((fix go (l : list (string * json)) : nat :=
                      match l with [] => 0 | kv :: r => S (jsize (snd kv)) + go r end) kvs)
  | _ => 1
  end.
Fixpoint msize (l : list (string * json)) : nat :=
  match l with [] => 0 | kv :: r => S (jsize (snd kv)) + msize r end.
Lemma jsize_obj kvs : jsize (JObj kvs) = S (msize kvs).
Proof. reflexivity. Qed.

Definition RT (v : json) : Prop :=
  forall fuel rest, jsize v < fuel -> nodigit rest -> parse_value fuel (print v ++ rest) = Some (v, rest).

Lemma append_cons c x y : (String c x ++ y)%string = String c (x ++ y)%string.
Proof. reflexivity. Qed.

Lemma quote_app k t : (quote k ++ t)%string = String c_dq (escape k ++ String c_dq t).
Proof. unfold quote. simpl. rewrite append_assoc. reflexivity. Qed.

Lemma parse_members_print : forall kvs, kvs <> [] ->
  Forall (fun kv => Utf8 (fst kv)) kvs -> Forall (fun kv => RT (snd kv)) kvs ->
  forall f g rest, List.length kvs <= g -> msize kvs <= f ->
  parse_members (parse_value f) g (print_members kvs ++ String "}" rest) = Some (kvs, rest).
Proof.
  induction kvs as [|[k v] r IH]; intros Hne Hk Hv f g rest Hg Hf; [congruence|].
  inversion Hk as [|? ? Hk1 Hk2]; subst. inversion Hv as [|? ? Hv1 Hv2]; subst. simpl in Hk1, Hv1.
  destruct g as [|g]; [simpl in Hg; lia|].
  cbn [print_members]. rewrite append_assoc, quote_app. cbn [parse_members].
  change (cN c_dq =? 34)%N with true. cbv iota.
  rewrite unescape_escape by assumption.
  rewrite append_cons. change (cN ":" =? 58)%N with true. cbv iota.
  simpl in Hf. rewrite append_assoc.
  destruct r as [|kv2 r2].
  - change ("" ++ String "}" rest)%string with (String "}" rest).
    rewrite (Hv1 f (String "}" rest)) by (simpl; auto; lia).
    change (cN "}" =? 44)%N with false. change (cN "}" =? 125)%N with true. reflexivity.
  - rewrite append_cons.
    rewrite (Hv1 f) by (simpl; auto; lia).
    change (cN "," =? 44)%N with true. cbv iota.
    rewrite (IH ltac:(discriminate) Hk2 Hv2 f g rest) by (simpl in *; lia). reflexivity.
Qed.

Lemma head_jdecZ z : exists c r, jdecZ z = String c r /\ (cN c =? 34)%N = false /\ (cN c =? 123)%N = false.
Proof.
  unfold jdecZ. destruct (z <? 0)%Z; [eexists _, _; split; [reflexivity|split; reflexivity]|].
  set (n := Z.to_N z). unfold decN.
  destruct (N.eq_dec n 0) as [E|E].
  - rewrite E, (radix_zero 10 digit) by lia. eexists _, _; split; [reflexivity|split; reflexivity].
  - destruct (radix_fuel_head 10 digit ltac:(lia) _ n "" (fuel_ok n) ltac:(lia)) as (d & r' & Hd & Heq).
    unfold radix. rewrite Heq. eexists _, _; split; [reflexivity|].
    unfold digit. rewrite cN_ascii by lia. split; lia.
Qed.

Theorem parse_print_gen : forall j, JWf j -> RT j.
Proof.
  induction j as [s|z|kvs IH] using json_ind'; intros Hwf fuel rest Hfuel Hrest.
  - inversion Hwf; subst. destruct fuel; [simpl in Hfuel; lia|].
    cbn [print]. rewrite quote_app. cbn [parse_value].
    change (cN c_dq =? 34)%N with true. cbv iota.
    rewrite unescape_escape by assumption. reflexivity.
  - destruct fuel; [simpl in Hfuel; lia|].
    cbn [print]. destruct (head_jdecZ z) as (c & r & Hc & H1 & H2).
    rewrite Hc, append_cons. cbn [parse_value]. rewrite H1, H2.
    rewrite <- append_cons, <- Hc, parse_int_jdecZ by assumption. reflexivity.
  - inversion Hwf as [| |? Hall]; subst.
    destruct fuel as [|f]; [lia|]. rewrite jsize_obj in Hfuel.
    rewrite print_obj, append_cons. cbn [parse_value].
    change (cN "{" =? 34)%N with false. change (cN "{" =? 123)%N with true. cbv iota.
    destruct kvs as [|[k v] r].
    + reflexivity.
    + assert (Hk : Forall (fun kv => Utf8 (fst kv)) ((k, v) :: r)).
      { eapply Forall_impl; [|exact Hall]. intros ? [? ?]; assumption. }
      assert (Hv : Forall (fun kv => RT (snd kv)) ((k, v) :: r)).
      { rewrite Forall_forall in *. intros kv Hin. apply IH; auto. apply Hall; auto. }
      assert (Hlen : List.length ((k, v) :: r) <= msize ((k, v) :: r)).
      { clear. induction ((k, v) :: r) as [|? ? IHl]; simpl; lia. }
      pose proof (parse_members_print ((k, v) :: r) ltac:(discriminate) Hk Hv f f rest ltac:(lia) ltac:(lia)) as Hpm.
      rewrite append_assoc. change ("}" ++ rest)%string with (String "}" rest).
      remember (print_members ((k, v) :: r) ++ String "}" rest)%string as txt eqn:Htxt.
      assert (Hhd : exists t, txt = String c_dq t).
      { subst txt. cbn [print_members]. rewrite append_assoc, quote_app. eauto. }
      destruct Hhd as (t & Ht). rewrite Ht.
      change (cN c_dq =? 125)%N with false. cbv iota.
      rewrite <- Ht, Hpm. reflexivity.
Qed.

Lemma length_append (a b : string) : String.length (a ++ b) = String.length a + String.length b.
Proof. induction a; simpl; auto. Qed.

Lemma jsize_le_print : forall j, jsize j <= String.length (print j).
Proof.
  induction j as [s|z|kvs IH] using json_ind'.
  - simpl. lia.
  - simpl. destruct (head_jdecZ z) as (c & r & -> & _). simpl. lia.
  - rewrite jsize_obj, print_obj. simpl String.length. rewrite length_append. simpl.
    assert (msize kvs <= String.length (print_members kvs)); [|lia].
    induction IH as [|[k v] r Hv Hr IHr]; simpl; [lia|].
    rewrite !length_append. simpl in *. destruct r; simpl in *; try rewrite !length_append; simpl; lia.
Qed.

Theorem json_parse_print : forall j, JWf j -> json_parse (print j) = Some j.
Proof.
  intros j Hwf. unfold json_parse.
  pose proof (parse_print_gen j Hwf (S (String.length (print j))) "") as H.
  rewrite append_nil_r in H. rewrite H; [reflexivity| |exact I].
  pose proof (jsize_le_print j). lia.
Qed.

(* ---------- the encoder's key order ---------- *)
Lemma string_leb_trans : forall a b c, String.leb a b = true -> String.leb b c = true -> String.leb a c = true.
Proof.
  unfold String.leb.
  induction a as [|x a IH]; intros [|y b] [|z c]; simpl; try easy.
  unfold Ascii.compare.
  destruct (N.compare_spec (N_of_ascii x) (N_of_ascii y)) as [E1|L1|G1];
  destruct (N.compare_spec (N_of_ascii y) (N_of_ascii z)) as [E2|L2|G2];
  destruct (N.compare_spec (N_of_ascii x) (N_of_ascii z)) as [E3|L3|G3]; try easy; try lia.
  apply IH.
Qed.

Lemma kle_total a b : kle a b = true \/ kle b a = true.
Proof. apply String.leb_total. Qed.
Lemma kle_trans a b c : kle a b = true -> kle b c = true -> kle a c = true.
Proof. apply string_leb_trans. Qed.
Lemma kle_antisym a b : kle a b = true -> kle b a = true -> skey a = skey b.
Proof. apply String.leb_antisym. Qed.

Section SortFacts.
  Context {V : Type}.
  Implicit Types (x y : string * V) (l : list (string * V)).

  Lemma insert_kv_perm x l : Permutation (insert_kv x l) (x :: l).
  Proof.
    induction l as [|y l IH]; simpl; [reflexivity|].
    destruct (kle (fst x) (fst y)); [reflexivity|].
    rewrite IH. apply perm_swap.
  Qed.
  Lemma sort_kv_perm l : Permutation (sort_kv l) l.
  Proof.
    induction l as [|x l IH]; simpl; [reflexivity|].
    rewrite insert_kv_perm. constructor. assumption.
  Qed.
  Lemma sort_kv_in p l : In p (sort_kv l) <-> In p l.
  Proof. split; apply Permutation_in; [|symmetry]; apply sort_kv_perm. Qed.

  Lemma insert_kv_comm x y l : skey (fst x) <> skey (fst y) ->
    insert_kv x (insert_kv y l) = insert_kv y (insert_kv x l).
  Proof.
    intros Hne. induction l as [|z l IH]; simpl.
    - destruct (kle (fst x) (fst y)) eqn:Exy, (kle (fst y) (fst x)) eqn:Eyx; simpl; try reflexivity.
      + elim Hne. apply kle_antisym; assumption.
      + destruct (kle_total (fst x) (fst y)); congruence.
    - destruct (kle (fst x) (fst z)) eqn:Exz, (kle (fst y) (fst z)) eqn:Eyz; simpl;
        rewrite ?Exz, ?Eyz.
      + destruct (kle (fst x) (fst y)) eqn:Exy, (kle (fst y) (fst x)) eqn:Eyx; simpl; rewrite ?Exz, ?Eyz; try reflexivity.
        * elim Hne. apply kle_antisym; assumption.
        * destruct (kle_total (fst x) (fst y)); congruence.
      + (* x <= z, not y <= z: then not y <= x *)
        destruct (kle (fst y) (fst x)) eqn:Eyx.
        * rewrite (kle_trans _ _ _ Eyx Exz) in Eyz. discriminate.
        * reflexivity.
      + destruct (kle (fst x) (fst y)) eqn:Exy.
        * rewrite (kle_trans _ _ _ Exy Eyz) in Exz. discriminate.
        * reflexivity.
      + rewrite IH. reflexivity.
  Qed.

  Definition skeys l := map (fun kv => skey (fst kv)) l.

  (* a sorted Go map does not remember the order in which its entries were produced *)
  Theorem sort_kv_permutation l l' : Permutation l l' -> NoDup (skeys l) -> sort_kv l = sort_kv l'.
  Proof.
    induction 1 as [|x l l' Hp IH|x y l|l l' l'' Hp1 IH1 Hp2 IH2]; intros Hnd.
    - reflexivity.
    - simpl. rewrite IH; [reflexivity|]. inversion Hnd; assumption.
    - simpl. apply insert_kv_comm. inversion Hnd as [|? ? Hni _]; subst. intros E. apply Hni. left. symmetry. exact E.
    - rewrite IH1 by assumption. apply IH2.
      eapply Permutation_NoDup; [|exact Hnd]. unfold skeys. apply Permutation_map. assumption.
  Qed.
End SortFacts.

Lemma mapv_in {V W} (f : V -> W) (l : list (string * V)) k w :
  In (k, w) (mapv f l) <-> exists v, In (k, v) l /\ w = f v.
Proof.
  unfold mapv. rewrite in_map_iff. split.
  - intros ([k' v] & E & Hin). inversion E; subst. eauto.
  - intros (v & Hin & ->). exists (k, v). auto.
Qed.

Lemma mapv_aset {V W} (f : V -> W) k v (l : list (string * V)) :
  mapv f (aset k v l) = aset k (f v) (mapv f l).
Proof.
  induction l as [|[k' v'] l IH]; simpl; [reflexivity|].
  destruct (String.eqb k k'); simpl; [reflexivity|]. rewrite IH. reflexivity.
Qed.

(* the escaped form determines a well-formed string, so distinct keys sort apart *)
Lemma escape_inj a b : Utf8 a -> Utf8 b -> escape a = escape b -> a = b.
Proof.
  intros Ha Hb E.
  pose proof (unescape_escape a Ha "") as H1. pose proof (unescape_escape b Hb "") as H2.
  rewrite E in H1. rewrite H1 in H2. inversion H2. reflexivity.
Qed.

Lemma skey_inj a b : Utf8 a -> Utf8 b -> skey a = skey b -> a = b.
Proof.
  unfold skey, quote. intros Ha Hb E. simpl in E. inversion E as [E'].
  rewrite !append_assoc in E'.
  pose proof (unescape_escape a Ha ("" ++ ",")%string) as H1. pose proof (unescape_escape b Hb ("" ++ ",")%string) as H2.
  simpl in H1, H2, E'. rewrite E' in H1. rewrite H1 in H2. inversion H2. reflexivity.
Qed.
