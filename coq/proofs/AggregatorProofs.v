(* AggregatorProofs.v — lemmas about model/Aggregator.v (property C19). *)
From Bifrost.model Require Import Base Aggregator.
From Bifrost.proofs Require Import PartitionProofs.   (* dec_injective *)
From Coq Require Import Permutation.
Open Scope Z_scope.

(* ================= generic facts ================= *)
#[local] Arguments sum_Z _ : simpl never.
Lemma sum_Z_cons x l : sum_Z (x :: l) = x + sum_Z l.
Proof. reflexivity. Qed.

Lemma sum_Z_app l1 l2 : sum_Z (l1 ++ l2) = sum_Z l1 + sum_Z l2.
Proof. induction l1 as [|x l1 IH]; simpl; [reflexivity|]. rewrite !sum_Z_cons, IH. lia. Qed.

Lemma sum_Z_map_ext {A} (f g : A -> Z) l :
  (forall x, In x l -> f x = g x) -> sum_Z (map f l) = sum_Z (map g l).
Proof.
  induction l as [|x l IH]; intros H; simpl; [reflexivity|].
  rewrite !sum_Z_cons, (H x (or_introl eq_refl)), IH; [reflexivity|].
  intros y Hy; apply H; now right.
Qed.

Lemma sum_Z_map_zero {A} (f : A -> Z) l : (forall x, In x l -> f x = 0) -> sum_Z (map f l) = 0.
Proof.
  induction l as [|x l IH]; intros H; simpl; [reflexivity|].
  rewrite sum_Z_cons, (H x (or_introl eq_refl)), IH; [reflexivity|]. intros y Hy; apply H; now right.
Qed.

Lemma sum_Z_flat_map {A B} (f : A -> list B) (g : B -> Z) l :
  sum_Z (map g (flat_map f l)) = sum_Z (map (fun a => sum_Z (map g (f a))) l).
Proof.
  induction l as [|x l IH]; simpl; [reflexivity|].
  rewrite map_app, sum_Z_app, sum_Z_cons, IH. reflexivity.
Qed.

(* ================= what is summed ================= *)
Definition hits (w bt : Z) (k : string) (s : stat) : bool :=
  (bt =? bucket_time w (s_ts s)) && String.eqb k (akey s).

Definition bsum (k : string) (m : bucket) : Z :=
  sum_Z (map (fun p => if String.eqb k (fst p) then a_value (snd p) else 0) m).
(* value currently open for (bucket bt, key k) *)
Definition open_sum (bt : Z) (k : string) (st : buckets) : Z :=
  sum_Z (map (fun b => if bt =? fst b then bsum k (snd b) else 0) st).
Definition esum (bt : Z) (k : string) (r : list entry) : Z :=
  sum_Z (map (fun e : entry => if (bt =? fst (fst e)) && String.eqb k (snd (fst e))
                               then a_value (snd e) else 0) r).
(* value of the main stat of every report of (bt, k), over ALL scans of the run *)
Definition rep_sum (bt : Z) (k : string) (outs : list out) : Z :=
  sum_Z (map (fun o => match o with OReport r => esum bt k r | _ => 0 end) outs).
(* values that passed the check and were inserted for (bt, k) *)
Definition ins_sum (w bt : Z) (k : string) (evs : list ev) : Z :=
  sum_Z (map (fun e => match e with Insert s => if hits w bt k s then s_value s else 0 | _ => 0 end) evs).

Lemma update_value a s : a_value (update a s) = a_value a + s_value s.
Proof. unfold update. destruct (String.eqb (a_type a) ty_hist); reflexivity. Qed.
Lemma update_count a s : a_count (update a s) = a_count a + 1.
Proof. unfold update. destruct (String.eqb (a_type a) ty_hist); reflexivity. Qed.
Lemma update_ts a s : a_ts (update a s) = a_ts a.
Proof. unfold update. destruct (String.eqb (a_type a) ty_hist); reflexivity. Qed.
Lemma update_type a s : a_type (update a s) = a_type a.
Proof. unfold update. destruct (String.eqb (a_type a) ty_hist); reflexivity. Qed.
Lemma update_comp a s : a_comp (update a s) = a_comp a.
Proof. unfold update. destruct (String.eqb (a_type a) ty_hist); reflexivity. Qed.
Lemma update_name a s : a_name (update a s) = a_name a.
Proof. unfold update. destruct (String.eqb (a_type a) ty_hist); reflexivity. Qed.
Lemma update_unit a s : a_unit (update a s) = a_unit a.
Proof. unfold update. destruct (String.eqb (a_type a) ty_hist); reflexivity. Qed.

Lemma aget_none_bsum k m : aget k m = None -> bsum k m = 0.
Proof.
  unfold bsum. induction m as [|[k' a] m IH]; simpl; [reflexivity|].
  destruct (String.eqb k k'); [discriminate|]. intros H. rewrite sum_Z_cons, IH; auto.
Qed.

Lemma bsum_aset k' k a' m :
  bsum k' (aset k a' m) =
  bsum k' m + (if String.eqb k' k
               then a_value a' - match aget k m with Some a => a_value a | None => 0 end else 0).
Proof.
  unfold bsum. induction m as [|[k1 a1] m IH]; simpl.
  - rewrite !sum_Z_cons. simpl. unfold sum_Z; simpl. destruct (String.eqb k' k); lia.
  - destruct (String.eqb_spec k k1) as [->|Hne]; simpl; rewrite !sum_Z_cons; simpl.
    + destruct (String.eqb k' k1); lia.
    + rewrite IH. lia.
Qed.

Lemma osum_zset bt' bt k m' st :
  open_sum bt' k (zset bt m' st) =
  open_sum bt' k st + (if bt' =? bt
                       then bsum k m' - match zget bt st with Some m => bsum k m | None => 0 end else 0).
Proof.
  unfold open_sum. induction st as [|[b1 m1] st IH]; simpl.
  - rewrite !sum_Z_cons. simpl. unfold sum_Z; simpl. destruct (bt' =? bt); lia.
  - destruct (Z.eqb_spec bt b1) as [->|Hne]; simpl; rewrite !sum_Z_cons; simpl.
    + destruct (bt' =? b1); lia.
    + rewrite IH. lia.
Qed.

(* an Insert changes exactly one (bucket, key) cell, by exactly the stat's value *)
Lemma insert_open_sum w s st bt k :
  open_sum bt k (fst (insert w s st)) =
  open_sum bt k st + (if hits w bt k s then s_value s else 0).
Proof.
  unfold insert, hits.
  set (b := bucket_time w (s_ts s)). set (ky := akey s).
  destruct (zget b st) as [m|] eqn:Hz; simpl.
  - destruct (aget ky m) as [a|] eqn:Ha; simpl; rewrite osum_zset, Hz, bsum_aset, Ha.
    + rewrite update_value. destruct (bt =? b), (String.eqb k ky); simpl; lia.
    + rewrite update_value. simpl. destruct (bt =? b), (String.eqb k ky); simpl; lia.
  - rewrite osum_zset, Hz. unfold bsum at 1. simpl. rewrite sum_Z_cons. simpl.
    rewrite update_value. simpl. unfold sum_Z; simpl.
    destruct (bt =? b), (String.eqb k ky); simpl; lia.
Qed.

Lemma esum_app bt k r1 r2 : esum bt k (r1 ++ r2) = esum bt k r1 + esum bt k r2.
Proof. unfold esum. now rewrite map_app, sum_Z_app. Qed.

Lemma esum_entries_of bt k b :
  esum bt k (entries_of b) = if bt =? fst b then bsum k (snd b) else 0.
Proof.
  destruct b as [b0 m]. unfold entries_of, esum, bsum. simpl. rewrite map_map. simpl.
  destruct (bt =? b0); simpl.
  - reflexivity.
  - apply sum_Z_map_zero. reflexivity.
Qed.

Lemma open_sum_entries bt k st : open_sum bt k st = esum bt k (open_entries st).
Proof.
  unfold open_sum, open_entries. induction st as [|b st IH]; simpl; [reflexivity|].
  rewrite sum_Z_cons, esum_app, esum_entries_of, IH. reflexivity.
Qed.

(* a Scan moves value from "open" to "reported" and loses nothing *)
Lemma scan_split w now st bt k :
  open_sum bt k st = esum bt k (scan_report w now st) + open_sum bt k (scan_keep w now st).
Proof.
  unfold scan_report, scan_keep, open_sum. induction st as [|b st IH]; simpl; [reflexivity|].
  rewrite sum_Z_cons, IH. destruct (expired w (fst b) now); simpl.
  - rewrite esum_app, esum_entries_of. lia.
  - rewrite sum_Z_cons. lia.
Qed.

(* ---- conservation per (bucket, key): every history, well-formed or not, from every state ---- *)
Lemma conservation_from w bt k : forall evs st st' outs,
  arun w st evs = (st', outs, false) ->
  rep_sum bt k outs + open_sum bt k st' = open_sum bt k st + ins_sum w bt k evs.
Proof.
  induction evs as [|e evs IH]; intros st st' outs H; simpl in H.
  - inversion H; subst. unfold rep_sum, ins_sum, sum_Z; simpl. lia.
  - destruct (astep w st e) as [[st1 o] p] eqn:Hs.
    destruct p; [inversion H|].
    destruct (arun w st1 evs) as [[st2 os] p2] eqn:Hr. inversion H; subst; clear H.
    specialize (IH _ _ _ Hr).
    unfold rep_sum, ins_sum in *. simpl. rewrite !sum_Z_cons.
    destruct e as [s now|s|now]; simpl in Hs.
    + destruct (w =? 0); [inversion Hs|].
      destruct (expired w (bucket_time w (s_ts s)) now); inversion Hs; subst; lia.
    + destruct (insert w s st) as [sti pi] eqn:Hi.
      destruct pi; inversion Hs; subst.
      pose proof (insert_open_sum w s st bt k) as Hx. rewrite Hi in Hx. simpl in Hx. lia.
    + destruct (scan_panics w now st); inversion Hs; subst.
      pose proof (scan_split w now st bt k). lia.
Qed.

Theorem conservation_by_key : forall w evs st outs bt k,
  arun w [] evs = (st, outs, false) ->
  rep_sum bt k outs + open_sum bt k st = ins_sum w bt k evs.
Proof.
  intros w evs st outs bt k H. pose proof (conservation_from w bt k _ _ _ _ H) as Hc.
  change (open_sum bt k []) with 0 in Hc. lia.
Qed.

(* ================= windows ================= *)
(* Go's truncating division is the floor on the property's domain (UnixNano >= 0, window > 0):
   the bucket of a stat is the start of the one window that contains its timestamp *)
Lemma bucket_time_floor w ts : 0 < w -> 0 <= ts ->
  bucket_time w ts = w * (ts / w) /\ bucket_time w ts <= ts < bucket_time w ts + w.
Proof.
  intros Hw Hts. unfold bucket_time. rewrite Z.quot_div_nonneg by lia. split; [reflexivity|].
  pose proof (Z.mul_div_le ts w Hw). pose proof (Z.mul_succ_div_gt ts w Hw). lia.
Qed.

Lemma bucket_time_unique w ts b : 0 < w -> 0 <= ts ->
  (exists q, b = w * q) -> b <= ts < b + w -> b = bucket_time w ts.
Proof.
  intros Hw Hts [q ->] Hb. destruct (bucket_time_floor w ts Hw Hts) as [-> _].
  f_equal. apply Z.div_unique with (r := ts - w * q); lia.
Qed.

(* what happens below zero (outside the domain): the window around 0 has double width *)
Lemma bucket_time_negative w ts : 0 < w -> - w < ts < 0 -> bucket_time w ts = 0.
Proof.
  intros Hw Hts. unfold bucket_time.
  replace ts with (- (- ts)) by lia. rewrite Z.quot_opp_l by lia.
  rewrite Z.quot_small by lia. lia.
Qed.

Lemma expired_mono w bt now now' : now <= now' -> expired w bt now = true -> expired w bt now' = true.
Proof. unfold expired. intros H H1. apply Z.ltb_lt in H1. apply Z.ltb_lt. lia. Qed.

(* ================= the Check decides by the clock reading alone ================= *)
Lemma check_outcome w : forall evs st st' outs p i s now,
  arun w st evs = (st', outs, p) ->
  nth_error evs i = Some (Check s now) ->
  (nth_error outs i = Some ODrop -> expired w (bucket_time w (s_ts s)) now = true) /\
  (nth_error outs i = Some OPass -> expired w (bucket_time w (s_ts s)) now = false).
Proof.
  induction evs as [|e evs IH]; intros st st' outs p i s now H Hn.
  - destruct i; discriminate.
  - simpl in H. destruct (astep w st e) as [[st1 o] p1] eqn:Hs.
    destruct i as [|i]; simpl in Hn.
    + inversion Hn; subst e. simpl in Hs.
      destruct (w =? 0).
      { inversion Hs; subst. inversion H; subst. simpl. split; discriminate. }
      destruct (expired w (bucket_time w (s_ts s)) now) eqn:He; inversion Hs; subst;
        destruct (arun w st1 evs) as [[st2 os] p2]; inversion H; subst; simpl;
        split; intros Hx; inversion Hx; reflexivity.
    + destruct p1.
      * inversion H; subst. simpl. destruct i; split; discriminate.
      * destruct (arun w st1 evs) as [[st2 os] p2] eqn:Hr. inversion H; subst. simpl.
        eapply IH; eauto.
Qed.

(* ================= well-formed histories: every recorded stat is inserted once or dropped ================= *)
Definition recorded (evs : list ev) : list stat :=
  flat_map (fun e => match e with Check s _ => [s] | _ => [] end) evs.
Definition inserted (evs : list ev) : list stat :=
  flat_map (fun e => match e with Insert s => [s] | _ => [] end) evs.
Definition dropped (w : Z) (evs : list ev) : list stat :=
  flat_map (fun e => match e with Check s now => if drops w s now then [s] else [] | _ => [] end) evs.
Definition optl {A} (o : option A) : list A := match o with Some x => [x] | None => [] end.

Lemma stat_eqb_eq a b : stat_eqb a b = true -> a = b.
Proof.
  destruct a, b. unfold stat_eqb. simpl. intros H.
  repeat (apply andb_true_iff in H; destruct H as [H ?]).
  apply String.eqb_eq in H.
  repeat match goal with
         | X : String.eqb _ _ = true |- _ => apply String.eqb_eq in X
         | X : (_ =? _) = true |- _ => apply Z.eqb_eq in X
         end.
  subst. reflexivity.
Qed.

Lemma wf_partition w : forall evs pend last,
  wf_from w pend last evs = true ->
  Permutation (optl pend ++ recorded evs)
              (inserted evs ++ dropped w evs ++ optl (pending_from w pend evs)).
Proof.
  induction evs as [|e evs IH]; intros pend last H.
  - simpl. rewrite app_nil_r. apply Permutation_refl.
  - destruct e as [s now|s|now]; simpl in H.
    + destruct pend; [discriminate|]. apply andb_true_iff in H. destruct H as [_ H].
      specialize (IH _ _ H). simpl.
      unfold recorded, inserted, dropped in *. simpl.
      destruct (drops w s now); simpl in *.
      * apply Permutation_cons_app. exact IH.
      * exact IH.
    + destruct pend as [s'|]; [|discriminate]. apply andb_true_iff in H. destruct H as [He H].
      apply stat_eqb_eq in He. subst s'. specialize (IH _ _ H).
      unfold recorded, inserted, dropped in *. simpl in *. apply perm_skip. exact IH.
    + apply andb_true_iff in H. destruct H as [_ H]. specialize (IH _ _ H).
      unfold recorded, inserted, dropped in *. simpl in *. exact IH.
Qed.

Theorem recorded_partition w evs :
  wf w evs = true ->
  Permutation (recorded evs) (inserted evs ++ dropped w evs ++ optl (pending_from w None evs)).
Proof.
  intros H. destruct evs as [|e evs]; [simpl; constructor|].
  destruct e as [s now|s|now].
  - exact (wf_partition w _ None now H).
  - discriminate H.
  - exact (wf_partition w _ None now H).
Qed.

(* readings of a well-formed history never decrease *)
Definition readings (evs : list ev) : list Z :=
  flat_map (fun e => match e with Check _ n => [n] | Scan n => [n] | Insert _ => [] end) evs.
Fixpoint nondecr_from (last : Z) (l : list Z) : Prop :=
  match l with [] => True | x :: r => last <= x /\ nondecr_from x r end.
Lemma wf_clock w : forall evs pend last, wf_from w pend last evs = true -> nondecr_from last (readings evs).
Proof.
  induction evs as [|e evs IH]; intros pend last H; simpl; [exact I|].
  destruct e as [s now|s|now]; simpl in *.
  - destruct pend; [discriminate|]. apply andb_true_iff in H. destruct H as [H1 H].
    apply Z.leb_le in H1. split; [assumption|]. eapply IH; eauto.
  - destruct pend; [|discriminate]. apply andb_true_iff in H. destruct H as [_ H]. eapply IH; eauto.
  - apply andb_true_iff in H. destruct H as [H1 H]. apply Z.leb_le in H1. split; [assumption|]. eapply IH; eauto.
Qed.

(* ================= association lists with unique keys ================= *)
Lemma zget_zset_same k v m : zget k (zset k v m) = Some v.
Proof.
  induction m as [|[k1 v1] m IH]; simpl; [now rewrite Z.eqb_refl|].
  destruct (Z.eqb_spec k k1) as [->|Hne]; simpl.
  - now rewrite Z.eqb_refl.
  - destruct (Z.eqb_spec k k1); [contradiction|]. exact IH.
Qed.
Lemma zget_zset_other k k' v m : k' <> k -> zget k' (zset k v m) = zget k' m.
Proof.
  intros Hne. induction m as [|[k1 v1] m IH]; simpl.
  - destruct (Z.eqb_spec k' k); [contradiction|reflexivity].
  - destruct (Z.eqb_spec k k1) as [->|Hne1]; simpl.
    + destruct (Z.eqb_spec k' k1); [contradiction|reflexivity].
    + destruct (k' =? k1); [reflexivity|exact IH].
Qed.
Lemma aget_aset_same k (v : agg) m : aget k (aset k v m) = Some v.
Proof.
  induction m as [|[k1 v1] m IH]; simpl; [now rewrite String.eqb_refl|].
  destruct (String.eqb_spec k k1) as [->|Hne]; simpl.
  - now rewrite String.eqb_refl.
  - destruct (String.eqb_spec k k1); [contradiction|]. exact IH.
Qed.
Lemma aget_aset_other k k' (v : agg) m : k' <> k -> aget k' (aset k v m) = aget k' m.
Proof.
  intros Hne. induction m as [|[k1 v1] m IH]; simpl.
  - destruct (String.eqb_spec k' k); [contradiction|reflexivity].
  - destruct (String.eqb_spec k k1) as [->|Hne1]; simpl.
    + destruct (String.eqb_spec k' k1); [contradiction|reflexivity].
    + destruct (String.eqb k' k1); [reflexivity|exact IH].
Qed.

Lemma zget_in k m v : zget k m = Some v -> In (k, v) m.
Proof.
  induction m as [|[k1 v1] m IH]; simpl; [discriminate|].
  destruct (Z.eqb_spec k k1) as [->|Hne]; intros H; [inversion H; now left|right; auto].
Qed.
Lemma zget_none_notin k m : zget k m = None -> ~ In k (map fst m).
Proof.
  induction m as [|[k1 v1] m IH]; simpl; [tauto|].
  destruct (Z.eqb_spec k k1) as [->|Hne]; [discriminate|]. intros H [H1|H1]; [congruence|]. now apply IH.
Qed.
Lemma aget_none_notin k (m : bucket) : aget k m = None -> ~ In k (map fst m).
Proof.
  induction m as [|[k1 v1] m IH]; simpl; [tauto|].
  destruct (String.eqb_spec k k1) as [->|Hne]; [discriminate|]. intros H [H1|H1]; [congruence|]. now apply IH.
Qed.
Lemma zget_in_nodup m k v : NoDup (map fst m) -> In (k, v) m -> zget k m = Some v.
Proof.
  induction m as [|[k1 v1] m IH]; simpl; [tauto|]. intros Hnd [H|H].
  - inversion H; subst. now rewrite Z.eqb_refl.
  - inversion Hnd; subst. destruct (Z.eqb_spec k k1) as [->|Hne]; [|auto].
    exfalso. apply H2. change k1 with (fst (k1, v)). now apply in_map.
Qed.
Lemma aget_in_nodup (m : bucket) k v : NoDup (map fst m) -> In (k, v) m -> aget k m = Some v.
Proof.
  induction m as [|[k1 v1] m IH]; simpl; [tauto|]. intros Hnd [H|H].
  - inversion H; subst. now rewrite String.eqb_refl.
  - inversion Hnd; subst. destruct (String.eqb_spec k k1) as [->|Hne]; [|auto].
    exfalso. apply H2. change k1 with (fst (k1, v)). now apply in_map.
Qed.

Lemma nodup_snoc {A} (l : list A) x : NoDup l -> ~ In x l -> NoDup (l ++ [x]).
Proof.
  intros Hl Hx. apply (Permutation_NoDup (l := x :: l)).
  - apply Permutation_cons_append.
  - now constructor.
Qed.

Lemma zset_keys k v m :
  map fst (zset k v m) = match zget k m with Some _ => map fst m | None => map fst m ++ [k] end.
Proof.
  induction m as [|[k1 v1] m IH]; simpl; [reflexivity|].
  destruct (Z.eqb_spec k k1) as [->|Hne]; simpl; [reflexivity|].
  rewrite IH. destruct (zget k m); reflexivity.
Qed.
Lemma aset_keys k (v : agg) m :
  map fst (aset k v m) = match aget k m with Some _ => map fst m | None => map fst m ++ [k] end.
Proof.
  induction m as [|[k1 v1] m IH]; simpl; [reflexivity|].
  destruct (String.eqb_spec k k1) as [->|Hne]; simpl; [reflexivity|].
  rewrite IH. destruct (aget k m); reflexivity.
Qed.
Lemma nodup_zset k v m : NoDup (map fst m) -> NoDup (map fst (zset k v m)).
Proof.
  intros H. rewrite zset_keys. destruct (zget k m) eqn:Hg; [assumption|].
  apply nodup_snoc; [assumption|]. now apply zget_none_notin.
Qed.
Lemma nodup_aset k (v : agg) m : NoDup (map fst m) -> NoDup (map fst (aset k v m)).
Proof.
  intros H. rewrite aset_keys. destruct (aget k m) eqn:Hg; [assumption|].
  apply nodup_snoc; [assumption|]. now apply aget_none_notin.
Qed.
Lemma in_zset k v m p : In p (zset k v m) -> In p m \/ p = (k, v).
Proof.
  induction m as [|[k1 v1] m IH]; simpl.
  - intros [<-|[]]; auto.
  - destruct (Z.eqb_spec k k1) as [->|Hne]; simpl; intros [H|H]; auto.
    destruct (IH H); auto.
Qed.
Lemma in_aset_agg k (v : agg) m p : In p (aset k v m) -> In p m \/ p = (k, v).
Proof.
  induction m as [|[k1 v1] m IH]; simpl.
  - intros [<-|[]]; auto.
  - destruct (String.eqb_spec k k1) as [->|Hne]; simpl; intros [H|H]; auto.
    destruct (IH H); auto.
Qed.

Lemma zget_filter (P : Z -> bool) k (m : buckets) :
  zget k (filter (fun b => P (fst b)) m) = if P k then zget k m else None.
Proof.
  induction m as [|[k1 v1] m IH]; simpl; [now destruct (P k)|].
  destruct (P k1) eqn:Hp; simpl.
  - destruct (Z.eqb_spec k k1) as [->|Hne]; [now rewrite Hp|exact IH].
  - destruct (Z.eqb_spec k k1) as [->|Hne]; [now rewrite IH, Hp|exact IH].
Qed.
Lemma nodup_filter_keys {V} (P : Z * V -> bool) (m : list (Z * V)) :
  NoDup (map fst m) -> NoDup (map fst (filter P m)).
Proof.
  induction m as [|x m IH]; simpl; [auto|]. intros H. inversion H; subst.
  destruct (P x); simpl; [|auto]. constructor; [|auto].
  intros Hin. apply H2. apply in_map_iff in Hin. destruct Hin as [y [Hy Hin]].
  apply filter_In in Hin. rewrite <- Hy. apply in_map. tauto.
Qed.

(* ================= the aggregate of (bucket, key) as a function of the history ================= *)
Definition lookup (bt : Z) (k : string) (st : buckets) : option agg :=
  match zget bt st with Some m => aget k m | None => None end.

Definition nodups (st : buckets) : Prop :=
  NoDup (map fst st) /\ forall bt m, In (bt, m) st -> NoDup (map fst m).

Lemma lookup_insert w s st bt k :
  lookup bt k (fst (insert w s st)) =
  if hits w bt k s
  then Some (update (match lookup (bucket_time w (s_ts s)) (akey s) st with
                     | Some a => a | None => new_agg s (bucket_time w (s_ts s)) end) s)
  else lookup bt k st.
Proof.
  unfold insert, hits, lookup.
  set (b := bucket_time w (s_ts s)). set (ky := akey s).
  destruct (zget b st) as [m|] eqn:Hz.
  - destruct (aget ky m) as [a|] eqn:Ha; simpl;
      (destruct (Z.eqb_spec bt b) as [->|Hne]; simpl;
       [rewrite zget_zset_same;
        destruct (String.eqb_spec k ky) as [->|Hnk];
        [now rewrite aget_aset_same | rewrite aget_aset_other by assumption; now rewrite Hz]
       | now rewrite zget_zset_other by assumption]).
  - simpl. destruct (Z.eqb_spec bt b) as [->|Hne]; simpl.
    + rewrite zget_zset_same. simpl. destruct (String.eqb_spec k ky) as [->|Hnk]; simpl.
      * reflexivity.
      * now rewrite Hz.
    + now rewrite zget_zset_other by assumption.
Qed.

Lemma nodups_insert w s st : nodups st -> nodups (fst (insert w s st)).
Proof.
  intros [H1 H2]. unfold insert.
  set (b := bucket_time w (s_ts s)). set (ky := akey s).
  assert (Hgen : forall m', NoDup (map fst m') -> nodups (zset b m' st)).
  { intros m' Hm'. split; [now apply nodup_zset|].
    intros bt m Hin. apply in_zset in Hin. destruct Hin as [Hin|Hin]; [eauto|].
    inversion Hin; subst. assumption. }
  destruct (zget b st) as [m|] eqn:Hz.
  - assert (Hm : NoDup (map fst m)) by (apply (H2 b); now apply zget_in).
    destruct (aget ky m); simpl; apply Hgen; now apply nodup_aset.
  - simpl. apply Hgen. simpl. constructor; [tauto|constructor].
Qed.

Lemma nodups_scan_keep w now st : nodups st -> nodups (scan_keep w now st).
Proof.
  intros [H1 H2]. unfold scan_keep. split; [now apply nodup_filter_keys|].
  intros bt m Hin. apply filter_In in Hin. destruct Hin as [Hin _]. eauto.
Qed.

Lemma lookup_scan_keep w now st bt k :
  lookup bt k (scan_keep w now st) = if expired w bt now then None else lookup bt k st.
Proof.
  unfold lookup, scan_keep.
  rewrite (zget_filter (fun b => negb (expired w b now))).
  destruct (expired w bt now); reflexivity.
Qed.

Lemma scan_report_in w now st bt k a :
  In (bt, k, a) (scan_report w now st) ->
  expired w bt now = true /\ exists m, In (bt, m) st /\ In (k, a) m.
Proof.
  unfold scan_report. intros H. apply in_flat_map in H. destruct H as [[b m] [Hb He]].
  apply filter_In in Hb. destruct Hb as [Hb Hx]. simpl in Hx.
  unfold entries_of in He. apply in_map_iff in He. destruct He as [[k' a'] [Heq Hin]].
  simpl in Heq. inversion Heq; subst. split; [assumption|]. exists m. auto.
Qed.

Lemma scan_report_lookup w now st bt k a :
  nodups st -> In (bt, k, a) (scan_report w now st) ->
  expired w bt now = true /\ lookup bt k st = Some a.
Proof.
  intros [H1 H2] H. apply scan_report_in in H. destruct H as [He [m [Hm Hk]]].
  split; [assumption|]. unfold lookup. rewrite (zget_in_nodup _ _ _ H1 Hm).
  apply aget_in_nodup; eauto.
Qed.

Lemma open_entries_in st bt k a :
  In (bt, k, a) (open_entries st) -> exists m, In (bt, m) st /\ In (k, a) m.
Proof.
  unfold open_entries. intros H. apply in_flat_map in H. destruct H as [[b m] [Hb He]].
  unfold entries_of in He. apply in_map_iff in He. destruct He as [[k' a'] [Heq Hin]].
  simpl in Heq. inversion Heq; subst. exists m. auto.
Qed.
Lemma open_entries_lookup st bt k a :
  nodups st -> In (bt, k, a) (open_entries st) -> lookup bt k st = Some a.
Proof.
  intros [H1 H2] H. apply open_entries_in in H. destruct H as [m [Hm Hk]].
  unfold lookup. rewrite (zget_in_nodup _ _ _ H1 Hm). apply aget_in_nodup; eauto.
Qed.

(* the stats covered by the CURRENT aggregate of (bt, k): those inserted for (bt, k) since the
   last scan at which bucket bt was expired (that scan reported and deleted the bucket) *)
Fixpoint cov_from (w bt : Z) (k : string) (acc : list stat) (evs : list ev) : list stat :=
  match evs with
  | [] => acc
  | Insert s :: r => cov_from w bt k (if hits w bt k s then acc ++ [s] else acc) r
  | Scan now :: r => cov_from w bt k (if expired w bt now then [] else acc) r
  | Check _ _ :: r => cov_from w bt k acc r
  end.
Definition cov (w bt : Z) (k : string) (evs : list ev) : list stat := cov_from w bt k [] evs.

(* the aggregate the code builds from a list of stats: newAggregate(first, bt), then update each *)
Definition agg_of (bt : Z) (ss : list stat) : option agg :=
  match ss with
  | [] => None
  | s0 :: _ => Some (fold_left update ss (new_agg s0 bt))
  end.

Lemma agg_of_snoc bt ss s :
  agg_of bt (ss ++ [s]) =
  Some (update (match agg_of bt ss with Some a => a | None => new_agg s bt end) s).
Proof.
  destruct ss as [|s0 ss]; simpl; [reflexivity|]. now rewrite fold_left_app.
Qed.

Definition Rep (g : Z -> string -> list stat) (st : buckets) : Prop :=
  nodups st /\ forall bt k, lookup bt k st = agg_of bt (g bt k).

Lemma Rep_empty : Rep (fun _ _ => []) [].
Proof. split; [split; [constructor|intros ? ? []]|reflexivity]. Qed.

Lemma Rep_run w : forall evs st g st' outs,
  Rep g st -> arun w st evs = (st', outs, false) ->
  Rep (fun bt k => cov_from w bt k (g bt k) evs) st'.
Proof.
  induction evs as [|e evs IH]; intros st g st' outs HR H; simpl in H.
  - inversion H; subst. exact HR.
  - destruct (astep w st e) as [[st1 o] p] eqn:Hs. destruct p; [inversion H|].
    destruct (arun w st1 evs) as [[st2 os] p2] eqn:Hr. inversion H; subst; clear H.
    destruct HR as [Hnd Hl].
    destruct e as [s now|s|now]; simpl in Hs.
    + destruct (w =? 0); [inversion Hs|].
      assert (st1 = st) by (destruct (expired w (bucket_time w (s_ts s)) now); now inversion Hs).
      subst st1. simpl. apply (IH st g _ _ (conj Hnd Hl) Hr).
    + destruct (insert w s st) as [sti pi] eqn:Hi.
      assert (st1 = sti) by (destruct pi; now inversion Hs). subst sti.
      assert (Hst1 : st1 = fst (insert w s st)) by now rewrite Hi.
      simpl.
      eapply (IH st1 (fun bt k => if hits w bt k s then g bt k ++ [s] else g bt k)); [|exact Hr].
      split; [rewrite Hst1; now apply nodups_insert|].
      intros bt k. rewrite Hst1, lookup_insert.
      destruct (hits w bt k s) eqn:Hh; [|apply Hl].
      unfold hits in Hh. apply andb_true_iff in Hh. destruct Hh as [Hb Hk].
      apply Z.eqb_eq in Hb. apply String.eqb_eq in Hk. subst bt k.
      rewrite agg_of_snoc, Hl. reflexivity.
    + destruct (scan_panics w now st); inversion Hs; subst. simpl.
      eapply (IH (scan_keep w now st) (fun bt k => if expired w bt now then [] else g bt k)); [|exact Hr].
      split; [now apply nodups_scan_keep|].
      intros bt k. rewrite lookup_scan_keep. destruct (expired w bt now); [reflexivity|apply Hl].
Qed.

Lemma cov_from_in w bt k : forall evs acc s,
  In s (cov_from w bt k acc evs) -> In s acc \/ (In (Insert s) evs /\ hits w bt k s = true).
Proof.
  induction evs as [|e evs IH]; intros acc s H; simpl in H; [auto|].
  destruct e as [s1 now|s1|now]; apply IH in H.
  - destruct H as [H|[H1 H2]]; [auto|right; split; [now right|assumption]].
  - destruct H as [H|[H1 H2]]; [|right; split; [now right|assumption]].
    destruct (hits w bt k s1) eqn:Hh; [|auto].
    apply in_app_or in H. destruct H as [H|[H|[]]]; [auto|]. subst. right. split; [now left|assumption].
  - destruct H as [H|[H1 H2]]; [|right; split; [now right|assumption]].
    destruct (expired w bt now); [destruct H|auto].
Qed.

(* ---- what fold_left update computes ---- *)
Lemma fold_update_facts : forall ss a0,
  let a := fold_left update ss a0 in
  a_value a = a_value a0 + sum_Z (map s_value ss) /\
  a_count a = a_count a0 + Z.of_nat (List.length ss) /\
  a_ts a = a_ts a0 /\ a_comp a = a_comp a0 /\ a_name a = a_name a0 /\
  a_type a = a_type a0 /\ a_unit a = a_unit a0.
Proof.
  induction ss as [|s ss IH]; intros a0; simpl.
  - change (sum_Z []) with 0. repeat split; lia.
  - destruct (IH (update a0 s)) as (H1 & H2 & H3 & H4 & H5 & H6 & H7).
    rewrite H1, H2, H3, H4, H5, H6, H7, sum_Z_cons.
    rewrite update_value, update_count, update_ts, update_comp, update_name, update_type, update_unit.
    repeat split; lia.
Qed.

Lemma update_min_hist a s : a_type a = ty_hist -> a_min (update a s) = Z.min (a_min a) (s_value s).
Proof.
  intros H. unfold update. rewrite H. simpl.
  destruct (Z.ltb_spec (s_value s) (a_min a)); lia.
Qed.
Lemma update_max_hist a s : a_type a = ty_hist -> a_max (update a s) = Z.max (a_max a) (s_value s).
Proof.
  intros H. unfold update. rewrite H. simpl.
  destruct (Z.ltb_spec (a_max a) (s_value s)); lia.
Qed.

Lemma fold_update_minmax : forall ss a0, a_type a0 = ty_hist ->
  a_min (fold_left update ss a0) = fold_left Z.min (map s_value ss) (a_min a0) /\
  a_max (fold_left update ss a0) = fold_left Z.max (map s_value ss) (a_max a0).
Proof.
  induction ss as [|s ss IH]; intros a0 H; simpl; [auto|].
  destruct (IH (update a0 s)) as [H1 H2]; [now rewrite update_type|].
  rewrite H1, H2, update_min_hist, update_max_hist by assumption. auto.
Qed.

Definition is_min (m : Z) (l : list Z) : Prop := In m l /\ forall v, In v l -> m <= v.
Definition is_max (m : Z) (l : list Z) : Prop := In m l /\ forall v, In v l -> v <= m.

Lemma fold_min_spec : forall l d,
  let m := fold_left Z.min l d in m <= d /\ (forall v, In v l -> m <= v) /\ (m = d \/ In m l).
Proof.
  induction l as [|x l IH]; intros d; simpl; [split; [lia|split; [tauto|auto]]|].
  destruct (IH (Z.min d x)) as (H1 & H2 & H3). split; [lia|]. split.
  - intros v [<-|Hv]; [lia|auto].
  - destruct H3 as [H3|H3]; [|auto]. destruct (Z.min_spec d x) as [[_ E]|[_ E]]; [left; rewrite H3; exact E|right; left; rewrite H3; symmetry; exact E].
Qed.
Lemma fold_max_spec : forall l d,
  let m := fold_left Z.max l d in d <= m /\ (forall v, In v l -> v <= m) /\ (m = d \/ In m l).
Proof.
  induction l as [|x l IH]; intros d; simpl; [split; [lia|split; [tauto|auto]]|].
  destruct (IH (Z.max d x)) as (H1 & H2 & H3). split; [lia|]. split.
  - intros v [<-|Hv]; [lia|auto].
  - destruct H3 as [H3|H3]; [|auto]. destruct (Z.max_spec d x) as [[_ E]|[_ E]]; [right; left; rewrite H3; symmetry; exact E|left; rewrite H3; exact E].
Qed.

Lemma fold_min_is_min l : l <> [] -> (forall v, In v l -> v <= max_int64) ->
  is_min (fold_left Z.min l max_int64) l.
Proof.
  intros Hne Hb. destruct (fold_min_spec l max_int64) as (H1 & H2 & H3). split; [|assumption].
  destruct H3 as [H3|H3]; [|assumption].
  destruct l as [|x l]; [congruence|].
  assert (x = max_int64).
  { pose proof (H2 x (or_introl eq_refl)). pose proof (Hb x (or_introl eq_refl)). lia. }
  rewrite H3. left. assumption.
Qed.
Lemma fold_max_is_max l : l <> [] -> (forall v, In v l -> min_int64 <= v) ->
  is_max (fold_left Z.max l min_int64) l.
Proof.
  intros Hne Hb. destruct (fold_max_spec l min_int64) as (H1 & H2 & H3). split; [|assumption].
  destruct H3 as [H3|H3]; [|assumption].
  destruct l as [|x l]; [congruence|].
  assert (x = min_int64).
  { pose proof (H2 x (or_introl eq_refl)). pose proof (Hb x (or_introl eq_refl)). lia. }
  rewrite H3. left. assumption.
Qed.

Definition int64 (v : Z) : Prop := min_int64 <= v <= max_int64.

(* the summary carried by the aggregate built from ss *)
Lemma agg_of_summary bt ss a : agg_of bt ss = Some a ->
  let vs := map s_value ss in
  ss <> [] /\ a_value a = sum_Z vs /\ a_count a = Z.of_nat (List.length ss) /\ a_ts a = bt /\
  (exists s0 r, ss = s0 :: r /\ a_comp a = s_comp s0 /\ a_name a = s_name s0 /\
                a_type a = s_type s0 /\ a_unit a = s_unit s0) /\
  (a_type a = ty_hist -> (forall s, In s ss -> int64 (s_value s)) ->
   is_min (a_min a) vs /\ is_max (a_max a) vs).
Proof.
  destruct ss as [|s0 r]; [discriminate|]. intros H.
  assert (Ha : a = fold_left update (s0 :: r) (new_agg s0 bt)) by (unfold agg_of in H; congruence).
  clear H. remember (s0 :: r) as ss eqn:Ess.
  pose proof (fold_update_facts ss (new_agg s0 bt)) as F. cbv zeta in F. rewrite <- Ha in F.
  destruct F as (H1 & H2 & H3 & H4 & H5 & H6 & H7).
  simpl in H1, H2, H3, H4, H5, H6, H7.
  split; [rewrite Ess; discriminate|]. split; [lia|]. split; [lia|]. split; [assumption|].
  split; [exists s0, r; auto|].
  intros Ht Hb.
  destruct (fold_update_minmax ss (new_agg s0 bt)) as [Hmin Hmax]; [simpl; congruence|].
  rewrite <- Ha in Hmin, Hmax. simpl in Hmin, Hmax. rewrite Hmin, Hmax.
  assert (Hne : map s_value ss <> []) by (rewrite Ess; discriminate).
  split.
  - apply fold_min_is_min; [assumption|].
    intros v Hv. apply in_map_iff in Hv. destruct Hv as [s [<- Hs]]. apply Hb in Hs. unfold int64 in Hs. lia.
  - apply fold_max_is_max; [assumption|].
    intros v Hv. apply in_map_iff in Hv. destruct Hv as [s [<- Hs]]. apply Hb in Hs. unfold int64 in Hs. lia.
Qed.

(* every report of every scan of every history: the aggregate sent for (bt, k) is the one built
   from exactly the stats inserted for (bt, k) since the bucket was last reported *)
Theorem report_is_summary_of_covered : forall w evs st outs now bt k a,
  arun w [] evs = (st, outs, false) ->
  In (bt, k, a) (scan_report w now st) ->
  expired w bt now = true /\
  agg_of bt (cov w bt k evs) = Some a /\
  (forall s, In s (cov w bt k evs) -> In (Insert s) evs /\ hits w bt k s = true).
Proof.
  intros w evs st outs now bt k a Hrun Hin.
  pose proof (Rep_run w _ _ _ _ _ Rep_empty Hrun) as [Hnd Hl].
  destruct (scan_report_lookup _ _ _ _ _ _ Hnd Hin) as [He Hlk].
  split; [assumption|]. split.
  - rewrite <- Hlk. symmetry. apply Hl.
  - intros s Hs. apply cov_from_in in Hs. destruct Hs as [[]|Hs]. exact Hs.
Qed.

(* and the same for what is still open at the end *)
Theorem open_is_summary_of_covered : forall w evs st outs bt k a,
  arun w [] evs = (st, outs, false) ->
  In (bt, k, a) (open_entries st) ->
  agg_of bt (cov w bt k evs) = Some a.
Proof.
  intros w evs st outs bt k a Hrun Hin.
  pose proof (Rep_run w _ _ _ _ _ Rep_empty Hrun) as [Hnd Hl].
  rewrite <- (open_entries_lookup _ _ _ _ Hnd Hin). symmetry. apply Hl.
Qed.

(* the stats a histogram aggregate sends *)
Lemma to_stats_hist a : a_type a = ty_hist ->
  to_stats a = Some [ mkStat (a_comp a) (a_name a) ty_hist (a_unit a) (a_value a) (a_ts a);
                      mkStat (a_comp a) (a_name a ++ "_avg")%string ty_hist (a_unit a)
                             (Z.quot (a_value a) (a_count a)) (a_ts a);
                      mkStat (a_comp a) (a_name a ++ "_max")%string ty_hist (a_unit a) (a_max a) (a_ts a);
                      mkStat (a_comp a) (a_name a ++ "_min")%string ty_hist (a_unit a) (a_min a) (a_ts a) ].
Proof. intros H. unfold to_stats, avg_of. rewrite H. reflexivity. Qed.
Lemma to_stats_count a : a_type a = ty_count ->
  to_stats a = Some [ mkStat (a_comp a) (a_name a) ty_count (a_unit a) (a_value a) (a_ts a) ].
Proof. intros H. unfold to_stats. rewrite H. reflexivity. Qed.

Theorem histogram_report : forall w evs st outs now bt k a,
  arun w [] evs = (st, outs, false) ->
  In (bt, k, a) (scan_report w now st) ->
  a_type a = ty_hist ->
  let ss := cov w bt k evs in
  let vs := map s_value ss in
  (forall s, In s ss -> int64 (s_value s)) ->
  vs <> [] /\
  (forall s, In s ss -> In (Insert s) evs /\ bucket_time w (s_ts s) = bt /\ akey s = k) /\
  exists mn mx, is_min mn vs /\ is_max mx vs /\
    to_stats a = Some
      [ mkStat (a_comp a) (a_name a) ty_hist (a_unit a) (sum_Z vs) bt;
        mkStat (a_comp a) (a_name a ++ "_avg")%string ty_hist (a_unit a)
               (Z.quot (sum_Z vs) (Z.of_nat (List.length vs))) bt;
        mkStat (a_comp a) (a_name a ++ "_max")%string ty_hist (a_unit a) mx bt;
        mkStat (a_comp a) (a_name a ++ "_min")%string ty_hist (a_unit a) mn bt ].
Proof.
  intros w evs st outs now bt k a Hrun Hin Ht ss vs Hb.
  destruct (report_is_summary_of_covered _ _ _ _ _ _ _ _ Hrun Hin) as (He & Ha & Hc).
  destruct (agg_of_summary _ _ _ Ha) as (Hne & Hv & Hcnt & Hts & _ & Hmm).
  destruct (Hmm Ht Hb) as [Hmin Hmax].
  split; [unfold vs, ss; destruct (cov w bt k evs); [congruence|discriminate]|]. split.
  - intros s Hs. destruct (Hc s Hs) as [H1 H2]. split; [assumption|].
    unfold hits in H2. apply andb_true_iff in H2. destruct H2 as [H2 H3].
    apply Z.eqb_eq in H2. apply String.eqb_eq in H3. auto.
  - exists (a_min a), (a_max a). split; [assumption|]. split; [assumption|].
    rewrite (to_stats_hist a Ht). unfold vs, ss. rewrite map_length, <- Hv, <- Hcnt, Hts. reflexivity.
Qed.

(* ================= every report of a run is a scan of the state after a prefix ================= *)
Lemma astep_panic_out w st e st1 o : astep w st e = (st1, o, true) -> o = OPanic.
Proof.
  destruct e as [s now|s|now]; simpl.
  - destruct (w =? 0); [intros H; now inversion H|].
    destruct (expired w (bucket_time w (s_ts s)) now); intros H; inversion H.
  - destruct (insert w s st) as [sti pi]. destruct pi; intros H; inversion H; reflexivity.
  - destruct (scan_panics w now st); intros H; inversion H; reflexivity.
Qed.

Lemma arun_report_split w : forall evs st st' outs p r,
  arun w st evs = (st', outs, p) -> In (OReport r) outs ->
  exists evs1 now evs2 st1 outs1,
    evs = evs1 ++ Scan now :: evs2 /\ arun w st evs1 = (st1, outs1, false) /\ r = scan_report w now st1.
Proof.
  induction evs as [|e evs IH]; intros st st' outs p r H Hin; simpl in H.
  - inversion H; subst. destruct Hin.
  - destruct (astep w st e) as [[st1 o] p1] eqn:Hs. destruct p1.
    + inversion H; subst. apply astep_panic_out in Hs. subst o.
      destruct Hin as [Hin|[]]; discriminate.
    + destruct (arun w st1 evs) as [[st2 os] p2] eqn:Hr. inversion H; subst; clear H.
      destruct Hin as [Hin|Hin].
      * subst o. destruct e as [s now|s|now]; simpl in Hs.
        -- destruct (w =? 0); [inversion Hs|].
           destruct (expired w (bucket_time w (s_ts s)) now); inversion Hs.
        -- destruct (insert w s st) as [sti pi]; destruct pi; inversion Hs.
        -- destruct (scan_panics w now st); inversion Hs; subst.
           exists [], now, evs, st, []. repeat split.
      * destruct (IH _ _ _ _ _ Hr Hin) as (evs1 & now & evs2 & stx & outs1 & He & Hrun & Hrep).
        exists (e :: evs1), now, evs2, stx, (o :: outs1). split; [now rewrite He|]. split; [|assumption].
        simpl. rewrite Hs, Hrun. reflexivity.
Qed.

(* ================= identities ================= *)
Definition ident := (string * string * string * string)%type.
Definition sident (s : stat) : ident := (s_comp s, s_name s, s_type s, s_unit s).
Definition aident (a : agg) : ident := (a_comp a, a_name a, a_type a, a_unit a).
Definition ikey (i : ident) : string :=
  let '(c, n, t, u) := i in (lenpfx c ++ lenpfx n ++ lenpfx t ++ lenpfx u)%string.
Definition ident_eqb (x y : ident) : bool :=
  let '(c, n, t, u) := x in let '(c', n', t', u') := y in
  String.eqb c c' && String.eqb n n' && String.eqb t t' && String.eqb u u'.

Lemma ident_eqb_spec x y : reflect (x = y) (ident_eqb x y).
Proof.
  destruct x as [[[c n] t] u], y as [[[c' n'] t'] u']. unfold ident_eqb.
  destruct (String.eqb_spec c c'); [|constructor; congruence].
  destruct (String.eqb_spec n n'); [|constructor; congruence].
  destruct (String.eqb_spec t t'); [|constructor; congruence].
  destruct (String.eqb_spec u u'); constructor; congruence.
Qed.

Lemma akey_ikey s : akey s = ikey (sident s).
Proof. reflexivity. Qed.

(* ---- the aggregate key is injective in (component, name, type, unit), for ALL byte strings:
        the decimal length has only digits, ":" is not a digit, so the first ":" ends the length;
        the length then fixes where the field ends ---- *)
Fixpoint nocolon (s : string) : Prop :=
  match s with EmptyString => True | String c r => c <> ":"%char /\ nocolon r end.

Lemma digit_nocolon d : (d < 10)%N -> digit d <> ":"%char.
Proof.
  intros Hd He. unfold digit in He.
  assert (H : N_of_ascii (ascii_of_N (48 + d)) = N_of_ascii ":"%char) by now rewrite He.
  rewrite N_ascii_embedding in H by lia. change (N_of_ascii ":"%char) with 58%N in H. lia.
Qed.

Lemma dec_fuel_nocolon : forall f n acc, nocolon acc -> nocolon (dec_fuel f n acc).
Proof.
  induction f as [|f IH]; intros n acc Ha; simpl; [assumption|].
  assert (Hd : nocolon (String (digit (n mod 10)) acc)).
  { split; [|assumption]. apply digit_nocolon. apply N.mod_lt. discriminate. }
  destruct (n <? 10)%N; [assumption|]. apply IH. assumption.
Qed.

Lemma dec_nocolon n : nocolon (dec n).
Proof. unfold dec. apply dec_fuel_nocolon. exact I. Qed.

Lemma sapp_assoc (a b c : string) : ((a ++ b) ++ c = a ++ (b ++ c))%string.
Proof. induction a as [|x a IH]; simpl; [reflexivity|]. now rewrite IH. Qed.
Lemma sapp_nil_r (a : string) : (a ++ "" = a)%string.
Proof. induction a as [|x a IH]; simpl; [reflexivity|]. now rewrite IH. Qed.

Lemma colon_split : forall d1 d2 x y, nocolon d1 -> nocolon d2 ->
  (d1 ++ ":" ++ x = d2 ++ ":" ++ y)%string -> d1 = d2 /\ x = y.
Proof.
  induction d1 as [|c1 d1 IH]; intros d2 x y H1 H2 He; destruct d2 as [|c2 d2]; simpl in *.
  - inversion He. auto.
  - inversion He; subst. destruct H2 as [H2 _]. congruence.
  - inversion He; subst. destruct H1 as [H1 _]. congruence.
  - inversion He; subst. destruct H1 as [_ H1], H2 as [_ H2].
    destruct (IH _ _ _ H1 H2 H3) as [-> ->]. auto.
Qed.

Lemma sapp_length_split : forall a b x y,
  String.length a = String.length b -> (a ++ x = b ++ y)%string -> a = b /\ x = y.
Proof.
  induction a as [|c a IH]; intros b x y Hl He; destruct b as [|c' b]; simpl in *; try discriminate.
  - auto.
  - inversion He; subst. injection Hl as Hl. destruct (IH _ _ _ Hl H1) as [-> ->]. auto.
Qed.

Lemma lenpfx_inj a b x y : (lenpfx a ++ x = lenpfx b ++ y)%string -> a = b /\ x = y.
Proof.
  unfold lenpfx. rewrite !sapp_assoc. intros H.
  apply colon_split in H; [|apply dec_nocolon|apply dec_nocolon]. destruct H as [Hd H].
  apply dec_injective in Hd. apply Nat2N.inj in Hd.
  simpl in H. now apply sapp_length_split.
Qed.

Theorem ikey_injective i1 i2 : ikey i1 = ikey i2 -> i1 = i2.
Proof.
  destruct i1 as [[[c1 n1] t1] u1], i2 as [[[c2 n2] t2] u2]. unfold ikey. intros H.
  apply lenpfx_inj in H. destruct H as [-> H].
  apply lenpfx_inj in H. destruct H as [-> H].
  apply lenpfx_inj in H. destruct H as [-> H].
  rewrite <- (sapp_nil_r (lenpfx u1)), <- (sapp_nil_r (lenpfx u2)) in H.
  apply lenpfx_inj in H. destruct H as [-> _]. reflexivity.
Qed.

Theorem akey_injective s1 s2 : akey s1 = akey s2 -> sident s1 = sident s2.
Proof. rewrite !akey_ikey. apply ikey_injective. Qed.

Lemma in_inserted s evs : In s (inserted evs) <-> In (Insert s) evs.
Proof.
  unfold inserted. rewrite in_flat_map. split.
  - intros [e [He Hs]]. destruct e; simpl in Hs; try tauto. destruct Hs as [<-|[]]. assumption.
  - intros H. exists (Insert s). split; [assumption|now left].
Qed.

(* where an aggregate comes from: its identity is that of an inserted stat of its bucket and key *)
Definition prov (w : Z) (evs : list ev) (e : entry) : Prop :=
  exists s0, In (Insert s0) evs /\ bucket_time w (s_ts s0) = fst (fst e) /\ akey s0 = snd (fst e) /\
             aident (snd e) = sident s0 /\ a_ts (snd e) = fst (fst e).

Lemma agg_of_prov w evs bt k a ss :
  agg_of bt ss = Some a ->
  (forall s, In s ss -> In (Insert s) evs /\ hits w bt k s = true) ->
  prov w evs (bt, k, a).
Proof.
  intros Ha Hc. destruct (agg_of_summary _ _ _ Ha) as (_ & _ & _ & Hts & (s0 & r & Hss & H1 & H2 & H3 & H4) & _).
  destruct (Hc s0) as [Hi Hh]; [rewrite Hss; now left|].
  unfold hits in Hh. apply andb_true_iff in Hh. destruct Hh as [Hb Hk].
  apply Z.eqb_eq in Hb. apply String.eqb_eq in Hk.
  exists s0. simpl. repeat split; auto. unfold aident, sident. congruence.
Qed.

Lemma reported_prov w evs st outs p r e :
  arun w [] evs = (st, outs, p) -> In (OReport r) outs -> In e r -> prov w evs e.
Proof.
  intros Hrun Hr He. destruct e as [[bt k] a].
  destruct (arun_report_split w _ _ _ _ _ _ Hrun Hr) as (evs1 & now & evs2 & st1 & outs1 & Hev & Hrun1 & ->).
  destruct (report_is_summary_of_covered _ _ _ _ _ _ _ _ Hrun1 He) as (_ & Ha & Hc).
  apply (agg_of_prov w evs bt k a _ Ha).
  intros s Hs. destruct (Hc s Hs) as [H1 H2]. split; [|assumption].
  rewrite Hev. apply in_or_app. now left.
Qed.

Lemma open_prov w evs st outs e :
  arun w [] evs = (st, outs, false) -> In e (open_entries st) -> prov w evs e.
Proof.
  intros Hrun He. destruct e as [[bt k] a].
  pose proof (open_is_summary_of_covered _ _ _ _ _ _ _ Hrun He) as Ha.
  apply (agg_of_prov w evs bt k a _ Ha).
  intros s Hs. apply cov_from_in in Hs. destruct Hs as [[]|Hs]. exact Hs.
Qed.

(* ---- per identity ---- *)
Definition esum_id (id : ident) (bt : Z) (r : list entry) : Z :=
  sum_Z (map (fun e : entry => if ident_eqb (aident (snd e)) id && (a_ts (snd e) =? bt)
                               then a_value (snd e) else 0) r).
(* sum of the main stats with this identity and this window timestamp, over ALL scans *)
Definition rep_sum_id (id : ident) (bt : Z) (outs : list out) : Z :=
  sum_Z (map (fun o => match o with OReport r => esum_id id bt r | _ => 0 end) outs).
Definition open_sum_id (id : ident) (bt : Z) (st : buckets) : Z := esum_id id bt (open_entries st).
Definition ins_sum_id (w : Z) (id : ident) (bt : Z) (evs : list ev) : Z :=
  sum_Z (map (fun e => match e with
                       | Insert s => if ident_eqb (sident s) id && (bucket_time w (s_ts s) =? bt)
                                     then s_value s else 0
                       | _ => 0 end) evs).

Lemma esum_id_key w evs id bt r s' :
  (forall s1 s2, In (Insert s1) evs -> In (Insert s2) evs -> akey s1 = akey s2 -> sident s1 = sident s2) ->
  In (Insert s') evs -> sident s' = id ->
  (forall e, In e r -> prov w evs e) ->
  esum_id id bt r = esum bt (ikey id) r.
Proof.
  intros Hcf Hs' Hid Hp. unfold esum_id, esum. apply sum_Z_map_ext.
  intros [[b k] a] He. destruct (Hp _ He) as (s0 & Hi & Hb & Hk & Ha & Hts). cbn [fst snd] in *.
  destruct (ident_eqb_spec (aident a) id) as [Heq|Hne]; cbn [andb].
  - rewrite Hts, (Z.eqb_sym b bt). destruct (bt =? b); cbn [andb]; [|reflexivity].
    rewrite <- Hk, akey_ikey, <- Ha, Heq, String.eqb_refl. reflexivity.
  - destruct (Z.eqb_spec bt b) as [->|]; cbn [andb]; [|reflexivity].
    destruct (String.eqb_spec (ikey id) k) as [Hk2|]; [|reflexivity].
    exfalso. apply Hne. rewrite Ha, <- Hid. apply Hcf; auto.
    rewrite Hk, <- Hk2, <- Hid. apply akey_ikey.
Qed.

Lemma esum_id_absent w evs id bt r :
  (forall s, In (Insert s) evs -> sident s <> id) ->
  (forall e, In e r -> prov w evs e) ->
  esum_id id bt r = 0.
Proof.
  intros Hno Hp. unfold esum_id. apply sum_Z_map_zero.
  intros [[b k] a] He. destruct (Hp _ He) as (s0 & Hi & _ & _ & Ha & _). cbn [fst snd] in *.
  destruct (ident_eqb_spec (aident a) id) as [Heq|Hne]; [|reflexivity].
  exfalso. apply (Hno s0 Hi). congruence.
Qed.

Theorem conservation_by_identity : forall w evs st outs id bt,
  arun w [] evs = (st, outs, false) ->
  rep_sum_id id bt outs + open_sum_id id bt st = ins_sum_id w id bt evs.
Proof.
  intros w evs st outs id bt Hrun.
  assert (Hcf : forall s1 s2, In (Insert s1) evs -> In (Insert s2) evs ->
                              akey s1 = akey s2 -> sident s1 = sident s2)
    by (intros s1 s2 _ _; apply akey_injective).
  destruct (existsb (fun s => ident_eqb (sident s) id) (inserted evs)) eqn:Hex.
  - (* the identity occurs in the history: per-identity sums are the per-key sums *)
    apply existsb_exists in Hex. destruct Hex as [s' [Hs' Hid]].
    apply in_inserted in Hs'. destruct (ident_eqb_spec (sident s') id) as [Hid'|]; [|discriminate].
    pose proof (conservation_by_key w evs st outs bt (ikey id) Hrun) as Hc.
    assert (H1 : rep_sum_id id bt outs = rep_sum bt (ikey id) outs).
    { unfold rep_sum_id, rep_sum. apply sum_Z_map_ext. intros o Ho. destruct o; try reflexivity.
      apply (esum_id_key w evs id bt r s' Hcf Hs' Hid').
      intros e He. eapply reported_prov; eauto. }
    assert (H2 : open_sum_id id bt st = open_sum bt (ikey id) st).
    { unfold open_sum_id. rewrite open_sum_entries.
      apply (esum_id_key w evs id bt _ s' Hcf Hs' Hid').
      intros e He. eapply open_prov; eauto. }
    assert (H3 : ins_sum_id w id bt evs = ins_sum w bt (ikey id) evs).
    { unfold ins_sum_id, ins_sum. apply sum_Z_map_ext. intros e He. destruct e as [|s|]; try reflexivity.
      unfold hits. rewrite (Z.eqb_sym bt).
      destruct (ident_eqb_spec (sident s) id) as [Heq|Hne]; cbn [andb].
      - destruct (bucket_time w (s_ts s) =? bt); cbn [andb]; [|reflexivity].
        now rewrite akey_ikey, Heq, String.eqb_refl.
      - destruct (bucket_time w (s_ts s) =? bt); cbn [andb]; [|reflexivity].
        destruct (String.eqb_spec (ikey id) (akey s)) as [Hk|]; [|reflexivity].
        exfalso. apply Hne. rewrite <- Hid'. apply Hcf; auto.
        rewrite <- Hk, <- Hid'. apply akey_ikey. }
    lia.
  - (* the identity does not occur: nothing is inserted, reported or open under it *)
    assert (Hno : forall s, In (Insert s) evs -> sident s <> id).
    { intros s Hs Heq. apply in_inserted in Hs.
      assert (existsb (fun s => ident_eqb (sident s) id) (inserted evs) = true).
      { apply existsb_exists. exists s. split; [assumption|]. now destruct (ident_eqb_spec (sident s) id). }
      congruence. }
    assert (H1 : rep_sum_id id bt outs = 0).
    { unfold rep_sum_id. apply sum_Z_map_zero. intros o Ho. destruct o; try reflexivity.
      apply (esum_id_absent w evs id bt r Hno). intros e He. eapply reported_prov; eauto. }
    assert (H2 : open_sum_id id bt st = 0).
    { apply (esum_id_absent w evs id bt _ Hno). intros e He. eapply open_prov; eauto. }
    assert (H3 : ins_sum_id w id bt evs = 0).
    { unfold ins_sum_id. apply sum_Z_map_zero. intros e He. destruct e as [|s|]; try reflexivity.
      destruct (ident_eqb_spec (sident s) id) as [Heq|]; [|reflexivity]. exfalso. now apply (Hno s). }
    lia.
Qed.

(* ================= nothing stays open past a scan; a final scan reports everything ================= *)
Lemma scan_flushes w now st bt m : In (bt, m) (scan_keep w now st) -> expired w bt now = false.
Proof.
  unfold scan_keep. intros H. apply filter_In in H. destruct H as [_ H]. simpl in H.
  now apply negb_true_iff in H.
Qed.

Lemma arun_snoc_scan w : forall evs st st' outs now,
  arun w st (evs ++ [Scan now]) = (st', outs, false) ->
  exists st1 outs1, arun w st evs = (st1, outs1, false) /\
                    st' = scan_keep w now st1 /\ outs = outs1 ++ [OReport (scan_report w now st1)].
Proof.
  induction evs as [|e evs IH]; intros st st' outs now H; simpl in H.
  - destruct (scan_panics w now st); [inversion H|]. inversion H; subst.
    exists st, []. repeat split.
  - destruct (astep w st e) as [[st1 o] p1] eqn:Hs. destruct p1; [inversion H|].
    destruct (arun w st1 (evs ++ [Scan now])) as [[st2 os] p2] eqn:Hr. inversion H; subst; clear H.
    destruct (IH _ _ _ _ Hr) as (stx & outs1 & Hrun & Hst & Hos).
    exists stx, (o :: outs1). simpl. rewrite Hs, Hrun. subst. repeat split.
Qed.

Theorem final_scan_reports_all : forall w evs now st outs bt k,
  arun w [] (evs ++ [Scan now]) = (st, outs, false) ->
  (forall s, In (Insert s) evs -> expired w (bucket_time w (s_ts s)) now = true) ->
  open_entries st = [] /\ rep_sum bt k outs = ins_sum w bt k (evs ++ [Scan now]).
Proof.
  intros w evs now st outs bt k Hrun Hall.
  assert (Hopen : open_entries st = []).
  { destruct (open_entries st) as [|e l] eqn:Ho; [reflexivity|]. exfalso.
    assert (He : In e (open_entries st)) by (rewrite Ho; now left).
    destruct (open_prov w _ _ _ e Hrun He) as (s0 & Hi & Hb & _).
    destruct e as [[b k'] a]. simpl in Hb.
    apply open_entries_in in He. destruct He as [m [Hm _]].
    destruct (arun_snoc_scan w _ _ _ _ _ Hrun) as (st1 & outs1 & _ & Hst & _). subst st.
    apply scan_flushes in Hm.
    apply in_app_or in Hi. destruct Hi as [Hi|[Hi|[]]]; [|discriminate].
    rewrite <- Hb, (Hall s0 Hi) in Hm. discriminate. }
  split; [assumption|].
  pose proof (conservation_by_key w _ st outs bt k Hrun) as Hc.
  rewrite open_sum_entries, Hopen in Hc. change (esum bt k []) with 0 in Hc. lia.
Qed.

(* ================= an inserted stat is counted in its own window only ================= *)
Theorem exactly_one_window : forall w s, 0 < w -> 0 <= s_ts s ->
  let b := bucket_time w (s_ts s) in
  b = w * (s_ts s / w) /\ b <= s_ts s < b + w /\
  forall st bt k,
    open_sum bt k (fst (insert w s st)) =
    open_sum bt k st + (if (bt =? b) && String.eqb k (akey s) then s_value s else 0) /\
    ((bt =? b) && String.eqb k (akey s) = false -> lookup bt k (fst (insert w s st)) = lookup bt k st).
Proof.
  intros w s Hw Hts b. destruct (bucket_time_floor w (s_ts s) Hw Hts) as [H1 H2].
  split; [assumption|]. split; [assumption|]. intros st bt k. split.
  - apply insert_open_sum.
  - intros Hh. rewrite lookup_insert. unfold hits. fold b. now rewrite Hh.
Qed.

(* ================= when no goroutine panics ================= *)
Definition types_ok (st : buckets) : Prop :=
  forall e, In e (open_entries st) -> known_type (a_type (snd e)) = true.

Lemma aget_in_agg k (m : bucket) a : aget k m = Some a -> In (k, a) m.
Proof.
  induction m as [|[k1 a1] m IH]; simpl; [discriminate|].
  destruct (String.eqb_spec k k1) as [->|Hne]; intros H; [inversion H; now left|right; auto].
Qed.

Lemma in_open_entries st bt m k a : In (bt, m) st -> In (k, a) m -> In (bt, k, a) (open_entries st).
Proof.
  intros Hm Hk. unfold open_entries. apply in_flat_map. exists (bt, m). split; [assumption|].
  unfold entries_of. simpl. apply in_map_iff. exists (k, a). auto.
Qed.

Lemma scan_report_sub w now st e : In e (scan_report w now st) -> In e (open_entries st).
Proof.
  unfold scan_report, open_entries. intros H. apply in_flat_map in H. destruct H as [b [Hb He]].
  apply filter_In in Hb. apply in_flat_map. exists b. tauto.
Qed.
Lemma scan_keep_sub w now st e : In e (open_entries (scan_keep w now st)) -> In e (open_entries st).
Proof.
  unfold scan_keep, open_entries. intros H. apply in_flat_map in H. destruct H as [b [Hb He]].
  apply filter_In in Hb. apply in_flat_map. exists b. tauto.
Qed.

Lemma insert_entries w s st e :
  In e (open_entries (fst (insert w s st))) ->
  In e (open_entries st) \/
  exists a0, snd e = update a0 s /\
             (a0 = new_agg s (bucket_time w (s_ts s)) \/
              In (bucket_time w (s_ts s), akey s, a0) (open_entries st)).
Proof.
  unfold insert. set (b := bucket_time w (s_ts s)). set (ky := akey s).
  destruct e as [[bt k] a]. intros H. apply open_entries_in in H. destruct H as [m' [Hm' Hk]].
  destruct (zget b st) as [m|] eqn:Hz.
  - pose proof (zget_in _ _ _ Hz) as Hbm.
    destruct (aget ky m) as [a0|] eqn:Ha; simpl in Hm'; apply in_zset in Hm';
      (destruct Hm' as [Hm'|Hm']; [left; eapply in_open_entries; eauto|]);
      inversion Hm'; subst; apply in_aset_agg in Hk;
      (destruct Hk as [Hk|Hk]; [left; eapply in_open_entries; eauto|]);
      inversion Hk; subst; right; simpl.
    + exists a0. split; [reflexivity|]. right. apply aget_in_agg in Ha. eapply in_open_entries; eauto.
    + exists (new_agg s b). auto.
  - simpl in Hm'. apply in_zset in Hm'. destruct Hm' as [Hm'|Hm']; [left; eapply in_open_entries; eauto|].
    inversion Hm'; subst. destruct Hk as [Hk|[]]. inversion Hk; subst. right. simpl.
    exists (new_agg s b). auto.
Qed.

Lemma insert_panics w s st : types_ok st -> known_type (s_type s) = true -> snd (insert w s st) = false.
Proof.
  intros Hok Hs. unfold insert. set (b := bucket_time w (s_ts s)). set (ky := akey s).
  assert (Hnew : update_panics (new_agg s b) = false) by (unfold update_panics; simpl; now rewrite Hs).
  destruct (zget b st) as [m|] eqn:Hz; [|exact Hnew].
  destruct (aget ky m) as [a0|] eqn:Ha; [|exact Hnew]. simpl.
  unfold update_panics.
  assert (Hx : known_type (a_type a0) = true).
  { apply (Hok (b, ky, a0)). eapply in_open_entries; [apply zget_in; eassumption|now apply aget_in_agg]. }
  now rewrite Hx.
Qed.


Theorem no_panic : forall w evs, w <> 0 ->
  (forall s, In (Insert s) evs -> known_type (s_type s) = true) ->
  forall st, types_ok st -> snd (arun w st evs) = false.
Proof.
  intros w evs Hw. induction evs as [|e evs IH]; intros Hk st Hok; simpl; [reflexivity|].
  assert (Hk' : forall s, In (Insert s) evs -> known_type (s_type s) = true)
    by (intros s Hs; apply Hk; now right).
  destruct e as [s now|s|now]; simpl.
  - destruct (Z.eqb_spec w 0); [contradiction|].
    destruct (expired w (bucket_time w (s_ts s)) now);
      specialize (IH Hk' st Hok); destruct (arun w st evs) as [[? ?] ?]; exact IH.
  - pose proof (insert_panics w s st Hok (Hk s (or_introl eq_refl))) as Hp.
    destruct (insert w s st) as [sti pi] eqn:Hi. simpl in Hp. subst pi.
    assert (Hok' : types_ok sti).
    { intros e He. replace sti with (fst (insert w s st)) in He by now rewrite Hi.
      apply insert_entries in He. destruct He as [He|[a0 [Hu Ha0]]]; [auto|].
      rewrite Hu, update_type. destruct Ha0 as [->|Ha0]; [simpl; apply Hk; now left|].
      apply (Hok _ Ha0). }
    specialize (IH Hk' sti Hok'). destruct (arun w sti evs) as [[? ?] ?]; exact IH.
  - assert (Hsp : scan_panics w now st = false).
    { unfold scan_panics. apply not_true_iff_false. intros Hx. apply existsb_exists in Hx.
      destruct Hx as [e [He Hx]]. apply scan_report_sub in He. rewrite (Hok e He) in Hx. discriminate. }
    rewrite Hsp.
    assert (Hok' : types_ok (scan_keep w now st)) by (intros e He; apply Hok; now apply scan_keep_sub in He).
    specialize (IH Hk' _ Hok'). destruct (arun w (scan_keep w now st) evs) as [[? ?] ?]; exact IH.
Qed.

Corollary no_panic_from_empty w evs : w <> 0 ->
  forallb (fun s => known_type (s_type s)) (inserted evs) = true ->
  snd (arun w [] evs) = false.
Proof.
  intros Hw Hk. apply no_panic; [assumption| |intros e []].
  intros s Hs. rewrite forallb_forall in Hk. apply Hk. now apply in_inserted.
Qed.
