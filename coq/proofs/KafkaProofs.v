(* KafkaProofs.v — lemmas about model/Kafka.v (property C14). *)
From Bifrost.model Require Import Base Kafka.

(* ---------- association lists ---------- *)
Section AssocFacts.
  Context {V : Type}.
  Lemma aget_aset_same (k : string) (v : V) m : aget k (aset k v m) = Some v.
  Proof.
    induction m as [|[k' v'] m IH]; simpl.
    - now rewrite String.eqb_refl.
    - destruct (String.eqb k k') eqn:E; simpl; rewrite E; auto.
  Qed.
  Lemma aget_aset_other (k k0 : string) (v : V) m : k0 <> k -> aget k0 (aset k v m) = aget k0 m.
  Proof.
    intros Hne. induction m as [|[k' v'] m IH]; simpl.
    - destruct (String.eqb_spec k0 k); congruence.
    - destruct (String.eqb_spec k k') as [->|]; simpl.
      + destruct (String.eqb_spec k0 k'); congruence.
      + destruct (String.eqb k0 k'); auto.
  Qed.
  Lemma aset_keys_new (k : string) (v : V) m : aget k m = None -> map fst (aset k v m) = map fst m ++ [k].
  Proof.
    induction m as [|[k' v'] m IH]; simpl; [reflexivity|].
    destruct (String.eqb k k'); [discriminate|]. intros H. simpl. now rewrite IH.
  Qed.
  Lemma aset_keys_old (k : string) (v v0 : V) m : aget k m = Some v0 -> map fst (aset k v m) = map fst m.
  Proof.
    induction m as [|[k' v'] m IH]; simpl; [discriminate|].
    destruct (String.eqb k k'); [reflexivity|]. intros H. simpl. now rewrite IH.
  Qed.
  Lemma aget_none_notin (k : string) (m : list (string * V)) : aget k m = None -> ~ In k (map fst m).
  Proof.
    induction m as [|[k' v'] m IH]; simpl; [tauto|].
    destruct (String.eqb_spec k k') as [->|Hne]; [discriminate|]. intros H [E|Hin]; [congruence|]. now apply IH.
  Qed.
End AssocFacts.

(* ================================================================== *)
(* KafkaBatch                                                           *)
(* ================================================================== *)

(* the count recorded for delivery key k (0 when the key is absent) *)
Definition count_of (k : string) (t : txns) : Z :=
  match aget k t with Some p => snd p | None => 0%Z end.

(* an Add call that the ledger must hear about: a data message that was accepted or dropped as too big *)
Definition counted (m : kmsg) (x : ares) : bool :=
  negb (is_control m) && match x with AFull => false | _ => true end.

(* an Add call that put a message into the payload *)
Definition appended (m : kmsg) (x : ares) : bool :=
  negb (is_control m) && match x with AOk => true | _ => false end.

(* number of counted Add calls for delivery key k in a sequence of calls with their results *)
Definition tally (k : string) (ms : list kmsg) (xs : list ares) : Z :=
  Z.of_nat (List.length (filter (fun p => counted (fst p) (snd p) && String.eqb k (m_tbk (fst p)))
                                (combine ms xs))).

Lemma count_update k m t :
  count_of k (update_transactions m t) =
  (count_of k t + (if String.eqb k (m_tbk m) then 1 else 0))%Z.
Proof.
  unfold update_transactions, count_of.
  destruct (String.eqb_spec k (m_tbk m)) as [->|Hne].
  - destruct (aget (m_tbk m) t) as [[tx c]|] eqn:E; rewrite aget_aset_same; simpl; lia.
  - destruct (aget (m_tbk m) t) as [[tx c]|] eqn:E; rewrite aget_aset_other by assumption; lia.
Qed.

(* the keys of the transactions map stay duplicate free and in first-occurrence order *)
Lemma update_keys m t :
  map fst (update_transactions m t) =
  if existsb (String.eqb (m_tbk m)) (map fst t) then map fst t else map fst t ++ [m_tbk m].
Proof.
  unfold update_transactions.
  destruct (aget (m_tbk m) t) as [[tx c]|] eqn:E.
  - rewrite (aset_keys_old _ _ _ _ E).
    replace (existsb (String.eqb (m_tbk m)) (map fst t)) with true; [reflexivity|].
    symmetry. apply existsb_exists. exists (m_tbk m). split; [|apply String.eqb_refl].
    clear -E. induction t as [|[k' v'] t IH]; simpl in *; [discriminate|].
    destruct (String.eqb_spec (m_tbk m) k'); [now left|right; auto].
  - rewrite (aset_keys_new _ _ _ E).
    replace (existsb (String.eqb (m_tbk m)) (map fst t)) with false; [reflexivity|].
    symmetry. apply not_true_is_false. intros H. apply existsb_exists in H. destruct H as (x & Hin & Hx).
    apply String.eqb_eq in Hx. subst x. now apply (aget_none_notin _ _ E).
Qed.

Lemma NoDup_snoc {A} (l : list A) x : NoDup l -> ~ In x l -> NoDup (l ++ [x]).
Proof.
  induction 1 as [|a l Ha Hl IH]; simpl; intros Hx.
  - constructor; [tauto|constructor].
  - constructor.
    + intros Hin. apply in_app_or in Hin. destruct Hin as [Hin|[<-|[]]]; [tauto|]. apply Hx. now left.
    + apply IH. intros Hin. apply Hx. now right.
Qed.

Lemma update_nodup m t : NoDup (map fst t) -> NoDup (map fst (update_transactions m t)).
Proof.
  intros Hn. rewrite update_keys.
  destruct (existsb (String.eqb (m_tbk m)) (map fst t)) eqn:E; [assumption|].
  apply NoDup_snoc; [assumption|]. intros Hin.
  assert (existsb (String.eqb (m_tbk m)) (map fst t) = true); [|congruence].
  apply existsb_exists. exists (m_tbk m). split; [assumption|apply String.eqb_refl].
Qed.

(* ---------- one Add ---------- *)

(* BEGIN / COMMIT: accepted, nothing changes *)
Lemma add_control cfg b m : is_control m = true -> add cfg b m = (b, AOk).
Proof. unfold add. now intros ->. Qed.

(* a data message offered to a full batch: refused, nothing changes (not even the count) *)
Lemma add_full cfg b m :
  is_control m = false -> num_msgs b = c_max_batch cfg -> add cfg b m = (b, AFull).
Proof. unfold add. intros -> ->. now rewrite Z.eqb_refl. Qed.

(* the size rule, both directions *)
Lemma add_size_rule cfg b m :
  is_control m = false -> num_msgs b <> c_max_batch cfg ->
  ((36 + klen (key_for cfg m) + slen (m_json m) > c_max_bytes cfg)%Z ->
     add cfg b m = (mkKBatch (b_msgs b) (update_transactions m (b_txns b)) (b_bytes b), ATooBig)) /\
  ((36 + klen (key_for cfg m) + slen (m_json m) <= c_max_bytes cfg)%Z ->
     add cfg b m = (mkKBatch (b_msgs b ++ [to_pmsg cfg m]) (update_transactions m (b_txns b))
                             (b_bytes b + slen (m_json m))%Z, AOk)).
Proof.
  intros Hc Hf. unfold add. rewrite Hc.
  destruct (Z.eqb_spec (num_msgs b) (c_max_batch cfg)) as [E|_]; [contradiction|].
  unfold byte_size, to_pmsg, record_overhead; cbn [p_key p_value].
  destruct (Z.gtb_spec (36 + klen (key_for cfg m) + slen (m_json m)) (c_max_bytes cfg)); split; intros; try reflexivity; lia.
Qed.

Lemma add_count cfg b m b' x k : add cfg b m = (b', x) ->
  count_of k (b_txns b') =
  (count_of k (b_txns b) + (if counted m x && String.eqb k (m_tbk m) then 1 else 0))%Z.
Proof.
  unfold add, counted. destruct (is_control m); [intros H; inversion H; subst; simpl; lia|].
  destruct (num_msgs b =? c_max_batch cfg)%Z; [intros H; inversion H; subst; simpl; lia|].
  destruct (byte_size (to_pmsg cfg m) >? c_max_bytes cfg)%Z; intros H; inversion H; subst; simpl;
    rewrite count_update; reflexivity.
Qed.

Lemma add_msgs cfg b m b' x : add cfg b m = (b', x) ->
  b_msgs b' = b_msgs b ++ (if appended m x then [to_pmsg cfg m] else []).
Proof.
  unfold add, appended. destruct (is_control m); [intros H; inversion H; subst; simpl; now rewrite app_nil_r|].
  destruct (num_msgs b =? c_max_batch cfg)%Z; [intros H; inversion H; subst; simpl; now rewrite app_nil_r|].
  destruct (byte_size (to_pmsg cfg m) >? c_max_bytes cfg)%Z; intros H; inversion H; subst; simpl;
    [now rewrite app_nil_r|reflexivity].
Qed.

Lemma add_appended_fits cfg b m b' x : add cfg b m = (b', x) -> appended m x = true ->
  (byte_size (to_pmsg cfg m) <= c_max_bytes cfg)%Z /\ (num_msgs b <> c_max_batch cfg).
Proof.
  unfold add, appended. destruct (is_control m); [simpl; intros _ H; discriminate|].
  destruct (Z.eqb_spec (num_msgs b) (c_max_batch cfg)) as [E|NE]; [intros H; inversion H; subst; simpl; discriminate|].
  destruct (Z.gtb_spec (byte_size (to_pmsg cfg m)) (c_max_bytes cfg)) as [Hgt|Hle]; intros H; inversion H; subst; simpl;
    [discriminate|]. intros _. split; [lia|assumption].
Qed.

Lemma add_nodup cfg b m b' x : add cfg b m = (b', x) ->
  NoDup (map fst (b_txns b)) -> NoDup (map fst (b_txns b')).
Proof.
  unfold add. destruct (is_control m); [intros H; inversion H; subst; auto|].
  destruct (num_msgs b =? c_max_batch cfg)%Z; [intros H; inversion H; subst; auto|].
  destruct (byte_size (to_pmsg cfg m) >? c_max_bytes cfg)%Z; intros H; inversion H; subst; simpl;
    apply update_nodup.
Qed.

(* ---------- sequences of Add ---------- *)

Lemma add_run_length cfg : forall ms b b' xs, add_run cfg b ms = (b', xs) -> List.length xs = List.length ms.
Proof.
  induction ms as [|m ms IH]; intros b b' xs H; simpl in H.
  - now inversion H.
  - destruct (add cfg b m) as [b1 x]. destruct (add_run cfg b1 ms) as [b2 xs'] eqn:Hr.
    inversion H; subst. simpl. f_equal. eapply IH; eauto.
Qed.

(* every recorded result is the result of a real Add call on some state of the batch *)
Lemma add_run_in cfg : forall ms b b' xs, add_run cfg b ms = (b', xs) ->
  forall m x, In (m, x) (combine ms xs) -> exists b0 b1, add cfg b0 m = (b1, x).
Proof.
  induction ms as [|m ms IH]; intros b b' xs H m0 x0 Hin; simpl in H.
  - inversion H; subst. destruct Hin.
  - destruct (add cfg b m) as [b1 x] eqn:Ha. destruct (add_run cfg b1 ms) as [b2 xs'] eqn:Hr.
    inversion H; subst. simpl in Hin. destruct Hin as [E|Hin].
    + inversion E; subst. eauto.
    + eapply IH; eauto.
Qed.

Lemma count_run cfg k : forall ms b b' xs, add_run cfg b ms = (b', xs) ->
  count_of k (b_txns b') = (count_of k (b_txns b) + tally k ms xs)%Z.
Proof.
  induction ms as [|m ms IH]; intros b b' xs H; simpl in H.
  - inversion H; subst. unfold tally; simpl. lia.
  - destruct (add cfg b m) as [b1 x] eqn:Ha. destruct (add_run cfg b1 ms) as [b2 xs'] eqn:Hr.
    inversion H; subst.
    rewrite (IH _ _ _ Hr), (add_count _ _ _ _ _ k Ha). unfold tally; simpl.
    destruct (counted m x && String.eqb k (m_tbk m)); simpl List.length; lia.
Qed.

(* the payload is, in order, exactly the images of the messages whose Add appended *)
Lemma msgs_run cfg : forall ms b b' xs, add_run cfg b ms = (b', xs) ->
  b_msgs b' = b_msgs b ++ map (fun p => to_pmsg cfg (fst p))
                              (filter (fun p => appended (fst p) (snd p)) (combine ms xs)).
Proof.
  induction ms as [|m ms IH]; intros b b' xs H; simpl in H.
  - inversion H; subst. simpl. now rewrite app_nil_r.
  - destruct (add cfg b m) as [b1 x] eqn:Ha. destruct (add_run cfg b1 ms) as [b2 xs'] eqn:Hr.
    inversion H; subst.
    rewrite (IH _ _ _ Hr), (add_msgs _ _ _ _ _ Ha). simpl.
    destruct (appended m x); simpl; rewrite <- app_assoc; reflexivity.
Qed.

Lemma nodup_run cfg : forall ms b b' xs, add_run cfg b ms = (b', xs) ->
  NoDup (map fst (b_txns b)) -> NoDup (map fst (b_txns b')).
Proof.
  induction ms as [|m ms IH]; intros b b' xs H Hn; simpl in H.
  - now inversion H; subst.
  - destruct (add cfg b m) as [b1 x] eqn:Ha. destruct (add_run cfg b1 ms) as [b2 xs'] eqn:Hr.
    inversion H; subst. eapply IH; eauto. eapply add_nodup; eauto.
Qed.

(* the observation run and the plain run agree on the batch and on the results *)
Lemma add_run_obs_agrees cfg : forall ms b,
  fst (add_run_obs cfg b ms) = fst (add_run cfg b ms) /\
  map (fun o : aobs => let '(x, _, _, _, _) := o in x) (snd (add_run_obs cfg b ms)) = snd (add_run cfg b ms).
Proof.
  induction ms as [|m ms IH]; intros b; simpl; [auto|].
  destruct (add cfg b m) as [b1 x]. specialize (IH b1).
  destruct (add_run_obs cfg b1 ms) as [b2 os]. destruct (add_run cfg b1 ms) as [b3 xs]. simpl in *.
  destruct IH as [-> ->]. auto.
Qed.

(* ---------- statements about a built batch ---------- *)

(* C14 count conservation *)
Lemma build_count_conservation : forall cfg ms k,
  count_of k (b_txns (build cfg ms)) = tally k ms (snd (add_run cfg empty_batch ms)).
Proof.
  intros cfg ms k. unfold build.
  destruct (add_run cfg empty_batch ms) as [b xs] eqn:H. simpl.
  rewrite (count_run cfg k _ _ _ _ H). unfold count_of. simpl. lia.
Qed.

Lemma build_txn_keys_nodup : forall cfg ms, NoDup (map fst (b_txns (build cfg ms))).
Proof.
  intros cfg ms. unfold build. destruct (add_run cfg empty_batch ms) as [b xs] eqn:H. simpl.
  eapply nodup_run; eauto. constructor.
Qed.

(* C14 message: exact, order preserving form *)
Lemma build_payload_exact : forall cfg ms,
  b_msgs (build cfg ms) =
  map (fun p => to_pmsg cfg (fst p))
      (filter (fun p => appended (fst p) (snd p)) (combine ms (snd (add_run cfg empty_batch ms)))).
Proof.
  intros cfg ms. unfold build. destruct (add_run cfg empty_batch ms) as [b xs] eqn:H. simpl.
  now rewrite (msgs_run cfg _ _ _ _ H).
Qed.

(* C14 message: every produced message carries the JSON of a data message of the batch as value,
   the key the method dictates, the configured topic, and fits the size limit *)
Lemma build_payload_message : forall cfg ms p, In p (b_msgs (build cfg ms)) ->
  exists m, In m ms /\ is_control m = false /\
    p_value p = m_json m /\ p_topic p = c_topic cfg /\
    p_key p = match c_method cfg with
              | KTxn => Some (m_tbk m)
              | KTxnConst => Some (m_txn m)
              | KBatch => Some (c_uuid cfg)
              | KTableName => Some (m_table m)
              | KRandom => None
              end /\
    (36 + klen (p_key p) + slen (p_value p) <= c_max_bytes cfg)%Z.
Proof.
  intros cfg ms p Hin. rewrite build_payload_exact in Hin.
  destruct (add_run cfg empty_batch ms) as [b xs] eqn:H. simpl in Hin.
  apply in_map_iff in Hin. destruct Hin as ([m x] & <- & Hf). simpl.
  apply filter_In in Hf. destruct Hf as [Hc Ha]. simpl in Ha.
  exists m. split; [eapply in_combine_l; eauto|].
  destruct (add_run_in cfg _ _ _ _ H _ _ Hc) as (b0 & b1 & Hadd).
  destruct (add_appended_fits _ _ _ _ _ Hadd Ha) as [Hsz _].
  unfold appended in Ha. apply andb_true_iff in Ha. destruct Ha as [Hctl _].
  apply negb_true_iff in Hctl.
  split; [assumption|]. split; [reflexivity|]. split; [reflexivity|].
  split; [unfold key_for; destruct (c_method cfg); reflexivity|].
  unfold byte_size, record_overhead, to_pmsg in Hsz. cbn [p_key p_value] in Hsz. exact Hsz.
Qed.

(* ================================================================== *)
(* KafkaTransporter                                                     *)
(* ================================================================== *)

(* vocabulary of the property *)
Definition is_kafka_batch (s : tstep) : Prop := exists cfg ms, s_batch s = TKafka cfg ms.
Definition producer_accepted_all (s : tstep) : Prop := s_result s = PAllOk.
Definition cancelled_before_send (s : tstep) : Prop :=
  s_cancel s = CBeforeRecv \/ s_cancel s = CBeforeSend.
(* the producer reported failed messages (any set, even empty) or a foreign error, or the batch was
   not a Kafka batch, and shutdown had not been requested before the send *)
Definition failure (s : tstep) : Prop :=
  ~ cancelled_before_send s /\
  (~ is_kafka_batch s \/ (exists rej, s_result s = PFailed rej) \/ s_result s = POther).

(* the iteration leaves the worker in its loop with the context intact *)
Definition continues (s : tstep) : bool :=
  match s_batch s, s_result s, s_cancel s with
  | TKafka _ _, PAllOk, CNone => true
  | _, _, _ => false
  end.

(* batch i is reached: every earlier batch was fully accepted and no cancellation happened *)
Definition reached (sc : list tstep) (i : nat) : Prop := forallb continues (firstn i sc) = true.

Definition obs_of (s : tstep) : tobs := fst (fst (iterate s)).
Definition stats_of (s : tstep) : list stat := snd (fst (iterate s)).

Definition obs_at (r : trun) (i : nat) : option tobs := nth_error (r_obs r) i.
Definition written_at (r : trun) (i : nat) : option txns :=
  match obs_at r i with Some o => o_written o | None => None end.
Definition sent_at (r : trun) (i : nat) : option (list pmsg) :=
  match obs_at r i with Some o => o_sent o | None => None end.

(* ---------- one iteration ---------- *)

Lemma tloop_true sc : tloop true sc = shutdown_run [] [].
Proof. destruct sc; reflexivity. Qed.

Lemma tloop_step s rest :
  (continues s = true /\ tloop false (s :: rest) = run_cons (obs_of s) (stats_of s) (tloop false rest)) \/
  (continues s = false /\ tloop false (s :: rest) = shutdown_run [obs_of s] (stats_of s)).
Proof.
  unfold obs_of, stats_of, continues.
  destruct s as [b cp pr]; destruct b as [cfg ms|], cp, pr; cbn -[build];
    try (left; split; reflexivity); right; split; try reflexivity;
    rewrite ?tloop_true; unfold run_cons, shutdown_run; cbn -[build]; rewrite ?app_nil_r; reflexivity.
Qed.

(* what an iteration reports, by the three inputs *)
Lemma obs_written_iff s :
  o_written (obs_of s) <> None <->
  is_kafka_batch s /\ producer_accepted_all s /\ ~ cancelled_before_send s.
Proof.
  unfold obs_of, is_kafka_batch, producer_accepted_all, cancelled_before_send.
  destruct s as [b cp pr]; destruct b as [cfg ms|], cp, pr; cbn -[build]; split;
    try (intros H; exfalso; apply H; reflexivity);
    try (intros (_ & H & _); discriminate H);
    try (intros ((c0 & m0 & H) & _); discriminate H);
    try (intros (_ & _ & H); exfalso; apply H; auto; fail);
    try (intros _; discriminate);
    try (intros _; split; [eauto|split; [reflexivity|intros [H|H]; discriminate H]]).
Qed.

Lemma obs_written_value s t : o_written (obs_of s) = Some t ->
  exists cfg ms, s_batch s = TKafka cfg ms /\ t = b_txns (build cfg ms) /\
                 o_sent (obs_of s) = Some (b_msgs (build cfg ms)).
Proof.
  unfold obs_of.
  destruct s as [b cp pr]; destruct b as [cfg ms|], cp, pr; cbn -[build]; intros H;
    try discriminate H; inversion H; subst; eauto.
Qed.

(* whatever the producer is handed is the payload of the batch, and nothing is handed over once
   cancellation was seen before the send *)
Lemma obs_sent_value s l : o_sent (obs_of s) = Some l ->
  ~ cancelled_before_send s /\ exists cfg ms, s_batch s = TKafka cfg ms /\ l = b_msgs (build cfg ms).
Proof.
  unfold obs_of, cancelled_before_send.
  destruct s as [b cp pr]; destruct b as [cfg ms|], cp, pr; cbn -[build]; intros H;
    try discriminate H; inversion H; subst; (split; [intros [E|E]; discriminate E|eauto]).
Qed.

Lemma continues_written s : continues s = true -> o_written (obs_of s) <> None.
Proof.
  unfold continues, obs_of.
  destruct s as [b cp pr]; destruct b as [cfg ms|], cp, pr; cbn -[build]; intros H;
    try discriminate H; discriminate.
Qed.

(* ---------- the loop ---------- *)

Lemma obs_reached : forall sc i s, reached sc i -> nth_error sc i = Some s ->
  obs_at (tloop false sc) i = Some (obs_of s).
Proof.
  unfold reached, obs_at.
  induction sc as [|s0 sc IH]; intros i s Hr Hn; [destruct i; discriminate|].
  destruct i as [|i].
  - simpl in Hn. inversion Hn; subst.
    destruct (tloop_step s sc) as [[_ ->]|[_ ->]]; reflexivity.
  - simpl in Hn, Hr. apply andb_true_iff in Hr. destruct Hr as [Hc Hr].
    destruct (tloop_step s0 sc) as [[_ ->]|[Hf _]]; [|congruence].
    simpl. now apply IH.
Qed.

Lemma obs_not_reached : forall sc i, ~ reached sc i -> obs_at (tloop false sc) i = None.
Proof.
  unfold reached, obs_at.
  induction sc as [|s0 sc IH]; intros i Hr.
  - destruct i; simpl in Hr; exfalso; apply Hr; reflexivity.
  - destruct i as [|i]; [exfalso; apply Hr; reflexivity|].
    simpl in Hr.
    destruct (tloop_step s0 sc) as [[Hc ->]|[Hc ->]].
    + simpl. apply IH. rewrite Hc in Hr. exact Hr.
    + simpl. now destruct i.
Qed.

(* once a batch does not "continue", the run is over right after its observation *)
Lemma stop_at : forall sc i s, reached sc i -> nth_error sc i = Some s -> continues s = false ->
  let r := tloop false sc in
  List.length (r_obs r) = S i /\ r_stopped r = true /\ r_terminated r = true /\
  r_closes r = 1%N /\ r_chan_closed r = true.
Proof.
  unfold reached.
  induction sc as [|s0 sc IH]; intros i s Hr Hn Hc; [destruct i; discriminate|].
  destruct i as [|i].
  - simpl in Hn. inversion Hn; subst.
    destruct (tloop_step s sc) as [[Hc' _]|[_ ->]]; [congruence|]. simpl. auto.
  - simpl in Hn, Hr. apply andb_true_iff in Hr. destruct Hr as [Hc0 Hr].
    destruct (tloop_step s0 sc) as [[_ ->]|[Hf _]]; [|congruence].
    destruct (IH i s Hr Hn Hc) as (H1 & H2 & H3 & H4 & H5). simpl. auto.
Qed.

(* a script in which every batch continues leaves the worker alive, context intact, producer open *)
Lemma alive_at_end : forall sc, forallb continues sc = true ->
  let r := tloop false sc in
  List.length (r_obs r) = List.length sc /\ r_stopped r = false /\ r_terminated r = false /\
  r_closes r = 0%N /\ r_chan_closed r = false.
Proof.
  induction sc as [|s0 sc IH]; intros H; [simpl; auto|].
  simpl in H. apply andb_true_iff in H. destruct H as [Hc H].
  destruct (tloop_step s0 sc) as [[_ ->]|[Hf _]]; [|congruence].
  destruct (IH H) as (H1 & H2 & H3 & H4 & H5). simpl. auto.
Qed.

(* any non-continuing batch anywhere in the script: the run ends stopped and terminated *)
Lemma stopped_if_some_stop : forall sc, forallb continues sc = false ->
  let r := tloop false sc in
  r_stopped r = true /\ r_terminated r = true /\ r_closes r = 1%N /\ r_chan_closed r = true.
Proof.
  induction sc as [|s0 sc IH]; intros H; [discriminate|].
  simpl in H.
  destruct (tloop_step s0 sc) as [[Hc ->]|[Hc ->]].
  - rewrite Hc in H. simpl in H. destruct (IH H) as (H2 & H3 & H4 & H5). simpl. auto.
  - simpl. auto.
Qed.

Lemma firstn_has_stop : forall sc i j s, nth_error sc i = Some s -> continues s = false -> i < j ->
  forallb continues (firstn j sc) = false.
Proof.
  induction sc as [|s0 sc IH]; intros i j s Hn Hc Hlt; [destruct i; discriminate|].
  destruct j as [|j]; [lia|]. simpl.
  destruct i as [|i].
  - simpl in Hn. inversion Hn; subst. now rewrite Hc.
  - simpl in Hn. rewrite (IH i j s Hn Hc) by lia. apply andb_false_r.
Qed.

Lemma has_stop : forall sc i s, nth_error sc i = Some s -> continues s = false ->
  forallb continues sc = false.
Proof.
  induction sc as [|s0 sc IH]; intros i s Hn Hc; [destruct i; discriminate|].
  simpl. destruct i as [|i]; simpl in Hn.
  - inversion Hn; subst. now rewrite Hc.
  - rewrite (IH i s Hn Hc). apply andb_false_r.
Qed.

Lemma no_obs_after_stop : forall sc i s j, nth_error sc i = Some s -> continues s = false -> i < j ->
  obs_at (tloop false sc) j = None.
Proof.
  intros sc i s j Hn Hc Hlt. apply obs_not_reached. unfold reached.
  rewrite (firstn_has_stop sc i j s Hn Hc Hlt). discriminate.
Qed.

Lemma not_continues_of_failure s : failure s -> continues s = false.
Proof.
  unfold failure, continues, is_kafka_batch.
  destruct s as [b cp pr]; destruct b as [cfg ms|], cp, pr; cbn; intros [Hc H]; try reflexivity.
  exfalso. destruct H as [H|[[rej H]|H]]; try discriminate H. apply H; eauto.
Qed.

Lemma failure_not_written s : failure s -> o_written (obs_of s) = None.
Proof.
  intros Hf. destruct (o_written (obs_of s)) eqn:E; [|reflexivity]. exfalso.
  assert (Hw : o_written (obs_of s) <> None) by (rewrite E; discriminate).
  apply obs_written_iff in Hw. destruct Hw as (Hk & Ha & _).
  destruct Hf as [_ [H|[[rej H]|H]]]; [tauto| |]; unfold producer_accepted_all in Ha; congruence.
Qed.

(* ---------- C14, transporter part ---------- *)

(* written iff reached, Kafka batch, producer accepted everything, no cancellation before the send;
   and what is written is the batch's own transactions map, after the batch's own payload was sent *)
Theorem transport_written_iff : forall sc i s, nth_error sc i = Some s ->
  (written_at (transport sc) i <> None <->
   reached sc i /\ is_kafka_batch s /\ producer_accepted_all s /\ ~ cancelled_before_send s) /\
  (forall t, written_at (transport sc) i = Some t ->
     exists cfg ms, s_batch s = TKafka cfg ms /\ t = b_txns (build cfg ms) /\
                    sent_at (transport sc) i = Some (b_msgs (build cfg ms))).
Proof.
  intros sc i s Hn. unfold transport, written_at, sent_at.
  destruct (forallb continues (firstn i sc)) eqn:Hr.
  - rewrite (obs_reached sc i s Hr Hn). split.
    + rewrite obs_written_iff. unfold reached. tauto.
    + intros t Ht. exact (obs_written_value s t Ht).
  - assert (Hnr : ~ reached sc i) by (unfold reached; congruence).
    rewrite (obs_not_reached sc i Hnr). split.
    + split; [intros H; now elim H|intros [H _]; contradiction].
    + intros t Ht. discriminate.
Qed.

(* fail-stop *)
Theorem transport_fail_stop : forall sc i s, nth_error sc i = Some s -> failure s ->
  let r := transport sc in
  written_at r i = None /\
  r_stopped r = true /\ r_terminated r = true /\ r_closes r = 1%N /\ r_chan_closed r = true /\
  (forall j, i < j -> obs_at r j = None) /\
  (reached sc i -> List.length (r_obs r) = S i).
Proof.
  intros sc i s Hn Hf. cbv zeta. unfold transport.
  pose proof (not_continues_of_failure s Hf) as Hc.
  split.
  - unfold written_at. destruct (forallb continues (firstn i sc)) eqn:Hr.
    + rewrite (obs_reached sc i s Hr Hn). now apply failure_not_written.
    + rewrite obs_not_reached; [reflexivity|]. unfold reached. congruence.
  - destruct (stopped_if_some_stop sc (has_stop sc i s Hn Hc)) as (H2 & H3 & H4 & H5).
    repeat (split; [assumption|]). split.
    + intros j Hlt. exact (no_obs_after_stop sc i s j Hn Hc Hlt).
    + intros Hr. exact (proj1 (stop_at sc i s Hr Hn Hc)).
Qed.

(* no hole, whatever the reason: a reached batch that is not reported written is the last thing
   the worker ever looks at, and the process is told to terminate *)
Theorem transport_no_hole : forall sc i s, nth_error sc i = Some s -> reached sc i ->
  let r := transport sc in
  written_at r i = None ->
  List.length (r_obs r) = S i /\ r_stopped r = true /\ r_terminated r = true /\
  r_closes r = 1%N /\ r_chan_closed r = true.
Proof.
  intros sc i s Hn Hr. cbv zeta. unfold transport, written_at. rewrite (obs_reached sc i s Hr Hn).
  intros Hw. apply (stop_at sc i s Hr Hn).
  destruct (continues s) eqn:Hc; [|reflexivity]. exfalso. now apply (continues_written s Hc).
Qed.

(* every message ever handed to the producer is a message of C14_message's form *)
Theorem transport_sent_messages : forall sc i l p, sent_at (transport sc) i = Some l -> In p l ->
  exists s cfg ms m, nth_error sc i = Some s /\ s_batch s = TKafka cfg ms /\ ~ cancelled_before_send s /\
    l = b_msgs (build cfg ms) /\ In m ms /\ is_control m = false /\
    p_value p = m_json m /\ p_key p = key_for cfg m /\ p_topic p = c_topic cfg.
Proof.
  intros sc i l p Hs Hin. unfold transport, sent_at in Hs.
  destruct (nth_error sc i) as [s|] eqn:Hn.
  - destruct (forallb continues (firstn i sc)) eqn:Hr.
    + rewrite (obs_reached sc i s Hr Hn) in Hs.
      destruct (obs_sent_value s l Hs) as (Hnc & cfg & ms & Hb & ->).
      destruct (build_payload_message cfg ms p Hin) as (m & Hm & Hctl & Hv & Ht & Hk & _).
      exists s, cfg, ms, m. split; [reflexivity|]. split; [exact Hb|]. split; [exact Hnc|].
      split; [reflexivity|]. split; [exact Hm|]. split; [exact Hctl|]. split; [exact Hv|].
      split; [|exact Ht].
      rewrite Hk. unfold key_for. destruct (c_method cfg); reflexivity.
    + rewrite obs_not_reached in Hs; [discriminate|]. unfold reached. congruence.
  - (* beyond the script: nothing is observed *)
    exfalso. revert Hs. generalize false at 1.
    assert (Hlen : forall sc d, List.length (r_obs (tloop d sc)) <= List.length sc).
    { clear. induction sc as [|s0 sc IH]; intros d; destruct d; simpl; try lia.
      destruct (iterate s0) as [[o st] f]. destruct f; simpl; [|lia]. specialize (IH ctx_done). lia. }
    intros d Hs. unfold obs_at in Hs.
    apply nth_error_None in Hn. specialize (Hlen sc d).
    assert (nth_error (r_obs (tloop d sc)) i = None) by (apply nth_error_None; lia).
    rewrite H in Hs. discriminate.
Qed.

(* ---------- C14 size rule with the count, as one statement ---------- *)
Theorem add_size_rule_counted : forall cfg b m,
  is_control m = false -> num_msgs b <> c_max_batch cfg ->
  let size := (36 + klen (key_for cfg m) + slen (m_json m))%Z in
  ((size > c_max_bytes cfg)%Z ->
     exists b', add cfg b m = (b', ATooBig) /\
       b_msgs b' = b_msgs b /\ b_bytes b' = b_bytes b /\
       count_of (m_tbk m) (b_txns b') = (count_of (m_tbk m) (b_txns b) + 1)%Z) /\
  ((size <= c_max_bytes cfg)%Z ->
     exists b', add cfg b m = (b', AOk) /\
       b_msgs b' = b_msgs b ++ [to_pmsg cfg m] /\ b_bytes b' = (b_bytes b + slen (m_json m))%Z /\
       count_of (m_tbk m) (b_txns b') = (count_of (m_tbk m) (b_txns b) + 1)%Z).
Proof.
  intros cfg b m Hc Hf. cbv zeta.
  destruct (add_size_rule cfg b m Hc Hf) as [Hbig Hfit].
  split; intros Hs; [specialize (Hbig Hs)|specialize (Hfit Hs)]; eexists; (split; [eassumption|]); simpl;
    (split; [reflexivity|]); (split; [reflexivity|]); rewrite count_update, String.eqb_refl; reflexivity.
Qed.

(* nothing else moves: BEGIN/COMMIT and Adds to a full batch leave the batch as it was *)
Theorem add_ignored : forall cfg b m,
  (is_control m = true -> add cfg b m = (b, AOk)) /\
  (is_control m = false -> num_msgs b = c_max_batch cfg -> add cfg b m = (b, AFull)).
Proof. intros. split; [apply add_control|apply add_full]. Qed.
