(* S3Proofs.v — lemmas about model/S3.v: byte-string facts, decimal rendering is injective and
   made of digits, DateString produces five digit strings (the last of length 14), the key
   computed by key_join for every key space, its agreement with the stated format for every
   key space (after fix 2b60f29), injectivity of the key in (upload second, first LSN), one record per
   line, and the upload loop / worker: every attempt of a batch is handed a reader at offset 0
   over gzip(this batch's records), whatever the buffer-reuse history. *)
From Bifrost.model Require Import Base S3.
From Coq Require Import ZifyN ZifyNat ZifyBool.

(* ---------- strings ---------- *)
Lemma sapp_assoc (a b c : string) : ((a ++ b) ++ c)%string = (a ++ (b ++ c))%string.
Proof. induction a; simpl; congruence. Qed.
Lemma sapp_nil_r (a : string) : (a ++ "")%string = a.
Proof. induction a; simpl; congruence. Qed.
Lemma slen_app (a b : string) : length (a ++ b) = (length a + length b)%nat.
Proof. induction a; simpl; congruence. Qed.
Lemma sapp_inv_head (a b c : string) : (a ++ b)%string = (a ++ c)%string -> b = c.
Proof. induction a; simpl; intros H; auto. inversion H; auto. Qed.
Lemma sapp_same_len (a b c d : string) :
  (a ++ b)%string = (c ++ d)%string -> length a = length c -> a = c /\ b = d.
Proof.
  revert c. induction a as [|x a IH]; intros [|y c]; simpl; intros H L; try discriminate; auto.
  inversion H; subst. destruct (IH c H2) as [-> ->]; auto.
Qed.
Lemma sapp_same_len_tail (a b c d : string) :
  (a ++ b)%string = (c ++ d)%string -> length b = length d -> a = c /\ b = d.
Proof.
  intros H L. apply sapp_same_len; auto.
  assert (E : length (a ++ b) = length (c ++ d)) by (rewrite H; reflexivity).
  rewrite !slen_app in E. lia.
Qed.
Lemma sapp_inv_tail (a c b : string) : (a ++ b)%string = (c ++ b)%string -> a = c.
Proof. intros H. apply (sapp_same_len_tail a b c b); auto. Qed.

Lemma stake_sdrop n s : (stake n s ++ sdrop n s)%string = s.
Proof. revert s; induction n; intros [|c s]; simpl; auto. now rewrite IHn. Qed.
Lemma sdrop_0 s : sdrop 0 s = s.
Proof. destruct s; reflexivity. Qed.
Lemma stake_all n s : (length s <= n)%nat -> stake n s = s.
Proof. revert s; induction n; intros [|c s]; simpl; intros H; auto; try lia. rewrite IHn; auto; lia. Qed.

(* every character satisfies p *)
Fixpoint sall (p : ascii -> bool) (s : string) : bool :=
  match s with EmptyString => true | String c r => p c && sall p r end.
Lemma sall_app p a b : sall p (a ++ b) = sall p a && sall p b.
Proof. induction a; simpl; auto. rewrite IHa. now rewrite andb_assoc. Qed.
Lemma sall_impl (p q : ascii -> bool) s : (forall c, p c = true -> q c = true) -> sall p s = true -> sall q s = true.
Proof. intros I. induction s; simpl; auto. rewrite !andb_true_iff. intuition. Qed.

Definition nonslash (c : ascii) : bool := negb (is_slash c).
Definition strip (s : string) : string := trim_left (trim_right s).

Lemma trim_left_nonslash s : sall nonslash s = true -> trim_left s = s.
Proof. destruct s; simpl; auto. unfold nonslash. destruct (is_slash a); simpl; auto; discriminate. Qed.
Lemma trim_right_nonslash s : sall nonslash s = true -> trim_right s = s.
Proof.
  induction s; simpl; auto. unfold nonslash at 1. rewrite andb_true_iff. intros [Ha Hs].
  rewrite IHs by auto. destruct s; auto. destruct (is_slash a); auto; discriminate.
Qed.
Lemma strip_nonslash s : sall nonslash s = true -> strip s = s.
Proof. intros H. unfold strip. rewrite trim_right_nonslash by auto. now apply trim_left_nonslash. Qed.

(* a path component that key_join writes unchanged *)
Definition wf_comp (s : string) : bool := negb (String.eqb s "") && sall nonslash s.

(* what key_join writes for a component that is not the last / that is the last *)
Definition comp (s : string) : string :=
  if String.eqb (strip s) "" then "" else (strip s ++ "/")%string.
Definition comp_last (s : string) : string :=
  if String.eqb (strip s) "" then "" else strip s.

Lemma key_join6 a b c d e f :
  key_join [a; b; c; d; e; f] =
  (comp a ++ comp b ++ comp c ++ comp d ++ comp e ++ comp_last f ++ ".gz")%string.
Proof.
  unfold key_join, comp, comp_last, strip. simpl.
  destruct (trim_left (trim_right f) =? "")%string; rewrite ?sapp_nil_r; reflexivity.
Qed.
(* ---------- decimal rendering ---------- *)
Definition is_digit (c : ascii) : bool := let n := N_of_ascii c in (48 <=? n)%N && (n <=? 57)%N.
Definition notus (c : ascii) : bool := negb (Ascii.eqb c "_").

Lemma digit_cases (P : N -> Prop) d : (d < 10)%N ->
  P 0%N -> P 1%N -> P 2%N -> P 3%N -> P 4%N -> P 5%N -> P 6%N -> P 7%N -> P 8%N -> P 9%N -> P d.
Proof.
  intros H. assert (E : (d = 0 \/ d = 1 \/ d = 2 \/ d = 3 \/ d = 4 \/ d = 5 \/ d = 6 \/ d = 7 \/ d = 8 \/ d = 9)%N) by lia.
  intuition subst; assumption.
Qed.
Lemma digit_is_digit d : (d < 10)%N -> is_digit (digit d) = true.
Proof. intros H. apply (digit_cases (fun d => is_digit (digit d) = true) d H); reflexivity. Qed.
Lemma digit_val d : (d < 10)%N -> (N_of_ascii (digit d) - 48 = d)%N.
Proof. intros H. apply (digit_cases (fun d => (N_of_ascii (digit d) - 48 = d)%N) d H); reflexivity. Qed.

Lemma is_digit_nonslash c : is_digit c = true -> nonslash c = true.
Proof. unfold nonslash, is_slash. destruct (Ascii.eqb_spec c "/"); subst; [discriminate|auto]. Qed.
Lemma is_digit_notus c : is_digit c = true -> notus c = true.
Proof. unfold notus. destruct (Ascii.eqb_spec c "_"); subst; [discriminate|auto]. Qed.

Lemma dec_fuel_digits f : forall n acc,
  sall is_digit acc = true -> sall is_digit (dec_fuel f n acc) = true.
Proof.
  induction f; simpl; auto. intros n acc H.
  assert (D : sall is_digit (String (digit (n mod 10)) acc) = true).
  { simpl. rewrite H, digit_is_digit; auto. apply N.mod_lt. discriminate. }
  destruct (n <? 10)%N; auto.
Qed.
Lemma dec_digits n : sall is_digit (dec n) = true.
Proof. apply dec_fuel_digits. reflexivity. Qed.

Lemma dec_fuel_len f : forall n acc, (length acc <= length (dec_fuel f n acc))%nat.
Proof.
  induction f; simpl; auto. intros n acc. destruct (n <? 10)%N; simpl; [lia|].
  specialize (IHf (n / 10)%N (String (digit (n mod 10)) acc)). simpl in IHf. lia.
Qed.
Lemma dec_nonempty n : dec n <> "".
Proof.
  unfold dec. simpl. destruct (n <? 10)%N; [discriminate|].
  intros E. pose proof (dec_fuel_len (N.to_nat (N.log2 n)) (n / 10)%N (String (digit (n mod 10)) "")) as L.
  rewrite E in L. simpl in L. lia.
Qed.

(* value of a digit string, most significant first *)
Fixpoint sval (a : N) (s : string) : N :=
  match s with EmptyString => a | String c r => sval (10 * a + (N_of_ascii c - 48))%N r end.

Lemma dec_fuel_val f : forall n acc, (n < 2 ^ N.of_nat f)%N -> sval 0 (dec_fuel f n acc) = sval n acc.
Proof.
  induction f; intros n acc H.
  - simpl in *. assert (n = 0%N) by lia. now subst.
  - cbn [dec_fuel]. destruct (N.ltb_spec n 10).
    + cbn [sval]. rewrite digit_val by (apply N.mod_lt; discriminate).
      rewrite N.mod_small by auto. f_equal.
    + rewrite IHf.
      * cbn [sval]. rewrite digit_val by (apply N.mod_lt; discriminate).
        f_equal. symmetry. apply N.div_mod. discriminate.
      * apply N.div_lt_upper_bound; [discriminate|].
        rewrite Nat2N.inj_succ, N.pow_succ_r' in H. lia.
Qed.
Lemma dec_val n : sval 0 (dec n) = n.
Proof.
  unfold dec. rewrite dec_fuel_val; [reflexivity|].
  rewrite Nat2N.inj_succ, N2Nat.id.
  destruct (N.eq_dec n 0) as [->|Hn]; [reflexivity|].
  apply N.log2_spec. lia.
Qed.
Lemma dec_inj a b : dec a = dec b -> a = b.
Proof. intros H. rewrite <- (dec_val a), <- (dec_val b). now rewrite H. Qed.

(* the last "_" of a string determines the split *)
Lemma split_last_us s1 : forall s2 d1 d2,
  sall notus d1 = true -> sall notus d2 = true ->
  (s1 ++ "_" ++ d1)%string = (s2 ++ "_" ++ d2)%string -> s1 = s2 /\ d1 = d2.
Proof.
  induction s1 as [|x s1 IH]; intros [|y s2] d1 d2 H1 H2 E; simpl in E.
  - inversion E; auto.
  - inversion E; subst. rewrite sall_app in H1. simpl in H1.
    rewrite andb_true_iff in H1. destruct H1 as [_ H1]. discriminate.
  - inversion E; subst. rewrite sall_app in H2. simpl in H2.
    rewrite andb_true_iff in H2. destruct H2 as [_ H2]. discriminate.
  - inversion E; subst. destruct (IH s2 d1 d2 H1 H2 H3) as [-> ->]. auto.
Qed.

(* ---------- DateString ---------- *)
Definition digits (s : string) : bool := negb (String.eqb s "") && sall is_digit s.
(* what the key theorems need of a clock reading: five non-empty digit strings, the last of
   length 14 (yyyymmddhhmmss) *)
Definition wf_time (t : tstamp) : bool :=
  digits (t_year t) && digits (t_month t) && digits (t_day t) && digits (t_hour t) &&
  digits (t_full t) && Nat.eqb (length (t_full t)) 14.

Lemma sweep (P : N -> bool) (k : nat) :
  forallb P (map N.of_nat (seq 0 k)) = true -> forall n, (n < N.of_nat k)%N -> P n = true.
Proof.
  intros H n Hn. rewrite forallb_forall in H. apply H. apply in_map_iff.
  exists (N.to_nat n). split; [lia|]. apply in_seq. lia.
Qed.

Definition pad2_good (n : N) : bool := digits (pad2 n) && Nat.eqb (length (pad2 n)) 2.
Definition pad4_good (n : N) : bool := digits (pad4 n) && Nat.eqb (length (pad4 n)) 4 && digits (dec n).

Lemma pad2_ok n : (n < 100)%N -> pad2_good n = true.
Proof. apply (sweep pad2_good 100). vm_compute. reflexivity. Qed.
Lemma pad4_ok n : (n < 10000)%N -> pad4_good n = true.
Proof. apply (sweep pad4_good (100 * 100)). vm_compute. reflexivity. Qed.

Lemma date_string_wf Y M D h mi s :
  (Y < 10000)%N -> (M < 100)%N -> (D < 100)%N -> (h < 100)%N -> (mi < 100)%N -> (s < 100)%N ->
  wf_time (date_string Y M D h mi s) = true.
Proof.
  intros HY HM HD Hh Hmi Hs.
  pose proof (pad4_ok Y HY) as PY. pose proof (pad2_ok M HM) as PM. pose proof (pad2_ok D HD) as PD.
  pose proof (pad2_ok h Hh) as Ph. pose proof (pad2_ok mi Hmi) as Pmi. pose proof (pad2_ok s Hs) as Ps.
  unfold pad4_good, pad2_good, digits in *.
  rewrite !andb_true_iff in *. rewrite !Nat.eqb_eq in *. rewrite !negb_true_iff in *.
  unfold wf_time, date_string, digits. cbn [t_year t_month t_day t_hour t_full].
  rewrite !sall_app, !slen_app.
  destruct PY as [[[PY0 PY1] PY2] [PY3 PY4]], PM as [[PM0 PM1] PM2], PD as [[PD0 PD1] PD2],
    Ph as [[Ph0 Ph1] Ph2], Pmi as [[Pmi0 Pmi1] Pmi2], Ps as [[Ps0 Ps1] Ps2].
  rewrite PY1, PY2, PY3, PY4, PM0, PM1, PM2, PD0, PD1, PD2, Ph0, Ph1, Ph2, Pmi1, Pmi2, Ps1, Ps2.
  simpl. rewrite andb_true_r.
  destruct (pad4 Y); [discriminate|reflexivity].
Qed.
(* ---------- the key ---------- *)
Lemma wf_comp_spec s : wf_comp s = true -> s <> "" /\ s <> "/" /\ strip s = s.
Proof.
  unfold wf_comp. rewrite andb_true_iff, negb_true_iff, String.eqb_neq. intros [Hn Hs].
  repeat split; auto.
  - intros ->. discriminate.
  - now apply strip_nonslash.
Qed.
Lemma comp_wf s : wf_comp s = true -> comp s = (s ++ "/")%string.
Proof.
  intros H. destruct (wf_comp_spec s H) as (H1 & H2 & H3). unfold comp.
  apply String.eqb_neq in H1. now rewrite H3, H1.
Qed.
Lemma comp_last_wf s : wf_comp s = true -> comp_last s = s.
Proof.
  intros H. destruct (wf_comp_spec s H) as (H1 & H2 & H3). unfold comp_last.
  apply String.eqb_neq in H1. now rewrite H3, H1.
Qed.
Lemma digits_wf_comp s : digits s = true -> wf_comp s = true.
Proof.
  unfold digits, wf_comp. rewrite !andb_true_iff. intros [H1 H2]. split; auto.
  eapply sall_impl; [apply is_digit_nonslash|auto].
Qed.

(* fmt.Sprintf("%s_%d", full, firstWalStart) *)
Definition base_name (t : tstamp) (lsn : N) : string := (t_full t ++ "_" ++ dec lsn)%string.
(* <yyyy>/<mm>/<dd>/<hh>/ *)
Definition dir_of (t : tstamp) : string :=
  (t_year t ++ "/" ++ t_month t ++ "/" ++ t_day t ++ "/" ++ t_hour t ++ "/")%string.

Lemma base_name_wf t lsn : digits (t_full t) = true -> wf_comp (base_name t lsn) = true.
Proof.
  unfold digits, wf_comp, base_name. rewrite !andb_true_iff. intros [_ H]. split.
  - destruct (t_full t); reflexivity.
  - rewrite !sall_app. rewrite (sall_impl _ _ _ is_digit_nonslash H).
    rewrite (sall_impl _ _ _ is_digit_nonslash (dec_digits lsn)). reflexivity.
Qed.

(* what the code computes, for EVERY key space *)
Lemma s3_key_full ks t lsn : wf_time t = true ->
  s3_key ks t lsn = (comp ks ++ dir_of t ++ t_full t ++ "_" ++ dec lsn ++ ".gz")%string.
Proof.
  unfold wf_time. rewrite !andb_true_iff. intros [[[[[Hy Hm] Hd] Hh] Hf] _].
  unfold s3_key. rewrite key_join6.
  rewrite (comp_wf _ (digits_wf_comp _ Hy)), (comp_wf _ (digits_wf_comp _ Hm)),
          (comp_wf _ (digits_wf_comp _ Hd)), (comp_wf _ (digits_wf_comp _ Hh)).
  change (t_full t ++ "_" ++ dec lsn)%string with (base_name t lsn).
  rewrite (comp_last_wf _ (base_name_wf t lsn Hf)).
  unfold dir_of, base_name. rewrite !sapp_assoc. reflexivity.
Qed.

(* the key as the property states it: <key space>/<yyyy>/<mm>/<dd>/<hh>/<full>_<lsn>.gz, every
   component stripped of surrounding slashes, empty or slash-only components omitted *)
Definition slash_only (s : string) : bool := String.eqb (strip s) "".
Definition spec_key (ks : string) (t : tstamp) (lsn : N) : string :=
  (String.concat "/" (map strip (filter (fun c => negb (slash_only c))
     [ks; t_year t; t_month t; t_day t; t_hour t; base_name t lsn])) ++ ".gz")%string.

Lemma slash_only_wf s : wf_comp s = true -> slash_only s = false.
Proof.
  intros H. destruct (wf_comp_spec s H) as (H1 & _ & H3). unfold slash_only. rewrite H3.
  now apply String.eqb_neq.
Qed.

Lemma spec_key_full ks t lsn : wf_time t = true ->
  spec_key ks t lsn =
  ((if slash_only ks then "" else strip ks ++ "/") ++ dir_of t ++ t_full t ++ "_" ++ dec lsn ++ ".gz")%string.
Proof.
  unfold wf_time. rewrite !andb_true_iff. intros [[[[[Hy Hm] Hd] Hh] Hf] _].
  pose proof (digits_wf_comp _ Hy) as Wy. pose proof (digits_wf_comp _ Hm) as Wm.
  pose proof (digits_wf_comp _ Hd) as Wd. pose proof (digits_wf_comp _ Hh) as Wh.
  pose proof (base_name_wf t lsn Hf) as Wb.
  unfold spec_key. cbn [filter].
  rewrite (slash_only_wf _ Wy), (slash_only_wf _ Wm), (slash_only_wf _ Wd), (slash_only_wf _ Wh),
          (slash_only_wf _ Wb). cbn [negb].
  destruct (wf_comp_spec _ Wy) as (_ & _ & Sy). destruct (wf_comp_spec _ Wm) as (_ & _ & Sm).
  destruct (wf_comp_spec _ Wd) as (_ & _ & Sd). destruct (wf_comp_spec _ Wh) as (_ & _ & Sh).
  destruct (wf_comp_spec _ Wb) as (_ & _ & Sb).
  destruct (slash_only ks); cbn [negb map String.concat]; rewrite Sy, Sm, Sd, Sh, Sb;
    unfold dir_of, base_name; rewrite !sapp_assoc; reflexivity.
Qed.

(* the key equals the stated format, for EVERY key space *)
Lemma key_format ks t lsn : wf_time t = true -> s3_key ks t lsn = spec_key ks t lsn.
Proof. intros Ht. rewrite s3_key_full, spec_key_full by auto. reflexivity. Qed.

(* a slash-only key space of any length (also "") leaves no trace in the key *)
Lemma key_omission ks t lsn : wf_time t = true -> slash_only ks = true ->
  s3_key ks t lsn = (dir_of t ++ t_full t ++ "_" ++ dec lsn ++ ".gz")%string.
Proof. intros Ht Hs. rewrite s3_key_full by auto. unfold comp. unfold slash_only in Hs. now rewrite Hs. Qed.

Lemma key_injective ks t1 t2 l1 l2 : wf_time t1 = true -> wf_time t2 = true ->
  s3_key ks t1 l1 = s3_key ks t2 l2 -> t_full t1 = t_full t2 /\ l1 = l2.
Proof.
  intros H1 H2 E. rewrite !s3_key_full in E by auto. apply sapp_inv_head in E.
  unfold wf_time in H1, H2. rewrite !andb_true_iff, Nat.eqb_eq in H1, H2.
  destruct H1 as [_ L1], H2 as [_ L2].
  assert (A : forall t l, (dir_of t ++ t_full t ++ "_" ++ dec l ++ ".gz")%string =
                          ((dir_of t ++ t_full t) ++ "_" ++ (dec l ++ ".gz"))%string)
    by (intros; now rewrite !sapp_assoc).
  rewrite !A in E. apply split_last_us in E.
  - destruct E as [Ea Eb]. apply sapp_same_len_tail in Ea; [|congruence].
    apply sapp_inv_tail in Eb. apply dec_inj in Eb. tauto.
  - rewrite sall_app, (sall_impl _ _ _ is_digit_notus (dec_digits l1)). reflexivity.
  - rewrite sall_app, (sall_impl _ _ _ is_digit_notus (dec_digits l2)). reflexivity.
Qed.
(* ---------- one record per line ---------- *)
Definition is_nl (c : ascii) : bool := Ascii.eqb c (ascii_of_N 10).
Definition notnl (c : ascii) : bool := negb (is_nl c).
(* the lines of a text: maximal runs without "\n", each ended by "\n" (an unterminated rest
   counts as a line) *)
Fixpoint lines_of (s : string) (cur : string) : list string :=
  match s with
  | EmptyString => if String.eqb cur "" then [] else [cur]
  | String c r => if is_nl c then cur :: lines_of r "" else lines_of r (cur ++ String c "")
  end.

Lemma lines_of_record j : forall cur rest, sall notnl j = true ->
  lines_of (j ++ nl ++ rest) cur = (cur ++ j)%string :: lines_of rest "".
Proof.
  induction j as [|c j IH]; intros cur rest H.
  - simpl. now rewrite sapp_nil_r.
  - simpl in H. rewrite andb_true_iff in H. destruct H as [Hc Hj].
    unfold notnl in Hc. apply negb_true_iff in Hc. cbn [append lines_of]. rewrite Hc.
    rewrite IH by auto. rewrite sapp_assoc. reflexivity.
Qed.

Lemma lines_of_plain ms : (forall m, In m ms -> sall notnl (m_json m) = true) ->
  lines_of (plain ms) "" = map m_json ms.
Proof.
  induction ms as [|m ms IH]; intros H; [reflexivity|].
  cbn [plain map]. rewrite lines_of_record by (apply H; now left).
  rewrite IH by (intros; apply H; now right). reflexivity.
Qed.

(* ---------- the upload loop ---------- *)
Lemma upload_spec tries : forall key body script atts ok,
  upload tries key body 0 script = (atts, ok) ->
  (forall a, In a atts ->
     a_key a = key /\ a_off a = O /\ a_body a = body /\ exists n, a_read a = stake n body) /\
  (ok = true -> exists pre a, atts = pre ++ [a] /\ a_ok a = true /\ a_read a = body /\
                              forall x, In x pre -> a_ok x = false) /\
  (ok = false -> (forall a, In a atts -> a_ok a = false) /\ List.length atts = tries) /\
  (List.length atts <= tries)%nat.
Proof.
  induction tries as [|k IH]; intros key body script atts ok E.
  - simpl in E. inversion E; subst. split; [intros a []|]. split; [discriminate|].
    split; [|simpl; lia]. intros _. split; [intros a []|reflexivity].
  - cbn [upload] in E.
    assert (OKCASE : ([mkAtt key 0 body (sdrop 0 body) true], true) = (atts, ok) ->
      (forall a, In a atts ->
         a_key a = key /\ a_off a = O /\ a_body a = body /\ exists n, a_read a = stake n body) /\
      (ok = true -> exists pre a, atts = pre ++ [a] /\ a_ok a = true /\ a_read a = body /\
                                  forall x, In x pre -> a_ok x = false) /\
      (ok = false -> (forall a, In a atts -> a_ok a = false) /\ List.length atts = S k) /\
      (List.length atts <= S k)%nat).
    { intros E'. inversion E'; subst. rewrite ?sdrop_0. repeat split; try discriminate.
      - destruct H as [<-|[]]; reflexivity.
      - destruct H as [<-|[]]; reflexivity.
      - destruct H as [<-|[]]; reflexivity.
      - destruct H as [<-|[]]. exists (length body). simpl. symmetry. apply stake_all. lia.
      - intros _. exists [], (mkAtt key 0 body body true). simpl. intuition.
      - simpl. lia. }
    destruct script as [|[n|] rest]; auto.
    unfold seek_start in E.
    destruct (upload k key body 0 rest) as [l ok'] eqn:U. inversion E; subst. clear E.
    destruct (IH _ _ _ _ _ U) as (A & B & C & D). rewrite ?sdrop_0.
    split; [|split; [|split]].
    + intros a [<-|Ha]; [|now apply A]. simpl. repeat split. now exists (N.to_nat n).
    + intros Hok. destruct (B Hok) as (pre & a & -> & Ha1 & Ha2 & Hpre).
      exists (mkAtt key 0 body (stake (N.to_nat n) body) false :: pre), a.
      repeat split; auto. intros x [<-|Hx]; auto.
    + intros Hok. destruct (C Hok) as [C1 C2]. split.
      * intros a [<-|Ha]; auto.
      * simpl. now rewrite C2.
    + simpl. lia.
Qed.

Section Worker.
  Variable gzip : string -> string.

  (* whatever the history of the buffers, after the reuse-or-recreate step and the writes the
     buffer the reader is made over holds exactly the compressed stream of this batch *)
  Lemma prepare_write max_reuse w data :
    w_content (write_close gzip (prepare max_reuse w) data) = gzip data.
  Proof.
    unfold write_close, prepare. destruct (_ >? _)%Z; cbn; rewrite N.eqb_refl; reflexivity.
  Qed.

  (* the reuse rule as coded: the use counter stays within 0..bufMaxReuse, and a fresh pair of
     buffer and writer is made exactly when the counter would exceed the limit *)
  Lemma prepare_rule max_reuse w :
    let w' := prepare max_reuse w in
    if (w_used w + 1 >? max_reuse)%Z
    then w_used w' = 0%Z /\ w_buf w' = w_fresh w /\ w_gz w' = w_fresh w /\ w_fresh w' = (w_fresh w + 1)%N
    else w_used w' = (w_used w + 1)%Z /\ w_buf w' = w_buf w /\ w_gz w' = w_gz w /\ w_fresh w' = w_fresh w.
  Proof. unfold prepare. destruct (_ >? _)%Z; cbn; auto. Qed.

  (* the result of processing batch [b] from some worker state *)
  Definition result_of ks max_reuse retries (b : binput) (res : bres) : Prop :=
    exists w, snd (step gzip ks max_reuse retries w b) = res.

  Lemma run_nth ks max_reuse retries : forall bs w i b res,
    nth_error bs i = Some b ->
    nth_error (run gzip ks max_reuse retries w bs) i = Some res ->
    result_of ks max_reuse retries b res.
  Proof.
    induction bs as [|b0 bs IH]; intros w i b res Hb Hr; [destruct i; discriminate|].
    cbn [run] in Hr.
    destruct (step gzip ks max_reuse retries w b0) as [w' res0] eqn:S0.
    assert (HEAD : forall j, nth_error [res0] j = Some res -> nth_error (b0 :: bs) j = Some b ->
                   result_of ks max_reuse retries b res).
    { intros [|j] H1 H2; [|destruct j; discriminate]. inversion H1; inversion H2; subst.
      exists w. now rewrite S0. }
    destruct (b_cancel b0) eqn:Cb.
    - destruct (r_outcome res0); try (eapply HEAD; eauto; fail).
      destruct i as [|i]; [apply (HEAD O); auto|]. simpl in Hr, Hb. eapply IH; eauto.
    - destruct i; discriminate.
    - destruct (r_outcome res0); eapply HEAD; eauto.
    - destruct (r_outcome res0); eapply HEAD; eauto.
  Qed.

  Lemma step_attempts ks max_reuse retries b res : result_of ks max_reuse retries b res ->
    (forall a, In a (r_atts res) ->
       a_off a = O /\ a_body a = gzip (plain (b_msgs b)) /\
       (exists n, a_read a = stake n (a_body a)) /\
       exists m0, hd_error (b_msgs b) = Some m0 /\ a_key a = s3_key ks (b_time b) (m_lsn m0)) /\
    (r_outcome res = Written ->
       exists pre a, r_atts res = pre ++ [a] /\ a_ok a = true /\ a_read a = gzip (plain (b_msgs b)) /\
                     (forall x, In x pre -> a_ok x = false) /\ b_cancel b <> CBeforeCheck /\ b_msgs b <> []) /\
    (r_outcome res = RetriesExhausted ->
       (forall a, In a (r_atts res) -> a_ok a = false) /\ List.length (r_atts res) = S (N.to_nat retries)) /\
    (r_outcome res = PanicEmptyBatch <-> b_msgs b = []) /\
    (List.length (r_atts res) <= S (N.to_nat retries))%nat.
  Proof.
    intros [w <-]. unfold step. rewrite prepare_write.
    destruct (b_msgs b) as [|m0 ms] eqn:Hm.
    - cbn [snd r_atts r_outcome]. split; [intros a []|]. split; [discriminate|].
      split; [discriminate|]. split; [tauto|simpl; lia].
    - destruct (upload _ _ _ _ _) as [atts ok] eqn:U.
      destruct (upload_spec _ _ _ _ _ _ U) as (A & B & C & D).
      cbn [snd r_atts r_outcome]. split; [|split; [|split; [|split]]].
      + intros a Ha. destruct (A a Ha) as (K & O & Bd & n & R). repeat split; auto.
        * exists n. now rewrite Bd.
        * exists m0. auto.
      + intros Hw. destruct ok; [|discriminate].
        destruct (B eq_refl) as (pre & a & -> & H1 & H2 & H3).
        exists pre, a. repeat split; auto; [|discriminate].
        intros Cc. rewrite Cc in Hw. discriminate.
      + intros Hw. destruct ok; [destruct (b_cancel b); discriminate|]. now apply C.
      + split; [|discriminate]. destruct ok; [destruct (b_cancel b)|]; discriminate.
      + exact D.
  Qed.

  Section Gunzip.
    Variable gunzip : string -> option string.
    Hypothesis gunzip_gzip : forall x, gunzip (gzip x) = Some x.

    Lemma body_written ks max_reuse retries w bs i b res :
      nth_error bs i = Some b ->
      nth_error (run gzip ks max_reuse retries w bs) i = Some res ->
      r_outcome res = Written ->
      exists a, In a (r_atts res) /\ a_ok a = true /\
                a_off a = O /\ gunzip (a_read a) = Some (plain (b_msgs b)) /\
                (forall x, In x (r_atts res) -> x <> a -> a_ok x = false).
    Proof.
      intros Hb Hr Hw. pose proof (run_nth _ _ _ _ _ _ _ _ Hb Hr) as R.
      destruct (step_attempts _ _ _ _ _ R) as (A & B & _).
      destruct (B Hw) as (pre & a & E & H1 & H2 & H3 & _).
      exists a. assert (Ia : In a (r_atts res)) by (rewrite E; apply in_or_app; right; now left).
      repeat split; auto.
      - now destruct (A a Ia).
      - rewrite H2. apply gunzip_gzip.
      - intros x Hx Hne. rewrite E in Hx. apply in_app_or in Hx. destruct Hx as [Hx|[Hx|[]]]; auto.
        congruence.
    Qed.
  End Gunzip.

  Lemma every_attempt ks max_reuse retries w bs i b res a :
    nth_error bs i = Some b ->
    nth_error (run gzip ks max_reuse retries w bs) i = Some res ->
    In a (r_atts res) ->
    a_off a = O /\ a_body a = gzip (plain (b_msgs b)) /\
    (exists n, a_read a = stake n (a_body a)) /\
    exists m0, hd_error (b_msgs b) = Some m0 /\ a_key a = s3_key ks (b_time b) (m_lsn m0).
  Proof.
    intros Hb Hr Ha. pose proof (run_nth _ _ _ _ _ _ _ _ Hb Hr) as R.
    destruct (step_attempts _ _ _ _ _ R) as (A & _). now apply A.
  Qed.

  Lemma retry_budget ks max_reuse retries w bs i res :
    nth_error (run gzip ks max_reuse retries w bs) i = Some res ->
    (List.length (r_atts res) <= S (N.to_nat retries))%nat /\
    (r_outcome res = RetriesExhausted ->
       List.length (r_atts res) = S (N.to_nat retries) /\ forall a, In a (r_atts res) -> a_ok a = false).
  Proof.
    intros Hr.
    assert (L : (i < List.length bs)%nat).
    { apply nth_error_Some. intros N.
      assert (LL : forall bs w, (List.length (run gzip ks max_reuse retries w bs) <= List.length bs)%nat).
      { clear. induction bs as [|b bs IH]; intros w; simpl; auto.
        destruct (b_cancel b); simpl; try lia;
          destruct (step gzip ks max_reuse retries w b) as [w' r0];
          destruct (r_outcome r0); simpl; try lia. specialize (IH w'). lia. }
      apply nth_error_None in N. specialize (LL bs w).
      assert (nth_error (run gzip ks max_reuse retries w bs) i = None) by (apply nth_error_None; lia).
      congruence. }
    destruct (nth_error bs i) as [b|] eqn:Hb; [|apply nth_error_None in Hb; lia].
    pose proof (run_nth _ _ _ _ _ _ _ _ Hb Hr) as R.
    destruct (step_attempts _ _ _ _ _ R) as (_ & _ & C & _ & D). split; auto.
    intros Hx. destruct (C Hx). auto.
  Qed.

  (* an empty batch: index out of range at messagesSlice[0], no upload, no report *)
  Lemma empty_batch_panics ks max_reuse retries w bs i b res :
    nth_error bs i = Some b ->
    nth_error (run gzip ks max_reuse retries w bs) i = Some res ->
    (r_outcome res = PanicEmptyBatch <-> b_msgs b = []) /\
    (r_outcome res = PanicEmptyBatch -> r_atts res = []).
  Proof.
    intros Hb Hr. pose proof (run_nth _ _ _ _ _ _ _ _ Hb Hr) as R.
    destruct (step_attempts _ _ _ _ _ R) as (_ & _ & _ & P & _). split; auto.
    intros Hp. apply P in Hp. destruct R as [w0 <-]. unfold step. rewrite Hp. reflexivity.
  Qed.
End Worker.
